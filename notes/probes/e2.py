import warnings; warnings.filterwarnings("ignore")
from common import *
from pytreenet.ttns.ttndo import from_ttns
from pytreenet.operators.tensorproduct import TensorProduct
rng = random.Random(2)
nprs = np.random.RandomState(5)
for trial in range(6):
    n = rng.randrange(1,5)
    par = random_tree_shape(rng,n)
    ttn = build_ttns(rng, par)
    ids = sorted(ttn.nodes.keys())
    psi = dense_state(ttn)
    v = psi.reshape(-1)
    for rb in (1,2,3):
        try:
            dd = from_ttns(ttn, root_bond_dim=rb)
            tr = dd.trace()
            print(n, par, "rb",rb,"trace", tr, "expected", np.vdot(v,v))
        except Exception as e:
            print(n, par, "rb", rb, "trace EXC", type(e).__name__, e)
        # tensor products on k sites
        for k in range(0, n+1):
            sites = rng.sample(ids, k)
            ops = {s: nprs.standard_normal((ttn.nodes[s].open_dimension(),)*2)+1j*nprs.standard_normal((ttn.nodes[s].open_dimension(),)*2) for s in sites}
            # dense expectation
            phi = psi
            for s,o in ops.items():
                ax = ids.index(s)
                phi = np.moveaxis(np.tensordot(o, phi, axes=(1,ax)), 0, ax)
            exp_dense = np.vdot(psi.reshape(-1), phi.reshape(-1))
            try:
                got = dd.operator_expectation_value(TensorProduct(ops))
            except Exception as e:
                got = f"EXC {type(e).__name__} {e}"
            try:
                got2 = ttn.operator_expectation_value(TensorProduct(ops))
            except Exception as e:
                got2 = f"EXC {type(e).__name__} {e}"
            flag = "" if (not isinstance(got,str) and abs(got-exp_dense)<1e-8*max(1,abs(exp_dense))) else "  <-- TTNDO MISMATCH"
            flag2 = "" if (not isinstance(got2,str) and abs(got2-exp_dense)<1e-8*max(1,abs(exp_dense))) else "  <-- TTNS MISMATCH"
            if flag or flag2: print("   k",k,"dense",exp_dense,"ttndo",got,flag,"ttns",got2,flag2)
