"""Functional (structurally recursive) prototype of the C17/C05 discrete models, compared with the code.
rtree = (id, [children rtrees]).  Everything here is what Tree/Nav.v, Tree/UpdatePath.v, Sched/TDVP.v will say."""
import warnings; warnings.filterwarnings("ignore")
import sys, itertools, collections
sys.path.insert(0,'/repo')
from pytreenet.core.tree_structure import TreeStructure
from pytreenet.core.graph_node import GraphNode
from pytreenet.time_evolution.time_evo_util.update_path import TDVPUpdatePathFinder
from pytreenet.contractions.sandwich_caching import _find_caching_path

# ---------- model ----------
def ids(t): return [t[0]] + [x for c in t[1] for x in ids(c)]          # preorder
def linearise(t): return [x for c in t[1] for x in linearise(c)] + [t[0]]  # postorder
def root_path(t, x):
    """path from root down to x (list) or None"""
    if t[0]==x: return [x]
    for c in t[1]:
        p=root_path(c,x)
        if p is not None: return [t[0]]+p
    return None
def path_to_root(t,x): return list(reversed(root_path(t,x)))
def path_from_to(t,a,b):       # literal model of the code
    if a==b: return [a]
    pa=path_to_root(t,a); pb=path_to_root(t,b)
    comb=pa+pb
    nd=len([j for j in comb if comb.count(j)!=1])//2
    first = pa[:len(pa)-nd+1] if -nd+1!=0 else pa[:]
    second = pb[:len(pb)-nd]
    return first + list(reversed(second))
def depths(t,d=0):             # preorder assoc list (id, depth) == distance_to_node(root) dict order
    return [(t[0],d)] + [x for c in t[1] for x in depths(c,d+1)]
def first_max(al):
    best=None
    for k,v in al:
        if best is None or v>best[1]: best=(k,v)
    return best[0]
def subtree(t,x):
    if t[0]==x: return t
    for c in t[1]:
        s=subtree(c,x)
        if s: return s
    return None
def leaves(t): return [t[0]] if not t[1] else [x for c in t[1] for x in leaves(c)]
def update_path(t):
    dep=depths(t); start=first_max(dep)
    main=path_to_root(t,start)            # start ... root
    path=[]
    for o in main:
        if o!=t[0]:
            st=subtree(t,o)
            for c in st[1]:
                if c[0] not in main: path+=linearise(c)
            path.append(o)
        else:
            if len(t[1])==1: path.append(t[0]); continue
            nonvis=[(k,v) for k,v in dep if k in leaves(t) and k not in path]
            if not nonvis: # single node tree
                path.append(t[0]); continue
            end=first_max(nonvis)
            down=root_path(t,end)
            for o2 in down:
                st=subtree(t,o2)
                if o2==t[0]:
                    excl=((main[-2],) if len(main)>=2 else ())+((down[1],) if len(down)>=2 else ())
                    for c in st[1]:
                        if c[0] not in excl: path+=linearise(c)
                else:
                    for c in st[1]:
                        if c[0] not in down: path+=linearise(c)
                path.append(o2)
    return path
def caching(t, first):
    init=root_path(t,first)                      # root ... first
    nxt={init[i]:init[i+1] for i in range(len(init)-1)}
    out=[]
    def rec(x):
        st=subtree(t,x)
        for c in st[1]:
            if c[0] not in init: rec(c[0])
        if x not in nxt and x!=init[-1]:
            nxt[x]=parent[x]
        out.append(x)
    parent={}
    def fillp(tt):
        for c in tt[1]: parent[c[0]]=tt[0]; fillp(c)
    fillp(t)
    for x in init: rec(x)
    return out,nxt
# ---------- TDVP traces (second order one site, first order, two site) ----------
def orth_paths(t,up): return [path_from_to(t,up[i],up[i+1])[1:] for i in range(len(up)-1)]
def trace1(t):
    up=update_path(t); op=orth_paths(t,up); ev=[]
    for i,n in enumerate(up):
        if i==len(up)-1:
            if op: ev+=moves(op[-1], up[-2] if False else None, prev=None)
            ev.append(("site",n,1))
        elif i==0:
            ev+= [("site",n,1),("link",n,op[0][0],1)]
        else:
            ev+=moves(op[i-1]); ev+=[("site",n,1),("link",n,op[i][0],1)]
    return ev
def moves(path, *a, **k):
    return [("move",path[j],path[j+1]) for j in range(len(path)-1)]
def trace2(t):
    up=update_path(t); op=orth_paths(t,up); ev=[]
    for i,n in enumerate(up[:-1]):
        if i>0: ev+=moves(op[i-1])
        ev+=[("site",n,0.5),("link",n,op[i][0],0.5)]
    ev.append(("site",up[-1],1))
    bup=list(reversed(up))
    bop=[path_from_to(t,n,bup[i+2])[:-1] for i,n in enumerate(bup[1:-1])]+[[bup[-1]]]
    cur=bup[0]
    ev.append(("link",cur,bup[1],0.5)); cur=bup[1]
    for i,n in enumerate(bup[1:-1]):
        ui=i+1
        ev.append(("site",n,0.5))
        ev+=moves(bop[ui-1]); cur=bop[ui-1][-1]
        ev.append(("link",cur,bup[ui+1],0.5)); cur=bup[ui+1]
    ev.append(("site",bup[-1],0.5))
    return ev
def trace2s(t):
    up=update_path(t); op=orth_paths(t,up); ev=[]
    for i,n in enumerate(up[:-2]):
        if i>0: ev+=moves(op[i-1])
        nx=op[i][0]
        ev+=[("two",n,nx,0.5),("siteback",nx,0.5)]
    ev.append(("two",up[-2],up[-1],0.5))
    bup=list(reversed(up)); bop=[list(reversed(p)) for p in reversed(op)]
    for i in range(len(bup)-1):
        if i==0: ev.append(("two",bup[0],bup[1],0.5))
        else:
            ev+=moves(bop[i]); tgt=bop[i][-1]
            ev+=[("siteback",tgt,0.5),("two",tgt,bup[i+1],0.5)]
    return ev
# ---------- compare ----------
def all_trees(n):
    for par in itertools.product(*[range(i) for i in range(1,n)]): yield [None]+list(par)
def to_rtree(par):
    ch=collections.defaultdict(list)
    for i,p in enumerate(par):
        if p is not None: ch[p].append(i)
    def b(i): return (f"n{i}",[b(c) for c in ch[i]])
    return b(0)
def mk(par):
    t=TreeStructure(); t.add_root(GraphNode("n0"))
    for i in range(1,len(par)): t.add_child_to_parent(GraphNode(f"n{i}"), f"n{par[i]}")
    return t
if __name__=="__main__":
    bad=0; tot=0
    for n in range(1,8):
        for par in all_trees(n):
            T=mk(par); t=to_rtree(par); tot+=1
            ok = T.linearise()==linearise(t)
            ok = ok and list(T.distance_to_node("n0").items())==depths(t)
            up=TDVPUpdatePathFinder(T).find_path()
            ok = ok and up==update_path(t)
            for a in range(n):
                for b in range(n):
                    ok = ok and T.path_from_to(f"n{a}",f"n{b}")==path_from_to(t,f"n{a}",f"n{b}")
            cp,nd=_find_caching_path(T,up[0]); mcp,mnd=caching(t,up[0])
            ok = ok and cp==mcp and nd==mnd
            if not ok:
                bad+=1
                if bad<5: print("MISMATCH",par,up,update_path(t))
    print("trees",tot,"bad",bad)
