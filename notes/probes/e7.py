import warnings; warnings.filterwarnings("ignore")
from common import *
from pytreenet.core.ttn import TreeTensorNetwork as TTN
from pytreenet.core.leg_specification import LegSpecification
from pytreenet.util.tensor_splitting import SplitMode, SVDParameters
import collections, traceback, copy, string
rng = random.Random(7)

def dense_any(ttn):
    """dense contraction, returns (tensor, labels) with labels (node_id, open_index) in sorted node order"""
    ids = sorted(ttn.nodes.keys())
    letters = iter(string.ascii_letters)
    bond={}; subs=[]; ops=[]; out=""; labels=[]
    for nid in ids:
        node = ttn.nodes[nid]; t = ttn.tensors[nid]
        s=""
        if not node.is_root():
            key=(node.parent,nid); bond.setdefault(key,next(letters)); s+=bond[key]
        for c in node.children:
            key=(nid,c); bond.setdefault(key,next(letters)); s+=bond[key]
        for k in range(node.nopen_legs()):
            l=next(letters); s+=l; out+=l; labels.append((nid,k))
        subs.append(s); ops.append(t)
    return np.einsum(",".join(subs)+"->"+out,*ops), labels

def wellformed(ttn):
    errs=[]
    roots=[i for i,n in ttn.nodes.items() if n.is_root()]
    if roots!=[ttn.root_id]: errs.append(f"roots {roots} vs {ttn.root_id}")
    if set(ttn.nodes)!=set(ttn._tensors.data): errs.append("keysets differ")
    for i,n in ttn.nodes.items():
        if n.identifier!=i: errs.append(f"id mismatch {i}")
        for c in n.children:
            if c not in ttn.nodes or ttn.nodes[c].parent!=i: errs.append(f"child link {i}->{c}")
        if n.parent is not None and (n.parent not in ttn.nodes or i not in ttn.nodes[n.parent].children): errs.append(f"parent link {i}")
        if len(set(n.children))!=len(n.children): errs.append("dup children")
    for i,n in ttn.nodes.items():
        raw = ttn._tensors.data[i]
        if tuple(n.shape)!=tuple(raw.transpose(n.leg_permutation).shape): errs.append(f"shape {i}")
        if n.parent is not None and not errs:
            p=ttn.nodes[n.parent]
            if p.shape[p.neighbour_index(i)]!=n.shape[0]: errs.append(f"bond dim {i}")
    return errs

# open legs tracking: each open leg carries a unique dimension-tag via a 'wire id' stored in side table keyed by (node, open idx)
res=collections.Counter(); ex=[]
for trial in range(300):
    n=rng.randrange(1,6)
    par=random_tree_shape(rng,n)
    ttn=build_ttns(rng,par,cls=TTN)
    ref,labels=dense_any(ttn)
    refvec = np.sort(np.abs(ref.reshape(-1)))  # permutation-invariant fingerprint
    ops=[]
    try:
        for step in range(rng.randrange(1,8)):
            ids=list(ttn.nodes.keys())
            choice=rng.choice(["contract","splitqr","splitsvd","access","rename","identity"])
            if choice=="contract" and len(ids)>1:
                c=rng.choice([i for i in ids if ttn.nodes[i].parent is not None]); p=ttn.nodes[c].parent
                a,b=(c,p) if rng.random()<.5 else (p,c)
                newid=rng.choice(["",a,b,"X%d"%step])
                ops.append(("contract",a,b,newid)); ttn.contract_nodes(a,b,newid)
            elif choice in("splitqr","splitsvd"):
                i=rng.choice(ids); node=ttn.nodes[i]
                ch=list(node.children); rng.shuffle(ch)
                k=rng.randrange(0,len(ch)+1)
                och, ich = ch[:k], ch[k:]
                ol=list(node.open_legs); rng.shuffle(ol)
                k2=rng.randrange(0,len(ol)+1)
                oo, io = ol[:k2], ol[k2:]
                parent_in_out = rng.random()<.5
                out=LegSpecification(node.parent if (parent_in_out and node.parent) else None, och, oo)
                inn=LegSpecification(node.parent if (not parent_in_out and node.parent) else None, ich, io)
                if node.is_root():
                    if rng.random()<.5: out.is_root=True
                    else: inn.is_root=True
                oid=rng.choice(["",i,"O%d"%step]); iid=rng.choice(["","I%d"%step] + ([i] if oid!=i else []))
                ops.append((choice,i,str(out),str(inn),oid,iid))
                if choice=="splitqr":
                    mode=rng.choice(list(SplitMode))
                    if mode is SplitMode.KEEP and len(inn.find_all_neighbour_ids())+len(io)==0: mode=SplitMode.REDUCED
                    ops[-1]+= (mode.name,)
                    ttn.split_node_qr(i,out,inn,oid,iid,mode=mode)
                else:
                    ttn.split_node_svd(i,out,inn,oid,iid,svd_params=SVDParameters(max_bond_dim=float("inf"),rel_tol=float("-inf"),total_tol=float("-inf")))
            elif choice=="access":
                i=rng.choice(ids); ops.append(("access",i)); _=ttn.tensors[i]
            elif choice=="rename":
                i=rng.choice(ids); ops.append(("rename",i)); ttn.change_node_identifier("R%d"%step,i)
            elif choice=="identity" and len(ids)>1:
                c=rng.choice([i for i in ids if ttn.nodes[i].parent is not None]); p=ttn.nodes[c].parent
                ops.append(("identity",c,p)); ttn.insert_identity(c,p,"Id%d"%step)
            errs=wellformed(ttn)
            if errs: raise RuntimeError("WF "+str(errs))
            now,_=dense_any(ttn)
            if now.size!=ref.size or not np.allclose(np.sort(np.abs(now.reshape(-1))),refvec): raise RuntimeError("VALUE changed")
        res["ok"]+=1
    except Exception as e:
        res[type(e).__name__+":"+str(e)[:60]]+=1
        if len(ex)<8: ex.append((par,ops,traceback.format_exc().splitlines()[-4:]))
for k,v in res.most_common(): print(v,k)
for e in ex: print(e)
