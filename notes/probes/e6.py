import warnings; warnings.filterwarnings("ignore")
from common import *
from pytreenet.util.tensor_splitting import *
import collections, math
rng = random.Random(6)
res = collections.Counter(); ex={}
def spec(s, p):
    s=list(s); n=len(s)
    if p.sum_trunc:
        tot = sum(x*x for x in s)
        # longest tail whose squared weight (relative when normalising) <= total_tol^2
        keep = n
        if tot == 0: keep = 0
        else:
            thr = p.total_tol**2
            acc=0.0; keep=0
            for i in range(n-1,-1,-1):
                acc += s[i]**2
                val = acc/tot if p.sum_renorm else acc
                if val > thr:
                    keep = i+1; break
    else:
        cut = max(p.rel_tol*s[0], p.total_tol)
        keep = sum(1 for x in s if x>cut)
    if keep > p.max_bond_dim: keep = p.max_bond_dim
    if keep == 0: keep = 1
    new = s[:keep]
    if p.renorm:
        f = sum(s)/sum(new); new=[x*f for x in new]
    return new, s[keep:]
vals = [0.0, 1e-16, 1e-3, 0.1, 0.5, 1.0, 2.0]
for trial in range(4000):
    n = rng.randrange(1,6)
    s = sorted([rng.choice(vals) for _ in range(n)], reverse=True)
    kw = dict(max_bond_dim=rng.choice([1,2,3,100,float("inf")]),
              rel_tol=rng.choice([float("-inf"),0.0,1e-15,0.1,0.5,1.0]),
              total_tol=rng.choice([float("-inf"),0.0,1e-15,0.1,0.5,1.0, 2.0]),
              renorm=rng.random()<.3, sum_trunc=rng.random()<.5, sum_renorm=rng.random()<.5)
    p = SVDParameters(**kw)
    try:
        new, tr = truncate_singular_values(np.array(s), p)
        en, et = spec(s,p)
        ok = len(new)==len(en) and np.allclose(new,en, equal_nan=True) and len(tr)==len(et) and np.allclose(tr,et)
        key = ("sum" if p.sum_trunc else "val", "ok" if ok else "MISMATCH")
        res[key]+=1
        if not ok and len(ex)<6: ex[trial]=(s,kw,list(new),list(tr),en,et)
    except Exception as e:
        res[("EXC",type(e).__name__,str(e)[:40])]+=1
        if len(ex)<6: ex[trial]=(s,kw,str(e))
for k in sorted(res): print(k,res[k])
for k,v in ex.items(): print(v)
