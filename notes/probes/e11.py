import warnings; warnings.filterwarnings("ignore")
from common import *
import collections, traceback, itertools
from pytreenet.core.tree_structure import TreeStructure
from pytreenet.core.graph_node import GraphNode
from pytreenet.time_evolution.time_evo_util.update_path import TDVPUpdatePathFinder
from pytreenet.contractions.sandwich_caching import _find_caching_path
res=collections.Counter(); ex=[]
def all_trees(n):
    # all parent arrays with parent[i]<i gives all rooted ordered (by insertion) labelled-increasing trees
    for par in itertools.product(*[range(i) for i in range(1,n)]):
        yield [None]+list(par)
def mk(par, perm=None):
    t=TreeStructure(); t.add_root(GraphNode("n0"))
    for i in range(1,len(par)): t.add_child_to_parent(GraphNode(f"n{i}"), f"n{par[i]}")
    return t
def bfs_dist(par,src):
    n=len(par); adj={i:[] for i in range(n)}
    for i,p in enumerate(par):
        if p is not None: adj[i].append(p); adj[p].append(i)
    d={src:0}; q=[src]; prev={}
    while q:
        x=q.pop(0)
        for y in adj[x]:
            if y not in d: d[y]=d[x]+1; prev[y]=x; q.append(y)
    return d,prev,adj
for n in range(1,8):
    for par in all_trees(n):
        t=mk(par)
        try:
            ok=True
            for a in range(n):
                d,prev,adj=bfs_dist(par,a)
                dd=t.distance_to_node(f"n{a}")
                if {f"n{k}":v for k,v in d.items()}!=dd: ok=False; why="dist"
                for b in range(n):
                    p=t.path_from_to(f"n{a}",f"n{b}")
                    # expected path from a to b: walk prev from b
                    e=[b]
                    while e[-1]!=a: e.append(prev[e[-1]])
                    e=[f"n{x}" for x in reversed(e)]
                    if p!=e: ok=False; why=("path",a,b,p,e)
            lin=t.linearise()
            pos={x:i for i,x in enumerate(lin)}
            if sorted(lin)!=sorted(t.nodes) or any(pos[f"n{i}"]>pos[f"n{par[i]}"] for i in range(1,n)) or lin[-1]!="n0": ok=False; why="lin"
            up=TDVPUpdatePathFinder(t).find_path()
            d0,_,adj=bfs_dist(par,0)
            if sorted(up)!=sorted(t.nodes): ok=False; why=("up perm",up)
            else:
                if d0[int(up[0][1:])]!=max(d0.values()) or len(adj[int(up[0][1:])])>1 and n>1: ok=False; why=("start",up)
                if len(adj[int(up[-1][1:])])>1: ok=False; why=("end deg",up)
                cross=collections.Counter()
                for x,y in zip(up,up[1:]):
                    pth=t.path_from_to(x,y)
                    for u,v in zip(pth,pth[1:]): cross[frozenset((u,v))]+=1
                if cross and max(cross.values())>2: ok=False; why=("cross",up,dict(cross))
            # caching path
            class S: pass
            cp,nd=_find_caching_path(t,up[0])
            keys={(x,nd[x]) for x in cp[:-1]}
            _,prevs,_=bfs_dist(par,int(up[0][1:]))
            want={(f"n{x}",f"n{prevs[x]}") for x in range(n) if x!=int(up[0][1:])}
            if keys!=want: ok=False; why=("cache",keys,want)
            res["ok" if ok else "BAD"]+=1
            if not ok and len(ex)<6: ex.append((par,why))
        except Exception as e:
            res["EXC "+type(e).__name__]+=1
            if len(ex)<6: ex.append((par,traceback.format_exc().splitlines()[-3:]))
print(dict(res)); 
for e in ex: print(e)
