import ast, sys
# print source with docstrings removed, keeping line numbers
for path in sys.argv[1:]:
    src = open(path).read()
    tree = ast.parse(src)
    doc_lines = set()
    for node in ast.walk(tree):
        if isinstance(node, (ast.FunctionDef, ast.ClassDef, ast.Module, ast.AsyncFunctionDef)):
            if node.body and isinstance(node.body[0], ast.Expr) and isinstance(getattr(node.body[0], 'value', None), ast.Constant) and isinstance(node.body[0].value.value, str):
                d = node.body[0]
                for l in range(d.lineno, d.end_lineno+1):
                    doc_lines.add(l)
    print(f"##### {path}")
    for i, line in enumerate(src.splitlines(), 1):
        if i in doc_lines or not line.strip():
            continue
        print(f"{i}: {line}")
