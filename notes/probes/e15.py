import warnings; warnings.filterwarnings("ignore")
from common import *
import collections, traceback, copy
from scipy.linalg import expm
from pytreenet.time_evolution.tebd import TEBD
from pytreenet.time_evolution.trotter import TrotterSplitting, TrotterStep, SWAPlist
from pytreenet.operators.tensorproduct import TensorProduct
from pytreenet.util.tensor_splitting import SVDParameters
rng=random.Random(15); nprs=np.random.RandomState(15)
res=collections.Counter(); ex=[]
def embed(ids,dims,sites,M):
    """dense operator acting on 'sites' (ordered) with matrix M (kron order = sites)"""
    n=len(ids); shp=[dims[i] for i in ids]
    D=int(np.prod(shp))
    k=len(sites); sd=[dims[s] for s in sites]
    T=M.reshape(sd+sd)
    full=np.eye(D).reshape(shp+shp)
    # apply: out[..] = sum T[o_s, i_s] * delta others
    res=np.zeros(shp+shp,dtype=complex)
    idx=[ids.index(s) for s in sites]
    others=[j for j in range(n) if j not in idx]
    # build via einsum
    import string
    L=string.ascii_letters
    out=[L[j] for j in range(n)]; inn=[L[n+j] for j in range(n)]
    tsub="".join(out[j] for j in idx)+"".join(inn[j] for j in idx)
    esubs=[tsub]; eops=[T]
    for j in others:
        esubs.append(out[j]+inn[j]); eops.append(np.eye(shp[j]))
    return np.einsum(",".join(esubs)+"->"+"".join(out)+"".join(inn),*eops).reshape(D,D)
for trial in range(80):
    n=rng.randrange(2,6); par=random_tree_shape(rng,n)
    same_dim = trial%2==0
    ttn=build_ttns(rng,par,phys=[2]*n if same_dim else None, bond=2)
    ids=sorted(ttn.nodes); dims={i:ttn.nodes[i].open_dimension() for i in ids}
    edges=[(ttn.nodes[i].parent,i) for i in ids if ttn.nodes[i].parent]
    steps=[]; U=np.eye(int(np.prod([dims[i] for i in ids])),dtype=complex)
    dt=0.1
    seq=[]
    for s in range(rng.randrange(1,5)):
        if rng.random()<.3:
            a=rng.choice(ids); A=nprs.standard_normal((dims[a],)*2)+1j*nprs.standard_normal((dims[a],)*2)
            tp=TensorProduct({a:A}); sites=[a]; M=A
        else:
            p,c=rng.choice(edges); a,b=(p,c) if rng.random()<.5 else (c,p)
            A=nprs.standard_normal((dims[a],)*2)+1j*nprs.standard_normal((dims[a],)*2); B=nprs.standard_normal((dims[b],)*2)+1j*nprs.standard_normal((dims[b],)*2)
            tp=TensorProduct({a:A,b:B}); sites=[a,b]; M=np.kron(A,B)
        f=rng.choice([1,0.5,-1,2])
        sb=[]; sa=[]
        if same_dim and rng.random()<.5:
            e=rng.choice(edges); e=e if rng.random()<.5 else (e[1],e[0]); sb=[e]
        if same_dim and rng.random()<.5:
            e=rng.choice(edges); e=e if rng.random()<.5 else (e[1],e[0]); sa=[e]
        steps.append(TrotterStep(tp,f,SWAPlist(sb),SWAPlist(sa)))
        def swapm(d):
            S=np.zeros((d*d,d*d)); 
            for i in range(d):
                for j in range(d): S[i*d+j,j*d+i]=1
            return S
        for e in sb: U=embed(ids,dims,list(e),swapm(dims[e[0]]))@U
        U=embed(ids,dims,sites,expm(-1j*f*dt*M))@U
        for e in sa: U=embed(ids,dims,list(e),swapm(dims[e[0]]))@U
        seq.append((sites,f,sb,sa))
    try:
        v0=dense_state(ttn).reshape(-1)
        te=TEBD(ttn,TrotterSplitting(steps),dt,dt,[],SVDParameters(max_bond_dim=float("inf"),rel_tol=float("-inf"),total_tol=float("-inf")))
        st0={i:(te.state.nodes[i].parent,sorted(te.state.nodes[i].children)) for i in ids}
        te.run_one_time_step(); te.run_one_time_step()
        v=dense_state(te.state).reshape(-1)
        st1={i:(te.state.nodes[i].parent,sorted(te.state.nodes[i].children)) for i in te.state.nodes}
        ok=np.allclose(v,U@U@v0,atol=1e-8*np.abs(v0).max()*10) and st0==st1
        res[("same" if same_dim else "mixed","ok" if ok else "BAD")]+=1
        if not ok and len(ex)<5: ex.append((par,dims,seq,st0==st1))
    except Exception as e:
        res[("same" if same_dim else "mixed","EXC "+type(e).__name__+str(e)[:50])]+=1
        if len(ex)<5: ex.append((par,seq,traceback.format_exc().splitlines()[-3:]))
for k,v in sorted(res.items()): print(v,k)
for e in ex: print(e)
