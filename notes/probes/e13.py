import warnings; warnings.filterwarnings("ignore")
from common import *
import collections, traceback, itertools
from pytreenet.special_ttn.mps import MatrixProductState
from pytreenet.special_ttn.star import StarTreeTensorState
from pytreenet.special_ttn.fttn import constant_ftps
from pytreenet.special_ttn.binary import generate_binary_ttns
from pytreenet.ttno.ttno_class import TTNO, Decomposition
from pytreenet.operators.models import ising_model, flipped_ising_model, ising_model_2D
from pytreenet.operators.exact_operators import exact_ising_hamiltonian, flipped_exact_ising_hamiltonian
res=collections.Counter(); ex=[]
nprs=np.random.RandomState(19); rng=random.Random(19)
def rec(key, ok, info=None):
    res[(key,"ok" if ok else "BAD")]+=1
    if not ok and len(ex)<12: ex.append((key,info))
def trycall(key, f, info=None):
    try: f()
    except Exception as e:
        res[(key,"EXC "+type(e).__name__+" "+str(e)[:50])]+=1
        if len(ex)<12: ex.append((key,info,traceback.format_exc().splitlines()[-2:]))
# MPS from tensor list
for L in range(2,6):
    for root in range(L):
        def f():
            d=[rng.choice([2,3]) for _ in range(L)]; b=[rng.choice([1,2,3]) for _ in range(L-1)]
            ts=[]
            for i in range(L):
                if i==0: ts.append(nprs.standard_normal((b[0],d[0])))
                elif i==L-1: ts.append(nprs.standard_normal((b[-1],d[-1])))
                else: ts.append(nprs.standard_normal((b[i-1],b[i],d[i])))
            m=MatrixProductState.from_tensor_list(ts,root_site=root)
            # reference chain contraction
            refc=ts[0].T  # (d0,b0)
            cur=np.einsum('ap->pa',ts[0]) 
            cur=ts[0].T
            for i in range(1,L-1):
                cur=np.tensordot(cur,ts[i],axes=(-1,0))
            cur=np.tensordot(cur,ts[-1],axes=(-1,0))
            got=dense_state(m)  # sorted ids site0..siteL-1 (L<10)
            rec(("mps",), got.shape==cur.shape and np.allclose(got,cur),(L,root,d,b))
        trycall(("mps",),f,(L,root))
# MPS product state w/ padding
for L in range(2,6):
    for root in range(L):
        for dim in (2,3):
            for val in range(dim):
                for bd in (None,[rng.choice([1,2,3]) for _ in range(L-1)]):
                    def f():
                        m=MatrixProductState.constant_product_state(val,dim,L,root_site=root,bond_dimensions=bd)
                        got=dense_state(m); want=np.zeros((dim,)*L); want[(val,)*L]=1
                        rec(("mps_prod",),np.allclose(got,want),(L,root,dim,val,bd))
                    trycall(("mps_prod",),f,(L,root,dim,val,bd))
# star
for nc in range(1,4):
    for cl in range(1,4):
        for dim in (2,3):
            for val in range(dim):
                def f():
                    s=StarTreeTensorState.constant_product_state(val,dim,cl,nc)
                    got=dense_state(s); n=len(s.nodes); want=np.zeros((dim,)*n); want[(val,)*n]=1
                    rec(("star",dim),n==nc*cl+1 and np.allclose(got,want),(nc,cl,dim,val))
                trycall(("star",dim),f,(nc,cl,dim,val))
# fork
for w in range(2,4):
    for h in range(2,4):
        for bd in (1,2,3):
            def f():
                ls=nprs.standard_normal(2)+1j*nprs.standard_normal(2)
                s=constant_ftps(ls,w,h,bd)
                got=dense_state(s); n=w*h
                want=ls
                for _ in range(n-1): want=np.multiply.outer(want,ls)
                rec(("fork",),len(s.nodes)==n and np.allclose(got,want),(w,h,bd))
            trycall(("fork",),f,(w,h,bd))
# binary
for nphys in range(1,9):
    for bd in (1,2):
        def f():
            pt=np.zeros((bd,2),dtype=complex); pt[0]=nprs.standard_normal(2)
            s=generate_binary_ttns(nphys,bd,pt)
            phys=[i for i in s.nodes if i.startswith("site")]
            got=dense_state(s).squeeze()
            want=pt[0]
            for _ in range(nphys-1): want=np.multiply.outer(want,pt[0])
            rec(("binary",),len(phys)==nphys and got.shape==want.shape and np.allclose(got,want),(nphys,bd,got.shape))
        trycall(("binary",),f,(nphys,bd))
# from_tensor
for trial in range(60):
    n=rng.randrange(1,5); par=random_tree_shape(rng,n)
    ttn=build_ttns(rng,par,bond=1)
    ids=list(ttn.nodes); dims=[rng.choice([2,3]) for _ in ids]
    legs=list(range(n)); rng.shuffle(legs)
    leg_dict={ids[i]:legs[i] for i in range(n)}
    shape=[0]*n
    for i in range(n): shape[legs[i]]=dims[i]
    T=nprs.standard_normal(shape*2)+1j*nprs.standard_normal(shape*2)
    for mode in Decomposition:
        def f():
            o=TTNO.from_tensor(ttn,T.copy(),leg_dict,mode)
            struct=all(o.nodes[i].parent==ttn.nodes[i].parent and sorted(o.nodes[i].children)==sorted(ttn.nodes[i].children) for i in ids)
            M,order=o.as_matrix()
            perm=[leg_dict[x] for x in order]
            want=T.transpose(perm+[p+n for p in perm]).reshape(M.shape)
            rec(("from_tensor",mode.name),struct and np.allclose(M,want),(par,leg_dict,shape))
        trycall(("from_tensor",mode.name),f,(par,leg_dict,shape))
# models
for L in range(2,6):
    for (J,g) in [(1.0,0.5),(-0.7,1.3),(0.0,1.0),(1.0,0.0)]:
        def f():
            m=MatrixProductState.constant_product_state(0,2,L)
            ids=[f"site{i}" for i in range(L)]
            for fn,ex_fn in ((ising_model,exact_ising_hamiltonian),(flipped_ising_model,flipped_exact_ising_hamiltonian)):
                ham=fn(m,g,J)
                o=TTNO.from_hamiltonian(ham,m)
                M,order=o.as_matrix()
                perm=[ids.index(x) for x in order]
                want=ex_fn(J,g,L).reshape([2]*(2*L)).transpose(perm+[p+L for p in perm]).reshape(M.shape)
                rec(("ising",J,g),np.allclose(M,want),(L,fn.__name__))
        trycall(("ising",J,g),f,(L,J,g))
for k,v in sorted(res.items(),key=str): print(v,k)
for e in ex: print(e)
