import warnings; warnings.filterwarnings("ignore")
exec(open('e9.py').read().split("for trial in range(40):")[0])
import sys
te_mod=sys.modules['pytreenet.time_evolution.time_evolution']
os_mod=sys.modules['pytreenet.time_evolution.tdvp_algorithms.onesitetdvp']
ts_mod=sys.modules['pytreenet.time_evolution.tdvp_algorithms.twositetdvp']
ete_mod=sys.modules['pytreenet.time_evolution.time_evo_util.effective_time_evolution']
orig=te_mod.time_evolve
LOG=[]; CUR={}
def obs(psi,H,t,forward=True,mode=None):
    algo=CUR["algo"]; st=algo.state; ids=sorted(st.nodes)
    # find which node's tensor is psi (identity by shape+values)
    cand=[i for i in st.nodes if st.nodes[i].shape==psi.shape and np.allclose(st.tensors[i],psi)]
    rec={"t":t,"fwd":forward,"cand":cand,"shape":psi.shape}
    if len(cand)>=1:
        nid=cand[0]
        # build E: columns = full vector for each basis local tensor
        saved=st.tensors[nid].copy()
        cols=[]
        for k in range(psi.size):
            b=np.zeros(psi.size,dtype=complex); b[k]=1
            st.replace_tensor(nid,b.reshape(psi.shape))
            cols.append(CUR["vec"](st))
        st.replace_tensor(nid,saved)
        E=np.array(cols).T
        rec["ok"]=np.allclose(E.conj().T@CUR["H"]@E,H,atol=1e-8*max(1,np.abs(H).max()))
        rec["node"]=nid
    LOG.append(rec)
    return orig(psi,H,t,forward=forward,mode=mode)
for m in (te_mod,os_mod,ts_mod,ete_mod): m.time_evolve=obs
res=collections.Counter()
for trial in range(12):
    n=rng.randrange(2,6); par=random_tree_shape(rng,n)
    ttn=build_ttns(rng,par,bond=2)
    ids=sorted(ttn.nodes.keys()); dims={i:ttn.nodes[i].open_dimension() for i in ids}
    ham=herm_ham(rng,ids,dims,rng.randrange(1,5)); H=dense_ham(ham,ids,dims)
    ttno=TTNO.from_hamiltonian(copy.deepcopy(ham),ttn)
    dt=0.05
    def vecf(st):
        # order by original ids; link/two-site nodes may exist -> general dense with open legs grouped by sorted node ids; map to original site order
        import string
        idl=sorted(st.nodes); letters=iter(string.ascii_letters); bond={}; subs=[]; ops=[]; openmap={}
        for nid in idl:
            node=st.nodes[nid]; t=st.tensors[nid]; s=""
            if not node.is_root():
                key=(node.parent,nid); bond.setdefault(key,next(letters)); s+=bond[key]
            for c in node.children:
                key=(nid,c); bond.setdefault(key,next(letters)); s+=bond[key]
            ol=[next(letters) for _ in range(node.nopen_legs())]; s+="".join(ol); openmap[nid]=ol
            subs.append(s); ops.append(t)
        # site order: original ids; two-site node "TwoSite_a_contr_b" has opens of a then b
        out=""
        sitelet={}
        for nid,ol in openmap.items():
            if nid in ids: sitelet[nid]=ol[0] if ol else None
            elif nid.startswith("TwoSite_"):
                a,b=nid[len("TwoSite_"):].split("_contr_"); sitelet[a]=ol[0]; sitelet[b]=ol[1]
        out="".join(sitelet[i] for i in ids)
        return np.einsum(",".join(subs)+"->"+out,*ops).reshape(-1)
    CUR["vec"]=vecf; CUR["H"]=H
    for name,mk in {"tdvp1":lambda: FirstOrderOneSiteTDVP(ttn,ttno,dt,dt,[],TDVPConfig(time_evo_mode=TimeEvoMode.EXPM)),
                    "tdvp2":lambda: SecondOrderOneSiteTDVP(ttn,ttno,dt,dt,[],TDVPConfig(time_evo_mode=TimeEvoMode.EXPM)),
                    "tdvp2s":lambda: SecondOrderTwoSiteTDVP(ttn,ttno,dt,dt,[],SVDParameters(max_bond_dim=float("inf"),rel_tol=float("-inf"),total_tol=float("-inf")),TDVPConfig(time_evo_mode=TimeEvoMode.EXPM))}.items():
        try:
            a=mk(); CUR["algo"]=a; LOG.clear()
            a.run_one_time_step()
            tot=sum((r["t"] if r["fwd"] else -r["t"]) for r in LOG)
            allok=all(r.get("ok",False) for r in LOG)
            res[(name,"ok" if allok and abs(tot-dt)<1e-12 else f"BAD heff={allok} sum={tot/dt:.3f} unk={sum(1 for r in LOG if 'ok' not in r)}")]+=1
        except AssertionError as e:
            res[(name,"EXC assert")]+=1
        except Exception as e:
            res[(name,"EXC "+type(e).__name__+str(e)[:80])]+=1
for k,v in sorted(res.items()): print(v,k)
