import warnings; warnings.filterwarnings("ignore")
from common import *
from pytreenet.operators.exact_operators import exact_lindbladian
from scipy.linalg import expm
nprs = np.random.RandomState(3)
d=3
H = nprs.standard_normal((d,d))+1j*nprs.standard_normal((d,d)); H = H+H.conj().T
L = nprs.standard_normal((d,d))+1j*nprs.standard_normal((d,d))
c = 0.7
Lind = exact_lindbladian(H, [(c, L)])
I = np.eye(d)
g = c**2
LdL = L.conj().T@L
ref = np.kron(H,I)-np.kron(I,H.T)+1j*g*(np.kron(L,L.conj())-0.5*np.kron(LdL,I)-0.5*np.kron(I,LdL.T))
print("exact == GKSL?", np.allclose(Lind, ref))
ref_plus = np.kron(H,I)-np.kron(I,H.T)+1j*g*(np.kron(L,L.conj())-0.5*np.kron(LdL,I)+0.5*np.kron(I,LdL.T))
print("exact == GKSL with + sign t3?", np.allclose(Lind, ref_plus))
rho = nprs.standard_normal((d,d))+1j*nprs.standard_normal((d,d)); rho = rho@rho.conj().T; rho/=np.trace(rho)
r2 = (expm(-1j*0.3*Lind)@rho.reshape(-1)).reshape(d,d)
print("trace after", np.trace(r2), "herm", np.allclose(r2, r2.conj().T))
