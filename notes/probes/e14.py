import warnings; warnings.filterwarnings("ignore")
exec(open('e4.py').read().split("res = collections.Counter()")[0])
import copy
res=collections.Counter(); ex=[]
rng=random.Random(12)
def op_schmidt_rank(H, ids, dims, left):
    n=len(ids); shp=[dims[i] for i in ids]
    T=H.reshape(shp+shp)
    L=[ids.index(i) for i in left]; R=[k for k in range(n) if k not in L]
    perm=L+[l+n for l in L]+R+[r+n for r in R]
    dl=int(np.prod([shp[l] for l in L]))**2
    M=T.transpose(perm).reshape(dl,-1)
    return np.linalg.matrix_rank(M, tol=1e-9)
for trial in range(150):
    n=rng.randrange(2,7); par=random_tree_shape(rng,n)
    ttn=build_ttns(rng,par,bond=1)
    ids=list(ttn.nodes); dims={i:ttn.nodes[i].open_dimension() for i in ids}
    mode=trial%3
    ham=rand_ham(rng,ids,dims,rng.randrange(1,8),nlabels=3,coeffs=(mode!=0))
    if mode==2:
        # distinct symbols per term
        ham.terms=[(f,f"s{k}",tp) for k,(f,g,tp) in enumerate(ham.terms)]
        ham.coeffs_mapping={f"s{k}":complex(nprs.standard_normal(),nprs.standard_normal()) for k in range(len(ham.terms))}; ham.coeffs_mapping["1"]=1
    padded=[tuple(sorted((i,tp.get(i,"I")) for i in ids)) for _,_,tp in ham.terms]
    if len(set(padded))<len(padded): continue
    H=dense_ham(ham,ids,dims)
    try:
        ttno=TTNO.from_hamiltonian(copy.deepcopy(ham),ttn,TTNOFinder.SGE)
        bad=[]
        for (p,c),bd in ttno.bond_dims().items():
            sub=list(ttn.find_subtree_of_node(c).keys())
            r=op_schmidt_rank(H,ids,dims,sub)
            if bd!=max(r,1): bad.append(((p,c),bd,r))
        res[(mode,"ok" if not bad else "NONMIN")]+=1
        if bad and len(ex)<6: ex.append((mode,par,[(str(f),g,dict(tp)) for f,g,tp in ham.terms],bad))
    except Exception as e:
        res[(mode,"EXC "+type(e).__name__)]+=1
for k,v in sorted(res.items()): print(v,k)
for e in ex: print(e)
