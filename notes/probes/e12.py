import warnings; warnings.filterwarnings("ignore")
from common import *
import collections, traceback, itertools, math
from scipy.linalg import expm
from pytreenet.time_evolution.time_evolution import TimeEvolution, time_evolve, TimeEvoMode
from pytreenet.time_evolution.exact_time_evolution import ExactTimeEvolution
res=collections.Counter(); ex=[]
class Mock(TimeEvolution):
    def __init__(s,*a,**k):
        super().__init__(*a,**k); s.steps=0; s.log=[]
    def run_one_time_step(s,**k): s.steps+=1; s.state=s.state+1
    def evaluate_operator(s,op): s.log.append((op,s.steps)); return s.steps*10+op
from fractions import Fraction
for T in [0.05,0.1,0.3,0.7,1.0,1.05,1.09,1.1,2.5,3.0]:
  for dt in [0.01,0.1,0.3,0.25,1.0,0.7]:
    for k in [1,2,3,7,"inf"]:
      for ops in ([1,2],{"a":1,"b":2},1):
        try:
            init=np.array([0])
            m=Mock(init,dt,T,ops)
            q=T/dt; fr,ip=math.modf(q); n_exp=int(ip) if fr<0.1 else int(ip)+1
            m.run(k,pgbar=False)
            ok = m.num_time_steps==n_exp and m.steps==n_exp and init[0]==0
            nops= len(ops) if not isinstance(ops,int) else 1
            if k=="inf":
                evs=[n_exp]
            else:
                evs=list(range(0,n_exp+1,k))
            want=[(o,s) for s in evs for o in ([1,2] if nops==2 else [1])]
            ok = ok and m.log==want and np.allclose(m.times(), [s*dt for s in evs]) and m.results.shape==(nops+1,len(evs))
            if isinstance(ops,dict): ok = ok and np.allclose(m.operator_result("b"), [s*10+2 for s in evs])
            res["ok" if ok else "BAD"]+=1
            if not ok and len(ex)<5: ex.append((T,dt,k,ops,m.num_time_steps,n_exp,m.log[:5],m.results))
        except Exception as e:
            res["EXC "+type(e).__name__+str(e)[:40]]+=1
            if len(ex)<5: ex.append((T,dt,k,traceback.format_exc().splitlines()[-3:]))
print("C18", dict(res)); 
for e in ex: print(e)
# C20
res=collections.Counter(); ex=[]
nprs=np.random.RandomState(20)
for d in [1,2,3,5,8,12]:
  for herm in (True,False):
    for shape_kind in ("vec","tensor"):
      for t in (0.0,0.3):
        H=nprs.standard_normal((d,d))+1j*nprs.standard_normal((d,d))
        if herm: H=H+H.conj().T
        else: H=H*0.3
        if shape_kind=="vec": psi=nprs.standard_normal(d)+1j*nprs.standard_normal(d)
        else:
            facs=[f for f in (2,3,4,5,6) if d%f==0]
            psi=(nprs.standard_normal(d)+1j*nprs.standard_normal(d)).reshape((facs[0],d//facs[0]) if facs else (1,d))
        for mode in TimeEvoMode:
            for fwd in (True,False):
                key=(mode.name,"herm" if herm else "nonherm")
                try:
                    out=time_evolve(psi,H,t,forward=fwd,mode=mode)
                    ref=(expm((-1j if fwd else 1j)*H*t)@psi.reshape(-1)).reshape(psi.shape)
                    tol=1e-8 if not mode.is_scipy() else 2e-2
                    ok=out.shape==psi.shape and np.allclose(out,ref,atol=tol*max(1,np.abs(ref).max()))
                    res[key+("ok" if ok else "BAD",)]+=1
                    if not ok and len(ex)<8: ex.append((key,d,shape_kind,t,fwd,np.abs(out-ref).max()))
                except Exception as e:
                    res[key+("EXC "+type(e).__name__+" "+str(e)[:50],)]+=1
for k,v in sorted(res.items()): print(v,k)
for e in ex: print(e)
