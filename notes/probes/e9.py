import warnings; warnings.filterwarnings("ignore")
exec(open('e4.py').read().split("res = collections.Counter()")[0])
import copy
from scipy.linalg import expm
from pytreenet.time_evolution.tdvp_algorithms import FirstOrderOneSiteTDVP, SecondOrderOneSiteTDVP, SecondOrderTwoSiteTDVP
from pytreenet.time_evolution.bug import BUG, BUGConfig
from pytreenet.time_evolution.fixed_bug import FixedBUG, FixedBUGConfig
from pytreenet.time_evolution.tdvp_algorithms.tdvp_algorithm import TDVPConfig
from pytreenet.time_evolution.time_evolution import TimeEvoMode
from pytreenet.util.tensor_splitting import SVDParameters
rng = random.Random(9)
res=collections.Counter(); ex=[]
def herm_ham(rng, ids, dims, nterms):
    conv={}
    for d in set(dims.values()):
        conv[f"I{d}"]=np.eye(d)
        for l in range(3):
            a=nprs.standard_normal((d,d))+1j*nprs.standard_normal((d,d)); conv[f"A{l}_{d}"]=a+a.conj().T
    terms=[]; seen=set()
    for t in range(nterms):
        k=rng.randrange(1,min(3,len(ids))+1); sites=rng.sample(ids,k)
        tp={s:f"A{rng.randrange(3)}_{dims[s]}" for s in sites}
        key=tuple(sorted(tp.items()))
        if key in seen: continue
        seen.add(key); terms.append((Fraction(1),"1",TensorProduct(tp)))
    return Hamiltonian(terms,conv,{"1":1})
def vec(ttn, ids):
    return dense_state(ttn).reshape(-1)   # sorted ids order
for trial in range(40):
    n=rng.randrange(2,6)
    par=random_tree_shape(rng,n)
    ttn=build_ttns(rng,par,bond=2)
    ids=sorted(ttn.nodes.keys())
    dims={i:ttn.nodes[i].open_dimension() for i in ids}
    ham=herm_ham(rng,ids,dims,rng.randrange(1,5))
    H=dense_ham(ham,ids,dims)
    ttno=TTNO.from_hamiltonian(copy.deepcopy(ham),ttn)
    v0=vec(ttn,ids); E0=np.vdot(v0,H@v0); N0=np.vdot(v0,v0).real
    dt=0.05
    algos={
      "tdvp1": lambda: FirstOrderOneSiteTDVP(ttn,ttno,dt,dt,[],TDVPConfig(time_evo_mode=TimeEvoMode.EXPM)),
      "tdvp2": lambda: SecondOrderOneSiteTDVP(ttn,ttno,dt,dt,[],TDVPConfig(time_evo_mode=TimeEvoMode.EXPM)),
      "tdvp2s": lambda: SecondOrderTwoSiteTDVP(ttn,ttno,dt,dt,[],SVDParameters(max_bond_dim=float("inf"),rel_tol=float("-inf"),total_tol=float("-inf")),TDVPConfig(time_evo_mode=TimeEvoMode.EXPM)),
      "bug": lambda: BUG(ttn,ttno,dt,dt,[],BUGConfig(max_bond_dim=float("inf"),rel_tol=float("-inf"),total_tol=float("-inf"),time_evo_mode=TimeEvoMode.EXPM)),
      "fbug": lambda: FixedBUG(ttn,ttno,dt,dt,[],FixedBUGConfig(time_evo_mode=TimeEvoMode.EXPM)),
    }
    for name,mk in algos.items():
        try:
            a=mk()
            struct0={i:(a.state.nodes[i].parent,sorted(a.state.nodes[i].children)) for i in ids}
            for _ in range(2): a.run_one_time_step()
            v=vec(a.state,ids); E=np.vdot(v,H@v); N=np.vdot(v,v).real
            struct1={i:(a.state.nodes[i].parent,sorted(a.state.nodes[i].children)) for i in a.state.nodes}
            okN=abs(N-N0)<1e-8*N0; okE=abs(E-E0)<1e-8*max(1,abs(E0)); okS=struct0==struct1
            if name=="fbug": okN = N<=N0*(1+1e-9); okE=True
            oc=a.state.orthogonality_center_id
            res[(name,"ok" if okN and okE and okS else f"BAD N={okN} E={okE} S={okS}")]+=1
            if not(okN and okE and okS) and len(ex)<6: ex.append((name,par,N0,N,E0,E))
        except Exception as e:
            res[(name,"EXC "+type(e).__name__+" "+str(e)[:60])]+=1
            if len(ex)<6: ex.append((name,par,traceback.format_exc().splitlines()[-5:]))
for k,v in sorted(res.items()): print(v,k)
for e in ex: print(e)
