import warnings; warnings.filterwarnings("ignore")
from common import *
import collections, traceback, itertools
from fractions import Fraction
from pytreenet.ttno.symbolic_gaussian_elimination_fraction import gaussian_elimination
from pytreenet.ttno.bipartite_graph import BipartiteGraph, minimum_vertex_cover, HopcroftKarp
import copy
# ---- C13
rng=random.Random(13)
res=collections.Counter(); ex=[]
alphabet=[Fraction(0),Fraction(1),Fraction(-1),Fraction(2),Fraction(1,2),(Fraction(1),"a"),(Fraction(2),"a"),(Fraction(1),"b"),(Fraction(-1,3),"b")]
def lin(e):
    if isinstance(e,tuple): return {e[1]:e[0]} if e[0]!=0 else {}
    return {"":Fraction(e)} if e!=0 else {}
def add(d1,d2,f=1):
    r=dict(d1)
    for k,v in d2.items():
        r[k]=r.get(k,0)+f*v
        if r[k]==0: del r[k]
    return r
def prod(L,M,R):
    m=len(L); k=len(M); l=len(M[0]) if M else 0; n=len(R[0]) if R else 0
    out=[[{} for _ in range(n)] for _ in range(m)]
    for i in range(m):
        for a in range(k):
            if L[i][a]==0: continue
            for b in range(l):
                e=lin(M[a][b])
                if not e: continue
                for j in range(n):
                    if R[b][j]==0: continue
                    out[i][j]=add(out[i][j],e,L[i][a]*R[b][j])
    return out
def run_case(M):
    M0=copy.deepcopy(M)
    try:
        L,Mr,R=gaussian_elimination(copy.deepcopy(M))
    except Exception as e:
        return "EXC "+type(e).__name__+" "+str(e)[:40]
    m=len(M0); n=len(M0[0])
    if len(L)!=m or any(len(r)!=len(Mr) for r in L): return "shapeL"
    if len(R)!=(len(Mr[0]) if Mr else 0) or any(len(r)!=n for r in R): return "shapeR"
    if len(Mr)>m or (Mr and len(Mr[0])>n): return "bigger"
    P=prod(L,Mr,R)
    want=[[lin(e) for e in row] for row in M0]
    if P!=want: return "PRODUCT"
    return "ok"
# exhaustive 2x2 over alphabet, random larger
for M in itertools.product(alphabet, repeat=4):
    r=run_case([[M[0],M[1]],[M[2],M[3]]]); res[("2x2",r)]+=1
    if r!="ok" and len(ex)<5: ex.append((M,r))
for t in range(3000):
    m=rng.randrange(1,5); n=rng.randrange(1,5)
    M=[[rng.choice(alphabet) if rng.random()<.6 else Fraction(0) for _ in range(n)] for _ in range(m)]
    r=run_case(M); res[("rand",r)]+=1
    if r!="ok" and len(ex)<8: ex.append((M,r))
for k,v in sorted(res.items()): print(v,k)
for e in ex: print(e)
# ---- C14
res=collections.Counter(); ex=[]
def maxmatch(nu,nv,edges):
    # brute force via augmenting (simple Kuhn)
    adj=[[v for (u,v) in edges if u==uu] for uu in range(nu)]
    mv=[-1]*nv
    def tryk(u,seen):
        for v in adj[u]:
            if v in seen: continue
            seen.add(v)
            if mv[v]==-1 or tryk(mv[v],seen): mv[v]=u; return True
        return False
    return sum(tryk(u,set()) for u in range(nu))
for nu in range(1,4):
    for nv in range(1,4):
        alle=[(u,v) for u in range(nu) for v in range(nv)]
        for mask in range(2**len(alle)):
            edges=[e for i,e in enumerate(alle) if mask>>i&1]
            try:
                g=BipartiteGraph(nu,nv,edges)
                uc,vc=minimum_vertex_cover(g)
                M=HopcroftKarp(g)()
                cover=all(u in uc or v in vc for u,v in edges)
                size=len(uc)+len(vc)==maxmatch(nu,nv,edges)
                valid=len({u for u,_ in M})==len(M)==len({v for _,v in M}) and all(e in edges for e in M)
                r="ok" if cover and size and valid else f"BAD cover={cover} size={size} valid={valid}"
            except Exception as e:
                r="EXC "+type(e).__name__
            res[r]+=1
            if r!="ok" and len(ex)<4: ex.append((nu,nv,edges,r))
for t in range(2000):
    nu=rng.randrange(1,8); nv=rng.randrange(1,8)
    edges=[(rng.randrange(nu),rng.randrange(nv)) for _ in range(rng.randrange(0,20))]
    try:
        g=BipartiteGraph(nu,nv,edges); uc,vc=minimum_vertex_cover(g); M=HopcroftKarp(g)()
        cover=all(u in uc or v in vc for u,v in edges); size=len(uc)+len(vc)==maxmatch(nu,nv,list(set(edges)))
        r="ok" if cover and size else "BAD"
    except Exception as e: r="EXC "+type(e).__name__
    res["rand "+r]+=1
print(dict(res)); print(ex)
