import sys, os, itertools, random
sys.path.insert(0, '/repo')
import numpy as np
import pytreenet as ptn
from pytreenet.core.node import Node
from pytreenet.ttns.ttns import TreeTensorNetworkState as TTNS
from pytreenet.random.random_matrices import crandn

def random_tree_shape(rng, n):
    """parent list: parent[i] < i"""
    return [None] + [rng.randrange(0, i) for i in range(1, n)]

def build_ttns(rng, parents, phys=None, bond=None, cls=TTNS, complex_=True, shuffle_legs=False):
    n = len(parents)
    if phys is None: phys = [rng.choice([2,3]) for _ in range(n)]
    children = {i: [] for i in range(n)}
    for i,p in enumerate(parents):
        if p is not None: children[p].append(i)
    bdim = {}
    for i in range(1,n):
        bdim[i] = bond if bond is not None else rng.choice([1,2,3])
    ttn = cls()
    nprs = np.random.RandomState(rng.randrange(2**31))
    def rt(shape):
        if complex_:
            return (nprs.standard_normal(shape) + 1j*nprs.standard_normal(shape))
        return nprs.standard_normal(shape)
    # add in BFS order (index order works since parent<child)
    # each node tensor: legs [parent?] + children + [phys]; we build with open legs then connect
    tensors = {}
    for i in range(n):
        shape = ([] if parents[i] is None else [bdim[i]]) + [bdim[c] for c in children[i]] + [phys[i]]
        tensors[i] = rt(tuple(shape))
    ttn.add_root(Node(identifier="n0"), tensors[0])
    # track which open leg corresponds to which child for parent
    added_children = {i: 0 for i in range(n)}
    for i in range(1,n):
        p = parents[i]
        pnode = ttn.nodes[f"n{p}"]
        # parent's leg for child i in *current node leg order*: nvirt legs so far + 0 (first remaining open leg is next child)
        parent_leg = pnode.nneighbours()
        ttn.add_child_to_parent(Node(identifier=f"n{i}"), tensors[i], 0, f"n{p}", parent_leg)
    return ttn

def dense_state(ttn):
    """independent dense contraction via einsum; returns tensor with open legs ordered by sorted node id"""
    ids = sorted(ttn.nodes.keys())
    # assign letters
    import string
    letters = iter(string.ascii_letters)
    bond = {}
    openl = {}
    ops = []
    subs = []
    for nid in ids:
        node = ttn.nodes[nid]
        t = ttn.tensors[nid]
        s = ""
        if not node.is_root():
            key = (node.parent, nid)
            if key not in bond: bond[key] = next(letters)
            s += bond[key]
        for c in node.children:
            key = (nid, c)
            if key not in bond: bond[key] = next(letters)
            s += bond[key]
        ol = ""
        for _ in range(node.nopen_legs()):
            ol += next(letters)
        openl[nid] = ol
        s += ol
        ops.append(t); subs.append(s)
    out = "".join(openl[nid] for nid in ids)
    return np.einsum(",".join(subs) + "->" + out, *ops)
