"""Version-stamp simulation of the cache-freshness invariant and duration sums on the trace model (all trees <= 7 nodes)."""
import sys, collections
import p17_model as M
def edges_of(t):
    out=[]
    def rec(tt):
        for c in tt[1]: out.append((tt[0],c[0])); rec(c)
    rec(t); return out
def adj_of(t):
    adj=collections.defaultdict(list)
    for a,b in edges_of(t): adj[a].append(b); adj[b].append(a)
    return adj
def behind(adj,a,b):
    """nodes in the component of a after removing edge (a,b)"""
    seen={a}; st=[a]
    while st:
        x=st.pop()
        for y in adj[x]:
            if y not in seen and not (x==a and y==b): seen.add(y); st.append(y)
    return seen
def simulate(t, trace_fn, steps, reinit_each_step):
    adj=adj_of(t); ids=M.ids(t)
    ver={i:0 for i in ids}; cache={}
    def refresh(a,b): cache[(a,b)]={x:ver[x] for x in behind(adj,a,b)}
    def fresh(a,b): return (a,b) in cache and cache[(a,b)]=={x:ver[x] for x in behind(adj,a,b)}
    def init(first):
        cache.clear()
        order,nxt=M.caching(t,first)
        for x in order[:-1]:
            # a block may only be built from fresh child blocks
            for y in adj[x]:
                if y!=nxt[x]: assert fresh(y,x),("init uses stale",y,x)
            refresh(x,nxt[x])
    up=M.update_path(t); init(up[0]); bad=[]
    dur_n=collections.Counter(); dur_e=collections.Counter()
    for s in range(steps):
        if s>0 and reinit_each_step: init(up[0])
        ev=trace_fn(t)
        if reinit_each_step and s>=0:
            pass
        centre=up[0]
        for e in ev:
            k=e[0]
            if k=="move":
                a,b=e[1],e[2]; ver[a]+=1; ver[b]+=1
                for y in adj[a]:
                    if y!=b and not fresh(y,a): bad.append(("cache-build stale",e,(y,a)))
                refresh(a,b); centre=b
            elif k=="site" or k=="siteback":
                n=e[1]
                if centre!=n: bad.append(("centre",e,centre))
                for y in adj[n]:
                    if not fresh(y,n): bad.append(("stale",e,(y,n)))
                ver[n]+=1; dur_n[n]+= e[2] if k=="site" else -e[2]
            elif k=="link":
                n,m=e[1],e[2]
                if centre!=n: bad.append(("centre",e,centre))
                ver[n]+=1
                for y in adj[n]:
                    if y!=m and not fresh(y,n): bad.append(("cache-build stale",e,(y,n)))
                refresh(n,m)
                if not fresh(m,n): bad.append(("stale",e,(m,n)))
                ver[m]+=1; centre=m; dur_e[frozenset((n,m))]-=e[3]
            elif k=="two":
                n,m=e[1],e[2]
                if centre!=n: bad.append(("centre",e,centre))
                for y in adj[n]:
                    if y!=m and not fresh(y,n): bad.append(("stale",e,(y,n)))
                for y in adj[m]:
                    if y!=n and not fresh(y,m): bad.append(("stale",e,(y,m)))
                ver[n]+=1; ver[m]+=1; refresh(n,m); centre=m; dur_e[frozenset((n,m))]+=e[3]
        if reinit_each_step:
            # first order: centre moved back to up[0] by _reset_for_next_time_step (moves bump versions)
            p=M.path_from_to(t,centre,up[0])
            for a,b in zip(p,p[1:]): ver[a]+=1; ver[b]+=1
            centre=up[0]
        if centre!=up[0]: bad.append(("end centre",centre,up[0]))
    return bad,dur_n,dur_e
tot=0; nb=0
for n in range(2,8):
    for par in M.all_trees(n):
        t=M.to_rtree(par); tot+=1; ids=M.ids(t); deg={i:len(adj_of(t)[i]) for i in ids}
        for name,fn,re_ in (("t1",M.trace1,True),("t2",M.trace2,False),("t2s",M.trace2s,False)):
            bad,dn,de=simulate(t,fn,2,re_)
            okd = all(abs(dn[i]-(2 if name!="t2s" else -2*(deg[i]-1)))<1e-9 for i in ids) and \
                  all(abs(v-(-2 if name!="t2s" else 2))<1e-9 for v in de.values()) and len(de)==len(ids)-1
            if bad or not okd:
                nb+=1
                if nb<6: print(name,par,bad[:3],dict(dn),dict(de))
print("trees",tot,"bad",nb)
