import warnings; warnings.filterwarnings("ignore")
exec(open('e4.py').read().split("res = collections.Counter()")[0])
import copy
res = collections.Counter(); ex={}
rng = random.Random(44)
for trial in range(300):
    n = rng.randrange(1,6)
    par = random_tree_shape(rng,n)
    ttn = build_ttns(rng, par, bond=1)
    ids = list(ttn.nodes.keys())
    dims = {i: ttn.nodes[i].open_dimension() for i in ids}
    coeffs = trial%2==0
    ham = rand_ham(rng, ids, dims, rng.randrange(1,7), coeffs=coeffs)
    padded = [tuple(sorted((i, tp.get(i, "I")) for i in ids)) for _,_,tp in ham.terms]
    dup = len(set(padded)) < len(padded)
    ref = dense_ham(ham, ids, dims)
    for method in TTNOFinder:
        key = (method.name, "coeffs" if coeffs else "unit", "dup" if dup else "distinct")
        try:
            ttno = TTNO.from_hamiltonian(copy.deepcopy(ham), ttn, method)
            M, order = ttno.as_matrix()
            perm = [ids.index(o) for o in order]
            shp = [dims[i] for i in ids]
            R = ref.reshape(shp+shp).transpose(perm+[p+len(ids) for p in perm]).reshape(M.shape)
            ok = np.allclose(M,R, atol=1e-9)
            res[key+("ok" if ok else "MISMATCH",)] += 1
            if not ok and key not in ex: ex[key]=(par,[(str(f),g,dict(tp)) for f,g,tp in ham.terms])
        except Exception as e:
            res[key+("EXC "+type(e).__name__,)] += 1
for k in sorted(res): print(k, res[k])
for k in ex:
    if k[2]=="distinct": print(k, ex[k])
