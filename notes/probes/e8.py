import warnings; warnings.filterwarnings("ignore")
from common import *
from pytreenet.util.tensor_splitting import SplitMode
import collections, traceback, copy
rng = random.Random(8)
res=collections.Counter(); ex=[]
def iso_check(ttn, center):
    bad=[]
    for i,n in ttn.nodes.items():
        if i==center: continue
        t=ttn.tensors[i]
        # leg toward center
        path=ttn.path_from_to(i,center); nxt=path[1]
        leg=n.neighbour_index(nxt)
        m=np.moveaxis(t,leg,-1).reshape(-1,t.shape[leg])
        G=m.conj().T@m
        bad.append((i, np.allclose(G,np.eye(G.shape[0])), np.allclose(G@G,G)))
    return bad
for trial in range(200):
    n=rng.randrange(1,7)
    par=random_tree_shape(rng,n)
    ttn=build_ttns(rng,par)
    ref=dense_state(ttn)
    ids=list(ttn.nodes)
    for mode in SplitMode:
        t=copy.deepcopy(ttn)
        try:
            shapes0={i:t.nodes[i].shape for i in ids}
            c=rng.choice(ids)
            t.canonical_form(c,mode=mode)
            seq=[c]
            for _ in range(rng.randrange(0,4)):
                c=rng.choice(ids); t.move_orthogonalization_center(c,mode=mode); seq.append(c)
            now=dense_state(t)
            same=now.shape==ref.shape and np.allclose(now,ref)
            chk=iso_check(t,c)
            if mode is SplitMode.KEEP:
                iso=all(b[2] for b in chk); shp = all(t.nodes[i].shape==shapes0[i] for i in ids)
            else:
                iso=all(b[1] for b in chk); shp=True
            cen = t.orthogonality_center_id==c
            n1=t.scalar_product(use_orthogonal_center=True); n2=t.scalar_product(use_orthogonal_center=False)
            nrm=abs(n1-n2)<1e-8*max(1,abs(n2))
            ok=same and iso and shp and cen and nrm
            res[(mode.name,"ok" if ok else f"BAD same={same} iso={iso} shp={shp} cen={cen} nrm={nrm}")]+=1
            if not ok and len(ex)<5: ex.append((par,mode.name,seq,{i:shapes0[i] for i in ids}))
        except Exception as e:
            res[(mode.name,"EXC "+type(e).__name__+str(e)[:50])]+=1
            if len(ex)<5: ex.append((par,mode.name,traceback.format_exc().splitlines()[-3:]))
for k,v in sorted(res.items()): print(v,k)
for e in ex: print(e)
