import warnings; warnings.filterwarnings("ignore")
from common import *
from pytreenet.util.tensor_splitting import *
import collections, traceback
rng = random.Random(5); nprs=np.random.RandomState(5)
res = collections.Counter(); ex={}
def rt(shape, cplx=True, rank=None):
    t = nprs.standard_normal(shape)+ (1j*nprs.standard_normal(shape) if cplx else 0)
    return t
for trial in range(600):
    nd = rng.randrange(1,5)
    shape = tuple(rng.choice([1,2,3]) for _ in range(nd))
    t = rt(shape, cplx=rng.random()<.7)
    if rng.random()<0.3 and nd>=2:
        # make rank deficient: outer product
        t = np.multiply.outer(rt(shape[:1]), rt(shape[1:]))
    legs = list(range(nd)); rng.shuffle(legs)
    k = rng.randrange(0, nd+1)
    ql, rl = legs[:k], legs[k:]
    for mode in SplitMode:
        key=("qr",mode.name, "emptyq" if k==0 else ("emptyr" if k==nd else "norm"))
        try:
            q,r = tensor_qr_decomposition(t, ql, rl, mode=mode)
            rec = np.tensordot(q,r,axes=(-1,0))
            orig = t.transpose(ql+rl)
            ok = rec.shape==orig.shape and np.allclose(rec,orig)
            qm = q.reshape(-1,q.shape[-1])
            G = qm.conj().T@qm
            if mode is SplitMode.KEEP:
                iso = np.allclose(G@G,G) and np.allclose(G, np.diag(np.diag(G)))
                if len(rl)==1: ok = ok and q.shape == tuple(orig.shape)
            else:
                iso = np.allclose(G, np.eye(G.shape[0]))
            res[key+(("ok" if ok and iso else f"BAD rec={ok} iso={iso}"),)]+=1
            if not(ok and iso) and key not in ex: ex[key]=(shape,ql,rl)
        except Exception as e:
            res[key+("EXC "+type(e).__name__+" "+str(e)[:50],)]+=1
        key=("svd",mode.name, "emptyu" if k==0 else ("emptyv" if k==nd else "norm"))
        try:
            u,s,vh = tensor_svd(t, ql, rl, mode=mode)
            ns=len(s)
            rec = np.tensordot(u[...,:ns]*s, vh[:ns], axes=(-1,0))
            orig = t.transpose(ql+rl)
            ok = rec.shape==orig.shape and np.allclose(rec,orig) and np.all(s>=0) and np.all(np.diff(s)<=1e-12)
            um=u.reshape(-1,u.shape[-1]); vm = vh.reshape(vh.shape[0],-1)
            iso = np.allclose(um.conj().T@um, np.eye(um.shape[1])) and np.allclose(vm@vm.conj().T, np.eye(vm.shape[0]))
            res[key+(("ok" if ok and iso else f"BAD rec={ok} iso={iso}"),)]+=1
        except Exception as e:
            res[key+("EXC "+type(e).__name__+" "+str(e)[:50],)]+=1
for k in sorted(res): print(k,res[k])
print(ex)
