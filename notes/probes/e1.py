from common import *
rng = random.Random(1)
fails = 0
for trial in range(30):
    n = rng.randrange(1,6)
    ttn = build_ttns(rng, random_tree_shape(rng,n))
    v = dense_state(ttn).reshape(-1)
    try:
        nm = ttn.norm()
        ok = abs(nm - np.linalg.norm(v)) < 1e-9
    except AssertionError as e:
        ok = False; nm = 'AssertionError'
    sp = ttn.scalar_product()
    if not ok:
        fails += 1
        if fails < 4: print("norm fail", n, nm, np.linalg.norm(v), sp)
print("norm fails", fails, "/30")
