import warnings; warnings.filterwarnings("ignore")
from common import *
from pytreenet.util.tensor_splitting import SplitMode
import copy
rng = random.Random(8)
cnt=0
for trial in range(200):
    n=rng.randrange(1,7)
    par=random_tree_shape(rng,n)
    ttn=build_ttns(rng,par)
    ids=list(ttn.nodes)
    t=copy.deepcopy(ttn)
    bd0={(i,nb):t.nodes[i].neighbour_dim(nb) for i in ids for nb in t.nodes[i].neighbouring_nodes()}
    ch0={i:list(t.nodes[i].children) for i in ids}
    c=rng.choice(ids); t.canonical_form(c,mode=SplitMode.KEEP); seq=[c]
    for _ in range(rng.randrange(0,4)):
        c=rng.choice(ids); t.move_orthogonalization_center(c,mode=SplitMode.KEEP); seq.append(c)
    bd1={(i,nb):t.nodes[i].neighbour_dim(nb) for i in ids for nb in t.nodes[i].neighbouring_nodes()}
    ch1={i:list(t.nodes[i].children) for i in ids}
    if bd0!=bd1:
        cnt+=1
        if cnt<4: print("bond dims changed", par, seq, {k:(bd0[k],bd1[k]) for k in bd0 if bd0[k]!=bd1[k]})
    elif ch0!=ch1 and cnt<3:
        print("children order changed only", par, seq, ch0, ch1)
print("bond-dim changes:",cnt)
