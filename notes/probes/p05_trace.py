"""Compare the model traces of p17_model.py with the sequence of time_evolve calls of the real TDVP classes."""
import warnings; warnings.filterwarnings("ignore")
exec(open('e9.py').read().split("for trial in range(40):")[0])
import sys, itertools
import p17_model as M
mods=[sys.modules[k] for k in ('pytreenet.time_evolution.time_evolution','pytreenet.time_evolution.tdvp_algorithms.onesitetdvp','pytreenet.time_evolution.tdvp_algorithms.twositetdvp','pytreenet.time_evolution.time_evo_util.effective_time_evolution')]
orig=mods[0].time_evolve
LOG=[]; CUR={}
def obs(psi,H,t,forward=True,mode=None):
    st=CUR["algo"].state
    cand=[i for i in st.nodes if st.nodes[i].shape==psi.shape and np.allclose(st.tensors[i],psi)]
    LOG.append((cand, t/CUR["dt"], forward))
    return orig(psi,H,t,forward=forward,mode=mode)
for m in mods: m.time_evolve=obs
def norm_trace(ev):
    out=[]
    for e in ev:
        if e[0]=="site": out.append(("site",e[1],e[2]))
        elif e[0]=="link": out.append(("link",frozenset((e[1],e[2])),-e[3]))
        elif e[0]=="two": out.append(("two",frozenset((e[1],e[2])),e[3]))
        elif e[0]=="siteback": out.append(("site",e[1],-e[2]))
    return out
def norm_log(log):
    out=[]
    for cand,f,fwd in log:
        # prefer special ids
        c=[x for x in cand if x.startswith("link_") or x.startswith("TwoSite_")] or cand
        x=c[0]; sf = f if fwd else -f
        if x.startswith("link_"):
            a,b=x[5:].split("_with_"); out.append(("link",frozenset((a,b)),sf))
        elif x.startswith("TwoSite_"):
            a,b=x[8:].split("_contr_"); out.append(("two",frozenset((a,b)),sf))
        else: out.append(("site",x,sf))
    return out
res=collections.Counter()
rng=random.Random(55)
cases=[p for n in range(2,6) for p in M.all_trees(n)]
for par in cases:
    n=len(par)
    ttn=build_ttns(rng,par,bond=2,phys=[2]*n)
    ids=sorted(ttn.nodes); dims={i:2 for i in ids}
    ham=herm_ham(rng,ids,dims,2); ttno=TTNO.from_hamiltonian(copy.deepcopy(ham),ttn)
    t=M.to_rtree(par); dt=0.05; CUR["dt"]=dt
    for name,mk,tr in (("tdvp1",lambda: FirstOrderOneSiteTDVP(ttn,ttno,dt,dt,[],TDVPConfig(time_evo_mode=TimeEvoMode.EXPM)),M.trace1),
                       ("tdvp2",lambda: SecondOrderOneSiteTDVP(ttn,ttno,dt,dt,[],TDVPConfig(time_evo_mode=TimeEvoMode.EXPM)),M.trace2),
                       ("tdvp2s",lambda: SecondOrderTwoSiteTDVP(ttn,ttno,dt,dt,[],SVDParameters(max_bond_dim=float("inf"),rel_tol=float("-inf"),total_tol=float("-inf")),TDVPConfig(time_evo_mode=TimeEvoMode.EXPM)),M.trace2s)):
        try:
            a=mk(); CUR["algo"]=a; LOG.clear(); a.run_one_time_step()
            got=norm_log(LOG); want=norm_trace(tr(t))
            ok= got==want
            res[(name,"ok" if ok else "DIFF")]+=1
            if not ok and res[(name,"DIFF")]<3: print(name,par,"\n got ",got,"\n want",want)
        except AssertionError as e:
            res[(name,"assert")]+=1
for k,v in sorted(res.items()): print(v,k)
