import warnings; warnings.filterwarnings("ignore")
from common import *
from fractions import Fraction
from pytreenet.operators.hamiltonian import Hamiltonian
from pytreenet.operators.tensorproduct import TensorProduct
from pytreenet.ttno.ttno_class import TTNO
from pytreenet.ttno.state_diagram import TTNOFinder
import traceback, collections
rng = random.Random(4)
nprs = np.random.RandomState(4)
def rand_ham(rng, ids, dims, nterms, nlabels=3, coeffs=True):
    conv = {}
    for d in set(dims.values()):
        conv[f"I{d}"] = np.eye(d)
        for l in range(nlabels):
            conv[f"A{l}_{d}"] = nprs.standard_normal((d,d))+1j*nprs.standard_normal((d,d))
    terms=[]
    cm = {"1":1}
    for t in range(nterms):
        k = rng.randrange(1, len(ids)+1)
        sites = rng.sample(ids,k)
        tp = TensorProduct({s: f"A{rng.randrange(nlabels)}_{dims[s]}" for s in sites})
        if coeffs:
            fr = Fraction(rng.choice([1,2,-1,3,-2]), rng.choice([1,2,3]))
            g = rng.choice(["1","g1","g2","g3"])
        else:
            fr, g = Fraction(1), "1"
        cm[g] = cm.get(g, complex(nprs.standard_normal(), nprs.standard_normal())) if g!="1" else 1
        terms.append((fr,g,tp))
    return Hamiltonian(terms, conv, cm)
def dense_ham(ham, ids, dims):
    D = int(np.prod([dims[i] for i in ids]))
    M = np.zeros((D,D),dtype=complex)
    for fr,g,tp in ham.terms:
        m = np.ones((1,1))
        for i in ids:
            op = ham.conversion_dictionary[tp[i]] if i in tp else np.eye(dims[i])
            m = np.kron(m, op)
        M += float(fr)*ham.coeffs_mapping[g]*m
    return M
res = collections.Counter()
examples = {}
for trial in range(120):
    n = rng.randrange(1,6)
    par = random_tree_shape(rng,n)
    ttn = build_ttns(rng, par, bond=1)
    ids = list(ttn.nodes.keys())
    dims = {i: ttn.nodes[i].open_dimension() for i in ids}
    coeffs = trial%2==0
    ham = rand_ham(rng, ids, dims, rng.randrange(1,7), coeffs=coeffs)
    ref = dense_ham(ham, ids, dims)
    for method in TTNOFinder:
        key = (method.name, coeffs)
        try:
            import copy
            ttno = TTNO.from_hamiltonian(copy.deepcopy(ham), ttn, method)
            M, order = ttno.as_matrix()
            # reorder ref to 'order'
            perm = [ids.index(o) for o in order]
            shp = [dims[i] for i in ids]
            R = ref.reshape(shp+shp).transpose(perm+[p+len(ids) for p in perm]).reshape(M.shape)
            ok = np.allclose(M,R, atol=1e-9)
            res[key+("ok" if ok else "MISMATCH",)] += 1
            if not ok and key not in examples: examples[key] = (par, [(str(f),g,dict(tp)) for f,g,tp in ham.terms])
        except Exception as e:
            res[key+("EXC "+type(e).__name__,)] += 1
            if key+("exc",) not in examples: examples[key+("exc",)] = (par, [(str(f),g,dict(tp)) for f,g,tp in ham.terms], traceback.format_exc().splitlines()[-3:])
for k in sorted(res): print(k, res[k])
for k,v in examples.items(): print(k, v)
