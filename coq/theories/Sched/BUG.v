(* C09 — the BUG / fixed-rank BUG recursion (pytreenet/time_evolution/time_evo_util/common_bug.py:
   root_update / update_node / update_leaf_node / update_non_leaf_node, bug.py, fixed_bug.py) as an
   event trace over a rooted tree, with a provenance stamp on every environment block, the
   structure of the state that collects the new bases (temporary `_basis_change_tensor` nodes),
   and the shape (rank) arithmetic of one step.  Definitions only; proofs are in BUGProofs.v.

   What is modelled literally:
   * the SandwichCache as a dictionary keyed by (node, next node): `copy(cache)` is a value copy,
     `add_entry` overrides, `delete_entry` removes, `cache.update(d)` lets d override;
     a read of an absent key (KeyError in the code) yields the marker `Missing`;
   * init_cache_but_one(state, H, root): blocks in the post-order of `_find_caching_path`, every
     block built by contract_any from the state tensor of the node and the cached blocks of all
     its neighbours but the one it points to;
   * update_node: copy of the parent's state, centre moved parent -> node, block (parent -> node)
     rebuilt from that re-centred copy, block (node -> parent) deleted;
   * the children loop of update_non_leaf_node / root_update runs every child on the SAME cache
     (the new child blocks are installed only after the loop);
   * pull_tensor_from_different_ttn + contract_all_children (all children of the node in the new
     state are absorbed, whatever they are), the evolution, the new basis (augmented or not),
     the basis change tensor, split_node_replace (temporary node between parent and node), and the
     new block node -> parent built from the new state and the cache.
   The iteration order over `frozenset(children)` is the order of the children list handed to the
   model (the harness compares traces up to a permutation of sibling blocks). *)
From Coq Require Import List Arith Bool.
From PTN Require Import Tree.RTree.
Import ListNotations.

(* ---- provenance ---------------------------------------------------------------------- *)
(* which tensor of a node: in a state of OLD bases centred somewhere (isometry toward the root,
   isometry toward child c because the centre went down through it, the centre itself), the old
   centre tensor with the basis change matrices of the listed children contracted in (the Galerkin
   initial value), a NEW basis tensor, the evolved root tensor *)
Inductive ver :=
| OldUp | OldDown (c : nat) | OldCentre
| WithM (v : ver) (ms : list nat)
| NewB | NewCentre.

(* an environment block: the node it ends in, the version of that node's tensor, and the blocks
   it was built from (one per remaining neighbour, in neighbour order) *)
Inductive stamp := St (n : nat) (v : ver) (subs : list stamp) | Missing (a b : nat).

(* identifiers of the new state: original nodes and temporary basis-change nodes *)
Inductive ident := Orig (n : nat) | BC (n : nat).
Inductive ntree := NNode (i : ident) (children : list ntree).
Definition nid (t : ntree) : ident := match t with NNode i _ => i end.
Definition nchildren (t : ntree) : list ntree := match t with NNode _ cs => cs end.

Inductive event :=
| InitBlock (c p : nat) (s : stamp)           (* init_cache_but_one: block c -> p *)
| Enter (n : nat)                             (* update_node(n) *)
| MoveCentre (p n : nat)                      (* copy of the parent's state, centre p -> n *)
| RefreshBlock (p n : nat) (s : stamp)        (* current_cache.update_tree_cache(p, n) *)
| DropBlock (n p : nat)                       (* current_cache.delete_entry(n, p) *)
| InstallBlocks (n : nat) (cs : list nat)     (* current_cache.update(child_environment_cache) *)
| Pull (n : nat) (v : ver)                    (* pull_tensor_from_different_ttn(current, new, n) *)
| ContractChildren (n : nat) (tmp : list ident) (* new_state.contract_all_children(n) *)
| Evolve (n : nat) (v : ver) (env : list stamp) (* single_site_time_evolution *)
| NewBasis (n : nat) (augmented : bool)
| BasisChange (n : nat) (cs : list nat)       (* M_n from old basis, new basis and the children's M *)
| Split (n : nat)                             (* split_node_replace: temporary BC n above n *)
| Block (n p : nat) (s : stamp)               (* new block n -> p returned to the caller *)
| Leave (n : nat)
| ReplaceRoot (n : nat)
| Truncate
| Recanonicalise (n : nat).                   (* BUG.truncation: canonical_form(root) after the truncation *)

(* ---- the dictionary ------------------------------------------------------------------ *)
Definition cache := list (nat * nat * stamp).
Definition keyb (a b : nat) (e : nat * nat * stamp) : bool :=
  Nat.eqb (fst (fst e)) a && Nat.eqb (snd (fst e)) b.
Fixpoint cget (c : cache) (a b : nat) : stamp :=
  match c with
  | [] => Missing a b
  | e :: r => if keyb a b e then snd e else cget r a b
  end.
Definition cadd (c : cache) (a b : nat) (s : stamp) : cache := (a, b, s) :: c.
Definition cdel (c : cache) (a b : nat) : cache := filter (fun e => negb (keyb a b e)) c.
Definition cupdate (c new : cache) : cache := new ++ c.

(* ---- states of old bases: who carries which version ------------------------------------ *)
Definition vstate := list (nat * ver).
Fixpoint vget (st : vstate) (x : nat) : ver :=
  match st with
  | [] => OldUp
  | (y, v) :: r => if Nat.eqb x y then v else vget r x
  end.
(* deepcopy / deepcopy_parts + move_orthogonalization_center(n) from the neighbouring centre p *)
Definition vmove (p n : nat) (st : vstate) : vstate := (n, OldCentre) :: (p, OldDown n) :: st.

Definition others (b : nat) (nb : list nat) : list nat := filter (fun x => negb (Nat.eqb x b)) nb.

(* contract_any(a, b, state, H, cache): the tensor of a in `state` and the cached blocks of all
   neighbours of a except b *)
Definition build (st : vstate) (c : cache) (a : nat) (anb : list nat) (b : nat) : stamp :=
  St a (vget st a) (map (fun x => cget c x a) (others b anb)).

(* ---- init_cache_but_one(state, H, root) -------------------------------------------------- *)
Fixpoint init_sub (st : vstate) (p : nat) (t : rtree) (c : cache) {struct t} : cache :=
  match t with
  | RNode n cs =>
      let c' := fold_left (fun acc x => init_sub st n x acc) cs c in
      cadd c' n p (build st c' n (p :: map rid cs) p)
  end.

Definition init_cache (st : vstate) (t : rtree) : cache :=
  match t with RNode r cs => fold_left (fun acc x => init_sub st r x acc) cs [] end.

Definition init_events (c : cache) : list event :=
  map (fun e => InitBlock (fst (fst e)) (snd (fst e)) (snd e)) (rev c).

(* ---- update_node ----------------------------------------------------------------------- *)
Record result := { r_events : list event; r_block : stamp; r_struct : ntree }.

Definition is_nil {A : Type} (l : list A) : bool := match l with [] => true | _ => false end.

(* the part of update_non_leaf_node / root_update after the children loop, up to the evolution *)
Definition galerkin_prefix (n : nat) (v : ver) (cs : list rtree) (rs : list result) (c3 : cache)
           (nnb : list nat) : list event :=
  [InstallBlocks n (map rid cs);
   Pull n v;
   ContractChildren n (map (fun r => nid (r_struct r)) rs);
   Evolve n (WithM v (map rid cs)) (map (fun x => cget c3 x n) nnb)].

Fixpoint update_node (fixed : bool) (p : nat) (pnb : list nat) (pst : vstate) (pc : cache)
         (t : rtree) {struct t} : result :=
  match t with
  | RNode n cs =>
      let cst := vmove p n pst in
      let blk := build cst pc p pnb n in
      let c2 := cdel (cadd pc p n blk) n p in
      let nnb := p :: map rid cs in
      let pre := [Enter n; MoveCentre p n; RefreshBlock p n blk; DropBlock n p] in
      if is_nil cs then
        (* update_leaf_node *)
        let out := St n NewB [] in
        {| r_events := pre ++ [Evolve n (vget cst n) (map (fun x => cget c2 x n) nnb);
                               NewBasis n (negb fixed); BasisChange n []; Split n;
                               Block n p out; Leave n];
           r_block := out;
           r_struct := NNode (BC n) [NNode (Orig n) []] |}
      else
        (* update_non_leaf_node *)
        let rs := map (update_node fixed n nnb cst c2) cs in
        let c3 := cupdate c2 (map (fun cr => (rid (fst cr), n, r_block (snd cr))) (combine cs rs)) in
        let out := St n NewB (map (fun x => cget c3 x n) (map rid cs)) in
        {| r_events := pre ++ flat_map r_events rs
                        ++ galerkin_prefix n (vget cst n) cs rs c3 nnb
                        ++ [NewBasis n (negb fixed); BasisChange n (map rid cs); Split n;
                            Block n p out; Leave n];
           r_block := out;
           r_struct := NNode (BC n) [NNode (Orig n) (flat_map (fun r => nchildren (r_struct r)) rs)] |}
  end.

(* root_update, then (rank-adaptive only) the truncation *)
Definition root_state (r : nat) : vstate := [(r, OldCentre)].

Definition root_update (fixed : bool) (t : rtree) : list event * ntree :=
  match t with
  | RNode r cs =>
      let st := root_state r in
      let c0 := init_cache st t in
      let nnb := map rid cs in
      let rs := map (update_node fixed r nnb st c0) cs in
      let c3 := cupdate c0 (map (fun cr => (rid (fst cr), r, r_block (snd cr))) (combine cs rs)) in
      (init_events c0 ++ flat_map r_events rs
         ++ galerkin_prefix r (vget st r) cs rs c3 nnb
         ++ [ReplaceRoot r] ++ (if fixed then [] else [Truncate; Recanonicalise r]),
       NNode (Orig r) (flat_map (fun r => nchildren (r_struct r)) rs))
  end.

Definition bug_trace (fixed : bool) (t : rtree) : list event := fst (root_update fixed t).
Definition bug_struct (fixed : bool) (t : rtree) : ntree := snd (root_update fixed t).

(* ---- observations on traces -------------------------------------------------------------- *)
Definition evolve_of (e : event) : list (nat * ver * list stamp) :=
  match e with Evolve n v env => [(n, v, env)] | _ => [] end.
Definition evolves (tr : list event) : list (nat * ver * list stamp) := flat_map evolve_of tr.
Definition evolved_nodes (tr : list event) : list nat := map (fun x => fst (fst x)) (evolves tr).

Fixpoint postorder (t : rtree) : list nat :=
  match t with RNode i cs => flat_map postorder cs ++ [i] end.

(* ---- the specification side: closed forms ------------------------------------------------ *)
(* block of a whole subtree in the initial (root-centred) state of old bases *)
Fixpoint old_up (t : rtree) : stamp :=
  match t with RNode n cs => St n OldUp (map old_up cs) end.
(* block of a whole subtree made of new bases only *)
Fixpoint new_up (t : rtree) : stamp :=
  match t with RNode n cs => St n NewB (map new_up cs) end.

Definition siblings (c : rtree) (cs : list rtree) : list rtree :=
  filter (fun s => negb (Nat.eqb (rid s) (rid c))) cs.

(* pblk: the block that reaches the subtree t from its parent, i.e. everything outside t, in the
   state of old bases re-centred at the root of t.  The evolutions inside t, in order. *)
Fixpoint spec_evolves (pblk : stamp) (t : rtree) : list (nat * ver * list stamp) :=
  match t with
  | RNode n cs =>
      flat_map (fun c => spec_evolves (St n (OldDown (rid c)) (pblk :: map old_up (siblings c cs))) c) cs
      ++ [(n, if is_nil cs then OldCentre else WithM OldCentre (map rid cs), pblk :: map new_up cs)]
  end.

Definition spec_root (t : rtree) : list (nat * ver * list stamp) :=
  match t with
  | RNode r cs =>
      flat_map (fun c => spec_evolves (St r (OldDown (rid c)) (map old_up (siblings c cs))) c) cs
      ++ [(r, WithM OldCentre (map rid cs), map new_up cs)]
  end.

(* every tensor in the block belongs to a state of old bases / is a new basis *)
Definition ver_old (v : ver) : bool :=
  match v with OldUp | OldDown _ | OldCentre => true | _ => false end.
Fixpoint stamp_old (s : stamp) : bool :=
  match s with
  | St _ v subs => ver_old v && forallb stamp_old subs
  | Missing _ _ => false
  end.
Fixpoint stamp_new (s : stamp) : bool :=
  match s with
  | St _ NewB subs => forallb stamp_new subs
  | _ => false
  end.
Definition stamp_node (s : stamp) : option nat := match s with St n _ _ => Some n | Missing _ _ => None end.
Definition stamp_ver (s : stamp) : option ver := match s with St _ v _ => Some v | Missing _ _ => None end.
Fixpoint stamp_nodes (s : stamp) : list nat :=
  match s with St n _ subs => n :: flat_map stamp_nodes subs | Missing _ _ => [] end.

(* structure of the new state *)
Fixpoint embed (t : rtree) : ntree :=
  match t with RNode i cs => NNode (Orig i) (map embed cs) end.
Fixpoint nidents (t : ntree) : list ident :=
  match t with NNode i cs => i :: flat_map nidents cs end.
Definition contract_children_of (e : event) : list (nat * list ident) :=
  match e with ContractChildren n tmp => [(n, tmp)] | _ => [] end.

Definition contracts (tr : list event) : list (nat * list ident) := flat_map contract_children_of tr.
(* what must be absorbed where: at every non-leaf node exactly the temporaries of its children *)
Fixpoint spec_contracts (t : rtree) : list (nat * list ident) :=
  match t with
  | RNode n cs => flat_map spec_contracts cs
                  ++ (if is_nil cs then [] else [(n, map (fun c => BC (rid c)) cs)])
  end.
Definition spec_contracts_root (t : rtree) : list (nat * list ident) :=
  match t with RNode r cs => flat_map spec_contracts cs ++ [(r, map (fun c => BC (rid c)) cs)] end.

(* ---- shape (rank) arithmetic of one step --------------------------------------------------- *)
(* a node: identifier, dimension r of the leg to the parent (ignored at the root), product d of
   the open dimensions, children *)
Inductive dtree := DNode (i r d : nat) (children : list dtree).
Definition did (t : dtree) := match t with DNode i _ _ _ => i end.
Definition drank (t : dtree) := match t with DNode _ r _ _ => r end.
Definition dopen (t : dtree) := match t with DNode _ _ d _ => d end.
Definition dchildren (t : dtree) := match t with DNode _ _ _ cs => cs end.

Definition prod (l : list nat) : nat := fold_right Nat.mul 1 l.

(* tensor_qr_decomposition: dimension of the new leg between Q and R.
   REDUCED: min(rows, cols); KEEP: the product of the R-leg dimensions (cols) *)
Definition qr_new_leg (keep : bool) (rows cols : nat) : nat := if keep then cols else Nat.min rows cols.

(* Node leg order of a non-root node with nc children and no open legs:
   parent_leg = 0, children_legs = 1..nc, open_legs = nc+1..nc+no *)
Definition children_legs (nc : nat) : list nat := seq 1 nc.
Definition open_legs (nc no : nat) : list nat := seq (1 + nc) no.
(* bug_util.new_basis_tensor_qr_legs *)
Definition new_basis_qr_legs (nc no : nat) : list nat * list nat :=
  (children_legs nc ++ open_legs nc no, [0]).

(* numpy.concatenate((a, b), axis): the axis must exist, shapes must agree off the axis *)
Fixpoint concat_shape (axis : nat) (s1 s2 : list nat) : option (list nat) :=
  match s1, s2 with
  | a :: r1, b :: r2 =>
      match axis with
      | 0 => if list_eq_dec Nat.eq_dec r1 r2 then Some ((a + b) :: r1) else None
      | S k => if Nat.eqb a b then option_map (cons a) (concat_shape k r1 r2) else None
      end
  | _, _ => None
  end.
(* bug_util.concat_along_parent_leg on a non-root node *)
Definition concat_along_parent_leg (s1 s2 : list nat) : option (list nat) := concat_shape 0 s1 s2.

Definition dsiblings (c : dtree) (cs : list dtree) : list dtree :=
  filter (fun s => negb (Nat.eqb (did s) (did c))) cs.

Definition map_opt {A B : Type} (f : A -> option B) : list A -> option (list B) :=
  fix go (l : list A) : option (list B) :=
    match l with
    | [] => Some []
    | a :: r => match f a, go r with Some b, Some rb => Some (b :: rb) | _, _ => None end
    end.

(* update_node on shapes.  `pothers`: product of the dimensions of all legs of the parent except
   the one to this node, in the copy of the parent's state (where the parent is the centre).
   `rc_keep`: the mode of the re-centring QR in update_node — the code uses SplitMode.KEEP for both
   variants (rc_keep = true; `shape_root`); before the repair recorded as
   C09-redundant-parent-bond-raises the rank-adaptive variant used REDUCED (rc_keep = false).
   Result: the subtree with its new parent-leg dimensions, or None = NotCompatibleException of
   replace_tensor in pull_tensor_from_different_ttn (shape of the re-centred tensor differs from
   the node of the new state). *)
Fixpoint shape_update (rc_keep fixed : bool) (pothers : nat) (t : dtree) {struct t} : option dtree :=
  match t with
  | DNode n r d cs =>
      (* move_orthogonalization_center(n): QR of the parent's tensor, R-leg = the leg to n *)
      let r' := qr_new_leg rc_keep pothers r in
      if is_nil cs then
        (* leaf: QR of concat(old (r,d), updated (r',d)) along axis 0 with Q-leg = the open leg;
           fixed rank: KEEP QR of the updated tensor *)
        Some (DNode n (if fixed then r' else qr_new_leg false d (r + r')) d [])
      else
        match map_opt (fun c => shape_update rc_keep fixed (r' * prod (map drank (dsiblings c cs)) * d) c) cs with
        | None => None
        | Some cs' =>
            if Nat.eqb r' r then
              let m := prod (map drank cs') * d in
              Some (DNode n (if fixed then r else qr_new_leg false m (r + r)) d cs')
            else None
        end
  end.

Definition shape_root_gen (rc_keep fixed : bool) (t : dtree) : option dtree :=
  match t with
  | DNode n r d cs =>
      match map_opt (fun c => shape_update rc_keep fixed (prod (map drank (dsiblings c cs)) * d) c) cs with
      | None => None
      | Some cs' => Some (DNode n r d cs')
      end
  end.

(* the code: re-centring keeps the bond dimension *)
Definition shape_root (fixed : bool) (t : dtree) : option dtree := shape_root_gen true fixed t.

(* the guard under which a rank-adaptive step with a REDUCED re-centring does not raise: at every
   non-leaf non-root node the parent leg is not larger than the product of the parent's other legs *)
Fixpoint parent_side_ok (pothers : nat) (t : dtree) {struct t} : bool :=
  match t with
  | DNode n r d cs =>
      if is_nil cs then true
      else Nat.leb r pothers
           && forallb (fun c => parent_side_ok (Nat.min pothers r * prod (map drank (dsiblings c cs)) * d) c) cs
  end.
Definition parent_side_ok_root (t : dtree) : bool :=
  match t with
  | DNode n r d cs => forallb (fun c => parent_side_ok (prod (map drank (dsiblings c cs)) * d) c) cs
  end.

(* relation between the shapes before and after: same identifiers, open dimensions and children,
   every parent leg at most doubled *)
Definition forall2b {A B : Type} (f : A -> B -> bool) : list A -> list B -> bool :=
  fix go (l : list A) (l' : list B) : bool :=
    match l, l' with
    | [], [] => true
    | x :: xs, y :: ys => f x y && go xs ys
    | _, _ => false
    end.

Fixpoint grows_le2 (a b : dtree) {struct a} : bool :=
  match a, b with
  | DNode i r d cs, DNode i' r' d' cs' =>
      Nat.eqb i i' && Nat.eqb d d' && Nat.leb r' (2 * r) && forall2b grows_le2 cs cs'
  end.
