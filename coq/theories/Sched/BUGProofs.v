(* C09 — proofs about the BUG recursion model (Sched/BUG.v). *)
From Coq Require Import List Arith Bool Lia Permutation.
From PTN Require Import Tree.RTree Tree.RTreeProofs Sched.BUG.
Import ListNotations.

(* ======================================================================================== *)
(* 1. generic list facts                                                                     *)
(* ======================================================================================== *)
Lemma flat_map_app' {A B} (f : A -> list B) l1 l2 : flat_map f (l1 ++ l2) = flat_map f l1 ++ flat_map f l2.
Proof. induction l1; simpl; auto. rewrite IHl1, app_assoc. reflexivity. Qed.

Lemma flat_map_flat_map {A B C} (f : A -> list B) (g : B -> list C) l :
  flat_map g (flat_map f l) = flat_map (fun a => flat_map g (f a)) l.
Proof. induction l; simpl; auto. rewrite flat_map_app', IHl. reflexivity. Qed.

Lemma flat_map_map {A B C} (f : A -> B) (g : B -> list C) l :
  flat_map g (map f l) = flat_map (fun a => g (f a)) l.
Proof. induction l; simpl; congruence. Qed.

Lemma flat_map_ext_In {A B} (f g : A -> list B) l :
  (forall a, In a l -> f a = g a) -> flat_map f l = flat_map g l.
Proof.
  induction l as [|a l IH]; simpl; intros H; auto.
  rewrite (H a (or_introl eq_refl)). rewrite IH; auto.
Qed.

Lemma flat_map_singleton {A B} (f : A -> B) l : flat_map (fun a => [f a]) l = map f l.
Proof. induction l; simpl; congruence. Qed.

Lemma map_flat_map {A B C} (f : B -> C) (g : A -> list B) l :
  map f (flat_map g l) = flat_map (fun a => map f (g a)) l.
Proof. induction l; simpl; auto. rewrite map_app, IHl. reflexivity. Qed.

Lemma combine_map_r {A B} (f : A -> B) l : combine l (map f l) = map (fun a => (a, f a)) l.
Proof. induction l; simpl; congruence. Qed.

Lemma is_nil_false {A} (l : list A) : is_nil l = false <-> l <> [].
Proof. destruct l; simpl; split; intros; try congruence; auto. Qed.

(* ======================================================================================== *)
(* 2. the order of the evolutions                                                             *)
(* ======================================================================================== *)
Lemma evolves_app a b : evolves (a ++ b) = evolves a ++ evolves b.
Proof. apply flat_map_app'. Qed.

Lemma evolves_flat_map {A} (f : A -> list event) l :
  evolves (flat_map f l) = flat_map (fun x => evolves (f x)) l.
Proof. apply flat_map_flat_map. Qed.

Lemma evolved_nodes_app a b : evolved_nodes (a ++ b) = evolved_nodes a ++ evolved_nodes b.
Proof. unfold evolved_nodes. rewrite evolves_app, map_app. reflexivity. Qed.

Lemma evolved_nodes_flat_map {A} (f : A -> list event) l :
  evolved_nodes (flat_map f l) = flat_map (fun x => evolved_nodes (f x)) l.
Proof. unfold evolved_nodes. rewrite evolves_flat_map, map_flat_map. reflexivity. Qed.

Lemma evolves_init c : evolves (init_events c) = [].
Proof.
  unfold init_events. induction (rev c); simpl; auto.
Qed.

(* controlled unfolding of update_node *)
Lemma update_node_leaf fixed p pnb pst pc n :
  update_node fixed p pnb pst pc (RNode n []) =
  let cst := vmove p n pst in
  let blk := build cst pc p pnb n in
  let c2 := cdel (cadd pc p n blk) n p in
  {| r_events := [Enter n; MoveCentre p n; RefreshBlock p n blk; DropBlock n p]
                 ++ [Evolve n (vget cst n) (map (fun x => cget c2 x n) [p]);
                     NewBasis n (negb fixed); BasisChange n []; Split n; Block n p (St n NewB []); Leave n];
     r_block := St n NewB [];
     r_struct := NNode (BC n) [NNode (Orig n) []] |}.
Proof. reflexivity. Qed.

Lemma update_node_nonleaf fixed p pnb pst pc n cs : is_nil cs = false ->
  update_node fixed p pnb pst pc (RNode n cs) =
  let cst := vmove p n pst in
  let blk := build cst pc p pnb n in
  let c2 := cdel (cadd pc p n blk) n p in
  let nnb := p :: map rid cs in
  let rs := map (update_node fixed n nnb cst c2) cs in
  let c3 := cupdate c2 (map (fun cr => (rid (fst cr), n, r_block (snd cr))) (combine cs rs)) in
  let out := St n NewB (map (fun x => cget c3 x n) (map rid cs)) in
  {| r_events := [Enter n; MoveCentre p n; RefreshBlock p n blk; DropBlock n p] ++ flat_map r_events rs
                  ++ galerkin_prefix n (vget cst n) cs rs c3 nnb
                  ++ [NewBasis n (negb fixed); BasisChange n (map rid cs); Split n; Block n p out; Leave n];
     r_block := out;
     r_struct := NNode (BC n) [NNode (Orig n) (flat_map (fun r => nchildren (r_struct r)) rs)] |}.
Proof. intros H. destruct cs; [discriminate|reflexivity]. Qed.

Lemma evolved_nodes_galerkin n v cs rs c3 nnb : evolved_nodes (galerkin_prefix n v cs rs c3 nnb) = [n].
Proof. reflexivity. Qed.

Lemma update_node_order : forall t fixed p pnb pst pc,
  evolved_nodes (r_events (update_node fixed p pnb pst pc t)) = postorder t.
Proof.
  induction t as [n cs IH] using rtree_ind2. intros. rewrite Forall_forall in IH.
  destruct (is_nil cs) eqn:N.
  - destruct cs; [|discriminate]. reflexivity.
  - rewrite update_node_nonleaf by exact N. cbv zeta. cbn [r_events].
    rewrite !evolved_nodes_app, evolved_nodes_galerkin, evolved_nodes_flat_map, flat_map_map.
    cbn [postorder]. change (evolved_nodes [Enter n; MoveCentre p n; _; DropBlock n p]) with (@nil nat).
    match goal with |- context [evolved_nodes [NewBasis ?a ?b; ?c; ?d; ?e; ?f]] =>
      change (evolved_nodes [NewBasis a b; c; d; e; f]) with (@nil nat) end.
    rewrite app_nil_r. cbn [app]. f_equal.
    apply flat_map_ext_In. intros a Ha. apply IH; auto.
Qed.

Lemma root_update_eq fixed r cs :
  root_update fixed (RNode r cs) =
  let st := root_state r in
  let c0 := init_cache st (RNode r cs) in
  let nnb := map rid cs in
  let rs := map (update_node fixed r nnb st c0) cs in
  let c3 := cupdate c0 (map (fun cr => (rid (fst cr), r, r_block (snd cr))) (combine cs rs)) in
  (init_events c0 ++ flat_map r_events rs ++ galerkin_prefix r (vget st r) cs rs c3 nnb
     ++ [ReplaceRoot r] ++ (if fixed then [] else [Truncate; Recanonicalise r]),
   NNode (Orig r) (flat_map (fun r => nchildren (r_struct r)) rs)).
Proof. reflexivity. Qed.

Lemma evolves_tail r (fixed : bool) : evolves ([ReplaceRoot r] ++ (if fixed then [] else [Truncate; Recanonicalise r])) = [].
Proof. destruct fixed; reflexivity. Qed.

Theorem bug_order_postorder : forall fixed t, evolved_nodes (bug_trace fixed t) = postorder t.
Proof.
  intros fixed [r cs]. unfold bug_trace. rewrite root_update_eq. cbv zeta. cbn [fst].
  rewrite !evolved_nodes_app, evolved_nodes_galerkin, evolved_nodes_flat_map, flat_map_map.
  unfold evolved_nodes at 1. rewrite evolves_init.
  assert (E : evolved_nodes (if fixed then [] else [Truncate; Recanonicalise r]) = []) by (destruct fixed; reflexivity).
  rewrite E. change (evolved_nodes [ReplaceRoot r]) with (@nil nat). cbn [map app postorder].
  f_equal. apply flat_map_ext_In. intros a _. apply update_node_order.
Qed.

Lemma postorder_perm : forall t, Permutation (postorder t) (ids t).
Proof.
  induction t as [i cs IH] using rtree_ind2. simpl.
  apply Permutation_sym, Permutation_cons_app. rewrite app_nil_r.
  apply Permutation_sym. induction IH; simpl; auto. apply Permutation_app; auto.
Qed.

Definition before (x y : nat) (l : list nat) : Prop :=
  exists l1 l2 l3, l = l1 ++ x :: l2 ++ y :: l3.

Lemma before_app_l x y l k : before x y l -> before x y (l ++ k).
Proof. intros [a [b [c E]]]. exists a, b, (c ++ k). subst. repeat (rewrite <- app_assoc; simpl). reflexivity. Qed.

Lemma before_app_r x y l k : before x y l -> before x y (k ++ l).
Proof. intros [a [b [c E]]]. exists (k ++ a), b, c. subst. rewrite <- app_assoc. reflexivity. Qed.

Lemma postorder_last : forall t, exists l, postorder t = l ++ [rid t].
Proof. intros [i cs]. simpl. eauto. Qed.

Lemma before_flat_map {A} (f : A -> list nat) x y l a : In a l -> before x y (f a) -> before x y (flat_map f l).
Proof.
  intros Ha Hb. apply in_split in Ha. destruct Ha as [l1 [l2 E]]. subst.
  rewrite flat_map_app'. simpl. apply before_app_r, before_app_l. exact Hb.
Qed.

Lemma postorder_child_before_parent : forall t p c, In (p, c) (edges t) -> before c p (postorder t).
Proof.
  induction t as [i cs IH] using rtree_ind2. intros p c H. rewrite Forall_forall in IH. simpl in H.
  apply in_app_or in H. destruct H as [H|H].
  - apply in_map_iff in H. destruct H as [c0 [E Hc0]]. inversion E; subst. simpl.
    apply in_split in Hc0. destruct Hc0 as [l1 [l2 E2]]. subst. rewrite flat_map_app'. simpl.
    destruct (postorder_last c0) as [l E3]. rewrite E3.
    exists (flat_map postorder l1 ++ l), (flat_map postorder l2), [].
    repeat (rewrite <- app_assoc; simpl). reflexivity.
  - apply in_flat_map in H. destruct H as [c0 [Hc0 He]]. simpl.
    apply before_app_l. eapply before_flat_map; eauto.
Qed.

Theorem bug_order : forall fixed t, NoDup (ids t) ->
  let ev := evolved_nodes (bug_trace fixed t) in
  (* every node exactly once *)
  NoDup ev /\ (forall x, In x ev <-> In x (ids t)) /\
  (* a child before its parent *)
  (forall p c, In (p, c) (edges t) -> before c p ev) /\
  (* the root last *)
  (exists l, ev = l ++ [rid t]).
Proof.
  intros fixed t W ev. unfold ev. rewrite bug_order_postorder. repeat split.
  - eapply Permutation_NoDup; [apply Permutation_sym, postorder_perm | exact W].
  - intros H. eapply Permutation_in; [apply postorder_perm | exact H].
  - intros H. eapply Permutation_in; [apply Permutation_sym, postorder_perm | exact H].
  - intros. apply postorder_child_before_parent; auto.
  - apply postorder_last.
Qed.

(* ======================================================================================== *)
(* 3. the dictionary                                                                          *)
(* ======================================================================================== *)
Lemma keyb_true a b e : keyb a b e = true <-> fst (fst e) = a /\ snd (fst e) = b.
Proof. unfold keyb. rewrite andb_true_iff, !Nat.eqb_eq. tauto. Qed.

Lemma keyb_false a b e : keyb a b e = false <-> ~ (fst (fst e) = a /\ snd (fst e) = b).
Proof. rewrite <- keyb_true. destruct (keyb a b e); split; intros; try congruence; tauto. Qed.

Lemma cget_cadd_same c a b s : cget (cadd c a b s) a b = s.
Proof. unfold cadd. simpl. unfold keyb. simpl. rewrite !Nat.eqb_refl. reflexivity. Qed.

Lemma cget_cadd_other c a b s a' b' : ~ (a = a' /\ b = b') -> cget (cadd c a b s) a' b' = cget c a' b'.
Proof.
  intros H. unfold cadd. simpl. destruct (keyb a' b' (a, b, s)) eqn:K; auto.
  apply keyb_true in K. simpl in K. tauto.
Qed.

Lemma cget_cdel_other c a b a' b' : ~ (a = a' /\ b = b') -> cget (cdel c a b) a' b' = cget c a' b'.
Proof.
  intros H. induction c as [|e c IH]; simpl; auto.
  destruct (keyb a b e) eqn:K; simpl.
  - rewrite IH. destruct (keyb a' b' e) eqn:K'; auto.
    apply keyb_true in K. apply keyb_true in K'. destruct K, K'. exfalso. apply H. split; congruence.
  - destruct (keyb a' b' e); auto.
Qed.

Lemma cget_app_skip new c a b :
  (forall e, In e new -> ~ (fst (fst e) = a /\ snd (fst e) = b)) -> cget (new ++ c) a b = cget c a b.
Proof.
  induction new as [|e new IH]; simpl; intros H; auto.
  destruct (keyb a b e) eqn:K.
  - apply keyb_true in K. exfalso. eapply H; eauto.
  - apply IH. intros. apply H. auto.
Qed.

Lemma NoDup_map_rid : forall cs, NoDup (flat_map ids cs) -> NoDup (map rid cs).
Proof.
  induction cs as [|c cs IH]; simpl; intros H; [constructor|].
  apply NoDup_app_inv in H. destruct H as [H1 [H2 H3]]. constructor; auto.
  intros Hin. apply in_map_iff in Hin. destruct Hin as [c' [E Hc']].
  apply (H3 (rid c)); [apply rid_in_ids|]. apply in_flat_map. exists c'. split; auto. rewrite <- E. apply rid_in_ids.
Qed.

Lemma cget_childblocks (F : rtree -> stamp) n : forall cs rest g,
  NoDup (map rid cs) -> In g cs ->
  cget (map (fun c => (rid c, n, F c)) cs ++ rest) (rid g) n = F g.
Proof.
  induction cs as [|c cs IH]; simpl; intros rest g ND Hg; [tauto|].
  inversion ND; subst. unfold keyb at 1. simpl. destruct Hg as [E|Hg].
  - subst. rewrite !Nat.eqb_refl. reflexivity.
  - destruct (Nat.eqb (rid c) (rid g)) eqn:E.
    + apply Nat.eqb_eq in E. exfalso. apply H1. rewrite E. apply in_map; auto.
    + simpl. apply IH; auto.
Qed.

Lemma vget_vmove_centre p n st : vget (vmove p n st) n = OldCentre.
Proof. simpl. rewrite Nat.eqb_refl. reflexivity. Qed.

Lemma vget_vmove_parent p n st : p <> n -> vget (vmove p n st) p = OldDown n.
Proof. intros H. simpl. apply Nat.eqb_neq in H. rewrite H, Nat.eqb_refl. reflexivity. Qed.

Lemma others_cons_keep b x l : x <> b -> others b (x :: l) = x :: others b l.
Proof. intros H. unfold others. simpl. apply Nat.eqb_neq in H. rewrite H. reflexivity. Qed.

Lemma others_cons_drop b l : others b (b :: l) = others b l.
Proof. unfold others. simpl. rewrite Nat.eqb_refl. reflexivity. Qed.

Lemma others_notin b l : ~ In b l -> others b l = l.
Proof.
  induction l as [|x l IH]; intros H; auto.
  rewrite others_cons_keep by (intros E; apply H; simpl; auto). rewrite IH; auto.
  intros X. apply H. simpl. auto.
Qed.

Lemma others_map_rid g cs : others (rid g) (map rid cs) = map rid (siblings g cs).
Proof.
  unfold others, siblings. induction cs as [|c cs IH]; simpl; auto.
  destruct (Nat.eqb (rid c) (rid g)); simpl; rewrite IH; reflexivity.
Qed.

Lemma siblings_incl g cs s : In s (siblings g cs) -> In s cs.
Proof. unfold siblings. intros H. apply filter_In in H. tauto. Qed.

(* ======================================================================================== *)
(* 4. init_cache_but_one                                                                      *)
(* ======================================================================================== *)
(* all (parent identifier, subtree) pairs of the subtree t hanging at p *)
Fixpoint sub_edges (p : nat) (t : rtree) : list (nat * rtree) :=
  match t with RNode n cs => (p, t) :: flat_map (sub_edges n) cs end.

Definition has_init (p : nat) (t : rtree) (c : cache) : Prop :=
  forall q s, In (q, s) (sub_edges p t) -> cget c (rid s) q = old_up s.

Lemma sub_edges_ids : forall t p q s, In (q, s) (sub_edges p t) -> In (rid s) (ids t).
Proof.
  induction t as [n cs IH] using rtree_ind2. intros p q s H. rewrite Forall_forall in IH. simpl in H.
  destruct H as [E|H].
  - inversion E; subst. simpl. auto.
  - apply in_flat_map in H. destruct H as [c [Hc Hs]]. simpl. right. apply in_flat_map. exists c. split; auto.
    eapply IH; eauto.
Qed.

Lemma sub_edges_head p t : In (p, t) (sub_edges p t).
Proof. destruct t. simpl. auto. Qed.

Lemma sub_edges_child p n cs g q s : In g cs -> In (q, s) (sub_edges n g) -> In (q, s) (sub_edges p (RNode n cs)).
Proof. intros Hg H. simpl. right. apply in_flat_map. exists g. auto. Qed.

Definition all_up (st : vstate) (l : list nat) : Prop := forall x, In x l -> vget st x = OldUp.

Definition init_sub_ok (t : rtree) : Prop :=
  forall st p c, NoDup (ids t) -> ~ In p (ids t) -> all_up st (ids t) ->
  has_init p t (init_sub st p t c) /\
  (forall a b, ~ In a (ids t) -> cget (init_sub st p t c) a b = cget c a b).

Lemma fold_init_spec st n : forall cs, Forall init_sub_ok cs ->
  NoDup (flat_map ids cs) -> ~ In n (flat_map ids cs) -> all_up st (flat_map ids cs) ->
  forall c,
  (forall g, In g cs -> has_init n g (fold_left (fun acc x => init_sub st n x acc) cs c)) /\
  (forall a b, ~ In a (flat_map ids cs) -> cget (fold_left (fun acc x => init_sub st n x acc) cs c) a b = cget c a b).
Proof.
  induction cs as [|g cs IHcs]; intros IH Hnd Hn Hup c.
  - simpl. split; [tauto | auto].
  - inversion IH as [|? ? IHg IHrest]; subst.
    simpl in Hnd. apply NoDup_app_inv in Hnd. destruct Hnd as [Hg1 [Hg2 Hg3]].
    assert (Hng : ~ In n (ids g)) by (intros X; apply Hn; simpl; apply in_or_app; auto).
    assert (Hncs : ~ In n (flat_map ids cs)) by (intros X; apply Hn; simpl; apply in_or_app; auto).
    assert (Hupg : all_up st (ids g)) by (intros x Hx; apply Hup; simpl; apply in_or_app; auto).
    assert (Hupcs : all_up st (flat_map ids cs)) by (intros x Hx; apply Hup; simpl; apply in_or_app; auto).
    destruct (IHg st n c Hg1 Hng Hupg) as [G1 G2].
    destruct (IHcs IHrest Hg2 Hncs Hupcs (init_sub st n g c)) as [R1 R2].
    simpl. split.
    + intros g' [E|Hg'].
      * subst g'. intros q s Hs. rewrite R2; [apply G1; auto|].
        intros X. apply (Hg3 (rid s)); auto. eapply sub_edges_ids; eauto.
      * apply R1; auto.
    + intros a b Ha. rewrite R2, G2; auto; intros X; apply Ha; simpl; apply in_or_app; auto.
Qed.

Lemma init_sub_spec : forall t, init_sub_ok t.
Proof.
  induction t as [n cs IH] using rtree_ind2. intros st p c W Hp Hup.
  destruct (wf_inv _ _ W) as [Hn [Hnd Hw]].
  cbn [init_sub].
  assert (Hupcs : all_up st (flat_map ids cs)) by (intros x Hx; apply Hup; simpl; auto).
  destruct (fold_init_spec st n cs IH Hnd Hn Hupcs c) as [F1 F2].
  set (c' := fold_left (fun acc x => init_sub st n x acc) cs c) in *.
  assert (Hpcs : ~ In p (map rid cs)).
  { intros X. apply Hp. simpl. right. apply in_map_iff in X. destruct X as [g [E Hg]].
    apply in_flat_map. exists g. split; auto. rewrite <- E. apply rid_in_ids. }
  assert (B : build st c' n (p :: map rid cs) p = old_up (RNode n cs)).
  { unfold build. rewrite others_cons_drop, others_notin by exact Hpcs.
    rewrite (Hup n) by (simpl; auto). simpl. f_equal. rewrite map_map.
    apply map_ext_in. intros g Hg. apply (F1 g Hg). apply sub_edges_head. }
  rewrite B. split.
  - intros q s Hs. simpl in Hs. destruct Hs as [E|Hs].
    + inversion E; subst. simpl. apply cget_cadd_same.
    + apply in_flat_map in Hs. destruct Hs as [g [Hg Hs]].
      rewrite cget_cadd_other.
      * apply (F1 g Hg); auto.
      * intros [E _]. apply Hn. rewrite E. apply in_flat_map. exists g. split; auto. eapply sub_edges_ids; eauto.
  - intros a b Ha. rewrite cget_cadd_other.
    + apply F2. intros X. apply Ha. simpl. auto.
    + intros [E _]. apply Ha. simpl. auto.
Qed.

Definition inner_init (t : rtree) (c : cache) : Prop :=
  forall g, In g (rchildren t) -> has_init (rid t) g c.

Lemma init_cache_inner : forall r cs,
  NoDup (ids (RNode r cs)) -> inner_init (RNode r cs) (init_cache (root_state r) (RNode r cs)).
Proof.
  intros r cs W. destruct (wf_inv _ _ W) as [Hn [Hnd Hw]].
  assert (Hup : all_up (root_state r) (flat_map ids cs)).
  { intros x Hx. simpl. destruct (Nat.eqb x r) eqn:E; auto. apply Nat.eqb_eq in E. subst. tauto. }
  assert (IH : Forall init_sub_ok cs) by (apply Forall_forall; intros; apply init_sub_spec).
  unfold inner_init, init_cache. cbn [rchildren rid].
  apply (fold_init_spec (root_state r) r cs IH Hnd Hn Hup []).
Qed.

(* ======================================================================================== *)
(* 5. provenance of the environments, the returned blocks, the structure of the new state     *)
(* ======================================================================================== *)
Lemma contracts_app a b : contracts (a ++ b) = contracts a ++ contracts b.
Proof. apply flat_map_app'. Qed.

Lemma contracts_flat_map {A} (f : A -> list event) l :
  contracts (flat_map f l) = flat_map (fun x => contracts (f x)) l.
Proof. apply flat_map_flat_map. Qed.

Lemma contracts_init c : contracts (init_events c) = [].
Proof. unfold init_events. induction (rev c); simpl; auto. Qed.

Lemma has_init_sub n g q s c : has_init n g c -> In (q, s) (sub_edges n g) -> cget c (rid s) q = old_up s.
Proof. intros H. apply H. Qed.

Lemma update_node_spec : forall t fixed p pnb pst pc subs,
  NoDup (ids t) -> ~ In p (ids t) ->
  map (fun x => cget pc x p) (others (rid t) pnb) = subs ->
  inner_init t pc ->
  let r := update_node fixed p pnb pst pc t in
  evolves (r_events r) = spec_evolves (St p (OldDown (rid t)) subs) t /\
  r_block r = new_up t /\
  r_struct r = NNode (BC (rid t)) [embed t] /\
  contracts (r_events r) = spec_contracts t.
Proof.
  induction t as [n cs IH] using rtree_ind2. intros fixed p pnb pst pc subs W Hp Hsubs Hinit.
  rewrite Forall_forall in IH. cbn [rid] in *.
  assert (Hpn : p <> n) by (intros E; apply Hp; simpl; auto).
  set (cst := vmove p n pst).
  assert (Hblk : build cst pc p pnb n = St p (OldDown n) subs).
  { unfold build. unfold cst. rewrite vget_vmove_parent by exact Hpn. rewrite Hsubs. reflexivity. }
  destruct (is_nil cs) eqn:N.
  - (* leaf *)
    destruct cs; [|discriminate]. rewrite update_node_leaf. cbv zeta. fold cst. rewrite Hblk.
    cbn [r_events r_block r_struct]. repeat split.
    cbn [map]. rewrite cget_cdel_other by (intros [E _]; auto). rewrite cget_cadd_same.
    unfold cst. rewrite vget_vmove_centre. reflexivity.
  - rewrite update_node_nonleaf by exact N. cbv zeta. fold cst. rewrite Hblk.
    set (blk := St p (OldDown n) subs).
    set (c2 := cdel (cadd pc p n blk) n p).
    set (nnb := p :: map rid cs).
    destruct (wf_inv _ _ W) as [Hn [Hnd Hw]].
    assert (Hpr : forall g, In g cs -> p <> rid g).
    { intros g Hg E. apply Hp. simpl. right. apply in_flat_map. exists g. split; auto. rewrite E. apply rid_in_ids. }
    assert (Hnr : forall g, In g cs -> n <> rid g).
    { intros g Hg E. apply Hn. apply in_flat_map. exists g. split; auto. rewrite E. apply rid_in_ids. }
    (* unchanged entries *)
    assert (Hc2 : forall a b, a <> p -> a <> n -> cget c2 a b = cget pc a b).
    { intros a b Hap Han. unfold c2. rewrite cget_cdel_other by (intros [E _]; auto).
      apply cget_cadd_other. intros [E _]; auto. }
    assert (Hc2p : cget c2 p n = blk).
    { unfold c2. rewrite cget_cdel_other by (intros [E _]; auto). apply cget_cadd_same. }
    (* the recursive calls *)
    assert (R : forall g, In g cs ->
      let r := update_node fixed n nnb cst c2 g in
      evolves (r_events r) = spec_evolves (St n (OldDown (rid g)) (blk :: map old_up (siblings g cs))) g /\
      r_block r = new_up g /\ r_struct r = NNode (BC (rid g)) [embed g] /\
      contracts (r_events r) = spec_contracts g).
    { intros g Hg. apply IH; auto.
      - eapply wf_child; eauto.
      - eapply wf_root_notin_child; eauto.
      - unfold nnb. rewrite others_cons_keep by (apply Hpr; auto). cbn [map]. rewrite Hc2p. f_equal.
        rewrite others_map_rid, map_map. apply map_ext_in. intros s Hs. apply siblings_incl in Hs.
        rewrite Hc2 by (apply not_eq_sym; auto).
        apply (Hinit s Hs). apply sub_edges_head.
      - intros h Hh q s Hs.
        assert (Hsg : In (rid s) (ids g)).
        { destruct g as [gi gcs]. simpl in Hh. simpl. right. apply in_flat_map. exists h. split; auto.
          eapply sub_edges_ids; eauto. }
        rewrite Hc2.
        + apply (Hinit g Hg). destruct g as [gi gcs]. simpl in *. right. apply in_flat_map. exists h. auto.
        + intros E. apply Hp. simpl. right. apply in_flat_map. exists g. split; auto. rewrite <- E. auto.
        + intros E. apply Hn. apply in_flat_map. exists g. split; auto. rewrite <- E. auto. }
    set (rs := map (update_node fixed n nnb cst c2) cs).
    assert (Hcb : map (fun cr => (rid (fst cr), n, r_block (snd cr))) (combine cs rs)
                  = map (fun c => (rid c, n, new_up c)) cs).
    { unfold rs. rewrite combine_map_r, map_map. apply map_ext_in. intros g Hg. cbn [fst snd].
      destruct (R g Hg) as [_ [B _]]. rewrite B. reflexivity. }
    rewrite Hcb. unfold cupdate.
    set (c3 := map (fun c => (rid c, n, new_up c)) cs ++ c2).
    assert (ND : NoDup (map rid cs)) by (apply NoDup_map_rid; auto).
    assert (Hc3 : map (fun x => cget c3 x n) (map rid cs) = map new_up cs).
    { rewrite map_map. apply map_ext_in. intros g Hg. unfold c3. apply cget_childblocks; auto. }
    assert (Hc3p : cget c3 p n = blk).
    { unfold c3. rewrite cget_app_skip; auto. intros e He [E1 _]. apply in_map_iff in He.
      destruct He as [g [Eg Hg]]. subst e. simpl in E1. apply (Hpr g Hg). auto. }
    cbn [r_events r_block r_struct]. rewrite Hc3.
    split; [|split; [|split]].
    + rewrite !evolves_app, evolves_flat_map. cbn [spec_evolves]. rewrite N.
      change (evolves [Enter n; MoveCentre p n; RefreshBlock p n blk; DropBlock n p]) with (@nil (nat * ver * list stamp)).
      cbn [app]. unfold rs. rewrite flat_map_map.
      unfold galerkin_prefix. cbn [evolves flat_map evolve_of app].
      unfold nnb at 2. cbn [map]. rewrite Hc3p, Hc3. unfold cst at 2. rewrite vget_vmove_centre.
      f_equal.
      apply flat_map_ext_In. intros g Hg. apply (R g Hg).
    + reflexivity.
    + f_equal. f_equal. unfold rs. rewrite flat_map_map. cbn [embed]. f_equal.
      rewrite <- (flat_map_singleton embed cs). apply flat_map_ext_In. intros g Hg.
      destruct (R g Hg) as [_ [_ [S _]]]. rewrite S. reflexivity.
    + rewrite !contracts_app, contracts_flat_map. cbn [spec_contracts]. rewrite N.
      change (contracts [Enter n; MoveCentre p n; RefreshBlock p n blk; DropBlock n p]) with (@nil (nat * list ident)).
      cbn [app]. unfold galerkin_prefix. cbn [contracts flat_map contract_children_of app].
      f_equal.
      * unfold rs. rewrite flat_map_map. apply flat_map_ext_In. intros g Hg. apply (R g Hg).
      * f_equal. f_equal. unfold rs. rewrite map_map. apply map_ext_in. intros g Hg.
        destruct (R g Hg) as [_ [_ [S _]]]. rewrite S. reflexivity.
Qed.

Theorem root_update_spec : forall fixed t, NoDup (ids t) ->
  evolves (bug_trace fixed t) = spec_root t /\
  bug_struct fixed t = embed t /\
  contracts (bug_trace fixed t) = spec_contracts_root t.
Proof.
  intros fixed [r cs] W. unfold bug_trace, bug_struct. rewrite root_update_eq. cbv zeta. cbn [fst snd].
  set (st := root_state r). set (c0 := init_cache st (RNode r cs)). set (nnb := map rid cs).
  pose proof (init_cache_inner r cs W) as Hinit. fold st in Hinit. fold c0 in Hinit.
  destruct (wf_inv _ _ W) as [Hn [Hnd Hw]].
  assert (R : forall g, In g cs ->
    let x := update_node fixed r nnb st c0 g in
    evolves (r_events x) = spec_evolves (St r (OldDown (rid g)) (map old_up (siblings g cs))) g /\
    r_block x = new_up g /\ r_struct x = NNode (BC (rid g)) [embed g] /\
    contracts (r_events x) = spec_contracts g).
  { intros g Hg. apply update_node_spec.
    - eapply wf_child; eauto.
    - eapply wf_root_notin_child; eauto.
    - unfold nnb. rewrite others_map_rid, map_map. apply map_ext_in. intros s Hs. apply siblings_incl in Hs.
      apply (Hinit s Hs). apply sub_edges_head.
    - intros h Hh q s Hs. apply (Hinit g Hg). destruct g as [gi gcs]. simpl in *. right.
      apply in_flat_map. exists h. auto. }
  set (rs := map (update_node fixed r nnb st c0) cs).
  assert (Hcb : map (fun cr => (rid (fst cr), r, r_block (snd cr))) (combine cs rs)
                = map (fun c => (rid c, r, new_up c)) cs).
  { unfold rs. rewrite combine_map_r, map_map. apply map_ext_in. intros g Hg. cbn [fst snd].
    destruct (R g Hg) as [_ [B _]]. rewrite B. reflexivity. }
  rewrite Hcb. unfold cupdate.
  assert (ND : NoDup (map rid cs)) by (apply NoDup_map_rid; auto).
  assert (Hc3 : map (fun x => cget (map (fun c => (rid c, r, new_up c)) cs ++ c0) x r) nnb = map new_up cs).
  { unfold nnb. rewrite map_map. apply map_ext_in. intros g Hg. apply cget_childblocks; auto. }
  split; [|split].
  - assert (E : evolves (if fixed then [] else [Truncate; Recanonicalise r]) = []) by (destruct fixed; reflexivity).
    rewrite !evolves_app, evolves_flat_map, evolves_init, E.
    change (evolves [ReplaceRoot r]) with (@nil (nat * ver * list stamp)). cbn [spec_root app].
    unfold galerkin_prefix. cbn [evolves flat_map evolve_of app]. rewrite Hc3.
    unfold rs. rewrite flat_map_map.
    change (vget st r) with (if Nat.eqb r r then OldCentre else OldUp). rewrite Nat.eqb_refl.
    f_equal. apply flat_map_ext_In. intros g Hg. apply (R g Hg).
  - cbn [embed]. f_equal. unfold rs. rewrite flat_map_map.
    rewrite <- (flat_map_singleton embed cs). apply flat_map_ext_In. intros g Hg.
    destruct (R g Hg) as [_ [_ [S _]]]. rewrite S. reflexivity.
  - rewrite !contracts_app, contracts_flat_map, contracts_init. cbn [spec_contracts_root app].
    unfold galerkin_prefix. cbn [contracts flat_map contract_children_of app].
    assert (E : contracts (if fixed then [] else [Truncate; Recanonicalise r]) = []) by (destruct fixed; reflexivity).
    rewrite E. change (contracts [ReplaceRoot r]) with (@nil (nat * list ident)). cbn [app]. f_equal.
    + unfold rs. rewrite flat_map_map. apply flat_map_ext_In. intros g Hg. apply (R g Hg).
    + f_equal. f_equal. unfold rs. rewrite map_map. apply map_ext_in. intros g Hg.
      destruct (R g Hg) as [_ [_ [S _]]]. rewrite S. reflexivity.
Qed.

(* ---- reading the closed forms ------------------------------------------------------------- *)
Lemma stamp_old_old_up : forall t, stamp_old (old_up t) = true.
Proof.
  induction t as [n cs IH] using rtree_ind2. simpl. rewrite forallb_forall. intros s Hs.
  apply in_map_iff in Hs. destruct Hs as [c [E Hc]]. subst. rewrite Forall_forall in IH. auto.
Qed.

Lemma stamp_new_new_up : forall t, stamp_new (new_up t) = true.
Proof.
  induction t as [n cs IH] using rtree_ind2. simpl. rewrite forallb_forall. intros s Hs.
  apply in_map_iff in Hs. destruct Hs as [c [E Hc]]. subst. rewrite Forall_forall in IH. auto.
Qed.

Lemma stamp_nodes_new_up : forall t, stamp_nodes (new_up t) = ids t.
Proof.
  induction t as [n cs IH] using rtree_ind2. simpl. f_equal. rewrite flat_map_map.
  apply flat_map_ext_In. intros c Hc. rewrite Forall_forall in IH. auto.
Qed.

Lemma forallb_map_true {A B} (f : B -> bool) (g : A -> B) l :
  (forall a, In a l -> f (g a) = true) -> forallb f (map g l) = true.
Proof. intros H. rewrite forallb_forall. intros x Hx. apply in_map_iff in Hx. destruct Hx as [a [E Ha]]. subst. auto. Qed.

(* every evolution inside the subtree t that is reached through the old block pblk *)
Lemma spec_evolves_shape : forall t p subs,
  forallb stamp_old subs = true ->
  forall n v env, In (n, v, env) (spec_evolves (St p (OldDown (rid t)) subs) t) ->
  exists q psubs rest,
    env = St q (OldDown n) psubs :: rest /\ forallb stamp_old psubs = true /\
    forallb stamp_new rest = true /\
    ((n = rid t /\ q = p) \/ In (q, n) (edges t)) /\
    (exists s, is_subtree s t /\ rid s = n /\ rest = map new_up (rchildren s) /\
               v = if is_nil (rchildren s) then OldCentre else WithM OldCentre (map rid (rchildren s))).
Proof.
  induction t as [i cs IH] using rtree_ind2. intros p subs Hsubs n v env H. rewrite Forall_forall in IH.
  cbn [spec_evolves rid] in H. apply in_app_or in H. destruct H as [H|H].
  - apply in_flat_map in H. destruct H as [c [Hc H]].
    apply (IH c Hc i) in H.
    + destruct H as [q [psubs [rest [E [O [Nw [Hq Hs]]]]]]]. exists q, psubs, rest. repeat split; auto.
      * right. destruct Hq as [[E1 E2]|Hq].
        -- subst. apply edges_root. auto.
        -- eapply edges_child; eauto.
      * destruct Hs as [s [S1 S2]]. exists s. split; auto. eapply sub_child; eauto.
    + cbn [forallb]. simpl. rewrite Hsubs. simpl. apply forallb_map_true. intros. apply stamp_old_old_up.
  - destruct H as [H|[]]. inversion H; subst. exists p, subs, (map new_up cs). repeat split; auto.
    + apply forallb_map_true. intros. apply stamp_new_new_up.
    + exists (RNode n cs). repeat split; auto. constructor.
Qed.

Theorem bug_env_provenance : forall fixed t, NoDup (ids t) ->
  forall n v env, In (Evolve n v env) (bug_trace fixed t) ->
  exists s, is_subtree s t /\ rid s = n /\
    (* the evolved tensor: the old centre tensor re-centred at n, children's basis changes contracted in *)
    v = (if is_nil (rchildren s) && negb (Nat.eqb n (rid t)) then OldCentre else WithM OldCentre (map rid (rchildren s))) /\
    ((n = rid t /\ env = map new_up (rchildren s)) \/
     (exists q psubs,
        In (q, n) (edges t) /\
        (* parent side: one block, ending in the parent q whose tensor points down to n, old tensors only *)
        env = St q (OldDown n) psubs :: map new_up (rchildren s) /\ forallb stamp_old psubs = true)).
Proof.
  intros fixed t W n v env H.
  assert (In (n, v, env) (evolves (bug_trace fixed t))).
  { unfold evolves. apply in_flat_map. exists (Evolve n v env). split; auto. simpl. auto. }
  destruct (root_update_spec fixed t W) as [E _]. rewrite E in H0. clear E H.
  destruct t as [r cs]. cbn [spec_root] in H0. apply in_app_or in H0. destruct H0 as [H|H].
  - apply in_flat_map in H. destruct H as [c [Hc H]].
    apply spec_evolves_shape in H.
    + destruct H as [q [psubs [rest [E [O [Nw [Hq [s [S1 [S2 [S3 S4]]]]]]]]]]].
      exists s. split; [eapply sub_child; eauto|]. split; auto.
      assert (Hnr : n <> r).
      { intros X. subst n. destruct (wf_inv _ _ W) as [Hn _]. apply Hn. apply in_flat_map. exists c. split; auto.
        rewrite <- X. eapply is_subtree_ids; eauto. apply rid_in_ids. }
      split.
      * cbn [rid]. apply Nat.eqb_neq in Hnr. rewrite Hnr. simpl. rewrite andb_true_r. exact S4.
      * right. exists q, psubs. subst rest. repeat split; auto.
        destruct Hq as [[E1 E2]|Hq].
        -- subst. apply edges_root. auto.
        -- eapply edges_child; eauto.
    + apply forallb_map_true. intros. apply stamp_old_old_up.
  - destruct H as [H|[]]. inversion H; subst. exists (RNode n cs). repeat split; auto.
    + constructor.
    + cbn [rid rchildren]. rewrite Nat.eqb_refl. simpl. rewrite andb_false_r. reflexivity.
Qed.

(* no read of an absent dictionary entry at any evolution (a KeyError in the code) *)
Fixpoint stamp_complete (s : stamp) : bool :=
  match s with St _ _ subs => forallb stamp_complete subs | Missing _ _ => false end.

Lemma stamp_old_complete : forall s, stamp_old s = true -> stamp_complete s = true.
Proof.
  fix IH 1. intros [n v subs|a b]; simpl; intros H; [|discriminate].
  apply andb_true_iff in H. destruct H as [_ H].
  induction subs as [|x subs IHs]; simpl in *; auto.
  apply andb_true_iff in H. destruct H. rewrite IH, IHs; auto.
Qed.

Lemma stamp_new_complete : forall s, stamp_new s = true -> stamp_complete s = true.
Proof.
  fix IH 1. intros [n v subs|a b]; simpl; intros H; [|discriminate].
  destruct v; try discriminate.
  induction subs as [|x subs IHs]; simpl in *; auto.
  apply andb_true_iff in H. destruct H. rewrite IH, IHs; auto.
Qed.

Theorem bug_no_missing : forall fixed t, NoDup (ids t) ->
  forall n v env, In (Evolve n v env) (bug_trace fixed t) -> forallb stamp_complete env = true.
Proof.
  intros fixed t W n v env H. destruct (bug_env_provenance fixed t W n v env H) as [s [_ [_ [_ [[_ E]|[q [psubs [_ [E O]]]]]]]]]; subst env.
  - apply forallb_map_true. intros. apply stamp_new_complete, stamp_new_new_up.
  - cbn [forallb stamp_complete]. apply andb_true_iff. split.
    + rewrite forallb_forall in *. intros x Hx. apply stamp_old_complete. auto.
    + apply forallb_map_true. intros. apply stamp_new_complete, stamp_new_new_up.
Qed.

(* ---- temporaries ---------------------------------------------------------------------------- *)
Lemma nidents_embed : forall t, nidents (embed t) = map Orig (ids t).
Proof.
  induction t as [i cs IH] using rtree_ind2. simpl. f_equal. rewrite flat_map_map, map_flat_map.
  apply flat_map_ext_In. intros c Hc. rewrite Forall_forall in IH. auto.
Qed.

Theorem bug_temporaries_gone : forall fixed t, NoDup (ids t) ->
  bug_struct fixed t = embed t /\
  nidents (bug_struct fixed t) = map Orig (ids t) /\
  contracts (bug_trace fixed t) = spec_contracts_root t.
Proof.
  intros fixed t W. destruct (root_update_spec fixed t W) as [_ [S C]]. rewrite S. repeat split; auto.
  apply nidents_embed.
Qed.

(* ======================================================================================== *)
(* 6. shape (rank) arithmetic                                                                 *)
(* ======================================================================================== *)
Lemma map_opt_Some {A B} (f : A -> option B) : forall l l',
  map_opt f l = Some l' -> length l = length l' /\ forall a b, In (a, b) (combine l l') -> f a = Some b.
Proof.
  induction l as [|x l IH]; intros l' H; simpl in H.
  - inversion H; subst. split; auto. simpl. tauto.
  - destruct (f x) eqn:F; [|discriminate]. destruct (map_opt f l) eqn:M; [|discriminate].
    inversion H; subst. destruct (IH _ eq_refl) as [L C]. split; [simpl; congruence|].
    intros a b' [E|Hab]; [inversion E; subst; auto | auto].
Qed.

Lemma map_opt_id {A} (f : A -> option A) : forall l, (forall a, In a l -> f a = Some a) -> map_opt f l = Some l.
Proof.
  induction l as [|x l IH]; intros H; simpl; auto.
  rewrite (H x) by (simpl; auto). rewrite IH; auto. intros. apply H. simpl. auto.
Qed.

Lemma map_opt_total {A B} (f : A -> option B) : forall l,
  (forall a, In a l -> exists b, f a = Some b) -> exists l', map_opt f l = Some l'.
Proof.
  induction l as [|x l IH]; intros H; simpl; eauto.
  destruct (H x) as [b Hb]; [simpl; auto|]. rewrite Hb.
  destruct IH as [l' Hl']; [intros; apply H; simpl; auto|]. rewrite Hl'. eauto.
Qed.

Lemma map_opt_None_ex {A B} (f : A -> option B) : forall l,
  map_opt f l = None -> exists a, In a l /\ f a = None.
Proof.
  induction l as [|x l IH]; simpl; intros H; [discriminate|].
  destruct (f x) eqn:F; [|exists x; auto].
  destruct (map_opt f l) eqn:M; [discriminate|].
  destruct IH as [a [Ha Fa]]; auto. exists a. auto.
Qed.

(* nested induction principle for dtree *)
Section DtreeInd.
  Variable P : dtree -> Prop.
  Hypothesis Hnode : forall i r d cs, Forall P cs -> P (DNode i r d cs).
  Fixpoint dtree_ind2 (t : dtree) : P t :=
    match t with
    | DNode i r d cs =>
        Hnode i r d cs ((fix go (l : list dtree) : Forall P l :=
                           match l with
                           | [] => Forall_nil P
                           | c :: l' => Forall_cons c (dtree_ind2 c) (go l')
                           end) cs)
    end.
End DtreeInd.

Lemma shape_update_eq rc fixed pothers n r d cs :
  shape_update rc fixed pothers (DNode n r d cs) =
  let r' := qr_new_leg rc pothers r in
  if is_nil cs then Some (DNode n (if fixed then r' else qr_new_leg false d (r + r')) d [])
  else match map_opt (fun c => shape_update rc fixed (r' * prod (map drank (dsiblings c cs)) * d) c) cs with
       | None => None
       | Some cs' => if Nat.eqb r' r
                     then Some (DNode n (if fixed then r else qr_new_leg false (prod (map drank cs') * d) (r + r)) d cs')
                     else None
       end.
Proof. reflexivity. Qed.

(* fixed rank keeps every shape *)
Theorem shape_fixed_keeps : forall t pothers, shape_update true true pothers t = Some t.
Proof.
  induction t as [n r d cs IH] using dtree_ind2. intros pothers. rewrite Forall_forall in IH.
  rewrite shape_update_eq. cbv zeta. cbn [qr_new_leg]. destruct (is_nil cs) eqn:N.
  - destruct cs; [reflexivity|discriminate].
  - rewrite map_opt_id by (intros; apply IH; auto). rewrite Nat.eqb_refl. reflexivity.
Qed.

Theorem shape_root_fixed_keeps : forall t, shape_root true t = Some t.
Proof.
  intros [n r d cs]. unfold shape_root. simpl. rewrite map_opt_id; auto. intros. apply shape_fixed_keeps.
Qed.

Lemma forall2b_combine {A B} (f : A -> B -> bool) : forall l l',
  length l = length l' -> (forall a b, In (a, b) (combine l l') -> f a b = true) -> forall2b f l l' = true.
Proof.
  induction l as [|x l IH]; intros [|y l'] L H; simpl in *; try discriminate; auto.
  rewrite H by auto. simpl. apply IH; auto.
Qed.

Lemma qr_new_leg_le rc a b : qr_new_leg rc a b <= b.
Proof. destruct rc; simpl; lia. Qed.

(* rank-adaptive: every bond at most doubled, nothing else changes (whatever the re-centring mode) *)
Theorem shape_adaptive_le2 : forall t rc pothers t',
  shape_update rc false pothers t = Some t' -> grows_le2 t t' = true.
Proof.
  induction t as [n r d cs IH] using dtree_ind2. intros rc pothers t' H. rewrite Forall_forall in IH.
  rewrite shape_update_eq in H. cbv zeta in H. destruct (is_nil cs) eqn:N.
  - destruct cs; [|discriminate]. inversion H; subst. simpl. rewrite !Nat.eqb_refl. simpl.
    rewrite andb_true_r. apply Nat.leb_le. pose proof (qr_new_leg_le rc pothers r). lia.
  - destruct (map_opt _ cs) as [cs'|] eqn:M; [|discriminate].
    destruct (Nat.eqb (qr_new_leg rc pothers r) r) eqn:E; [|discriminate]. inversion H; subst.
    cbn [grows_le2]. rewrite !Nat.eqb_refl. simpl.
    apply map_opt_Some in M. destruct M as [L C].
    apply andb_true_iff. split; [apply Nat.leb_le; lia|].
    apply forall2b_combine; auto. intros a b Hab. eapply IH; eauto.
    eapply in_combine_l; eauto.
Qed.

Theorem shape_root_adaptive_le2 : forall rc t t', shape_root_gen rc false t = Some t' ->
  did t' = did t /\ dopen t' = dopen t /\ drank t' = drank t /\ forall2b grows_le2 (dchildren t) (dchildren t') = true.
Proof.
  intros rc [n r d cs] t' H. simpl in H. destruct (map_opt _ cs) as [cs'|] eqn:M; [|discriminate].
  inversion H; subst. simpl. repeat split; auto.
  apply map_opt_Some in M. destruct M as [L C]. apply forall2b_combine; auto.
  intros a b Hab. eapply shape_adaptive_le2; eauto.
Qed.

(* with the bond-keeping re-centring the step never raises *)
Theorem shape_keep_defined : forall t fixed pothers, exists t', shape_update true fixed pothers t = Some t'.
Proof.
  induction t as [n r d cs IH] using dtree_ind2. intros fixed pothers. rewrite Forall_forall in IH.
  rewrite shape_update_eq. cbv zeta. cbn [qr_new_leg]. destruct (is_nil cs) eqn:N; eauto.
  destruct (map_opt_total (fun c => shape_update true fixed (r * prod (map drank (dsiblings c cs)) * d) c) cs) as [cs' M].
  { intros a Ha. apply IH; auto. }
  rewrite M, Nat.eqb_refl. eauto.
Qed.

Theorem shape_root_defined : forall fixed t, exists t', shape_root fixed t = Some t'.
Proof.
  intros fixed [n r d cs]. unfold shape_root. cbn [shape_root_gen].
  destruct (map_opt_total (fun c => shape_update true fixed (prod (map drank (dsiblings c cs)) * d) c) cs) as [cs' M].
  { intros a Ha. apply shape_keep_defined. }
  rewrite M. eauto.
Qed.

(* a rank-adaptive step with a REDUCED re-centring raises exactly when the guard fails *)
Theorem shape_adaptive_defined : forall t pothers,
  parent_side_ok pothers t = true <-> exists t', shape_update false false pothers t = Some t'.
Proof.
  induction t as [n r d cs IH] using dtree_ind2. intros pothers. rewrite Forall_forall in IH.
  rewrite shape_update_eq. cbv zeta. cbn [qr_new_leg parent_side_ok]. destruct (is_nil cs) eqn:N.
  - split; eauto.
  - split.
    + intros H. apply andb_true_iff in H. destruct H as [H1 H2]. apply Nat.leb_le in H1.
      rewrite forallb_forall in H2.
      destruct (map_opt_total (fun c => shape_update false false (Nat.min pothers r * prod (map drank (dsiblings c cs)) * d) c) cs) as [cs' M].
      { intros a Ha. apply IH; auto. }
      rewrite M. replace (Nat.min pothers r) with r by lia. rewrite Nat.eqb_refl. eauto.
    + intros [t' H]. destruct (map_opt _ cs) as [cs'|] eqn:M; [|discriminate].
      destruct (Nat.eqb (Nat.min pothers r) r) eqn:E; [|discriminate]. apply Nat.eqb_eq in E.
      apply andb_true_iff. split; [apply Nat.leb_le; lia|].
      rewrite forallb_forall. intros c Hc. apply IH; auto.
      apply map_opt_Some in M. destruct M as [L C].
      destruct (In_nth cs c c Hc) as [k [Hk Ek]].
      exists (nth k cs' c). apply C. rewrite <- Ek at 1. rewrite <- combine_nth by auto.
      apply nth_In. rewrite combine_length. lia.
Qed.

Theorem shape_root_adaptive_defined : forall t,
  parent_side_ok_root t = true <-> exists t', shape_root_gen false false t = Some t'.
Proof.
  intros [n r d cs]. cbn [parent_side_ok_root shape_root_gen]. split.
  - intros H. rewrite forallb_forall in H.
    destruct (map_opt_total (fun c => shape_update false false (prod (map drank (dsiblings c cs)) * d) c) cs) as [cs' M].
    { intros a Ha. apply shape_adaptive_defined; auto. }
    rewrite M. eauto.
  - intros [t' H]. destruct (map_opt _ cs) as [cs'|] eqn:M; [|discriminate].
    rewrite forallb_forall. intros c Hc. apply shape_adaptive_defined.
    apply map_opt_Some in M. destruct M as [L C].
    destruct (In_nth cs c c Hc) as [k [Hk Ek]].
    exists (nth k cs' c). apply C. rewrite <- Ek at 1. rewrite <- combine_nth by auto.
    apply nth_In. rewrite combine_length. lia.
Qed.

(* QR leg tuples of the new basis: a partition of the legs, parent leg alone on the R side *)
Theorem new_basis_qr_legs_partition : forall nc no,
  Permutation (fst (new_basis_qr_legs nc no) ++ snd (new_basis_qr_legs nc no)) (seq 0 (1 + nc + no)).
Proof.
  intros nc no. unfold new_basis_qr_legs, children_legs, open_legs. cbn [fst snd].
  rewrite <- seq_app. apply Permutation_sym. replace (1 + nc + no) with (S (nc + no)) by lia.
  cbn [seq]. apply Permutation_cons_append.
Qed.

(* concatenation along the parent leg adds the parent dimensions and keeps every other leg *)
Theorem concat_parent_leg_shape : forall a b rest,
  concat_along_parent_leg (a :: rest) (b :: rest) = Some ((a + b) :: rest).
Proof.
  intros. unfold concat_along_parent_leg. simpl. destruct (list_eq_dec Nat.eq_dec rest rest); congruence.
Qed.

Theorem concat_parent_leg_defined : forall s1 s2 s,
  concat_along_parent_leg s1 s2 = Some s ->
  exists a b rest, s1 = a :: rest /\ s2 = b :: rest /\ s = (a + b) :: rest.
Proof.
  intros [|a r1] [|b r2] s H; unfold concat_along_parent_leg in H; simpl in H; try discriminate.
  destruct (list_eq_dec Nat.eq_dec r1 r2); [|discriminate]. inversion H; subst. exists a, b, r2. auto.
Qed.

(* new leg of the QR decompositions used for the new basis *)
Theorem qr_new_leg_bounds : forall keep rows cols,
  qr_new_leg keep rows cols <= cols /\ (keep = true -> qr_new_leg keep rows cols = cols) /\
  (keep = false -> qr_new_leg keep rows cols <= rows).
Proof. intros [|] rows cols; simpl; repeat split; intros; try discriminate; lia. Qed.

(* ======================================================================================== *)
(* 7. Layer A: the fixed-rank Galerkin step does not increase the norm                        *)
(* ======================================================================================== *)
Section GalerkinNorm.
  (* vectors with a norm taking values in an ordered set; no analysis needed *)
  Variables (V N : Type) (norm : V -> N) (le : N -> N -> Prop).
  Hypothesis le_refl : forall a, le a a.
  Hypothesis le_trans : forall a b c, le a b -> le b c -> le a c.

  Definition contraction (f : V -> V) : Prop := forall v, le (norm (f v)) (norm v).
  Definition isometric (f : V -> V) : Prop := forall v, norm (f v) = norm v.

  (* M = U_old^H . U_new acting on one leg: an isometry followed by the adjoint of an isometry *)
  Lemma overlap_contraction (Unew UoldH : V -> V) :
    isometric Unew -> contraction UoldH -> contraction (fun v => UoldH (Unew v)).
  Proof. intros I C v. eapply le_trans; [apply C|]. rewrite I. apply le_refl. Qed.

  (* contracting the basis changes of any number of children into the centre tensor *)
  Lemma contractions_compose (ms : list (V -> V)) :
    Forall contraction ms -> contraction (fun v => fold_left (fun acc m => m acc) ms v).
  Proof.
    intros H. induction H as [|m ms Hm Hms IH]; intros v; simpl; [apply le_refl|].
    eapply le_trans; [apply IH | apply Hm].
  Qed.

  (* Galerkin step: initial value = old centre tensor with all children's M contracted in,
     then a unitary (exp(-i dt H_eff), H_eff Hermitian) *)
  Theorem fixed_rank_norm_le (ms : list (V -> V)) (U : V -> V) :
    Forall contraction ms -> isometric U ->
    forall c0, le (norm (U (fold_left (fun acc m => m acc) ms c0))) (norm c0).
  Proof.
    intros Hms HU c0. rewrite HU. apply (contractions_compose ms Hms).
  Qed.
End GalerkinNorm.

(* statements in the form used by Props/C09.v *)
Theorem bug_env_exact : forall (fixed : bool) (t : rtree), NoDup (ids t) ->
  evolves (bug_trace fixed t) = spec_root t.
Proof. intros fixed t W. exact (proj1 (root_update_spec fixed t W)). Qed.

Theorem new_block_all_new : forall t : rtree, stamp_new (new_up t) = true /\ stamp_nodes (new_up t) = ids t.
Proof. intros t. split; [apply stamp_new_new_up | apply stamp_nodes_new_up]. Qed.

Theorem qr_legs_partition : forall nc no : nat,
  Permutation (fst (new_basis_qr_legs nc no) ++ snd (new_basis_qr_legs nc no)) (seq 0 (1 + nc + no)) /\
  snd (new_basis_qr_legs nc no) = [0].
Proof. intros. split; [apply new_basis_qr_legs_partition | reflexivity]. Qed.

Theorem concat_parent_leg_iff : forall s1 s2 s : list nat,
  concat_along_parent_leg s1 s2 = Some s <->
  exists a b rest, s1 = a :: rest /\ s2 = b :: rest /\ s = (a + b) :: rest.
Proof.
  intros. split; [apply concat_parent_leg_defined|].
  intros [a [b [rest [E1 [E2 E3]]]]]. subst. apply concat_parent_leg_shape.
Qed.

(* ======================================================================================== *)
(* 8. after the truncation: the selection rule of C10 (Trunc/Select.v)                        *)
(* ======================================================================================== *)
From PTN Require Import Trunc.Select Trunc.SelectProofs.
Local Close Scope Q_scope.

(* the new dimension of a truncated bond is the number of selected singular values *)
Theorem trunc_bond_le : forall (p : params) (s : list QArith_base.Q) (m : nat),
  s <> [] -> max_bond p = BFin m -> 1 <= m ->
  1 <= length (fst (select p s)) <= m.
Proof.
  intros p s m Hs Hm H1. rewrite select_length by (auto; rewrite Hm; exact H1).
  rewrite Hm. unfold bmin. lia.
Qed.
