(* [ext-C06R] Lifts from one local update to a whole time step, over the literal traces of Sched/TDVP.v, for every
   tree, under named contracts on the local maps (Section variables + hypotheses).
     Part 1: reversibility of the second-order steps (palindrome + "the update with -f undoes the update with f").
     Part 2: a quantity conserved by every event is conserved by a step and by any number of steps; instantiation
             with the Layer-A lemma local_update_conserves (norm and energy).
     Part 3: two nodes, every update the exact flow (saturated bond / two-site tensor = whole state): one step is
             the flow over the full time step. *)
From Coq Require Import List Arith Bool ZArith Lia.
From PTN Require Import Tree.RTree Tree.Nav Tree.UpdatePath Tree.CachePath
     Sched.TDVP Sched.TDVPProofs Sched.TDVPMore Sched.TDVPFreshU Sched.TDVPGlobal.
Import ListNotations.

(* ================================================================================================ *)
(* generic facts about running traces                                                               *)
(* ================================================================================================ *)
Section Generic.
  Variable X : Type.
  Variable act : obj * Z -> X -> X.
  Variable actE : ev -> X -> X.

  Lemma run_objs_app : forall a b x, run_objs X act (a ++ b) x = run_objs X act b (run_objs X act a x).
  Proof. intros. unfold run_objs. apply fold_left_app. Qed.

  Lemma run_trace_app : forall a b x, run_trace X actE (a ++ b) x = run_trace X actE b (run_trace X actE a x).
  Proof. intros. unfold run_trace. apply fold_left_app. Qed.

  (* under the factorisation contract the literal trace acts through its (object, signed factor) sequence *)
  Lemma run_trace_objs : factors_through act actE ->
    forall tr x, run_trace X actE tr x = run_objs X act (objs tr) x.
  Proof.
    intros F tr. induction tr as [|e tr IH]; intros x; [reflexivity|].
    change (objs (e :: tr)) with (obj_of e ++ objs tr). rewrite run_objs_app. simpl. rewrite F. apply IH.
  Qed.
End Generic.

Lemma obj_of_neg : forall e, obj_of (neg_ev e) = map neg_obj (obj_of e).
Proof. intros []; simpl; unfold neg_obj; simpl; rewrite ?Z.opp_involutive; reflexivity. Qed.

Lemma objs_neg : forall tr, objs (neg_trace tr) = map neg_obj (objs tr).
Proof.
  induction tr as [|e tr IH]; [reflexivity|].
  change (objs (neg_trace (e :: tr))) with (obj_of (neg_ev e) ++ objs (neg_trace tr)).
  change (objs (e :: tr)) with (obj_of e ++ objs tr). rewrite map_app, obj_of_neg, IH. reflexivity.
Qed.

Lemma neg_ev_involutive : forall e, neg_ev (neg_ev e) = e.
Proof. intros []; simpl; rewrite ?Z.opp_involutive; reflexivity. Qed.

Lemma neg_trace_involutive : forall tr, neg_trace (neg_trace tr) = tr.
Proof. induction tr as [|e tr IH]; simpl; [reflexivity|]. rewrite neg_ev_involutive. f_equal. exact IH. Qed.

(* the schedule checker (centre tracking, assertions, freshness) does not look at the factors *)
Lemma exec_neg : forall t s e, exec t s (neg_ev e) = exec t s e.
Proof. intros t s []; reflexivity. Qed.

Lemma run_neg : forall t tr s, run t s (neg_trace tr) = run t s tr.
Proof.
  intros t tr. induction tr as [|e tr IH]; intros s; [reflexivity|]. simpl. rewrite exec_neg.
  destruct (exec t s e); [apply IH|reflexivity].
Qed.

Lemma total_dur_neg : forall tr, total_dur (neg_trace tr) = (- total_dur tr)%Z.
Proof.
  induction tr as [|e tr IH]; [reflexivity|]. unfold total_dur in *. simpl. rewrite IH.
  destruct e; simpl; lia.
Qed.

(* ================================================================================================ *)
(* Part 1: reversibility                                                                            *)
(* ================================================================================================ *)
Section Reversible.
  Variable X : Type.
  Variable act : obj * Z -> X -> X.
  Variable actE : ev -> X -> X.
  (* the states on which the local contract is claimed (for the real classes: every bond of the state at its full
     Schmidt rank, so that the tangent-space projectors are functions of the represented state; on rank-deficient
     bonds the QR completion is arbitrary and the contract FAILS: known finding C06-reversal-rank-deficient) *)
  Variable good : X -> Prop.
  Hypothesis gauge : factors_through act actE.
  Hypothesis act_good : forall o f x, good x -> good (act (o, f) x).
  Hypothesis act_inverse : forall o f x, good x -> act (o, (- f)%Z) (act (o, f) x) = x.

  Lemma run_objs_good : forall l x, good x -> good (run_objs X act l x).
  Proof.
    induction l as [|[o f] l IH]; intros x G; [exact G|]. simpl. apply IH. apply act_good. exact G.
  Qed.

  (* the list lemma: the negated, reversed sequence undoes the sequence *)
  Lemma run_neg_rev : forall l x, good x -> run_objs X act (map neg_obj (rev l)) (run_objs X act l x) = x.
  Proof.
    induction l as [|[o f] l IH]; intros x G; [reflexivity|].
    simpl rev. rewrite map_app, run_objs_app. simpl map.
    change (run_objs X act ((o, f) :: l) x) with (run_objs X act l (act (o, f) x)).
    rewrite IH by (apply act_good; exact G). unfold run_objs, neg_obj. simpl. apply act_inverse. exact G.
  Qed.

  (* any trace whose (object, signed factor) sequence is a palindrome: the trace with every duration negated undoes it *)
  Theorem palindrome_reversible : forall tr, objs tr = rev (objs tr) ->
    forall x, good x -> run_trace X actE (neg_trace tr) (run_trace X actE tr x) = x.
  Proof.
    intros tr P x G. rewrite !(run_trace_objs X act actE gauge). rewrite objs_neg.
    rewrite P at 1. apply run_neg_rev. exact G.
  Qed.

  Theorem trace2_reversible : forall t tr, NoDup (ids t) -> trace2 t = Some tr ->
    forall x, good x -> run_trace X actE (neg_trace tr) (run_trace X actE tr x) = x.
  Proof. intros t tr Hw H. apply palindrome_reversible. exact (trace2_palindrome t tr Hw H). Qed.

  Theorem trace2s_reversible : forall t tr, trace2s t = Some tr ->
    forall x, good x -> run_trace X actE (neg_trace tr) (run_trace X actE tr x) = x.
  Proof. intros t tr H. apply palindrome_reversible. exact (trace2s_palindrome t tr H). Qed.

  (* ... and the other way round (first -H, then H), and k steps forward followed by k steps back *)
  Theorem palindrome_reversible_steps : forall tr, objs tr = rev (objs tr) ->
    forall k x, good x -> run_steps X actE k (neg_trace tr) (run_steps X actE k tr x) = x.
  Proof.
    intros tr P k. induction k as [|k IH]; intros x G; [reflexivity|].
    (* k+1 forward = one forward then k forward; k+1 back = k back then one back *)
    assert (Hsnoc : forall tr' k' y, run_steps X actE (S k') tr' y = run_trace X actE tr' (run_steps X actE k' tr' y)).
    { intros tr' k'. induction k' as [|k' IHk]; intros y; [reflexivity|].
      change (run_steps X actE (S (S k')) tr' y) with (run_steps X actE (S k') tr' (run_trace X actE tr' y)).
      rewrite IHk. reflexivity. }
    rewrite (Hsnoc (neg_trace tr) k). simpl run_steps at 2.
    rewrite IH.
    - apply palindrome_reversible; assumption.
    - rewrite (run_trace_objs X act actE gauge). apply run_objs_good. exact G.
  Qed.
End Reversible.

(* the full statement with the schedule side: on every tree the second-order one-site step runs, ends with the centre
   on update_path[0] with no pending link tensor, the step with all durations negated RUNS FROM THAT END
   CONFIGURATION (all assertions, adjacency and freshness requirements of the checker) and ends on update_path[0]
   again, and on the abstract state it undoes the first step *)
Lemma sched_ok_neg : forall t tr, sched_ok t tr ->
  exists u l ini s0 s1 s2,
    update_path t = Some (u :: l) /\ init_trace t = Some ini /\
    run t (mk_cst u None [] []) ini = Some s0 /\
    run t s0 tr = Some s1 /\ centre s1 = u /\ pend s1 = None /\
    run t s1 (neg_trace tr) = Some s2 /\ centre s2 = u /\ pend s2 = None.
Proof.
  intros t tr [u [l [ini [s0 [s1 [s2 H]]]]]]. exists u, l, ini, s0, s1, s2. rewrite run_neg. exact H.
Qed.

Theorem trace2_reversible_full : forall (X : Type) (act : obj * Z -> X -> X) (actE : ev -> X -> X) (good : X -> Prop),
  factors_through act actE ->
  (forall o f x, good x -> good (act (o, f) x)) ->
  (forall o f x, good x -> act (o, (- f)%Z) (act (o, f) x) = x) ->
  forall t, NoDup (ids t) -> 2 <= size t ->
  exists tr, trace2 t = Some tr /\
    (exists u l ini s0 s1 s2,
       update_path t = Some (u :: l) /\ init_trace t = Some ini /\
       run t (mk_cst u None [] []) ini = Some s0 /\
       run t s0 tr = Some s1 /\ centre s1 = u /\ pend s1 = None /\
       run t s1 (neg_trace tr) = Some s2 /\ centre s2 = u /\ pend s2 = None) /\
    (forall x, good x -> run_trace X actE (neg_trace tr) (run_trace X actE tr x) = x) /\
    (forall k x, good x -> run_steps X actE k (neg_trace tr) (run_steps X actE k tr x) = x).
Proof.
  intros X act actE good G A I t Hw Hs. destruct (trace2_sched_ok t Hw Hs) as [tr [Htr Hok]].
  exists tr. split; [exact Htr|]. split; [exact (sched_ok_neg t tr Hok)|]. split.
  - exact (trace2_reversible X act actE good G A I t tr Hw Htr).
  - apply (palindrome_reversible_steps X act actE good G A I). exact (trace2_palindrome t tr Hw Htr).
Qed.

Theorem trace2s_reversible_full : forall (X : Type) (act : obj * Z -> X -> X) (actE : ev -> X -> X) (good : X -> Prop),
  factors_through act actE ->
  (forall o f x, good x -> good (act (o, f) x)) ->
  (forall o f x, good x -> act (o, (- f)%Z) (act (o, f) x) = x) ->
  forall t, NoDup (ids t) -> 2 <= size t ->
  exists tr, trace2s t = Some tr /\
    (exists u l ini s0 s1 s2,
       update_path t = Some (u :: l) /\ init_trace t = Some ini /\
       run t (mk_cst u None [] []) ini = Some s0 /\
       run t s0 tr = Some s1 /\ centre s1 = u /\ pend s1 = None /\
       run t s1 (neg_trace tr) = Some s2 /\ centre s2 = u /\ pend s2 = None) /\
    (forall x, good x -> run_trace X actE (neg_trace tr) (run_trace X actE tr x) = x) /\
    (forall k x, good x -> run_steps X actE k (neg_trace tr) (run_steps X actE k tr x) = x).
Proof.
  intros X act actE good G A I t Hw Hs. destruct (trace2s_sched_ok t Hw Hs) as [tr [Htr Hok]].
  exists tr. split; [exact Htr|]. split; [exact (sched_ok_neg t tr Hok)|]. split.
  - exact (trace2s_reversible X act actE good G A I t tr Htr).
  - apply (palindrome_reversible_steps X act actE good G A I). exact (trace2s_palindrome t tr Htr).
Qed.

(* the shear model satisfies the contracts (good = all states) *)
Lemma shear_factors : factors_through shear_act shear_actE.
Proof. intros e x. reflexivity. Qed.

Lemma shear_inverse : forall o f x, shear_act (o, (- f)%Z) (shear_act (o, f) x) = x.
Proof.
  intros [[|n]|a b] f [p q]; unfold shear_act; simpl; f_equal; lia.
Qed.

(* ================================================================================================ *)
(* Part 2: conservation over a step and over any number of steps                                    *)
(* ================================================================================================ *)
Section Conserves.
  Variable X : Type.
  Variable actE : ev -> X -> X.
  Variable Q : Type.
  Variable q : X -> Q.

  (* only the events that occur in the trace have to conserve q *)
  Lemma run_trace_conserves : forall tr, (forall e x, In e tr -> q (actE e x) = q x) ->
    forall x, q (run_trace X actE tr x) = q x.
  Proof.
    induction tr as [|e tr IH]; intros C x; [reflexivity|]. simpl.
    rewrite IH by (intros e' x' Hin; apply C; right; exact Hin). apply C. left. reflexivity.
  Qed.

  Lemma run_steps_conserves : forall tr, (forall e x, In e tr -> q (actE e x) = q x) ->
    forall k x, q (run_steps X actE k tr x) = q x.
  Proof.
    intros tr C k. induction k as [|k IH]; intros x; [reflexivity|]. simpl. rewrite IH. apply run_trace_conserves. exact C.
  Qed.

  (* the three classes (first order: with any tree tr' for the reset; every tree on which the trace is defined) *)
  Theorem steps_conserve : forall t t' tr,
    trace1_gen t t' = Some tr \/ trace2 t = Some tr \/ trace2s t = Some tr ->
    (forall e x, In e tr -> q (actE e x) = q x) ->
    forall k x, q (run_steps X actE k tr x) = q x.
  Proof. intros t t' tr _ C. apply run_steps_conserves. exact C. Qed.
End Conserves.

(* ---- instantiation with Layer A: norm and energy ---------------------------------------------------------- *)
(* States are columns of the full space (M D 1).  Contract `local_form` on an event e: whatever the state x, there is
   an isometric embedding E of a local space (the environment of the updated object: E^+E = 1, C03) and a local
   tensor A with x = E A, and the event replaces A by U A with U unitary and commuting with the projected
   Hamiltonian K = E^+ H E (U = exp(-+iKt) for a site / link / two-site update with a Hermitian H; U = 1 for the
   gauge events, which do not change the represented state).  Then local_update_conserves gives conservation of
   <x|x> and <x|H|x> by the event, and run_steps_conserves by any number of whole steps. *)
Section NormEnergy.
  Variable M : nat -> nat -> Type.
  Variable mul : forall a b c : nat, M a b -> M b c -> M a c.
  Variable adj : forall a b : nat, M a b -> M b a.
  Variable one : forall n : nat, M n n.
  Hypothesis mul_assoc : forall (a b c d : nat) (x : M a b) (y : M b c) (z : M c d),
    mul a b d x (mul b c d y z) = mul a c d (mul a b c x y) z.
  Hypothesis mul_1_l : forall (a b : nat) (x : M a b), mul a a b (one a) x = x.
  Hypothesis adj_mul : forall (a b c : nat) (x : M a b) (y : M b c), adj a c (mul a b c x y) = mul c b a (adj b c y) (adj a b x).

  Variable D : nat.
  Variable H : M D D.
  Variable actE : ev -> M D 1 -> M D 1.

  Definition norm2 (x : M D 1) : M 1 1 := mul 1 D 1 (adj D 1 x) x.
  Definition energy (x : M D 1) : M 1 1 := mul 1 D 1 (adj D 1 x) (mul D D 1 H x).

  Definition local_form (e : ev) : Prop :=
    forall x : M D 1, exists (N : nat) (E : M D N) (U : M N N) (A : M N 1),
      mul N D N (adj D N E) E = one N /\
      mul N N N (adj N N U) U = one N /\
      mul N N N U (mul N D N (adj D N E) (mul D D N H E)) = mul N N N (mul N D N (adj D N E) (mul D D N H E)) U /\
      x = mul D N 1 E A /\ actE e x = mul D N 1 E (mul N N 1 U A).

  Lemma local_form_conserves : forall e, local_form e ->
    forall x, (norm2 (actE e x), energy (actE e x)) = (norm2 x, energy x).
  Proof.
    intros e L x. destruct (L x) as [N [E [U [A [HE [HU [HC [Hx Hy]]]]]]]].
    destruct (local_update_conserves M mul adj one mul_assoc mul_1_l adj_mul D N E H HE U HU HC A) as [Hn He].
    unfold norm2, energy. rewrite Hy, Hx, Hn, He. reflexivity.
  Qed.

  Theorem steps_conserve_norm_energy : forall t t' tr,
    trace1_gen t t' = Some tr \/ trace2 t = Some tr \/ trace2s t = Some tr ->
    (forall e, In e tr -> local_form e) ->
    forall k x, norm2 (run_steps (M D 1) actE k tr x) = norm2 x /\ energy (run_steps (M D 1) actE k tr x) = energy x.
  Proof.
    intros t t' tr Ht L k x.
    assert (P : (norm2 (run_steps (M D 1) actE k tr x), energy (run_steps (M D 1) actE k tr x)) = (norm2 x, energy x)).
    { apply (steps_conserve (M D 1) actE _ (fun y => (norm2 y, energy y)) t t' tr Ht).
      intros e y Hin. apply local_form_conserves. apply L. exact Hin. }
    inversion P. split; reflexivity.
  Qed.
End NormEnergy.

(* the Gaussian-integer model satisfies the laws and the local-form contract (E = 1, N = 1) *)
Lemma gmul_assoc : forall (a b c d : nat) (x : gM a b) (y : gM b c) (z : gM c d),
  gmul a b d x (gmul b c d y z) = gmul a c d (gmul a b c x y) z.
Proof. intros a b c d [x1 x2] [y1 y2] [z1 z2]. unfold gmul. simpl. f_equal; ring. Qed.

Lemma gmul_1_l : forall (a b : nat) (x : gM a b), gmul a a b (gone a) x = x.
Proof. intros a b [x1 x2]. unfold gmul, gone. cbn [fst snd]. f_equal; ring. Qed.

Lemma gadj_mul : forall (a b c : nat) (x : gM a b) (y : gM b c), gadj a c (gmul a b c x y) = gmul c b a (gadj b c y) (gadj a b x).
Proof. intros a b c [x1 x2] [y1 y2]. unfold gmul, gadj. cbn [fst snd]. f_equal; ring. Qed.

Lemma g_local_form : forall (H : gM 1 1) e, local_form gM gmul gadj gone 1 H gactE e.
Proof.
  intros H e x. exists 1, (gone 1), (gU e), x. unfold gactE, gU.
  destruct H as [h1 h2], x as [x1 x2]. destruct (obj_of e); unfold gmul, gadj, gone; cbn [fst snd]; repeat split; f_equal; ring.
Qed.

(* ================================================================================================ *)
(* Part 3: two nodes, every update the exact flow                                                   *)
(* ================================================================================================ *)
(* the literal one-site traces on the two-node tree (root a, child b; the sweep starts at the leaf b) *)
Lemma trace2_two_nodes : forall a b, a <> b ->
  trace2 (RNode a [RNode b []]) =
  Some [AssertCentre b; Site b 1; AssertCentre b; Split b a; Cache b a; Link b a 1; Absorb b a;
        AssertCentre a; Site a 2; AssertCentre a; Split a b; Cache a b; Link a b 1; Absorb a b;
        AssertCentre b; Site b 1]%Z.
Proof.
  intros a b Hne. assert (Eab : Nat.eqb a b = false) by (apply Nat.eqb_neq; auto).
  assert (Eba : Nat.eqb b a = false) by (apply Nat.eqb_neq; auto).
  unfold trace2, update_path, main_path, start_node. cbn. rewrite ?Eab, ?Eba, ?Nat.eqb_refl. cbn.
  unfold path_to_root. cbn. rewrite ?Eab, ?Eba, ?Nat.eqb_refl. cbn. rewrite ?Eab, ?Eba, ?Nat.eqb_refl. cbn.
  unfold path_for_branch. cbn. rewrite ?Eab, ?Eba, ?Nat.eqb_refl. cbn. rewrite ?Eab, ?Eba, ?Nat.eqb_refl. cbn.
  unfold update_step. cbn. rewrite ?Eab, ?Eba, ?Nat.eqb_refl. cbn. unfold path_down_from_root. cbn.
  unfold orth_paths, back_orth_paths. cbn. unfold path_from_to. rewrite ?Eab, ?Eba, ?Nat.eqb_refl. unfold path_to_root. cbn.
  rewrite ?Eab, ?Eba, ?Nat.eqb_refl. cbn.
  unfold merge_root_paths, num_duplicates, count. cbn. rewrite ?Eab, ?Eba, ?Nat.eqb_refl. cbn.
  reflexivity.
Qed.

Lemma trace1_two_nodes : forall a b, a <> b ->
  trace1 (RNode a [RNode b []]) =
  Some [AssertCentre b; AssertLeaf b; Site b 2; AssertCentre b; Split b a; Cache b a; Link b a 2; Absorb b a;
        AssertCentre a; Site a 2; Move a b; Reinit; Cache a b]%Z.
Proof.
  intros a b Hne. assert (Eab : Nat.eqb a b = false) by (apply Nat.eqb_neq; auto).
  assert (Eba : Nat.eqb b a = false) by (apply Nat.eqb_neq; auto).
  unfold trace1, trace1_gen, update_path, main_path, start_node. cbn. rewrite ?Eab, ?Eba, ?Nat.eqb_refl. cbn.
  unfold path_to_root. cbn. rewrite ?Eab, ?Eba, ?Nat.eqb_refl. cbn. rewrite ?Eab, ?Eba, ?Nat.eqb_refl. cbn.
  unfold path_for_branch. cbn. rewrite ?Eab, ?Eba, ?Nat.eqb_refl. cbn. rewrite ?Eab, ?Eba, ?Nat.eqb_refl. cbn.
  unfold update_step. cbn. rewrite ?Eab, ?Eba, ?Nat.eqb_refl. cbn. unfold path_down_from_root. cbn.
  unfold orth_paths. cbn. unfold path_from_to. rewrite ?Eab, ?Eba, ?Nat.eqb_refl. unfold path_to_root. cbn.
  rewrite ?Eab, ?Eba, ?Nat.eqb_refl. cbn.
  unfold merge_root_paths, num_duplicates, count. cbn. rewrite ?Eab, ?Eba, ?Nat.eqb_refl. cbn.
  unfold reset1, init_cache, cache_keys, find_caching_path, path_from_to, path_to_root. cbn. rewrite ?Eab, ?Eba, ?Nat.eqb_refl. cbn.
  rewrite ?Eab, ?Eba, ?Nat.eqb_refl. cbn. unfold merge_root_paths, num_duplicates, count, has_key. cbn. rewrite ?Eab, ?Eba, ?Nat.eqb_refl. cbn.
  rewrite ?Eab, ?Eba, ?Nat.eqb_refl. cbn.
  rewrite ?andb_false_r. unfold assoc. cbn. rewrite ?Eab, ?Eba, ?Nat.eqb_refl. cbn. 
  change (Pos.to_nat 1) with 1. cbn. reflexivity.
Qed.

(* ---- exactness: every timed update is the exact flow ------------------------------------------------------- *)
Lemma total_dur_objs : forall tr, total_dur tr = zsum (map snd (objs tr)).
Proof.
  induction tr as [|e tr IH]; [reflexivity|].
  change (objs (e :: tr)) with (obj_of e ++ objs tr). rewrite map_app, zsum_app. unfold total_dur in *. simpl map. simpl zsum.
  rewrite IH. destruct e; simpl; lia.
Qed.

Section Exact.
  Variable X : Type.
  Variable act : obj * Z -> X -> X.
  Variable actE : ev -> X -> X.
  (* flow s = the exact propagator exp(-i H s dt/2) on the whole space (s in half units of the time step) *)
  Variable flow : Z -> X -> X.
  Hypothesis gauge : factors_through act actE.
  Hypothesis flow_add : forall s t x, flow (s + t)%Z x = flow s (flow t x).
  Hypothesis flow_0 : forall x, flow 0%Z x = x.

  Lemma run_objs_flow : forall l, (forall o f, In (o, f) l -> forall x, act (o, f) x = flow f x) ->
    forall x, run_objs X act l x = flow (zsum (map snd l)) x.
  Proof.
    induction l as [|[o f] l IH]; intros C x; [symmetry; apply flow_0|].
    change (run_objs X act ((o, f) :: l) x) with (run_objs X act l (act (o, f) x)).
    rewrite IH by (intros o' f' Hin; apply C; right; exact Hin). rewrite (C o f) by (left; reflexivity).
    rewrite <- flow_add. simpl. f_equal. lia.
  Qed.

  (* any trace all of whose timed updates are exact flows acts as the flow over the sum of the signed durations *)
  Theorem exact_trace : forall tr, (forall o f, In (o, f) (objs tr) -> forall x, act (o, f) x = flow f x) ->
    forall x, run_trace X actE tr x = flow (total_dur tr) x.
  Proof. intros tr C x. rewrite (run_trace_objs X act actE gauge), total_dur_objs. apply run_objs_flow. exact C. Qed.

  (* k steps: the flow over k full time steps *)
  Lemma run_steps_flow : forall tr, (forall x, run_trace X actE tr x = flow 2%Z x) ->
    forall k x, run_steps X actE k tr x = flow (2 * Z.of_nat k)%Z x.
  Proof.
    intros tr Hs k. induction k as [|k IH]; intros x; [symmetry; apply flow_0|].
    simpl run_steps. rewrite IH, Hs, <- flow_add. f_equal. lia.
  Qed.

  (* two nodes a (root) and b: the contract only concerns the three objects of the tree *)
  Variables a b : nat.
  Hypothesis a_ne_b : a <> b.
  Hypothesis saturated : forall o f x, o = ONode a \/ o = ONode b \/ o = mk_edge a b -> act (o, f) x = flow f x.

  Lemma mk_edge_sym : mk_edge b a = mk_edge a b.
  Proof. unfold mk_edge. rewrite Nat.min_comm, Nat.max_comm. reflexivity. Qed.

  Theorem two_node_first_order_exact : forall x,
    exists tr, trace1 (RNode a [RNode b []]) = Some tr /\
      objs tr = [(ONode b, 2); (mk_edge a b, -2); (ONode a, 2)]%Z /\ run_trace X actE tr x = flow 2%Z x.
  Proof.
    intros x. eexists. split; [apply trace1_two_nodes; exact a_ne_b|]. split.
    - cbn. rewrite mk_edge_sym. reflexivity.
    - rewrite exact_trace; [reflexivity|]. cbn. rewrite mk_edge_sym. intros o f [H|[H|[H|[]]]] y; inversion H; subst; apply saturated; auto.
  Qed.

  Theorem two_node_second_order_exact : forall x,
    exists tr, trace2 (RNode a [RNode b []]) = Some tr /\
      objs tr = [(ONode b, 1); (mk_edge a b, -1); (ONode a, 2); (mk_edge a b, -1); (ONode b, 1)]%Z /\
      run_trace X actE tr x = flow 2%Z x.
  Proof.
    intros x. eexists. split; [apply trace2_two_nodes; exact a_ne_b|]. split.
    - cbn. rewrite mk_edge_sym. reflexivity.
    - rewrite exact_trace; [reflexivity|]. cbn. rewrite mk_edge_sym.
      intros o f [H|[H|[H|[H|[H|[]]]]]] y; inversion H; subst; apply saturated; auto.
  Qed.

End Exact.

(* the two-site class on two nodes: the contract concerns the edge only (the two-site tensor is the whole state,
   E = 1, K = H: C07_two_node_projection), whatever the bond dimension *)
Theorem two_node_two_site_exact : forall (X : Type) (act : obj * Z -> X -> X) (actE : ev -> X -> X) (flow : Z -> X -> X),
  factors_through act actE ->
  (forall s t x, flow (s + t)%Z x = flow s (flow t x)) -> (forall x, flow 0%Z x = x) ->
  forall a b, a <> b -> (forall f x, act (mk_edge a b, f) x = flow f x) ->
  forall x, exists tr, trace2s (RNode a [RNode b []]) = Some tr /\
    objs tr = [(mk_edge a b, 1); (mk_edge a b, 1)]%Z /\ run_trace X actE tr x = flow 2%Z x /\
    forall k, run_steps X actE k tr x = flow (2 * Z.of_nat k)%Z x.
Proof.
  intros X act actE flow G FA F0 a b Hne S x. eexists. split; [apply trace2s_two_nodes; exact Hne|].
  assert (Esym : mk_edge b a = mk_edge a b) by (unfold mk_edge; rewrite Nat.min_comm, Nat.max_comm; reflexivity).
  assert (Hstep : forall y, run_trace X actE [TwoSite b a 1%Z; Cache b a; TwoSite a b 1%Z; Cache a b] y = flow 2%Z y).
  { intros y. rewrite (exact_trace X act actE flow G FA F0); [reflexivity|]. cbn. rewrite Esym.
    intros o f [H|[H|[]]] z; inversion H; subst; apply S. }
  split; [cbn; rewrite Esym; reflexivity|]. split; [apply Hstep|].
  intros k. apply (run_steps_flow X actE flow FA F0). exact Hstep.
Qed.
