(* More universal theorems about the TDVP schedule model: the two-site step is a palindrome
   of (object, signed factor) on every tree (list-level argument: the backward sweep is
   literally built from the reversed forward paths); the tree path is symmetric; the last two
   nodes of the update path are adjacent (so the turning point of the second-order sweeps
   acts on an edge); the second-order one-site step is a palindrome on every tree. *)
From Coq Require Import List Arith Bool ZArith Lia Permutation.
From PTN Require Import Tree.RTree Tree.RTreeProofs Tree.Nav Tree.NavProofs Tree.UpdatePath
     Tree.UpdatePathProofs Tree.CachePath Tree.CachePathProofs Sched.TDVP Sched.TDVPProofs.
Import ListNotations.

(* ================================================================================== *)
(* the two-site step is a palindrome (all trees)                                      *)
(* ================================================================================== *)
Lemma objs_app : forall a b, objs (a ++ b) = objs a ++ objs b.
Proof. intros. unfold objs. apply flat_map_app. Qed.

Lemma objs_silent : forall l, (forall e, In e l -> silent e) -> objs l = [].
Proof.
  induction l as [|e l IH]; intros H; [reflexivity|]. unfold objs in *. simpl. rewrite IH by (intros; apply H; right; auto).
  pose proof (H e (or_introl eq_refl)) as He. destruct e; simpl in He; try contradiction; reflexivity.
Qed.

Lemma objs_moves : forall p, objs (moves p) = [].
Proof. intros p. apply objs_silent. intros e H. apply move_like_silent. eapply moves_kind; eauto. Qed.

Lemma concat_opt_map_objs : forall (f : nat -> option (list ev)) (g : nat -> list (obj * Z)) l r,
  concat_opt (map f l) = Some r -> (forall i es, In i l -> f i = Some es -> objs es = g i) ->
  objs r = flat_map g l.
Proof.
  intros f g l. induction l as [|i l IH]; intros r H Hg.
  - simpl in H. inversion H. reflexivity.
  - simpl map in H. apply concat_opt_cons in H. destruct H as [x [y [Hx [Hy ->]]]].
    rewrite objs_app. simpl. rewrite (Hg i x (or_introl eq_refl) Hx). rewrite (IH y Hy); [reflexivity|].
    intros j es Hj. apply Hg. right. exact Hj.
Qed.

Lemma nth_error_rev' : forall {A} (l : list A) i, i < length l -> nth_error (rev l) i = nth_error l (length l - S i).
Proof.
  intros A l. induction l as [|a l IH]; intros i H; simpl in H; [lia|]. simpl rev.
  destruct (Nat.eq_dec i (length l)) as [->|Hne].
  - rewrite nth_error_app2 by (rewrite rev_length; lia). rewrite rev_length, Nat.sub_diag.
    simpl length. replace (S (length l) - S (length l)) with 0 by lia. reflexivity.
  - rewrite nth_error_app1 by (rewrite rev_length; lia). rewrite IH by lia.
    simpl length. replace (S (length l) - S i) with (S (length l - S i)) by lia. reflexivity.
Qed.

Lemma rev_flat_map : forall {A B} (g : A -> list B) l, rev (flat_map g l) = flat_map (fun x => rev (g x)) (rev l).
Proof.
  intros A B g l. induction l as [|a l IH]; [reflexivity|]. simpl. rewrite rev_app_distr, IH, flat_map_app. simpl.
  rewrite app_nil_r. reflexivity.
Qed.

Lemma rev_seq_1 : forall m, rev (seq 1 m) = map (fun k => m - k) (seq 0 m).
Proof.
  induction m as [|m IH]; [reflexivity|]. rewrite seq_S. rewrite rev_app_distr. simpl rev. simpl app.
  rewrite IH. simpl seq. simpl map. f_equal. rewrite <- seq_shift, map_map. apply map_ext_in. intros k Hk. reflexivity.
Qed.

Lemma mk_edge_sym : forall a b, mk_edge a b = mk_edge b a.
Proof. intros. unfold mk_edge. rewrite Nat.min_comm, Nat.max_comm. reflexivity. Qed.

Theorem trace2s_palindrome : forall t tr, trace2s t = Some tr -> objs tr = rev (objs tr).
Proof.
  intros t tr H. unfold trace2s in H. destruct (update_path t) as [up|]; [|discriminate].
  destruct (orth_paths t up) as [op|] eqn:Eop; [|discriminate].
  assert (Hlen : length op = length up - 1).
  { unfold orth_paths in Eop. destruct (map_opt_spec _ _ _ Eop) as [Hl _]. rewrite Hl. apply consec_length. }
  destruct (trace2s_of_inv _ _ _ H) as [y [z [fw [bw [Hy [Hz [Hfw [Hbw ->]]]]]]]].
  set (m := length up - 2) in *.
  set (gF := fun i => match nth_error up i, nth_error op i with
                      | Some n, Some (nx :: _) => [(mk_edge n nx, 1%Z); (ONode nx, (-1)%Z)]
                      | _, _ => [] end).
  assert (Ffw : objs fw = flat_map gF (seq 0 m)).
  { apply (concat_opt_map_objs _ gF _ _ Hfw). intros i es _ Hes.
    destruct (t2s_forward_inv _ _ _ _ Hes) as [n [p [nx [q [Hn [Hq ->]]]]]]. unfold gF. rewrite Hn, Hq.
    rewrite !objs_app, objs_moves. reflexivity. }
  assert (Fbw : objs bw = flat_map (fun i => rev (gF (m - i))) (seq 1 m)).
  { apply (concat_opt_map_objs _ _ _ _ Hbw). intros i es Hi Hes. apply in_seq in Hi.
    destruct (t2s_backward_inv _ _ _ _ Hes) as [p [nx [tg [Hp [Hnx [Htg ->]]]]]].
    rewrite !objs_app, objs_moves. unfold gF.
    assert (Hl2 : 2 <= length up).
    { assert (1 < length (rev up)) by (apply nth_error_Some; congruence). rewrite rev_length in H0. lia. }
    (* bup[i+1] = up[m-i] *)
    rewrite nth_error_rev' in Hnx by lia. replace (length up - S (i + 1)) with (m - i) in Hnx by (unfold m; lia). rewrite Hnx.
    (* bop[i] = rev op[m-i] *)
    unfold back_orth_paths2 in Hp. rewrite nth_error_map in Hp. rewrite nth_error_rev' in Hp by lia.
    replace (length op - S i) with (m - i) in Hp by (unfold m; lia).
    destruct (nth_error op (m - i)) as [o|]; [|discriminate]. simpl in Hp. inversion Hp; subst p.
    destruct o as [|nx' q]; [discriminate|]. simpl rev in Htg. rewrite last_opt_snoc in Htg. inversion Htg; subst tg.
    simpl. rewrite (mk_edge_sym nx' nx). reflexivity. }
  assert (R1 : rev (flat_map (fun i => rev (gF (m - i))) (seq 1 m)) = flat_map gF (seq 0 m)).
  { rewrite rev_flat_map, rev_seq_1. rewrite flat_map_concat_map, map_map, <- flat_map_concat_map.
    apply flat_map_ext_in. intros k Hk. apply in_seq in Hk. rewrite rev_involutive. replace (m - (m - k)) with k by lia. reflexivity. }
  assert (R2 : rev (flat_map gF (seq 0 m)) = flat_map (fun i => rev (gF (m - i))) (seq 1 m)).
  { rewrite <- R1. apply rev_involutive. }
  rewrite !objs_app, Ffw, Fbw. rewrite !rev_app_distr. rewrite R1, R2.
  unfold objs, two. simpl flat_map. simpl rev. rewrite (mk_edge_sym z y).
  rewrite <- !app_assoc. reflexivity.
Qed.

(* ================================================================================== *)
(* the tree path is symmetric                                                         *)
(* ================================================================================== *)
Lemma path_rev : forall t a b p, NoDup (ids t) -> In a (ids t) -> In b (ids t) ->
  path_from_to t a b = Some p -> path_from_to t b a = Some (rev p).
Proof.
  intros t a b p Hw Ha Hb Hp.
  destruct (path_from_to_spec t a b Hw Ha Hb) as [p' [Hp' [H1 [H2 [Hc Hn]]]]].
  assert (p' = p) by congruence. subst p'. destruct H1 as [r Hr], H2 as [r' Hr'].
  apply (path_unique t b a (rev p)); auto.
  - apply chain_rev. eapply chain_mono; [|exact Hc]. intros x y Hxy. apply adjacent_sym. exact Hxy.
  - apply NoDup_rev. exact Hn.
  - exists (rev r'). rewrite Hr'. rewrite rev_app_distr. reflexivity.
  - exists (rev r). rewrite Hr. reflexivity.
Qed.

(* ================================================================================== *)
(* the last two nodes of the update path are adjacent                                 *)
(* ================================================================================== *)
Lemma subtree_root : forall t, subtree (rid t) t = Some t.
Proof. intros [i cs]. simpl. rewrite Nat.eqb_refl. reflexivity. Qed.

Lemma pfb_last : forall c on o, In o (ids c) -> exists l, pfb c on o = l ++ [o].
Proof.
  intros c on o H. apply subtree_Some_iff in H. destruct H as [s Hs]. unfold pfb. rewrite Hs. eauto.
Qed.

Lemma pfb_leaf : forall c on o, NoDup (ids c) -> In o (leaves c) -> pfb c on o = [o].
Proof.
  intros c on o Hw H. apply leaves_spec in H. destruct H as [s [Hsub [Hr Hch]]].
  pose proof (subtree_complete c s Hw Hsub) as Hs. rewrite Hr in Hs. unfold pfb. rewrite Hs, Hch. reflexivity.
Qed.

Theorem update_path_last_two : forall t, NoDup (ids t) -> 2 <= size t ->
  exists l y z, update_path t = Some (l ++ [y; z]) /\ adjacent t y z.
Proof.
  intros [i cs] Hw Hs.
  destruct (update_path_decomp i cs Hw) as [st [F [[-> [-> U]]|[cm [dtl [Hcm [Hdtl [[-> U]|[L2 [ce [e [etl [Hce [Hne [Hel [Hetl U]]]]]]]]]]]]]]]].
  - simpl in Hs. lia.
  - (* single child: ... cm, i *)
    destruct (down_path_hd _ _ _ Hdtl) as [r Er]. subst dtl.
    unfold sweep_up in U. simpl rev in U. rewrite flat_map_app in U. simpl flat_map in U. rewrite app_nil_r in U.
    destruct (pfb_last cm (rid cm :: r) (rid cm) (rid_in_ids cm)) as [l El]. rewrite El in U.
    exists (flat_map (pfb cm (rid cm :: r)) (rev r) ++ l), (rid cm), i. split.
    + rewrite U. rewrite <- !app_assoc. reflexivity.
    + right. apply edges_root. left. reflexivity.
  - (* several children: the path ends with the descent to the leaf e *)
    pose proof (wf_child _ _ _ Hw Hce) as Hwe.
    destruct (down_path_last _ _ _ Hetl) as [r Er]. subst etl.
    unfold sweep_down in U. rewrite flat_map_app in U. simpl flat_map in U. rewrite app_nil_r in U.
    rewrite (pfb_leaf ce (r ++ [e]) e Hwe Hel) in U.
    destruct r as [|x r0].
    + (* etl = [e]: e is the child ce itself *)
      simpl in U. assert (Ee : e = rid ce).
      { destruct (down_path_hd _ _ _ Hetl) as [r1 Er1]. simpl in Er1. inversion Er1. reflexivity. }
      exists (sweep_up cm dtl ++ flat_map linearise (other_children cs (rid cm) (rid ce))), i, e. split.
      * rewrite U. rewrite <- !app_assoc. reflexivity.
      * left. rewrite Ee. apply edges_root. exact Hce.
    + destruct (@exists_last _ (x :: r0)) as [r' [pe Er']]; [discriminate|]. rewrite Er' in U, Hetl.
      rewrite flat_map_app in U. simpl flat_map in U. rewrite app_nil_r in U.
      assert (Hpe : In pe (ids ce)).
      { eapply down_path_In; [exact Hetl|]. apply in_or_app. left. apply in_or_app. right. left. reflexivity. }
      destruct (pfb_last ce ((r' ++ [pe]) ++ [e]) pe Hpe) as [l El]. rewrite El in U.
      exists (sweep_up cm dtl ++ (flat_map linearise (other_children cs (rid cm) (rid ce)) ++ [i]) ++
              flat_map (pfb ce ((r' ++ [pe]) ++ [e])) r' ++ l), pe, e. split.
      * rewrite U. f_equal. rewrite <- !app_assoc. simpl. reflexivity.
      * left. eapply edges_child; [exact Hce|].
        pose proof (down_path_chain _ _ _ Hetl) as Hch. rewrite <- app_assoc in Hch. simpl in Hch.
        apply chain_app in Hch. destruct Hch as [_ Hch]. simpl in Hch. tauto.
Qed.

(* ================================================================================== *)
(* the second-order one-site step is a palindrome (all trees)                         *)
(* ================================================================================== *)
Section Regroup.
  Variable A : Type.
  Variables s e : nat -> A.
  (* e n, s n, e (n-1), s (n-1), ..., e 0, s 0  regrouped as  e n, (s n, e (n-1)), ..., (s 1, e 0), s 0 *)
  Lemma regroup : forall n,
    [e n] ++ flat_map (fun u => [s (S n - u); e (n - u)]) (seq 1 n) ++ [s 0] =
    flat_map (fun k => [e k; s k]) (rev (seq 0 (S n))).
  Proof.
    induction n as [|n IH]; [reflexivity|].
    replace (rev (seq 0 (S (S n)))) with (S n :: rev (seq 0 (S n))) by (rewrite (seq_S (S n) 0), rev_app_distr; reflexivity).
    set (L := rev (seq 0 (S n))) in *. cbn [flat_map]. rewrite <- IH. clear IH L.
    replace (seq 1 (S n)) with (1 :: seq 2 n) by reflexivity. cbn [flat_map app].
    replace (S (S n) - 1) with (S n) by lia. replace (S n - 1) with n by lia.
    f_equal. f_equal. f_equal. f_equal.
    rewrite <- (seq_shift n 1). rewrite flat_map_concat_map, map_map, <- flat_map_concat_map.
    apply flat_map_ext_in. intros u Hu. apply in_seq in Hu.
    replace (S (S n) - S u) with (S n - u) by lia. replace (S n - S u) with (n - u) by lia. reflexivity.
  Qed.
End Regroup.

Lemma nth_error_tl : forall {A} (l : list A) j, nth_error (tl l) j = nth_error l (S j).
Proof. intros A [|a l] j; simpl; [destruct j; reflexivity|reflexivity]. Qed.

Lemma path_adjacent : forall t a b, NoDup (ids t) -> adjacent t a b -> a <> b -> path_from_to t a b = Some [a; b].
Proof.
  intros t a b Hw Hadj Hne. apply (path_unique t a b [a; b]); auto.
  - simpl. auto.
  - constructor; [simpl; intuition|]. constructor; [simpl; tauto|constructor].
  - eauto.
  - exists [a]. reflexivity.
Qed.

Theorem trace2_palindrome : forall t tr, NoDup (ids t) -> trace2 t = Some tr -> objs tr = rev (objs tr).
Proof.
  intros t tr Hw H.
  destruct (update_path_facts t Hw) as [up [Hu [Nu [Hi Hl]]]].
  destruct (orth_paths_good t up Hw Nu (fun x Hx => proj1 (Hi x) Hx)) as [op [Ho [Hlen Hg]]].
  unfold trace2 in H. rewrite Hu, Ho in H. destruct (back_orth_paths t (rev up)) as [bop|] eqn:Eb; [|discriminate].
  destruct (trace2_of_inv _ _ _ _ H) as [z [b1 [a [fw [bw [Hz [Hb1 [Ha [Hfw [Hbw ->]]]]]]]]]].
  assert (Hl2 : 2 <= length up).
  { assert (1 < length (rev up)) by (apply nth_error_Some; congruence). rewrite rev_length in H0. lia. }
  set (n := length up - 2).
  set (hop := fun k => hd 0 (nth k op [])).
  set (s := fun k => (ONode (nth k up 0), 1%Z)).
  set (e := fun k => (mk_edge (nth k up 0) (hop k), (-1)%Z)).
  (* forward sweep *)
  assert (Ffw : objs fw = flat_map (fun k => [s k; e k]) (seq 0 (S n))).
  { replace (S n) with (length up - 1) by (unfold n; lia).
    apply (concat_opt_map_objs _ _ _ _ Hfw). intros i es _ Hes.
    destruct (t2_forward_inv _ _ _ _ Hes) as [x [p [nx [q [Hx [Hq ->]]]]]].
    rewrite !objs_app, objs_moves. unfold s, e, hop. rewrite (nth_error_nth _ _ 0 Hx), (nth_error_nth _ _ [] Hq). reflexivity. }
  (* the turning point acts on the last edge *)
  destruct (update_path_last_two t Hw) as [l0 [y [z' [Hu' Hadj]]]]. { rewrite <- Hl. exact Hl2. }
  rewrite Hu in Hu'. inversion Hu' as [Eup].
  assert (Lup : length up = length l0 + 2) by (rewrite Eup, app_length; simpl; lia).
  assert (Hy : nth_error up n = Some y).
  { rewrite Eup. unfold n. rewrite Lup. replace (length l0 + 2 - 2) with (length l0) by lia.
    rewrite nth_error_app2, Nat.sub_diag by lia. reflexivity. }
  assert (Hz' : nth_error up (S n) = Some z').
  { rewrite Eup. unfold n. rewrite Lup. replace (S (length l0 + 2 - 2)) with (S (length l0)) by lia.
    rewrite nth_error_app2 by lia. replace (S (length l0) - length l0) with 1 by lia. reflexivity. }
  assert (Ez : z = z').
  { rewrite Eup in Hz. replace (l0 ++ [y; z']) with ((l0 ++ [y]) ++ [z']) in Hz by (rewrite <- app_assoc; reflexivity).
    rewrite last_opt_snoc in Hz. congruence. }
  assert (Eb1 : b1 = y).
  { rewrite nth_error_rev' in Hb1 by lia. replace (length up - 2) with n in Hb1 by reflexivity. congruence. }
  assert (Eturn : (mk_edge z b1, (-1)%Z) = e n).
  { unfold e, hop. rewrite (nth_error_nth _ _ 0 Hy). destruct (Hg n y z' Hy Hz') as [nx [q [Hp [Hq _]]]].
    rewrite (nth_error_nth _ _ [] Hq). simpl hd.
    assert (Hne : y <> z') by (eapply NoDup_nth_neq; eauto).
    rewrite (path_adjacent t y z' Hw Hadj Hne) in Hp. inversion Hp; subst. rewrite mk_edge_sym. reflexivity. }
  assert (Ea : a = nth 0 up 0).
  { destruct up as [|u0 up']; [simpl in Hl2; lia|]. simpl rev in Ha. rewrite last_opt_snoc in Ha. simpl. congruence. }
  (* backward sweep *)
  assert (Fbw : objs bw = flat_map (fun u => [s (S n - u); e (n - u)]) (seq 1 n)).
  { apply (concat_opt_map_objs _ _ _ _ Hbw). intros u es Hu1 Hes. apply in_seq in Hu1.
    destruct (t2_backward_inv _ _ _ _ Hes) as [x [p [nx [Hx [Hp [Hnx ->]]]]]].
    rewrite !objs_app, objs_moves. unfold s, e, hop.
    rewrite nth_error_rev' in Hx by lia. replace (length up - S u) with (S n - u) in Hx by (unfold n; lia).
    rewrite nth_error_rev' in Hnx by lia. replace (length up - S (u + 1)) with (n - u) in Hnx by (unfold n; lia).
    rewrite (nth_error_nth _ _ 0 Hx), (nth_error_nth _ _ 0 Hnx).
    (* bop[u-1] = removelast (path (up[k+1]) (up[k])), k = n - u *)
    unfold back_orth_paths in Eb.
    destruct (map_opt (fun s0 => option_map (@removelast nat) (path_from_to t (fst s0) (snd s0))) (consec (tl (rev up)))) as [lb|] eqn:Em; [|discriminate].
    destruct (last_opt (rev up)); [|discriminate]. inversion Eb; subst bop.
    destruct (map_opt_spec _ _ _ Em) as [Hlb Hnb].
    assert (Hc : nth_error (consec (tl (rev up))) (u - 1) = Some (x, nx)).
    { apply consec_nth. rewrite !nth_error_tl. replace (S (u - 1)) with u by lia. replace (S u) with (u + 1) by lia.
      rewrite !nth_error_rev' by lia.
      replace (length up - S u) with (S n - u) by (unfold n; lia). replace (length up - S (u + 1)) with (n - u) by (unfold n; lia). auto. }
    destruct (Hnb _ _ Hc) as [pb [Hpb Hnth]]. simpl in Hpb.
    rewrite nth_error_app1 in Hp.
    2:{ rewrite Hlb, consec_length. assert (length (tl (rev up)) = length up - 1) by (rewrite <- (rev_length up); destruct (rev up); simpl; lia). lia. }
    rewrite Hnth in Hp. inversion Hp; subst pb.
    assert (Hx' : nth_error up (S (n - u)) = Some x) by (replace (S (n - u)) with (S n - u) by lia; exact Hx).
    destruct (Hg (n - u) nx x Hnx Hx') as [h [q [Hpath [Hq _]]]].
    assert (Hin1 : In nx (ids t)) by (apply Hi; eapply nth_error_In; eauto).
    assert (Hin2 : In x (ids t)) by (apply Hi; eapply nth_error_In; eauto).
    rewrite (path_rev t nx x _ Hw Hin1 Hin2 Hpath) in Hpb. simpl in Hpb. inversion Hpb as [Ep].
    rewrite (nth_error_nth _ _ [] Hq). simpl hd.
    assert (El : last (removelast ((rev q ++ [h]) ++ [nx])) x = h).
    { rewrite removelast_last. apply last_last. }
    rewrite El. simpl. rewrite (mk_edge_sym h nx). reflexivity. }
  rewrite !objs_app, Ffw, Fbw.
  change (objs [AssertCentre z; Site z 2%Z] ++ objs (link z b1 1%Z)) with [(ONode z, 2%Z); (mk_edge z b1, (-1)%Z)].
  rewrite Eturn, Ea. change (objs [AssertCentre (nth 0 up 0); Site (nth 0 up 0) 1%Z]) with [s 0].
  set (X := flat_map (fun k => [s k; e k]) (seq 0 (S n))).
  set (Y := flat_map (fun u => [s (S n - u); e (n - u)]) (seq 1 n)).
  assert (RX : rev X = [e n] ++ Y ++ [s 0]).
  { unfold X, Y. rewrite rev_flat_map. rewrite (regroup _ s e n). apply flat_map_ext_in. intros; reflexivity. }
  assert (G : X ++ [(ONode z, 2%Z); e n] ++ Y ++ [s 0] = X ++ [(ONode z, 2%Z)] ++ rev X) by (rewrite RX; reflexivity).
  rewrite G. rewrite !rev_app_distr, rev_involutive.
  replace (rev [(ONode z, 2%Z)]) with [(ONode z, 2%Z)] by reflexivity. rewrite <- app_assoc. reflexivity.
Qed.
