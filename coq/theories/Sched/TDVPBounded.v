(* Bounded companions of the TDVP schedule theorems: the executable checkers of
   Sched/TDVP.v evaluated by the kernel (vm_compute) on EVERY rooted ordered tree with at
   most N nodes (Tree/Enum.v: trees_upto N, complete by Tree/EnumProofs.v), lifted to Prop
   with the soundness lemmas of Sched/TDVPProofs.v. *)
From Coq Require Import List Arith Bool ZArith Lia.
From PTN Require Import Tree.RTree Tree.Nav Tree.UpdatePath Tree.CachePath Tree.Enum Tree.EnumProofs
     Sched.TDVP Sched.TDVPProofs Sched.TDVPFresh.
Import ListNotations.

(* ---- durations ------------------------------------------------------------------------ *)
Lemma all_dur_10 : forallb (big dur_check) (trees_upto 10) = true.
Proof. vm_compute. reflexivity. Qed.

Lemma opt_check_sound : forall f o, opt_check f o = true -> exists tr, o = Some tr /\ f tr = true.
Proof. intros f [tr|] H; simpl in H; [eauto|discriminate]. Qed.

Theorem durations_bounded_10 : forall t, In t (trees_upto 10) -> 2 <= size t ->
  (exists tr, trace1 t = Some tr /\ durations_one t tr) /\
  (exists tr, trace2 t = Some tr /\ durations_one t tr) /\
  (exists tr, trace2s t = Some tr /\ durations_two t tr).
Proof.
  intros t Ht Hs. pose proof (big_sound _ _ all_dur_10 t Ht Hs) as H. unfold dur_check in H.
  apply andb_true_iff in H. destruct H as [H H3]. apply andb_true_iff in H. destruct H as [H1 H2].
  apply opt_check_sound in H1, H2, H3. destruct H1 as [t1 [E1 D1]], H2 as [t2 [E2 D2]], H3 as [t3 [E3 D3]].
  repeat split.
  - exists t1. split; auto. apply dur_check_one_sound; auto.
  - exists t2. split; auto. apply dur_check_one_sound; auto.
  - exists t3. split; auto. apply dur_check_two_sound; auto.
Qed.

(* ---- palindromes ------------------------------------------------------------------------ *)
Lemma all_pal_10 : forallb (big pal_check) (trees_upto 10) = true.
Proof. vm_compute. reflexivity. Qed.

Theorem palindrome_bounded_10 : forall t, In t (trees_upto 10) -> 2 <= size t ->
  (exists tr, trace2 t = Some tr /\ objs tr = rev (objs tr)) /\
  (exists tr, trace2s t = Some tr /\ objs tr = rev (objs tr)).
Proof.
  intros t Ht Hs. pose proof (big_sound _ _ all_pal_10 t Ht Hs) as H. unfold pal_check in H.
  apply andb_true_iff in H. destruct H as [H1 H2].
  apply opt_check_sound in H1, H2. destruct H1 as [t1 [E1 D1]], H2 as [t2 [E2 D2]].
  split; [exists t1|exists t2]; split; auto using palindromeb_sound.
Qed.

(* the bounded statements reach every tree shape: Tree/EnumProofs.trees_upto_complete *)
