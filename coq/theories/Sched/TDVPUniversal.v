(* Universal versions (every tree with unique identifiers) of the duration clauses of C05
   that Sched/TDVPBounded.v only checks on the finite enumeration:
   link durations per tree edge in trace1 / trace2, two-site durations per edge and
   backward site durations per node in trace2s, every Link / TwoSite event on a tree edge.
   The combinatorial core is Tree/EdgeBlock.v: exactly one consecutive pair of the update
   path has the first hop of its tree path on a given edge.  Proofs only. *)
From Coq Require Import List Arith Bool ZArith Lia Permutation.
From PTN Require Import Tree.RTree Tree.RTreeProofs Tree.Nav Tree.NavProofs Tree.UpdatePath
     Tree.UpdatePathProofs Tree.CachePath Tree.CachePathProofs Tree.Enum Tree.Crossings Tree.EdgeBlock
     Sched.TDVP Sched.TDVPProofs Sched.TDVPMore.
Import ListNotations.

(* ================================================================================== *)
(* sums                                                                               *)
(* ================================================================================== *)
Lemma consec_steps : forall l, consec l = steps l.
Proof. reflexivity. Qed.

Lemma zsum_cons : forall x l, zsum (x :: l) = (x + zsum l)%Z.
Proof. reflexivity. Qed.

Lemma zsum_zero : forall {A} (g : A -> Z) l, (forall i, In i l -> g i = 0%Z) -> zsum (map g l) = 0%Z.
Proof.
  intros A g l. induction l as [|a l IH]; intros H; [reflexivity|]. simpl. rewrite (H a) by (left; reflexivity).
  rewrite IH; [reflexivity|]. intros; apply H; right; auto.
Qed.

Lemma zsum_ext : forall {A} (g h : A -> Z) l, (forall i, In i l -> g i = h i) -> zsum (map g l) = zsum (map h l).
Proof.
  intros A g h l. induction l as [|a l IH]; intros H; [reflexivity|]. simpl. rewrite (H a) by (left; reflexivity).
  rewrite IH; [reflexivity|]. intros; apply H; right; auto.
Qed.

Lemma zsum_filter : forall {A} (g : A -> bool) (k : Z) l,
  zsum (map (fun a => if g a then k else 0%Z) l) = (k * Z.of_nat (length (filter g l)))%Z.
Proof.
  intros A g k l. induction l as [|a l IH]; [simpl; lia|]. simpl map. simpl filter. simpl zsum. rewrite IH.
  destruct (g a); simpl length; lia.
Qed.

Lemma zsum_rev : forall l, zsum (rev l) = zsum l.
Proof. induction l as [|a l IH]; [reflexivity|]. simpl rev. rewrite zsum_app, IH. simpl. lia. Qed.

Lemma zsum_plus : forall {A} (g h : A -> Z) l, zsum (map (fun a => (g a + h a)%Z) l) = (zsum (map g l) + zsum (map h l))%Z.
Proof. intros A g h l. induction l as [|a l IH]; [reflexivity|]. simpl. rewrite IH. lia. Qed.

Lemma zsum_scale : forall {A} (k : Z) (g : A -> Z) l, zsum (map (fun a => (k * g a)%Z) l) = (k * zsum (map g l))%Z.
Proof. intros A k g l. induction l as [|a l IH]; [simpl; lia|]. simpl. rewrite IH. lia. Qed.

(* a sum over the consecutive pairs of a list, indexed by position *)
Definition pair_at (h : nat * nat -> Z) (up : list nat) (i : nat) : Z :=
  match nth_error up i, nth_error up (S i) with Some a, Some b => h (a, b) | _, _ => 0%Z end.

Lemma seq_consec_sum : forall h up n, length up - 1 <= n ->
  zsum (map (pair_at h up) (seq 0 n)) = zsum (map h (consec up)).
Proof.
  intros h up. induction up as [|a r IH]; intros n Hn.
  - apply zsum_zero. intros i _. unfold pair_at. destruct i; reflexivity.
  - destruct r as [|b r].
    + apply zsum_zero. intros i _. unfold pair_at. destruct i as [|[|i]]; reflexivity.
    + destruct n as [|n]; [simpl in Hn; lia|].
      change (seq 0 (S n)) with (0 :: seq 1 n). rewrite <- seq_shift, map_cons, map_map.
      change (consec (a :: b :: r)) with ((a, b) :: consec (b :: r)). rewrite map_cons, !zsum_cons.
      rewrite <- (IH n) by (simpl in *; lia). f_equal; try (apply zsum_ext; intros i _; reflexivity).
Qed.

(* re-indexing a backward sweep: u = 1..n  <->  k = n - u = n-1..0 *)
Lemma zsum_reindex : forall (g : nat -> Z) n,
  zsum (map (fun u => g (n - u)) (seq 1 n)) = zsum (map g (seq 0 n)).
Proof.
  intros g n. rewrite <- zsum_rev, <- map_rev, rev_seq_1, map_map. apply zsum_ext.
  intros k Hk. apply in_seq in Hk. f_equal. lia.
Qed.

(* ================================================================================== *)
(* durations of the building blocks                                                   *)
(* ================================================================================== *)
Lemma on_edge_same : forall a b x y, on_edge a b x y = same_edge (x, y) (a, b).
Proof.
  intros a b x y. unfold on_edge, same_edge. simpl.
  rewrite (Nat.eqb_sym a x), (Nat.eqb_sym b y), (Nat.eqb_sym a y), (Nat.eqb_sym b x), (andb_comm (Nat.eqb y a)). reflexivity.
Qed.

Lemma on_edge_sym : forall a b x y, on_edge a b x y = on_edge b a x y.
Proof. intros a b x y. unfold on_edge. rewrite orb_comm, (andb_comm (Nat.eqb b x)), (andb_comm (Nat.eqb b y)). reflexivity. Qed.

Lemma link_edge_dur : forall a b f x y, edge_dur x y (link a b f) = if on_edge a b x y then (- f)%Z else 0%Z.
Proof. intros a b f x y. unfold edge_dur, link. simpl. destruct (on_edge a b x y); lia. Qed.

Lemma two_edge_dur : forall a b f x y, edge_dur x y (two a b f) = if on_edge a b x y then f else 0%Z.
Proof. intros a b f x y. unfold edge_dur, two. simpl. destruct (on_edge a b x y); lia. Qed.

Lemma two_node_dur : forall a b f x, node_dur x (two a b f) = 0%Z.
Proof. intros. reflexivity. Qed.

Lemma silent_edge_dur : forall l x y, (forall e, In e l -> silent e) -> edge_dur x y l = 0%Z.
Proof. intros l x y H. exact (proj1 (proj2 (silent_durs l H)) x y). Qed.

(* ================================================================================== *)
(* the hop sum                                                                        *)
(* ================================================================================== *)
(* the facts about one edge, packaged *)
Record edge_facts (t : rtree) (up : list nat) (p c : nat) (hb : nat * nat -> bool) : Prop := {
  ef_count : length (filter hb (consec up)) = 1;
  ef_hop : forall a b nx q, In a (ids t) -> In b (ids t) -> path_from_to t a b = Some (a :: nx :: q) ->
             on_edge a nx p c = hb (a, b) }.

Lemma edge_facts_of_edge : forall t up p c, NoDup (ids t) -> update_path t = Some up -> In (p, c) (edges t) ->
  exists hb, edge_facts t up p c hb.
Proof.
  intros t up p c Hw Hu He. destruct (update_path_hops t p c Hw He) as [up' [s [Hu' [_ [Hc Hh]]]]].
  rewrite Hu in Hu'. inversion Hu'; subst up'. exists (hopb (inb (ids s)) p c). constructor.
  - rewrite consec_steps. exact Hc.
  - intros a b nx q Ha Hb Hp. rewrite on_edge_same. eapply Hh; eauto.
Qed.

(* under good_paths the hop at position i is the head of op[i] *)
Lemma hop_at : forall t up op p c hb i a b nx q, (forall x, In x up -> In x (ids t)) -> good_paths t up op ->
  edge_facts t up p c hb -> nth_error up i = Some a -> nth_error up (S i) = Some b -> nth_error op i = Some (nx :: q) ->
  on_edge a nx p c = hb (a, b).
Proof.
  intros t up op p c hb i a b nx q Hin [_ Hg] EF Ha Hb Hq.
  destruct (Hg i a b Ha Hb) as [nx' [q' [Hp [Hq' _]]]]. rewrite Hq in Hq'. inversion Hq'; subst nx' q'.
  eapply (ef_hop _ _ _ _ _ EF); eauto; apply Hin; eapply nth_error_In; eauto.
Qed.

Lemma hop_sum : forall t up p c hb (k : Z) n, edge_facts t up p c hb -> length up - 1 <= n ->
  zsum (map (pair_at (fun ab => if hb ab then k else 0%Z) up) (seq 0 n)) = k.
Proof.
  intros t up p c hb k n EF Hn. rewrite seq_consec_sum by exact Hn. rewrite zsum_filter, (ef_count _ _ _ _ _ EF). lia.
Qed.

(* ================================================================================== *)
(* first-order one-site                                                               *)
(* ================================================================================== *)
Section Trace1U.
  Variables (t t' : rtree) (tr : list ev).
  Hypothesis Hw : NoDup (ids t).
  Hypothesis Htr : trace1_gen t t' = Some tr.

  Theorem trace1_link_durations : forall p c, In (p, c) (edges t) -> edge_dur p c tr = (-2)%Z.
  Proof.
    intros p c He. destruct (trace1_unfold t t' tr Hw Htr) as [up [op [Hu [Nu [Hi [Hl [Ho [Hg H]]]]]]]].
    destruct (edge_facts_of_edge t up p c Hw Hu He) as [hb EF].
    unfold trace1_of in H.
    rewrite (concat_opt_map_sum (edge_dur p c) (edge_dur_app p c) eq_refl _
               (pair_at (fun ab => if hb ab then (-2)%Z else 0%Z) up) _ _ H).
    - apply (hop_sum t up p c hb); auto. lia.
    - intros i es Hin Hes. apply in_seq in Hin. destruct (t1_update_inv _ _ _ _ _ _ Hes) as [n [Hn Hc]].
      assert (Hup : forall x, In x up -> In x (ids t)) by (intros x Hx; apply Hi; exact Hx).
      destruct Hc as [[Ei [pp [first [r [_ [Hr ->]]]]]]|[[Ei [E0 [nx [q [Hq ->]]]]]|[Ei [E0 [pp [nx [q [Hq ->]]]]]]]].
      + (* final update: no link *)
        unfold pair_at. replace (nth_error up (S i)) with (@None nat) by (symmetry; apply nth_error_None; lia).
        rewrite Hn. rewrite !edge_dur_app. destruct (moves_durs pp) as [_ [M _]]. destruct (reset1_durs _ _ _ _ Hr) as [_ [R _]].
        rewrite M, R. destruct (Nat.ltb 2 (size t)); reflexivity.
      + subst i. assert (Hb : exists b, nth_error up 1 = Some b).
        { destruct (nth_error up 1) eqn:E; eauto. apply nth_error_None in E. lia. }
        destruct Hb as [b Hb]. unfold pair_at. rewrite Hn, Hb.
        rewrite <- (hop_at t up op p c hb 0 n b nx q Hup Hg EF Hn Hb Hq).
        rewrite edge_dur_app, link_edge_dur. reflexivity.
      + assert (Hb : exists b, nth_error up (S i) = Some b).
        { destruct (nth_error up (S i)) eqn:E; eauto. apply nth_error_None in E. lia. }
        destruct Hb as [b Hb]. unfold pair_at. rewrite Hn, Hb.
        rewrite <- (hop_at t up op p c hb i n b nx q Hup Hg EF Hn Hb Hq).
        rewrite !edge_dur_app, link_edge_dur. destruct (moves_durs pp) as [_ [M _]]. rewrite M. reflexivity.
  Qed.

  Theorem trace1_events_on_edges : events_on_edges t tr.
  Proof.
    intros a b f [H|H]; pose proof (trace1_events t t' tr Hw Htr _ H) as E; simpl in E; tauto.
  Qed.

  Theorem trace1_durations : durations_one t tr.
  Proof.
    split; [exact (trace1_site_durations t t' tr Hw Htr)|]. split; [exact trace1_link_durations | exact trace1_events_on_edges].
  Qed.
End Trace1U.

(* ================================================================================== *)
(* second-order one-site                                                              *)
(* ================================================================================== *)
(* the backward update u acts on the link between up[n-u] and the first hop towards up[n-u+1] *)
Lemma t2_backward_explicit : forall t up op bop u es, NoDup (ids t) -> NoDup up ->
  (forall x, In x up <-> In x (ids t)) -> good_paths t up op -> back_orth_paths t (rev up) = Some bop ->
  1 <= u <= length up - 2 -> t2_backward (rev up) bop u = Some es ->
  exists x nx h q pp, nth_error up (S (length up - 2 - u)) = Some x /\ nth_error up (length up - 2 - u) = Some nx /\
    nth_error op (length up - 2 - u) = Some (h :: q) /\ pp = rev q ++ [h] /\
    es = [AssertCentre x; Site x 1%Z] ++ moves pp ++ link h nx 1%Z.
Proof.
  intros t up op bop u es Hw Nu Hi [Hlen Hg] Eb Hu1 Hes. set (n := length up - 2) in *.
  assert (Hl2 : 2 <= length up) by lia.
  destruct (t2_backward_inv _ _ _ _ Hes) as [x [p [nx [Hx [Hp [Hnx ->]]]]]].
  rewrite nth_error_rev' in Hx by lia. replace (length up - S u) with (S (n - u)) in Hx by (unfold n; lia).
  rewrite nth_error_rev' in Hnx by lia. replace (length up - S (u + 1)) with (n - u) in Hnx by (unfold n; lia).
  unfold back_orth_paths in Eb.
  destruct (map_opt (fun s0 => option_map (@removelast nat) (path_from_to t (fst s0) (snd s0))) (consec (tl (rev up)))) as [lb|] eqn:Em; [|discriminate].
  destruct (last_opt (rev up)); [|discriminate]. inversion Eb; subst bop.
  destruct (map_opt_spec _ _ _ Em) as [Hlb Hnb].
  assert (Hc : nth_error (consec (tl (rev up))) (u - 1) = Some (x, nx)).
  { apply consec_nth. rewrite !nth_error_tl. replace (S (u - 1)) with u by lia. replace (S u) with (u + 1) by lia.
    rewrite !nth_error_rev' by lia.
    replace (length up - S u) with (S (n - u)) by (unfold n; lia). replace (length up - S (u + 1)) with (n - u) by (unfold n; lia). auto. }
  destruct (Hnb _ _ Hc) as [pb [Hpb Hnth]]. simpl in Hpb.
  rewrite nth_error_app1 in Hp.
  2:{ rewrite Hlb, consec_length. assert (length (tl (rev up)) = length up - 1) by (rewrite <- (rev_length up); destruct (rev up); simpl; lia). lia. }
  rewrite Hnth in Hp. inversion Hp; subst pb.
  destruct (Hg (n - u) nx x Hnx Hx) as [h [q [Hpath [Hq _]]]].
  assert (Hin1 : In nx (ids t)) by (apply Hi; eapply nth_error_In; eauto).
  assert (Hin2 : In x (ids t)) by (apply Hi; eapply nth_error_In; eauto).
  rewrite (path_rev t nx x _ Hw Hin1 Hin2 Hpath) in Hpb. simpl in Hpb. inversion Hpb as [Ep].
  assert (El : last (removelast ((rev q ++ [h]) ++ [nx])) x = h).
  { rewrite removelast_last. apply last_last. }
  rewrite El. exists x, nx, h, q, (removelast ((rev q ++ [h]) ++ [nx])). repeat (split; auto). apply removelast_last.
Qed.

Section Trace2U.
  Variables (t : rtree) (tr : list ev).
  Hypothesis Hw : NoDup (ids t).
  Hypothesis Htr : trace2 t = Some tr.

  (* everything the proofs below need, unfolded once *)
  Lemma trace2_unfold_full : exists up op bop l0 y z fw bw,
    update_path t = Some up /\ NoDup up /\ (forall x, In x up <-> In x (ids t)) /\ good_paths t up op /\
    back_orth_paths t (rev up) = Some bop /\ up = l0 ++ [y; z] /\ adjacent t y z /\ nth_error op (length l0) = Some [z] /\
    concat_opt (map (t2_forward up op) (seq 0 (length up - 1))) = Some fw /\
    concat_opt (map (t2_backward (rev up) bop) (seq 1 (length up - 2))) = Some bw /\
    tr = fw ++ ([AssertCentre z; Site z 2%Z] ++ link z y 1%Z) ++ bw ++ [AssertCentre (nth 0 up 0); Site (nth 0 up 0) 1%Z].
  Proof.
    pose proof Htr as H.
    destruct (update_path_facts t Hw) as [up [Hu [Nu [Hi Hl]]]].
    destruct (orth_paths_good t up Hw Nu (fun x Hx => proj1 (Hi x) Hx)) as [op [Ho Hgp]].
    unfold trace2 in H. rewrite Hu, Ho in H. destruct (back_orth_paths t (rev up)) as [bop|] eqn:Eb; [|discriminate].
    destruct (trace2_of_inv _ _ _ _ H) as [z [b1 [a [fw [bw [Hz [Hb1 [Ha [Hfw [Hbw Etr]]]]]]]]]].
    assert (Hl2 : 2 <= length up).
    { assert (1 < length (rev up)) by (apply nth_error_Some; congruence). rewrite rev_length in H0. lia. }
    destruct (update_path_last_two t Hw) as [l0 [y [z' [Hu' Hadj]]]]. { rewrite <- Hl. exact Hl2. }
    rewrite Hu in Hu'. inversion Hu' as [Eup].
    assert (Lup : length up = length l0 + 2) by (rewrite Eup, app_length; simpl; lia).
    assert (Hy : nth_error up (length l0) = Some y).
    { rewrite Eup. rewrite nth_error_app2, Nat.sub_diag by lia. reflexivity. }
    assert (Hz' : nth_error up (S (length l0)) = Some z').
    { rewrite Eup. rewrite nth_error_app2 by lia. replace (S (length l0) - length l0) with 1 by lia. reflexivity. }
    assert (Ez : z = z').
    { rewrite Eup in Hz. replace (l0 ++ [y; z']) with ((l0 ++ [y]) ++ [z']) in Hz by (rewrite <- app_assoc; reflexivity).
      rewrite last_opt_snoc in Hz. congruence. }
    assert (Eb1 : b1 = y).
    { rewrite nth_error_rev' in Hb1 by lia. replace (length up - 2) with (length l0) in Hb1 by lia. congruence. }
    assert (Ea : a = nth 0 up 0).
    { destruct up as [|u0 up']; [simpl in Hl2; lia|]. simpl rev in Ha. rewrite last_opt_snoc in Ha. simpl. congruence. }
    subst z' b1 a.
    assert (Hopn : nth_error op (length l0) = Some [z]).
    { destruct Hgp as [_ Hg]. destruct (Hg (length l0) y z Hy Hz') as [nx [q [Hp [Hq _]]]].
      assert (Hne : y <> z) by (eapply NoDup_nth_neq; eauto).
      rewrite (path_adjacent t y z Hw Hadj Hne) in Hp. inversion Hp; subst. exact Hq. }
    exists up, op, bop, l0, y, z, fw, bw. repeat (split; [assumption|]). exact Etr.
  Qed.

  Theorem trace2_link_durations : forall p c, In (p, c) (edges t) -> edge_dur p c tr = (-2)%Z.
  Proof.
    intros p c He.
    destruct trace2_unfold_full as [up [op [bop [l0 [y [z [fw [bw [Hu [Nu [Hi [Hgp [Eb [Eup [Hadj [Hopn [Hfw [Hbw ->]]]]]]]]]]]]]]]]]].
    destruct (edge_facts_of_edge t up p c Hw Hu He) as [hb EF].
    assert (Hup : forall x, In x up -> In x (ids t)) by (intros x Hx; apply Hi; exact Hx).
    assert (Lup : length up = length l0 + 2) by (rewrite Eup, app_length; simpl; lia).
    assert (Hy : nth_error up (length l0) = Some y).
    { rewrite Eup. rewrite nth_error_app2, Nat.sub_diag by lia. reflexivity. }
    assert (Hz : nth_error up (S (length l0)) = Some z).
    { rewrite Eup. rewrite nth_error_app2 by lia. replace (S (length l0) - length l0) with 1 by lia. reflexivity. }
    set (g := pair_at (fun ab => if hb ab then (-1)%Z else 0%Z) up).
    rewrite !edge_dur_app.
    (* forward sweep *)
    rewrite (concat_opt_map_sum (edge_dur p c) (edge_dur_app p c) eq_refl _ g _ _ Hfw).
    2:{ intros i es Hin Hes. apply in_seq in Hin. destruct (t2_forward_inv _ _ _ _ Hes) as [n [pp [nx [q [Hn [Hq ->]]]]]].
        assert (Hb : exists b, nth_error up (S i) = Some b).
        { destruct (nth_error up (S i)) eqn:E; eauto. apply nth_error_None in E. lia. }
        destruct Hb as [b Hb]. unfold g, pair_at. rewrite Hn, Hb.
        rewrite <- (hop_at t up op p c hb i n b nx q Hup Hgp EF Hn Hb Hq).
        rewrite !edge_dur_app, link_edge_dur. destruct (moves_durs pp) as [_ [M _]]. rewrite M. reflexivity. }
    (* backward sweep *)
    rewrite (concat_opt_map_sum (edge_dur p c) (edge_dur_app p c) eq_refl _ (fun u => g (length up - 2 - u)) _ _ Hbw).
    2:{ intros u es Hin Hes. apply in_seq in Hin.
        destruct (t2_backward_explicit t up op bop u es Hw Nu Hi Hgp Eb) as [x [nx [h [q [pp [Hx [Hnx [Hq [Epp ->]]]]]]]]]; [lia|exact Hes|].
        unfold g, pair_at. rewrite Hnx, Hx.
        rewrite <- (hop_at t up op p c hb _ nx x h q Hup Hgp EF Hnx Hx Hq).
        rewrite !edge_dur_app, link_edge_dur, on_edge_sym. destruct (moves_durs pp) as [_ [M _]]. rewrite M. reflexivity. }
    rewrite (zsum_reindex g (length up - 2)).
    (* the turning point is the hop of the last pair *)
    assert (Emid0 : edge_dur p c [AssertCentre z; Site z 2%Z] = 0%Z) by reflexivity.
    rewrite Emid0.
    assert (Emid : edge_dur p c (link z y 1%Z) = g (length up - 2)).
    { rewrite link_edge_dur, on_edge_sym. unfold g, pair_at. replace (length up - 2) with (length l0) by lia.
      rewrite Hy, Hz. rewrite <- (hop_at t up op p c hb _ y z z [] Hup Hgp EF Hy Hz Hopn). reflexivity. }
    rewrite Emid.
    assert (Elast : edge_dur p c [AssertCentre (nth 0 up 0); Site (nth 0 up 0) 1%Z] = 0%Z) by reflexivity.
    rewrite Elast.
    assert (S1 : zsum (map g (seq 0 (length up - 1))) = (-1)%Z) by (apply (hop_sum t up p c hb); auto).
    pose proof S1 as S2. replace (length up - 1) with (S (length up - 2)) in S2 by lia. rewrite seq_S, map_app, zsum_app in S2.
    change (zsum (map g [0 + (length up - 2)])) with (Z.add (g (length up - 2)) 0%Z) in S2. lia.
  Qed.

  Theorem trace2_events_on_edges : events_on_edges t tr.
  Proof.
    destruct trace2_unfold_full as [up [op [bop [l0 [y [z [fw [bw [Hu [Nu [Hi [Hgp [Eb [Eup [Hadj [Hopn [Hfw [Hbw ->]]]]]]]]]]]]]]]]]].
    assert (Hup : forall x, In x up -> In x (ids t)) by (intros x Hx; apply Hi; exact Hx).
    assert (Lup : length up = length l0 + 2) by (rewrite Eup, app_length; simpl; lia).
    assert (Hmv : forall pp e, In e (moves pp) -> forall a b f, e = Link a b f \/ e = TwoSite a b f -> False).
    { intros pp e Hp a b f [->| ->]; apply moves_kind in Hp; exact Hp. }
    assert (Hlk : forall a0 b0 f0 e, In e (link a0 b0 f0) -> forall a b f, e = Link a b f \/ e = TwoSite a b f -> a = a0 /\ b = b0).
    { intros a0 b0 f0 e Hin a b f HH. simpl in Hin.
      destruct Hin as [<-|[<-|[<-|[<-|[<-|[]]]]]]; destruct HH as [HH|HH]; try discriminate; inversion HH; auto. }
    assert (Hsym : forall a b, adjacent t a b -> adjacent t b a) by (intros; apply adjacent_sym; auto).
    intros a b f Hab.
    assert (Hex : exists e, In e (fw ++ ([AssertCentre z; Site z 2%Z] ++ link z y 1%Z) ++ bw ++ [AssertCentre (nth 0 up 0); Site (nth 0 up 0) 1%Z]) /\
                  (e = Link a b f \/ e = TwoSite a b f)) by (destruct Hab; eauto).
    destruct Hex as [e [Hin HH]].
    apply in_app_or in Hin. destruct Hin as [Hin|Hin]; [|apply in_app_or in Hin; destruct Hin as [Hin|Hin]; [|apply in_app_or in Hin; destruct Hin as [Hin|Hin]]].
    - destruct (concat_opt_map_In _ _ _ _ Hfw Hin) as [i [es [Hi' [Hes Hine]]]]. apply in_seq in Hi'.
      destruct (t2_forward_inv _ _ _ _ Hes) as [n [pp [nx [q [Hn [Hq ->]]]]]].
      assert (Hb : exists b, nth_error up (S i) = Some b).
      { destruct (nth_error up (S i)) eqn:E; eauto. apply nth_error_None in E. lia. }
      destruct Hb as [b' Hb]. destruct Hgp as [_ Hg]. destruct (Hg i n b' Hn Hb) as [nx' [q' [_ [Hq' [Hch _]]]]].
      rewrite Hq in Hq'. inversion Hq'; subst nx' q'. simpl in Hch. destruct Hch as [Hadj' _].
      apply in_app_or in Hine. destruct Hine as [Hine|Hine]; [exfalso; eapply Hmv; eauto|].
      apply in_app_or in Hine. destruct Hine as [Hine|Hine].
      + simpl in Hine. destruct Hine as [<-|[<-|[]]]; destruct HH; discriminate.
      + destruct (Hlk _ _ _ _ Hine a b f HH) as [-> ->]. exact Hadj'.
    - apply in_app_or in Hin. destruct Hin as [Hin|Hin].
      + simpl in Hin. destruct Hin as [<-|[<-|[]]]; destruct HH; discriminate.
      + destruct (Hlk _ _ _ _ Hin a b f HH) as [-> ->]. apply Hsym. exact Hadj.
    - destruct (concat_opt_map_In _ _ _ _ Hbw Hin) as [u [es [Hu' [Hes Hine]]]]. apply in_seq in Hu'.
      destruct (t2_backward_explicit t up op bop u es Hw Nu Hi Hgp Eb) as [x [nx [h [q [pp [Hx [Hnx [Hq [Epp ->]]]]]]]]]; [lia|exact Hes|].
      destruct Hgp as [_ Hg]. destruct (Hg _ nx x Hnx Hx) as [nx' [q' [_ [Hq' [Hch _]]]]].
      rewrite Hq in Hq'. inversion Hq'; subst nx' q'. simpl in Hch. destruct Hch as [Hadj' _].
      apply in_app_or in Hine. destruct Hine as [Hine|Hine].
      + simpl in Hine. destruct Hine as [<-|[<-|[]]]; destruct HH; discriminate.
      + apply in_app_or in Hine. destruct Hine as [Hine|Hine]; [exfalso; eapply Hmv; eauto|].
        destruct (Hlk _ _ _ _ Hine a b f HH) as [-> ->]. apply Hsym. exact Hadj'.
    - simpl in Hin. destruct Hin as [<-|[<-|[]]]; destruct HH; discriminate.
  Qed.

  Theorem trace2_durations : durations_one t tr.
  Proof.
    split; [exact (trace2_site_durations t tr Hw Htr)|]. split; [exact trace2_link_durations | exact trace2_events_on_edges].
  Qed.
End Trace2U.

(* ================================================================================== *)
(* neighbours                                                                         *)
(* ================================================================================== *)
Lemma edges_antisym : forall t a b, NoDup (ids t) -> In (a, b) (edges t) -> In (b, a) (edges t) -> False.
Proof.
  intros t a b Hw H1 H2.
  assert (Ha : In a (ids t)) by (eapply edges_in_ids; eauto).
  rewrite <- (depths_keys t 0) in Ha. apply in_map_iff in Ha. destruct Ha as [[a' v] [Ea Hv]]. simpl in Ea. subst a'.
  pose proof (assoc_NoDup_In _ _ _ (depths_NoDup_keys t 0 Hw) Hv) as A1.
  pose proof (depth_edge t a b v Hw H1 A1) as A2. pose proof (depth_edge t b a (S v) Hw H2 A2) as A3.
  rewrite A1 in A3. inversion A3. lia.
Qed.

Lemma neighbours_adjacent : forall t x y, NoDup (ids t) -> (In y (neighbours t x) <-> adjacent t x y).
Proof.
  intros t x y Hw. unfold neighbours, adjacent. rewrite in_app_iff, (children_ids_edges t x y Hw). split.
  - intros [H|H]; [right|left; exact H]. destruct (parent_of x t) as [q|] eqn:E; simpl in H; [|contradiction].
    destruct H as [<-|[]]. apply parent_of_sound. exact E.
  - intros [H|H]; [right; exact H|left]. rewrite (parent_of_complete t y x Hw H). simpl. auto.
Qed.

Lemma neighbours_NoDup : forall t x, NoDup (ids t) -> NoDup (neighbours t x).
Proof.
  intros t x Hw. unfold neighbours. apply NoDup_app_intro.
  - destruct (parent_of x t); simpl; repeat constructor; simpl; tauto.
  - unfold children_ids. destruct (subtree x t) as [s|] eqn:Es; [|constructor].
    apply subtree_sound in Es. destruct Es as [_ Hsub]. pose proof (is_subtree_wf _ _ Hsub Hw) as Hws.
    destruct s as [j cs]. simpl. apply map_rid_NoDup. destruct (wf_inv _ _ Hws) as [_ [H _]]. exact H.
  - intros y H1 H2. destruct (parent_of x t) as [q|] eqn:E; simpl in H1; [|contradiction]. destruct H1 as [<-|[]].
    apply parent_of_sound in E. apply (children_ids_edges t x q Hw) in H2. eapply edges_antisym; eauto.
Qed.

(* ================================================================================== *)
(* the hop as a function of the pair; the degree count                                *)
(* ================================================================================== *)
Definition hopn (t : rtree) (ab : nat * nat) : nat :=
  match path_from_to t (fst ab) (snd ab) with Some (_ :: nx :: _) => nx | _ => fst ab end.

Definition b2z (b : bool) : Z := if b then 1%Z else 0%Z.

Lemma zsum_swap : forall {A B} (h : A -> B -> Z) la lb,
  zsum (map (fun a => zsum (map (fun b => h a b) lb)) la) = zsum (map (fun b => zsum (map (fun a => h a b) la)) lb).
Proof.
  intros A B h la lb. induction la as [|a la IH]; simpl.
  - symmetry. apply zsum_zero. auto.
  - rewrite IH. rewrite <- zsum_plus. reflexivity.
Qed.

Lemma zsum_ones : forall {A} (l : list A), zsum (map (fun _ => 1%Z) l) = Z.of_nat (length l).
Proof. intros A l. induction l as [|a l IH]; [reflexivity|]. rewrite map_cons, zsum_cons, IH. change (length (a :: l)) with (S (length l)). lia. Qed.

Lemma on_edge_sym2 : forall a b x y, on_edge a b x y = on_edge a b y x.
Proof. intros. unfold on_edge. apply orb_comm. Qed.

Lemma count_in_NoDup : forall (v : nat) l, NoDup l -> In v l -> zsum (map (fun y => b2z (Nat.eqb v y)) l) = 1%Z.
Proof.
  intros v l N Hv. pose proof (cntz_NoDup v l N Hv) as C. unfold cntz in C. rewrite <- C. apply zsum_ext.
  intros y _. unfold b2z. rewrite Nat.eqb_sym. reflexivity.
Qed.

Lemma count_notin : forall (v : nat) l, ~ In v l -> zsum (map (fun y => b2z (Nat.eqb v y)) l) = 0%Z.
Proof.
  intros v l Hv. apply zsum_zero. intros y Hy. unfold b2z. destruct (Nat.eqb v y) eqn:E; auto. apply Nat.eqb_eq in E. subst. contradiction.
Qed.

Section Degree.
  Variables (t : rtree) (up : list nat).
  Hypothesis Hw : NoDup (ids t).
  Hypothesis Hu : update_path t = Some up.
  Hypothesis Nu : NoDup up.
  Hypothesis Hi : forall x, In x up <-> In x (ids t).

  (* what a consecutive pair of the update path looks like *)
  Lemma consec_pair_facts : forall a b, In (a, b) (consec up) ->
    In a (ids t) /\ In b (ids t) /\ exists q, path_from_to t a b = Some (a :: hopn t (a, b) :: q) /\
      adjacent t a (hopn t (a, b)) /\ a <> hopn t (a, b).
  Proof.
    intros a b Hab. apply consec_In in Hab. destruct Hab as [i [Ha Hb]].
    assert (Hia : In a (ids t)) by (apply Hi; eapply nth_error_In; eauto).
    assert (Hib : In b (ids t)) by (apply Hi; eapply nth_error_In; eauto).
    assert (Hne : a <> b) by (eapply NoDup_nth_neq; eauto).
    destruct (path_two t a b Hw Hia Hib Hne) as [nx [q [Hp [Hch [_ Hnd]]]]].
    split; auto. split; auto. exists q. unfold hopn. simpl fst. simpl snd. rewrite Hp. split; auto. split.
    - simpl in Hch. tauto.
    - intro E. inversion Hnd as [|? ? Hn _]. apply Hn. left. symmetry. exact E.
  Qed.

  Lemma hop_sum_adjacent : forall x y, adjacent t x y ->
    zsum (map (fun ab => b2z (on_edge (fst ab) (hopn t ab) x y)) (consec up)) = 1%Z.
  Proof.
    intros x y Hxy.
    assert (K : forall p c, In (p, c) (edges t) ->
              zsum (map (fun ab => b2z (on_edge (fst ab) (hopn t ab) p c)) (consec up)) = 1%Z).
    { intros p c He. destruct (edge_facts_of_edge t up p c Hw Hu He) as [hb EF].
      rewrite (zsum_ext _ (fun ab => if hb ab then 1%Z else 0%Z)).
      - rewrite zsum_filter, (ef_count _ _ _ _ _ EF). reflexivity.
      - intros [a b] Hab. destruct (consec_pair_facts a b Hab) as [Ha [Hb [q [Hp _]]]]. simpl fst.
        rewrite (ef_hop _ _ _ _ _ EF a b _ q Ha Hb Hp). reflexivity. }
    destruct Hxy as [H|H]; [exact (K x y H)|].
    rewrite <- (K y x H). apply zsum_ext. intros ab _. rewrite on_edge_sym2. reflexivity.
  Qed.

  Theorem degree_count : forall x,
    zsum (map (fun ab => (b2z (Nat.eqb (fst ab) x) + b2z (Nat.eqb (hopn t ab) x))%Z) (consec up)) = Z.of_nat (degree t x).
  Proof.
    intros x. unfold degree. rewrite <- zsum_ones.
    rewrite (zsum_ext (fun _ : nat => 1%Z) (fun y => zsum (map (fun ab => b2z (on_edge (fst ab) (hopn t ab) x y)) (consec up)))).
    2:{ intros y Hy. symmetry. apply hop_sum_adjacent. apply neighbours_adjacent; auto. }
    rewrite (zsum_swap (fun y ab => b2z (on_edge (fst ab) (hopn t ab) x y))). symmetry. apply zsum_ext.
    intros [a b] Hab. destruct (consec_pair_facts a b Hab) as [_ [_ [q [_ [Hadj Hne]]]]]. simpl fst.
    set (nx := hopn t (a, b)) in *.
    pose proof (neighbours_NoDup t x Hw) as Nn.
    destruct (Nat.eqb a x) eqn:Ea; [apply Nat.eqb_eq in Ea; subst a|]; (destruct (Nat.eqb nx x) eqn:En; [apply Nat.eqb_eq in En|]).
    - congruence.
    - (* a = x: the neighbour is nx *)
      rewrite (zsum_ext _ (fun y => b2z (Nat.eqb nx y))).
      + rewrite count_in_NoDup; auto. apply neighbours_adjacent; auto.
      + intros y _. unfold on_edge. rewrite Nat.eqb_refl, En. simpl. rewrite andb_false_r, orb_false_r. reflexivity.
    - (* nx = x: the neighbour is a *)
      rewrite (zsum_ext _ (fun y => b2z (Nat.eqb a y))).
      + rewrite count_in_NoDup; auto. apply neighbours_adjacent; auto. apply adjacent_sym. rewrite <- En. exact Hadj.
      + intros y _. unfold on_edge. rewrite Ea, En, Nat.eqb_refl. simpl. rewrite andb_true_r. reflexivity.
    - apply zsum_zero. intros y _. unfold on_edge. rewrite Ea, En. simpl. rewrite andb_false_r. reflexivity.
  Qed.
End Degree.

(* ================================================================================== *)
(* second-order two-site                                                              *)
(* ================================================================================== *)
(* the backward update u acts on the pair (hop(n-u), up[n-u]) *)
Lemma t2s_backward_explicit : forall up op u es, length op = length up - 1 -> 1 <= u <= length up - 2 ->
  t2s_backward (rev up) (back_orth_paths2 op) u = Some es ->
  exists nx h q pp, nth_error up (length up - 2 - u) = Some nx /\ nth_error op (length up - 2 - u) = Some (h :: q) /\
    pp = rev q ++ [h] /\ es = moves pp ++ [SiteBack h 1%Z] ++ two h nx 1%Z.
Proof.
  intros up op u es Hlen Hu Hes. set (m := length up - 2) in *.
  destruct (t2s_backward_inv _ _ _ _ Hes) as [p [nx [tg [Hp [Hnx [Htg ->]]]]]].
  rewrite nth_error_rev' in Hnx by lia. replace (length up - S (u + 1)) with (m - u) in Hnx by (unfold m; lia).
  unfold back_orth_paths2 in Hp. rewrite nth_error_map in Hp. rewrite nth_error_rev' in Hp by lia.
  replace (length op - S u) with (m - u) in Hp by (unfold m; lia).
  destruct (nth_error op (m - u)) as [o|] eqn:Eo; [|discriminate]. simpl in Hp. inversion Hp; subst p.
  destruct o as [|h q]; [discriminate|]. simpl rev in Htg. rewrite last_opt_snoc in Htg. inversion Htg; subst tg.
  exists nx, h, q, (rev q ++ [h]). auto.
Qed.

Lemma consec_firsts : forall l (y z : nat), map fst (consec (l ++ [y; z])) = l ++ [y].
Proof.
  induction l as [|a l IH]; intros y z; [reflexivity|]. destruct l as [|b l]; [reflexivity|].
  change (consec ((a :: b :: l) ++ [y; z])) with ((a, b) :: consec ((b :: l) ++ [y; z])). rewrite map_cons, IH. reflexivity.
Qed.

Section Trace2sU.
  Variables (t : rtree) (tr : list ev).
  Hypothesis Hw : NoDup (ids t).
  Hypothesis Htr : trace2s t = Some tr.

  Lemma trace2s_unfold_full : exists up op l0 y z fw bw,
    update_path t = Some up /\ NoDup up /\ (forall x, In x up <-> In x (ids t)) /\ good_paths t up op /\
    up = l0 ++ [y; z] /\ adjacent t y z /\ nth_error op (length l0) = Some [z] /\
    concat_opt (map (t2s_forward up op) (seq 0 (length up - 2))) = Some fw /\
    concat_opt (map (t2s_backward (rev up) (back_orth_paths2 op)) (seq 1 (length up - 2))) = Some bw /\
    tr = fw ++ (two y z 1%Z ++ two z y 1%Z) ++ bw.
  Proof.
    pose proof Htr as H.
    destruct (update_path_facts t Hw) as [up [Hu [Nu [Hi Hl]]]].
    destruct (orth_paths_good t up Hw Nu (fun x Hx => proj1 (Hi x) Hx)) as [op [Ho Hgp]].
    unfold trace2s in H. rewrite Hu, Ho in H.
    destruct (trace2s_of_inv _ _ _ H) as [y' [z' [fw [bw [Hy' [Hz' [Hfw [Hbw Etr]]]]]]]].
    assert (Hl2 : 2 <= length up).
    { assert (1 < length (rev up)) by (apply nth_error_Some; congruence). rewrite rev_length in H0. lia. }
    destruct (update_path_last_two t Hw) as [l0 [y [z [Hu' Hadj]]]]. { rewrite <- Hl. exact Hl2. }
    rewrite Hu in Hu'. inversion Hu' as [Eup].
    assert (Lup : length up = length l0 + 2) by (rewrite Eup, app_length; simpl; lia).
    assert (Hy : nth_error up (length l0) = Some y).
    { rewrite Eup. rewrite nth_error_app2, Nat.sub_diag by lia. reflexivity. }
    assert (Hz : nth_error up (S (length l0)) = Some z).
    { rewrite Eup. rewrite nth_error_app2 by lia. replace (S (length l0) - length l0) with 1 by lia. reflexivity. }
    assert (Ey : y' = y).
    { rewrite nth_error_rev' in Hy' by lia. replace (length up - 2) with (length l0) in Hy' by lia. congruence. }
    assert (Ez : z' = z).
    { rewrite nth_error_rev' in Hz' by lia. replace (length up - 1) with (S (length l0)) in Hz' by lia. congruence. }
    subst y' z'.
    assert (Hopn : nth_error op (length l0) = Some [z]).
    { destruct Hgp as [_ Hg]. destruct (Hg (length l0) y z Hy Hz) as [nx [q [Hp [Hq _]]]].
      assert (Hne : y <> z) by (eapply NoDup_nth_neq; eauto).
      rewrite (path_adjacent t y z Hw Hadj Hne) in Hp. inversion Hp; subst. exact Hq. }
    exists up, op, l0, y, z, fw, bw. repeat (split; [assumption|]). exact Etr.
  Qed.

  Theorem trace2s_two_site_durations : forall p c, In (p, c) (edges t) -> edge_dur p c tr = 2%Z.
  Proof.
    intros p c He.
    destruct trace2s_unfold_full as [up [op [l0 [y [z [fw [bw [Hu [Nu [Hi [Hgp [Eup [Hadj [Hopn [Hfw [Hbw ->]]]]]]]]]]]]]]]].
    destruct (edge_facts_of_edge t up p c Hw Hu He) as [hb EF].
    assert (Hup : forall x, In x up -> In x (ids t)) by (intros x Hx; apply Hi; exact Hx).
    assert (Lup : length up = length l0 + 2) by (rewrite Eup, app_length; simpl; lia).
    assert (Hy : nth_error up (length l0) = Some y).
    { rewrite Eup. rewrite nth_error_app2, Nat.sub_diag by lia. reflexivity. }
    assert (Hz : nth_error up (S (length l0)) = Some z).
    { rewrite Eup. rewrite nth_error_app2 by lia. replace (S (length l0) - length l0) with 1 by lia. reflexivity. }
    set (g := pair_at (fun ab => if hb ab then 1%Z else 0%Z) up).
    rewrite !edge_dur_app.
    rewrite (concat_opt_map_sum (edge_dur p c) (edge_dur_app p c) eq_refl _ g _ _ Hfw).
    2:{ intros i es Hin Hes. apply in_seq in Hin. destruct (t2s_forward_inv _ _ _ _ Hes) as [n [pp [nx [q [Hn [Hq ->]]]]]].
        assert (Hb : exists b, nth_error up (S i) = Some b).
        { destruct (nth_error up (S i)) eqn:E; eauto. apply nth_error_None in E. lia. }
        destruct Hb as [b Hb]. unfold g, pair_at. rewrite Hn, Hb.
        rewrite <- (hop_at t up op p c hb i n b nx q Hup Hgp EF Hn Hb Hq).
        rewrite !edge_dur_app, two_edge_dur. destruct (moves_durs pp) as [_ [M _]]. rewrite M.
        unfold edge_dur. simpl. destruct (on_edge n nx p c); reflexivity. }
    rewrite (concat_opt_map_sum (edge_dur p c) (edge_dur_app p c) eq_refl _ (fun u => g (length up - 2 - u)) _ _ Hbw).
    2:{ intros u es Hin Hes. apply in_seq in Hin.
        destruct (t2s_backward_explicit up op u es (proj1 Hgp)) as [nx [h [q [pp [Hnx [Hq [Epp ->]]]]]]]; [lia|exact Hes|].
        assert (Hx : exists x, nth_error up (S (length up - 2 - u)) = Some x).
        { destruct (nth_error up (S (length up - 2 - u))) eqn:E; eauto. apply nth_error_None in E. lia. }
        destruct Hx as [x Hx]. unfold g, pair_at. rewrite Hnx, Hx.
        rewrite <- (hop_at t up op p c hb _ nx x h q Hup Hgp EF Hnx Hx Hq).
        rewrite !edge_dur_app, two_edge_dur, on_edge_sym. destruct (moves_durs pp) as [_ [M _]]. rewrite M.
        unfold edge_dur. simpl. destruct (on_edge nx h p c); reflexivity. }
    rewrite (zsum_reindex g (length up - 2)).
    assert (Emid : (edge_dur p c (two y z 1%Z) + edge_dur p c (two z y 1%Z))%Z = (2 * g (length up - 2)%nat)%Z).
    { rewrite !two_edge_dur, (on_edge_sym z y). unfold g, pair_at. replace (length up - 2) with (length l0) by lia.
      rewrite Hy, Hz. rewrite <- (hop_at t up op p c hb _ y z z [] Hup Hgp EF Hy Hz Hopn). destruct (on_edge y z p c); reflexivity. }
    rewrite Emid.
    assert (S1 : zsum (map g (seq 0 (length up - 1))) = 1%Z) by (apply (hop_sum t up p c hb); auto).
    replace (length up - 1) with (S (length up - 2)) in S1 by lia. rewrite seq_S, map_app, zsum_app in S1.
    change (zsum (map g [0 + (length up - 2)])) with (Z.add (g (length up - 2)) 0%Z) in S1. lia.
  Qed.

  (* every node is evolved backward once per incident edge but one *)
  Theorem trace2s_site_durations : forall x, In x (ids t) -> node_dur x tr = (2 - 2 * Z.of_nat (degree t x))%Z.
  Proof.
    intros x Hxin.
    destruct trace2s_unfold_full as [up [op [l0 [y [z [fw [bw [Hu [Nu [Hi [Hgp [Eup [Hadj [Hopn [Hfw [Hbw ->]]]]]]]]]]]]]]]].
    assert (Hup : forall x, In x up -> In x (ids t)) by (intros x' Hx; apply Hi; exact Hx).
    assert (Lup : length up = length l0 + 2) by (rewrite Eup, app_length; simpl; lia).
    assert (Hy : nth_error up (length l0) = Some y).
    { rewrite Eup. rewrite nth_error_app2, Nat.sub_diag by lia. reflexivity. }
    assert (Hz : nth_error up (S (length l0)) = Some z).
    { rewrite Eup. rewrite nth_error_app2 by lia. replace (S (length l0) - length l0) with 1 by lia. reflexivity. }
    (* the hop at position i is the head of op[i] *)
    assert (Hhop : forall i a b nx q, nth_error up i = Some a -> nth_error up (S i) = Some b -> nth_error op i = Some (nx :: q) ->
              hopn t (a, b) = nx).
    { intros i a b nx q Ha Hb Hq. destruct Hgp as [_ Hg]. destruct (Hg i a b Ha Hb) as [nx' [q' [Hp [Hq' _]]]].
      rewrite Hq in Hq'. inversion Hq'; subst nx' q'. unfold hopn. simpl. rewrite Hp. reflexivity. }
    set (g := pair_at (fun ab => (- b2z (Nat.eqb (hopn t ab) x))%Z) up).
    rewrite !node_dur_app.
    rewrite (concat_opt_map_sum (node_dur x) (node_dur_app x) eq_refl _ g _ _ Hfw).
    2:{ intros i es Hin Hes. apply in_seq in Hin. destruct (t2s_forward_inv _ _ _ _ Hes) as [n [pp [nx [q [Hn [Hq ->]]]]]].
        assert (Hb : exists b, nth_error up (S i) = Some b).
        { destruct (nth_error up (S i)) eqn:E; eauto. apply nth_error_None in E. lia. }
        destruct Hb as [b Hb]. unfold g, pair_at. rewrite Hn, Hb. rewrite (Hhop i n b nx q Hn Hb Hq).
        rewrite !node_dur_app. destruct (moves_durs pp) as [M _]. rewrite M.
        unfold node_dur, b2z. simpl. destruct (Nat.eqb nx x); reflexivity. }
    rewrite (concat_opt_map_sum (node_dur x) (node_dur_app x) eq_refl _ (fun u => g (length up - 2 - u)) _ _ Hbw).
    2:{ intros u es Hin Hes. apply in_seq in Hin.
        destruct (t2s_backward_explicit up op u es (proj1 Hgp)) as [nx [h [q [pp [Hnx [Hq [Epp ->]]]]]]]; [lia|exact Hes|].
        assert (Hx : exists x, nth_error up (S (length up - 2 - u)) = Some x).
        { destruct (nth_error up (S (length up - 2 - u))) eqn:E; eauto. apply nth_error_None in E. lia. }
        destruct Hx as [x' Hx]. unfold g, pair_at. rewrite Hnx, Hx. rewrite (Hhop _ nx x' h q Hnx Hx Hq).
        rewrite !node_dur_app. destruct (moves_durs pp) as [M _]. rewrite M.
        unfold node_dur, b2z. simpl. destruct (Nat.eqb h x); reflexivity. }
    rewrite (zsum_reindex g (length up - 2)).
    assert (Emid : (node_dur x (two y z 1%Z) + node_dur x (two z y 1%Z))%Z = 0%Z) by reflexivity.
    rewrite Emid.
    (* the degree count *)
    pose proof (degree_count t up Hw Hu Nu Hi x) as D. rewrite zsum_plus in D.
    (* first components: x occurs once in up, and not as a first component iff it is the last entry *)
    assert (F1 : zsum (map (fun ab : nat * nat => b2z (Nat.eqb (fst ab) x)) (consec up)) = (1 - b2z (Nat.eqb z x))%Z).
    { assert (Ef : map fst (consec up) = l0 ++ [y]).
      { rewrite Eup. apply consec_firsts. }
      assert (C : cntz x up = 1%Z) by (apply cntz_NoDup; auto; apply Hi; auto).
      rewrite Eup in C. replace (l0 ++ [y; z]) with ((l0 ++ [y]) ++ [z]) in C by (rewrite <- app_assoc; reflexivity).
      rewrite cntz_app in C. rewrite <- Ef in C. unfold cntz in C. rewrite map_map in C.
      unfold b2z. simpl in C. lia. }
    (* second components: positions 0..n, the last hop is z *)
    assert (F2 : zsum (map (fun ab : nat * nat => b2z (Nat.eqb (hopn t ab) x)) (consec up)) =
                 (- zsum (map g (seq 0 (length up - 2))) + b2z (Nat.eqb z x))%Z).
    { rewrite <- (seq_consec_sum (fun ab => b2z (Nat.eqb (hopn t ab) x)) up (length up - 1)) by lia.
      replace (length up - 1) with (S (length up - 2)) by lia. rewrite seq_S, map_app, zsum_app.
      change (zsum (map (pair_at (fun ab => b2z (Nat.eqb (hopn t ab) x)) up) [0 + (length up - 2)]))
        with (Z.add (pair_at (fun ab => b2z (Nat.eqb (hopn t ab) x)) up (length up - 2)) 0%Z).
      assert (El : pair_at (fun ab => b2z (Nat.eqb (hopn t ab) x)) up (length up - 2) = b2z (Nat.eqb z x)).
      { unfold pair_at. replace (length up - 2) with (length l0) by lia. rewrite Hy, Hz.
        rewrite (Hhop _ y z z [] Hy Hz Hopn). reflexivity. }
      rewrite El.
      assert (Eg : zsum (map g (seq 0 (length up - 2))) =
                   (- zsum (map (pair_at (fun ab => b2z (Nat.eqb (hopn t ab) x)) up) (seq 0 (length up - 2))))%Z).
      { rewrite <- (Z.mul_1_l (zsum (map (pair_at _ up) _))), <- Z.mul_opp_l, <- zsum_scale. apply zsum_ext.
        intros i _. unfold g, pair_at. destruct (nth_error up i), (nth_error up (S i)); lia. }
      rewrite Eg. lia. }
    rewrite F1, F2 in D. lia.
  Qed.

  Theorem trace2s_events_on_edges : events_on_edges t tr.
  Proof.
    destruct trace2s_unfold_full as [up [op [l0 [y [z [fw [bw [Hu [Nu [Hi [Hgp [Eup [Hadj [Hopn [Hfw [Hbw ->]]]]]]]]]]]]]]]].
    assert (Lup : length up = length l0 + 2) by (rewrite Eup, app_length; simpl; lia).
    assert (Hmv : forall pp e, In e (moves pp) -> forall a b f, e = Link a b f \/ e = TwoSite a b f -> False).
    { intros pp e Hp a b f [->| ->]; apply moves_kind in Hp; exact Hp. }
    assert (Htw : forall a0 b0 f0 e, In e (two a0 b0 f0) -> forall a b f, e = Link a b f \/ e = TwoSite a b f -> a = a0 /\ b = b0).
    { intros a0 b0 f0 e Hin a b f HH. simpl in Hin.
      destruct Hin as [<-|[<-|[]]]; destruct HH as [HH|HH]; try discriminate; inversion HH; auto. }
    assert (Hsym : forall a b, adjacent t a b -> adjacent t b a) by (intros; apply adjacent_sym; auto).
    intros a b f Hab.
    assert (Hex : exists e, In e (fw ++ (two y z 1%Z ++ two z y 1%Z) ++ bw) /\
                  (e = Link a b f \/ e = TwoSite a b f)) by (destruct Hab; eauto).
    destruct Hex as [e [Hin HH]].
    apply in_app_or in Hin. destruct Hin as [Hin|Hin]; [|apply in_app_or in Hin; destruct Hin as [Hin|Hin]].
    - destruct (concat_opt_map_In _ _ _ _ Hfw Hin) as [i [es [Hi' [Hes Hine]]]]. apply in_seq in Hi'.
      destruct (t2s_forward_inv _ _ _ _ Hes) as [n [pp [nx [q [Hn [Hq ->]]]]]].
      assert (Hb : exists b, nth_error up (S i) = Some b).
      { destruct (nth_error up (S i)) eqn:E; eauto. apply nth_error_None in E. lia. }
      destruct Hb as [b' Hb]. destruct Hgp as [_ Hg]. destruct (Hg i n b' Hn Hb) as [nx' [q' [_ [Hq' [Hch _]]]]].
      rewrite Hq in Hq'. inversion Hq'; subst nx' q'. simpl in Hch. destruct Hch as [Hadj' _].
      apply in_app_or in Hine. destruct Hine as [Hine|Hine]; [exfalso; eapply Hmv; eauto|].
      apply in_app_or in Hine. destruct Hine as [Hine|Hine].
      + simpl in Hine. destruct Hine as [<-|[]]; destruct HH; discriminate.
      + apply in_app_or in Hine. destruct Hine as [Hine|Hine].
        * destruct (Htw _ _ _ _ Hine a b f HH) as [-> ->]. exact Hadj'.
        * simpl in Hine. destruct Hine as [<-|[]]; destruct HH; discriminate.
    - apply in_app_or in Hin. destruct Hin as [Hin|Hin].
      + destruct (Htw _ _ _ _ Hin a b f HH) as [-> ->]. exact Hadj.
      + destruct (Htw _ _ _ _ Hin a b f HH) as [-> ->]. apply Hsym. exact Hadj.
    - destruct (concat_opt_map_In _ _ _ _ Hbw Hin) as [u [es [Hu' [Hes Hine]]]]. apply in_seq in Hu'.
      destruct (t2s_backward_explicit up op u es (proj1 Hgp)) as [nx [h [q [pp [Hnx [Hq [Epp ->]]]]]]]; [lia|exact Hes|].
      assert (Hx : exists x, nth_error up (S (length up - 2 - u)) = Some x).
      { destruct (nth_error up (S (length up - 2 - u))) eqn:E; eauto. apply nth_error_None in E. lia. }
      destruct Hx as [x Hx].
      destruct Hgp as [_ Hg]. destruct (Hg _ nx x Hnx Hx) as [nx' [q' [_ [Hq' [Hch _]]]]].
      rewrite Hq in Hq'. inversion Hq'; subst nx' q'. simpl in Hch. destruct Hch as [Hadj' _].
      apply in_app_or in Hine. destruct Hine as [Hine|Hine]; [exfalso; eapply Hmv; eauto|].
      apply in_app_or in Hine. destruct Hine as [Hine|Hine].
      + simpl in Hine. destruct Hine as [<-|[]]; destruct HH; discriminate.
      + destruct (Htw _ _ _ _ Hine a b f HH) as [-> ->]. apply Hsym. exact Hadj'.
  Qed.

  Theorem trace2s_durations : durations_two t tr.
  Proof.
    split; [exact trace2s_site_durations|]. split; [exact trace2s_two_site_durations | exact trace2s_events_on_edges].
  Qed.
End Trace2sU.

(* ================================================================================== *)
(* the universal form of durations_bounded_10                                         *)
(* ================================================================================== *)
Theorem durations_universal : forall t, NoDup (ids t) -> 2 <= size t ->
  (exists tr, trace1 t = Some tr /\ durations_one t tr) /\
  (exists tr, trace2 t = Some tr /\ durations_one t tr) /\
  (exists tr, trace2s t = Some tr /\ durations_two t tr).
Proof.
  intros t Hw Hs. split; [|split].
  - destruct (trace1_defined t Hw) as [tr Htr]. exists tr. split; auto. exact (trace1_durations t t tr Hw Htr).
  - destruct (trace2_defined t Hw Hs) as [tr Htr]. exists tr. split; auto. exact (trace2_durations t tr Hw Htr).
  - destruct (trace2s_defined t Hw Hs) as [tr Htr]. exists tr. split; auto. exact (trace2s_durations t tr Hw Htr).
Qed.
