(* [ext-C06R] From local updates to whole time steps: the semantics of an event trace of Sched/TDVP.v over an
   ABSTRACT state, used to lift the local statements (one update is undone by the same update with the opposite
   duration; one update conserves a quantity; with saturated bonds one update is the exact flow) to the literal
   traces trace1 / trace2 / trace2s of the three classes.  Definitions only; proofs in TDVPGlobalProofs.v.

   What "a step with -H" is in the model.  Every time_evolve call of the classes computes exp(-i K s dt/2) with
   K the effective Hamiltonian of the updated object (a node, or the link tensor on an edge) and s the SIGNED
   factor that `obj_of` records (Site n f: +f, SiteBack n f: -f, Link a b f: -f, TwoSite a b f: +f).  K is
   linear in H, so the same object with H replaced by -H (what the harness does: algo.hamiltonian := TTNO(-H),
   cache rebuilt, same update path and orthogonalisation paths, which are functions of the INITIAL tree only)
   performs literally the same event sequence with every signed factor negated: `neg_trace tr`.  The structural
   events (Split / Absorb / Move = QR + contraction, Cache, Reinit, assertions) do not depend on H. *)
From Coq Require Import List Arith Bool ZArith.
From PTN Require Import Tree.RTree Sched.TDVP.
Import ListNotations.

(* ---- negation of durations ------------------------------------------------------------------------------- *)
Definition neg_ev (e : ev) : ev :=
  match e with
  | Site n f => Site n (- f)%Z
  | SiteBack n f => SiteBack n (- f)%Z
  | Link a b f => Link a b (- f)%Z
  | TwoSite a b f => TwoSite a b (- f)%Z
  | _ => e
  end.

Definition neg_trace (tr : list ev) : list ev := map neg_ev tr.

Definition neg_obj (p : obj * Z) : obj * Z := (fst p, (- snd p)%Z).

(* ---- running a trace over an abstract state ---------------------------------------------------------------- *)
Section Semantics.
  Variable X : Type.

  (* the action of one timed update: (object, signed factor in half units of dt) *)
  Variable act : obj * Z -> X -> X.

  Definition run_objs (l : list (obj * Z)) (x : X) : X := fold_left (fun y o => act o y) l x.

  (* the action of one literal event of the trace *)
  Variable actE : ev -> X -> X.

  Definition run_trace (tr : list ev) (x : X) : X := fold_left (fun y e => actE e y) tr x.

  (* k consecutive steps with the same trace (the traces are functions of the initial tree) *)
  Fixpoint run_steps (k : nat) (tr : list ev) (x : X) : X :=
    match k with
    | 0 => x
    | S k' => run_steps k' tr (run_trace tr x)
    end.
End Semantics.

(* the contract tying the two levels: an event acts on the abstract state through its (object, signed factor) only;
   events that carry no time evolution (obj_of e = []) leave the abstract state unchanged.  For X = the represented
   global vector this is: QR + contraction of R into the neighbour, centre moves, cache construction and assertions do
   not change the represented state (C03: gauge moves), and a site / link / two-site update is determined by the
   object it acts on and its signed duration. *)
Definition factors_through {X : Type} (act : obj * Z -> X -> X) (actE : ev -> X -> X) : Prop :=
  forall e x, actE e x = run_objs X act (obj_of e) x.

(* ---- a small concrete, non-commutative model used in the Examples: X = Z x Z, node updates are shears (node 0:
        upper, every other node: lower), edge updates translations; the update with -f undoes the update with f ---- *)
Definition shear_act (p : obj * Z) (x : Z * Z) : Z * Z :=
  match fst p with
  | ONode 0 => (fst x + snd p * snd x, snd x)%Z
  | ONode _ => (fst x, snd x + snd p * fst x)%Z
  | OEdge _ _ => (fst x + snd p, snd x)%Z
  end.

Definition shear_actE (e : ev) (x : Z * Z) : Z * Z := run_objs (Z * Z) shear_act (obj_of e) x.

(* ---- a second concrete model for the Examples of the conservation theorems: 1 x 1 complex matrices over the Gaussian
        integers (every shape is Z[i]), adjoint = conjugation; every timed event multiplies the state by the unit i
        (unitary, commutes with everything), every other event is the identity ------------------------------------ *)
Definition gM (a b : nat) : Type := (Z * Z)%type.
Definition gmul (a b c : nat) (x : gM a b) (y : gM b c) : gM a c :=
  (fst x * fst y - snd x * snd y, fst x * snd y + snd x * fst y)%Z.
Definition gadj (a b : nat) (x : gM a b) : gM b a := (fst x, - snd x)%Z.
Definition gone (n : nat) : gM n n := (1, 0)%Z.
Definition gU (e : ev) : gM 1 1 := match obj_of e with [] => (1, 0)%Z | _ => (0, 1)%Z end.
Definition gactE (e : ev) (x : gM 1 1) : gM 1 1 := gmul 1 1 1 (gU e) x.
