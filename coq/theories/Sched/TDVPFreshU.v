(* Universal version (every tree with unique identifiers) of the cache_fresh clause of
   C05/C06 that Sched/TDVPFresh.v only checks on the finite enumeration: the executable
   schedule checker `run` of Sched/TDVP.v accepts the constructor's cache initialisation
   followed by two consecutive time steps, every step ending with the centre on
   update_path[0].
   Invariant (`inv`): no link tensor is pending and every block (n, m) that points towards
   the centre is stamped with the current versions of everything behind n.  Proofs only. *)
From Coq Require Import List Arith Bool ZArith Lia Permutation.
From PTN Require Import Tree.RTree Tree.RTreeProofs Tree.Nav Tree.NavProofs Tree.UpdatePath
     Tree.UpdatePathProofs Tree.CachePath Tree.CachePathProofs Tree.Enum Tree.Crossings Tree.EdgeBlock Tree.Jumps
     Sched.TDVP Sched.TDVPProofs Sched.TDVPMore Sched.TDVPUniversal.
Import ListNotations.

(* ================================================================================== *)
(* the two sides of an edge                                                           *)
(* ================================================================================== *)
Lemma same_edge_swap : forall x y s, same_edge (x, y) s = same_edge (y, x) s.
Proof. intros x y [a b]. unfold same_edge. simpl. rewrite orb_comm, (andb_comm (Nat.eqb x b)), (andb_comm (Nat.eqb x a)). reflexivity. Qed.

Lemma same_edge_hd : forall n m nx, same_edge (n, m) (n, nx) = true <-> nx = m.
Proof.
  intros n m nx. unfold same_edge. simpl. rewrite Nat.eqb_refl. simpl. split.
  - intros E. apply orb_true_iff in E. destruct E as [E|E].
    + apply Nat.eqb_eq in E. auto.
    + apply andb_true_iff in E. destruct E as [E1 E2]. apply Nat.eqb_eq in E1, E2. congruence.
  - intros ->. rewrite Nat.eqb_refl. reflexivity.
Qed.

Lemma same_edge_hd2 : forall n m nx, same_edge (m, n) (n, nx) = true <-> nx = m.
Proof. intros n m nx. rewrite same_edge_swap. apply same_edge_hd. Qed.

Lemma adjacent_neq : forall t a b, NoDup (ids t) -> adjacent t a b -> a <> b.
Proof. intros t a b Hw [H|H] E; subst; eapply edges_antisym; eauto. Qed.

(* g x = true: x is on n's side of the edge {n, m} *)
Record side_facts (t : rtree) (n m : nat) (g : nat -> bool) : Prop := {
  sd_behind : forall x, In x (ids t) -> (In x (behind t n m) <-> g x = true);
  sd_n : g n = true;
  sd_m : g m = false;
  sd_adj : forall a b, adjacent t a b -> xorb (g a) (g b) = same_edge (n, m) (a, b);
  sd_hop : forall b nx q, In b (ids t) -> path_from_to t n b = Some (n :: nx :: q) -> (nx = m <-> g b = false) }.

Lemma side_exists : forall t n m, NoDup (ids t) -> adjacent t n m -> exists g, side_facts t n m g.
Proof.
  intros t n m Hw Hadj.
  assert (Hn : In n (ids t)) by (destruct Hadj as [H|H]; apply edges_in_ids in H; tauto).
  destruct Hadj as [He|He].
  - (* n is the parent of m: n's side is the complement of the subtree of m *)
    pose proof He as He'. apply edges_spec in He'. destruct He' as [sp [Hsp [Ha Hb]]].
    apply in_map_iff in Hb. destruct Hb as [s [Hb Hs]]. subst n m.
    pose proof (cut_s_sub t sp s Hsp Hs) as Hst. pose proof (subtree_complete t s Hw Hst) as Hsub.
    exists (fun x => negb (inb (ids s) x)). constructor.
    + intros x Hx. rewrite (behind_parent_side t (rid sp) (rid s) s Hw He Hsub x). rewrite negb_true_iff, inb_false. tauto.
    + rewrite (cut_f_p t Hw sp s Hsp Hs). reflexivity.
    + rewrite (cut_f_c s). reflexivity.
    + intros a b Hab. rewrite (cut_adjacent t Hw sp s Hsp Hs a b Hab). destruct (inb (ids s) a), (inb (ids s) b); reflexivity.
    + intros b nx q Hb Hp.
      pose proof (hop_on_edge t sp s (rid sp) b nx q Hw Hsp Hs Hn Hb Hp) as H. rewrite Nat.eqb_refl in H.
      rewrite (cut_f_p t Hw sp s Hsp Hs) in H. rewrite <- same_edge_hd, H.
      destruct (inb (ids s) b); cbn [orb andb xorb negb]; split; congruence.
  - (* m is the parent of n: n's side is the subtree of n *)
    pose proof He as He'. apply edges_spec in He'. destruct He' as [sp [Hsp [Ha Hb]]].
    apply in_map_iff in Hb. destruct Hb as [s [Hb Hs]]. subst n m.
    pose proof (cut_s_sub t sp s Hsp Hs) as Hst. pose proof (subtree_complete t s Hw Hst) as Hsub.
    exists (inb (ids s)). constructor.
    + intros x Hx. rewrite (behind_child_side t (rid sp) (rid s) s Hw He Hsub). rewrite inb_true. tauto.
    + apply cut_f_c.
    + apply (cut_f_p t Hw sp s Hsp Hs).
    + intros a b Hab. rewrite same_edge_swap. rewrite (cut_adjacent t Hw sp s Hsp Hs a b Hab). reflexivity.
    + intros b nx q Hb Hp.
      pose proof (hop_on_edge t sp s (rid s) b nx q Hw Hsp Hs Hn Hb Hp) as H. rewrite Nat.eqb_refl, orb_true_r in H.
      rewrite (cut_f_c s) in H. rewrite <- same_edge_hd2, H.
      destruct (inb (ids s) b); cbn [orb andb xorb negb]; split; congruence.
Qed.

Lemma adjacent_in : forall t a b, adjacent t a b -> In a (ids t) /\ In b (ids t).
Proof. intros t a b [H|H]; apply edges_in_ids in H; tauto. Qed.

Lemma behind_self : forall t n m, NoDup (ids t) -> adjacent t n m -> In n (behind t n m).
Proof.
  intros t n m Hw H. destruct (side_exists t n m Hw H) as [g G]. apply (sd_behind _ _ _ _ G); [apply (adjacent_in t n m H)|apply (sd_n _ _ _ _ G)].
Qed.

Lemma behind_other : forall t n m, NoDup (ids t) -> adjacent t n m -> ~ In m (behind t n m).
Proof.
  intros t n m Hw H Hi. destruct (side_exists t n m Hw H) as [g G]. apply (sd_behind _ _ _ _ G) in Hi; [|apply (adjacent_in t n m H)].
  rewrite (sd_m _ _ _ _ G) in Hi. discriminate.
Qed.

(* two adjacent nodes are on the same side of every other edge *)
Lemma behind_same_side : forall t n m a b, NoDup (ids t) -> adjacent t n m -> adjacent t a b ->
  same_edge (n, m) (a, b) = false -> (In a (behind t n m) <-> In b (behind t n m)).
Proof.
  intros t n m a b Hw H Hab Hse. destruct (side_exists t n m Hw H) as [g G].
  destruct (adjacent_in t a b Hab) as [Ha Hb].
  rewrite (sd_behind _ _ _ _ G a Ha), (sd_behind _ _ _ _ G b Hb).
  pose proof (sd_adj _ _ _ _ G a b Hab) as X. rewrite Hse in X. destruct (g a), (g b); simpl in X; try discriminate; tauto.
Qed.

(* the first hop n -> m leads away from n's side *)
Lemma behind_toward : forall t n m c r, NoDup (ids t) -> In c (ids t) -> adjacent t n m ->
  path_from_to t n c = Some (n :: m :: r) -> ~ In c (behind t n m).
Proof.
  intros t n m c r Hw Hc H Hp Hi. destruct (side_exists t n m Hw H) as [g G].
  apply (sd_behind _ _ _ _ G c Hc) in Hi. pose proof (proj1 (sd_hop _ _ _ _ G c m r Hc Hp) eq_refl). congruence.
Qed.

Lemma behind_compl : forall t n m x, NoDup (ids t) -> adjacent t n m -> In x (ids t) ->
  (In x (behind t n m) <-> ~ In x (behind t m n)).
Proof.
  intros t n m x Hw H Hx.
  assert (K : forall p c, In (p, c) (edges t) -> (In x (behind t c p) <-> ~ In x (behind t p c))).
  { intros p c He. pose proof He as He'. apply edges_spec in He'. destruct He' as [sp [Hsp [Ha Hb]]].
    apply in_map_iff in Hb. destruct Hb as [s [Hb Hs]]. subst p c.
    pose proof (cut_s_sub t sp s Hsp Hs) as Hst. pose proof (subtree_complete t s Hw Hst) as Hsub.
    rewrite (behind_child_side t _ _ s Hw He Hsub), (behind_parent_side t _ _ s Hw He Hsub x).
    destruct (in_dec Nat.eq_dec x (ids s)); tauto. }
  destruct H as [He|He].
  - specialize (K n m He). destruct (in_dec Nat.eq_dec x (behind t n m)), (in_dec Nat.eq_dec x (behind t m n)); tauto.
  - exact (K m n He).
Qed.

(* ================================================================================== *)
(* blocks and versions                                                                *)
(* ================================================================================== *)
Lemma ver_bump_other : forall x y vs, y <> x -> ver (bump x vs) y = ver vs y.
Proof. intros x y vs H. unfold ver, bump. simpl. apply Nat.eqb_neq in H. rewrite H. reflexivity. Qed.

Lemma stamp_bump : forall t x vs n m, ~ In x (behind t n m) -> stamp t (bump x vs) n m = stamp t vs n m.
Proof.
  intros t x vs n m H. unfold stamp. apply map_ext_in. intros y Hy. rewrite ver_bump_other; [reflexivity|]. intro E. subst. contradiction.
Qed.

Lemma pair_eqb_refl : forall k, pair_eqb k k = true.
Proof. intros k. apply pair_eqb_eq. reflexivity. Qed.

Lemma fresh_complete : forall t s n m, block_fresh t s n m -> fresh t s n m = true.
Proof.
  intros t s n m H. unfold fresh. unfold block_fresh in H. rewrite H. apply (list_eqb_eq pair_eqb pair_eqb_eq). reflexivity.
Qed.

Lemma env_fresh_none_complete : forall t s n, (forall y, In y (neighbours t n) -> block_fresh t s y n) -> env_fresh t s n None = true.
Proof. intros t s n H. unfold env_fresh. apply forallb_forall. intros y Hy. apply fresh_complete. auto. Qed.

Lemma env_fresh_but_complete : forall t s n b, (forall y, In y (neighbours t n) -> y <> b -> block_fresh t s y n) ->
  env_fresh t s n (Some b) = true.
Proof.
  intros t s n b H. unfold env_fresh. apply forallb_forall. intros y Hy. destruct (Nat.eqb y b) eqn:E; [reflexivity|].
  apply Nat.eqb_neq in E. simpl. apply fresh_complete. auto.
Qed.

Lemma adjb_complete : forall t a b, adjacent t a b -> adjb t a b = true.
Proof. intros. apply adjb_spec. auto. Qed.

(* freshness of the blocks that do not look at the nodes X is kept *)
Definition keeps (t : rtree) (X : list nat) (s s' : cst) : Prop :=
  forall n m, (forall x, In x X -> ~ In x (behind t n m)) -> block_fresh t s n m -> block_fresh t s' n m.

Lemma keeps_refl : forall t X s, keeps t X s s.
Proof. intros t X s n m _ H. exact H. Qed.

Lemma keeps_trans : forall t X s1 s2 s3, keeps t X s1 s2 -> keeps t X s2 s3 -> keeps t X s1 s3.
Proof. intros t X s1 s2 s3 H1 H2 n m HX H. apply H2; auto. Qed.

Lemma keeps_weaken : forall t X Y s s', (forall x, In x X -> In x Y) -> keeps t X s s' -> keeps t Y s s'.
Proof. intros t X Y s s' HXY H n m HY Hb. apply H; auto. Qed.

Lemma keeps_same : forall t X s s', vers s' = vers s -> blocks s' = blocks s -> keeps t X s s'.
Proof. intros t X s s' Hv Hb n m _ H. unfold block_fresh in *. rewrite Hv, Hb. exact H. Qed.

Lemma keeps_bump : forall t X s s' x, In x X -> vers s' = bump x (vers s) -> blocks s' = blocks s -> keeps t X s s'.
Proof.
  intros t X s s' x Hx Hv Hb n m HX H. unfold block_fresh in *. rewrite Hv, Hb, stamp_bump; auto.
Qed.

Lemma keeps_bump2 : forall t X s s' x y, In x X -> In y X -> vers s' = bump x (bump y (vers s)) -> blocks s' = blocks s -> keeps t X s s'.
Proof.
  intros t X s s' x y Hx Hy Hv Hb n m HX H. unfold block_fresh in *. rewrite Hv, Hb, !stamp_bump; auto.
Qed.

Lemma keeps_cache : forall t X s s' a b, vers s' = vers s -> blocks s' = ((a, b), stamp t (vers s) a b) :: blocks s ->
  keeps t X s s' /\ block_fresh t s' a b.
Proof.
  intros t X s s' a b Hv Hb. split.
  - intros n m _ H. unfold block_fresh in *. rewrite Hv, Hb. simpl. destruct (pair_eqb (n, m) (a, b)) eqn:E; [|exact H].
    apply pair_eqb_eq in E. inversion E; subst. reflexivity.
  - unfold block_fresh. rewrite Hv, Hb. simpl. rewrite pair_eqb_refl. reflexivity.
Qed.

(* ================================================================================== *)
(* the invariant                                                                      *)
(* ================================================================================== *)
Definition inv (t : rtree) (s : cst) : Prop :=
  pend s = None /\ forall n m, adjacent t n m -> ~ In (centre s) (behind t n m) -> block_fresh t s n m.

Lemma inv_stay : forall t s s', inv t s -> centre s' = centre s -> pend s' = None -> keeps t [centre s] s s' -> inv t s'.
Proof.
  intros t s s' [_ H] Hc Hp K. split; auto. intros n m Hadj Hn. rewrite Hc in Hn. apply K; auto.
  intros x [<-|[]]. exact Hn.
Qed.

Lemma inv_transfer : forall t s s' a b, NoDup (ids t) -> inv t s -> centre s = a -> adjacent t a b ->
  pend s' = None -> centre s' = b -> block_fresh t s' a b -> keeps t [a; b] s s' -> inv t s'.
Proof.
  intros t s s' a b Hw [_ H] Hc Hab Hp Hc' Hf K. split; auto. intros n m Hnm Hn. rewrite Hc' in Hn.
  destruct (same_edge (n, m) (a, b)) eqn:E.
  - unfold same_edge in E. simpl in E. apply orb_true_iff in E. destruct E as [E|E]; apply andb_true_iff in E; destruct E as [E1 E2];
      apply Nat.eqb_eq in E1, E2; subst.
    + exact Hf.
    + exfalso. apply Hn. apply behind_self; auto.
  - pose proof (behind_same_side t n m a b Hw Hnm Hab E) as S.
    assert (Ha : ~ In a (behind t n m)) by tauto.
    apply K; [intros x [<-|[<-|[]]]; auto|]. apply H; auto. rewrite Hc. exact Ha.
Qed.

Lemma inv_env : forall t s n, NoDup (ids t) -> inv t s -> centre s = n ->
  forall y, In y (neighbours t n) -> block_fresh t s y n.
Proof.
  intros t s n Hw [_ H] Hc y Hy. apply neighbours_adjacent in Hy; auto. apply adjacent_sym in Hy.
  apply H; auto. rewrite Hc. apply behind_other; auto.
Qed.

(* the blocks into b, seen from the adjacent centre a *)
Lemma inv_env_next : forall t s a b, NoDup (ids t) -> inv t s -> centre s = a -> adjacent t a b ->
  forall y, In y (neighbours t b) -> y <> a -> block_fresh t s y b /\ ~ In a (behind t y b) /\ ~ In b (behind t y b).
Proof.
  intros t s a b Hw [_ H] Hc Hab y Hy Hne. apply neighbours_adjacent in Hy; auto. apply adjacent_sym in Hy.
  assert (Hb : ~ In b (behind t y b)) by (apply behind_other; auto).
  assert (E : same_edge (y, b) (a, b) = false).
  { unfold same_edge. simpl. apply orb_false_iff. split; apply andb_false_iff.
    - left. apply Nat.eqb_neq. exact Hne.
    - right. apply Nat.eqb_neq. intro E. symmetry in E. revert E. apply adjacent_neq with t; auto. }
  pose proof (behind_same_side t y b a b Hw Hy Hab E) as S.
  assert (Ha : ~ In a (behind t y b)) by tauto.
  split; [|split; auto]. apply H; auto. rewrite Hc. exact Ha.
Qed.

(* ================================================================================== *)
(* running the building blocks                                                        *)
(* ================================================================================== *)
Lemma run_app : forall t s a b, run t s (a ++ b) = match run t s a with Some s' => run t s' b | None => None end.
Proof.
  intros t s a. revert s. induction a as [|e a IH]; intros s b; [reflexivity|]. simpl.
  destruct (exec t s e); [apply IH|reflexivity].
Qed.

Lemma run_app_ok : forall t s a b s1 s2, run t s a = Some s1 -> run t s1 b = Some s2 -> run t s (a ++ b) = Some s2.
Proof. intros t s a b s1 s2 H1 H2. rewrite run_app, H1. exact H2. Qed.

Lemma last_cons_default : forall (l : list nat) b d d', last (b :: l) d = last (b :: l) d'.
Proof. induction l as [|c l IH]; intros b d d'; [reflexivity|]. change (last (b :: c :: l) d) with (last (c :: l) d). change (last (b :: c :: l) d') with (last (c :: l) d'). apply IH. Qed.

Lemma run_cons : forall t s e r s', exec t s e = Some s' -> run t s (e :: r) = run t s' r.
Proof. intros t s e r s' H. simpl. rewrite H. reflexivity. Qed.

Lemma no_pend_None : forall s, pend s = None -> no_pend s = true.
Proof. intros s H. unfold no_pend. rewrite H. reflexivity. Qed.

Section Steps.
  Variable t : rtree.
  Hypothesis Hw : NoDup (ids t).

  (* ---- single events ---------------------------------------------------------------- *)
  Lemma exec_assert_centre : forall s n, centre s = n -> pend s = None -> exec t s (AssertCentre n) = Some s.
  Proof. intros s n Hc Hp. simpl. rewrite Hc, Nat.eqb_refl, (no_pend_None s Hp). reflexivity. Qed.

  Lemma exec_site : forall s n f, centre s = n -> pend s = None -> (forall y, In y (neighbours t n) -> block_fresh t s y n) ->
    exec t s (Site n f) = Some (mk_cst n None (bump n (vers s)) (blocks s)).
  Proof.
    intros s n f Hc Hp H. simpl. rewrite Hc, Nat.eqb_refl, (no_pend_None s Hp), (env_fresh_none_complete t s n H). reflexivity.
  Qed.

  Lemma exec_site_back : forall s n f, centre s = n -> pend s = None -> (forall y, In y (neighbours t n) -> block_fresh t s y n) ->
    exec t s (SiteBack n f) = Some (mk_cst n None (bump n (vers s)) (blocks s)).
  Proof.
    intros s n f Hc Hp H. simpl. rewrite Hc, Nat.eqb_refl, (no_pend_None s Hp), (env_fresh_none_complete t s n H). reflexivity.
  Qed.

  Lemma exec_split : forall s a b, centre s = a -> pend s = None -> adjacent t a b ->
    exec t s (Split a b) = Some (mk_cst a (Some (a, b)) (bump a (vers s)) (blocks s)).
  Proof. intros s a b Hc Hp Hab. simpl. rewrite Hc, Nat.eqb_refl, (no_pend_None s Hp), (adjb_complete t a b Hab). reflexivity. Qed.

  Lemma exec_cache : forall s n m, adjacent t n m -> (forall y, In y (neighbours t n) -> y <> m -> block_fresh t s y n) ->
    exec t s (Cache n m) = Some (mk_cst (centre s) (pend s) (vers s) (((n, m), stamp t (vers s) n m) :: blocks s)).
  Proof. intros s n m Hnm H. simpl. rewrite (adjb_complete t n m Hnm), (env_fresh_but_complete t s n m H). reflexivity. Qed.

  Lemma exec_link : forall s a b f, pend s = Some (a, b) -> block_fresh t s a b -> block_fresh t s b a ->
    exec t s (Link a b f) = Some s.
  Proof.
    intros s a b f Hp H1 H2. simpl. rewrite Hp, pair_eqb_refl, (fresh_complete t s a b H1), (fresh_complete t s b a H2). reflexivity.
  Qed.

  Lemma exec_absorb : forall s a b, pend s = Some (a, b) ->
    exec t s (Absorb a b) = Some (mk_cst b None (bump b (vers s)) (blocks s)).
  Proof. intros s a b Hp. simpl. rewrite Hp, pair_eqb_refl. reflexivity. Qed.

  Lemma exec_move : forall s a b, centre s = a -> pend s = None -> adjacent t a b ->
    exec t s (Move a b) = Some (mk_cst b None (bump a (bump b (vers s))) (blocks s)).
  Proof. intros s a b Hc Hp Hab. simpl. rewrite Hc, Nat.eqb_refl, (no_pend_None s Hp), (adjb_complete t a b Hab). reflexivity. Qed.

  Lemma exec_two_site : forall s a b f, centre s = a -> pend s = None -> adjacent t a b ->
    (forall y, In y (neighbours t a) -> y <> b -> block_fresh t s y a) ->
    (forall y, In y (neighbours t b) -> y <> a -> block_fresh t s y b) ->
    exec t s (TwoSite a b f) = Some (mk_cst b None (bump a (bump b (vers s))) (blocks s)).
  Proof.
    intros s a b f Hc Hp Hab H1 H2. simpl.
    rewrite Hc, Nat.eqb_refl, (no_pend_None s Hp), (adjb_complete t a b Hab), (env_fresh_but_complete t s a b H1), (env_fresh_but_complete t s b a H2).
    reflexivity.
  Qed.

  (* ---- with the invariant ----------------------------------------------------------- *)
  Lemma run_assert_centre : forall s n, inv t s -> centre s = n -> run t s [AssertCentre n] = Some s.
  Proof. intros s n [Hp _] Hc. rewrite (run_cons t s _ _ s) by (apply exec_assert_centre; auto). reflexivity. Qed.

  Lemma run_site : forall s n f, inv t s -> centre s = n ->
    exists s', run t s [Site n f] = Some s' /\ inv t s' /\ centre s' = n.
  Proof.
    intros s n f I Hc. pose proof I as [Hp _]. exists (mk_cst n None (bump n (vers s)) (blocks s)). split; [|split; auto].
    - rewrite (run_cons t s _ _ _ (exec_site s n f Hc Hp (inv_env t s n Hw I Hc))). reflexivity.
    - apply (inv_stay t s); auto. rewrite Hc. apply (keeps_bump t [n] s _ n); simpl; auto.
  Qed.

  Lemma run_site_back : forall s n f, inv t s -> centre s = n ->
    exists s', run t s [SiteBack n f] = Some s' /\ inv t s' /\ centre s' = n.
  Proof.
    intros s n f I Hc. pose proof I as [Hp _]. exists (mk_cst n None (bump n (vers s)) (blocks s)). split; [|split; auto].
    - rewrite (run_cons t s _ _ _ (exec_site_back s n f Hc Hp (inv_env t s n Hw I Hc))). reflexivity.
    - apply (inv_stay t s); auto. rewrite Hc. apply (keeps_bump t [n] s _ n); simpl; auto.
  Qed.

  (* the inputs of the block (a, b), seen from the centre a: not looking at a or b *)
  Lemma inv_inputs : forall s a b, inv t s -> centre s = a -> adjacent t a b ->
    forall y, In y (neighbours t a) -> y <> b -> block_fresh t s y a /\ ~ In a (behind t y a) /\ ~ In b (behind t y a).
  Proof.
    intros s a b I Hc Hab y Hy Hne. pose proof (inv_env t s a Hw I Hc y Hy) as Hf.
    apply neighbours_adjacent in Hy; auto. apply adjacent_sym in Hy.
    assert (Ha : ~ In a (behind t y a)) by (apply behind_other; auto).
    assert (E : same_edge (y, a) (a, b) = false).
    { unfold same_edge. simpl. apply orb_false_iff. split; apply andb_false_iff.
      - right. apply Nat.eqb_neq. apply adjacent_neq with t; auto.
      - left. apply Nat.eqb_neq. exact Hne. }
    pose proof (behind_same_side t y a a b Hw Hy Hab E) as S. tauto.
  Qed.

  Lemma run_link : forall s a b f, inv t s -> centre s = a -> adjacent t a b ->
    exists s', run t s (link a b f) = Some s' /\ inv t s' /\ centre s' = b.
  Proof.
    intros s a b f I Hc Hab. pose proof I as [Hp HI]. pose proof (adjacent_sym _ _ _ Hab) as Hba.
    set (s1 := mk_cst a (Some (a, b)) (bump a (vers s)) (blocks s)).
    set (s2 := mk_cst a (Some (a, b)) (vers s1) (((a, b), stamp t (vers s1) a b) :: blocks s1)).
    set (s3 := mk_cst b None (bump b (vers s2)) (blocks s2)).
    assert (K1 : keeps t [a] s s1) by (apply (keeps_bump t [a] s s1 a); simpl; auto).
    destruct (keeps_cache t [a] s1 s2 a b eq_refl eq_refl) as [K2 F2].
    assert (K3 : keeps t [b] s2 s3) by (apply (keeps_bump t [b] s2 s3 b); simpl; auto).
    assert (F1 : forall y, In y (neighbours t a) -> y <> b -> block_fresh t s1 y a).
    { intros y Hy Hne. destruct (inv_inputs s a b I Hc Hab y Hy Hne) as [Hf [Ha Hb]]. apply K1; auto. intros x [<-|[]]; auto. }
    assert (Fba : block_fresh t s2 b a).
    { apply K2; [|apply K1]; try (intros x [<-|[]]; apply behind_other; auto).
      apply HI; auto. rewrite Hc. apply behind_other; auto. }
    exists s3. split; [|split; auto].
    - unfold link.
      rewrite (run_cons t s _ _ s) by (apply exec_assert_centre; auto).
      rewrite (run_cons t s _ _ s1) by (apply exec_split; auto).
      rewrite (run_cons t s1 _ _ s2) by (apply exec_cache; auto).
      rewrite (run_cons t s2 _ _ s2) by (apply exec_link; auto).
      rewrite (run_cons t s2 _ _ s3) by (apply exec_absorb; auto).
      reflexivity.
    - apply (inv_transfer t s s3 a b Hw I Hc Hab eq_refl eq_refl).
      + apply K3; auto. intros x [<-|[]]. apply behind_other; auto.
      + eapply keeps_trans; [eapply keeps_weaken; [|exact K1]; simpl; tauto|].
        eapply keeps_trans; [eapply keeps_weaken; [|exact K2]; simpl; tauto|].
        eapply keeps_weaken; [|exact K3]; simpl; tauto.
  Qed.

  Lemma run_move_cache : forall s a b, inv t s -> centre s = a -> adjacent t a b ->
    exists s', run t s [Move a b; Cache a b] = Some s' /\ inv t s' /\ centre s' = b.
  Proof.
    intros s a b I Hc Hab. pose proof I as [Hp HI].
    set (s1 := mk_cst b None (bump a (bump b (vers s))) (blocks s)).
    set (s2 := mk_cst b None (vers s1) (((a, b), stamp t (vers s1) a b) :: blocks s1)).
    assert (K1 : keeps t [a; b] s s1) by (apply (keeps_bump2 t [a; b] s s1 a b); simpl; auto).
    destruct (keeps_cache t [a; b] s1 s2 a b eq_refl eq_refl) as [K2 F2].
    exists s2. split; [|split; auto].
    - rewrite (run_cons t s _ _ s1) by (apply exec_move; auto).
      rewrite (run_cons t s1 _ _ s2); [reflexivity|]. apply exec_cache; auto.
      intros y Hy Hne. destruct (inv_inputs s a b I Hc Hab y Hy Hne) as [Hf [Ha Hb]]. apply K1; auto. intros x [<-|[<-|[]]]; auto.
    - apply (inv_transfer t s s2 a b Hw I Hc Hab eq_refl eq_refl F2). eapply keeps_trans; eauto.
  Qed.

  Lemma run_two : forall s a b f, inv t s -> centre s = a -> adjacent t a b ->
    exists s', run t s (two a b f) = Some s' /\ inv t s' /\ centre s' = b.
  Proof.
    intros s a b f I Hc Hab. pose proof I as [Hp HI].
    set (s1 := mk_cst b None (bump a (bump b (vers s))) (blocks s)).
    set (s2 := mk_cst b None (vers s1) (((a, b), stamp t (vers s1) a b) :: blocks s1)).
    assert (K1 : keeps t [a; b] s s1) by (apply (keeps_bump2 t [a; b] s s1 a b); simpl; auto).
    destruct (keeps_cache t [a; b] s1 s2 a b eq_refl eq_refl) as [K2 F2].
    exists s2. split; [|split; auto].
    - unfold two. rewrite (run_cons t s _ _ s1).
      + rewrite (run_cons t s1 _ _ s2); [reflexivity|]. apply exec_cache; auto.
        intros y Hy Hne. destruct (inv_inputs s a b I Hc Hab y Hy Hne) as [Hf [Ha Hb]]. apply K1; auto. intros x [<-|[<-|[]]]; auto.
      + apply exec_two_site; auto.
        * intros y Hy Hne. apply (inv_inputs s a b I Hc Hab y Hy Hne).
        * intros y Hy Hne. apply (inv_env_next t s a b Hw I Hc Hab y Hy Hne).
    - apply (inv_transfer t s s2 a b Hw I Hc Hab eq_refl eq_refl F2). eapply keeps_trans; eauto.
  Qed.

  (* ---- moving the centre along a path ------------------------------------------------ *)
  Lemma run_move_list : forall r a s, inv t s -> centre s = a -> chain (adjacent t) (a :: r) ->
    exists s', run t s (flat_map (fun st => [Move (fst st) (snd st); Cache (fst st) (snd st)]) (consec (a :: r))) = Some s' /\
               inv t s' /\ centre s' = last (a :: r) a.
  Proof.
    induction r as [|b r IH]; intros a s I Hc Hch.
    - exists s. simpl. auto.
    - apply chain_cons in Hch. destruct Hch as [Hab Hch].
      destruct (run_move_cache s a b I Hc Hab) as [s1 [R1 [I1 C1]]].
      destruct (IH b s1 I1 C1 Hch) as [s2 [R2 [I2 C2]]].
      exists s2. split; [|split; auto].
      + change (consec (a :: b :: r)) with ((a, b) :: consec (b :: r)). simpl flat_map.
        change (Move a b :: Cache a b :: ?x) with ([Move a b; Cache a b] ++ x).
        eapply run_app_ok; [exact R1|exact R2].
      + rewrite C2. change (last (a :: b :: r) a) with (last (b :: r) a). apply last_cons_default.
  Qed.

  Lemma run_moves : forall a r s, inv t s -> centre s = a -> chain (adjacent t) (a :: r) ->
    exists s', run t s (moves (a :: r)) = Some s' /\ inv t s' /\ centre s' = last (a :: r) a.
  Proof.
    intros a r s I Hc Hch. destruct (run_move_list r a s I Hc Hch) as [s' [R [I' C']]]. exists s'. split; auto.
    unfold moves. destruct I as [Hp _]. rewrite (run_cons t s _ _ s) by (apply exec_assert_centre; auto). exact R.
  Qed.
End Steps.

(* ================================================================================== *)
(* (re-)initialising the cache                                                        *)
(* ================================================================================== *)
Lemma path_first_hop : forall t a b x r, NoDup (ids t) -> In b (ids t) -> path_from_to t a b = Some (a :: x :: r) ->
  In a (ids t) /\ adjacent t a x.
Proof.
  intros t a b x r Hw Hb Hp.
  assert (Hne : a <> b).
  { intro E. subst b. rewrite path_self in Hp. discriminate. }
  assert (Ha : In a (ids t)) by (apply (path_from_to_defined t a b Hne); eauto).
  split; auto. destruct (path_from_to_spec t a b Hw Ha Hb) as [p [Hp' [_ [_ [Hch _]]]]]. rewrite Hp in Hp'. inversion Hp'; subst p.
  simpl in Hch. tauto.
Qed.

Lemma sort_pair_eq : forall a b n m, sort_pair (a, b) = sort_pair (n, m) -> (a, b) = (n, m) \/ (a, b) = (m, n).
Proof.
  intros a b n m H. unfold sort_pair in H. simpl in H. inversion H as [[H1 H2]].
  assert (a = n /\ b = m \/ a = m /\ b = n) by lia. destruct H0 as [[-> ->]|[-> ->]]; auto.
Qed.

Section InitCache.
  Variables (t : rtree) (first : nat) (keys : list (nat * nat)).
  Hypothesis Hw : NoDup (ids t).
  Hypothesis Hf : In first (ids t).
  Hypothesis Hperm : Permutation (map sort_pair keys) (map sort_pair (edges t)).
  Hypothesis Hdir : forall n m, In (n, m) keys -> exists r, path_from_to t n first = Some (n :: m :: r).
  Hypothesis Hord : forall pre n m post, keys = pre ++ (n, m) :: post ->
       forall j, In j (neighbours t n) -> j <> m -> In (j, n) pre.

  Definition cache_evs (l : list (nat * nat)) : list ev := map (fun k => Cache (fst k) (snd k)) l.

  Lemma run_cache_list : forall post pre s, keys = pre ++ post -> (forall n m, In (n, m) pre -> block_fresh t s n m) ->
    exists s', run t s (cache_evs post) = Some s' /\ centre s' = centre s /\ pend s' = pend s /\ vers s' = vers s /\
               (forall n m, In (n, m) keys -> block_fresh t s' n m).
  Proof.
    induction post as [|[n m] post IH]; intros pre s E Hpre.
    - exists s. rewrite app_nil_r in E. subst pre. simpl. auto.
    - assert (Hin : In (n, m) keys) by (rewrite E; apply in_or_app; simpl; auto).
      destruct (Hdir n m Hin) as [r Hp]. destruct (path_first_hop t n first m r Hw Hf Hp) as [Hn Hnm].
      set (s1 := mk_cst (centre s) (pend s) (vers s) (((n, m), stamp t (vers s) n m) :: blocks s)).
      destruct (keeps_cache t [] s s1 n m eq_refl eq_refl) as [K F].
      destruct (IH (pre ++ [(n, m)]) s1) as [s' [R [C [P [V A]]]]].
      + rewrite <- app_assoc. exact E.
      + intros n' m' H. apply in_app_or in H. destruct H as [H|[H|[]]].
        * apply K; [intros x []|]. apply Hpre. exact H.
        * inversion H; subst. exact F.
      + exists s'. split; [|auto]. unfold cache_evs. simpl map.
        rewrite (run_cons t s _ _ s1); [exact R|]. apply exec_cache; auto.
        intros y Hy Hne. apply Hpre. eapply Hord; eauto.
  Qed.

  Lemma keys_cover : forall n m, adjacent t n m -> ~ In first (behind t n m) -> In (n, m) keys.
  Proof.
    intros n m Hnm Hb.
    assert (Hs : In (sort_pair (n, m)) (map sort_pair keys)).
    { eapply Permutation_in; [apply Permutation_sym; exact Hperm|]. destruct Hnm as [H|H].
      - apply in_map. exact H.
      - rewrite sort_pair_swap. apply (in_map sort_pair _ _ H). }
    apply in_map_iff in Hs. destruct Hs as [[a b] [E Hab]]. apply sort_pair_eq in E. destruct E as [E|E]; inversion E; subst; auto.
    exfalso. destruct (Hdir m n Hab) as [r Hp]. pose proof (adjacent_sym _ _ _ Hnm) as Hmn.
    pose proof (behind_toward t m n first r Hw Hf Hmn Hp) as Hb'.
    apply (behind_compl t n m first Hw Hnm Hf) in Hb'; auto.
  Qed.

  Lemma run_init_inv : forall s, pend s = None -> centre s = first ->
    exists s', run t s (cache_evs keys) = Some s' /\ inv t s' /\ centre s' = first.
  Proof.
    intros s Hp Hc. destruct (run_cache_list keys [] s eq_refl) as [s' [R [C [P [V A]]]]]; [intros n m []|].
    exists s'. split; auto. split; [|congruence]. split; [congruence|].
    intros n m Hnm Hb. apply A. apply keys_cover; auto. rewrite <- Hc, <- C. exact Hb.
  Qed.
End InitCache.

Section Reset.
  Variable t : rtree.
  Hypothesis Hw : NoDup (ids t).

  Lemma run_move_only : forall r a s, centre s = a -> pend s = None -> chain (adjacent t) (a :: r) ->
    exists s', run t s (map (fun st => Move (fst st) (snd st)) (consec (a :: r))) = Some s' /\
               centre s' = last (a :: r) a /\ pend s' = None.
  Proof.
    induction r as [|b r IH]; intros a s Hc Hp Hch.
    - exists s. simpl. auto.
    - apply chain_cons in Hch. destruct Hch as [Hab Hch].
      set (s1 := mk_cst b None (bump a (bump b (vers s))) (blocks s)).
      destruct (IH b s1 eq_refl eq_refl Hch) as [s2 [R2 [C2 P2]]].
      exists s2. split; [|split; auto].
      + change (consec (a :: b :: r)) with ((a, b) :: consec (b :: r)). simpl map.
        rewrite (run_cons t s _ _ s1) by (apply exec_move; auto). exact R2.
      + rewrite C2. change (last (a :: b :: r) a) with (last (b :: r) a). apply last_cons_default.
  Qed.

  Lemma init_cache_run : forall first c s, In first (ids t) -> init_cache t first = Some c -> pend s = None -> centre s = first ->
    exists s', run t s c = Some s' /\ inv t s' /\ centre s' = first.
  Proof.
    intros first c s Hf Hc Hp Hcs. destruct (cache_keys_spec t first Hw Hf) as [keys [Hk [Hperm [Hdir Hord]]]].
    unfold init_cache in Hc. rewrite Hk in Hc. simpl in Hc. inversion Hc; subst c.
    exact (run_init_inv t first keys Hw Hf Hperm Hdir Hord s Hp Hcs).
  Qed.

  Lemma run_reset : forall cur first r s, In cur (ids t) -> In first (ids t) -> reset1 t cur first = Some r ->
    centre s = cur -> pend s = None ->
    exists s', run t s r = Some s' /\ inv t s' /\ centre s' = first.
  Proof.
    intros cur first r s Hcur Hf Hr Hc Hp. unfold reset1 in Hr.
    destruct (path_from_to_spec t cur first Hw Hcur Hf) as [p [Hpath [[r1 Hhd] [[r2 Hlast] [Hch _]]]]].
    rewrite Hpath in Hr. destruct (init_cache t first) as [c|] eqn:Ec; [|discriminate]. inversion Hr; subst r.
    subst p. destruct (run_move_only r1 cur s Hc Hp Hch) as [s1 [R1 [C1 P1]]].
    assert (Hl : last (cur :: r1) cur = first).
    { rewrite Hlast. apply last_last. }
    set (s2 := mk_cst (centre s1) (pend s1) (vers s1) []).
    destruct (init_cache_run first c s2 Hf Ec P1) as [s3 [R3 [I3 C3]]]; [simpl; congruence|].
    exists s3. split; auto. eapply run_app_ok; [exact R1|]. rewrite (run_cons t s1 _ _ s2) by reflexivity. exact R3.
  Qed.
End Reset.

(* ================================================================================== *)
(* running a concatenation of per-index traces                                        *)
(* ================================================================================== *)
Lemma run_concat_seq : forall t (f : nat -> option (list ev)) (Q : nat -> cst -> Prop) n a r s,
  concat_opt (map f (seq a n)) = Some r -> Q a s ->
  (forall i es s, a <= i < a + n -> f i = Some es -> Q i s -> exists s', run t s es = Some s' /\ Q (S i) s') ->
  exists s', run t s r = Some s' /\ Q (a + n) s'.
Proof.
  intros t f Q n. induction n as [|n IH]; intros a r s H HQ Hstep.
  - simpl in H. inversion H; subst r. exists s. rewrite Nat.add_0_r. auto.
  - simpl seq in H. simpl map in H. apply concat_opt_cons in H. destruct H as [x [y [Hx [Hy ->]]]].
    destruct (Hstep a x s) as [s1 [R1 Q1]]; [lia|exact Hx|exact HQ|].
    destruct (IH (S a) y s1 Hy Q1) as [s2 [R2 Q2]].
    + intros i es s0 Hi. apply Hstep. lia.
    + exists s2. split; [eapply run_app_ok; eauto|]. replace (a + S n) with (S a + n) by lia. exact Q2.
Qed.

(* a path op[i] = nx :: q of good_paths: a chain that ends in up[i+1] *)
Lemma good_path_chain : forall t up op i a b nx q, good_paths t up op ->
  nth_error up i = Some a -> nth_error up (S i) = Some b -> nth_error op i = Some (nx :: q) ->
  adjacent t a nx /\ chain (adjacent t) (nx :: q) /\ last (nx :: q) nx = b.
Proof.
  intros t up op i a b nx q [_ Hg] Ha Hb Hq. destruct (Hg i a b Ha Hb) as [nx' [q' [_ [Hq' [Hch [r Hr]]]]]].
  rewrite Hq in Hq'. inversion Hq'; subst nx' q'. apply chain_cons in Hch. destruct Hch as [H1 H2].
  split; auto. split; auto. rewrite Hr. apply last_last.
Qed.

(* ================================================================================== *)
(* first-order one-site                                                               *)
(* ================================================================================== *)
Lemma t1_update_inv' : forall t tr up op i es, t1_update t tr up op i = Some es ->
  exists n, nth_error up i = Some n /\
  ((i = length up - 1 /\ exists p first r,
       (match op with [] => Some [] | _ => nth_error op (length op - 1) end) = Some p /\
       nth_error up 0 = Some first /\ reset1 tr n first = Some r /\
       es = moves p ++ (if Nat.ltb 2 (size t) then [AssertEnd n] else []) ++ [Site n 2%Z] ++ r) \/
   (i <> length up - 1 /\ i = 0 /\ exists nx q, nth_error op 0 = Some (nx :: q) /\
       es = [AssertCentre n; AssertLeaf n; Site n 2%Z] ++ link n nx 2%Z) \/
   (i <> length up - 1 /\ i <> 0 /\ exists p nx q, nth_error op (i - 1) = Some p /\ nth_error op i = Some (nx :: q) /\
       es = moves p ++ [Site n 2%Z] ++ link n nx 2%Z)).
Proof.
  intros t tr up op i es H. unfold t1_update in H. destruct (nth_error up i) as [n|] eqn:En; [|discriminate].
  exists n. split; auto. destruct (Nat.eqb i (length up - 1)) eqn:Ei.
  - apply Nat.eqb_eq in Ei. left. split; auto.
    destruct (match op with [] => Some [] | _ :: _ => nth_error op (length op - 1) end) as [p|]; [|discriminate].
    destruct (nth_error up 0) as [first|]; [|discriminate].
    destruct (reset1 tr n first) as [r|] eqn:Er; [|discriminate]. inversion H. exists p, first, r. auto.
  - apply Nat.eqb_neq in Ei. right. destruct (Nat.eqb i 0) eqn:E0.
    + apply Nat.eqb_eq in E0. left. split; auto. split; auto.
      destruct (nth_error op 0) as [[|nx q]|]; try discriminate. inversion H. exists nx, q. auto.
    + apply Nat.eqb_neq in E0. right. split; auto. split; auto.
      destruct (nth_error op (i - 1)) as [p|]; [|discriminate].
      destruct (nth_error op i) as [[|nx q]|]; try discriminate. inversion H. exists p, nx, q. auto.
Qed.

(* where the centre is before update i (i = length up: after the step) *)
Definition cpos (u : nat) (up : list nat) (op : list (list nat)) (i : nat) : nat :=
  match i with
  | 0 => u
  | S j => if Nat.ltb (S j) (length up) then match nth_error op j with Some (nx :: _) => nx | _ => u end else u
  end.

Section Fresh1.
  Variables (t : rtree) (tr : list ev).
  Hypothesis Hw : NoDup (ids t).
  Hypothesis Hsz : 2 <= size t.
  Hypothesis Htr : trace1 t = Some tr.

  Lemma trace1_step_ok : exists u l, update_path t = Some (u :: l) /\
    forall s, inv t s -> centre s = u -> exists s', run t s tr = Some s' /\ inv t s' /\ centre s' = u.
  Proof.
    destruct (trace1_unfold t t tr Hw Htr) as [up [op [Hu [Nu [Hi [Hl [Ho [Hg H]]]]]]]].
    destruct (update_path_start t Hw) as [u [l [F U]]]. rewrite Hu in U. inversion U as [Eup].
    exists u, l. split; [rewrite Hu, Eup; reflexivity|]. intros s I Hc.
    assert (Hlen : length op = length up - 1) by (exact (proj1 Hg)).
    assert (L2 : 2 <= length up) by lia.
    assert (H0 : nth_error up 0 = Some u) by (rewrite Eup; reflexivity).
    assert (Hleaf : is_leaf t u = true) by (unfold is_leaf; rewrite (sf_leaf _ _ F); reflexivity).
    assert (Hin : forall i n, nth_error up i = Some n -> In n (ids t)) by (intros i n Hn; apply Hi; eapply nth_error_In; eauto).
    (* the moves before update i (0 < i) bring the centre from cpos i to up[i] *)
    assert (Hmv : forall i n p s0, 0 < i < length up -> nth_error up i = Some n -> nth_error op (i - 1) = Some p ->
              inv t s0 -> centre s0 = cpos u up op i ->
              exists s1, run t s0 (moves p) = Some s1 /\ inv t s1 /\ centre s1 = n).
    { intros i n p s0 Hi0 Hn Hp I0 C0. destruct i as [|j]; [lia|]. replace (S j - 1) with j in Hp by lia.
      destruct (nth_error up j) as [a|] eqn:Ha; [|apply nth_error_None in Ha; lia].
      destruct (proj2 Hg j a n Ha Hn) as [nx [q [_ [Hq _]]]]. rewrite Hp in Hq. inversion Hq; subst p.
      destruct (good_path_chain t up op j a n nx q Hg Ha Hn Hp) as [_ [Hch Hlast]].
      unfold cpos in C0. replace (Nat.ltb (S j) (length up)) with true in C0 by (symmetry; apply Nat.ltb_lt; lia).
      rewrite Hp in C0. destruct (run_moves t Hw nx q s0 I0 C0 Hch) as [s1 [R1 [I1 C1]]]. exists s1. rewrite Hlast in C1. auto. }
    unfold trace1_of in H.
    destruct (run_concat_seq t (t1_update t t up op) (fun i s => inv t s /\ centre s = cpos u up op i) (length up) 0 tr s H) as [s' [R [I' C']]].
    - split; auto.
    - intros i es s0 Hi0 Hes [I0 C0]. destruct (t1_update_inv' _ _ _ _ _ _ Hes) as [n [Hn Hc0]].
      destruct Hc0 as [[Ei [p [first [r [Hp [Hfirst [Hr ->]]]]]]]|[[Ei [E0 [nx [q [Hq ->]]]]]|[Ei [E0 [p [nx [q [Hp [Hq ->]]]]]]]]].
      + (* final update *)
        assert (Hp' : nth_error op (i - 1) = Some p).
        { destruct op as [|o op']; [simpl in Hlen; lia|]. rewrite Hlen in Hp. rewrite Ei. exact Hp. }
        destruct (Hmv i n p s0) as [s1 [R1 [I1 C1]]]; auto; [lia|].
        assert (Hend : exists s2, run t s1 (if Nat.ltb 2 (size t) then [AssertEnd n] else []) = Some s2 /\ s2 = s1).
        { destruct (Nat.ltb 2 (size t)); [|exists s1; auto]. exists s1. split; auto. simpl.
          destruct (update_path_end t Hw) as [l' [z [Hz Hd]]]. rewrite Hu in Hz. inversion Hz as [Ez].
          assert (z = n).
          { rewrite Ez in Hn. rewrite Ez, app_length in Ei. simpl in Ei. rewrite Ei in Hn.
            replace (length l' + 1 - 1) with (length l') in Hn by lia. rewrite nth_error_app2, Nat.sub_diag in Hn by lia. simpl in Hn. congruence. }
          subst z. apply Nat.leb_le in Hd. rewrite Hd. reflexivity. }
        destruct Hend as [s2 [R2 ->]].
        destruct (run_site t Hw s1 n 2%Z I1 C1) as [s3 [R3 [I3 C3]]].
        assert (first = u) by congruence. subst first.
        destruct (run_reset t Hw n u r s3 (Hin i n Hn) (Hin 0 u H0) Hr C3 (proj1 I3)) as [s4 [R4 [I4 C4]]].
        exists s4. split.
        * eapply run_app_ok; [exact R1|]. eapply run_app_ok; [exact R2|]. eapply run_app_ok; [exact R3|exact R4].
        * split; auto. rewrite C4. unfold cpos. replace (Nat.ltb (S i) (length up)) with false by (symmetry; apply Nat.ltb_ge; lia). reflexivity.
      + (* first update *)
        subst i. assert (n = u) by congruence. subst n. simpl in C0.
        destruct (nth_error up 1) as [b|] eqn:Hb; [|apply nth_error_None in Hb; lia].
        destruct (good_path_chain t up op 0 u b nx q Hg H0 Hb Hq) as [Hadj _].
        destruct (run_site t Hw s0 u 2%Z I0 C0) as [s1 [R1 [I1 C1]]].
        destruct (run_link t Hw s1 u nx 2%Z I1 C1 Hadj) as [s2 [R2 [I2 C2]]].
        exists s2. split.
        * change ([AssertCentre u; AssertLeaf u; Site u 2%Z] ++ link u nx 2%Z) with ([AssertCentre u] ++ [AssertLeaf u] ++ [Site u 2%Z] ++ link u nx 2%Z).
          eapply run_app_ok; [apply run_assert_centre; auto|]. eapply run_app_ok; [|eapply run_app_ok; [exact R1|exact R2]].
          simpl. rewrite Hleaf. reflexivity.
        * split; auto. rewrite C2. unfold cpos. replace (Nat.ltb 1 (length up)) with true by (symmetry; apply Nat.ltb_lt; lia).
          rewrite Hq. reflexivity.
      + (* normal update *)
        destruct (Hmv i n p s0) as [s1 [R1 [I1 C1]]]; auto; [lia|].
        destruct (nth_error up (S i)) as [b|] eqn:Hb; [|apply nth_error_None in Hb; lia].
        destruct (good_path_chain t up op i n b nx q Hg Hn Hb Hq) as [Hadj _].
        destruct (run_site t Hw s1 n 2%Z I1 C1) as [s2 [R2 [I2 C2]]].
        destruct (run_link t Hw s2 n nx 2%Z I2 C2 Hadj) as [s3 [R3 [I3 C3]]].
        exists s3. split.
        * eapply run_app_ok; [exact R1|]. eapply run_app_ok; [exact R2|exact R3].
        * split; auto. rewrite C3. unfold cpos. replace (Nat.ltb (S i) (length up)) with true by (symmetry; apply Nat.ltb_lt; lia).
          rewrite Hq. reflexivity.
    - exists s'. split; auto. split; auto. rewrite C'. simpl. unfold cpos. destruct (length up) as [|k] eqn:Ek; [lia|].
      rewrite Nat.ltb_irrefl. reflexivity.
  Qed.
End Fresh1.

(* ================================================================================== *)
(* from a step that preserves the invariant to sched_ok                               *)
(* ================================================================================== *)
Lemma sched_ok_of_step : forall t tr, NoDup (ids t) ->
  (exists u l, update_path t = Some (u :: l) /\
     forall s, inv t s -> centre s = u -> exists s', run t s tr = Some s' /\ inv t s' /\ centre s' = u) ->
  sched_ok t tr.
Proof.
  intros t tr Hw [u [l [Hu Hstep]]].
  assert (Hin : In u (ids t)).
  { destruct (update_path_perm t Hw) as [p [Hp P]]. rewrite Hu in Hp. inversion Hp; subst p.
    eapply Permutation_in; [exact P|]. left. reflexivity. }
  destruct (cache_keys_spec t u Hw Hin) as [keys [Hk _]].
  assert (Hini : init_trace t = Some (map (fun k => Cache (fst k) (snd k)) keys)).
  { unfold init_trace, init_trace_gen. rewrite Hu. unfold init_cache. rewrite Hk. reflexivity. }
  destruct (init_cache_run t Hw u (map (fun k => Cache (fst k) (snd k)) keys) (mk_cst u None [] []) Hin) as [s0 [R0 [I0 C0]]]; [unfold init_cache; rewrite Hk; reflexivity|reflexivity|reflexivity|].
  destruct (Hstep s0 I0 C0) as [s1 [R1 [I1 C1]]]. destruct (Hstep s1 I1 C1) as [s2 [R2 [I2 C2]]].
  exists u, l, (map (fun k => Cache (fst k) (snd k)) keys), s0, s1, s2. repeat split; auto; [exact (proj1 I1)|exact (proj1 I2)].
Qed.

Theorem trace1_sched_ok : forall t, NoDup (ids t) -> 2 <= size t -> exists tr, trace1 t = Some tr /\ sched_ok t tr.
Proof.
  intros t Hw Hs. destruct (trace1_defined t Hw) as [tr Htr]. exists tr. split; auto.
  apply sched_ok_of_step; auto. exact (trace1_step_ok t tr Hw Hs Htr).
Qed.

(* ================================================================================== *)
(* second-order one-site                                                              *)
(* ================================================================================== *)
Lemma run_moves_gen : forall t p s, NoDup (ids t) -> p <> [] -> inv t s -> centre s = hd 0 p -> chain (adjacent t) p ->
  exists s', run t s (moves p) = Some s' /\ inv t s' /\ centre s' = last p 0.
Proof.
  intros t [|a r] s Hw Hne I Hc Hch; [congruence|]. destruct (run_moves t Hw a r s I Hc Hch) as [s' [R [I' C']]].
  exists s'. split; auto. split; auto. rewrite C'. apply last_cons_default.
Qed.

Lemma hd_rev_last : forall (l : list nat) d, l <> [] -> hd d (rev l) = last l d.
Proof.
  intros l d H. destruct (@exists_last _ l H) as [l' [z ->]]. rewrite rev_app_distr, last_last. reflexivity.
Qed.

Lemma last_rev_hd : forall (l : list nat) d, last (rev l) d = hd d l.
Proof. intros [|a l] d; [reflexivity|]. simpl rev. rewrite last_last. reflexivity. Qed.

Lemma t2_forward_inv' : forall up op i es, t2_forward up op i = Some es ->
  exists n p nx q, nth_error up i = Some n /\ (if Nat.eqb i 0 then Some [] else nth_error op (i - 1)) = Some p /\
    nth_error op i = Some (nx :: q) /\ es = moves p ++ [AssertCentre n; Site n 1%Z] ++ link n nx 1%Z.
Proof.
  intros up op i es H. unfold t2_forward in H. destruct (nth_error up i) as [n|]; [|discriminate].
  destruct (if Nat.eqb i 0 then Some [] else nth_error op (i - 1)) as [p|]; [|discriminate].
  destruct (nth_error op i) as [[|nx q]|]; try discriminate. inversion H. exists n, p, nx, q. auto.
Qed.

Section Sweeps.
  Variables (t : rtree) (up : list nat) (op : list (list nat)) (u : nat).
  Hypothesis Hw : NoDup (ids t).
  Hypothesis Hg : good_paths t up op.
  Hypothesis H0 : nth_error up 0 = Some u.

  (* the moves before forward update i bring the centre from cpos i to up[i] *)
  Lemma moves_to_next : forall i n p s0, i < length up -> nth_error up i = Some n ->
    (if Nat.eqb i 0 then Some [] else nth_error op (i - 1)) = Some p ->
    inv t s0 -> centre s0 = cpos u up op i ->
    exists s1, run t s0 (moves p) = Some s1 /\ inv t s1 /\ centre s1 = n.
  Proof.
    intros i n p s0 Hi0 Hn Hp I0 C0. destruct i as [|j].
    - simpl in Hp. inversion Hp; subst p. exists s0. simpl in C0. split; [reflexivity|]. split; auto. congruence.
    - simpl Nat.eqb in Hp. cbv iota in Hp. replace (S j - 1) with j in Hp by lia.
      destruct (nth_error up j) as [a|] eqn:Ha; [|apply nth_error_None in Ha; lia].
      destruct (proj2 Hg j a n Ha Hn) as [nx [q [_ [Hq _]]]]. rewrite Hp in Hq. inversion Hq; subst p.
      destruct (good_path_chain t up op j a n nx q Hg Ha Hn Hp) as [_ [Hch Hlast]].
      unfold cpos in C0. replace (Nat.ltb (S j) (length up)) with true in C0 by (symmetry; apply Nat.ltb_lt; lia).
      rewrite Hp in C0. destruct (run_moves t Hw nx q s0 I0 C0 Hch) as [s1 [R1 [I1 C1]]]. exists s1. rewrite Hlast in C1. auto.
  Qed.

  (* the moves of backward update: from up[k+1] back along op[k] = h :: q to h *)
  Lemma moves_back : forall k a b h q s0, nth_error up k = Some a -> nth_error up (S k) = Some b -> nth_error op k = Some (h :: q) ->
    inv t s0 -> centre s0 = b ->
    adjacent t h a /\ exists s1, run t s0 (moves (rev q ++ [h])) = Some s1 /\ inv t s1 /\ centre s1 = h.
  Proof.
    intros k a b h q s0 Ha Hb Hq I0 C0. destruct (good_path_chain t up op k a b h q Hg Ha Hb Hq) as [Hadj [Hch Hlast]].
    split; [apply adjacent_sym; exact Hadj|].
    change (rev q ++ [h]) with (rev (h :: q)).
    destruct (run_moves_gen t (rev (h :: q)) s0 Hw) as [s1 [R1 [I1 C1]]]; auto.
    - intro E. apply (f_equal (@length nat)) in E. rewrite rev_length in E. discriminate.
    - rewrite hd_rev_last by discriminate. rewrite (last_cons_default q h 0 h). congruence.
    - apply chain_rev. eapply chain_mono; [|exact Hch]. intros x y Hxy. apply adjacent_sym. exact Hxy.
    - exists s1. split; auto. split; auto. rewrite C1, last_rev_hd. reflexivity.
  Qed.
End Sweeps.

Section Fresh2.
  Variables (t : rtree) (tr : list ev).
  Hypothesis Hw : NoDup (ids t).
  Hypothesis Htr : trace2 t = Some tr.

  Lemma trace2_step_ok : exists u l, update_path t = Some (u :: l) /\
    forall s, inv t s -> centre s = u -> exists s', run t s tr = Some s' /\ inv t s' /\ centre s' = u.
  Proof.
    destruct (trace2_unfold_full t tr Hw Htr) as [up [op [bop [l0 [y [z [fw [bw [Hu [Nu [Hi [Hgp [Eb [Eup [Hadj [Hopn [Hfw [Hbw Etr]]]]]]]]]]]]]]]]]].
    assert (Lup : length up = length l0 + 2) by (rewrite Eup, app_length; simpl; lia).
    assert (Hy : nth_error up (length l0) = Some y).
    { rewrite Eup. rewrite nth_error_app2, Nat.sub_diag by lia. reflexivity. }
    assert (Hz : nth_error up (S (length l0)) = Some z).
    { rewrite Eup. rewrite nth_error_app2 by lia. replace (S (length l0) - length l0) with 1 by lia. reflexivity. }
    destruct up as [|u l] eqn:Eupl; [simpl in Lup; lia|]. rewrite <- Eupl in *.
    assert (H0 : nth_error up 0 = Some u) by (rewrite Eupl; reflexivity).
    assert (Hn0 : nth 0 up 0 = u) by (rewrite Eupl; reflexivity).
    exists u, l. split; [rewrite Hu, Eupl; reflexivity|]. intros s I Hc.
    (* forward sweep *)
    destruct (run_concat_seq t (t2_forward up op) (fun i s => inv t s /\ centre s = cpos u up op i) (length up - 1) 0 fw s Hfw) as [s1 [R1 [I1 C1]]].
    { split; auto. }
    { intros i es s0 Hi0 Hes [I0 C0]. destruct (t2_forward_inv' _ _ _ _ Hes) as [n [p [nx [q [Hn [Hp [Hq ->]]]]]]].
      destruct (moves_to_next t up op u Hw Hgp H0 i n p s0) as [s1 [R1 [I1 C1]]]; auto; [lia|].
      destruct (nth_error up (S i)) as [b|] eqn:Hb; [|apply nth_error_None in Hb; lia].
      destruct (good_path_chain t up op i n b nx q Hgp Hn Hb Hq) as [Hadj' _].
      destruct (run_site t Hw s1 n 1%Z I1 C1) as [s2 [R2 [I2 C2]]].
      destruct (run_link t Hw s2 n nx 1%Z I2 C2 Hadj') as [s3 [R3 [I3 C3]]].
      exists s3. split.
      - eapply run_app_ok; [exact R1|]. change ([AssertCentre n; Site n 1%Z] ++ link n nx 1%Z) with ([AssertCentre n] ++ [Site n 1%Z] ++ link n nx 1%Z).
        eapply run_app_ok; [apply run_assert_centre; auto|]. eapply run_app_ok; [exact R2|exact R3].
      - split; auto. rewrite C3. unfold cpos. replace (Nat.ltb (S i) (length up)) with true by (symmetry; apply Nat.ltb_lt; lia).
        rewrite Hq. reflexivity. }
    (* the turning point *)
    assert (C1z : centre s1 = z).
    { rewrite C1. simpl. replace (length up - 1) with (S (length l0)) by lia. unfold cpos.
      replace (Nat.ltb (S (length l0)) (length up)) with true by (symmetry; apply Nat.ltb_lt; lia). rewrite Hopn. reflexivity. }
    destruct (run_site t Hw s1 z 2%Z I1 C1z) as [s2 [R2 [I2 C2]]].
    destruct (run_link t Hw s2 z y 1%Z I2 C2 (adjacent_sym _ _ _ Hadj)) as [s3 [R3 [I3 C3]]].
    (* backward sweep *)
    destruct (run_concat_seq t (t2_backward (rev up) bop) (fun u' s => inv t s /\ nth_error up (length up - 1 - u') = Some (centre s))
                (length up - 2) 1 bw s3 Hbw) as [s4 [R4 [I4 C4]]].
    { split; auto. replace (length up - 1 - 1) with (length l0) by lia. rewrite C3. exact Hy. }
    { intros u' es s0 Hu' Hes [I0 C0].
      destruct (t2_backward_explicit t up op bop u' es Hw Nu Hi Hgp Eb) as [x [nx [h [q [pp [Hx [Hnx [Hq [Epp ->]]]]]]]]]; [lia|exact Hes|].
      subst pp. replace (S (length up - 2 - u')) with (length up - 1 - u') in Hx by lia. assert (Ex : centre s0 = x) by congruence.
      destruct (run_site t Hw s0 x 1%Z I0 Ex) as [s5 [R5 [I5 C5]]].
      destruct (moves_back t up op Hw Hgp (length up - 2 - u') nx x h q s5 Hnx) as [Hadj' [s6 [R6 [I6 C6]]]]; auto.
      { replace (S (length up - 2 - u')) with (length up - 1 - u') by lia. exact Hx. }
      destruct (run_link t Hw s6 h nx 1%Z I6 C6 Hadj') as [s7 [R7 [I7 C7]]].
      exists s7. split.
      - change ([AssertCentre x; Site x 1%Z] ++ moves (rev q ++ [h]) ++ link h nx 1%Z)
          with ([AssertCentre x] ++ [Site x 1%Z] ++ moves (rev q ++ [h]) ++ link h nx 1%Z).
        eapply run_app_ok; [apply run_assert_centre; auto|]. eapply run_app_ok; [exact R5|]. eapply run_app_ok; [exact R6|exact R7].
      - split; auto. rewrite C7. replace (length up - 1 - S u') with (length up - 2 - u') by lia. exact Hnx. }
    replace (length up - 1 - (1 + (length up - 2))) with 0 in C4 by lia. assert (C4' : centre s4 = u) by congruence.
    destruct (run_site t Hw s4 u 1%Z I4 C4') as [s5 [R5 [I5 C5]]].
    exists s5. split; [|auto]. rewrite Etr, Hn0.
    eapply run_app_ok; [exact R1|].
    change (([AssertCentre z; Site z 2%Z] ++ link z y 1%Z) ++ bw ++ [AssertCentre u; Site u 1%Z])
      with ([AssertCentre z] ++ (([Site z 2%Z] ++ link z y 1%Z) ++ bw ++ [AssertCentre u] ++ [Site u 1%Z])).
    eapply run_app_ok; [apply run_assert_centre; auto|].
    eapply run_app_ok; [eapply run_app_ok; [exact R2|exact R3]|].
    eapply run_app_ok; [exact R4|]. eapply run_app_ok; [apply run_assert_centre; auto|exact R5].
  Qed.
End Fresh2.

Theorem trace2_sched_ok : forall t, NoDup (ids t) -> 2 <= size t -> exists tr, trace2 t = Some tr /\ sched_ok t tr.
Proof.
  intros t Hw Hs. destruct (trace2_defined t Hw Hs) as [tr Htr]. exists tr. split; auto.
  apply sched_ok_of_step; auto. exact (trace2_step_ok t tr Hw Htr).
Qed.

(* ================================================================================== *)
(* second-order two-site                                                              *)
(* ================================================================================== *)
(* the last three entries of the update path form a path of the tree *)
Theorem update_path_last_three : forall t, NoDup (ids t) -> 3 <= size t ->
  exists l x y z, update_path t = Some (l ++ [x; y; z]) /\ adjacent t x y /\ adjacent t y z.
Proof.
  intros t Hw Hs.
  destruct (update_path_last_two t Hw) as [l1 [y [z [Hu Hyz]]]]; [lia|].
  destruct (update_path_facts t Hw) as [up [Hu' [Nu [Hi Hl]]]]. rewrite Hu in Hu'. inversion Hu'; subst up.
  destruct (@exists_last _ l1) as [l0 [x E0]].
  { intro E. rewrite E in Hl. simpl in Hl. lia. }
  subst l1. exists l0, x, y, z. split; [rewrite Hu, <- app_assoc; reflexivity|]. split; [|exact Hyz].
  destruct (update_path_jumps t Hw) as [up [Hu2 Hch]]. rewrite Hu in Hu2. inversion Hu2; subst up.
  rewrite <- app_assoc in Hch. apply chain_app in Hch. destruct Hch as [_ Hch]. simpl in Hch.
  destruct Hch as [[H|H] _]; [exact H|]. exfalso.
  (* y has no children, so z is its parent; z is the end of the path: degree <= 1 *)
  destruct (update_path_end t Hw) as [le [z' [Hz Hd]]]. rewrite Hu in Hz. inversion Hz as [Ez].
  assert (z' = z).
  { replace ((l0 ++ [x]) ++ [y; z]) with (((l0 ++ [x]) ++ [y]) ++ [z]) in Ez by (rewrite <- !app_assoc; reflexivity).
    apply app_inj_tail in Ez. destruct Ez; auto. }
  subst z'.
  assert (Hzy : In (z, y) (edges t)).
  { destruct Hyz as [He|He]; auto. apply (children_ids_edges t y z Hw) in He. rewrite H in He. destruct He. }
  pose proof (proj2 (children_ids_edges t z y Hw) Hzy) as Hch.
  unfold degree, neighbours in Hd. rewrite app_length in Hd.
  destruct (parent_of z t) as [q|] eqn:Ep; [simpl in Hd; destruct (children_ids t z); [destruct Hch|simpl in Hd; lia]|].
  assert (Hzr : z = rid t).
  { destruct (Nat.eq_dec z (rid t)) as [E|E]; auto. exfalso.
    destruct (parent_of_nonroot t z) as [p Hp]; auto. { apply edges_in_ids in Hzy. tauto. }
    rewrite (parent_of_complete t p z Hw Hp) in Ep. discriminate. }
  destruct t as [i cs]. simpl in Hzr. subst z.
  unfold children_ids in Hch, Hd. simpl subtree in Hch, Hd. rewrite Nat.eqb_refl in Hch, Hd. simpl in Hch, Hd.
  destruct cs as [|g [|g2 cs]]; simpl in Hd; try lia; [destruct Hch|]. simpl in Hch. destruct Hch as [Eg|[]].
  assert (Hg : is_subtree g (RNode i [g])) by (apply (is_subtree_child (RNode i [g]) g); simpl; auto).
  pose proof (subtree_complete _ g Hw Hg) as Hsg. rewrite Eg in Hsg. unfold children_ids in H. rewrite Hsg in H.
  destruct g as [j gs]. simpl in H. destruct gs; [|discriminate]. simpl in Hs. lia.
Qed.

Lemma t2s_forward_inv' : forall up op i es, t2s_forward up op i = Some es ->
  exists n p nx q, nth_error up i = Some n /\ (if Nat.eqb i 0 then Some [] else nth_error op (i - 1)) = Some p /\
    nth_error op i = Some (nx :: q) /\ es = moves p ++ [AssertCentre n] ++ two n nx 1%Z ++ [SiteBack nx 1%Z].
Proof.
  intros up op i es H. unfold t2s_forward in H. destruct (nth_error up i) as [n|]; [|discriminate].
  destruct (if Nat.eqb i 0 then Some [] else nth_error op (i - 1)) as [p|]; [|discriminate].
  destruct (nth_error op i) as [[|nx q]|]; try discriminate. inversion H. exists n, p, nx, q. auto.
Qed.

Section Fresh2s.
  Variables (t : rtree) (tr : list ev).
  Hypothesis Hw : NoDup (ids t).
  Hypothesis Htr : trace2s t = Some tr.

  Lemma trace2s_step_ok : exists u l, update_path t = Some (u :: l) /\
    forall s, inv t s -> centre s = u -> exists s', run t s tr = Some s' /\ inv t s' /\ centre s' = u.
  Proof.
    destruct (trace2s_unfold_full t tr Hw Htr) as [up [op [l0 [y [z [fw [bw [Hu [Nu [Hi [Hgp [Eup [Hadj [Hopn [Hfw [Hbw Etr]]]]]]]]]]]]]]]].
    assert (Lup : length up = length l0 + 2) by (rewrite Eup, app_length; simpl; lia).
    assert (Hy : nth_error up (length l0) = Some y).
    { rewrite Eup. rewrite nth_error_app2, Nat.sub_diag by lia. reflexivity. }
    assert (Hz : nth_error up (S (length l0)) = Some z).
    { rewrite Eup. rewrite nth_error_app2 by lia. replace (S (length l0) - length l0) with 1 by lia. reflexivity. }
    destruct up as [|u l] eqn:Eupl; [simpl in Lup; lia|]. rewrite <- Eupl in *.
    assert (H0 : nth_error up 0 = Some u) by (rewrite Eupl; reflexivity).
    exists u, l. split; [rewrite Hu, Eupl; reflexivity|]. intros s I Hc.
    assert (Hsize : length up = size t).
    { destruct (update_path_facts t Hw) as [up' [Hu' [_ [_ Hl']]]]. congruence. }
    (* forward sweep *)
    destruct (run_concat_seq t (t2s_forward up op) (fun i s => inv t s /\ centre s = cpos u up op i) (length up - 2) 0 fw s Hfw) as [s1 [R1 [I1 C1]]].
    { split; auto. }
    { intros i es s0 Hi0 Hes [I0 C0]. destruct (t2s_forward_inv' _ _ _ _ Hes) as [n [p [nx [q [Hn [Hp [Hq ->]]]]]]].
      destruct (moves_to_next t up op u Hw Hgp H0 i n p s0) as [s1 [R1 [I1 C1]]]; auto; [lia|].
      destruct (nth_error up (S i)) as [b|] eqn:Hb; [|apply nth_error_None in Hb; lia].
      destruct (good_path_chain t up op i n b nx q Hgp Hn Hb Hq) as [Hadj' _].
      destruct (run_two t Hw s1 n nx 1%Z I1 C1 Hadj') as [s2 [R2 [I2 C2]]].
      destruct (run_site_back t Hw s2 nx 1%Z I2 C2) as [s3 [R3 [I3 C3]]].
      exists s3. split.
      - eapply run_app_ok; [exact R1|]. eapply run_app_ok; [apply run_assert_centre; auto|]. eapply run_app_ok; [exact R2|exact R3].
      - split; auto. rewrite C3. unfold cpos. replace (Nat.ltb (S i) (length up)) with true by (symmetry; apply Nat.ltb_lt; lia).
        rewrite Hq. reflexivity. }
    (* the centre is on up[-2] *)
    assert (C1y : centre s1 = y).
    { rewrite C1. simpl. replace (length up - 2) with (length l0) by lia. destruct (length l0) as [|k] eqn:Ek.
      - simpl. congruence.
      - unfold cpos. replace (Nat.ltb (S k) (length up)) with true by (symmetry; apply Nat.ltb_lt; lia).
        destruct (update_path_last_three t Hw) as [l' [x' [y' [z' [Hu3 [Hxy _]]]]]]; [lia|].
        rewrite Hu in Hu3. inversion Hu3 as [E3].
        assert (Hl' : length l' = k) by (apply (f_equal (@length nat)) in E3; rewrite app_length in E3; simpl in E3; lia).
        assert (Hx' : nth_error up k = Some x').
        { rewrite E3. rewrite nth_error_app2, Hl', Nat.sub_diag by lia. reflexivity. }
        assert (Hy' : nth_error up (S k) = Some y').
        { rewrite E3. rewrite nth_error_app2 by lia. rewrite Hl'. replace (S k - k) with 1 by lia. reflexivity. }
        assert (y' = y) by congruence. subst y'.
        destruct (proj2 Hgp k x' y Hx' Hy') as [nx [q [Hp [Hq _]]]].
        assert (Hne : x' <> y) by (eapply NoDup_nth_neq; eauto).
        rewrite (path_adjacent t x' y Hw Hxy Hne) in Hp. inversion Hp; subst nx q. rewrite Hq. reflexivity. }
    destruct (run_two t Hw s1 y z 1%Z I1 C1y Hadj) as [s2 [R2 [I2 C2]]].
    destruct (run_two t Hw s2 z y 1%Z I2 C2 (adjacent_sym _ _ _ Hadj)) as [s3 [R3 [I3 C3]]].
    (* backward sweep *)
    destruct (run_concat_seq t (t2s_backward (rev up) (back_orth_paths2 op))
                (fun u' s => inv t s /\ nth_error up (length up - 1 - u') = Some (centre s))
                (length up - 2) 1 bw s3 Hbw) as [s4 [R4 [I4 C4]]].
    { split; auto. replace (length up - 1 - 1) with (length l0) by lia. rewrite C3. exact Hy. }
    { intros u' es s0 Hu' Hes [I0 C0].
      destruct (t2s_backward_explicit up op u' es (proj1 Hgp)) as [nx [h [q [pp [Hnx [Hq [Epp ->]]]]]]]; [lia|exact Hes|].
      subst pp.
      assert (Hx : nth_error up (S (length up - 2 - u')) = Some (centre s0)).
      { replace (S (length up - 2 - u')) with (length up - 1 - u') by lia. exact C0. }
      destruct (moves_back t up op Hw Hgp (length up - 2 - u') nx (centre s0) h q s0 Hnx Hx Hq I0 eq_refl) as [Hadj' [s5 [R5 [I5 C5]]]].
      destruct (run_site_back t Hw s5 h 1%Z I5 C5) as [s6 [R6 [I6 C6]]].
      destruct (run_two t Hw s6 h nx 1%Z I6 C6 Hadj') as [s7 [R7 [I7 C7]]].
      exists s7. split.
      - eapply run_app_ok; [exact R5|]. eapply run_app_ok; [exact R6|exact R7].
      - split; auto. rewrite C7. replace (length up - 1 - S u') with (length up - 2 - u') by lia. exact Hnx. }
    replace (length up - 1 - (1 + (length up - 2))) with 0 in C4 by lia.
    assert (C4' : centre s4 = u) by congruence.
    exists s4. split; [|auto]. rewrite Etr.
    eapply run_app_ok; [exact R1|]. eapply run_app_ok; [eapply run_app_ok; [exact R2|exact R3]|exact R4].
  Qed.
End Fresh2s.

Theorem trace2s_sched_ok : forall t, NoDup (ids t) -> 2 <= size t -> exists tr, trace2s t = Some tr /\ sched_ok t tr.
Proof.
  intros t Hw Hs. destruct (trace2s_defined t Hw Hs) as [tr Htr]. exists tr. split; auto.
  apply sched_ok_of_step; auto. exact (trace2s_step_ok t tr Hw Htr).
Qed.

(* ================================================================================== *)
(* the universal form of cache_fresh_bounded_9                                        *)
(* ================================================================================== *)
Theorem cache_fresh_universal : forall t, NoDup (ids t) -> 2 <= size t ->
  (exists tr, trace1 t = Some tr /\ sched_ok t tr) /\
  (exists tr, trace2 t = Some tr /\ sched_ok t tr) /\
  (exists tr, trace2s t = Some tr /\ sched_ok t tr).
Proof.
  intros t Hw Hs. split; [|split]; [apply trace1_sched_ok | apply trace2_sched_ok | apply trace2s_sched_ok]; auto.
Qed.
