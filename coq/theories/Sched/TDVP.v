(* Event-trace model of one time step of the three TDVP classes of
   pytreenet/time_evolution/tdvp_algorithms:
     trace1  = FirstOrderOneSiteTDVP.run_one_time_step   (firstorderonesite.py)
     trace2  = SecondOrderOneSiteTDVP.run_one_time_step  (secondorderonesite.py)
     trace2s = SecondOrderTwoSiteTDVP.run_one_time_step  (secondordertwosite.py, twositetdvp.py)
   as functions of the rooted ordered tree of the state: the update path
   (Tree/UpdatePath.v), the orthogonalisation paths (path_from_to(...)[1:], tdvp_algorithm.py),
   the backward paths of the second-order variants, and literally the order of the site /
   link / two-site updates, their time-step factors, the centre moves and the cache blocks
   that are rebuilt (update_tree_cache / _update_cache_after_split / init_cache_but_one).
   Factors are in HALF units of the time step: 2 = time_step_factor 1, 1 = factor 0.5.
   `None` = the implementation raises (IndexError for trees that are too small, unknown node).
   Second part: the executable checker of the schedule (centre tracking, assertions of the
   classes, version-stamp freshness of every environment block that is read) and the
   duration bookkeeping.  Definitions only; proofs are in TDVPProofs.v. *)
From Coq Require Import List Arith Bool ZArith.
From PTN Require Import Tree.RTree Tree.Nav Tree.UpdatePath Tree.CachePath.
Import ListNotations.

(* ---- events ------------------------------------------------------------------------ *)
Inductive ev : Type :=
| Site (n : nat) (f : Z)            (* _update_site(n, f/2): time_evolve forward, f/2 * dt *)
| SiteBack (n : nat) (f : Z)        (* _single_site_backwards_update(n, f/2): duration -f/2 * dt *)
| Split (a b : nat)                 (* _split_updated_site: QR of a, R = node link_a_with_b *)
| Link (a b : nat) (f : Z)          (* _time_evolve_link_tensor: time_evolve backward, f/2 * dt *)
| Absorb (a b : nat)                (* contract_nodes(link_a_with_b, b); centre := b *)
| TwoSite (a b : nat) (f : Z)       (* _update_two_site_nodes up to the split; centre := b *)
| Move (a b : nat)                  (* _move_orth_center_to_neighbour: centre a -> neighbour b *)
| Cache (n m : nat)                 (* the block of n pointing to m is (re)built and stored *)
| Reinit                            (* a new, empty SandwichCache replaces the old one *)
| AssertCentre (n : nat)            (* assert state.orthogonality_center_id == n *)
| AssertLeaf (n : nat)              (* _assert_leaf_node *)
| AssertEnd (n : nat).              (* nneighbours() <= 1, only evaluated for > 2 nodes *)

(* ---- list helpers ------------------------------------------------------------------ *)
Fixpoint consec (p : list nat) : list (nat * nat) :=
  match p with
  | a :: ((b :: _) as r) => (a, b) :: consec r
  | _ => []
  end.

Definition last_opt (l : list nat) : option nat :=
  match l with [] => None | _ => Some (last l 0) end.

Definition opt_app {A : Type} (a b : option (list A)) : option (list A) :=
  match a, b with Some x, Some y => Some (x ++ y) | _, _ => None end.

(* ---- paths computed in the constructors -------------------------------------------- *)
(* _find_tdvp_orthogonalization_path: path_from_to(up[i], up[i+1])[1::] *)
Definition orth_paths (t : rtree) (up : list nat) : option (list (list nat)) :=
  map_opt (fun s => option_map (@tl nat) (path_from_to t (fst s) (snd s))) (consec up).

(* SecondOrderOneSiteTDVP._init_second_order_orth_path *)
Definition back_orth_paths (t : rtree) (bup : list nat) : option (list (list nat)) :=
  match map_opt (fun s => option_map (@removelast nat) (path_from_to t (fst s) (snd s))) (consec (tl bup)),
        last_opt bup with
  | Some l, Some z => Some (l ++ [[z]])
  | _, _ => None
  end.

(* SecondOrderTwoSiteTDVP._init_second_order_orth_path *)
Definition back_orth_paths2 (op : list (list nat)) : list (list nat) := map (@rev nat) (rev op).

(* ---- building blocks ---------------------------------------------------------------- *)
(* _move_orth_and_update_cache_for_path *)
Definition moves (p : list nat) : list ev :=
  match p with
  | [] => []
  | a :: _ => AssertCentre a :: flat_map (fun s => [Move (fst s) (snd s); Cache (fst s) (snd s)]) (consec p)
  end.

(* _update_link *)
Definition link (a b : nat) (f : Z) : list ev :=
  [AssertCentre a; Split a b; Cache a b; Link a b f; Absorb a b].

(* _update_two_site_nodes *)
Definition two (a b : nat) (f : Z) : list ev := [TwoSite a b f; Cache a b].

(* SandwichCache.init_cache_but_one(state, hamiltonian, first) *)
Definition init_cache (t : rtree) (first : nat) : option (list ev) :=
  option_map (map (fun k => Cache (fst k) (snd k))) (cache_keys t first).

(* FirstOrderOneSiteTDVP._reset_for_next_time_step with the centre on `cur`.  The order in
   which init_cache_but_one creates the blocks follows the children lists of the state AT
   THAT MOMENT; centre moves permute children lists (contract_nodes puts the children of its
   first argument first), so the tree `tr` used here is an argument of its own: the state's
   tree when the reset happens, a re-ordering of the children lists of t. *)
Definition reset1 (tr : rtree) (cur first : nat) : option (list ev) :=
  match path_from_to tr cur first, init_cache tr first with
  | Some p, Some c => Some (map (fun s => Move (fst s) (snd s)) (consec p) ++ Reinit :: c)
  | _, _ => None
  end.

(* ---- first-order one-site ----------------------------------------------------------- *)
Definition t1_update (t tr : rtree) (up : list nat) (op : list (list nat)) (i : nat) : option (list ev) :=
  match nth_error up i with
  | None => None
  | Some n =>
      if Nat.eqb i (length up - 1) then                               (* _final_update *)
        match (match op with [] => Some [] | _ => nth_error op (length op - 1) end), nth_error up 0 with
        | Some p, Some first =>
            match reset1 tr n first with
            | Some r => Some (moves p ++ (if Nat.ltb 2 (size t) then [AssertEnd n] else []) ++ [Site n 2%Z] ++ r)
            | None => None
            end
        | _, _ => None
        end
      else if Nat.eqb i 0 then                                        (* _first_update *)
        match nth_error op 0 with
        | Some (nx :: _) => Some ([AssertCentre n; AssertLeaf n; Site n 2%Z] ++ link n nx 2%Z)
        | _ => None
        end
      else                                                            (* _normal_update *)
        match nth_error op (i - 1), nth_error op i with
        | Some p, Some (nx :: _) => Some (moves p ++ [Site n 2%Z] ++ link n nx 2%Z)
        | _, _ => None
        end
  end.

Definition trace1_of (t tr : rtree) (up : list nat) (op : list (list nat)) : option (list ev) :=
  concat_opt (map (t1_update t tr up op) (seq 0 (length up))).

(* t: the tree of the initial state (update path, orthogonalisation paths);
   tr: the tree of the state when _reset_for_next_time_step runs *)
Definition trace1_gen (t tr : rtree) : option (list ev) :=
  match update_path t with
  | Some up => match orth_paths t up with Some op => trace1_of t tr up op | None => None end
  | None => None
  end.

Definition trace1 (t : rtree) : option (list ev) := trace1_gen t t.

(* ---- second-order one-site ---------------------------------------------------------- *)
(* one iteration of forward_sweep *)
Definition t2_forward (up : list nat) (op : list (list nat)) (i : nat) : option (list ev) :=
  match nth_error up i, (if Nat.eqb i 0 then Some [] else nth_error op (i - 1)), nth_error op i with
  | Some n, Some p, Some (nx :: _) => Some (moves p ++ [AssertCentre n; Site n 1%Z] ++ link n nx 1%Z)
  | _, _, _ => None
  end.

(* _normal_backward_update(bup[ui], ui) *)
Definition t2_backward (bup : list nat) (bop : list (list nat)) (ui : nat) : option (list ev) :=
  match nth_error bup ui, nth_error bop (ui - 1), nth_error bup (ui + 1) with
  | Some n, Some p, Some nx =>
      Some ([AssertCentre n; Site n 1%Z] ++ moves p ++ link (last p n) nx 1%Z)
  | _, _, _ => None
  end.

Definition trace2_of (up : list nat) (op bop : list (list nat)) : option (list ev) :=
  let bup := rev up in
  let l := length up in
  match last_opt up, nth_error bup 1, last_opt bup with
  | Some z, Some b1, Some a =>
      opt_app (concat_opt (map (t2_forward up op) (seq 0 (l - 1))))
     (opt_app (Some ([AssertCentre z; Site z 2%Z] ++ link z b1 1%Z))
     (opt_app (concat_opt (map (t2_backward bup bop) (seq 1 (l - 2))))
              (Some [AssertCentre a; Site a 1%Z])))
  | _, _, _ => None
  end.

Definition trace2 (t : rtree) : option (list ev) :=
  match update_path t with
  | Some up =>
      match orth_paths t up, back_orth_paths t (rev up) with
      | Some op, Some bop => trace2_of up op bop
      | _, _ => None
      end
  | None => None
  end.

(* ---- second-order two-site ---------------------------------------------------------- *)
(* first_forward_update / normal_forward_update *)
Definition t2s_forward (up : list nat) (op : list (list nat)) (i : nat) : option (list ev) :=
  match nth_error up i, (if Nat.eqb i 0 then Some [] else nth_error op (i - 1)), nth_error op i with
  | Some n, Some p, Some (nx :: _) => Some (moves p ++ [AssertCentre n] ++ two n nx 1%Z ++ [SiteBack nx 1%Z])
  | _, _, _ => None
  end.

(* normal_backwards_update(i) *)
Definition t2s_backward (bup : list nat) (bop : list (list nat)) (i : nat) : option (list ev) :=
  match nth_error bop i, nth_error bup (i + 1) with
  | Some p, Some nx =>
      match last_opt p with
      | Some tg => Some (moves p ++ [SiteBack tg 1%Z] ++ two tg nx 1%Z)
      | None => None
      end
  | _, _ => None
  end.

Definition trace2s_of (up : list nat) (op : list (list nat)) : option (list ev) :=
  let bup := rev up in
  let bop := back_orth_paths2 op in
  let l := length up in
  match nth_error bup 1, nth_error bup 0 with
  | Some y, Some z =>                   (* up[-2], up[-1] *)
      opt_app (concat_opt (map (t2s_forward up op) (seq 0 (l - 2))))
     (opt_app (Some (two y z 1%Z ++ two z y 1%Z))
              (concat_opt (map (t2s_backward bup bop) (seq 1 (l - 2)))))
  | _, _ => None
  end.

Definition trace2s (t : rtree) : option (list ev) :=
  match update_path t with
  | Some up => match orth_paths t up with Some op => trace2s_of up op | None => None end
  | None => None
  end.

(* the cache the constructor builds (TDVPAlgorithm.__init__); ti: the state's tree after
   _orthogonalize_init (children lists possibly re-ordered) *)
Definition init_trace_gen (t ti : rtree) : option (list ev) :=
  match update_path t with
  | Some (u :: _) => init_cache ti u
  | _ => None
  end.

Definition init_trace (t : rtree) : option (list ev) := init_trace_gen t t.

(* ==================================================================================== *)
(* what the harness observes: time_evolve calls                                          *)
(* ==================================================================================== *)
(* (kind, a, b, signed factor): kind 0 = site (b = a), 1 = link a -> b, 2 = two-site a -> b *)
Definition call_of (e : ev) : list (nat * nat * nat * Z) :=
  match e with
  | Site n f => [(0, n, n, f)]
  | SiteBack n f => [(0, n, n, (- f)%Z)]
  | Link a b f => [(1, a, b, (- f)%Z)]
  | TwoSite a b f => [(2, a, b, f)]
  | _ => []
  end.
Definition calls (tr : list ev) : list (nat * nat * nat * Z) := flat_map call_of tr.

(* ==================================================================================== *)
(* durations                                                                             *)
(* ==================================================================================== *)
Definition zsum (l : list Z) : Z := fold_right Z.add 0%Z l.

Definition node_term (x : nat) (e : ev) : Z :=
  match e with
  | Site n f => if Nat.eqb n x then f else 0%Z
  | SiteBack n f => if Nat.eqb n x then (- f)%Z else 0%Z
  | _ => 0%Z
  end.

Definition on_edge (a b x y : nat) : bool :=
  (Nat.eqb a x && Nat.eqb b y) || (Nat.eqb a y && Nat.eqb b x).

Definition edge_term (x y : nat) (e : ev) : Z :=
  match e with
  | Link a b f => if on_edge a b x y then (- f)%Z else 0%Z
  | TwoSite a b f => if on_edge a b x y then f else 0%Z
  | _ => 0%Z
  end.

Definition any_term (e : ev) : Z :=
  match e with
  | Site _ f => f | SiteBack _ f => (- f)%Z | Link _ _ f => (- f)%Z | TwoSite _ _ f => f
  | _ => 0%Z
  end.

(* signed duration (half units) spent on node x / on the edge {x, y} / in total *)
Definition node_dur (x : nat) (tr : list ev) : Z := zsum (map (node_term x) tr).
Definition edge_dur (x y : nat) (tr : list ev) : Z := zsum (map (edge_term x y) tr).
Definition total_dur (tr : list ev) : Z := zsum (map any_term tr).

Definition adjb (t : rtree) (a b : nat) : bool :=
  existsb (fun e => (Nat.eqb (fst e) a && Nat.eqb (snd e) b) || (Nat.eqb (fst e) b && Nat.eqb (snd e) a)) (edges t).

(* every link / two-site event sits on a tree edge *)
Definition on_tree_edge (t : rtree) (e : ev) : bool :=
  match e with
  | Link a b _ | TwoSite a b _ => adjb t a b
  | _ => true
  end.

(* one-site schemes: +1 (2 half units) on every node, -1 on every edge *)
Definition dur_check_one (t : rtree) (tr : list ev) : bool :=
  forallb (fun x => Z.eqb (node_dur x tr) 2) (ids t) &&
  forallb (fun e => Z.eqb (edge_dur (fst e) (snd e) tr) (-2)) (edges t) &&
  forallb (on_tree_edge t) tr.

(* two-site scheme: +1 on every edge, -(degree - 1) on every node *)
Definition dur_check_two (t : rtree) (tr : list ev) : bool :=
  forallb (fun x => Z.eqb (node_dur x tr) (2 - 2 * Z.of_nat (degree t x))) (ids t) &&
  forallb (fun e => Z.eqb (edge_dur (fst e) (snd e) tr) 2) (edges t) &&
  forallb (on_tree_edge t) tr.

(* ==================================================================================== *)
(* the (object, factor) sequence and the palindrome check                               *)
(* ==================================================================================== *)
Inductive obj : Type := ONode (n : nat) | OEdge (a b : nat).   (* OEdge: a <= b *)

Definition mk_edge (a b : nat) : obj := OEdge (Nat.min a b) (Nat.max a b).

Definition obj_of (e : ev) : list (obj * Z) :=
  match e with
  | Site n f => [(ONode n, f)]
  | SiteBack n f => [(ONode n, (- f)%Z)]
  | Link a b f => [(mk_edge a b, (- f)%Z)]
  | TwoSite a b f => [(mk_edge a b, f)]
  | _ => []
  end.
Definition objs (tr : list ev) : list (obj * Z) := flat_map obj_of tr.

Definition obj_eqb (p q : obj * Z) : bool :=
  Z.eqb (snd p) (snd q) &&
  match fst p, fst q with
  | ONode a, ONode b => Nat.eqb a b
  | OEdge a b, OEdge c d => Nat.eqb a c && Nat.eqb b d
  | _, _ => false
  end.

Fixpoint list_eqb {A : Type} (e : A -> A -> bool) (a b : list A) : bool :=
  match a, b with
  | [], [] => true
  | x :: a', y :: b' => e x y && list_eqb e a' b'
  | _, _ => false
  end.

Definition palindromeb (tr : list ev) : bool := list_eqb obj_eqb (objs tr) (rev (objs tr)).

(* ==================================================================================== *)
(* the schedule checker: centre, assertions, version stamps                             *)
(* ==================================================================================== *)
(* nodes on n's side of the edge {n, m} ([] if n and m are not adjacent) *)
Definition is_parent (t : rtree) (p c : nat) : bool :=
  match parent_of c t with Some q => Nat.eqb q p | None => false end.

Definition behind (t : rtree) (n m : nat) : list nat :=
  if is_parent t m n then match subtree n t with Some s => ids s | None => [] end
  else if is_parent t n m then
    match subtree m t with
    | Some s => filter (fun x => negb (mem x (ids s))) (ids t)
    | None => []
    end
  else [].

Definition pair_eqb (p q : nat * nat) : bool := Nat.eqb (fst p) (fst q) && Nat.eqb (snd p) (snd q).

Record cst : Type := mk_cst {
  centre : nat;                                       (* the node holding the centre *)
  pend : option (nat * nat);                          (* a split-off link tensor not yet absorbed *)
  vers : list (nat * nat);                            (* node -> version of its tensor (default 0) *)
  blocks : list ((nat * nat) * list (nat * nat)) }.   (* (n, m) -> versions of everything behind n *)

Definition ver (vs : list (nat * nat)) (x : nat) : nat :=
  match assoc x vs with Some v => v | None => 0 end.

Definition bump (x : nat) (vs : list (nat * nat)) : list (nat * nat) :=
  (x, S (ver vs x)) :: vs.

Definition stamp (t : rtree) (vs : list (nat * nat)) (n m : nat) : list (nat * nat) :=
  map (fun x => (x, ver vs x)) (behind t n m).

Fixpoint find_block (k : nat * nat) (bs : list ((nat * nat) * list (nat * nat))) : option (list (nat * nat)) :=
  match bs with
  | [] => None
  | (k', s) :: r => if pair_eqb k k' then Some s else find_block k r
  end.

(* the block (n, m) exists and records the current versions of everything behind n *)
Definition fresh (t : rtree) (s : cst) (n m : nat) : bool :=
  match find_block (n, m) (blocks s) with
  | Some st => list_eqb pair_eqb st (stamp t (vers s) n m)
  | None => false
  end.

(* all blocks pointing into n, except the one coming from `but` *)
Definition env_fresh (t : rtree) (s : cst) (n : nat) (but : option nat) : bool :=
  forallb (fun y => match but with
                    | Some b => Nat.eqb y b || fresh t s y n
                    | None => fresh t s y n
                    end) (neighbours t n).

Definition no_pend (s : cst) : bool := match pend s with None => true | Some _ => false end.

Definition exec (t : rtree) (s : cst) (e : ev) : option cst :=
  match e with
  | Site n _ | SiteBack n _ =>
      if Nat.eqb (centre s) n && no_pend s && env_fresh t s n None
      then Some (mk_cst n None (bump n (vers s)) (blocks s)) else None
  | Split a b =>
      if Nat.eqb (centre s) a && no_pend s && adjb t a b
      then Some (mk_cst a (Some (a, b)) (bump a (vers s)) (blocks s)) else None
  | Link a b _ =>
      match pend s with
      | Some (a', b') => if pair_eqb (a, b) (a', b') && fresh t s a b && fresh t s b a then Some s else None
      | None => None
      end
  | Absorb a b =>
      match pend s with
      | Some (a', b') => if pair_eqb (a, b) (a', b') then Some (mk_cst b None (bump b (vers s)) (blocks s)) else None
      | None => None
      end
  | TwoSite a b _ =>
      if Nat.eqb (centre s) a && no_pend s && adjb t a b &&
         env_fresh t s a (Some b) && env_fresh t s b (Some a)
      then Some (mk_cst b None (bump a (bump b (vers s))) (blocks s)) else None
  | Move a b =>
      if Nat.eqb (centre s) a && no_pend s && adjb t a b
      then Some (mk_cst b None (bump a (bump b (vers s))) (blocks s)) else None
  | Cache n m =>
      (* contract_any(n, m): n's tensor with the blocks of all other neighbours of n *)
      if adjb t n m && env_fresh t s n (Some m)
      then Some (mk_cst (centre s) (pend s) (vers s) (((n, m), stamp t (vers s) n m) :: blocks s)) else None
  | Reinit => Some (mk_cst (centre s) (pend s) (vers s) [])
  | AssertCentre n => if Nat.eqb (centre s) n && no_pend s then Some s else None
  | AssertLeaf n => if is_leaf t n then Some s else None
  | AssertEnd n => if Nat.leb (degree t n) 1 then Some s else None
  end.

Fixpoint run (t : rtree) (s : cst) (tr : list ev) : option cst :=
  match tr with
  | [] => Some s
  | e :: r => match exec t s e with Some s' => run t s' r | None => None end
  end.

(* index of the first event that fails (diagnostics for the harness) *)
Fixpoint first_bad (t : rtree) (s : cst) (tr : list ev) (k : nat) : option nat :=
  match tr with
  | [] => None
  | e :: r => match exec t s e with Some s' => first_bad t s' r (S k) | None => Some k end
  end.

(* constructor (cache initialisation with the centre on update_path[0]), then two
   consecutive time steps; after each step the centre is back on update_path[0] *)
Definition sched_check_gen (t : rtree) (ini tr : option (list ev)) : bool :=
  match update_path t, ini, tr with
  | Some (u :: _), Some ini, Some tr =>
      match run t (mk_cst u None [] []) ini with
      | Some s0 =>
          match run t s0 tr with
          | Some s1 =>
              Nat.eqb (centre s1) u && no_pend s1 &&
              match run t s1 tr with
              | Some s2 => Nat.eqb (centre s2) u && no_pend s2
              | None => false
              end
          | None => false
          end
      | None => false
      end
  | _, _, _ => false
  end.

Definition sched_check (t : rtree) (tr : option (list ev)) : bool := sched_check_gen t (init_trace t) tr.

Definition fresh_check1 (t : rtree) : bool := sched_check t (trace1 t).
Definition fresh_check2 (t : rtree) : bool := sched_check t (trace2 t).
Definition fresh_check2s (t : rtree) : bool := sched_check t (trace2s t).
Definition fresh_check (t : rtree) : bool := fresh_check1 t && fresh_check2 t && fresh_check2s t.

Definition opt_check (f : list ev -> bool) (o : option (list ev)) : bool :=
  match o with Some tr => f tr | None => false end.

Definition dur_check (t : rtree) : bool :=
  opt_check (dur_check_one t) (trace1 t) && opt_check (dur_check_one t) (trace2 t) &&
  opt_check (dur_check_two t) (trace2s t).

Definition pal_check (t : rtree) : bool :=
  opt_check palindromeb (trace2 t) && opt_check palindromeb (trace2s t).
