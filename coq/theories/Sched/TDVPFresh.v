(* Bounded companion of cache_fresh (split from TDVPBounded.v to bound the compile time): the executable checkers of
   Sched/TDVP.v evaluated by the kernel (vm_compute) on EVERY rooted ordered tree with at
   most N nodes (Tree/Enum.v: trees_upto N, complete by Tree/EnumProofs.v), lifted to Prop
   with the soundness lemmas of Sched/TDVPProofs.v. *)
From Coq Require Import List Arith Bool ZArith Lia.
From PTN Require Import Tree.RTree Tree.Nav Tree.UpdatePath Tree.CachePath Tree.Enum Tree.EnumProofs
     Sched.TDVP Sched.TDVPProofs.
Import ListNotations.

Definition big (f : rtree -> bool) (t : rtree) : bool := Nat.ltb (size t) 2 || f t.

Lemma big_sound : forall f l, forallb (big f) l = true -> forall t, In t l -> 2 <= size t -> f t = true.
Proof.
  intros f l H t Ht Hs. rewrite forallb_forall in H. specialize (H t Ht). unfold big in H.
  apply orb_true_iff in H. destruct H as [H|H]; [apply Nat.ltb_lt in H; lia|exact H].
Qed.

(* ---- cache freshness, centre, assertions: constructor + two steps -------------------- *)
Lemma all_fresh1_9 : forallb (big fresh_check1) (trees_upto 9) = true.
Proof. vm_compute. reflexivity. Qed.
Lemma all_fresh2_9 : forallb (big fresh_check2) (trees_upto 9) = true.
Proof. vm_compute. reflexivity. Qed.
Lemma all_fresh2s_9 : forallb (big fresh_check2s) (trees_upto 9) = true.
Proof. vm_compute. reflexivity. Qed.

Theorem cache_fresh_bounded_9 : forall t, In t (trees_upto 9) -> 2 <= size t ->
  (exists tr, trace1 t = Some tr /\ sched_ok t tr) /\
  (exists tr, trace2 t = Some tr /\ sched_ok t tr) /\
  (exists tr, trace2s t = Some tr /\ sched_ok t tr).
Proof.
  intros t Ht Hs. repeat split.
  - apply sched_check_sound. exact (big_sound _ _ all_fresh1_9 t Ht Hs).
  - apply sched_check_sound. exact (big_sound _ _ all_fresh2_9 t Ht Hs).
  - apply sched_check_sound. exact (big_sound _ _ all_fresh2s_9 t Ht Hs).
Qed.

