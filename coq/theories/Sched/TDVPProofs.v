(* Proofs about the TDVP schedule model Sched/TDVP.v.
   Part 1: Prop readings (soundness) of the executable checkers.
   Part 2: universal theorems (every tree with unique identifiers and >= 2 nodes):
           the traces are defined, the durations of the site updates, the total duration,
           the structural assertions, events sit on tree edges.
   Part 3: Layer A — the algebra of a local update (abstract matrix algebra).
   The bounded (finite-domain) companions are in Sched/TDVPBounded.v. *)
From Coq Require Import List Arith Bool ZArith Lia Permutation.
From PTN Require Import Tree.RTree Tree.RTreeProofs Tree.Nav Tree.NavProofs Tree.UpdatePath
     Tree.UpdatePathProofs Tree.CachePath Tree.CachePathProofs Sched.TDVP.
Import ListNotations.

(* ================================================================================== *)
(* small facts                                                                        *)
(* ================================================================================== *)
Lemma adjb_spec : forall t a b, adjb t a b = true <-> adjacent t a b.
Proof.
  intros t a b. unfold adjb, adjacent. rewrite existsb_exists. split.
  - intros [[x y] [Hin H]]. simpl in H. apply orb_true_iff in H.
    destruct H as [H|H]; apply andb_true_iff in H; destruct H as [H1 H2];
      apply Nat.eqb_eq in H1; apply Nat.eqb_eq in H2; subst; auto.
  - intros [H|H]; eexists; (split; [exact H|]); simpl; rewrite !Nat.eqb_refl; simpl; auto using orb_true_r.
Qed.

Lemma pair_eqb_eq : forall p q, pair_eqb p q = true <-> p = q.
Proof.
  intros [a b] [c d]. unfold pair_eqb. simpl. rewrite andb_true_iff, !Nat.eqb_eq. split.
  - intros [-> ->]. reflexivity.
  - intros H. inversion H. auto.
Qed.

Lemma list_eqb_eq : forall {A} (e : A -> A -> bool), (forall x y, e x y = true <-> x = y) ->
  forall a b, list_eqb e a b = true <-> a = b.
Proof.
  intros A e He. induction a as [|x a IH]; intros [|y b]; simpl; split; intros H; try discriminate; auto.
  - apply andb_true_iff in H. destruct H as [H1 H2]. apply He in H1. apply IH in H2. subst. reflexivity.
  - inversion H; subst. apply andb_true_iff. split; [apply He|apply IH]; reflexivity.
Qed.

Lemma zsum_app : forall a b, zsum (a ++ b) = (zsum a + zsum b)%Z.
Proof. induction a; intros; simpl; [reflexivity|]. rewrite IHa. lia. Qed.

Lemma node_dur_app : forall x a b, node_dur x (a ++ b) = (node_dur x a + node_dur x b)%Z.
Proof. intros. unfold node_dur. rewrite map_app, zsum_app. reflexivity. Qed.
Lemma edge_dur_app : forall x y a b, edge_dur x y (a ++ b) = (edge_dur x y a + edge_dur x y b)%Z.
Proof. intros. unfold edge_dur. rewrite map_app, zsum_app. reflexivity. Qed.
Lemma total_dur_app : forall a b, total_dur (a ++ b) = (total_dur a + total_dur b)%Z.
Proof. intros. unfold total_dur. rewrite map_app, zsum_app. reflexivity. Qed.

(* ================================================================================== *)
(* Part 1: what the checkers establish                                                *)
(* ================================================================================== *)
(* ---- durations --------------------------------------------------------------------- *)
Definition events_on_edges (t : rtree) (tr : list ev) : Prop :=
  forall a b f, In (Link a b f) tr \/ In (TwoSite a b f) tr -> adjacent t a b.

(* one-site schemes (half units): +2 on every node, -2 on every edge *)
Definition durations_one (t : rtree) (tr : list ev) : Prop :=
  (forall x, In x (ids t) -> node_dur x tr = 2%Z) /\
  (forall p c, In (p, c) (edges t) -> edge_dur p c tr = (-2)%Z) /\
  events_on_edges t tr.

(* two-site scheme: +2 on every edge, -2 (degree - 1) on every node *)
Definition durations_two (t : rtree) (tr : list ev) : Prop :=
  (forall x, In x (ids t) -> node_dur x tr = (2 - 2 * Z.of_nat (degree t x))%Z) /\
  (forall p c, In (p, c) (edges t) -> edge_dur p c tr = 2%Z) /\
  events_on_edges t tr.

Lemma on_tree_edge_sound : forall t tr, forallb (on_tree_edge t) tr = true -> events_on_edges t tr.
Proof.
  intros t tr H a b f Hin. rewrite forallb_forall in H.
  destruct Hin as [Hin|Hin]; specialize (H _ Hin); simpl in H; apply adjb_spec; exact H.
Qed.

Lemma dur_check_one_sound : forall t tr, dur_check_one t tr = true -> durations_one t tr.
Proof.
  intros t tr H. unfold dur_check_one in H. apply andb_true_iff in H. destruct H as [H H3].
  apply andb_true_iff in H. destruct H as [H1 H2]. rewrite forallb_forall in H1, H2. repeat split.
  - intros x Hx. apply Z.eqb_eq. auto.
  - intros p c Hpc. apply Z.eqb_eq. exact (H2 (p, c) Hpc).
  - apply on_tree_edge_sound; auto.
Qed.

Lemma dur_check_two_sound : forall t tr, dur_check_two t tr = true -> durations_two t tr.
Proof.
  intros t tr H. unfold dur_check_two in H. apply andb_true_iff in H. destruct H as [H H3].
  apply andb_true_iff in H. destruct H as [H1 H2]. rewrite forallb_forall in H1, H2. repeat split.
  - intros x Hx. apply Z.eqb_eq. auto.
  - intros p c Hpc. apply Z.eqb_eq. exact (H2 (p, c) Hpc).
  - apply on_tree_edge_sound; auto.
Qed.

(* ---- the schedule checker ----------------------------------------------------------- *)
(* the block of n pointing to m exists and is stamped with the current versions of all
   tensors on n's side of the edge *)
Definition block_fresh (t : rtree) (s : cst) (n m : nat) : Prop :=
  find_block (n, m) (blocks s) = Some (stamp t (vers s) n m).

(* what an event requires of the state it is executed in *)
Definition requires (t : rtree) (s : cst) (e : ev) : Prop :=
  match e with
  | Site n _ | SiteBack n _ =>
      centre s = n /\ pend s = None /\ forall y, In y (neighbours t n) -> block_fresh t s y n
  | Split a b => centre s = a /\ pend s = None /\ adjacent t a b
  | Link a b _ => pend s = Some (a, b) /\ block_fresh t s a b /\ block_fresh t s b a
  | Absorb a b => pend s = Some (a, b)
  | TwoSite a b _ =>
      centre s = a /\ pend s = None /\ adjacent t a b /\
      (forall y, In y (neighbours t a) -> y <> b -> block_fresh t s y a) /\
      (forall y, In y (neighbours t b) -> y <> a -> block_fresh t s y b)
  | Move a b => centre s = a /\ pend s = None /\ adjacent t a b
  | Cache n m => adjacent t n m /\ forall y, In y (neighbours t n) -> y <> m -> block_fresh t s y n
  | Reinit => True
  | AssertCentre n => centre s = n /\ pend s = None
  | AssertLeaf n => is_leaf t n = true
  | AssertEnd n => degree t n <= 1
  end.

Lemma fresh_sound : forall t s n m, fresh t s n m = true -> block_fresh t s n m.
Proof.
  intros t s n m H. unfold fresh in H. unfold block_fresh. destruct (find_block (n, m) (blocks s)) as [st|]; [|discriminate].
  apply (list_eqb_eq pair_eqb pair_eqb_eq) in H. subst. reflexivity.
Qed.

Lemma env_fresh_none : forall t s n, env_fresh t s n None = true ->
  forall y, In y (neighbours t n) -> block_fresh t s y n.
Proof. intros t s n H y Hy. unfold env_fresh in H. rewrite forallb_forall in H. apply fresh_sound. auto. Qed.

Lemma env_fresh_but : forall t s n b, env_fresh t s n (Some b) = true ->
  forall y, In y (neighbours t n) -> y <> b -> block_fresh t s y n.
Proof.
  intros t s n b H y Hy Hne. unfold env_fresh in H. rewrite forallb_forall in H. specialize (H y Hy).
  apply orb_true_iff in H. destruct H as [H|H]; [apply Nat.eqb_eq in H; contradiction|]. apply fresh_sound. exact H.
Qed.

Lemma no_pend_spec : forall s, no_pend s = true <-> pend s = None.
Proof. intros s. unfold no_pend. destruct (pend s); split; congruence. Qed.

Lemma exec_sound : forall t s e s', exec t s e = Some s' -> requires t s e.
Proof.
  intros t s e s' H. destruct e; simpl in H |- *.
  - destruct (Nat.eqb (centre s) n && no_pend s && env_fresh t s n None) eqn:E; [|discriminate].
    apply andb_true_iff in E. destruct E as [E E3]. apply andb_true_iff in E. destruct E as [E1 E2].
    apply Nat.eqb_eq in E1. apply no_pend_spec in E2. repeat split; auto. apply env_fresh_none; auto.
  - destruct (Nat.eqb (centre s) n && no_pend s && env_fresh t s n None) eqn:E; [|discriminate].
    apply andb_true_iff in E. destruct E as [E E3]. apply andb_true_iff in E. destruct E as [E1 E2].
    apply Nat.eqb_eq in E1. apply no_pend_spec in E2. repeat split; auto. apply env_fresh_none; auto.
  - destruct (Nat.eqb (centre s) a && no_pend s && adjb t a b) eqn:E; [|discriminate].
    apply andb_true_iff in E. destruct E as [E E3]. apply andb_true_iff in E. destruct E as [E1 E2].
    apply Nat.eqb_eq in E1. apply no_pend_spec in E2. apply adjb_spec in E3. auto.
  - destruct (pend s) as [[a' b']|]; [|discriminate].
    destruct (pair_eqb (a, b) (a', b') && fresh t s a b && fresh t s b a) eqn:E; [|discriminate].
    apply andb_true_iff in E. destruct E as [E E3]. apply andb_true_iff in E. destruct E as [E1 E2].
    apply pair_eqb_eq in E1. inversion E1; subst. repeat split; auto using fresh_sound.
  - destruct (pend s) as [[a' b']|]; [|discriminate].
    destruct (pair_eqb (a, b) (a', b')) eqn:E; [|discriminate]. apply pair_eqb_eq in E. inversion E; subst. reflexivity.
  - destruct (Nat.eqb (centre s) a && no_pend s && adjb t a b && env_fresh t s a (Some b) && env_fresh t s b (Some a)) eqn:E; [|discriminate].
    apply andb_true_iff in E. destruct E as [E E5]. apply andb_true_iff in E. destruct E as [E E4].
    apply andb_true_iff in E. destruct E as [E E3]. apply andb_true_iff in E. destruct E as [E1 E2].
    apply Nat.eqb_eq in E1. apply no_pend_spec in E2. apply adjb_spec in E3.
    repeat split; auto; apply env_fresh_but; auto.
  - destruct (Nat.eqb (centre s) a && no_pend s && adjb t a b) eqn:E; [|discriminate].
    apply andb_true_iff in E. destruct E as [E E3]. apply andb_true_iff in E. destruct E as [E1 E2].
    apply Nat.eqb_eq in E1. apply no_pend_spec in E2. apply adjb_spec in E3. auto.
  - destruct (adjb t n m && env_fresh t s n (Some m)) eqn:E; [|discriminate].
    apply andb_true_iff in E. destruct E as [E1 E2]. apply adjb_spec in E1. split; auto. apply env_fresh_but; auto.
  - exact I.
  - destruct (Nat.eqb (centre s) n && no_pend s) eqn:E; [|discriminate].
    apply andb_true_iff in E. destruct E as [E1 E2]. apply Nat.eqb_eq in E1. apply no_pend_spec in E2. auto.
  - destruct (is_leaf t n); [reflexivity|discriminate].
  - destruct (Nat.leb (degree t n) 1) eqn:E; [|discriminate]. apply Nat.leb_le. exact E.
Qed.

(* a successful run: every event finds what it requires in the state it is executed in *)
Theorem run_sound : forall t tr s s', run t s tr = Some s' ->
  forall pre e post, tr = pre ++ e :: post ->
  exists sk, run t s pre = Some sk /\ requires t sk e.
Proof.
  intros t tr. induction tr as [|e0 tr IH]; intros s s' H pre e post E.
  - destruct pre; discriminate.
  - simpl in H. destruct (exec t s e0) as [s1|] eqn:Ex; [|discriminate]. destruct pre as [|p pre].
    + simpl in E. inversion E; subst. exists s. split; [reflexivity|]. eapply exec_sound; eauto.
    + simpl in E. inversion E; subst. destruct (IH s1 s' H pre e post eq_refl) as [sk [Hr Hq]].
      exists sk. split; auto. simpl. rewrite Ex. exact Hr.
Qed.

(* constructor, then two consecutive steps; the centre returns to update_path[0] *)
Definition sched_ok (t : rtree) (tr : list ev) : Prop :=
  exists u l ini s0 s1 s2,
    update_path t = Some (u :: l) /\ init_trace t = Some ini /\
    run t (mk_cst u None [] []) ini = Some s0 /\
    run t s0 tr = Some s1 /\ centre s1 = u /\ pend s1 = None /\
    run t s1 tr = Some s2 /\ centre s2 = u /\ pend s2 = None.

Lemma sched_check_sound : forall t o, sched_check t o = true -> exists tr, o = Some tr /\ sched_ok t tr.
Proof.
  intros t o H. unfold sched_check, sched_check_gen in H.
  destruct (update_path t) as [[|u l]|] eqn:Eu; try discriminate.
  destruct (init_trace t) as [ini|] eqn:Ei; [|discriminate]. destruct o as [tr|]; [|discriminate].
  destruct (run t (mk_cst u None [] []) ini) as [s0|] eqn:E0; [|discriminate].
  destruct (run t s0 tr) as [s1|] eqn:E1; [|discriminate].
  apply andb_true_iff in H. destruct H as [H H2]. apply andb_true_iff in H. destruct H as [Hc1 Hp1].
  destruct (run t s1 tr) as [s2|] eqn:E2; [|discriminate].
  apply andb_true_iff in H2. destruct H2 as [Hc2 Hp2].
  apply Nat.eqb_eq in Hc1. apply Nat.eqb_eq in Hc2. apply no_pend_spec in Hp1. apply no_pend_spec in Hp2.
  exists tr. split; [reflexivity|]. exists u, l, ini, s0, s1, s2. repeat split; auto.
Qed.

(* palindromes *)
Lemma obj_eqb_eq : forall p q, obj_eqb p q = true <-> p = q.
Proof.
  intros [[a|a b] f] [[c|c d] g]; unfold obj_eqb; simpl; rewrite ?andb_true_iff, ?Z.eqb_eq, ?Nat.eqb_eq; split; intros H.
  - destruct H as [-> ->]. reflexivity.
  - inversion H. auto.
  - destruct H; discriminate.
  - discriminate.
  - destruct H; discriminate.
  - discriminate.
  - destruct H as [-> [-> ->]]. reflexivity.
  - inversion H. auto.
Qed.

Lemma palindromeb_sound : forall tr, palindromeb tr = true -> objs tr = rev (objs tr).
Proof. intros tr H. apply (list_eqb_eq obj_eqb obj_eqb_eq). exact H. Qed.

(* the sets `behind` stands for *)
Lemma behind_child_side : forall t p c s, NoDup (ids t) -> In (p, c) (edges t) -> subtree c t = Some s ->
  behind t c p = ids s.
Proof.
  intros t p c s Hw He Hs. unfold behind, is_parent. rewrite (parent_of_complete t p c Hw He), Nat.eqb_refl, Hs. reflexivity.
Qed.

Lemma behind_parent_side : forall t p c s, NoDup (ids t) -> In (p, c) (edges t) -> subtree c t = Some s ->
  forall x, In x (behind t p c) <-> In x (ids t) /\ ~ In x (ids s).
Proof.
  intros t p c s Hw He Hs x. unfold behind, is_parent. rewrite (parent_of_complete t p c Hw He), Nat.eqb_refl.
  assert (Hpc : p <> c).
  { intro E. subst c. pose proof (subtree_sound _ _ _ Hs) as [Hr Hsub]. destruct s as [j gs]. simpl in Hr. subst j.
    pose proof (is_subtree_wf _ _ Hsub Hw) as Hws.
    assert (In (p, p) (edges (RNode p gs))).
    { apply edges_spec in He. destruct He as [s' [Hsub' [Hr' Hc']]].
      assert (s' = RNode p gs).
      { pose proof (subtree_complete t s' Hw Hsub') as C1. rewrite Hr' in C1. congruence. }
      subst s'. simpl in Hc'. apply in_map_iff in Hc'. destruct Hc' as [g [Eg Hg]]. simpl. apply in_or_app. left.
      apply in_map_iff. exists g. split; [rewrite Eg; reflexivity|exact Hg]. }
    eapply edges_child_not_root; eauto. }
  destruct (parent_of p t) as [q|] eqn:Ep.
  - destruct (Nat.eqb q c) eqn:Eq.
    + (* c would be the parent of p and p the parent of c *)
      apply Nat.eqb_eq in Eq. subst q. apply parent_of_sound in Ep.
      exfalso.
      (* depth argument: depth c = depth p + 1 and depth p = depth c + 1 *)
      assert (Hp : In p (ids t)) by (eapply edges_in_ids; eauto).
      rewrite <- (depths_keys t 0) in Hp. apply in_map_iff in Hp. destruct Hp as [[p' v] [Ep' Hv]]. simpl in Ep'. subst p'.
      pose proof (assoc_NoDup_In _ _ _ (depths_NoDup_keys t 0 Hw) Hv) as A1.
      pose proof (depth_edge t p c v Hw He A1) as A2. pose proof (depth_edge t c p (S v) Hw Ep A2) as A3.
      rewrite A1 in A3. inversion A3. lia.
    + rewrite Hs. rewrite filter_In. rewrite negb_true_iff, mem_false. tauto.
  - rewrite Hs. rewrite filter_In. rewrite negb_true_iff, mem_false. tauto.
Qed.

(* ================================================================================== *)
(* Part 2: universal theorems                                                         *)
(* ================================================================================== *)
(* ---- option/list plumbing ---------------------------------------------------------- *)
Lemma opt_app_Some : forall {A} (a b : option (list A)) r, opt_app a b = Some r ->
  exists x y, a = Some x /\ b = Some y /\ r = x ++ y.
Proof. intros A [x|] [y|] r H; simpl in H; try discriminate. inversion H. eauto. Qed.

Lemma concat_opt_cons : forall {A} (o : option (list A)) l r, concat_opt (o :: l) = Some r ->
  exists x y, o = Some x /\ concat_opt l = Some y /\ r = x ++ y.
Proof.
  intros A [x|] l r H; simpl in H; [|discriminate]. destruct (concat_opt l) as [y|]; [|discriminate].
  inversion H. eauto.
Qed.

Lemma concat_opt_map_defined : forall {A B} (f : A -> option (list B)) l,
  (forall i, In i l -> exists es, f i = Some es) -> exists r, concat_opt (map f l) = Some r.
Proof.
  intros A B f l. induction l as [|i l IH]; intros H; simpl; [eauto|].
  destruct (H i (or_introl eq_refl)) as [es ->]. destruct IH as [r ->]; [intros; apply H; right; auto|]. eauto.
Qed.

Lemma concat_opt_map_sum : forall (F : list ev -> Z), (forall a b, F (a ++ b) = (F a + F b)%Z) -> F [] = 0%Z ->
  forall (f : nat -> option (list ev)) (g : nat -> Z) l r,
  concat_opt (map f l) = Some r -> (forall i es, In i l -> f i = Some es -> F es = g i) ->
  F r = zsum (map g l).
Proof.
  intros F Fa F0 f g l. induction l as [|i l IH]; intros r H Hg.
  - simpl in H. inversion H. exact F0.
  - simpl map in H. apply concat_opt_cons in H. destruct H as [x [y [Hx [Hy ->]]]].
    rewrite Fa. simpl. rewrite (Hg i x (or_introl eq_refl) Hx). rewrite (IH y Hy); [reflexivity|].
    intros j es Hj. apply Hg. right. exact Hj.
Qed.

Lemma concat_opt_map_In : forall {A B} (f : A -> option (list B)) l r e,
  concat_opt (map f l) = Some r -> In e r -> exists i es, In i l /\ f i = Some es /\ In e es.
Proof.
  intros A B f l. induction l as [|i l IH]; intros r e H He.
  - simpl in H. inversion H; subst. destruct He.
  - simpl map in H. apply concat_opt_cons in H. destruct H as [x [y [Hx [Hy ->]]]].
    apply in_app_or in He. destruct He as [He|He].
    + exists i, x. auto with datatypes.
    + destruct (IH y e Hy He) as [j [es [Hj [Hf Hi]]]]. exists j, es. auto with datatypes.
Qed.

Lemma map_opt_spec : forall {A B} (f : A -> option B) l r, map_opt f l = Some r ->
  length r = length l /\
  forall i a, nth_error l i = Some a -> exists b, f a = Some b /\ nth_error r i = Some b.
Proof.
  intros A B f l. induction l as [|a l IH]; intros r H; simpl in H.
  - inversion H. split; auto. intros [|i] a Hn; discriminate.
  - destruct (f a) as [b|] eqn:Ef; [|discriminate]. destruct (map_opt f l) as [r'|]; [|discriminate].
    inversion H; subst. destruct (IH r' eq_refl) as [Hl Hn]. split; [simpl; congruence|].
    intros [|i] a' Hi; simpl in Hi.
    + inversion Hi; subst. exists b. auto.
    + apply Hn. exact Hi.
Qed.

Lemma map_opt_defined : forall {A B} (f : A -> option B) l,
  (forall a, In a l -> exists b, f a = Some b) -> exists r, map_opt f l = Some r.
Proof.
  intros A B f l. induction l as [|a l IH]; intros H; simpl; [eauto|].
  destruct (H a (or_introl eq_refl)) as [b ->]. destruct IH as [r ->]; [intros; apply H; right; auto|]. eauto.
Qed.

Lemma consec_length : forall p, length (consec p) = length p - 1.
Proof.
  induction p as [|a [|b r] IH]; simpl; auto. simpl in IH. rewrite IH. lia.
Qed.

Lemma consec_nth : forall p i a b, nth_error (consec p) i = Some (a, b) <->
  nth_error p i = Some a /\ nth_error p (S i) = Some b.
Proof.
  induction p as [|x [|y r] IH]; intros i a b.
  - simpl. destruct i; split; intros H; try discriminate; destruct H; discriminate.
  - simpl. destruct i as [|[|i]]; split; intros H; try discriminate; destruct H; discriminate.
  - destruct i as [|i].
    + simpl. split; intros H; [inversion H; auto|destruct H as [H1 H2]; inversion H1; inversion H2; auto].
    + change (consec (x :: y :: r)) with ((x, y) :: consec (y :: r)). simpl nth_error at 1.
      rewrite IH. simpl. tauto.
Qed.

Lemma consec_In : forall p a b, In (a, b) (consec p) -> exists i, nth_error p i = Some a /\ nth_error p (S i) = Some b.
Proof. intros p a b H. apply In_nth_error in H. destruct H as [i H]. exists i. apply consec_nth. exact H. Qed.

Lemma NoDup_nth_neq : forall (l : list nat) i a b, NoDup l -> nth_error l i = Some a -> nth_error l (S i) = Some b -> a <> b.
Proof.
  intros l i a b N Ha Hb E. subst b. rewrite NoDup_nth_error in N.
  assert (i = S i); [|lia]. apply N; [apply nth_error_Some; congruence|congruence].
Qed.

(* ---- the paths computed by the constructors ---------------------------------------- *)
(* op[i] = path_from_to(up[i], up[i+1])[1:], a non-empty walk along edges ending in up[i+1] *)
Definition good_paths (t : rtree) (up : list nat) (op : list (list nat)) : Prop :=
  length op = length up - 1 /\
  forall i a b, nth_error up i = Some a -> nth_error up (S i) = Some b ->
    exists nx q, path_from_to t a b = Some (a :: nx :: q) /\ nth_error op i = Some (nx :: q) /\
                 chain (adjacent t) (a :: nx :: q) /\ (exists r, nx :: q = r ++ [b]).

Lemma path_two : forall t a b, NoDup (ids t) -> In a (ids t) -> In b (ids t) -> a <> b ->
  exists nx q, path_from_to t a b = Some (a :: nx :: q) /\ chain (adjacent t) (a :: nx :: q) /\
               (exists r, nx :: q = r ++ [b]) /\ NoDup (a :: nx :: q).
Proof.
  intros t a b Hw Ha Hb Hne. destruct (path_from_to_spec t a b Hw Ha Hb) as [p [Hp [[r Hr] [[r' Hr'] [Hc Hn]]]]].
  subst p. destruct r as [|nx q].
  - destruct r' as [|x [|y r']]; simpl in Hr'; inversion Hr'; subst; try contradiction.
  - exists nx, q. split; [exact Hp|]. split; [exact Hc|]. split; [|exact Hn].
    destruct r' as [|x r']; simpl in Hr'.
    + inversion Hr'.
    + inversion Hr'; subst. exists r'. assumption.
Qed.

Lemma orth_paths_good : forall t up, NoDup (ids t) -> NoDup up -> (forall x, In x up -> In x (ids t)) ->
  exists op, orth_paths t up = Some op /\ good_paths t up op.
Proof.
  intros t up Hw Nup Hin. unfold orth_paths.
  destruct (map_opt_defined (fun s => option_map (@tl nat) (path_from_to t (fst s) (snd s))) (consec up)) as [op Hop].
  { intros [a b] Hab. apply consec_In in Hab. destruct Hab as [i [Ha Hb]]. simpl.
    destruct (path_two t a b Hw) as [nx [q [Hp _]]].
    - apply Hin. eapply nth_error_In; eauto.
    - apply Hin. eapply nth_error_In; eauto.
    - eapply NoDup_nth_neq; eauto.
    - rewrite Hp. simpl. eauto. }
  exists op. split; auto. destruct (map_opt_spec _ _ _ Hop) as [Hl Hn]. split.
  - rewrite Hl. apply consec_length.
  - intros i a b Ha Hb. destruct (path_two t a b Hw) as [nx [q [Hp [Hc [Hr _]]]]].
    + apply Hin. eapply nth_error_In; eauto.
    + apply Hin. eapply nth_error_In; eauto.
    + eapply NoDup_nth_neq; eauto.
    + exists nx, q. split; [exact Hp|]. split; [|split; [exact Hc|exact Hr]].
      destruct (Hn i (a, b)) as [o [Ho Hi]]; [apply consec_nth; auto|]. simpl in Ho. rewrite Hp in Ho. simpl in Ho.
      inversion Ho; subst. exact Hi.
Qed.

(* what C17 gives about the update path *)
Lemma update_path_facts : forall t, NoDup (ids t) ->
  exists up, update_path t = Some up /\ NoDup up /\ (forall x, In x up <-> In x (ids t)) /\ length up = size t.
Proof.
  intros t Hw. destruct (update_path_perm t Hw) as [up [Hu Hp]]. exists up. split; auto. split.
  - eapply Permutation_NoDup; [apply Permutation_sym; exact Hp|exact Hw].
  - split.
    + intros x. split; intro H; [eapply Permutation_in; eauto|eapply Permutation_in; [apply Permutation_sym|]; eauto].
    + rewrite size_length_ids. apply Permutation_length. exact Hp.
Qed.

(* ---- events without a duration ------------------------------------------------------- *)
Definition silent (e : ev) : Prop :=
  match e with Site _ _ | SiteBack _ _ | Link _ _ _ | TwoSite _ _ _ => False | _ => True end.

Lemma silent_durs : forall l, (forall e, In e l -> silent e) ->
  (forall x, node_dur x l = 0%Z) /\ (forall x y, edge_dur x y l = 0%Z) /\ total_dur l = 0%Z.
Proof.
  induction l as [|e l IH]; intros H.
  - repeat split.
  - destruct IH as [I1 [I2 I3]]; [intros; apply H; right; auto|].
    pose proof (H e (or_introl eq_refl)) as He.
    unfold node_dur, edge_dur, total_dur in *. simpl.
    repeat split; intros; destruct e; simpl in He; try contradiction; simpl; rewrite ?I1, ?I2, ?I3; reflexivity.
Qed.

(* moves: only centre assertions, moves and cache events *)
Definition move_like (e : ev) : Prop :=
  match e with AssertCentre _ | Move _ _ | Cache _ _ | Reinit => True | _ => False end.

Lemma moves_kind : forall p e, In e (moves p) -> move_like e.
Proof.
  intros p e H. unfold moves in H. destruct p as [|a p]; [destruct H|]. destruct H as [<-|H]; [exact I|].
  apply in_flat_map in H. destruct H as [s [_ [<-|[<-|[]]]]]; exact I.
Qed.

Lemma reset1_kind : forall tr cur first r e, reset1 tr cur first = Some r -> In e r -> move_like e.
Proof.
  intros tr cur first r e H He. unfold reset1, init_cache in H.
  destruct (path_from_to tr cur first) as [p|]; [|discriminate].
  destruct (cache_keys tr first) as [k|]; simpl in H; [|discriminate]. inversion H; subst.
  apply in_app_or in He. destruct He as [He|[<-|He]].
  - apply in_map_iff in He. destruct He as [s [<- _]]. exact I.
  - exact I.
  - apply in_map_iff in He. destruct He as [s [<- _]]. exact I.
Qed.

Lemma move_like_silent : forall e, move_like e -> silent e.
Proof. intros []; simpl; auto. Qed.

Lemma moves_durs : forall p, (forall x, node_dur x (moves p) = 0%Z) /\ (forall x y, edge_dur x y (moves p) = 0%Z) /\ total_dur (moves p) = 0%Z.
Proof. intros p. apply silent_durs. intros e H. apply move_like_silent. eapply moves_kind; eauto. Qed.

Lemma reset1_durs : forall tr cur first r, reset1 tr cur first = Some r ->
  (forall x, node_dur x r = 0%Z) /\ (forall x y, edge_dur x y r = 0%Z) /\ total_dur r = 0%Z.
Proof. intros. apply silent_durs. intros e H'. apply move_like_silent. eapply reset1_kind; eauto. Qed.

Lemma link_durs : forall a b f, (forall x, node_dur x (link a b f) = 0%Z) /\ total_dur (link a b f) = (- f)%Z.
Proof. intros. unfold node_dur, total_dur. simpl. split; intros; lia. Qed.

(* ---- sums over index ranges ---------------------------------------------------------- *)
Definition cntz (x : nat) (l : list nat) : Z := zsum (map (fun n => if Nat.eqb n x then 1%Z else 0%Z) l).

Lemma cntz_app : forall x a b, cntz x (a ++ b) = (cntz x a + cntz x b)%Z.
Proof. intros. unfold cntz. rewrite map_app, zsum_app. reflexivity. Qed.

Lemma cntz_rev : forall x l, cntz x (rev l) = cntz x l.
Proof.
  intros x l. induction l as [|a l IH]; [reflexivity|]. simpl rev. rewrite cntz_app, IH. unfold cntz. simpl. lia.
Qed.

Lemma cntz_notin : forall x l, ~ In x l -> cntz x l = 0%Z.
Proof.
  intros x l. induction l as [|a l IH]; intros H; [reflexivity|]. unfold cntz in *. simpl.
  destruct (Nat.eqb a x) eqn:E; [apply Nat.eqb_eq in E; subst; exfalso; apply H; left; reflexivity|].
  rewrite IH; [reflexivity|]. intro; apply H; right; auto.
Qed.

Lemma cntz_NoDup : forall x l, NoDup l -> In x l -> cntz x l = 1%Z.
Proof.
  intros x l N. induction N as [|a l Ha N IH]; intros H; [destruct H|].
  change (cntz x (a :: l)) with ((if Nat.eqb a x then 1 else 0) + cntz x l)%Z.
  destruct H as [->|H].
  - rewrite Nat.eqb_refl, cntz_notin; auto.
  - destruct (Nat.eqb a x) eqn:E; [apply Nat.eqb_eq in E; subst; contradiction|]. rewrite IH; auto.
Qed.

Lemma zsum_scaled : forall x c l, zsum (map (fun n => if Nat.eqb n x then c else 0%Z) l) = (c * cntz x l)%Z.
Proof.
  intros x c l. induction l as [|a l IH]; [unfold cntz; simpl; lia|].
  change (cntz x (a :: l)) with ((if Nat.eqb a x then 1 else 0) + cntz x l)%Z.
  cbn [map zsum fold_right]. fold (zsum (map (fun n => if Nat.eqb n x then c else 0%Z) l)). rewrite IH.
  destruct (Nat.eqb a x); lia.
Qed.

(* sum over indices a .. a+k-1 of a function of l[i] = sum over the slice *)
Lemma zsum_nth_seq : forall (h : nat -> Z) (l : list nat) k a, a + k <= length l ->
  zsum (map (fun i => match nth_error l i with Some n => h n | None => 0%Z end) (seq a k)) =
  zsum (map h (firstn k (skipn a l))).
Proof.
  intros h l k. induction k as [|k IH]; intros a H; [reflexivity|].
  simpl seq. simpl map. destruct (nth_error l a) as [n|] eqn:En.
  - assert (Es : skipn a l = n :: skipn (S a) l).
    { clear -En. revert l En. induction a as [|a IH]; intros [|x l] En; simpl in *; try discriminate.
      - inversion En. reflexivity.
      - apply IH. exact En. }
    rewrite Es. simpl. rewrite IH; [reflexivity|lia].
  - apply nth_error_None in En. lia.
Qed.

(* ================================================================================== *)
(* first-order one-site                                                               *)
(* ================================================================================== *)
Lemma t1_update_inv : forall t tr up op i es, t1_update t tr up op i = Some es ->
  exists n, nth_error up i = Some n /\
  ((i = length up - 1 /\ exists p first r, nth_error up 0 = Some first /\ reset1 tr n first = Some r /\
       es = moves p ++ (if Nat.ltb 2 (size t) then [AssertEnd n] else []) ++ [Site n 2%Z] ++ r) \/
   (i <> length up - 1 /\ i = 0 /\ exists nx q, nth_error op 0 = Some (nx :: q) /\
       es = [AssertCentre n; AssertLeaf n; Site n 2%Z] ++ link n nx 2%Z) \/
   (i <> length up - 1 /\ i <> 0 /\ exists p nx q, nth_error op i = Some (nx :: q) /\
       es = moves p ++ [Site n 2%Z] ++ link n nx 2%Z)).
Proof.
  intros t tr up op i es H. unfold t1_update in H. destruct (nth_error up i) as [n|] eqn:En; [|discriminate].
  exists n. split; auto. destruct (Nat.eqb i (length up - 1)) eqn:Ei.
  - apply Nat.eqb_eq in Ei. left. split; auto.
    destruct (match op with [] => Some [] | _ :: _ => nth_error op (length op - 1) end) as [p|]; [|discriminate].
    destruct (nth_error up 0) as [first|]; [|discriminate].
    destruct (reset1 tr n first) as [r|] eqn:Er; [|discriminate]. inversion H. exists p, first, r. auto.
  - apply Nat.eqb_neq in Ei. right. destruct (Nat.eqb i 0) eqn:E0.
    + apply Nat.eqb_eq in E0. left. split; auto. split; auto.
      destruct (nth_error op 0) as [[|nx q]|]; try discriminate. inversion H. exists nx, q. auto.
    + apply Nat.eqb_neq in E0. right. split; auto. split; auto.
      destruct (nth_error op (i - 1)) as [p|]; [|discriminate].
      destruct (nth_error op i) as [[|nx q]|]; try discriminate. inversion H. exists p, nx, q. auto.
Qed.

Lemma t1_update_node_dur : forall t tr up op i es n x, t1_update t tr up op i = Some es -> nth_error up i = Some n ->
  node_dur x es = if Nat.eqb n x then 2%Z else 0%Z.
Proof.
  intros t tr up op i es n x H Hn. apply t1_update_inv in H. destruct H as [n' [Hn' H]].
  assert (n' = n) by congruence. subst n'.
  destruct H as [[_ [p [first [r [_ [Hr ->]]]]]]|[[_ [_ [nx [q [_ ->]]]]]|[_ [_ [p [nx [q [_ ->]]]]]]]].
  - rewrite !node_dur_app. destruct (moves_durs p) as [M _]. destruct (reset1_durs _ _ _ _ Hr) as [R _].
    rewrite M, R. destruct (Nat.ltb 2 (size t)); unfold node_dur; simpl; destruct (Nat.eqb n x); lia.
  - unfold node_dur. simpl. destruct (Nat.eqb n x); lia.
  - rewrite !node_dur_app. destruct (moves_durs p) as [M _]. rewrite M. destruct (link_durs n nx 2) as [L _]. rewrite L.
    unfold node_dur. simpl. destruct (Nat.eqb n x); lia.
Qed.

Lemma t1_update_total : forall t tr up op i es, t1_update t tr up op i = Some es ->
  total_dur es = if Nat.eqb i (length up - 1) then 2%Z else 0%Z.
Proof.
  intros t tr up op i es H. apply t1_update_inv in H. destruct H as [n [Hn H]].
  destruct H as [[Ei [p [first [r [_ [Hr ->]]]]]]|[[Ei [_ [nx [q [_ ->]]]]]|[Ei [_ [p [nx [q [_ ->]]]]]]]].
  - apply Nat.eqb_eq in Ei. rewrite Ei. rewrite !total_dur_app. destruct (moves_durs p) as [_ [_ M]].
    destruct (reset1_durs _ _ _ _ Hr) as [_ [_ R]]. rewrite M, R. destruct (Nat.ltb 2 (size t)); unfold total_dur; simpl; lia.
  - apply Nat.eqb_neq in Ei. rewrite Ei. unfold total_dur. simpl. lia.
  - apply Nat.eqb_neq in Ei. rewrite Ei. rewrite !total_dur_app. destruct (moves_durs p) as [_ [_ M]]. rewrite M.
    unfold total_dur. simpl. lia.
Qed.

Lemma zsum_indicator : forall (k : nat) (c : Z) n a, a <= k < a + n ->
  zsum (map (fun i => if Nat.eqb i k then c else 0%Z) (seq a n)) = c.
Proof.
  intros k c n. induction n as [|n IH]; intros a H; [lia|]. simpl.
  destruct (Nat.eqb a k) eqn:E.
  - apply Nat.eqb_eq in E. subst a.
    assert (Z0 : forall m b, k < b -> zsum (map (fun i => if Nat.eqb i k then c else 0%Z) (seq b m)) = 0%Z).
    { induction m as [|m IHm]; intros b Hb; [reflexivity|]. simpl.
      replace (Nat.eqb b k) with false by (symmetry; apply Nat.eqb_neq; lia). rewrite IHm; [reflexivity|lia]. }
    rewrite Z0; lia.
  - apply Nat.eqb_neq in E. rewrite IH; lia.
Qed.

Section Trace1.
  Variables (t t' : rtree) (tr : list ev).
  Hypothesis Hw : NoDup (ids t).
  Hypothesis Htr : trace1_gen t t' = Some tr.

  Lemma trace1_unfold : exists up op, update_path t = Some up /\ NoDup up /\ (forall x, In x up <-> In x (ids t)) /\
    length up = size t /\ orth_paths t up = Some op /\ good_paths t up op /\ trace1_of t t' up op = Some tr.
  Proof.
    destruct (update_path_facts t Hw) as [up [Hu [Nu [Hi Hl]]]].
    destruct (orth_paths_good t up Hw Nu (fun x H => proj1 (Hi x) H)) as [op [Ho Hg]].
    exists up, op. unfold trace1_gen in Htr. rewrite Hu, Ho in Htr. tauto.
  Qed.

  (* every node is updated for exactly one full step *)
  Theorem trace1_site_durations : forall x, In x (ids t) -> node_dur x tr = 2%Z.
  Proof.
    intros x Hx. destruct trace1_unfold as [up [op [Hu [Nu [Hi [Hl [Ho [Hg H]]]]]]]].
    unfold trace1_of in H.
    rewrite (concat_opt_map_sum (node_dur x) (node_dur_app x) eq_refl _
               (fun i => match nth_error up i with Some n => if Nat.eqb n x then 2%Z else 0%Z | None => 0%Z end) _ _ H).
    - rewrite (zsum_nth_seq (fun n => if Nat.eqb n x then 2%Z else 0%Z) up (length up) 0); [|lia].
      simpl skipn. rewrite firstn_all. rewrite zsum_scaled. rewrite cntz_NoDup; auto. apply Hi; auto.
    - intros i es Hin Hes. destruct (t1_update_inv _ _ _ _ _ _ Hes) as [n [Hn _]]. rewrite Hn.
      apply (t1_update_node_dur _ _ _ _ _ _ n x Hes Hn).
  Qed.

  (* the signed durations of one step add up to one step *)
  Theorem trace1_total_duration : total_dur tr = 2%Z.
  Proof.
    destruct trace1_unfold as [up [op [Hu [Nu [Hi [Hl [Ho [Hg H]]]]]]]].
    unfold trace1_of in H.
    rewrite (concat_opt_map_sum total_dur total_dur_app eq_refl _
               (fun i => if Nat.eqb i (length up - 1) then 2%Z else 0%Z) _ _ H).
    - apply zsum_indicator. assert (0 < length up); [|lia]. rewrite Hl. destruct t. simpl. lia.
    - intros i es _ Hes. eapply t1_update_total; eauto.
  Qed.

  (* link updates happen on tree edges; there are no two-site or backward site updates *)
  Theorem trace1_events : forall e, In e tr ->
    match e with
    | Link a b f => adjacent t a b /\ f = 2%Z
    | Site n f => In n (ids t) /\ f = 2%Z
    | TwoSite _ _ _ | SiteBack _ _ => False
    | AssertLeaf n => is_leaf t n = true
    | AssertEnd n => degree t n <= 1
    | _ => True
    end.
  Proof.
    intros e He. destruct trace1_unfold as [up [op [Hu [Nu [Hi [Hl [Ho [Hg H]]]]]]]].
    unfold trace1_of in H. destruct (concat_opt_map_In _ _ _ _ H He) as [i [es [Hi' [Hes Hin]]]].
    apply in_seq in Hi'. destruct (t1_update_inv _ _ _ _ _ _ Hes) as [n [Hn Hc]].
    assert (Hnin : In n (ids t)) by (apply Hi; eapply nth_error_In; eauto).
    assert (Hmv : forall p, In e (moves p) -> match e with
        | Link a b f => adjacent t a b /\ f = 2%Z | Site n f => In n (ids t) /\ f = 2%Z
        | TwoSite _ _ _ | SiteBack _ _ => False | AssertLeaf n => is_leaf t n = true | AssertEnd n => degree t n <= 1 | _ => True end).
    { intros p Hp. apply moves_kind in Hp. destruct e; simpl in Hp; try contradiction; exact I. }
    destruct Hc as [[Ei [p [first [r [_ [Hr ->]]]]]]|[[Ei [E0 [nx [q [Hq ->]]]]]|[Ei [E0 [p [nx [q [Hq ->]]]]]]]].
    - (* final update *)
      apply in_app_or in Hin. destruct Hin as [Hin|Hin]; [exact (Hmv p Hin)|].
      apply in_app_or in Hin. destruct Hin as [Hin|Hin].
      + destruct (Nat.ltb 2 (size t)); [|destruct Hin]. destruct Hin as [<-|[]].
        destruct (update_path_end t Hw) as [l [z [Hz Hd]]]. rewrite Hu in Hz. inversion Hz; subst up.
        rewrite app_length in Ei. simpl in Ei. replace (length l + 1 - 1) with (length l) in Ei by lia. subst i.
        rewrite nth_error_app2 in Hn by lia. rewrite Nat.sub_diag in Hn. simpl in Hn. inversion Hn; subst. exact Hd.
      + destruct Hin as [<-|Hin]; [auto|]. simpl in Hin.
        pose proof (reset1_kind _ _ _ _ _ Hr Hin) as K. destruct e; simpl in K; try contradiction; exact I.
    - (* first update *)
      subst i. assert (Hb : exists b, nth_error up 1 = Some b).
      { destruct (nth_error up 1) eqn:E; eauto. apply nth_error_None in E. lia. }
      destruct Hb as [b Hb]. destruct Hg as [_ Hg]. destruct (Hg 0 n b Hn Hb) as [nx' [q' [_ [Hq' [Hch _]]]]].
      rewrite Hq in Hq'. inversion Hq'; subst nx' q'. simpl in Hch. destruct Hch as [Hadj _].
      simpl in Hin. destruct Hin as [<-|[<-|[<-|[<-|[<-|[<-|[<-|[<-|[]]]]]]]]]; simpl; auto.
      destruct (update_path_start t Hw) as [st [l [F U]]]. rewrite Hu in U. inversion U; subst up. simpl in Hn. inversion Hn; subst.
      unfold is_leaf. rewrite (sf_leaf _ _ F). reflexivity.
    - (* normal update *)
      assert (Hb : exists b, nth_error up (S i) = Some b).
      { destruct (nth_error up (S i)) eqn:E; eauto. apply nth_error_None in E. lia. }
      destruct Hb as [b Hb]. destruct Hg as [_ Hg]. destruct (Hg i n b Hn Hb) as [nx' [q' [_ [Hq' [Hch _]]]]].
      rewrite Hq in Hq'. inversion Hq'; subst nx' q'. simpl in Hch. destruct Hch as [Hadj _].
      apply in_app_or in Hin. destruct Hin as [Hin|Hin]; [exact (Hmv p Hin)|].
      simpl in Hin. destruct Hin as [<-|[<-|[<-|[<-|[<-|[<-|[]]]]]]]; simpl; auto.
  Qed.
End Trace1.

Theorem trace1_defined : forall t, NoDup (ids t) -> exists tr, trace1 t = Some tr.
Proof.
  intros t Hw. destruct (update_path_facts t Hw) as [up [Hu [Nu [Hi Hl]]]].
  destruct (orth_paths_good t up Hw Nu (fun x H => proj1 (Hi x) H)) as [op [Ho [Hlen Hg]]].
  unfold trace1, trace1_gen. rewrite Hu, Ho. unfold trace1_of. apply concat_opt_map_defined.
  intros i Hi'. apply in_seq in Hi'. unfold t1_update.
  destruct (nth_error up i) as [n|] eqn:En; [|apply nth_error_None in En; lia].
  assert (Hf : exists first, nth_error up 0 = Some first).
  { destruct (nth_error up 0) eqn:E; eauto. apply nth_error_None in E. lia. }
  destruct Hf as [first Hf]. rewrite Hf.
  destruct (Nat.eqb i (length up - 1)) eqn:Ei.
  - assert (Hp : exists p, match op with [] => Some [] | _ :: _ => nth_error op (length op - 1) end = Some p).
    { destruct op as [|o op']; [eauto|]. destruct (nth_error (o :: op') (length (o :: op') - 1)) eqn:E; eauto.
      apply nth_error_None in E. simpl in E. lia. }
    destruct Hp as [p ->].
    assert (Hr : exists r, reset1 t n first = Some r).
    { unfold reset1, init_cache.
      assert (Hn : In n (ids t)) by (apply Hi; eapply nth_error_In; eauto).
      assert (Hfi : In first (ids t)) by (apply Hi; eapply nth_error_In; eauto).
      destruct (path_from_to_spec t n first Hw Hn Hfi) as [pp [-> _]].
      destruct (cache_keys_spec t first Hw Hfi) as [keys [-> _]]. simpl. eauto. }
    destruct Hr as [r ->]. eauto.
  - apply Nat.eqb_neq in Ei.
    assert (Hb : exists b, nth_error up (S i) = Some b).
    { destruct (nth_error up (S i)) eqn:E; eauto. apply nth_error_None in E. lia. }
    destruct Hb as [b Hb]. destruct (Hg i n b En Hb) as [nx [q [_ [Hq _]]]].
    destruct (Nat.eqb i 0) eqn:E0.
    + apply Nat.eqb_eq in E0. subst i. rewrite Hq. eauto.
    + apply Nat.eqb_neq in E0. rewrite Hq.
      destruct (nth_error op (i - 1)) eqn:E; [eauto|]. apply nth_error_None in E. lia.
Qed.

(* ================================================================================== *)
(* second-order one-site                                                              *)
(* ================================================================================== *)
Lemma last_opt_snoc : forall l z, last_opt (l ++ [z]) = Some z.
Proof.
  intros l z. unfold last_opt. destruct l as [|a l]; [reflexivity|].
  simpl app. cbv iota beta. f_equal. exact (last_last (a :: l) z 0).
Qed.

Lemma last_opt_Some : forall l z, last_opt l = Some z -> exists r, l = r ++ [z].
Proof.
  intros l z H. destruct l as [|a l]; [discriminate|].
  destruct (@exists_last _ (a :: l)) as [r [y Hy]]; [discriminate|]. rewrite Hy in H. rewrite last_opt_snoc in H.
  inversion H; subst. eauto.
Qed.

Lemma t2_forward_inv : forall up op i es, t2_forward up op i = Some es ->
  exists n p nx q, nth_error up i = Some n /\ nth_error op i = Some (nx :: q) /\
    es = moves p ++ [AssertCentre n; Site n 1%Z] ++ link n nx 1%Z.
Proof.
  intros up op i es H. unfold t2_forward in H. destruct (nth_error up i) as [n|]; [|discriminate].
  destruct (if Nat.eqb i 0 then Some [] else nth_error op (i - 1)) as [p|]; [|discriminate].
  destruct (nth_error op i) as [[|nx q]|]; try discriminate. inversion H. exists n, p, nx, q. auto.
Qed.

Lemma t2_backward_inv : forall bup bop ui es, t2_backward bup bop ui = Some es ->
  exists n p nx, nth_error bup ui = Some n /\ nth_error bop (ui - 1) = Some p /\ nth_error bup (ui + 1) = Some nx /\
    es = [AssertCentre n; Site n 1%Z] ++ moves p ++ link (last p n) nx 1%Z.
Proof.
  intros bup bop ui es H. unfold t2_backward in H. destruct (nth_error bup ui) as [n|]; [|discriminate].
  destruct (nth_error bop (ui - 1)) as [p|]; [|discriminate]. destruct (nth_error bup (ui + 1)) as [nx|]; [|discriminate].
  inversion H. exists n, p, nx. auto.
Qed.

Lemma trace2_of_inv : forall up op bop tr, trace2_of up op bop = Some tr ->
  exists z b1 a fw bw, last_opt up = Some z /\ nth_error (rev up) 1 = Some b1 /\ last_opt (rev up) = Some a /\
    concat_opt (map (t2_forward up op) (seq 0 (length up - 1))) = Some fw /\
    concat_opt (map (t2_backward (rev up) bop) (seq 1 (length up - 2))) = Some bw /\
    tr = fw ++ ([AssertCentre z; Site z 2%Z] ++ link z b1 1%Z) ++ bw ++ [AssertCentre a; Site a 1%Z].
Proof.
  intros up op bop tr H. unfold trace2_of in H. destruct (last_opt up) as [z|]; [|discriminate].
  destruct (nth_error (rev up) 1) as [b1|]; [|discriminate]. destruct (last_opt (rev up)) as [a|]; [|discriminate].
  apply opt_app_Some in H. destruct H as [fw [r1 [Hfw [H ->]]]].
  apply opt_app_Some in H. destruct H as [m [r2 [Hm [H ->]]]]. inversion Hm; subst m.
  apply opt_app_Some in H. destruct H as [bw [f [Hbw [Hf ->]]]]. inversion Hf; subst f.
  exists z, b1, a, fw, bw. repeat split; auto.
Qed.

Lemma t2_forward_durs : forall up op i es n x, t2_forward up op i = Some es -> nth_error up i = Some n ->
  node_dur x es = (if Nat.eqb n x then 1%Z else 0%Z) /\ total_dur es = 0%Z.
Proof.
  intros up op i es n x H Hn. apply t2_forward_inv in H. destruct H as [n' [p [nx [q [Hn' [_ ->]]]]]].
  assert (n' = n) by congruence. subst n'. rewrite !node_dur_app, !total_dur_app.
  destruct (moves_durs p) as [M [_ M3]]. rewrite M, M3. unfold node_dur, total_dur. simpl. destruct (Nat.eqb n x); lia.
Qed.

Lemma t2_backward_durs : forall bup bop i es n x, t2_backward bup bop i = Some es -> nth_error bup i = Some n ->
  node_dur x es = (if Nat.eqb n x then 1%Z else 0%Z) /\ total_dur es = 0%Z.
Proof.
  intros bup bop i es n x H Hn. apply t2_backward_inv in H. destruct H as [n' [p [nx [Hn' [_ [_ ->]]]]]].
  assert (n' = n) by congruence. subst n'. rewrite !node_dur_app, !total_dur_app.
  destruct (moves_durs p) as [M [_ M3]]. rewrite M, M3. unfold node_dur, total_dur. simpl. destruct (Nat.eqb n x); lia.
Qed.

Section Trace2.
  Variables (t : rtree) (tr : list ev).
  Hypothesis Hw : NoDup (ids t).
  Hypothesis Htr : trace2 t = Some tr.

  Lemma trace2_unfold : exists up op bop, update_path t = Some up /\ NoDup up /\ (forall x, In x up <-> In x (ids t)) /\
    trace2_of up op bop = Some tr.
  Proof.
    destruct (update_path_facts t Hw) as [up [Hu [Nu [Hi Hl]]]]. unfold trace2 in Htr. rewrite Hu in Htr.
    destruct (orth_paths t up) as [op|]; [|discriminate]. destruct (back_orth_paths t (rev up)) as [bop|]; [|discriminate].
    exists up, op, bop. tauto.
  Qed.

  Theorem trace2_total_duration : total_dur tr = 2%Z.
  Proof.
    destruct trace2_unfold as [up [op [bop [Hu [Nu [Hi H]]]]]].
    destruct (trace2_of_inv _ _ _ _ H) as [z [b1 [a [fw [bw [Hz [Hb1 [Ha [Hfw [Hbw ->]]]]]]]]]].
    rewrite !total_dur_app.
    rewrite (concat_opt_map_sum total_dur total_dur_app eq_refl _ (fun _ => 0%Z) _ _ Hfw).
    2:{ intros i es _ Hes. destruct (t2_forward_inv _ _ _ _ Hes) as [n [_ [_ [_ [Hn _]]]]].
        exact (proj2 (t2_forward_durs _ _ _ _ n 0 Hes Hn)). }
    rewrite (concat_opt_map_sum total_dur total_dur_app eq_refl _ (fun _ => 0%Z) _ _ Hbw).
    2:{ intros i es _ Hes. destruct (t2_backward_inv _ _ _ _ Hes) as [n [_ [_ [Hn _]]]].
        exact (proj2 (t2_backward_durs _ _ _ _ n 0 Hes Hn)). }
    assert (Z0 : forall l, zsum (map (fun _ : nat => 0%Z) l) = 0%Z) by (induction l; simpl; auto).
    rewrite !Z0. unfold total_dur. simpl. lia.
  Qed.

  Theorem trace2_site_durations : forall x, In x (ids t) -> node_dur x tr = 2%Z.
  Proof.
    intros x Hx. destruct trace2_unfold as [up [op [bop [Hu [Nu [Hi H]]]]]].
    destruct (trace2_of_inv _ _ _ _ H) as [z [b1 [a [fw [bw [Hz [Hb1 [Ha [Hfw [Hbw ->]]]]]]]]]].
    (* up = a0 :: mid ++ [z] *)
    destruct (last_opt_Some _ _ Hz) as [r Er].
    assert (Hlen : 2 <= length up).
    { assert (1 < length (rev up)) by (apply nth_error_Some; congruence). rewrite rev_length in H0. lia. }
    destruct r as [|a0 mid]; [subst up; simpl in Hlen; lia|].
    assert (Ea : a = a0).
    { assert (R : rev up = (z :: rev mid) ++ [a0]) by (rewrite Er; rewrite rev_app_distr; reflexivity).
      rewrite R in Ha. rewrite last_opt_snoc in Ha. congruence. }
    subst a.
    rewrite !node_dur_app.
    rewrite (concat_opt_map_sum (node_dur x) (node_dur_app x) eq_refl _
               (fun i => match nth_error up i with Some n => if Nat.eqb n x then 1%Z else 0%Z | None => 0%Z end) _ _ Hfw).
    2:{ intros i es _ Hes. destruct (t2_forward_inv _ _ _ _ Hes) as [n [_ [_ [_ [Hn _]]]]]. rewrite Hn.
        exact (proj1 (t2_forward_durs _ _ _ _ n x Hes Hn)). }
    rewrite (concat_opt_map_sum (node_dur x) (node_dur_app x) eq_refl _
               (fun i => match nth_error (rev up) i with Some n => if Nat.eqb n x then 1%Z else 0%Z | None => 0%Z end) _ _ Hbw).
    2:{ intros i es _ Hes. destruct (t2_backward_inv _ _ _ _ Hes) as [n [_ [_ [Hn _]]]]. rewrite Hn.
        exact (proj1 (t2_backward_durs _ _ _ _ n x Hes Hn)). }
    rewrite (zsum_nth_seq (fun n => if Nat.eqb n x then 1%Z else 0%Z) up (length up - 1) 0) by lia.
    rewrite (zsum_nth_seq (fun n => if Nat.eqb n x then 1%Z else 0%Z) (rev up) (length up - 2) 1) by (rewrite rev_length; lia).
    fold (cntz x (firstn (length up - 1) (skipn 0 up))). fold (cntz x (firstn (length up - 2) (skipn 1 (rev up)))).
    assert (E1 : firstn (length up - 1) (skipn 0 up) = a0 :: mid).
    { rewrite Er. change (skipn 0 ((a0 :: mid) ++ [z])) with ((a0 :: mid) ++ [z]).
      replace (length ((a0 :: mid) ++ [z]) - 1) with (length (a0 :: mid)) by (rewrite app_length; simpl; lia).
      rewrite firstn_app, Nat.sub_diag, firstn_all. apply app_nil_r. }
    assert (E2 : firstn (length up - 2) (skipn 1 (rev up)) = rev mid).
    { assert (R : rev up = (z :: rev mid) ++ [a0]) by (rewrite Er; rewrite rev_app_distr; reflexivity).
      rewrite R. change (skipn 1 ((z :: rev mid) ++ [a0])) with (rev mid ++ [a0]).
      replace (length up - 2) with (length (rev mid)) by (rewrite Er, rev_length, app_length; simpl; lia).
      rewrite firstn_app, Nat.sub_diag, firstn_all. apply app_nil_r. }
    rewrite E1, E2, cntz_rev.
    assert (C : cntz x up = 1%Z) by (apply cntz_NoDup; auto; apply Hi; auto).
    rewrite Er in C. change (a0 :: mid) with ([a0] ++ mid) in C. rewrite <- app_assoc in C. rewrite !cntz_app in C.
    change (a0 :: mid) with ([a0] ++ mid). rewrite cntz_app.
    unfold cntz in *. unfold node_dur. simpl in *. destruct (Nat.eqb a0 x), (Nat.eqb z x); lia.
  Qed.
End Trace2.

Lemma nth_error_defined : forall {A} (l : list A) i, i < length l -> exists a, nth_error l i = Some a.
Proof. intros A l i H. destruct (nth_error l i) eqn:E; eauto. apply nth_error_None in E. lia. Qed.

Lemma last_opt_defined : forall l, l <> [] -> exists z, last_opt l = Some z.
Proof. intros [|a l] H; [congruence|]. simpl. eauto. Qed.

Lemma opt_app_defined : forall {A} (a b : option (list A)), (exists x, a = Some x) -> (exists y, b = Some y) -> exists r, opt_app a b = Some r.
Proof. intros A a b [x ->] [y ->]. simpl. eauto. Qed.

Theorem trace2_defined : forall t, NoDup (ids t) -> 2 <= size t -> exists tr, trace2 t = Some tr.
Proof.
  intros t Hw Hs. destruct (update_path_facts t Hw) as [up [Hu [Nu [Hi Hl]]]].
  destruct (orth_paths_good t up Hw Nu (fun x H => proj1 (Hi x) H)) as [op [Ho [Hlen Hg]]].
  unfold trace2. rewrite Hu, Ho.
  assert (Hb : exists bop, back_orth_paths t (rev up) = Some bop /\ length bop = length up - 1).
  { unfold back_orth_paths.
    destruct (map_opt_defined (fun s => option_map (@removelast nat) (path_from_to t (fst s) (snd s))) (consec (tl (rev up)))) as [l Hm].
    { intros [a b] Hab. apply consec_In in Hab. destruct Hab as [i [Ha Hb]]. simpl.
      assert (Hin : forall y, In y (tl (rev up)) -> In y (ids t)).
      { intros y Hy. apply Hi. apply in_rev. destruct (rev up); [destruct Hy|right; exact Hy]. }
      destruct (path_from_to_spec t a b Hw) as [p [-> _]]; [apply Hin; eapply nth_error_In; eauto|apply Hin; eapply nth_error_In; eauto|].
      simpl. eauto. }
    rewrite Hm. destruct (last_opt_defined (rev up)) as [z ->].
    { intro E. apply (f_equal (@length nat)) in E. rewrite rev_length in E. simpl in E. lia. }
    eexists. split; [reflexivity|]. rewrite app_length. destruct (map_opt_spec _ _ _ Hm) as [Hml _]. rewrite Hml, consec_length.
    assert (length (tl (rev up)) = length up - 1) by (rewrite <- (rev_length up); destruct (rev up); simpl; lia).
    simpl. lia. }
  destruct Hb as [bop [-> Hbl]]. unfold trace2_of.
  destruct (last_opt_defined up) as [z ->]. { intro E. subst up. simpl in *. lia. }
  destruct (nth_error_defined (rev up) 1) as [b1 ->]. { rewrite rev_length. lia. }
  destruct (last_opt_defined (rev up)) as [a ->]. { intro E. apply (f_equal (@length nat)) in E. rewrite rev_length in E. simpl in E. lia. }
  apply opt_app_defined.
  - apply concat_opt_map_defined. intros i Hin. apply in_seq in Hin. unfold t2_forward.
    destruct (nth_error_defined up i) as [n Hn]; [lia|]. destruct (nth_error_defined up (S i)) as [b Hb]; [lia|].
    destruct (Hg i n b Hn Hb) as [nx [q [_ [Hq _]]]]. rewrite Hn, Hq.
    destruct (Nat.eqb i 0) eqn:E0; [eauto|]. apply Nat.eqb_neq in E0.
    destruct (nth_error_defined op (i - 1)) as [p ->]; [lia|]. eauto.
  - apply opt_app_defined; [eauto|]. apply opt_app_defined; [|eauto].
    apply concat_opt_map_defined. intros i Hin. apply in_seq in Hin. unfold t2_backward.
    destruct (nth_error_defined (rev up) i) as [n ->]; [rewrite rev_length; lia|].
    destruct (nth_error_defined bop (i - 1)) as [p ->]; [lia|].
    destruct (nth_error_defined (rev up) (i + 1)) as [nx ->]; [rewrite rev_length; lia|]. eauto.
Qed.

(* ================================================================================== *)
(* second-order two-site                                                              *)
(* ================================================================================== *)
Lemma t2s_forward_inv : forall up op i es, t2s_forward up op i = Some es ->
  exists n p nx q, nth_error up i = Some n /\ nth_error op i = Some (nx :: q) /\
    es = moves p ++ [AssertCentre n] ++ two n nx 1%Z ++ [SiteBack nx 1%Z].
Proof.
  intros up op i es H. unfold t2s_forward in H. destruct (nth_error up i) as [n|]; [|discriminate].
  destruct (if Nat.eqb i 0 then Some [] else nth_error op (i - 1)) as [p|]; [|discriminate].
  destruct (nth_error op i) as [[|nx q]|]; try discriminate. inversion H. exists n, p, nx, q. auto.
Qed.

Lemma t2s_backward_inv : forall bup bop i es, t2s_backward bup bop i = Some es ->
  exists p nx tg, nth_error bop i = Some p /\ nth_error bup (i + 1) = Some nx /\ last_opt p = Some tg /\
    es = moves p ++ [SiteBack tg 1%Z] ++ two tg nx 1%Z.
Proof.
  intros bup bop i es H. unfold t2s_backward in H. destruct (nth_error bop i) as [p|]; [|discriminate].
  destruct (nth_error bup (i + 1)) as [nx|]; [|discriminate]. destruct (last_opt p) as [tg|] eqn:El; [|discriminate].
  inversion H. exists p, nx, tg. auto.
Qed.

Lemma trace2s_of_inv : forall up op tr, trace2s_of up op = Some tr ->
  exists y z fw bw, nth_error (rev up) 1 = Some y /\ nth_error (rev up) 0 = Some z /\
    concat_opt (map (t2s_forward up op) (seq 0 (length up - 2))) = Some fw /\
    concat_opt (map (t2s_backward (rev up) (back_orth_paths2 op)) (seq 1 (length up - 2))) = Some bw /\
    tr = fw ++ (two y z 1%Z ++ two z y 1%Z) ++ bw.
Proof.
  intros up op tr H. unfold trace2s_of in H. destruct (nth_error (rev up) 1) as [y|]; [|discriminate].
  destruct (nth_error (rev up) 0) as [z|]; [|discriminate].
  apply opt_app_Some in H. destruct H as [fw [r1 [Hfw [H ->]]]].
  apply opt_app_Some in H. destruct H as [m [bw [Hm [Hbw ->]]]]. inversion Hm; subst m.
  exists y, z, fw, bw. repeat split; auto.
Qed.

Theorem trace2s_total_duration : forall t tr, trace2s t = Some tr -> total_dur tr = 2%Z.
Proof.
  intros t tr H. unfold trace2s in H. destruct (update_path t) as [up|]; [|discriminate].
  destruct (orth_paths t up) as [op|]; [|discriminate].
  destruct (trace2s_of_inv _ _ _ H) as [y [z [fw [bw [_ [_ [Hfw [Hbw ->]]]]]]]].
  rewrite !total_dur_app.
  rewrite (concat_opt_map_sum total_dur total_dur_app eq_refl _ (fun _ => 0%Z) _ _ Hfw).
  2:{ intros i es _ Hes. destruct (t2s_forward_inv _ _ _ _ Hes) as [n [p [nx [q [_ [_ ->]]]]]].
      rewrite !total_dur_app. destruct (moves_durs p) as [_ [_ M]]. rewrite M. unfold total_dur. simpl. lia. }
  rewrite (concat_opt_map_sum total_dur total_dur_app eq_refl _ (fun _ => 0%Z) _ _ Hbw).
  2:{ intros i es _ Hes. destruct (t2s_backward_inv _ _ _ _ Hes) as [p [nx [tg [_ [_ [_ ->]]]]]].
      rewrite !total_dur_app. destruct (moves_durs p) as [_ [_ M]]. rewrite M. unfold total_dur. simpl. lia. }
  assert (Z0 : forall l, zsum (map (fun _ : nat => 0%Z) l) = 0%Z) by (induction l; simpl; auto).
  rewrite !Z0. unfold total_dur. simpl. lia.
Qed.

Theorem trace2s_defined : forall t, NoDup (ids t) -> 2 <= size t -> exists tr, trace2s t = Some tr.
Proof.
  intros t Hw Hs. destruct (update_path_facts t Hw) as [up [Hu [Nu [Hi Hl]]]].
  destruct (orth_paths_good t up Hw Nu (fun x H => proj1 (Hi x) H)) as [op [Ho [Hlen Hg]]].
  unfold trace2s. rewrite Hu, Ho. unfold trace2s_of.
  destruct (nth_error_defined (rev up) 1) as [y ->]. { rewrite rev_length. lia. }
  destruct (nth_error_defined (rev up) 0) as [z ->]. { rewrite rev_length. lia. }
  apply opt_app_defined.
  - apply concat_opt_map_defined. intros i Hin. apply in_seq in Hin. unfold t2s_forward.
    destruct (nth_error_defined up i) as [n Hn]; [lia|]. destruct (nth_error_defined up (S i)) as [b Hb]; [lia|].
    destruct (Hg i n b Hn Hb) as [nx [q [_ [Hq _]]]]. rewrite Hn, Hq.
    destruct (Nat.eqb i 0) eqn:E0; [eauto|]. apply Nat.eqb_neq in E0.
    destruct (nth_error_defined op (i - 1)) as [p ->]; [lia|]. eauto.
  - apply opt_app_defined; [eauto|].
    apply concat_opt_map_defined. intros i Hin. apply in_seq in Hin. unfold t2s_backward, back_orth_paths2.
    assert (Hbl : length (map (@rev nat) (rev op)) = length up - 1) by (rewrite map_length, rev_length; exact Hlen).
    destruct (nth_error_defined (map (@rev nat) (rev op)) i) as [p Hp]; [lia|]. rewrite Hp.
    destruct (nth_error_defined (rev up) (i + 1)) as [nx ->]; [rewrite rev_length; lia|].
    (* every backward path is the reversal of a non-empty forward path *)
    assert (Hne : p <> []).
    { apply nth_error_In in Hp. apply in_map_iff in Hp. destruct Hp as [o [<- Ho']]. apply in_rev in Ho'.
      apply In_nth_error in Ho'. destruct Ho' as [k Hk].
      assert (Hkl : k < length op) by (apply nth_error_Some; congruence).
      destruct (nth_error_defined up k) as [a Ha]; [lia|]. destruct (nth_error_defined up (S k)) as [b Hb]; [lia|].
      destruct (Hg k a b Ha Hb) as [nx' [q [_ [Hq _]]]]. rewrite Hk in Hq. inversion Hq; subst o.
      intro E. apply (f_equal (@length nat)) in E. rewrite rev_length in E. simpl in E. lia. }
    destruct (last_opt_defined p Hne) as [tg ->]. eauto.
Qed.

(* ================================================================================== *)
(* Part 3: Layer A — the algebra of one local update                                  *)
(* ================================================================================== *)
(* Matrices of all shapes with product, adjoint and identities; the hypotheses are laws of
   matrix algebra (associativity, units, (xy)^+ = y^+ x^+, x^++ = x), nothing about the code.
   E : the embedding of the local tensor (D x N), H : the full operator, A : the local tensor
   as a column, U : the local propagator. *)
Section LayerA.
  Variable M : nat -> nat -> Type.
  Variable mul : forall {a b c : nat}, M a b -> M b c -> M a c.
  Variable adj : forall {a b : nat}, M a b -> M b a.
  Variable one : forall n : nat, M n n.
  Hypothesis mul_assoc : forall a b c d (x : M a b) (y : M b c) (z : M c d), mul x (mul y z) = mul (mul x y) z.
  Hypothesis mul_1_l : forall a b (x : M a b), mul (one a) x = x.
  Hypothesis adj_mul : forall a b c (x : M a b) (y : M b c), adj (mul x y) = mul (adj y) (adj x).
  Hypothesis adj_adj : forall a b (x : M a b), adj (adj x) = x.

  Variables D N : nat.
  Variable E : M D N.
  Variable H : M D D.
  Hypothesis E_isometry : mul (adj E) E = one N.
  Hypothesis H_hermitian : adj H = H.

  Definition Keff : M N N := mul (adj E) (mul H E).

  (* the projected Hamiltonian is Hermitian *)
  Lemma Keff_hermitian : adj Keff = Keff.
  Proof. unfold Keff. rewrite !adj_mul, adj_adj, H_hermitian, mul_assoc. reflexivity. Qed.

  (* norm and energy of the embedded state are those of the local tensor *)
  Lemma embed_norm : forall A : M N 1, mul (adj (mul E A)) (mul E A) = mul (adj A) A.
  Proof.
    intros A. rewrite adj_mul. rewrite <- (mul_assoc _ _ _ _ (adj A) (adj E) (mul E A)).
    rewrite (mul_assoc _ _ _ _ (adj E) E A), E_isometry, mul_1_l. reflexivity.
  Qed.

  Lemma embed_energy : forall A : M N 1, mul (adj (mul E A)) (mul H (mul E A)) = mul (adj A) (mul Keff A).
  Proof.
    intros A. unfold Keff. rewrite adj_mul. rewrite <- (mul_assoc _ _ _ _ (adj A) (adj E) (mul H (mul E A))).
    f_equal. rewrite (mul_assoc _ _ _ _ H E A). rewrite (mul_assoc _ _ _ _ (adj E) (mul H E) A). reflexivity.
  Qed.

  (* a unitary that commutes with K preserves <A|A> and <A|K|A> *)
  Variable U : M N N.
  Hypothesis U_unitary : mul (adj U) U = one N.
  Hypothesis U_commutes : mul U Keff = mul Keff U.

  Lemma local_norm_conserved : forall A : M N 1, mul (adj (mul U A)) (mul U A) = mul (adj A) A.
  Proof.
    intros A. rewrite adj_mul. rewrite <- (mul_assoc _ _ _ _ (adj A) (adj U) (mul U A)).
    rewrite (mul_assoc _ _ _ _ (adj U) U A), U_unitary, mul_1_l. reflexivity.
  Qed.

  Lemma local_energy_conserved : forall A : M N 1,
    mul (adj (mul U A)) (mul Keff (mul U A)) = mul (adj A) (mul Keff A).
  Proof.
    intros A. rewrite adj_mul. rewrite <- (mul_assoc _ _ _ _ (adj A) (adj U) (mul Keff (mul U A))). f_equal.
    rewrite (mul_assoc _ _ _ _ Keff U A), <- U_commutes, <- (mul_assoc _ _ _ _ U Keff A).
    rewrite (mul_assoc _ _ _ _ (adj U) U (mul Keff A)), U_unitary, mul_1_l. reflexivity.
  Qed.

  (* the full state E(UA) has the norm and the energy of E A *)
  Theorem local_update_conserves : forall A : M N 1,
    mul (adj (mul E (mul U A))) (mul E (mul U A)) = mul (adj (mul E A)) (mul E A) /\
    mul (adj (mul E (mul U A))) (mul H (mul E (mul U A))) = mul (adj (mul E A)) (mul H (mul E A)).
  Proof.
    intros A. rewrite !embed_norm, !embed_energy, local_norm_conserved, local_energy_conserved. auto.
  Qed.
End LayerA.

(* for E = 1 (two-node tree, two-site update: the pair IS the whole state) K = H *)
Lemma Keff_identity_embedding : forall (M : nat -> nat -> Type)
    (mul : forall a b c : nat, M a b -> M b c -> M a c) (adj : forall a b : nat, M a b -> M b a) (one : forall n, M n n),
  (forall a b (x : M a b), mul a a b (one a) x = x) ->
  (forall a b (x : M a b), mul a b b x (one b) = x) ->
  (forall n, adj n n (one n) = one n) ->
  forall D (H : M D D), Keff M mul adj D D (one D) H = H.
Proof. intros M mul adj one L R A D H. unfold Keff. rewrite A, R, L. reflexivity. Qed.

(* ---- the structural assertions of the first-order class never fail -------------------- *)
Theorem trace1_asserts : forall t t' tr, NoDup (ids t) -> trace1_gen t t' = Some tr ->
  (forall n, In (AssertLeaf n) tr -> is_leaf t n = true) /\
  (forall n, In (AssertEnd n) tr -> degree t n <= 1).
Proof.
  intros t t' tr Hw H. split; intros n Hn; exact (trace1_events t t' tr Hw H _ Hn).
Qed.

Theorem trace1_links_on_edges : forall t t' tr, NoDup (ids t) -> trace1_gen t t' = Some tr ->
  forall a b f, In (Link a b f) tr -> adjacent t a b /\ f = 2%Z.
Proof. intros t t' tr Hw H a b f Hin. exact (trace1_events t t' tr Hw H _ Hin). Qed.

(* ---- two nodes: the two-site step is two half steps on the only edge, nothing else ----- *)
Lemma trace2s_two_nodes : forall a b, a <> b ->
  trace2s (RNode a [RNode b []]) = Some [TwoSite b a 1%Z; Cache b a; TwoSite a b 1%Z; Cache a b].
Proof.
  intros a b Hne. assert (Eab : Nat.eqb a b = false) by (apply Nat.eqb_neq; auto).
  assert (Eba : Nat.eqb b a = false) by (apply Nat.eqb_neq; auto).
  unfold trace2s, update_path, main_path, start_node. cbn. rewrite ?Eab, ?Eba, ?Nat.eqb_refl. cbn.
  unfold path_to_root. cbn. rewrite ?Eab, ?Eba, ?Nat.eqb_refl. cbn. rewrite ?Eab, ?Eba, ?Nat.eqb_refl. cbn.
  unfold path_for_branch. cbn. rewrite ?Eab, ?Eba, ?Nat.eqb_refl. cbn. rewrite ?Eab, ?Eba, ?Nat.eqb_refl. cbn.
  unfold update_step. cbn. rewrite ?Eab, ?Eba, ?Nat.eqb_refl. cbn. unfold path_down_from_root. cbn.
  unfold orth_paths. cbn. unfold path_from_to. rewrite ?Eab, ?Eba, ?Nat.eqb_refl. unfold path_to_root. cbn.
  rewrite ?Eab, ?Eba, ?Nat.eqb_refl. cbn.
  unfold merge_root_paths, num_duplicates, count. cbn. rewrite ?Eab, ?Eba, ?Nat.eqb_refl. cbn.
  reflexivity.
Qed.
