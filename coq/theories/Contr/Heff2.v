(* Model of the TWO-SITE effective Hamiltonian of the two-site TDVP classes at the diagram level (property C05 / C07):
     pytreenet/time_evolution/tdvp_algorithms/twositetdvp.py
        _contract_all_except_two_nodes, _determine_two_site_leg_permutation,
        _find_block_leg_target_node, _find_block_leg_next_node
     pytreenet/contractions/contraction_util.py
        contract_all_but_one_neighbour_block_to_hamiltonian, contract_neighbour_block_to_hamiltonian_ignore_one_leg,
        determine_index_with_ignored_leg
   on top of Contr/Heff.v (env_block, g_transpose) and Contr/Blocks.v (g_tensordot).

   WHICH STATE.  _update_two_site_nodes(target = a, next = b) first calls state.contract_nodes(a, b, new_identifier = l)
   with l = "TwoSite_<a>_contr_<b>" and only then builds the effective Hamiltonian; the only thing that code reads from
   the state is state.nodes[l].neighbouring_nodes().  Everything else comes from the TTNO (which still has a and b as
   neighbours) and from the sandwich cache.  So `ket` below is the state AFTER the pair was contracted: it holds the
   two-site node l and neither a nor b; a neighbour c of the pair has the neighbour l in the state and a (or b) in the
   operator.  This is also the state the time_evolve observer of the harness sees.  The cache entry (c, a) was stored
   while c's neighbour was still a; replace_node_in_neighbours keeps c's leg positions, so it has the value of
   contract_any(c, l, ...) on the current state as long as nothing behind c changed (freshness: schedule clause
   cache_fresh + the value tie), exactly as for the link Hamiltonian of Heff.v.

   LEG ORDER.  contract_nodes(a, b) gives the two-site tensor the legs
       (parent of the upper node, children of a [without b], children of b [without a], open legs of a, open legs of b)
   whichever of a, b is the parent (TTN/InvContract.v: ccn_spec for the neighbours, contract_open_rule for the open
   legs).  The effective Hamiltonian tensor is transposed to
       (bra-side legs to the neighbours of l in l's own order, output leg of a's operator, output leg of b's operator,
        ket-side legs to the neighbours of l in l's own order, input leg of a's operator, input leg of b's operator),
   i.e. rows = conjugate side, columns = ket side, both in the leg order of the two-site tensor.

   Definitions only. *)
From Coq Require Import List Arith Bool Permutation NArith.
From PTN Require Import TTN.Store Contr.Blocks Contr.Closed Contr.Heff.
Import ListNotations.

(* ---- contract_all_but_one_neighbour_block_to_hamiltonian -------------------------------------------------------------- *)
(* for the neighbours nb of the HAMILTONIAN node in its own order, nb <> next:
     tensordot(result, cache[(nb, node)], axes = ([int(index(next) < index(nb))], [1]))
   (determine_index_with_ignored_leg asserts the two indices differ) *)
Definition hab_step (on : node) (next : id) (blocks : list (id * garr)) (acc : option garr) (nb : id) : option garr :=
  match acc with
  | None => None
  | Some r =>
      if Nat.eqb nb next then Some r else
      match neighbour_index on nb, neighbour_index on next, aget nb blocks with
      | Some inb, Some inext, Some blk =>
          if Nat.eqb inb inext then None else
          g_tensordot r blk [if Nat.ltb inext inb then 1 else 0] [1]
      | _, _, _ => None
      end
  end.

Definition ham_all_but_one (ot : garr) (on : node) (next : id) (blocks : list (id * garr)) : option garr :=
  fold_left (hab_step on next blocks) (neighbouring_nodes on) (Some ot).

(* ---- _determine_two_site_leg_permutation ----------------------------------------------------------------------------------- *)
(* _find_block_leg_target_node(target, next, neighbour) over the HAMILTONIAN node of target *)
Definition block_leg_target (on_t : node) (next nb : id) : option nat :=
  match neighbour_index on_t next, neighbour_index on_t nb with
  | Some inext, Some inb => Some (2 * (inb + (if Nat.ltb inb inext then 1 else 0)))
  | _, _ => None
  end.

(* _find_block_leg_next_node: the same with the roles exchanged, shifted by 2 * target.nneighbours() *)
Definition block_leg_next (on_t on_n : node) (target nb : id) : option nat :=
  option_map (fun k => 2 * nvirt on_t + k) (block_leg_target on_n target nb).

(* ln = the two-site node of the STATE; `neighbour_id in neighbours_target` is tried first *)
Definition two_site_perm (on_t on_n ln : node) (target next : id) : option (list nat) :=
  match all_some (map (fun nb => if memb nb (neighbouring_nodes on_t) then block_leg_target on_t next nb
                                 else if memb nb (neighbouring_nodes on_n) then block_leg_next on_t on_n target nb
                                 else None)                                       (* NotCompatibleException *)
                      (neighbouring_nodes ln)) with
  | Some input_legs =>
      let nt := nvirt on_t in
      Some (map S input_legs ++ [0; 2 * nt] ++ input_legs ++ [1; 2 * nt + 1])
  | None => None
  end.

(* ---- _contract_all_except_two_nodes(target = a, next = b), the state holding the two-site node l ------------------------------- *)
Definition side_blocks (woff aoff : nat) (ket op : store) (l : id) (cs : list id) : option (list (id * garr)) :=
  all_some (map (fun c => option_map (fun g => (c, g)) (env_block (length (nodes ket)) woff aoff ket op c l)) cs).

Definition heff_two_with (oa ob ln : node) (ta tb : garr) (a b : id) (ba bb : list (id * garr)) : option garr :=
  match ham_all_but_one ta oa b ba, ham_all_but_one tb ob a bb with
  | Some ha, Some hb =>
      match g_tensordot ha hb [0] [0], two_site_perm oa ob ln a b with
      | Some h, Some p => g_transpose p h
      | _, _ => None
      end
  | _, _ => None
  end.

Definition heff_two (woff aoff : nat) (ket op : store) (a b l : id) : option garr :=
  match aget a (nodes op), aget b (nodes op), aget l (nodes ket), tensor_of op a, tensor_of op b with
  | Some oa, Some ob, Some ln, Some ta, Some tb =>
      match side_blocks woff aoff ket op l (others b (neighbouring_nodes oa)),
            side_blocks woff aoff ket op l (others a (neighbouring_nodes ob)) with
      | Some ba, Some bb => heff_two_with oa ob ln ta tb a b ba bb
      | _, _ => None
      end
  | _, _, _, _, _ => None
  end.

(* ---- what lies behind the pair: one tree per neighbour of a (other than b) and of b (other than a), OPERATOR order ------------ *)
Definition side_ids (op : store) (n other : id) : list id := others other (nbs op n).
Definition side_trees (ket : store) (l : id) (cs : list id) : option (list rt) :=
  all_some (map (tree_from (S (length (nodes ket))) ket (Some l)) cs).

(* ---- the expected diagram: <psi|H|psi> with the ket atoms of the pair and their conjugate twins removed ------------------------ *)
(* axes: conjugate copies of the virtual legs of the two-site tensor, output legs of a's and b's operator tensors; then
   the virtual legs of the two-site tensor, input legs of a's and b's operator tensors *)
Definition two_axes (woff : nat) (ket op : store) (a b l : id) : list wire :=
  map (fun m => woff + ewire ket l m) (nbs ket l) ++ [out_wire op a; out_wire op b] ++
  map (ewire ket l) (nbs ket l) ++ [in_wire op a; in_wire op b].
(* atoms: both operator atoms of the pair; every ket atom, operator atom and conjugate copy behind the pair *)
Definition two_atoms (aoff : nat) (ket op : store) (a b : id) (ts : list rt) : list nat :=
  t_atoms op a ++ t_atoms op b ++ all_atoms3 aoff ket op (flat_map rnodes ts).
(* bound: the operator's bond a - b; the operator's wires from the pair to its neighbours; all three wires of every edge
   not incident to the pair; whatever the tensors bind internally.  The ket's and the conjugate copy's wires from the
   pair to its neighbours are NOT bound: they are axes. *)
Definition two_bnd (woff : nat) (ket op : store) (a b : id) (tsa tsb : list rt) : list wire :=
  ewire op a b :: map (ewire op a) (map rid tsa) ++ map (ewire op b) (map rid tsb) ++
  flat_map (edge3 woff ket op) (flat_map sub_edges (tsa ++ tsb)) ++
  t_bnd op a ++ t_bnd op b ++ inner_bnd3 woff ket op (flat_map rnodes (tsa ++ tsb)).
Definition two_glue (woff : nat) (ket op : store) (ts : list rt) : list (wire * wire) :=
  open_pairs3 woff ket op (flat_map rnodes ts).

Definition two_expected (woff aoff : nat) (ket op : store) (a b l : id) (tsa tsb : list rt) :=
  (two_axes woff ket op a b l, two_atoms aoff ket op a b (tsa ++ tsb), two_bnd woff ket op a b tsa tsb,
   two_glue woff ket op (tsa ++ tsb)).

(* executable comparison of heff_two with two_expected *)
Definition heff_two_ok (woff aoff : nat) (ket op : store) (a b l : id) : bool :=
  match side_trees ket l (side_ids op a b), side_trees ket l (side_ids op b a), heff_two woff aoff ket op a b l with
  | Some tsa, Some tsb, Some g => diagram_matches g (two_expected woff aoff ket op a b l tsa tsb)
  | _, _, _ => false
  end.

(* ---- well-formedness for a two-site update ------------------------------------------------------------------------------------- *)
Section WF2.
  Variables (woff : nat) (ket op : store).

  (* one side of the pair: n is a or b, m the other one; ts = what lies behind the neighbours of n other than m, in the
     OPERATOR's order.  Each of these neighbours c has the two-site node l as its neighbour in the state and n in the
     operator (wf_end of Heff.v), and both ends of the edges c - l (state) and c - n (operator) carry the same wire *)
  Definition wf_side (l n m : id) (ts : list rt) : Prop :=
    exists on,
      aget n (nodes op) = Some on /\
      NoDup (neighbouring_nodes on) /\ In m (neighbouring_nodes on) /\
      map rid ts = others m (neighbouring_nodes on) /\
      t_axes op n = map (ewire op n) (neighbouring_nodes on) ++ [out_wire op n; in_wire op n] /\
      (forall t, In t ts -> wf_end woff ket op l n t /\
                            ewire ket (rid t) l = ewire ket l (rid t) /\ ewire op (rid t) n = ewire op n (rid t)).

  (* the state holds the two-site node l (two open legs, neighbours = the other neighbours of a and of b in ANY order);
     the operator has a and b as neighbours *)
  Definition wf_twosite (a b l : id) (tsa tsb : list rt) : Prop :=
    wf_side l a b tsa /\ wf_side l b a tsb /\
    ewire op a b = ewire op b a /\
    NoDup (flat_map rnodes (tsa ++ tsb)) /\
    exists ln o1 o2,
      aget l (nodes ket) = Some ln /\
      NoDup (neighbouring_nodes ln) /\
      Permutation (neighbouring_nodes ln) (map rid tsa ++ map rid tsb) /\
      ~ In a (neighbouring_nodes ln) /\ ~ In b (neighbouring_nodes ln) /\
      t_axes ket l = map (ewire ket l) (neighbouring_nodes ln) ++ [o1; o2].
End WF2.

Definition wf_sideb (woff : nat) (ket op : store) (l n m : id) (ts : list rt) : bool :=
  match aget n (nodes op) with
  | Some on =>
      nodupb (neighbouring_nodes on) && memb m (neighbouring_nodes on) &&
      list_eqb (map rid ts) (others m (neighbouring_nodes on)) &&
      list_eqb (t_axes op n) (map (ewire op n) (neighbouring_nodes on) ++ [out_wire op n; in_wire op n]) &&
      forallb (fun t => wf_endb woff ket op l n t &&
                        Nat.eqb (ewire ket (rid t) l) (ewire ket l (rid t)) &&
                        Nat.eqb (ewire op (rid t) n) (ewire op n (rid t))) ts
  | None => false
  end.

Definition wf_twositeb (woff : nat) (ket op : store) (a b l : id) : bool :=
  match side_trees ket l (side_ids op a b), side_trees ket l (side_ids op b a), aget l (nodes ket) with
  | Some tsa, Some tsb, Some ln =>
      wf_sideb woff ket op l a b tsa && wf_sideb woff ket op l b a tsb &&
      Nat.eqb (ewire op a b) (ewire op b a) &&
      nodupb (flat_map rnodes (tsa ++ tsb)) &&
      nodupb (neighbouring_nodes ln) &&
      perm_of_nodupb (neighbouring_nodes ln) (map rid tsa ++ map rid tsb) &&
      negb (memb a (neighbouring_nodes ln)) && negb (memb b (neighbouring_nodes ln)) &&
      Nat.eqb (length (t_axes ket l)) (length (neighbouring_nodes ln) + 2) &&
      list_eqb (firstn (length (neighbouring_nodes ln)) (t_axes ket l)) (map (ewire ket l) (neighbouring_nodes ln))
  | _, _, _ => false
  end.

(* ---- what the harness evaluates per observed two-site update ------------------------------------------------------------------- *)
Definition heff_two_case (kops oops : list op) (ooff oaoff woff aoff : nat) (a b l : id) :=
  let rk := run empty_store kops in
  let ro := run (store_at ooff oaoff) oops in
  let ket := fst rk in
  let op := fst ro in
  (all_true (snd rk) && all_true (snd ro),
   wf_twositeb woff ket op a b l, heff_two_ok woff aoff ket op a b l,
   option_map summary_n (heff_two woff aoff ket op a b l), atab_n ket, atab_n op).
