(* Universal leg-arithmetic lemmas about the block recursion of Contr/Blocks.v and the global theorem:
   the recursion of contract_two_ttns closes the network, for every tree, every child order of the ket
   and every (independent) child order of the bra. *)
From Coq Require Import List Arith Bool Lia Permutation.
From PTN Require Import TTN.Store Contr.Blocks Contr.BlocksProofs Contr.Closed.
Import ListNotations.

(* ---- booleans <-> Props ------------------------------------------------------------------------------- *)
Lemma cl_memb_In x l : memb x l = true <-> In x l.
Proof.
  unfold memb. rewrite existsb_exists. split.
  - intros (y & Hy & E). apply Nat.eqb_eq in E. subst. exact Hy.
  - intros H. exists x. split; [exact H|apply Nat.eqb_refl].
Qed.

Lemma cl_memb_false x l : memb x l = false <-> ~ In x l.
Proof. rewrite <- cl_memb_In. destruct (memb x l); split; intros; congruence. Qed.

Lemma cl_nodupb l : nodupb l = true <-> NoDup l.
Proof.
  induction l as [|x t IH]; cbn.
  - split; [constructor|reflexivity].
  - rewrite andb_true_iff, negb_true_iff, cl_memb_false, IH. split.
    + intros [H1 H2]. constructor; assumption.
    + intros H. inversion H; subst. split; assumption.
Qed.

Ltac nlia := unfold id, wire in *; lia.

Lemma forallb_ltb n l : (forall i, In i l -> i < n) -> forallb (fun i => Nat.ltb i n) l = true.
Proof. intros H. apply forallb_forall. intros i Hi. apply Nat.ltb_lt. auto. Qed.

(* ---- all_some ------------------------------------------------------------------------------------------- *)
Lemma all_some_total {A B} (f : A -> option B) (g : A -> B) l :
  (forall a, In a l -> f a = Some (g a)) -> all_some (map f l) = Some (map g l).
Proof.
  induction l as [|a t IH]; intros H; cbn; [reflexivity|].
  rewrite (H a) by (left; reflexivity). rewrite IH by (intros; apply H; right; assumption). reflexivity.
Qed.

Lemma all_some_app {A} (l1 l2 : list (option A)) r1 r2 :
  all_some l1 = Some r1 -> all_some l2 = Some r2 -> all_some (l1 ++ l2) = Some (r1 ++ r2).
Proof.
  revert r1. induction l1 as [|[a|] t IH]; intros r1 H1 H2; cbn in *.
  - injection H1 as <-. exact H2.
  - destruct (all_some t) as [r|]; [|discriminate]. injection H1 as <-. rewrite (IH r eq_refl H2). reflexivity.
  - discriminate.
Qed.

(* ---- index_of --------------------------------------------------------------------------------------------- *)
Lemma idx_some x l i : index_of x l = Some i -> i < length l /\ nth i l 0 = x.
Proof.
  revert i. induction l as [|y t IH]; intros i; cbn; [discriminate|].
  destruct (Nat.eqb_spec x y) as [->|Hne].
  - intros [= <-]. split; [lia|reflexivity].
  - destruct (index_of x t) as [j|]; [|discriminate]. intros [= <-]. destruct (IH j eq_refl). split; [lia|assumption].
Qed.

Lemma idx_app_in x a b : In x a -> exists i, index_of x (a ++ b) = Some i /\ i < length a.
Proof.
  induction a as [|y t IH]; [intros []|]. intros Hin. cbn.
  destruct (Nat.eqb_spec x y) as [->|Hne]; [exists 0; split; [reflexivity|lia]|].
  destruct Hin as [->|Hin]; [congruence|]. destruct (IH Hin) as (i & -> & Hi). exists (S i). split; [reflexivity|lia].
Qed.

Lemma idx_in x l : In x l -> exists i, index_of x l = Some i.
Proof. intros H. destruct (idx_app_in x l [] H) as (i & E & _). rewrite app_nil_r in E. eauto. Qed.

Lemma idx_app_notin x a b : ~ In x a -> index_of x (a ++ b) = option_map (Nat.add (length a)) (index_of x b).
Proof.
  induction a as [|y t IH]; intros H; cbn.
  - destruct (index_of x b); reflexivity.
  - destruct (Nat.eqb_spec x y) as [->|Hne]; [exfalso; apply H; left; reflexivity|].
    rewrite IH by (intros Hin; apply H; right; exact Hin). destruct (index_of x b); reflexivity.
Qed.

Lemma idx_mid x a b : ~ In x a -> index_of x (a ++ x :: b) = Some (length a).
Proof. intros H. rewrite idx_app_notin by exact H. cbn. rewrite Nat.eqb_refl. cbn. f_equal. lia. Qed.

Lemma idx_nth l i : NoDup l -> i < length l -> index_of (nth i l 0) l = Some i.
Proof.
  revert i. induction l as [|y t IH]; intros i Hnd Hi; cbn in *; [lia|].
  inversion Hnd as [|? ? Hni Hnd']; subst. destruct i as [|i].
  - rewrite Nat.eqb_refl. reflexivity.
  - destruct (Nat.eqb_spec (nth i t 0) y) as [E|Hne].
    + exfalso. apply Hni. rewrite <- E. apply nth_In. lia.
    + rewrite IH by (auto; lia). reflexivity.
Qed.

(* total position function *)
Definition pos_in (l : list nat) (x : nat) : nat := match index_of x l with Some i => i | None => 0 end.

Lemma pos_in_spec l x : In x l -> index_of x l = Some (pos_in l x) /\ pos_in l x < length l /\ nth (pos_in l x) l 0 = x.
Proof.
  intros H. destruct (idx_in x l H) as [i E]. unfold pos_in. rewrite E. split; [reflexivity|]. apply idx_some. exact E.
Qed.

Lemma pos_in_nth l i : NoDup l -> i < length l -> pos_in l (nth i l 0) = i.
Proof. intros H1 H2. unfold pos_in. rewrite idx_nth by assumption. reflexivity. Qed.

Lemma pos_in_inj l a b : In a l -> In b l -> pos_in l a = pos_in l b -> a = b.
Proof.
  intros Ha Hb E. destruct (pos_in_spec l a Ha) as (_ & _ & <-). destruct (pos_in_spec l b Hb) as (_ & _ & <-).
  rewrite E. reflexivity.
Qed.

Lemma NoDup_map_inj_in {A B} (f : A -> B) l :
  (forall a b, In a l -> In b l -> f a = f b -> a = b) -> NoDup l -> NoDup (map f l).
Proof.
  induction l as [|x t IH]; intros Hinj Hnd; cbn; [constructor|].
  inversion Hnd as [|? ? Hni Hnd']; subst. constructor.
  - intros Hin. apply in_map_iff in Hin. destruct Hin as (y & E & Hy).
    assert (y = x) by (apply Hinj; [right; exact Hy|left; reflexivity|exact E]). subst. contradiction.
  - apply IH; [|exact Hnd']. intros a b Ha Hb. apply Hinj; right; assumption.
Qed.

(* positions of a contiguous block of a duplicate-free list *)
Lemma all_some_idx_seq A l B : NoDup (A ++ l ++ B) ->
  all_some (map (fun nb => index_of nb (A ++ l ++ B)) l) = Some (seq (length A) (length l)).
Proof.
  revert A. induction l as [|a t IH]; intros A Hnd; cbn [map all_some length seq app]; [reflexivity|].
  assert (Hni : ~ In a A).
  { intros Hin. apply NoDup_remove_2 in Hnd. apply Hnd. apply in_or_app. left. exact Hin. }
  cbn [app]. rewrite idx_mid by exact Hni.
  specialize (IH (A ++ [a])). rewrite <- !app_assoc in IH. cbn [app] in IH.
  rewrite IH by exact Hnd. rewrite app_length. cbn. replace (length A + 1) with (S (length A)) by lia. reflexivity.
Qed.

Lemma filter_neq_notin x l : ~ In x l -> filter (fun nb => negb (Nat.eqb nb x)) l = l.
Proof.
  induction l as [|y t IH]; intros H; cbn; [reflexivity|].
  destruct (Nat.eqb_spec y x) as [->|Hne]; [exfalso; apply H; left; reflexivity|]. cbn.
  f_equal. apply IH. intros Hin. apply H. right. exact Hin.
Qed.

Lemma filter_neq_mid x a b : ~ In x a -> ~ In x b -> filter (fun nb => negb (Nat.eqb nb x)) (a ++ x :: b) = a ++ b.
Proof.
  intros Ha Hb. rewrite filter_app. cbn. rewrite Nat.eqb_refl. cbn.
  rewrite !filter_neq_notin by assumption. reflexivity.
Qed.

Lemma NoDup_mid_notin {A} (x : A) a b : NoDup (a ++ x :: b) -> ~ In x a /\ ~ In x b /\ NoDup (a ++ b).
Proof.
  intros H. pose proof (NoDup_remove_1 _ _ _ H) as H1. pose proof (NoDup_remove_2 _ _ _ H) as H2.
  repeat split; [| |exact H1]; intros Hin; apply H2; apply in_or_app; [left|right]; exact Hin.
Qed.

Lemma map_add_seq c s n : map (fun i => i + c) (seq s n) = seq (s + c) n.
Proof. revert s. induction n as [|n IH]; intros s; cbn; [reflexivity|]. f_equal. apply (IH (S s)). Qed.

(* ---- drop_positions --------------------------------------------------------------------------------------------- *)
Lemma drop_positions_from {A} idx (l : list A) : drop_positions idx l = dropfrom 0 idx l.
Proof.
  unfold drop_positions. generalize 0 as s. induction l as [|x t IH]; intros s; cbn; [reflexivity|].
  destruct (memb s idx); cbn; rewrite IH; reflexivity.
Qed.

Lemma dropfrom_all {A} s idx (l : list A) : (forall i, i < length l -> In (s + i) idx) -> dropfrom s idx l = [].
Proof.
  revert s. induction l as [|x t IH]; intros s H; cbn; [reflexivity|].
  assert (E : memb s idx = true). { apply cl_memb_In. specialize (H 0). rewrite Nat.add_0_r in H. apply H. cbn. lia. }
  rewrite E. apply IH. intros i Hi. replace (S s + i) with (s + S i) by lia. apply H. cbn. lia.
Qed.

Lemma dropfrom_keep {A} s idx (l : list A) : (forall i, i < length l -> ~ In (s + i) idx) -> dropfrom s idx l = l.
Proof.
  revert s. induction l as [|x t IH]; intros s H; cbn; [reflexivity|].
  assert (E : memb s idx = false). { apply cl_memb_false. specialize (H 0). rewrite Nat.add_0_r in H. apply H. cbn. lia. }
  rewrite E. f_equal. apply IH. intros i Hi. replace (S s + i) with (s + S i) by lia. apply H. cbn. lia.
Qed.

Lemma dropfrom_app {A} s idx (a b : list A) : dropfrom s idx (a ++ b) = dropfrom s idx a ++ dropfrom (s + length a) idx b.
Proof.
  revert s. induction a as [|x t IH]; intros s; cbn.
  - rewrite Nat.add_0_r. reflexivity.
  - rewrite IH. replace (S s + length t) with (s + S (length t)) by lia. destruct (memb s idx); reflexivity.
Qed.

(* exactly one position survives *)
Lemma dropfrom_one {A} (d : A) s idx (l : list A) j : j < length l ->
  (forall i, i < length l -> (In (s + i) idx <-> i <> j)) -> dropfrom s idx l = [nth j l d].
Proof.
  revert s j. induction l as [|x t IH]; intros s j Hj H; cbn in Hj; [lia|]. cbn [dropfrom].
  destruct j as [|j].
  - assert (E : memb s idx = false).
    { apply cl_memb_false. intros Hin. specialize (H 0 ltac:(cbn; lia)). rewrite Nat.add_0_r in H. apply H in Hin. congruence. }
    rewrite E. cbn. f_equal. apply dropfrom_all. intros i Hi. replace (S s + i) with (s + S i) by lia.
    apply H; cbn; lia.
  - assert (E : memb s idx = true).
    { apply cl_memb_In. specialize (H 0 ltac:(cbn; lia)). rewrite Nat.add_0_r in H. apply H. lia. }
    rewrite E. cbn [nth]. apply IH; [lia|]. intros i Hi. replace (S s + i) with (s + S i) by lia.
    rewrite H by (cbn; lia). lia.
Qed.

Lemma dropfrom_single {A} (fixed : list A) w tl : dropfrom 0 [length fixed] (fixed ++ w :: tl) = fixed ++ tl.
Proof.
  rewrite dropfrom_app. cbn [dropfrom Nat.add].
  rewrite dropfrom_keep by (intros i Hi [E|[]]; cbn in E; lia).
  assert (E : memb (length fixed) [length fixed] = true) by (apply cl_memb_In; left; reflexivity).
  rewrite E. rewrite dropfrom_keep by (intros i Hi [E'|[]]; lia). reflexivity.
Qed.

(* ---- reading wires off positions ------------------------------------------------------------------------------------- *)
Lemma nth_seq_block {A} (d : A) (pre X post : list A) :
  map (fun i => nth i (pre ++ X ++ post) d) (seq (length pre) (length X)) = X.
Proof.
  revert pre. induction X as [|x t IH]; intros pre; cbn [length seq map]; [reflexivity|].
  f_equal.
  - rewrite app_nth2 by lia. rewrite Nat.sub_diag. reflexivity.
  - specialize (IH (pre ++ [x])). rewrite <- app_assoc in IH. cbn [app] in IH.
    rewrite app_length in IH. cbn in IH. replace (length pre + 1) with (S (length pre)) in IH by lia. exact IH.
Qed.

Lemma nth_mid {A} (d : A) (pre : list A) x post : nth (length pre) (pre ++ x :: post) d = x.
Proof. rewrite app_nth2 by lia. rewrite Nat.sub_diag. reflexivity. Qed.

(* the contracted pairs: equal wires are bound, the one pair of different wires is glued *)
Lemma pairs_same (X : list wire) o p : o <> p ->
  map fst (filter (fun q : wire * wire => Nat.eqb (fst q) (snd q)) (combine (X ++ [o]) (X ++ [p]))) = X.
Proof.
  intros Hne. induction X as [|x t IH]; cbn.
  - destruct (Nat.eqb_spec o p); [contradiction|reflexivity].
  - rewrite Nat.eqb_refl. cbn. f_equal. exact IH.
Qed.

Lemma pairs_diff (X : list wire) o p : o <> p ->
  filter (fun q : wire * wire => negb (Nat.eqb (fst q) (snd q))) (combine (X ++ [o]) (X ++ [p])) = [(o, p)].
Proof.
  intros Hne. induction X as [|x t IH]; cbn.
  - destruct (Nat.eqb_spec o p); [contradiction|reflexivity].
  - rewrite Nat.eqb_refl. cbn. exact IH.
Qed.

(* ---- tensordot: success and exact result ----------------------------------------------------------------------------------- *)
Lemma g_tensordot_ok a b ia ib :
  length ia = length ib ->
  (forall i, In i ia -> i < length (gaxes a)) -> (forall i, In i ib -> i < length (gaxes b)) ->
  NoDup ia -> NoDup ib ->
  g_tensordot a b ia ib =
  Some {| gaxes := dropfrom 0 ia (gaxes a) ++ dropfrom 0 ib (gaxes b);
          gatoms := gatoms a ++ gatoms b;
          gbnd := map fst (filter (fun q : wire * wire => Nat.eqb (fst q) (snd q))
                             (combine (map (fun i => nth i (gaxes a) 0) ia) (map (fun i => nth i (gaxes b) 0) ib)))
                  ++ gbnd a ++ gbnd b;
          gglue := filter (fun q : wire * wire => negb (Nat.eqb (fst q) (snd q)))
                     (combine (map (fun i => nth i (gaxes a) 0) ia) (map (fun i => nth i (gaxes b) 0) ib))
                   ++ gglue a ++ gglue b |}.
Proof.
  intros Hlen Ha Hb Hna Hnb. unfold g_tensordot.
  rewrite Hlen, Nat.eqb_refl. cbn [negb].
  rewrite (forallb_ltb _ _ Ha), (forallb_ltb _ _ Hb). cbn [andb negb].
  apply cl_nodupb in Hna. apply cl_nodupb in Hnb. rewrite Hna, Hnb. cbn [andb negb].
  rewrite !drop_positions_from. reflexivity.
Qed.

(* one axis of r against the first axis of a block carrying the same wire *)
Lemma g_tensordot_single r blk fixed w tl xs :
  gaxes r = fixed ++ w :: tl -> gaxes blk = w :: xs ->
  g_tensordot r blk [length fixed] [0] =
  Some {| gaxes := fixed ++ tl ++ xs; gatoms := gatoms r ++ gatoms blk;
          gbnd := w :: gbnd r ++ gbnd blk; gglue := gglue r ++ gglue blk |}.
Proof.
  intros Hr Hb. rewrite g_tensordot_ok.
  - rewrite Hr, Hb. rewrite dropfrom_single. cbn [map combine]. rewrite nth_mid. cbn [nth filter fst snd].
    rewrite Nat.eqb_refl. cbn [negb map fst app]. cbn [dropfrom memb existsb Nat.eqb orb].
    rewrite dropfrom_keep by (intros i Hi [E|[]]; lia). rewrite <- app_assoc. reflexivity.
  - reflexivity.
  - intros i [<-|[]]. rewrite Hr, app_length. cbn. lia.
  - intros i [<-|[]]. rewrite Hb. cbn. lia.
  - constructor; [intros []|constructor].
  - constructor; [intros []|constructor].
Qed.

(* ---- nodes: neighbour_index is the position in neighbouring_nodes ---------------------------------------------------------------- *)
Lemma neighbour_index_nbs n x : neighbour_index n x = index_of x (neighbouring_nodes n).
Proof.
  unfold neighbour_index, neighbouring_nodes. destruct (parent n) as [p|]; [|reflexivity]. cbn.
  destruct (Nat.eqb x p); [reflexivity|]. destruct (index_of x (children n)); cbn; [f_equal; lia|reflexivity].
Qed.

Lemma nvirt_nbs n : nvirt n = length (neighbouring_nodes n).
Proof. unfold nvirt, nparents, neighbouring_nodes. destruct (parent n); reflexivity. Qed.

(* ==== (1a) contract_all_but_one_neighbour_block_to_ket ============================================================================= *)
Definition abo_step (kn : node) (next : id) (blocks : list (id * garr)) (acc : option garr) (nb : id) : option garr :=
  match acc with
  | None => None
  | Some r =>
      if Nat.eqb nb next then Some r else
      match neighbour_index kn nb, neighbour_index kn next, aget nb blocks with
      | Some inb, Some inext, Some blk =>
          if Nat.eqb inb inext then None else
          g_tensordot r blk [if Nat.ltb inext inb then 1 else 0] [0]
      | _, _, _ => None
      end
  end.

Lemma all_but_one_fold kt kn next blocks :
  all_but_one_to_ket kt kn next blocks = fold_left (abo_step kn next blocks) (neighbouring_nodes kn) (Some kt).
Proof. reflexivity. Qed.

(* one phase of the loop: the neighbours in l all lie on the same side of `next`, so the contracted axis
   of the running result is always at position a = |fixed| (0 before `next` was passed, 1 after) *)
Lemma abo_phase kn next blocks inext a (w : id -> wire) (xs : id -> list wire) (blk : id -> garr) l :
  neighbour_index kn next = Some inext ->
  (forall nb, In nb l ->
     nb <> next /\
     (exists inb, neighbour_index kn nb = Some inb /\ inb <> inext /\ (if Nat.ltb inext inb then 1 else 0) = a) /\
     aget nb blocks = Some (blk nb) /\ gaxes (blk nb) = w nb :: xs nb) ->
  forall r fixed rest, length fixed = a -> gaxes r = fixed ++ map w l ++ rest ->
  exists r', fold_left (abo_step kn next blocks) l (Some r) = Some r' /\
     gaxes r' = fixed ++ rest ++ flat_map xs l /\
     gatoms r' = gatoms r ++ flat_map (fun nb => gatoms (blk nb)) l /\
     gbnd r' = rev (map w l) ++ gbnd r ++ flat_map (fun nb => gbnd (blk nb)) l /\
     gglue r' = gglue r ++ flat_map (fun nb => gglue (blk nb)) l.
Proof.
  intros Hnext. induction l as [|nb l IH]; intros H r fixed rest Hfix Hax.
  - exists r. cbn in *. rewrite !app_nil_r. auto.
  - destruct (H nb (or_introl eq_refl)) as (Hne & (inb & Hinb & Hneq & Ha) & Hblk & Hbax).
    cbn [fold_left]. unfold abo_step at 2.
    destruct (Nat.eqb_spec nb next) as [E|_]; [contradiction|].
    rewrite Hinb, Hnext, Hblk. destruct (Nat.eqb_spec inb inext) as [E|_]; [contradiction|].
    rewrite Ha, <- Hfix.
    cbn [map app] in Hax.
    rewrite (g_tensordot_single r (blk nb) fixed (w nb) (map w l ++ rest) (xs nb) Hax Hbax).
    match goal with |- context [fold_left _ l (Some ?rr)] => set (r1 := rr) end.
    destruct (IH (fun nb' Hin => H nb' (or_intror Hin)) r1 fixed (rest ++ xs nb) Hfix) as (r' & Hf & H1 & H2 & H3 & H4).
    { subst r1. cbn [gaxes]. rewrite <- app_assoc. reflexivity. }
    exists r'. split; [exact Hf|]. subst r1. cbn [gaxes gatoms gbnd gglue] in *.
    rewrite H1, H2, H3, H4. cbn [flat_map map rev]. rewrite <- !app_assoc. cbn [app]. rewrite <- !app_assoc. auto.
Qed.

(* the ket tensor has its virtual legs in neighbouring_nodes order (wires wpre, wj, wpost), then any further
   legs `rest` (the open leg); every neighbour nb other than `next` has a block whose first leg is the ket's
   wire to nb and whose other legs are xs nb.  Then the loop succeeds; the result has the leg to `next`,
   then `rest`, then the blocks' other legs in neighbour order; it binds exactly the wires to the
   contracted neighbours and glues nothing. *)
Theorem all_but_one_axes kt kn next blocks (w : id -> wire) (xs : id -> list wire) (blk : id -> garr) wj rest pre post :
  neighbouring_nodes kn = pre ++ next :: post ->
  NoDup (pre ++ next :: post) ->
  gaxes kt = map w pre ++ wj :: map w post ++ rest ->
  (forall nb, In nb (pre ++ post) -> aget nb blocks = Some (blk nb) /\ gaxes (blk nb) = w nb :: xs nb) ->
  exists r, all_but_one_to_ket kt kn next blocks = Some r /\
    gaxes r = wj :: rest ++ flat_map xs (pre ++ post) /\
    gatoms r = gatoms kt ++ flat_map (fun nb => gatoms (blk nb)) (pre ++ post) /\
    gbnd r = rev (map w (pre ++ post)) ++ gbnd kt ++ flat_map (fun nb => gbnd (blk nb)) (pre ++ post) /\
    gglue r = gglue kt ++ flat_map (fun nb => gglue (blk nb)) (pre ++ post).
Proof.
  intros Hnbs Hnd Hax Hblk.
  destruct (NoDup_mid_notin _ _ _ Hnd) as (Hnpre & Hnpost & Hnd').
  assert (Hnext : neighbour_index kn next = Some (length pre)).
  { rewrite neighbour_index_nbs, Hnbs. apply idx_mid. exact Hnpre. }
  rewrite all_but_one_fold, Hnbs, fold_left_app.
  (* phase 1: neighbours before next, axis 0 *)
  destruct (abo_phase kn next blocks (length pre) 0 w xs blk pre Hnext) with (r := kt) (fixed := @nil wire)
    (rest := wj :: map w post ++ rest) as (r1 & Hf1 & A1 & B1 & C1 & D1).
  { intros nb Hin. split; [intros ->; contradiction|]. split.
    - destruct (idx_app_in nb pre (next :: post) Hin) as (i & Ei & Hi).
      exists i. rewrite neighbour_index_nbs, Hnbs. split; [exact Ei|]. unfold id in *. split; [lia|].
      destruct (Nat.ltb_spec (length pre) i); [lia|reflexivity].
    - apply Hblk. apply in_or_app. left. exact Hin. }
  { reflexivity. }
  { cbn [app]. exact Hax. }
  rewrite Hf1. cbn [fold_left]. unfold abo_step at 2. rewrite Nat.eqb_refl.
  (* phase 2: neighbours after next, axis 1 *)
  destruct (abo_phase kn next blocks (length pre) 1 w xs blk post Hnext) with (r := r1) (fixed := [wj])
    (rest := rest ++ flat_map xs pre) as (r2 & Hf2 & A2 & B2 & C2 & D2).
  { intros nb Hin. split; [intros ->; contradiction|]. split.
    - assert (Hnp : ~ In nb pre).
      { intros Hp. apply NoDup_remove_1 in Hnd. revert Hnd Hp Hin. clear. intros Hnd Hp Hin.
        induction pre as [|y t IH]; [destruct Hp|]. cbn in Hnd. inversion Hnd as [|? ? Hni Hnd']; subst.
        destruct Hp as [->|Hp]; [apply Hni; apply in_or_app; right; exact Hin|apply IH; assumption]. }
      destruct (idx_in nb post Hin) as [i Ei].
      exists (length pre + S i). rewrite neighbour_index_nbs, Hnbs. rewrite idx_app_notin by exact Hnp. cbn [index_of].
      destruct (Nat.eqb_spec nb next) as [->|_]; [contradiction|]. rewrite Ei. cbn [option_map]. unfold id in *. split; [reflexivity|]. split; [lia|].
      destruct (Nat.ltb_spec (length pre) (length pre + S i)); [reflexivity|lia].
    - apply Hblk. apply in_or_app. right. exact Hin. }
  { reflexivity. }
  { rewrite A1. cbn [app]. rewrite <- !app_assoc. reflexivity. }
  exists r2. split; [exact Hf2|]. rewrite A2, B2, C2, D2, B1, C1, D1.
  rewrite !flat_map_app, map_app, rev_app_distr. cbn [app]. rewrite <- !app_assoc. auto.
Qed.

(* ==== (1b) contract_bra_tensor_ignore_one_leg: independent child orders ============================================================= *)
(* positions of the neighbours other than `next`, read in the ket order, inside the bra's own order *)
Lemma NoDup_app_one {A} (l : list A) x : NoDup l -> ~ In x l -> NoDup (l ++ [x]).
Proof.
  intros H1 H2. apply (Permutation_NoDup (l := x :: l)); [|constructor; assumption].
  apply Permutation_cons_append.
Qed.

Lemma in_mid_other {A} (x y : A) a b : In y (a ++ x :: b) -> y <> x -> In y (a ++ b).
Proof. intros H Hne. apply in_app_or in H. apply in_or_app. destruct H as [H|[H|H]]; [left; exact H|congruence|right; exact H]. Qed.

Lemma in_mid_intro {A} (x y : A) a b : In y (a ++ b) -> In y (a ++ x :: b).
Proof. intros H. apply in_app_or in H. apply in_or_app. destruct H; [left|right; right]; assumption. Qed.

Theorem bra_to_ket_ignore_axes bt kb bn kn next (x : id -> wire) wj o p pre post :
  neighbouring_nodes kn = pre ++ next :: post ->
  NoDup (pre ++ next :: post) ->
  Permutation (neighbouring_nodes bn) (pre ++ next :: post) ->
  gaxes kb = wj :: o :: map x (pre ++ post) ->
  gaxes bt = map x (neighbouring_nodes bn) ++ [p] ->
  o <> p ->
  exists r, bra_to_ket_ignore bt kb bn kn next = Some r /\
    gaxes r = [wj; x next] /\
    gatoms r = gatoms kb ++ gatoms bt /\
    gbnd r = map x (pre ++ post) ++ gbnd kb ++ gbnd bt /\
    gglue r = (o, p) :: gglue kb ++ gglue bt.
Proof.
  intros Hnbs Hnd Hperm Hkb Hbt Hop.
  destruct (NoDup_mid_notin _ _ _ Hnd) as (Hnpre & Hnpost & Hnd').
  set (L := pre ++ post) in *.
  set (nb_b := neighbouring_nodes bn) in *.
  assert (HndB : NoDup nb_b) by (eapply Permutation_NoDup; [symmetry; exact Hperm|exact Hnd]).
  assert (HinB : forall y, In y nb_b <-> In y (pre ++ next :: post)).
  { intros y. split; apply Permutation_in; [exact Hperm|symmetry; exact Hperm]. }
  assert (HnextL : ~ In next L).
  { unfold L. intros H. apply in_app_or in H. destruct H; contradiction. }
  assert (HLB : forall y, In y L -> In y nb_b).
  { intros y Hy. apply HinB. apply in_mid_intro. exact Hy. }
  assert (HlenB : length nb_b = S (length L)).
  { unfold L. rewrite (Permutation_length Hperm), !app_length. cbn. nlia. }
  assert (HnextB : In next nb_b) by (apply HinB; apply in_or_app; right; left; reflexivity).
  destruct (pos_in_spec nb_b next HnextB) as (_ & Hjb & Hjbn).
  set (jb := pos_in nb_b next) in *.
  unfold bra_to_ket_ignore.
  rewrite neighbour_index_nbs, Hnbs, idx_mid by exact Hnpre.
  rewrite filter_neq_mid by assumption. unfold id, wire in *. fold L.
  (* ket positions *)
  assert (Hkis : all_some (map (neighbour_index kn) L) = Some (seq 0 (length pre) ++ seq (S (length pre)) (length post))).
  { unfold L. rewrite map_app. apply all_some_app.
    - rewrite (map_ext _ (fun nb => index_of nb ([] ++ pre ++ next :: post))).
      + apply (all_some_idx_seq [] pre (next :: post)). exact Hnd.
      + intros a. rewrite neighbour_index_nbs, Hnbs. reflexivity.
    - rewrite (map_ext _ (fun nb => index_of nb ((pre ++ [next]) ++ post ++ []))).
      + replace (S (length pre)) with (length (pre ++ [next])) by (rewrite app_length; cbn; nlia).
        apply (all_some_idx_seq (pre ++ [next]) post []).
        rewrite app_nil_r, <- app_assoc. exact Hnd.
      + intros a. rewrite neighbour_index_nbs, Hnbs, app_nil_r, <- app_assoc. reflexivity. }
  unfold id, wire in *. rewrite Hkis.
  (* bra positions *)
  assert (Hbis : all_some (map (neighbour_index bn) L) = Some (map (pos_in nb_b) L)).
  { apply all_some_total. intros a Ha. rewrite neighbour_index_nbs. apply pos_in_spec. apply HLB. exact Ha. }
  unfold id, wire in *. rewrite Hbis.
  (* the ket-side legs are 2, 3, ..., then 1 *)
  assert (Hlegs : map (fun ki => ki + 1 + (if Nat.ltb ki (length pre) then 1 else 0))
                    (seq 0 (length pre) ++ seq (S (length pre)) (length post)) = seq 2 (length L)).
  { unfold L. rewrite map_app, app_length, seq_app. f_equal.
    - rewrite <- (map_add_seq 2 0). apply map_ext_in. intros i Hi. apply in_seq in Hi.
      destruct (Nat.ltb_spec i (length pre)); nlia.
    - replace (2 + length pre) with (S (length pre) + 1) by nlia. rewrite <- map_add_seq.
      apply map_ext_in. intros i Hi. apply in_seq in Hi. destruct (Nat.ltb_spec i (length pre)); nlia. }
  unfold id, wire in *. rewrite Hlegs. rewrite nvirt_nbs. fold nb_b.
  assert (HposB : forall a, In a L -> pos_in nb_b a < length nb_b /\ pos_in nb_b a <> jb).
  { intros a Ha. destruct (pos_in_spec nb_b a (HLB a Ha)) as (_ & H1 & H2). split; [exact H1|].
    intros E. apply HnextL. replace next with a; [exact Ha|]. apply (pos_in_inj nb_b); auto. }
  rewrite g_tensordot_ok.
  2:{ rewrite !app_length, map_length, seq_length. reflexivity. }
  2:{ intros i Hi. rewrite Hkb. cbn [length]. rewrite map_length. apply in_app_or in Hi.
      destruct Hi as [Hi|[<-|[]]]; [apply in_seq in Hi|]; nlia. }
  2:{ intros i Hi. rewrite Hbt, app_length, map_length. cbn. apply in_app_or in Hi.
      destruct Hi as [Hi|[<-|[]]]; [|nlia]. apply in_map_iff in Hi. destruct Hi as (a & <- & Ha).
      destruct (HposB a Ha). nlia. }
  2:{ apply NoDup_app_one. - apply seq_NoDup. - intros Hi. apply in_seq in Hi. nlia. }
  2:{ apply NoDup_app_one.
      - apply NoDup_map_inj_in; [|exact Hnd']. intros a b Ha Hb. apply pos_in_inj; apply HLB; assumption.
      - intros Hi. apply in_map_iff in Hi. destruct Hi as (a & E & Ha). destruct (HposB a Ha). nlia. }
  (* wires read off the two leg lists *)
  assert (Hwa : map (fun i => nth i (gaxes kb) 0) (seq 2 (length L) ++ [1]) = map x L ++ [o]).
  { rewrite Hkb, map_app. cbn [map nth]. f_equal.
    pose proof (nth_seq_block 0 [wj; o] (map x L) []) as H. rewrite app_nil_r, map_length in H. exact H. }
  assert (Hwb : map (fun i => nth i (gaxes bt) 0) (map (pos_in nb_b) L ++ [length nb_b]) = map x L ++ [p]).
  { rewrite Hbt, map_app. cbn [map]. f_equal.
    - rewrite map_map. apply map_ext_in. intros a Ha. destruct (pos_in_spec nb_b a (HLB a Ha)) as (_ & H1 & H2).
      rewrite app_nth1 by (rewrite map_length; exact H1).
      rewrite (nth_indep _ 0 (x 0)) by (rewrite map_length; exact H1). rewrite map_nth, H2. reflexivity.
    - f_equal. rewrite <- (map_length x nb_b). apply nth_mid. }
  unfold id, wire in *. rewrite Hwa, Hwb, pairs_same, pairs_diff by exact Hop.
  eexists. split; [reflexivity|]. cbn [gaxes gatoms gbnd gglue]. split; [|auto].
  (* the surviving axes *)
  rewrite Hkb, Hbt.
  rewrite (dropfrom_one 0 0 _ (wj :: o :: map x L) 0).
  2:{ cbn. nlia. }
  2:{ intros i Hi. cbn [length] in Hi. rewrite map_length in Hi. cbn [Nat.add]. rewrite in_app_iff, in_seq. cbn [In]. nlia. }
  rewrite (dropfrom_one 0 0 _ (map x nb_b ++ [p]) jb).
  2:{ rewrite app_length, map_length. cbn. nlia. }
  2:{ intros i Hi. rewrite app_length, map_length in Hi. cbn in Hi. cbn [Nat.add]. rewrite in_app_iff. cbn [In]. split.
      - intros [H|[H|[]]]; [|nlia]. apply in_map_iff in H. destruct H as (a & <- & Ha). apply HposB. exact Ha.
      - intros Hne. destruct (Nat.eq_dec i (length nb_b)) as [->|Hne2]; [right; left; reflexivity|]. left.
        assert (Hi' : i < length nb_b) by nlia.
        apply in_map_iff. exists (nth i nb_b 0). split; [apply pos_in_nth; assumption|].
        apply in_mid_other with (x := next).
        + apply HinB. apply nth_In. exact Hi'.
        + intros E. apply Hne. rewrite <- (pos_in_nth nb_b i HndB Hi'). rewrite E. reflexivity. }
  cbn [nth app]. rewrite app_nth1 by (rewrite map_length; exact Hjb).
  rewrite (nth_indep _ 0 (x 0)) by (rewrite map_length; exact Hjb). rewrite map_nth, Hjbn. reflexivity.
Qed.

(* ==== (1c) the root: contract_all_neighbour_blocks_to_ket and contract_bra_tensor_all ============================================== *)
Definition atk_step (blocks : list (id * garr)) (acc : option garr) (nb : id) : option garr :=
  match acc with
  | None => None
  | Some r => match aget nb blocks with Some blk => g_tensordot r blk [0] [0] | None => None end
  end.

Lemma all_to_ket_fold kt kn blocks :
  all_to_ket kt kn blocks = fold_left (atk_step blocks) (neighbouring_nodes kn) (Some kt).
Proof. reflexivity. Qed.

Lemma atk_phase blocks (w : id -> wire) (xs : id -> list wire) (blk : id -> garr) l :
  (forall nb, In nb l -> aget nb blocks = Some (blk nb) /\ gaxes (blk nb) = w nb :: xs nb) ->
  forall r rest, gaxes r = map w l ++ rest ->
  exists r', fold_left (atk_step blocks) l (Some r) = Some r' /\
     gaxes r' = rest ++ flat_map xs l /\
     gatoms r' = gatoms r ++ flat_map (fun nb => gatoms (blk nb)) l /\
     gbnd r' = rev (map w l) ++ gbnd r ++ flat_map (fun nb => gbnd (blk nb)) l /\
     gglue r' = gglue r ++ flat_map (fun nb => gglue (blk nb)) l.
Proof.
  induction l as [|nb l IH]; intros H r rest Hax.
  - exists r. cbn in *. rewrite !app_nil_r. auto.
  - destruct (H nb (or_introl eq_refl)) as (Hblk & Hbax).
    cbn [fold_left]. unfold atk_step at 2. rewrite Hblk. cbn [map app] in Hax.
    pose proof (g_tensordot_single r (blk nb) [] (w nb) (map w l ++ rest) (xs nb) Hax Hbax) as Hg.
    cbn [length app] in Hg. rewrite Hg. clear Hg.
    match goal with |- context [fold_left _ l (Some ?rr)] => set (r1 := rr) end.
    destruct (IH (fun nb' Hin => H nb' (or_intror Hin)) r1 (rest ++ xs nb)) as (r' & Hf & H1 & H2 & H3 & H4).
    { subst r1. cbn [gaxes app]. rewrite <- app_assoc. reflexivity. }
    exists r'. split; [exact Hf|]. subst r1. cbn [gaxes gatoms gbnd gglue] in *.
    rewrite H1, H2, H3, H4. cbn [flat_map map rev]. rewrite <- !app_assoc. cbn [app]. rewrite <- !app_assoc. auto.
Qed.

Theorem all_to_ket_axes kt kn blocks (w : id -> wire) (xs : id -> list wire) (blk : id -> garr) rest :
  gaxes kt = map w (neighbouring_nodes kn) ++ rest ->
  (forall nb, In nb (neighbouring_nodes kn) -> aget nb blocks = Some (blk nb) /\ gaxes (blk nb) = w nb :: xs nb) ->
  exists r, all_to_ket kt kn blocks = Some r /\
    gaxes r = rest ++ flat_map xs (neighbouring_nodes kn) /\
    gatoms r = gatoms kt ++ flat_map (fun nb => gatoms (blk nb)) (neighbouring_nodes kn) /\
    gbnd r = rev (map w (neighbouring_nodes kn)) ++ gbnd kt ++ flat_map (fun nb => gbnd (blk nb)) (neighbouring_nodes kn) /\
    gglue r = gglue kt ++ flat_map (fun nb => gglue (blk nb)) (neighbouring_nodes kn).
Proof. intros Hax H. rewrite all_to_ket_fold. apply atk_phase; assumption. Qed.

Lemma nth_seq_all {A} (d : A) (l : list A) : map (fun i => nth i l d) (seq 0 (length l)) = l.
Proof. pose proof (nth_seq_block d [] l []) as H. rewrite app_nil_r in H. exact H. Qed.

Theorem bra_to_ket_all_axes bt kb bn kn (x : id -> wire) o p :
  NoDup (neighbouring_nodes kn) ->
  Permutation (neighbouring_nodes bn) (neighbouring_nodes kn) ->
  gaxes kb = o :: map x (neighbouring_nodes kn) ->
  gaxes bt = map x (neighbouring_nodes bn) ++ [p] ->
  o <> p ->
  exists r, bra_to_ket_all bt kb bn kn = Some r /\
    gaxes r = [] /\
    gatoms r = gatoms kb ++ gatoms bt /\
    gbnd r = map x (neighbouring_nodes bn) ++ gbnd kb ++ gbnd bt /\
    gglue r = (o, p) :: gglue kb ++ gglue bt.
Proof.
  intros Hnd Hperm Hkb Hbt Hop.
  set (K := neighbouring_nodes kn) in *. set (B := neighbouring_nodes bn) in *.
  assert (HndB : NoDup B) by (eapply Permutation_NoDup; [symmetry; exact Hperm|exact Hnd]).
  assert (HBK : forall y, In y B -> In y K) by (intros y; apply Permutation_in; exact Hperm).
  assert (HKB : forall y, In y K -> In y B) by (intros y; apply Permutation_in; symmetry; exact Hperm).
  assert (Hlen : length B = length K) by (apply Permutation_length; exact Hperm).
  unfold bra_to_ket_all. fold B.
  assert (Hkis : all_some (map (neighbour_index kn) B) = Some (map (pos_in K) B)).
  { apply all_some_total. intros a Ha. rewrite neighbour_index_nbs. apply pos_in_spec. apply HBK. exact Ha. }
  unfold id, wire in *. rewrite Hkis. rewrite nvirt_nbs. fold B.
  rewrite g_tensordot_ok.
  2:{ rewrite app_length, !map_length, seq_length. reflexivity. }
  2:{ intros i Hi. rewrite Hkb. cbn [length]. rewrite map_length. apply in_app_or in Hi.
      destruct Hi as [Hi|[<-|[]]]; [|nlia]. rewrite map_map in Hi. apply in_map_iff in Hi. destruct Hi as (a & <- & Ha).
      destruct (pos_in_spec K a (HBK a Ha)) as (_ & H1 & _). nlia. }
  2:{ intros i Hi. apply in_seq in Hi. rewrite Hbt, app_length, map_length. cbn. nlia. }
  2:{ apply NoDup_app_one.
      - rewrite map_map. apply NoDup_map_inj_in; [|exact HndB]. intros a b Ha Hb E.
        apply (pos_in_inj K); auto. nlia.
      - intros Hi. rewrite map_map in Hi. apply in_map_iff in Hi. destruct Hi as (a & E & _). nlia. }
  2:{ apply seq_NoDup. }
  assert (Hwa : map (fun i => nth i (gaxes kb) 0) (map (fun ki => ki + 1) (map (pos_in K) B) ++ [0]) = map x B ++ [o]).
  { rewrite Hkb, map_app. cbn [map nth]. f_equal. rewrite !map_map. apply map_ext_in. intros a Ha.
    destruct (pos_in_spec K a (HBK a Ha)) as (_ & H1 & H2). rewrite Nat.add_1_r. cbn [nth].
    rewrite (nth_indep _ 0 (x 0)) by (rewrite map_length; exact H1). rewrite map_nth, H2. reflexivity. }
  assert (Hwb : map (fun i => nth i (gaxes bt) 0) (seq 0 (length B + 1)) = map x B ++ [p]).
  { rewrite Hbt. replace (length B + 1) with (length (map x B ++ [p])) by (rewrite app_length, map_length; reflexivity).
    apply nth_seq_all. }
  unfold id, wire in *. rewrite Hwa, Hwb, pairs_same, pairs_diff by exact Hop.
  eexists. split; [reflexivity|]. cbn [gaxes gatoms gbnd gglue]. split; [|auto].
  rewrite Hkb, Hbt. rewrite !dropfrom_all; [reflexivity| |].
  - intros i Hi. rewrite app_length, map_length in Hi. cbn in Hi. cbn [Nat.add]. apply in_seq. nlia.
  - intros i Hi. cbn [length] in Hi. rewrite map_length in Hi. cbn [Nat.add]. apply in_or_app.
    destruct i as [|i]; [right; left; reflexivity|]. left. rewrite map_map. apply in_map_iff.
    exists (nth i K 0). split.
    + rewrite pos_in_nth by (auto; nlia). nlia.
    + apply HKB. apply nth_In. nlia.
Qed.

(* ==== a small solver for permutations of concatenations ================================================================================ *)
Lemma pf_cons_skip {A} (x y : A) R R' : Permutation R (x :: R') -> Permutation (y :: R) (x :: y :: R').
Proof. intros H. rewrite H. apply perm_swap. Qed.
Lemma pf_cons_app {A} (x : A) a R R' : Permutation R (x :: R') -> Permutation (a ++ R) (x :: a ++ R').
Proof. intros H. rewrite H. symmetry. apply Permutation_middle. Qed.
Lemma pf_app_cons {A} (a : list A) y R R' : Permutation R (a ++ R') -> Permutation (y :: R) (a ++ y :: R').
Proof. intros H. rewrite H. apply Permutation_middle. Qed.
Lemma pf_app_app {A} (a b R R' : list A) : Permutation R (a ++ R') -> Permutation (b ++ R) (a ++ b ++ R').
Proof. intros H. rewrite H. rewrite !app_assoc. apply Permutation_app_tail. apply Permutation_app_comm. Qed.
Lemma ps_cons {A} (x : A) L R R' : Permutation R (x :: R') -> Permutation L R' -> Permutation (x :: L) R.
Proof. intros H1 H2. rewrite H1, H2. reflexivity. Qed.
Lemma ps_app {A} (a : list A) L R R' : Permutation R (a ++ R') -> Permutation L R' -> Permutation (a ++ L) R.
Proof. intros H1 H2. rewrite H1, H2. reflexivity. Qed.
Lemma ps_nil_both {A} (L R : list A) : Permutation (L ++ []) (R ++ []) -> Permutation L R.
Proof. rewrite !app_nil_r. auto. Qed.

Ltac pf_cons := first [ apply Permutation_refl | apply pf_cons_skip; pf_cons | apply pf_cons_app; pf_cons ].
Ltac pf_app := first [ apply Permutation_refl | apply pf_app_cons; pf_app | apply pf_app_app; pf_app ].
Ltac perm_norm := apply ps_nil_both; repeat (progress (rewrite <- ?app_assoc; cbn [app])).
Ltac perm_loop :=
  lazymatch goal with
  | |- Permutation [] [] => constructor
  | |- Permutation (?x :: ?L) ?R => eapply ps_cons; [pf_cons|perm_loop]
  | |- Permutation (?a ++ ?L) ?R => eapply ps_app; [pf_app|perm_loop]
  end.
Ltac perm_solve := perm_norm; perm_loop.

Example perm_solve_test (a b c : list nat) x y :
  Permutation ((x :: a ++ b) ++ y :: c) (y :: c ++ (b ++ [x]) ++ a).
Proof. perm_solve. Qed.

(* ---- flat_map bookkeeping ---------------------------------------------------------------------------------------------------------------- *)
Lemma flat_map_map {A B C} (f : B -> list C) (g : A -> B) l : flat_map f (map g l) = flat_map (fun a => f (g a)) l.
Proof. induction l as [|a t IH]; cbn; [reflexivity|]. rewrite IH. reflexivity. Qed.

Lemma flat_map_flat_map {A B C} (f : B -> list C) (g : A -> list B) l :
  flat_map f (flat_map g l) = flat_map (fun a => flat_map f (g a)) l.
Proof. induction l as [|a t IH]; cbn; [reflexivity|]. rewrite flat_map_app, IH. reflexivity. Qed.

Lemma flat_map_single {A B} (f : A -> B) l : flat_map (fun a => [f a]) l = map f l.
Proof. induction l as [|a t IH]; cbn; [reflexivity|]. rewrite IH. reflexivity. Qed.

Lemma perm_flat_map_pointwise {A B} (f g : A -> list B) l :
  (forall a, In a l -> Permutation (f a) (g a)) -> Permutation (flat_map f l) (flat_map g l).
Proof.
  induction l as [|a t IH]; intros H; cbn; [constructor|].
  apply Permutation_app; [apply H; left; reflexivity|apply IH; intros; apply H; right; assumption].
Qed.

Lemma perm_flat_map_split {A B} (f g : A -> list B) l :
  Permutation (flat_map (fun a => f a ++ g a) l) (flat_map f l ++ flat_map g l).
Proof. induction l as [|a t IH]; cbn; [constructor|]. rewrite IH. perm_solve. Qed.

Lemma flat_map_length_in {A B} (f : A -> list B) l a : In a l -> length (f a) <= length (flat_map f l).
Proof.
  induction l as [|b t IH]; [intros []|]. cbn. rewrite app_length. intros [->|H]; [lia|]. specialize (IH H). lia.
Qed.

(* what the children's blocks contribute, summed over the children's subtrees *)
Lemma perm_children {A} (f g : id -> list A) cs :
  (forall c, In c cs -> Permutation (f (rid c)) (flat_map g (rnodes c))) ->
  Permutation (flat_map f (map rid cs)) (flat_map g (flat_map rnodes cs)).
Proof.
  intros H. rewrite flat_map_map, flat_map_flat_map. apply perm_flat_map_pointwise. exact H.
Qed.

Lemma perm_edge_sum {A} (a b : id -> A) (h : id -> list A) l :
  Permutation (map b l ++ rev (map a l) ++ flat_map h l) (flat_map (fun c => [a c; b c] ++ h c) l).
Proof.
  rewrite <- Permutation_rev. induction l as [|c t IH]; cbn; [constructor|]. rewrite <- IH. perm_solve.
Qed.

(* ---- the store's view of a node --------------------------------------------------------------------------------------------------------------- *)
Lemma aget_map_pair {V} (g : nat -> V) l a : In a l -> aget a (map (fun c => (c, g c)) l) = Some (g a).
Proof.
  induction l as [|b t IH]; [intros []|]. intros H. cbn. destruct (Nat.eqb_spec a b) as [->|Hne]; [reflexivity|].
  destruct H as [->|H]; [congruence|]. apply IH. exact H.
Qed.

Lemma aget_akeys {V} k (l : list (nat * V)) v : aget k l = Some v -> In k (akeys l).
Proof.
  induction l as [|[k' v'] t IH]; cbn; [discriminate|]. destruct (Nat.eqb_spec k k') as [->|Hne]; [left; reflexivity|].
  intros H. right. apply IH. exact H.
Qed.

Lemma tensor_of_view s n nd :
  aget n (nodes s) = Some nd -> t_axes s n <> [] ->
  exists g, tensor_of s n = Some g /\ gaxes g = t_axes s n /\ gatoms g = t_atoms s n /\ gbnd g = t_bnd s n /\
            gglue g = [] /\ length (gaxes g) = nlegs nd.
Proof.
  intros Hn Hax. unfold t_axes, t_atoms, t_bnd in *. unfold tensor_of, logical in *. rewrite Hn in *.
  destruct (aget n (tensors s)) as [t|]; cbn in *.
  - eexists. split; [reflexivity|]. cbn. repeat split. unfold permute, nlegs. apply map_length.
  - congruence.
Qed.

(* ==== (2) the global theorem for contract_two_ttns ================================================================================================ *)
Lemma block_two_leaf f ket bra n next kn bn kt bt :
  aget n (nodes ket) = Some kn -> aget n (nodes bra) = Some bn -> tensor_of ket n = Some kt -> tensor_of bra n = Some bt ->
  children kn = [] -> children bn = [] -> nopen kn = 1 -> nopen bn = 1 ->
  block_two (S f) ket bra n next = g_tensordot kt bt [nvirt kn] [nvirt bn].
Proof.
  intros H1 H2 H3 H4 H5 H6 H7 H8. cbn [block_two]. rewrite H1, H2, H3, H4, H5, H6, H7, H8. reflexivity.
Qed.

Lemma block_two_node f ket bra n next kn bn kt bt :
  aget n (nodes ket) = Some kn -> aget n (nodes bra) = Some bn -> tensor_of ket n = Some kt -> tensor_of bra n = Some bt ->
  children kn <> [] ->
  block_two (S f) ket bra n next =
  match all_some (map (fun c => option_map (fun b => (c, b)) (block_two f ket bra c n)) (children kn)) with
  | None => None
  | Some blocks =>
      match all_but_one_to_ket kt kn next blocks with
      | Some kb => bra_to_ket_ignore bt kb bn kn next
      | None => None
      end
  end.
Proof.
  intros H1 H2 H3 H4 H5. cbn [block_two]. rewrite H1, H2, H3, H4. destruct (children kn); [congruence|reflexivity].
Qed.

Section Global.
  Variables ket bra : store.
  Let kw := up_wire ket. Let bw := up_wire bra. Let ko := open_wire ket. Let bo := open_wire bra.
  Let AT (m : id) : list nat := t_atoms ket m ++ t_atoms bra m.
  Let EB (m : id) : list wire := [kw m; bw m] ++ t_bnd ket m ++ t_bnd bra m.
  Let OP (m : id) : list (wire * wire) := [(ko m, bo m)].

  (* the children's blocks, as a total function of the child id *)
  Definition blk_of (f : nat) (n : id) (dflt : garr) (c : id) : garr :=
    match block_two f ket bra c n with Some g => g | None => dflt end.

  Lemma block_two_closed po t : wf_sub ket bra po t ->
    forall p fuel, po = Some p -> length (rnodes t) <= fuel ->
    exists g, block_two fuel ket bra (rid t) p = Some g /\
      gaxes g = [kw (rid t); bw (rid t)] /\
      Permutation (gatoms g) (flat_map AT (rnodes t)) /\
      Permutation ([kw (rid t); bw (rid t)] ++ gbnd g) (flat_map EB (rnodes t)) /\
      Permutation (gglue g) (flat_map OP (rnodes t)).
  Proof.
    induction 1 as [po n cs Hok Hcs IH]. intros p fuel -> Hfuel.
    destruct fuel as [|f]; [cbn in Hfuel; lia|].
    destruct Hok as (kn & bn & Hk & Hb & Hpk & Hpb & Hck & Hcb & Hnd & Hkax & Hbax & Hop).
    cbn [opt_list] in Hkax, Hbax.
    destruct (tensor_of_view ket n kn Hk) as (kt & Hkt & Hkt1 & Hkt2 & Hkt3 & Hkt4 & Hkt5).
    { rewrite Hkax. cbn. discriminate. }
    destruct (tensor_of_view bra n bn Hb) as (bt & Hbt & Hbt1 & Hbt2 & Hbt3 & Hbt4 & Hbt5).
    { rewrite Hbax. cbn. discriminate. }
    cbn [rid rnodes flat_map]. fold kw bw ko bo in Hkax, Hbax, Hop |- *.
    destruct cs as [|c0 cs'].
    - (* leaf *)
      cbn [map] in *. apply Permutation_sym, Permutation_nil in Hcb. rewrite Hcb in Hbax. cbn [map app] in *.
      assert (Hvk : nvirt kn = 1) by (unfold nvirt, nparents; rewrite Hpk, Hck; reflexivity).
      assert (Hvb : nvirt bn = 1) by (unfold nvirt, nparents; rewrite Hpb, Hcb; reflexivity).
      rewrite (block_two_leaf f ket bra n p kn bn kt bt Hk Hb Hkt Hbt Hck Hcb).
      2:{ unfold nopen. rewrite <- Hkt5, Hkt1, Hkax, Hvk. reflexivity. }
      2:{ unfold nopen. rewrite <- Hbt5, Hbt1, Hbax, Hvb. reflexivity. }
      rewrite Hvk, Hvb. rewrite g_tensordot_ok.
      2:{ reflexivity. }
      2:{ intros i [<-|[]]. rewrite Hkt1, Hkax. cbn. lia. }
      2:{ intros i [<-|[]]. rewrite Hbt1, Hbax. cbn. lia. }
      2,3: constructor; [intros []|constructor].
      eexists. split; [reflexivity|]. cbn [gaxes gatoms gbnd gglue]. rewrite Hkt1, Hbt1, Hkax, Hbax.
      cbn [map nth combine filter fst snd dropfrom memb existsb Nat.eqb orb app].
      destruct (Nat.eqb_spec (ko n) (bo n)) as [E|_]; [contradiction|]. cbn [negb map app].
      rewrite Hkt2, Hkt3, Hkt4, Hbt2, Hbt3, Hbt4. unfold AT, EB, OP. cbn [flat_map app]. rewrite !app_nil_r.
      repeat split; reflexivity.
    - (* inner node *)
      set (cs := c0 :: cs') in *. set (ids := map rid cs) in *.
      assert (Hnbk : neighbouring_nodes kn = [] ++ p :: ids) by (unfold neighbouring_nodes; rewrite Hpk, Hck; reflexivity).
      assert (Hnbb : neighbouring_nodes bn = p :: children bn) by (unfold neighbouring_nodes; rewrite Hpb; reflexivity).
      rewrite Hnbk in Hnd. cbn [app] in Hnd.
      assert (Hpn : ~ In p ids) by (inversion Hnd; assumption).
      assert (Hpnb : ~ In p (children bn)) by (intros Hin; apply Hpn; eapply Permutation_in; eassumption).
      rewrite (block_two_node f ket bra n p kn bn kt bt Hk Hb Hkt Hbt).
      2:{ rewrite Hck. discriminate. }
      rewrite Hck. set (blk := blk_of f n kt).
      assert (Hsub : forall c, In c cs ->
                block_two f ket bra (rid c) n = Some (blk (rid c)) /\
                gaxes (blk (rid c)) = [kw (rid c); bw (rid c)] /\
                Permutation (gatoms (blk (rid c))) (flat_map AT (rnodes c)) /\
                Permutation ([kw (rid c); bw (rid c)] ++ gbnd (blk (rid c))) (flat_map EB (rnodes c)) /\
                Permutation (gglue (blk (rid c))) (flat_map OP (rnodes c))).
      { intros c Hc. destruct (IH c Hc n f eq_refl) as (g & Hg & HH).
        - cbn [rnodes length] in Hfuel. pose proof (flat_map_length_in rnodes cs c Hc). lia.
        - unfold blk, blk_of. rewrite Hg. split; [reflexivity|exact HH]. }
      assert (Hids : forall a, In a ids -> exists c, In c cs /\ rid c = a).
      { intros a Ha. apply in_map_iff in Ha. destruct Ha as (c & E & Hc). eauto. }
      assert (Hblocks : all_some (map (fun c => option_map (fun b => (c, b)) (block_two f ket bra c n)) ids)
                        = Some (map (fun c => (c, blk c)) ids)).
      { apply all_some_total. intros a Ha. destruct (Hids a Ha) as (c & Hc & <-).
        destruct (Hsub c Hc) as (-> & _). reflexivity. }
      rewrite Hblocks.
      destruct (all_but_one_axes kt kn p (map (fun c => (c, blk c)) ids) kw (fun nb => [bw nb]) blk (kw n) [ko n] [] ids Hnbk)
        as (kb & Hkb & K1 & K2 & K3 & K4).
      { exact Hnd. }
      { rewrite Hkt1, Hkax. reflexivity. }
      { intros nb Hnb. cbn [app] in Hnb. split; [apply aget_map_pair; exact Hnb|].
        destruct (Hids nb Hnb) as (c & Hc & <-). apply Hsub. exact Hc. }
      rewrite Hkb. cbn [app] in K1, K2, K3, K4.
      set (x := fun nb : id => if Nat.eqb nb p then bw n else bw nb).
      assert (Hx : forall l : list id, ~ In p l -> map x l = map bw l).
      { intros l Hl. apply map_ext_in. intros a Ha. unfold x. destruct (Nat.eqb_spec a p) as [->|_]; [contradiction|reflexivity]. }
      destruct (bra_to_ket_ignore_axes bt kb bn kn p x (kw n) (ko n) (bo n) [] ids Hnbk) as (g & Hg & G1 & G2 & G3 & G4).
      { exact Hnd. }
      { rewrite Hnbb. cbn [app]. apply perm_skip. exact Hcb. }
      { rewrite K1. cbn [app]. rewrite flat_map_single, Hx by exact Hpn. reflexivity. }
      { rewrite Hnbb, Hbt1, Hbax. cbn [map]. rewrite Hx by exact Hpnb. unfold x. rewrite Nat.eqb_refl. reflexivity. }
      { exact Hop. }
      exists g. split; [exact Hg|]. cbn [app] in G3.
      split; [rewrite G1; unfold x; rewrite Nat.eqb_refl; reflexivity|].
      rewrite G2, G3, G4, K2, K3, K4, Hkt2, Hkt3, Hkt4, Hbt2, Hbt3, Hbt4, (Hx ids Hpn).
      pose proof (perm_children (fun c => gatoms (blk c)) AT cs (fun c Hc => proj1 (proj2 (proj2 (Hsub c Hc))))) as P1.
      pose proof (perm_children (fun c => [kw c; bw c] ++ gbnd (blk c)) EB cs
                    (fun c Hc => proj1 (proj2 (proj2 (proj2 (Hsub c Hc)))))) as P2.
      pose proof (perm_children (fun c => gglue (blk c)) OP cs (fun c Hc => proj2 (proj2 (proj2 (proj2 (Hsub c Hc)))))) as P3.
      fold ids in P1, P2, P3. rewrite <- (perm_edge_sum kw bw (fun c => gbnd (blk c)) ids) in P2.
      rewrite <- P1, <- P2, <- P3. unfold AT at 1. unfold EB at 1. unfold OP at 1.
      split; [|split]; perm_solve.
  Qed.

  Lemma wf_sub_nodes po t : wf_sub ket bra po t -> forall m, In m (rnodes t) -> In m (akeys (nodes ket)).
  Proof.
    induction 1 as [po n cs Hok Hcs IH]. intros m Hm. cbn [rnodes] in Hm. destruct Hm as [<-|Hm].
    - destruct Hok as (kn & bn & Hk & _). eapply aget_akeys; eassumption.
    - apply in_flat_map in Hm. destruct Hm as (c & Hc & Hm). eapply IH; eassumption.
  Qed.

  Theorem two_closed_aux t : wf_two ket bra t ->
    exists g, contract_two_ttns ket bra = Some g /\
      gaxes g = [] /\
      Permutation (gatoms g) (flat_map AT (rnodes t)) /\
      Permutation (gbnd g) (flat_map EB (rdesc t) ++ t_bnd ket (rid t) ++ t_bnd bra (rid t)) /\
      Permutation (gglue g) (flat_map OP (rnodes t)).
  Proof.
    intros (Hrk & Hrb & Hnodup & Hwf).
    assert (Hsize : length (rnodes t) <= length (nodes ket)).
    { replace (length (nodes ket)) with (length (akeys (nodes ket))) by apply map_length.
      apply NoDup_incl_length; [exact Hnodup|]. intros m Hm. eapply wf_sub_nodes; eassumption. }
    inversion Hwf as [po n cs Hok Hcs E1 E2]. subst po t. cbn [rid] in *.
    destruct Hok as (kn & bn & Hk & Hb & Hpk & Hpb & Hck & Hcb & Hnd & Hkax & Hbax & Hop).
    cbn [opt_list app] in Hkax, Hbax.
    destruct (tensor_of_view ket n kn Hk) as (kt & Hkt & Hkt1 & Hkt2 & Hkt3 & Hkt4 & Hkt5).
    { rewrite Hkax. intros E. apply (f_equal (@length _)) in E. rewrite app_length in E. cbn in E. lia. }
    destruct (tensor_of_view bra n bn Hb) as (bt & Hbt & Hbt1 & Hbt2 & Hbt3 & Hbt4 & Hbt5).
    { rewrite Hbax. intros E. apply (f_equal (@length _)) in E. rewrite app_length in E. cbn in E. lia. }
    fold kw bw ko bo in Hkax, Hbax, Hop |- *.
    set (ids := map rid cs) in *.
    assert (Hnbk : neighbouring_nodes kn = ids) by (unfold neighbouring_nodes; rewrite Hpk, Hck; reflexivity).
    assert (Hnbb : neighbouring_nodes bn = children bn) by (unfold neighbouring_nodes; rewrite Hpb; reflexivity).
    unfold contract_two_ttns. rewrite Hrk, Hrb, Nat.eqb_refl. cbn [negb]. rewrite Hk, Hb, Hkt, Hbt, Hck.
    set (f := length (nodes ket)) in *. set (blk := blk_of f n kt).
    assert (Hsub : forall c, In c cs ->
              block_two f ket bra (rid c) n = Some (blk (rid c)) /\
              gaxes (blk (rid c)) = [kw (rid c); bw (rid c)] /\
              Permutation (gatoms (blk (rid c))) (flat_map AT (rnodes c)) /\
              Permutation ([kw (rid c); bw (rid c)] ++ gbnd (blk (rid c))) (flat_map EB (rnodes c)) /\
              Permutation (gglue (blk (rid c))) (flat_map OP (rnodes c))).
    { intros c Hc. destruct (block_two_closed (Some n) c (Hcs c Hc) n f eq_refl) as (g & Hg & HH).
      - cbn [rnodes length] in Hsize. pose proof (flat_map_length_in rnodes cs c Hc). lia.
      - unfold blk, blk_of. rewrite Hg. split; [reflexivity|exact HH]. }
    assert (Hids : forall a, In a ids -> exists c, In c cs /\ rid c = a).
    { intros a Ha. apply in_map_iff in Ha. destruct Ha as (c & E & Hc). eauto. }
    assert (Hblocks : all_some (map (fun c => option_map (fun b => (c, b)) (block_two f ket bra c n)) ids)
                      = Some (map (fun c => (c, blk c)) ids)).
    { apply all_some_total. intros a Ha. destruct (Hids a Ha) as (c & Hc & <-).
      destruct (Hsub c Hc) as (-> & _). reflexivity. }
    rewrite Hblocks.
    destruct (all_to_ket_axes kt kn (map (fun c => (c, blk c)) ids) kw (fun nb => [bw nb]) blk [ko n])
      as (kb & Hkb & K1 & K2 & K3 & K4).
    { rewrite Hnbk, Hkt1, Hkax. reflexivity. }
    { rewrite Hnbk. intros nb Hnb. split; [apply aget_map_pair; exact Hnb|].
      destruct (Hids nb Hnb) as (c & Hc & <-). apply Hsub. exact Hc. }
    rewrite Hkb. rewrite Hnbk in K1, K2, K3, K4. cbn [app] in K1.
    destruct (bra_to_ket_all_axes bt kb bn kn bw (ko n) (bo n)) as (g & Hg & G1 & G2 & G3 & G4).
    { rewrite Hnbk. rewrite Hnbk in Hnd. exact Hnd. }
    { rewrite Hnbk, Hnbb. exact Hcb. }
    { rewrite K1, Hnbk, flat_map_single. reflexivity. }
    { rewrite Hnbb, Hbt1, Hbax. reflexivity. }
    { exact Hop. }
    exists g. split; [exact Hg|]. split; [exact G1|].
    assert (G3' : Permutation (gbnd g) (map bw ids ++ gbnd kb ++ gbnd bt)).
    { rewrite G3, Hnbb. apply Permutation_app_tail. apply Permutation_map. exact Hcb. }
    cbn [rnodes rdesc rcs flat_map].
    pose proof (perm_children (fun c => gatoms (blk c)) AT cs (fun c Hc => proj1 (proj2 (proj2 (Hsub c Hc))))) as P1.
    pose proof (perm_children (fun c => [kw c; bw c] ++ gbnd (blk c)) EB cs
                  (fun c Hc => proj1 (proj2 (proj2 (proj2 (Hsub c Hc)))))) as P2.
    pose proof (perm_children (fun c => gglue (blk c)) OP cs (fun c Hc => proj2 (proj2 (proj2 (proj2 (Hsub c Hc)))))) as P3.
    fold ids in P1, P2, P3. rewrite <- (perm_edge_sum kw bw (fun c => gbnd (blk c)) ids) in P2.
    rewrite G2, G3', G4, K2, K3, K4, Hkt2, Hkt3, Hkt4, Hbt2, Hbt3, Hbt4.
    rewrite <- P1, <- P2, <- P3. unfold AT at 1. unfold OP at 1.
    split; [|split]; perm_solve.
  Qed.
End Global.

(* ==== the global theorem in the vocabulary of Closed.v ================================================================================================ *)
Lemma rnodes_desc t : rnodes t = rid t :: rdesc t.
Proof. destruct t. reflexivity. Qed.

(* every block of the recursion: two legs (the ket's and the bra's wire to the parent) and the subtree closed *)
Theorem block_two_subtree_closed ket bra p t fuel :
  wf_sub ket bra (Some p) t -> length (rnodes t) <= fuel ->
  exists g, block_two fuel ket bra (rid t) p = Some g /\
    gaxes g = [up_wire ket (rid t); up_wire bra (rid t)] /\
    Permutation (gatoms g) (all_atoms ket bra (rnodes t)) /\
    Permutation (gbnd g) (edge_wires ket bra (rdesc t) ++ inner_bnd ket bra (rnodes t)) /\
    Permutation (gglue g) (open_pairs ket bra (rnodes t)).
Proof.
  intros Hwf Hfuel. destruct (block_two_closed ket bra (Some p) t Hwf p fuel eq_refl Hfuel) as (g & Hg & H1 & H2 & H3 & H4).
  exists g. split; [exact Hg|]. split; [exact H1|]. split; [exact H2|]. split.
  - rewrite rnodes_desc in H3. cbn [flat_map] in H3. rewrite perm_flat_map_split in H3.
    rewrite <- app_assoc in H3. apply Permutation_app_inv_l in H3. rewrite H3.
    unfold edge_wires, inner_bnd. rewrite rnodes_desc. cbn [flat_map]. perm_solve.
  - rewrite H4. unfold open_pairs. rewrite flat_map_single. reflexivity.
Qed.

(* contract_two_ttns succeeds on every consistent pair of states, whatever the tree and the two (independent)
   child orders, and its result is the closed network: no axis left, every atom of both states exactly once,
   every edge wire of both states bound, and the glued pairs are exactly (ket open leg of n, bra open leg of n) *)
Theorem contract_two_ttns_closed ket bra t :
  wf_two ket bra t ->
  exists g, contract_two_ttns ket bra = Some g /\
    gaxes g = [] /\
    Permutation (gatoms g) (all_atoms ket bra (rnodes t)) /\
    Permutation (gbnd g) (edge_wires ket bra (rdesc t) ++ inner_bnd ket bra (rnodes t)) /\
    Permutation (gglue g) (open_pairs ket bra (rnodes t)).
Proof.
  intros Hwf. destruct (two_closed_aux ket bra t Hwf) as (g & Hg & H1 & H2 & H3 & H4).
  exists g. split; [exact Hg|]. split; [exact H1|]. split; [exact H2|]. split.
  - rewrite H3, perm_flat_map_split. unfold edge_wires, inner_bnd. rewrite (rnodes_desc t). cbn [flat_map]. perm_solve.
  - rewrite H4. unfold open_pairs. rewrite flat_map_single. reflexivity.
Qed.

(* ---- the executable checker is sound ------------------------------------------------------------------------------------------------------------------- *)
Lemma cl_list_eqb a b : list_eqb a b = true -> a = b.
Proof.
  unfold list_eqb. revert b. induction a as [|x a IH]; intros [|y b]; cbn; try discriminate; [reflexivity|].
  intros H. apply andb_prop in H. destruct H as [H1 H2]. apply andb_prop in H2. destruct H2 as [H2 H3].
  apply Nat.eqb_eq in H2. subst. f_equal. apply IH. rewrite H1. exact H3.
Qed.

Lemma opt_eqb_true a b : opt_eqb a b = true -> a = b.
Proof. destruct a, b; cbn; try discriminate; [|reflexivity]. intros H. apply Nat.eqb_eq in H. subst. reflexivity. Qed.

Lemma perm_of_nodupb_sound l cs : perm_of_nodupb l cs = true -> Permutation l cs.
Proof.
  unfold perm_of_nodupb. intros H. apply andb_prop in H. destruct H as [H H3]. apply andb_prop in H. destruct H as [H1 H2].
  apply NoDup_Permutation_bis.
  - apply cl_nodupb. exact H1.
  - apply Nat.leb_le. exact H2.
  - intros a Ha. rewrite forallb_forall in H3. apply cl_memb_In. apply H3. exact Ha.
Qed.

Lemma node_okb_sound ket bra p n cs : node_okb ket bra p n cs = true -> node_ok ket bra p n cs.
Proof.
  unfold node_okb. destruct (aget n (nodes ket)) as [kn|] eqn:Hk; [|discriminate].
  destruct (aget n (nodes bra)) as [bn|] eqn:Hb; [|discriminate].
  intros H. repeat (apply andb_prop in H; let H' := fresh "H" in destruct H as [H H']).
  exists kn, bn. repeat split; auto using opt_eqb_true, cl_list_eqb, perm_of_nodupb_sound.
  - apply cl_nodupb. assumption.
  - apply negb_true_iff, Nat.eqb_neq in H0. exact H0.
Qed.

Fixpoint rt_rect' (P : rt -> Prop) (H : forall n cs, (forall c, In c cs -> P c) -> P (RN n cs)) (t : rt) : P t :=
  match t with
  | RN n cs =>
      H n cs ((fix G (l : list rt) : forall c, In c l -> P c :=
                 match l with
                 | [] => fun c Hc => match Hc with end
                 | a :: r => fun c Hc => match Hc with
                                         | or_introl E => eq_ind a P (rt_rect' P H a) c E
                                         | or_intror Hr => G r c Hr
                                         end
                 end) cs)
  end.

Lemma wf_subb_sound ket bra t : forall p, wf_subb ket bra p t = true -> wf_sub ket bra p t.
Proof.
  induction t as [n cs IH] using rt_rect'. intros p H. cbn [wf_subb] in H. apply andb_prop in H. destruct H as [H1 H2].
  constructor; [apply node_okb_sound; exact H1|].
  intros c Hc. apply IH; [exact Hc|]. rewrite forallb_forall in H2. apply H2. exact Hc.
Qed.

Lemma wf_twob_sound ket bra t : wf_twob ket bra t = true -> wf_two ket bra t.
Proof.
  unfold wf_twob, wf_two. intros H. repeat (apply andb_prop in H; let H' := fresh "H" in destruct H as [H H']).
  repeat split; auto using opt_eqb_true, wf_subb_sound. apply cl_nodupb. assumption.
Qed.

(* the universal theorem with a decidable hypothesis: whenever the checker accepts the two stores, the
   recursion closes the network over the tree read off the ket store *)
Theorem two_ok_closed ket bra :
  two_ok ket bra = true ->
  exists t g, ket_tree ket = Some t /\ contract_two_ttns ket bra = Some g /\
    gaxes g = [] /\
    Permutation (gatoms g) (all_atoms ket bra (rnodes t)) /\
    Permutation (gbnd g) (edge_wires ket bra (rdesc t) ++ inner_bnd ket bra (rnodes t)) /\
    Permutation (gglue g) (open_pairs ket bra (rnodes t)).
Proof.
  unfold two_ok. destruct (ket_tree ket) as [t|]; [|discriminate]. intros H.
  destruct (contract_two_ttns_closed ket bra t (wf_twob_sound _ _ _ H)) as (g & Hg). exists t, g. split; [reflexivity|exact Hg].
Qed.

(* ==== (1c, continued) contracting a running tensor with a node tensor along its neighbour legs ============================================== *)
Lemma dropfrom_ext {A} s s' idx idx' (l : list A) :
  (forall i, i < length l -> (In (s + i) idx <-> In (s' + i) idx')) -> dropfrom s idx l = dropfrom s' idx' l.
Proof.
  revert s s'. induction l as [|a t IH]; intros s s' H; cbn; [reflexivity|].
  assert (E : memb s idx = memb s' idx').
  { specialize (H 0 ltac:(cbn; lia)). rewrite !Nat.add_0_r in H.
    destruct (memb s idx) eqn:E1, (memb s' idx') eqn:E2; try reflexivity.
    - apply cl_memb_In in E1. apply H in E1. apply cl_memb_In in E1. congruence.
    - apply cl_memb_In in E2. apply H in E2. apply cl_memb_In in E2. congruence. }
  rewrite E. rewrite (IH (S s) (S s')).
  - reflexivity.
  - intros i Hi. replace (S s + i) with (s + S i) by lia. replace (S s' + i) with (s' + S i) by lia. apply H. cbn. lia.
Qed.

(* dropping the positions (in B) of the members of L leaves the members of B not in L, in B's order *)
Lemma dropfrom_pos (z : nat -> wire) B L extra :
  NoDup B -> (forall a, In a L -> In a B) -> (forall e, In e extra -> length B <= e) ->
  dropfrom 0 (map (pos_in B) L ++ extra) (map z B) = map z (filter (fun b => negb (memb b L)) B).
Proof.
  intros Hnd HLB Hex.
  assert (G : forall B1 B2, B = B1 ++ B2 ->
            dropfrom (length B1) (map (pos_in B) L ++ extra) (map z B2) = map z (filter (fun b => negb (memb b L)) B2)).
  { intros B1 B2. revert B1. induction B2 as [|b t IH]; intros B1 E; cbn [map dropfrom filter]; [reflexivity|].
    assert (Hb1 : ~ In b B1). { rewrite E in Hnd. apply NoDup_remove_2 in Hnd. intros Hin. apply Hnd. apply in_or_app. left. exact Hin. }
    assert (Hpos : pos_in B b = length B1). { unfold pos_in. rewrite E, idx_mid by exact Hb1. reflexivity. }
    assert (Hm : memb (length B1) (map (pos_in B) L ++ extra) = memb b L).
    { destruct (memb b L) eqn:Eb.
      - apply cl_memb_In. apply cl_memb_In in Eb. apply in_or_app. left. rewrite <- Hpos. apply in_map. exact Eb.
      - apply cl_memb_false. apply cl_memb_false in Eb. intros Hin. apply in_app_or in Hin. destruct Hin as [Hin|Hin].
        + apply in_map_iff in Hin. destruct Hin as (a & Ea & Ha). apply Eb. replace b with a; [exact Ha|].
          apply (pos_in_inj B); [apply HLB; exact Ha| |congruence]. rewrite E. apply in_or_app. right. left. reflexivity.
        + apply Hex in Hin. rewrite E, app_length in Hin. cbn in Hin. lia. }
    rewrite Hm. specialize (IH (B1 ++ [b])). rewrite app_length in IH. cbn in IH.
    replace (length B1 + 1) with (S (length B1)) in IH by lia.
    rewrite IH by (rewrite <- app_assoc; exact E). destruct (memb b L); reflexivity. }
  apply (G [] B). reflexivity.
Qed.

Lemma nodup_singleton {A} (l : list A) x : NoDup l -> (forall a, In a l <-> a = x) -> l = [x].
Proof.
  intros Hnd H. destruct l as [|a [|b t]].
  - exfalso. apply (H x). reflexivity.
  - f_equal. apply H. left. reflexivity.
  - exfalso. assert (a = x) by (apply H; left; reflexivity). assert (b = x) by (apply H; right; left; reflexivity).
    subst. inversion Hnd as [|? ? Hni _]. apply Hni. left. reflexivity.
Qed.

Lemma filter_rest_one B L next : NoDup B -> Permutation B (next :: L) -> filter (fun b => negb (memb b L)) B = [next].
Proof.
  intros Hnd Hp. apply nodup_singleton; [apply NoDup_filter; exact Hnd|].
  assert (HndL : NoDup (next :: L)) by (eapply Permutation_NoDup; eassumption).
  inversion HndL as [|? ? Hni _]; subst.
  intros a. rewrite filter_In, negb_true_iff, cl_memb_false. split.
  - intros [Ha Hn]. apply (Permutation_in _ Hp) in Ha. destruct Ha as [<-|Ha]; [reflexivity|contradiction].
  - intros ->. split; [apply (Permutation_in _ (Permutation_sym Hp)); left; reflexivity|exact Hni].
Qed.

Lemma filter_rest_none B L : Permutation B L -> filter (fun b => negb (memb b L)) B = [].
Proof.
  intros Hp. assert (H : forall a, In a B -> negb (memb a L) = false).
  { intros a Ha. apply negb_false_iff, cl_memb_In. eapply Permutation_in; eassumption. }
  clear Hp. induction B as [|b t IH]; cbn; [reflexivity|]. rewrite (H b) by (left; reflexivity).
  apply IH. intros a Ha. apply H. right. exact Ha.
Qed.

Lemma node_contract r nt (z : id -> wire) B L ia o tail pn p :
  NoDup B -> (forall a, In a L -> In a B) -> NoDup L ->
  gaxes nt = map z B ++ tail -> pn < length tail -> nth pn tail 0 = p -> o <> p ->
  length ia = S (length L) -> NoDup ia -> (forall i, In i ia -> i < length (gaxes r)) ->
  map (fun i => nth i (gaxes r) 0) ia = map z L ++ [o] ->
  g_tensordot r nt ia (map (pos_in B) L ++ [length B + pn]) =
  Some {| gaxes := dropfrom 0 ia (gaxes r) ++ map z (filter (fun b => negb (memb b L)) B) ++ dropfrom 0 [pn] tail;
          gatoms := gatoms r ++ gatoms nt;
          gbnd := map z L ++ gbnd r ++ gbnd nt;
          gglue := (o, p) :: gglue r ++ gglue nt |}.
Proof.
  intros HndB HLB HndL Hnt Hpn Hp Hop Hlen Hndia Hia Hwa. unfold id, wire in *.
  assert (Hpos : forall a, In a L -> pos_in B a < length B) by (intros a Ha; apply pos_in_spec; apply HLB; exact Ha).
  rewrite g_tensordot_ok.
  2:{ rewrite app_length, map_length, Hlen. cbn. nlia. }
  2:{ exact Hia. }
  2:{ intros i Hi. rewrite Hnt, app_length, map_length. apply in_app_or in Hi. destruct Hi as [Hi|[<-|[]]]; [|nlia].
      apply in_map_iff in Hi. destruct Hi as (a & <- & Ha). specialize (Hpos a Ha). nlia. }
  2:{ exact Hndia. }
  2:{ apply NoDup_app_one.
      - apply NoDup_map_inj_in; [|exact HndL]. intros a b Ha Hb. apply pos_in_inj; apply HLB; assumption.
      - intros Hi. apply in_map_iff in Hi. destruct Hi as (a & E & Ha). specialize (Hpos a Ha). nlia. }
  assert (Hwb : map (fun i => nth i (gaxes nt) 0) (map (pos_in B) L ++ [length B + pn]) = map z L ++ [p]).
  { rewrite Hnt, map_app. cbn [map]. f_equal.
    - rewrite map_map. apply map_ext_in. intros a Ha. destruct (pos_in_spec B a (HLB a Ha)) as (_ & H1 & H2).
      rewrite app_nth1 by (rewrite map_length; exact H1).
      rewrite (nth_indep _ 0 (z 0)) by (rewrite map_length; exact H1). rewrite map_nth, H2. reflexivity.
    - f_equal. rewrite app_nth2 by (rewrite map_length; nlia). rewrite map_length.
      replace (length B + pn - length B) with pn by nlia. exact Hp. }
  unfold id, wire in *. rewrite Hwa, Hwb, pairs_same, pairs_diff by exact Hop.
  rewrite Hnt, dropfrom_app, map_length.
  rewrite dropfrom_pos; [|exact HndB|exact HLB|intros e [<-|[]]; nlia].
  do 4 f_equal.
  apply dropfrom_ext. intros i Hi. cbn [Nat.add]. rewrite in_app_iff. cbn [In]. split.
  - intros [H|[H|[]]]; [|left; nlia]. apply in_map_iff in H. destruct H as (a & E & Ha). specialize (Hpos a Ha). nlia.
  - intros [H|[]]. right. left. nlia.
Qed.

(* ---- interleaved legs [y; x; y; x; ...] of a three-layer block ---------------------------------------------------------------------------- *)
Lemma il_drop {A} s idx (y x : nat -> A) L :
  (forall m, m < length L -> In (s + 2 * m) idx /\ ~ In (s + 2 * m + 1) idx) ->
  dropfrom s idx (flat_map (fun nb => [y nb; x nb]) L) = map x L.
Proof.
  revert s. induction L as [|a t IH]; intros s H; cbn [flat_map map app dropfrom]; [reflexivity|].
  destruct (H 0 ltac:(cbn; lia)) as [H1 H2]. rewrite Nat.mul_0_r, Nat.add_0_r in H1, H2.
  apply cl_memb_In in H1. rewrite H1. replace (s + 1) with (S s) in H2 by lia. apply cl_memb_false in H2. rewrite H2.
  f_equal. apply IH. intros m Hm. specialize (H (S m) ltac:(cbn; lia)).
  replace (S (S s) + 2 * m) with (s + 2 * S m) by lia. exact H.
Qed.

Lemma il_drop_idx {A} s n extra (y x : nat -> A) L :
  length L = n -> (forall e, In e extra -> e < s) ->
  dropfrom s (map (fun m => s + 2 * m) (seq 0 n) ++ extra) (flat_map (fun nb => [y nb; x nb]) L) = map x L.
Proof.
  intros Hn Hex. apply il_drop. intros m Hm. split.
  - apply in_or_app. left. apply in_map_iff. exists m. split; [reflexivity|]. apply in_seq. lia.
  - intros Hin. apply in_app_or in Hin. destruct Hin as [Hin|Hin].
    + apply in_map_iff in Hin. destruct Hin as (m' & E & _). lia.
    + apply Hex in Hin. lia.
Qed.

Lemma il_nth_even (y x : nat -> wire) L : forall pre,
  map (fun m => nth (length pre + 2 * m) (pre ++ flat_map (fun nb => [y nb; x nb]) L) 0) (seq 0 (length L)) = map y L.
Proof.
  induction L as [|a t IH]; intros pre; cbn [length seq map flat_map]; [reflexivity|]. f_equal.
  - rewrite Nat.mul_0_r, Nat.add_0_r. cbn [app]. apply nth_mid.
  - rewrite <- seq_shift, map_map. specialize (IH (pre ++ [y a; x a])).
    rewrite <- IH. apply map_ext. intros m. rewrite <- app_assoc. cbn [app]. rewrite app_length. cbn [length]. f_equal. lia.
Qed.

Lemma NoDup_map_affine s n : NoDup (map (fun m => s + 2 * m) (seq 0 n)).
Proof. apply NoDup_map_inj_in; [|apply seq_NoDup]. intros a b _ _ E. lia. Qed.

(* ---- get_equivalent_legs ------------------------------------------------------------------------------------------------------------------------ *)
Lemma ket_positions kn pre next post :
  neighbouring_nodes kn = pre ++ next :: post -> NoDup (pre ++ next :: post) ->
  all_some (map (neighbour_index kn) (pre ++ post)) = Some (seq 0 (length pre) ++ seq (S (length pre)) (length post)).
Proof.
  intros Hnbs Hnd. rewrite map_app. apply all_some_app.
  - rewrite (map_ext _ (fun nb => index_of nb ([] ++ pre ++ next :: post))).
    + apply (all_some_idx_seq [] pre (next :: post)). exact Hnd.
    + intros a. rewrite neighbour_index_nbs, Hnbs. reflexivity.
  - rewrite (map_ext _ (fun nb => index_of nb ((pre ++ [next]) ++ post ++ []))).
    + replace (S (length pre)) with (length (pre ++ [next])) by (rewrite app_length; cbn; lia).
      apply (all_some_idx_seq (pre ++ [next]) post []).
      rewrite app_nil_r, <- app_assoc. exact Hnd.
    + intros a. rewrite neighbour_index_nbs, Hnbs, app_nil_r, <- app_assoc. reflexivity.
Qed.

Lemma node_positions nd L : (forall a, In a L -> In a (neighbouring_nodes nd)) ->
  all_some (map (neighbour_index nd) L) = Some (map (pos_in (neighbouring_nodes nd)) L).
Proof. intros H. apply all_some_total. intros a Ha. rewrite neighbour_index_nbs. apply pos_in_spec. apply H. exact Ha. Qed.

Lemma equivalent_legs_ignore kn nd next pre post :
  neighbouring_nodes kn = pre ++ next :: post -> NoDup (pre ++ next :: post) ->
  (forall a, In a (pre ++ post) -> In a (neighbouring_nodes nd)) ->
  equivalent_legs kn nd (Some next) =
  Some (seq 0 (length pre) ++ seq (S (length pre)) (length post), map (pos_in (neighbouring_nodes nd)) (pre ++ post)).
Proof.
  intros Hnbs Hnd H. destruct (NoDup_mid_notin _ _ _ Hnd) as (Hnpre & Hnpost & _).
  unfold equivalent_legs. rewrite Hnbs, filter_neq_mid by assumption.
  pose proof (ket_positions kn pre next post Hnbs Hnd) as E1. pose proof (node_positions nd _ H) as E2.
  unfold id, wire in *. rewrite E1, E2. reflexivity.
Qed.

Lemma equivalent_legs_all kn nd :
  NoDup (neighbouring_nodes kn) -> (forall a, In a (neighbouring_nodes kn) -> In a (neighbouring_nodes nd)) ->
  equivalent_legs kn nd None =
  Some (seq 0 (length (neighbouring_nodes kn)), map (pos_in (neighbouring_nodes nd)) (neighbouring_nodes kn)).
Proof.
  intros Hnd H. unfold equivalent_legs.
  assert (E : filter (fun _ : id => true) (neighbouring_nodes kn) = neighbouring_nodes kn).
  { clear. induction (neighbouring_nodes kn) as [|a t IH]; cbn; [reflexivity|]. rewrite IH. reflexivity. }
  pose proof (node_positions nd _ H) as E2.
  assert (E1 : all_some (map (neighbour_index kn) (neighbouring_nodes kn)) = Some (seq 0 (length (neighbouring_nodes kn)))).
  { rewrite (map_ext _ (fun nb => index_of nb ([] ++ neighbouring_nodes kn ++ []))).
    - apply (all_some_idx_seq [] (neighbouring_nodes kn) []). rewrite app_nil_r. exact Hnd.
    - intros a. rewrite neighbour_index_nbs, app_nil_r. reflexivity. }
  unfold id, wire in *. rewrite E, E1, E2. reflexivity.
Qed.

Lemma il_length {A} (y x : nat -> A) L : length (flat_map (fun nb => [y nb; x nb]) L) = 2 * length L.
Proof. induction L as [|a t IH]; cbn [flat_map length app]; [reflexivity|]. rewrite IH. lia. Qed.

Lemma node_contract_e r nt (z : id -> wire) B L ia o tail pn p e :
  e = length B + pn ->
  NoDup B -> (forall a, In a L -> In a B) -> NoDup L ->
  gaxes nt = map z B ++ tail -> pn < length tail -> nth pn tail 0 = p -> o <> p ->
  length ia = S (length L) -> NoDup ia -> (forall i, In i ia -> i < length (gaxes r)) ->
  map (fun i => nth i (gaxes r) 0) ia = map z L ++ [o] ->
  g_tensordot r nt ia (map (pos_in B) L ++ [e]) =
  Some {| gaxes := dropfrom 0 ia (gaxes r) ++ map z (filter (fun b => negb (memb b L)) B) ++ dropfrom 0 [pn] tail;
          gatoms := gatoms r ++ gatoms nt;
          gbnd := map z L ++ gbnd r ++ gbnd nt;
          gglue := (o, p) :: gglue r ++ gglue nt |}.
Proof. intros ->. apply node_contract. Qed.

(* ==== (1c) three layers: contract_leaf / contract_subtrees_using_dictionary of state_operator_contraction.py ================================= *)
Theorem sandwich_leaf_axes kt ot bt kn on bn w y x o oo oi bo :
  nvirt kn = 1 -> nvirt on = 1 -> nvirt bn = 1 ->
  gaxes kt = [w; o] -> gaxes ot = [y; oo; oi] -> gaxes bt = [x; bo] ->
  o <> oi -> oo <> bo ->
  sandwich_leaf kt ot bt kn on bn =
  Some {| gaxes := [w; y; x];
          gatoms := gatoms kt ++ gatoms ot ++ gatoms bt;
          gbnd := gbnd kt ++ gbnd ot ++ gbnd bt;
          gglue := (o, oi) :: gglue kt ++ (oo, bo) :: gglue ot ++ gglue bt |}.
Proof.
  intros Hk Ho Hb Hkt Hot Hbt H1 H2. unfold sandwich_leaf. rewrite Hk, Ho, Hb. cbn [Nat.add Nat.sub].
  rewrite g_tensordot_ok.
  2:{ reflexivity. }
  2:{ intros i [<-|[]]. rewrite Hot. cbn. lia. }
  2:{ intros i [<-|[]]. rewrite Hbt. cbn. lia. }
  2,3: constructor; [intros []|constructor].
  rewrite Hot, Hbt. cbn [map nth combine filter fst snd dropfrom memb existsb Nat.eqb orb app].
  destruct (Nat.eqb_spec oo bo) as [E|_]; [contradiction|]. cbn [negb map app].
  rewrite g_tensordot_ok.
  2:{ reflexivity. }
  2:{ intros i [<-|[]]. rewrite Hkt. cbn. lia. }
  2:{ intros i [<-|[]]. cbn. lia. }
  2,3: constructor; [intros []|constructor].
  cbn [gaxes gatoms gbnd gglue]. rewrite Hkt. cbn [map nth combine filter fst snd dropfrom memb existsb Nat.eqb orb app].
  destruct (Nat.eqb_spec o oi) as [E|_]; [contradiction|]. cbn [negb map app]. reflexivity.
Qed.

Theorem sandwich_subtree_axes kt ot bt kn on bn next blocks (w y x : id -> wire) (blk : id -> garr) wj o oo oi bo pre post :
  neighbouring_nodes kn = pre ++ next :: post ->
  NoDup (pre ++ next :: post) ->
  Permutation (neighbouring_nodes on) (pre ++ next :: post) ->
  Permutation (neighbouring_nodes bn) (pre ++ next :: post) ->
  gaxes kt = map w pre ++ wj :: map w post ++ [o] ->
  gaxes ot = map y (neighbouring_nodes on) ++ [oo; oi] ->
  gaxes bt = map x (neighbouring_nodes bn) ++ [bo] ->
  (forall nb, In nb (pre ++ post) -> aget nb blocks = Some (blk nb) /\ gaxes (blk nb) = [w nb; y nb; x nb]) ->
  o <> oi -> oo <> bo ->
  exists r, sandwich_subtree kt ot bt kn on bn next blocks = Some r /\
    gaxes r = [wj; y next; x next] /\
    gatoms r = ((gatoms kt ++ flat_map (fun nb => gatoms (blk nb)) (pre ++ post)) ++ gatoms ot) ++ gatoms bt /\
    gbnd r = map x (pre ++ post) ++
             (map y (pre ++ post) ++
              (rev (map w (pre ++ post)) ++ gbnd kt ++ flat_map (fun nb => gbnd (blk nb)) (pre ++ post)) ++ gbnd ot) ++ gbnd bt /\
    gglue r = (oo, bo) :: ((o, oi) :: (gglue kt ++ flat_map (fun nb => gglue (blk nb)) (pre ++ post)) ++ gglue ot) ++ gglue bt.
Proof.
  intros Hnbs Hnd HpO HpB Hkt Hot Hbt Hblk Hooi Hoobo.
  destruct (NoDup_mid_notin _ _ _ Hnd) as (Hnpre & Hnpost & HndL).
  destruct (all_but_one_axes kt kn next blocks w (fun nb => [y nb; x nb]) blk wj [o] pre post Hnbs Hnd Hkt Hblk)
    as (t1 & Ht1 & A1 & A2 & A3 & A4).
  set (L := pre ++ post) in *. set (n := length L).
  set (BO := neighbouring_nodes on) in *. set (BB := neighbouring_nodes bn) in *.
  assert (Hmid : Permutation (pre ++ next :: post) (next :: L)) by (symmetry; apply Permutation_middle).
  assert (HpO' : Permutation BO (next :: L)) by (rewrite HpO; exact Hmid).
  assert (HpB' : Permutation BB (next :: L)) by (rewrite HpB; exact Hmid).
  assert (HndO : NoDup BO) by (eapply Permutation_NoDup; [symmetry; exact HpO|exact Hnd]).
  assert (HndB : NoDup BB) by (eapply Permutation_NoDup; [symmetry; exact HpB|exact Hnd]).
  assert (HLO : forall a, In a L -> In a BO).
  { intros a Ha. apply (Permutation_in _ (Permutation_sym HpO')). right. exact Ha. }
  assert (HLB : forall a, In a L -> In a BB).
  { intros a Ha. apply (Permutation_in _ (Permutation_sym HpB')). right. exact Ha. }
  assert (Hk : nvirt kn = S n).
  { rewrite nvirt_nbs, Hnbs. unfold n, L. rewrite !app_length. cbn. nlia. }
  unfold sandwich_subtree. rewrite Ht1.
  rewrite (equivalent_legs_ignore kn on next pre post Hnbs Hnd HLO), (equivalent_legs_ignore kn bn next pre post Hnbs Hnd HLB).
  fold L BO BB. rewrite Hk. replace (S n - 1) with n by nlia. rewrite !nvirt_nbs. fold BO BB.
  (* the operator layer *)
  assert (Hlegs : map (fun j => 2 * j) (seq 1 n) = map (fun m => 2 + 2 * m) (seq 0 n)).
  { rewrite <- seq_shift, map_map. apply map_ext. intros m. nlia. }
  rewrite Hlegs.
  cbn [app] in A1.
  rewrite (node_contract_e t1 ot y BO L _ o [oo; oi] 1 oi (length BO + 1) eq_refl HndO HLO HndL Hot).
  2:{ cbn. nlia. }
  2:{ reflexivity. }
  2:{ exact Hooi. }
  2:{ rewrite app_length, map_length, seq_length. cbn. unfold n. nlia. }
  2:{ apply NoDup_app_one; [apply NoDup_map_affine|]. intros Hin. apply in_map_iff in Hin. destruct Hin as (m & E & _). nlia. }
  2:{ intros i Hi. rewrite A1. cbn [length]. rewrite il_length. fold n. apply in_app_or in Hi. destruct Hi as [Hi|[<-|[]]]; [|nlia].
      apply in_map_iff in Hi. destruct Hi as (m & <- & Hm). apply in_seq in Hm. nlia. }
  2:{ rewrite A1, map_app, map_map. cbn [map nth]. f_equal. exact (il_nth_even y x L [wj; o]). }
  rewrite (filter_rest_one BO L next HndO HpO').
  match goal with |- context [g_tensordot ?tt bt _ _] => set (t2 := tt) end.
  assert (T2 : gaxes t2 = [wj] ++ map x L ++ [y next] ++ [oo]).
  { unfold t2. cbn [gaxes]. rewrite A1. change (wj :: o :: flat_map (fun nb => [y nb; x nb]) L)
      with ([wj] ++ [o] ++ flat_map (fun nb => [y nb; x nb]) L).
    rewrite !dropfrom_app. cbn [length]. change (0 + 1 + 1) with 2. change (0 + 1) with 1.
    rewrite dropfrom_keep.
    2:{ intros i Hi Hin. cbn in Hi. apply in_app_or in Hin. destruct Hin as [Hin|[Hin|[]]]; [|nlia].
        apply in_map_iff in Hin. destruct Hin as (m & E & _). nlia. }
    rewrite dropfrom_all.
    2:{ intros i Hi. cbn in Hi. apply in_or_app. right. left. nlia. }
    unfold id, wire in *. rewrite (il_drop_idx 2 n [1] y x L eq_refl) by (intros e [<-|[]]; nlia).
    cbn [dropfrom memb existsb Nat.eqb orb map app]. reflexivity. }
  (* the bra layer *)
  rewrite (node_contract_e t2 bt x BB L _ oo [bo] 0 bo (length BB) (eq_sym (Nat.add_0_r _)) HndB HLB HndL Hbt).
  2:{ cbn. nlia. }
  2:{ reflexivity. }
  2:{ exact Hoobo. }
  2:{ rewrite app_length, seq_length. cbn. unfold n. nlia. }
  2:{ apply NoDup_app_one; [apply seq_NoDup|]. intros Hin. apply in_seq in Hin. nlia. }
  2:{ intros i Hi. rewrite T2. rewrite !app_length, map_length. cbn [length]. fold n. apply in_app_or in Hi.
      destruct Hi as [Hi|[<-|[]]]; [apply in_seq in Hi|]; nlia. }
  2:{ rewrite T2, map_app. cbn [map]. f_equal.
      - pose proof (nth_seq_block 0 [wj] (map x L) ([y next] ++ [oo])) as H. rewrite map_length in H. exact H.
      - f_equal. assert (E : [wj] ++ map x L ++ [y next] ++ [oo] = ([wj] ++ map x L ++ [y next]) ++ oo :: []).
        { rewrite <- !app_assoc. reflexivity. }
        rewrite E. replace (S n + 1) with (length ([wj] ++ map x L ++ [y next])) by (rewrite !app_length, map_length; cbn; unfold n; nlia).
        apply nth_mid. }
  rewrite (filter_rest_one BB L next HndB HpB').
  eexists. split; [reflexivity|]. cbn [gaxes gatoms gbnd gglue].
  split; [|subst t2; cbn [gatoms gbnd gglue]; rewrite A2, A3, A4; auto].
  rewrite T2. rewrite !dropfrom_app. cbn [length Nat.add]. rewrite map_length. fold n.
  rewrite (dropfrom_keep 0 _ [wj]).
  2:{ intros i Hi Hin. cbn in Hi. apply in_app_or in Hin. destruct Hin as [Hin|[Hin|[]]]; [apply in_seq in Hin|]; nlia. }
  rewrite (dropfrom_all 1 _ (map x L)).
  2:{ intros i Hi. rewrite map_length in Hi. fold n in Hi. apply in_or_app. left. apply in_seq. nlia. }
  rewrite (dropfrom_keep _ _ [y next]).
  2:{ intros i Hi Hin. cbn in Hi. apply in_app_or in Hin. destruct Hin as [Hin|[Hin|[]]]; [apply in_seq in Hin|]; nlia. }
  rewrite (dropfrom_all _ _ [oo]).
  2:{ intros i Hi. cbn in Hi. apply in_or_app. right. left. nlia. }
  cbn [dropfrom memb existsb Nat.eqb orb map app]. reflexivity.
Qed.

Theorem root_three_axes ckt kt ot kn on blocks (w y x : id -> wire) (blk : id -> garr) o oo oi bo :
  NoDup (neighbouring_nodes kn) ->
  Permutation (neighbouring_nodes on) (neighbouring_nodes kn) ->
  gaxes kt = map w (neighbouring_nodes kn) ++ [o] ->
  gaxes ot = map y (neighbouring_nodes on) ++ [oo; oi] ->
  gaxes ckt = map x (neighbouring_nodes kn) ++ [bo] ->
  (forall nb, In nb (neighbouring_nodes kn) -> aget nb blocks = Some (blk nb) /\ gaxes (blk nb) = [w nb; y nb; x nb]) ->
  o <> oi -> bo <> oo ->
  exists r, root_three ckt kt ot kn on blocks = Some r /\
    gaxes r = [] /\
    gatoms r = gatoms ckt ++ ((gatoms kt ++ flat_map (fun nb => gatoms (blk nb)) (neighbouring_nodes kn)) ++ gatoms ot) /\
    gbnd r = map x (neighbouring_nodes kn) ++ gbnd ckt ++
             (map y (neighbouring_nodes kn) ++
              (rev (map w (neighbouring_nodes kn)) ++ gbnd kt ++ flat_map (fun nb => gbnd (blk nb)) (neighbouring_nodes kn)) ++ gbnd ot) /\
    gglue r = (bo, oo) :: gglue ckt ++
              ((o, oi) :: (gglue kt ++ flat_map (fun nb => gglue (blk nb)) (neighbouring_nodes kn)) ++ gglue ot).
Proof.
  intros Hnd HpO Hkt Hot Hckt Hblk Hooi Hboo.
  destruct (all_to_ket_axes kt kn blocks w (fun nb => [y nb; x nb]) blk [o] Hkt Hblk) as (knb & Hknb & A1 & A2 & A3 & A4).
  set (K := neighbouring_nodes kn) in *. set (BO := neighbouring_nodes on) in *. set (k := length K).
  assert (HndO : NoDup BO) by (eapply Permutation_NoDup; [symmetry; exact HpO|exact Hnd]).
  assert (HKO : forall a, In a K -> In a BO) by (intros a Ha; apply (Permutation_in _ (Permutation_sym HpO)); exact Ha).
  unfold root_three. rewrite Hknb. rewrite (equivalent_legs_all kn on Hnd HKO). fold K BO.
  rewrite !nvirt_nbs. fold K BO k. rewrite seq_length. fold k.
  assert (Hlegs : map (fun j => 2 * j + 1) (seq 0 k) = map (fun m => 1 + 2 * m) (seq 0 k)).
  { apply map_ext. intros m. nlia. }
  rewrite Hlegs. cbn [app] in A1.
  rewrite (node_contract_e knb ot y BO K _ o [oo; oi] 1 oi (length BO + 1) eq_refl HndO HKO Hnd Hot).
  2:{ cbn. nlia. }
  2:{ reflexivity. }
  2:{ exact Hooi. }
  2:{ rewrite app_length, map_length, seq_length. cbn. unfold k. nlia. }
  2:{ apply NoDup_app_one; [apply NoDup_map_affine|]. intros Hin. apply in_map_iff in Hin. destruct Hin as (m & E & _). nlia. }
  2:{ intros i Hi. rewrite A1. cbn [length]. rewrite il_length. fold k. apply in_app_or in Hi. destruct Hi as [Hi|[<-|[]]]; [|nlia].
      apply in_map_iff in Hi. destruct Hi as (m & <- & Hm). apply in_seq in Hm. nlia. }
  2:{ rewrite A1, map_app, map_map. cbn [map nth]. f_equal. exact (il_nth_even y x K [o]). }
  rewrite (filter_rest_none BO K HpO).
  match goal with |- context [g_tensordot ckt ?tt _ _] => set (khb := tt) end.
  assert (T2 : gaxes khb = map x K ++ [oo]).
  { unfold khb. cbn [gaxes]. rewrite A1. change (o :: flat_map (fun nb => [y nb; x nb]) K)
      with ([o] ++ flat_map (fun nb => [y nb; x nb]) K).
    rewrite !dropfrom_app. cbn [length]. change (0 + 1) with 1.
    rewrite dropfrom_all.
    2:{ intros i Hi. cbn in Hi. apply in_or_app. right. left. nlia. }
    unfold id, wire in *. rewrite (il_drop_idx 1 k [0] y x K eq_refl) by (intros e [<-|[]]; nlia).
    cbn [dropfrom memb existsb Nat.eqb orb map app]. reflexivity. }
  assert (Hsl : seq 0 k ++ [k] = seq 0 (S k)) by (rewrite seq_S; reflexivity).
  rewrite Hsl.
  assert (Hl1 : length (gaxes ckt) = S k) by (rewrite Hckt, app_length, map_length; cbn; unfold k; nlia).
  assert (Hl2 : length (gaxes khb) = S k) by (rewrite T2, app_length, map_length; cbn; unfold k; nlia).
  rewrite g_tensordot_ok.
  2:{ reflexivity. }
  2:{ intros i Hi. apply in_seq in Hi. nlia. }
  2:{ intros i Hi. apply in_seq in Hi. nlia. }
  2,3: apply seq_NoDup.
  assert (Ha : map (fun i => nth i (gaxes ckt) 0) (seq 0 (S k)) = gaxes ckt) by (rewrite <- Hl1; apply nth_seq_all).
  assert (Hb : map (fun i => nth i (gaxes khb) 0) (seq 0 (S k)) = gaxes khb) by (rewrite <- Hl2; apply nth_seq_all).
  rewrite Ha, Hb.
  rewrite !dropfrom_all.
  2:{ intros i Hi. apply in_seq. nlia. }
  2:{ intros i Hi. apply in_seq. nlia. }
  rewrite Hckt, T2. unfold id, wire in *. rewrite pairs_same, pairs_diff by exact Hboo.
  eexists. split; [reflexivity|]. cbn [gaxes gatoms gbnd gglue app]. subst khb. cbn [gatoms gbnd gglue].
  rewrite A2, A3, A4. auto.
Qed.

(* ==== (2') the global theorem for expectation_value ================================================================================================= *)
Lemma block_three_leaf f woff aoff ket op n next kn on kt ot :
  aget n (nodes ket) = Some kn -> aget n (nodes op) = Some on -> tensor_of ket n = Some kt -> tensor_of op n = Some ot ->
  children kn = [] ->
  block_three (S f) woff aoff ket op n next = sandwich_leaf kt ot (conj_arr woff aoff kt) kn on kn.
Proof. intros H1 H2 H3 H4 H5. cbn [block_three]. rewrite H1, H2, H3, H4, H5. reflexivity. Qed.

Lemma block_three_node f woff aoff ket op n next kn on kt ot :
  aget n (nodes ket) = Some kn -> aget n (nodes op) = Some on -> tensor_of ket n = Some kt -> tensor_of op n = Some ot ->
  children kn <> [] ->
  block_three (S f) woff aoff ket op n next =
  match all_some (map (fun c => option_map (fun b => (c, b)) (block_three f woff aoff ket op c n)) (children kn)) with
  | None => None
  | Some blocks => sandwich_subtree kt ot (conj_arr woff aoff kt) kn on kn next blocks
  end.
Proof.
  intros H1 H2 H3 H4 H5. cbn [block_three]. rewrite H1, H2, H3, H4. destruct (children kn); [congruence|reflexivity].
Qed.

Lemma expectation_value_root woff aoff ket op r kn on kt ot :
  root ket = Some r -> root op = Some r ->
  aget r (nodes ket) = Some kn -> aget r (nodes op) = Some on -> tensor_of ket r = Some kt -> tensor_of op r = Some ot ->
  expectation_value woff aoff ket op =
  match all_some (map (fun c => option_map (fun b => (c, b)) (block_three (length (nodes ket)) woff aoff ket op c r)) (children kn)) with
  | None => None
  | Some blocks => root_three (conj_arr woff aoff kt) kt ot kn on blocks
  end.
Proof.
  intros H1 H2 H3 H4 H5 H6. unfold expectation_value. rewrite H1, H2, Nat.eqb_refl. cbn [negb]. rewrite H3, H4, H5, H6. reflexivity.
Qed.

Lemma last_app_single {A} (l : list A) x d : last (l ++ [x]) d = x.
Proof. induction l as [|a t IH]; [reflexivity|]. cbn [app]. destruct (t ++ [x]) eqn:E; [destruct t; discriminate|]. exact IH. Qed.

Lemma perm_edge_sum3 {A} (a b c : id -> A) (h : id -> list A) l :
  Permutation (map c l ++ map b l ++ rev (map a l) ++ flat_map h l) (flat_map (fun m => [a m; b m; c m] ++ h m) l).
Proof.
  rewrite <- Permutation_rev. induction l as [|m t IH]; cbn; [constructor|]. rewrite <- IH. perm_solve.
Qed.

Section Global3.
  Variables (woff aoff : nat) (ket op : store).
  Let kw := up_wire ket. Let ow := up_wire op. Let ko := open_wire ket. Let oo := out_wire op. Let oi := in_wire op.
  Let cw (m : id) : wire := woff + kw m.
  Let AT (m : id) : list nat := t_atoms ket m ++ t_atoms op m ++ map (Nat.add aoff) (t_atoms ket m).
  Let EB (m : id) : list wire := [kw m; ow m; cw m] ++ t_bnd ket m ++ t_bnd op m ++ map (Nat.add woff) (t_bnd ket m).
  Let OP (m : id) : list (wire * wire) := [(ko m, oi m); (oo m, woff + ko m)].

  Definition blk3_of (f : nat) (n : id) (dflt : garr) (c : id) : garr :=
    match block_three f woff aoff ket op c n with Some g => g | None => dflt end.

  Lemma block_three_closed po t : wf_sub3 woff ket op po t ->
    forall p fuel, po = Some p -> length (rnodes t) <= fuel ->
    exists g, block_three fuel woff aoff ket op (rid t) p = Some g /\
      gaxes g = [kw (rid t); ow (rid t); cw (rid t)] /\
      Permutation (gatoms g) (flat_map AT (rnodes t)) /\
      Permutation ([kw (rid t); ow (rid t); cw (rid t)] ++ gbnd g) (flat_map EB (rnodes t)) /\
      Permutation (gglue g) (flat_map OP (rnodes t)).
  Proof.
    induction 1 as [po n cs Hok Hcs IH]. intros p fuel -> Hfuel.
    destruct fuel as [|f]; [cbn in Hfuel; lia|].
    destruct Hok as (kn & on & Hk & Ho & Hpk & Hpo & Hck & Hco & Hnd & Hkax & Hoax & Hop1 & Hop2).
    cbn [opt_list] in Hkax, Hoax.
    destruct (tensor_of_view ket n kn Hk) as (kt & Hkt & Hkt1 & Hkt2 & Hkt3 & Hkt4 & Hkt5).
    { rewrite Hkax. cbn. discriminate. }
    destruct (tensor_of_view op n on Ho) as (ot & Hot & Hot1 & Hot2 & Hot3 & Hot4 & Hot5).
    { rewrite Hoax. cbn. discriminate. }
    cbn [rid rnodes flat_map]. fold kw ow ko oo oi in Hkax, Hoax, Hop1, Hop2 |- *.
    set (bt := conj_arr woff aoff kt).
    assert (Hb2 : gatoms bt = map (Nat.add aoff) (t_atoms ket n)) by (unfold bt; cbn; rewrite Hkt2; reflexivity).
    assert (Hb3 : gbnd bt = map (Nat.add woff) (t_bnd ket n)) by (unfold bt; cbn; rewrite Hkt3; reflexivity).
    assert (Hb4 : gglue bt = []) by (unfold bt; cbn; rewrite Hkt4; reflexivity).
    destruct cs as [|c0 cs'].
    - (* leaf *)
      cbn [map] in *. apply Permutation_sym, Permutation_nil in Hco. rewrite Hco in Hoax. cbn [map app] in *.
      assert (Hvk : nvirt kn = 1) by (unfold nvirt, nparents; rewrite Hpk, Hck; reflexivity).
      assert (Hvo : nvirt on = 1) by (unfold nvirt, nparents; rewrite Hpo, Hco; reflexivity).
      rewrite (block_three_leaf f woff aoff ket op n p kn on kt ot Hk Ho Hkt Hot Hck). fold bt.
      rewrite (sandwich_leaf_axes kt ot bt kn on kn (kw n) (ow n) (cw n) (ko n) (oo n) (oi n) (woff + ko n) Hvk Hvo Hvk).
      2:{ rewrite Hkt1. exact Hkax. }
      2:{ rewrite Hot1. exact Hoax. }
      2:{ unfold bt. cbn [conj_arr gaxes]. rewrite Hkt1, Hkax. reflexivity. }
      2:{ exact Hop1. }
      2:{ exact Hop2. }
      eexists. split; [reflexivity|]. cbn [gaxes gatoms gbnd gglue].
      rewrite Hkt2, Hkt3, Hkt4, Hot2, Hot3, Hot4, Hb2, Hb3, Hb4. unfold AT, EB, OP. cbn [flat_map app]. rewrite !app_nil_r.
      repeat split; reflexivity.
    - (* inner node *)
      set (cs := c0 :: cs') in *. set (ids := map rid cs) in *.
      assert (Hnbk : neighbouring_nodes kn = [] ++ p :: ids) by (unfold neighbouring_nodes; rewrite Hpk, Hck; reflexivity).
      assert (Hnbo : neighbouring_nodes on = p :: children on) by (unfold neighbouring_nodes; rewrite Hpo; reflexivity).
      pose proof Hnd as Hnd0. rewrite Hnbk in Hnd. cbn [app] in Hnd.
      assert (Hpn : ~ In p ids) by (inversion Hnd; assumption).
      assert (Hpno : ~ In p (children on)) by (intros Hin; apply Hpn; eapply Permutation_in; eassumption).
      rewrite (block_three_node f woff aoff ket op n p kn on kt ot Hk Ho Hkt Hot).
      2:{ rewrite Hck. discriminate. }
      rewrite Hck. fold bt. set (blk := blk3_of f n kt).
      assert (Hsub : forall c, In c cs ->
                block_three f woff aoff ket op (rid c) n = Some (blk (rid c)) /\
                gaxes (blk (rid c)) = [kw (rid c); ow (rid c); cw (rid c)] /\
                Permutation (gatoms (blk (rid c))) (flat_map AT (rnodes c)) /\
                Permutation ([kw (rid c); ow (rid c); cw (rid c)] ++ gbnd (blk (rid c))) (flat_map EB (rnodes c)) /\
                Permutation (gglue (blk (rid c))) (flat_map OP (rnodes c))).
      { intros c Hc. destruct (IH c Hc n f eq_refl) as (g & Hg & HH).
        - cbn [rnodes length] in Hfuel. pose proof (flat_map_length_in rnodes cs c Hc). lia.
        - unfold blk, blk3_of. rewrite Hg. split; [reflexivity|exact HH]. }
      assert (Hids : forall a, In a ids -> exists c, In c cs /\ rid c = a).
      { intros a Ha. apply in_map_iff in Ha. destruct Ha as (c & E & Hc). eauto. }
      assert (Hblocks : all_some (map (fun c => option_map (fun b => (c, b)) (block_three f woff aoff ket op c n)) ids)
                        = Some (map (fun c => (c, blk c)) ids)).
      { apply all_some_total. intros a Ha. destruct (Hids a Ha) as (c & Hc & <-).
        destruct (Hsub c Hc) as (-> & _). reflexivity. }
      rewrite Hblocks.
      set (y := fun nb : id => if Nat.eqb nb p then ow n else ow nb).
      set (x := fun nb : id => if Nat.eqb nb p then cw n else cw nb).
      assert (Hy : forall l : list id, ~ In p l -> map y l = map ow l).
      { intros l Hl. apply map_ext_in. intros a Ha. unfold y. destruct (Nat.eqb_spec a p) as [->|_]; [contradiction|reflexivity]. }
      assert (Hx : forall l : list id, ~ In p l -> map x l = map cw l).
      { intros l Hl. apply map_ext_in. intros a Ha. unfold x. destruct (Nat.eqb_spec a p) as [->|_]; [contradiction|reflexivity]. }
      destruct (sandwich_subtree_axes kt ot bt kn on kn p (map (fun c => (c, blk c)) ids) kw y x blk
                  (kw n) (ko n) (oo n) (oi n) (woff + ko n) [] ids Hnbk)
        as (g & Hg & G1 & G2 & G3 & G4).
      { exact Hnd. }
      { rewrite Hnbo. cbn [app]. apply perm_skip. exact Hco. }
      { rewrite Hnbk. reflexivity. }
      { rewrite Hkt1, Hkax. reflexivity. }
      { rewrite Hnbo, Hot1, Hoax. cbn [map]. rewrite Hy by exact Hpno. unfold y. rewrite Nat.eqb_refl.
        reflexivity. }
      { unfold bt. cbn [conj_arr gaxes]. rewrite Hkt1, Hkax, Hnbk. cbn [app map]. rewrite Hx by exact Hpn.
        unfold x. rewrite Nat.eqb_refl. rewrite map_app, map_map. reflexivity. }
      { intros nb Hnb. cbn [app] in Hnb. split; [apply aget_map_pair; exact Hnb|].
        destruct (Hids nb Hnb) as (c & Hc & <-). destruct (Hsub c Hc) as (_ & Hax & _). rewrite Hax.
        unfold y, x. destruct (Nat.eqb_spec (rid c) p) as [E|_]; [exfalso; apply Hpn; rewrite <- E; exact Hnb|reflexivity]. }
      { exact Hop1. }
      { exact Hop2. }
      exists g. split; [exact Hg|]. cbn [app] in G2, G3, G4.
      split; [rewrite G1; unfold y, x; rewrite Nat.eqb_refl; reflexivity|].
      rewrite G2, G3, G4, Hkt2, Hkt3, Hkt4, Hot2, Hot3, Hot4, Hb2, Hb3, Hb4, (Hx ids Hpn), (Hy ids Hpn).
      pose proof (perm_children (fun c => gatoms (blk c)) AT cs (fun c Hc => proj1 (proj2 (proj2 (Hsub c Hc))))) as P1.
      pose proof (perm_children (fun c => [kw c; ow c; cw c] ++ gbnd (blk c)) EB cs
                    (fun c Hc => proj1 (proj2 (proj2 (proj2 (Hsub c Hc)))))) as P2.
      pose proof (perm_children (fun c => gglue (blk c)) OP cs (fun c Hc => proj2 (proj2 (proj2 (proj2 (Hsub c Hc)))))) as P3.
      fold ids in P1, P2, P3. rewrite <- (perm_edge_sum3 kw ow cw (fun c => gbnd (blk c)) ids) in P2.
      rewrite <- P1, <- P2, <- P3. unfold AT at 1. unfold EB at 1. unfold OP at 1.
      split; [|split]; perm_solve.
  Qed.

  Lemma wf_sub3_nodes po t : wf_sub3 woff ket op po t -> forall m, In m (rnodes t) -> In m (akeys (nodes ket)).
  Proof.
    induction 1 as [po n cs Hok Hcs IH]. intros m Hm. cbn [rnodes] in Hm. destruct Hm as [<-|Hm].
    - destruct Hok as (kn & on & Hk & _). eapply aget_akeys; eassumption.
    - apply in_flat_map in Hm. destruct Hm as (c & Hc & Hm). eapply IH; eassumption.
  Qed.

  Theorem three_closed_aux t : wf_three woff ket op t ->
    exists g, expectation_value woff aoff ket op = Some g /\
      gaxes g = [] /\
      Permutation (gatoms g) (flat_map AT (rnodes t)) /\
      Permutation (gbnd g) (flat_map EB (rdesc t) ++ t_bnd ket (rid t) ++ t_bnd op (rid t) ++ map (Nat.add woff) (t_bnd ket (rid t))) /\
      Permutation (gglue g) ([(ko (rid t), oi (rid t)); (woff + ko (rid t), oo (rid t))] ++ flat_map OP (rdesc t)).
  Proof.
    intros (Hrk & Hro & Hnodup & Hwf).
    assert (Hsize : length (rnodes t) <= length (nodes ket)).
    { replace (length (nodes ket)) with (length (akeys (nodes ket))) by apply map_length.
      apply NoDup_incl_length; [exact Hnodup|]. intros m Hm. eapply wf_sub3_nodes; eassumption. }
    inversion Hwf as [po n cs Hok Hcs E1 E2]. subst po t. cbn [rid] in *.
    destruct Hok as (kn & on & Hk & Ho & Hpk & Hpo & Hck & Hco & Hnd & Hkax & Hoax & Hop1 & Hop2).
    cbn [opt_list app] in Hkax, Hoax.
    destruct (tensor_of_view ket n kn Hk) as (kt & Hkt & Hkt1 & Hkt2 & Hkt3 & Hkt4 & Hkt5).
    { rewrite Hkax. intros E. apply (f_equal (@length _)) in E. rewrite app_length in E. cbn in E. lia. }
    destruct (tensor_of_view op n on Ho) as (ot & Hot & Hot1 & Hot2 & Hot3 & Hot4 & Hot5).
    { rewrite Hoax. intros E. apply (f_equal (@length _)) in E. rewrite app_length in E. cbn in E. lia. }
    fold kw ow ko oo oi in Hkax, Hoax, Hop1, Hop2 |- *.
    set (bt := conj_arr woff aoff kt).
    assert (Hb2 : gatoms bt = map (Nat.add aoff) (t_atoms ket n)) by (unfold bt; cbn; rewrite Hkt2; reflexivity).
    assert (Hb3 : gbnd bt = map (Nat.add woff) (t_bnd ket n)) by (unfold bt; cbn; rewrite Hkt3; reflexivity).
    assert (Hb4 : gglue bt = []) by (unfold bt; cbn; rewrite Hkt4; reflexivity).
    set (ids := map rid cs) in *.
    assert (Hnbk : neighbouring_nodes kn = ids) by (unfold neighbouring_nodes; rewrite Hpk, Hck; reflexivity).
    assert (Hnbo : neighbouring_nodes on = children on) by (unfold neighbouring_nodes; rewrite Hpo; reflexivity).
    rewrite (expectation_value_root woff aoff ket op n kn on kt ot Hrk Hro Hk Ho Hkt Hot). rewrite Hck. fold bt.
    set (f := length (nodes ket)) in *. set (blk := blk3_of f n kt).
    assert (Hsub : forall c, In c cs ->
              block_three f woff aoff ket op (rid c) n = Some (blk (rid c)) /\
              gaxes (blk (rid c)) = [kw (rid c); ow (rid c); cw (rid c)] /\
              Permutation (gatoms (blk (rid c))) (flat_map AT (rnodes c)) /\
              Permutation ([kw (rid c); ow (rid c); cw (rid c)] ++ gbnd (blk (rid c))) (flat_map EB (rnodes c)) /\
              Permutation (gglue (blk (rid c))) (flat_map OP (rnodes c))).
    { intros c Hc. destruct (block_three_closed (Some n) c (Hcs c Hc) n f eq_refl) as (g & Hg & HH).
      - cbn [rnodes length] in Hsize. pose proof (flat_map_length_in rnodes cs c Hc). lia.
      - unfold blk, blk3_of. rewrite Hg. split; [reflexivity|exact HH]. }
    assert (Hids : forall a, In a ids -> exists c, In c cs /\ rid c = a).
    { intros a Ha. apply in_map_iff in Ha. destruct Ha as (c & E & Hc). eauto. }
    assert (Hblocks : all_some (map (fun c => option_map (fun b => (c, b)) (block_three f woff aoff ket op c n)) ids)
                      = Some (map (fun c => (c, blk c)) ids)).
    { apply all_some_total. intros a Ha. destruct (Hids a Ha) as (c & Hc & <-).
      destruct (Hsub c Hc) as (-> & _). reflexivity. }
    rewrite Hblocks.
    destruct (root_three_axes bt kt ot kn on (map (fun c => (c, blk c)) ids) kw ow cw blk (ko n) (oo n) (oi n) (woff + ko n))
      as (g & Hg & G1 & G2 & G3 & G4).
    { exact Hnd. }
    { rewrite Hnbk, Hnbo. exact Hco. }
    { rewrite Hnbk, Hkt1, Hkax. reflexivity. }
    { rewrite Hnbo, Hot1, Hoax. reflexivity. }
    { unfold bt. cbn [conj_arr gaxes]. rewrite Hkt1, Hkax, Hnbk. rewrite map_app, map_map. reflexivity. }
    { rewrite Hnbk. intros nb Hnb. split; [apply aget_map_pair; exact Hnb|].
      destruct (Hids nb Hnb) as (c & Hc & <-). apply Hsub. exact Hc. }
    { exact Hop1. }
    { intros E. apply Hop2. symmetry. exact E. }
    exists g. split; [exact Hg|]. split; [exact G1|].
    rewrite Hnbk in G2, G3, G4.
    cbn [rnodes rdesc rcs flat_map].
    pose proof (perm_children (fun c => gatoms (blk c)) AT cs (fun c Hc => proj1 (proj2 (proj2 (Hsub c Hc))))) as P1.
    pose proof (perm_children (fun c => [kw c; ow c; cw c] ++ gbnd (blk c)) EB cs
                  (fun c Hc => proj1 (proj2 (proj2 (proj2 (Hsub c Hc)))))) as P2.
    pose proof (perm_children (fun c => gglue (blk c)) OP cs (fun c Hc => proj2 (proj2 (proj2 (proj2 (Hsub c Hc)))))) as P3.
    fold ids in P1, P2, P3. rewrite <- (perm_edge_sum3 kw ow cw (fun c => gbnd (blk c)) ids) in P2.
    rewrite G2, G3, G4, Hkt2, Hkt3, Hkt4, Hot2, Hot3, Hot4, Hb2, Hb3, Hb4.
    rewrite <- P1, <- P2, <- P3. unfold AT at 1.
    split; [|split]; perm_solve.
  Qed.
End Global3.

(* every block of the three-layer recursion: three legs (ket, operator, conjugate copy towards the parent) and
   the subtree closed *)
Theorem block_three_subtree_closed woff aoff ket op p t fuel :
  wf_sub3 woff ket op (Some p) t -> length (rnodes t) <= fuel ->
  exists g, block_three fuel woff aoff ket op (rid t) p = Some g /\
    gaxes g = [up_wire ket (rid t); up_wire op (rid t); woff + up_wire ket (rid t)] /\
    Permutation (gatoms g) (all_atoms3 aoff ket op (rnodes t)) /\
    Permutation (gbnd g) (edge_wires3 woff ket op (rdesc t) ++ inner_bnd3 woff ket op (rnodes t)) /\
    Permutation (gglue g) (open_pairs3 woff ket op (rnodes t)).
Proof.
  intros Hwf Hfuel.
  destruct (block_three_closed woff aoff ket op (Some p) t Hwf p fuel eq_refl Hfuel) as (g & Hg & H1 & H2 & H3 & H4).
  exists g. split; [exact Hg|]. split; [exact H1|]. split; [exact H2|]. split; [|exact H4].
  rewrite rnodes_desc in H3. cbn [flat_map] in H3. rewrite perm_flat_map_split in H3.
  rewrite <- app_assoc in H3. apply Permutation_app_inv_l in H3. rewrite H3.
  unfold edge_wires3, inner_bnd3. rewrite rnodes_desc. cbn [flat_map]. perm_solve.
Qed.

(* expectation_value succeeds on every consistent (state, operator) pair, whatever the tree and the two
   independent child orders, and its result is the closed three-layer network: at every node the ket's open leg
   is glued to the operator's input leg and the operator's output leg to the conjugate copy's open leg *)
Theorem expectation_value_closed woff aoff ket op t :
  wf_three woff ket op t ->
  exists g, expectation_value woff aoff ket op = Some g /\
    gaxes g = [] /\
    Permutation (gatoms g) (all_atoms3 aoff ket op (rnodes t)) /\
    Permutation (gbnd g) (edge_wires3 woff ket op (rdesc t) ++ inner_bnd3 woff ket op (rnodes t)) /\
    Permutation (gglue g)
      ([(open_wire ket (rid t), in_wire op (rid t)); (woff + open_wire ket (rid t), out_wire op (rid t))]
       ++ open_pairs3 woff ket op (rdesc t)).
Proof.
  intros Hwf. destruct (three_closed_aux woff aoff ket op t Hwf) as (g & Hg & H1 & H2 & H3 & H4).
  exists g. split; [exact Hg|]. split; [exact H1|]. split; [exact H2|]. split; [|exact H4].
  rewrite H3, perm_flat_map_split. unfold edge_wires3, inner_bnd3. rewrite (rnodes_desc t). cbn [flat_map]. perm_solve.
Qed.

Lemma node_ok3b_sound woff ket op p n cs : node_ok3b woff ket op p n cs = true -> node_ok3 woff ket op p n cs.
Proof.
  unfold node_ok3b. destruct (aget n (nodes ket)) as [kn|] eqn:Hk; [|discriminate].
  destruct (aget n (nodes op)) as [on|] eqn:Ho; [|discriminate].
  intros H. repeat (apply andb_prop in H; let H' := fresh "H" in destruct H as [H H']).
  exists kn, on. repeat split; auto using opt_eqb_true, cl_list_eqb, perm_of_nodupb_sound.
  - apply cl_nodupb. assumption.
  - apply negb_true_iff, Nat.eqb_neq in H1. exact H1.
  - apply negb_true_iff, Nat.eqb_neq in H0. exact H0.
Qed.

Lemma wf_sub3b_sound woff ket op t : forall p, wf_sub3b woff ket op p t = true -> wf_sub3 woff ket op p t.
Proof.
  induction t as [n cs IH] using rt_rect'. intros p H. cbn [wf_sub3b] in H. apply andb_prop in H. destruct H as [H1 H2].
  constructor; [apply node_ok3b_sound; exact H1|].
  intros c Hc. apply IH; [exact Hc|]. rewrite forallb_forall in H2. apply H2. exact Hc.
Qed.

Lemma wf_threeb_sound woff ket op t : wf_threeb woff ket op t = true -> wf_three woff ket op t.
Proof.
  unfold wf_threeb, wf_three. intros H. repeat (apply andb_prop in H; let H' := fresh "H" in destruct H as [H H']).
  repeat split; auto using opt_eqb_true, wf_sub3b_sound. apply cl_nodupb. assumption.
Qed.

Theorem three_ok_closed woff aoff ket op :
  three_ok woff ket op = true ->
  exists t g, ket_tree ket = Some t /\ expectation_value woff aoff ket op = Some g /\
    gaxes g = [] /\
    Permutation (gatoms g) (all_atoms3 aoff ket op (rnodes t)) /\
    Permutation (gbnd g) (edge_wires3 woff ket op (rdesc t) ++ inner_bnd3 woff ket op (rnodes t)) /\
    Permutation (gglue g)
      ([(open_wire ket (rid t), in_wire op (rid t)); (woff + open_wire ket (rid t), out_wire op (rid t))]
       ++ open_pairs3 woff ket op (rdesc t)).
Proof.
  unfold three_ok. destruct (ket_tree ket) as [t|]; [|discriminate]. intros H.
  destruct (expectation_value_closed woff aoff ket op t (wf_threeb_sound _ _ _ _ H)) as (g & Hg). exists t, g. split; [reflexivity|exact Hg].
Qed.

(* the tree read off the recursion covers the whole store when the store has no further nodes *)
Lemma wf_two_covers ket bra t :
  wf_two ket bra t -> length (nodes ket) <= length (rnodes t) -> Permutation (rnodes t) (akeys (nodes ket)).
Proof.
  intros (_ & _ & Hnd & Hwf) Hlen. apply NoDup_Permutation_bis; [exact Hnd| |].
  - unfold akeys. rewrite map_length. exact Hlen.
  - intros m Hm. eapply wf_sub_nodes; eassumption.
Qed.
