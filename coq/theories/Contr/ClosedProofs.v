(* Universal leg-arithmetic lemmas about the block recursion of Contr/Blocks.v and the global theorem:
   the recursion of contract_two_ttns closes the network, for every tree, every child order of the ket
   and every (independent) child order of the bra. *)
From Coq Require Import List Arith Bool Lia Permutation.
From PTN Require Import TTN.Store Contr.Blocks Contr.BlocksProofs Contr.Closed.
Import ListNotations.

(* ---- booleans <-> Props ------------------------------------------------------------------------------- *)
Lemma cl_memb_In x l : memb x l = true <-> In x l.
Proof.
  unfold memb. rewrite existsb_exists. split.
  - intros (y & Hy & E). apply Nat.eqb_eq in E. subst. exact Hy.
  - intros H. exists x. split; [exact H|apply Nat.eqb_refl].
Qed.

Lemma cl_memb_false x l : memb x l = false <-> ~ In x l.
Proof. rewrite <- cl_memb_In. destruct (memb x l); split; intros; congruence. Qed.

Lemma cl_nodupb l : nodupb l = true <-> NoDup l.
Proof.
  induction l as [|x t IH]; cbn.
  - split; [constructor|reflexivity].
  - rewrite andb_true_iff, negb_true_iff, cl_memb_false, IH. split.
    + intros [H1 H2]. constructor; assumption.
    + intros H. inversion H; subst. split; assumption.
Qed.

Lemma forallb_ltb n l : (forall i, In i l -> i < n) -> forallb (fun i => Nat.ltb i n) l = true.
Proof. intros H. apply forallb_forall. intros i Hi. apply Nat.ltb_lt. auto. Qed.

(* ---- all_some ------------------------------------------------------------------------------------------- *)
Lemma all_some_total {A B} (f : A -> option B) (g : A -> B) l :
  (forall a, In a l -> f a = Some (g a)) -> all_some (map f l) = Some (map g l).
Proof.
  induction l as [|a t IH]; intros H; cbn; [reflexivity|].
  rewrite (H a) by (left; reflexivity). rewrite IH by (intros; apply H; right; assumption). reflexivity.
Qed.

Lemma all_some_app {A} (l1 l2 : list (option A)) r1 r2 :
  all_some l1 = Some r1 -> all_some l2 = Some r2 -> all_some (l1 ++ l2) = Some (r1 ++ r2).
Proof.
  revert r1. induction l1 as [|[a|] t IH]; intros r1 H1 H2; cbn in *.
  - injection H1 as <-. exact H2.
  - destruct (all_some t) as [r|]; [|discriminate]. injection H1 as <-. rewrite (IH r eq_refl H2). reflexivity.
  - discriminate.
Qed.

(* ---- index_of --------------------------------------------------------------------------------------------- *)
Lemma idx_some x l i : index_of x l = Some i -> i < length l /\ nth i l 0 = x.
Proof.
  revert i. induction l as [|y t IH]; intros i; cbn; [discriminate|].
  destruct (Nat.eqb_spec x y) as [->|Hne].
  - intros [= <-]. split; [lia|reflexivity].
  - destruct (index_of x t) as [j|]; [|discriminate]. intros [= <-]. destruct (IH j eq_refl). split; [lia|assumption].
Qed.

Lemma idx_app_in x a b : In x a -> exists i, index_of x (a ++ b) = Some i /\ i < length a.
Proof.
  induction a as [|y t IH]; [intros []|]. intros Hin. cbn.
  destruct (Nat.eqb_spec x y) as [->|Hne]; [exists 0; split; [reflexivity|lia]|].
  destruct Hin as [->|Hin]; [congruence|]. destruct (IH Hin) as (i & -> & Hi). exists (S i). split; [reflexivity|lia].
Qed.

Lemma idx_in x l : In x l -> exists i, index_of x l = Some i.
Proof. intros H. destruct (idx_app_in x l [] H) as (i & E & _). rewrite app_nil_r in E. eauto. Qed.

Lemma idx_app_notin x a b : ~ In x a -> index_of x (a ++ b) = option_map (Nat.add (length a)) (index_of x b).
Proof.
  induction a as [|y t IH]; intros H; cbn.
  - destruct (index_of x b); reflexivity.
  - destruct (Nat.eqb_spec x y) as [->|Hne]; [exfalso; apply H; left; reflexivity|].
    rewrite IH by (intros Hin; apply H; right; exact Hin). destruct (index_of x b); reflexivity.
Qed.

Lemma idx_mid x a b : ~ In x a -> index_of x (a ++ x :: b) = Some (length a).
Proof. intros H. rewrite idx_app_notin by exact H. cbn. rewrite Nat.eqb_refl. cbn. f_equal. lia. Qed.

Lemma idx_nth l i : NoDup l -> i < length l -> index_of (nth i l 0) l = Some i.
Proof.
  revert i. induction l as [|y t IH]; intros i Hnd Hi; cbn in *; [lia|].
  inversion Hnd as [|? ? Hni Hnd']; subst. destruct i as [|i].
  - rewrite Nat.eqb_refl. reflexivity.
  - destruct (Nat.eqb_spec (nth i t 0) y) as [E|Hne].
    + exfalso. apply Hni. rewrite <- E. apply nth_In. lia.
    + rewrite IH by (auto; lia). reflexivity.
Qed.

(* total position function *)
Definition pos_in (l : list nat) (x : nat) : nat := match index_of x l with Some i => i | None => 0 end.

Lemma pos_in_spec l x : In x l -> index_of x l = Some (pos_in l x) /\ pos_in l x < length l /\ nth (pos_in l x) l 0 = x.
Proof.
  intros H. destruct (idx_in x l H) as [i E]. unfold pos_in. rewrite E. split; [reflexivity|]. apply idx_some. exact E.
Qed.

Lemma pos_in_nth l i : NoDup l -> i < length l -> pos_in l (nth i l 0) = i.
Proof. intros H1 H2. unfold pos_in. rewrite idx_nth by assumption. reflexivity. Qed.

Lemma pos_in_inj l a b : In a l -> In b l -> pos_in l a = pos_in l b -> a = b.
Proof.
  intros Ha Hb E. destruct (pos_in_spec l a Ha) as (_ & _ & <-). destruct (pos_in_spec l b Hb) as (_ & _ & <-).
  rewrite E. reflexivity.
Qed.

Lemma NoDup_map_inj_in {A B} (f : A -> B) l :
  (forall a b, In a l -> In b l -> f a = f b -> a = b) -> NoDup l -> NoDup (map f l).
Proof.
  induction l as [|x t IH]; intros Hinj Hnd; cbn; [constructor|].
  inversion Hnd as [|? ? Hni Hnd']; subst. constructor.
  - intros Hin. apply in_map_iff in Hin. destruct Hin as (y & E & Hy).
    assert (y = x) by (apply Hinj; [right; exact Hy|left; reflexivity|exact E]). subst. contradiction.
  - apply IH; [|exact Hnd']. intros a b Ha Hb. apply Hinj; right; assumption.
Qed.

(* positions of a contiguous block of a duplicate-free list *)
Lemma all_some_idx_seq A l B : NoDup (A ++ l ++ B) ->
  all_some (map (fun nb => index_of nb (A ++ l ++ B)) l) = Some (seq (length A) (length l)).
Proof.
  revert A. induction l as [|a t IH]; intros A Hnd; cbn [map all_some length seq app]; [reflexivity|].
  assert (Hni : ~ In a A).
  { intros Hin. apply NoDup_remove_2 in Hnd. apply Hnd. apply in_or_app. left. exact Hin. }
  cbn [app]. rewrite idx_mid by exact Hni.
  specialize (IH (A ++ [a])). rewrite <- !app_assoc in IH. cbn [app] in IH.
  rewrite IH by exact Hnd. rewrite app_length. cbn. replace (length A + 1) with (S (length A)) by lia. reflexivity.
Qed.

Lemma filter_neq_notin x l : ~ In x l -> filter (fun nb => negb (Nat.eqb nb x)) l = l.
Proof.
  induction l as [|y t IH]; intros H; cbn; [reflexivity|].
  destruct (Nat.eqb_spec y x) as [->|Hne]; [exfalso; apply H; left; reflexivity|]. cbn.
  f_equal. apply IH. intros Hin. apply H. right. exact Hin.
Qed.

Lemma filter_neq_mid x a b : ~ In x a -> ~ In x b -> filter (fun nb => negb (Nat.eqb nb x)) (a ++ x :: b) = a ++ b.
Proof.
  intros Ha Hb. rewrite filter_app. cbn. rewrite Nat.eqb_refl. cbn.
  rewrite !filter_neq_notin by assumption. reflexivity.
Qed.

Lemma NoDup_mid_notin {A} (x : A) a b : NoDup (a ++ x :: b) -> ~ In x a /\ ~ In x b /\ NoDup (a ++ b).
Proof.
  intros H. pose proof (NoDup_remove_1 _ _ _ H) as H1. pose proof (NoDup_remove_2 _ _ _ H) as H2.
  repeat split; [| |exact H1]; intros Hin; apply H2; apply in_or_app; [left|right]; exact Hin.
Qed.

Lemma map_add_seq c s n : map (fun i => i + c) (seq s n) = seq (s + c) n.
Proof. revert s. induction n as [|n IH]; intros s; cbn; [reflexivity|]. f_equal. apply (IH (S s)). Qed.

(* ---- drop_positions --------------------------------------------------------------------------------------------- *)
Lemma drop_positions_from {A} idx (l : list A) : drop_positions idx l = dropfrom 0 idx l.
Proof.
  unfold drop_positions. generalize 0 as s. induction l as [|x t IH]; intros s; cbn; [reflexivity|].
  destruct (memb s idx); cbn; rewrite IH; reflexivity.
Qed.

Lemma dropfrom_all {A} s idx (l : list A) : (forall i, i < length l -> In (s + i) idx) -> dropfrom s idx l = [].
Proof.
  revert s. induction l as [|x t IH]; intros s H; cbn; [reflexivity|].
  assert (E : memb s idx = true). { apply cl_memb_In. specialize (H 0). rewrite Nat.add_0_r in H. apply H. cbn. lia. }
  rewrite E. apply IH. intros i Hi. replace (S s + i) with (s + S i) by lia. apply H. cbn. lia.
Qed.

Lemma dropfrom_keep {A} s idx (l : list A) : (forall i, i < length l -> ~ In (s + i) idx) -> dropfrom s idx l = l.
Proof.
  revert s. induction l as [|x t IH]; intros s H; cbn; [reflexivity|].
  assert (E : memb s idx = false). { apply cl_memb_false. specialize (H 0). rewrite Nat.add_0_r in H. apply H. cbn. lia. }
  rewrite E. f_equal. apply IH. intros i Hi. replace (S s + i) with (s + S i) by lia. apply H. cbn. lia.
Qed.

Lemma dropfrom_app {A} s idx (a b : list A) : dropfrom s idx (a ++ b) = dropfrom s idx a ++ dropfrom (s + length a) idx b.
Proof.
  revert s. induction a as [|x t IH]; intros s; cbn.
  - rewrite Nat.add_0_r. reflexivity.
  - rewrite IH. replace (S s + length t) with (s + S (length t)) by lia. destruct (memb s idx); reflexivity.
Qed.

(* exactly one position survives *)
Lemma dropfrom_one {A} (d : A) s idx (l : list A) j : j < length l ->
  (forall i, i < length l -> (In (s + i) idx <-> i <> j)) -> dropfrom s idx l = [nth j l d].
Proof.
  revert s j. induction l as [|x t IH]; intros s j Hj H; cbn in Hj; [lia|]. cbn [dropfrom].
  destruct j as [|j].
  - assert (E : memb s idx = false).
    { apply cl_memb_false. intros Hin. specialize (H 0 ltac:(cbn; lia)). rewrite Nat.add_0_r in H. apply H in Hin. congruence. }
    rewrite E. cbn. f_equal. apply dropfrom_all. intros i Hi. replace (S s + i) with (s + S i) by lia.
    apply H; cbn; lia.
  - assert (E : memb s idx = true).
    { apply cl_memb_In. specialize (H 0 ltac:(cbn; lia)). rewrite Nat.add_0_r in H. apply H. lia. }
    rewrite E. cbn [nth]. apply IH; [lia|]. intros i Hi. replace (S s + i) with (s + S i) by lia.
    rewrite H by (cbn; lia). lia.
Qed.

Lemma dropfrom_single {A} (fixed : list A) w tl : dropfrom 0 [length fixed] (fixed ++ w :: tl) = fixed ++ tl.
Proof.
  rewrite dropfrom_app. cbn [dropfrom Nat.add].
  rewrite dropfrom_keep by (intros i Hi [E|[]]; cbn in E; lia).
  assert (E : memb (length fixed) [length fixed] = true) by (apply cl_memb_In; left; reflexivity).
  rewrite E. rewrite dropfrom_keep by (intros i Hi [E'|[]]; lia). reflexivity.
Qed.

(* ---- reading wires off positions ------------------------------------------------------------------------------------- *)
Lemma nth_seq_block {A} (d : A) (pre X post : list A) :
  map (fun i => nth i (pre ++ X ++ post) d) (seq (length pre) (length X)) = X.
Proof.
  revert pre. induction X as [|x t IH]; intros pre; cbn [length seq map]; [reflexivity|].
  f_equal.
  - rewrite app_nth2 by lia. rewrite Nat.sub_diag. reflexivity.
  - specialize (IH (pre ++ [x])). rewrite <- app_assoc in IH. cbn [app] in IH.
    rewrite app_length in IH. cbn in IH. replace (length pre + 1) with (S (length pre)) in IH by lia. exact IH.
Qed.

Lemma nth_mid {A} (d : A) (pre : list A) x post : nth (length pre) (pre ++ x :: post) d = x.
Proof. rewrite app_nth2 by lia. rewrite Nat.sub_diag. reflexivity. Qed.

(* the contracted pairs: equal wires are bound, the one pair of different wires is glued *)
Lemma pairs_same (X : list wire) o p : o <> p ->
  map fst (filter (fun q : wire * wire => Nat.eqb (fst q) (snd q)) (combine (X ++ [o]) (X ++ [p]))) = X.
Proof.
  intros Hne. induction X as [|x t IH]; cbn.
  - destruct (Nat.eqb_spec o p); [contradiction|reflexivity].
  - rewrite Nat.eqb_refl. cbn. f_equal. exact IH.
Qed.

Lemma pairs_diff (X : list wire) o p : o <> p ->
  filter (fun q : wire * wire => negb (Nat.eqb (fst q) (snd q))) (combine (X ++ [o]) (X ++ [p])) = [(o, p)].
Proof.
  intros Hne. induction X as [|x t IH]; cbn.
  - destruct (Nat.eqb_spec o p); [contradiction|reflexivity].
  - rewrite Nat.eqb_refl. cbn. exact IH.
Qed.

(* ---- tensordot: success and exact result ----------------------------------------------------------------------------------- *)
Lemma g_tensordot_ok a b ia ib :
  length ia = length ib ->
  (forall i, In i ia -> i < length (gaxes a)) -> (forall i, In i ib -> i < length (gaxes b)) ->
  NoDup ia -> NoDup ib ->
  g_tensordot a b ia ib =
  Some {| gaxes := dropfrom 0 ia (gaxes a) ++ dropfrom 0 ib (gaxes b);
          gatoms := gatoms a ++ gatoms b;
          gbnd := map fst (filter (fun q : wire * wire => Nat.eqb (fst q) (snd q))
                             (combine (map (fun i => nth i (gaxes a) 0) ia) (map (fun i => nth i (gaxes b) 0) ib)))
                  ++ gbnd a ++ gbnd b;
          gglue := filter (fun q : wire * wire => negb (Nat.eqb (fst q) (snd q)))
                     (combine (map (fun i => nth i (gaxes a) 0) ia) (map (fun i => nth i (gaxes b) 0) ib))
                   ++ gglue a ++ gglue b |}.
Proof.
  intros Hlen Ha Hb Hna Hnb. unfold g_tensordot.
  rewrite Hlen, Nat.eqb_refl. cbn [negb].
  rewrite (forallb_ltb _ _ Ha), (forallb_ltb _ _ Hb). cbn [andb negb].
  apply cl_nodupb in Hna. apply cl_nodupb in Hnb. rewrite Hna, Hnb. cbn [andb negb].
  rewrite !drop_positions_from. reflexivity.
Qed.

(* one axis of r against the first axis of a block carrying the same wire *)
Lemma g_tensordot_single r blk fixed w tl xs :
  gaxes r = fixed ++ w :: tl -> gaxes blk = w :: xs ->
  g_tensordot r blk [length fixed] [0] =
  Some {| gaxes := fixed ++ tl ++ xs; gatoms := gatoms r ++ gatoms blk;
          gbnd := w :: gbnd r ++ gbnd blk; gglue := gglue r ++ gglue blk |}.
Proof.
  intros Hr Hb. rewrite g_tensordot_ok.
  - rewrite Hr, Hb. rewrite dropfrom_single. cbn [map combine]. rewrite nth_mid. cbn [nth filter fst snd].
    rewrite Nat.eqb_refl. cbn [negb map fst app]. cbn [dropfrom memb existsb Nat.eqb orb].
    rewrite dropfrom_keep by (intros i Hi [E|[]]; lia). rewrite <- app_assoc. reflexivity.
  - reflexivity.
  - intros i [<-|[]]. rewrite Hr, app_length. cbn. lia.
  - intros i [<-|[]]. rewrite Hb. cbn. lia.
  - constructor; [intros []|constructor].
  - constructor; [intros []|constructor].
Qed.

(* ---- nodes: neighbour_index is the position in neighbouring_nodes ---------------------------------------------------------------- *)
Lemma neighbour_index_nbs n x : neighbour_index n x = index_of x (neighbouring_nodes n).
Proof.
  unfold neighbour_index, neighbouring_nodes. destruct (parent n) as [p|]; [|reflexivity]. cbn.
  destruct (Nat.eqb x p); [reflexivity|]. destruct (index_of x (children n)); cbn; [f_equal; lia|reflexivity].
Qed.

Lemma nvirt_nbs n : nvirt n = length (neighbouring_nodes n).
Proof. unfold nvirt, nparents, neighbouring_nodes. destruct (parent n); reflexivity. Qed.

(* ==== (1a) contract_all_but_one_neighbour_block_to_ket ============================================================================= *)
Definition abo_step (kn : node) (next : id) (blocks : list (id * garr)) (acc : option garr) (nb : id) : option garr :=
  match acc with
  | None => None
  | Some r =>
      if Nat.eqb nb next then Some r else
      match neighbour_index kn nb, neighbour_index kn next, aget nb blocks with
      | Some inb, Some inext, Some blk =>
          if Nat.eqb inb inext then None else
          g_tensordot r blk [if Nat.ltb inext inb then 1 else 0] [0]
      | _, _, _ => None
      end
  end.

Lemma all_but_one_fold kt kn next blocks :
  all_but_one_to_ket kt kn next blocks = fold_left (abo_step kn next blocks) (neighbouring_nodes kn) (Some kt).
Proof. reflexivity. Qed.

(* one phase of the loop: the neighbours in l all lie on the same side of `next`, so the contracted axis
   of the running result is always at position a = |fixed| (0 before `next` was passed, 1 after) *)
Lemma abo_phase kn next blocks inext a (w : id -> wire) (xs : id -> list wire) (blk : id -> garr) l :
  neighbour_index kn next = Some inext ->
  (forall nb, In nb l ->
     nb <> next /\
     (exists inb, neighbour_index kn nb = Some inb /\ inb <> inext /\ (if Nat.ltb inext inb then 1 else 0) = a) /\
     aget nb blocks = Some (blk nb) /\ gaxes (blk nb) = w nb :: xs nb) ->
  forall r fixed rest, length fixed = a -> gaxes r = fixed ++ map w l ++ rest ->
  exists r', fold_left (abo_step kn next blocks) l (Some r) = Some r' /\
     gaxes r' = fixed ++ rest ++ flat_map xs l /\
     gatoms r' = gatoms r ++ flat_map (fun nb => gatoms (blk nb)) l /\
     gbnd r' = rev (map w l) ++ gbnd r ++ flat_map (fun nb => gbnd (blk nb)) l /\
     gglue r' = gglue r ++ flat_map (fun nb => gglue (blk nb)) l.
Proof.
  intros Hnext. induction l as [|nb l IH]; intros H r fixed rest Hfix Hax.
  - exists r. cbn in *. rewrite !app_nil_r. auto.
  - destruct (H nb (or_introl eq_refl)) as (Hne & (inb & Hinb & Hneq & Ha) & Hblk & Hbax).
    cbn [fold_left]. unfold abo_step at 2.
    destruct (Nat.eqb_spec nb next) as [E|_]; [contradiction|].
    rewrite Hinb, Hnext, Hblk. destruct (Nat.eqb_spec inb inext) as [E|_]; [contradiction|].
    rewrite Ha, <- Hfix.
    cbn [map app] in Hax.
    rewrite (g_tensordot_single r (blk nb) fixed (w nb) (map w l ++ rest) (xs nb) Hax Hbax).
    match goal with |- context [fold_left _ l (Some ?rr)] => set (r1 := rr) end.
    destruct (IH (fun nb' Hin => H nb' (or_intror Hin)) r1 fixed (rest ++ xs nb) Hfix) as (r' & Hf & H1 & H2 & H3 & H4).
    { subst r1. cbn [gaxes]. rewrite <- app_assoc. reflexivity. }
    exists r'. split; [exact Hf|]. subst r1. cbn [gaxes gatoms gbnd gglue] in *.
    rewrite H1, H2, H3, H4. cbn [flat_map map rev]. rewrite <- !app_assoc. cbn [app]. rewrite <- !app_assoc. auto.
Qed.

(* the ket tensor has its virtual legs in neighbouring_nodes order (wires wpre, wj, wpost), then any further
   legs `rest` (the open leg); every neighbour nb other than `next` has a block whose first leg is the ket's
   wire to nb and whose other legs are xs nb.  Then the loop succeeds; the result has the leg to `next`,
   then `rest`, then the blocks' other legs in neighbour order; it binds exactly the wires to the
   contracted neighbours and glues nothing. *)
Theorem all_but_one_axes kt kn next blocks (w : id -> wire) (xs : id -> list wire) (blk : id -> garr) wj rest pre post :
  neighbouring_nodes kn = pre ++ next :: post ->
  NoDup (pre ++ next :: post) ->
  gaxes kt = map w pre ++ wj :: map w post ++ rest ->
  (forall nb, In nb (pre ++ post) -> aget nb blocks = Some (blk nb) /\ gaxes (blk nb) = w nb :: xs nb) ->
  exists r, all_but_one_to_ket kt kn next blocks = Some r /\
    gaxes r = wj :: rest ++ flat_map xs (pre ++ post) /\
    gatoms r = gatoms kt ++ flat_map (fun nb => gatoms (blk nb)) (pre ++ post) /\
    gbnd r = rev (map w (pre ++ post)) ++ gbnd kt ++ flat_map (fun nb => gbnd (blk nb)) (pre ++ post) /\
    gglue r = gglue kt ++ flat_map (fun nb => gglue (blk nb)) (pre ++ post).
Proof.
  intros Hnbs Hnd Hax Hblk.
  destruct (NoDup_mid_notin _ _ _ Hnd) as (Hnpre & Hnpost & Hnd').
  assert (Hnext : neighbour_index kn next = Some (length pre)).
  { rewrite neighbour_index_nbs, Hnbs. apply idx_mid. exact Hnpre. }
  rewrite all_but_one_fold, Hnbs, fold_left_app.
  (* phase 1: neighbours before next, axis 0 *)
  destruct (abo_phase kn next blocks (length pre) 0 w xs blk pre Hnext) with (r := kt) (fixed := @nil wire)
    (rest := wj :: map w post ++ rest) as (r1 & Hf1 & A1 & B1 & C1 & D1).
  { intros nb Hin. split; [intros ->; contradiction|]. split.
    - destruct (idx_app_in nb pre (next :: post) Hin) as (i & Ei & Hi).
      exists i. rewrite neighbour_index_nbs, Hnbs. split; [exact Ei|]. unfold id in *. split; [lia|].
      destruct (Nat.ltb_spec (length pre) i); [lia|reflexivity].
    - apply Hblk. apply in_or_app. left. exact Hin. }
  { reflexivity. }
  { cbn [app]. exact Hax. }
  rewrite Hf1. cbn [fold_left]. unfold abo_step at 2. rewrite Nat.eqb_refl.
  (* phase 2: neighbours after next, axis 1 *)
  destruct (abo_phase kn next blocks (length pre) 1 w xs blk post Hnext) with (r := r1) (fixed := [wj])
    (rest := rest ++ flat_map xs pre) as (r2 & Hf2 & A2 & B2 & C2 & D2).
  { intros nb Hin. split; [intros ->; contradiction|]. split.
    - assert (Hnp : ~ In nb pre).
      { intros Hp. apply NoDup_remove_1 in Hnd. revert Hnd Hp Hin. clear. intros Hnd Hp Hin.
        induction pre as [|y t IH]; [destruct Hp|]. cbn in Hnd. inversion Hnd as [|? ? Hni Hnd']; subst.
        destruct Hp as [->|Hp]; [apply Hni; apply in_or_app; right; exact Hin|apply IH; assumption]. }
      destruct (idx_in nb post Hin) as [i Ei].
      exists (length pre + S i). rewrite neighbour_index_nbs, Hnbs. rewrite idx_app_notin by exact Hnp. cbn [index_of].
      destruct (Nat.eqb_spec nb next) as [->|_]; [contradiction|]. rewrite Ei. cbn [option_map]. unfold id in *. split; [reflexivity|]. split; [lia|].
      destruct (Nat.ltb_spec (length pre) (length pre + S i)); [reflexivity|lia].
    - apply Hblk. apply in_or_app. right. exact Hin. }
  { reflexivity. }
  { rewrite A1. cbn [app]. rewrite <- !app_assoc. reflexivity. }
  exists r2. split; [exact Hf2|]. rewrite A2, B2, C2, D2, B1, C1, D1.
  rewrite !flat_map_app, map_app, rev_app_distr. cbn [app]. rewrite <- !app_assoc. auto.
Qed.

(* ==== (1b) contract_bra_tensor_ignore_one_leg: independent child orders ============================================================= *)
(* positions of the neighbours other than `next`, read in the ket order, inside the bra's own order *)
Lemma NoDup_app_one {A} (l : list A) x : NoDup l -> ~ In x l -> NoDup (l ++ [x]).
Proof.
  intros H1 H2. apply (Permutation_NoDup (l := x :: l)); [|constructor; assumption].
  apply Permutation_cons_append.
Qed.

Lemma in_mid_other {A} (x y : A) a b : In y (a ++ x :: b) -> y <> x -> In y (a ++ b).
Proof. intros H Hne. apply in_app_or in H. apply in_or_app. destruct H as [H|[H|H]]; [left; exact H|congruence|right; exact H]. Qed.

Lemma in_mid_intro {A} (x y : A) a b : In y (a ++ b) -> In y (a ++ x :: b).
Proof. intros H. apply in_app_or in H. apply in_or_app. destruct H; [left|right; right]; assumption. Qed.

Theorem bra_to_ket_ignore_axes bt kb bn kn next (x : id -> wire) wj o p pre post :
  neighbouring_nodes kn = pre ++ next :: post ->
  NoDup (pre ++ next :: post) ->
  Permutation (neighbouring_nodes bn) (pre ++ next :: post) ->
  gaxes kb = wj :: o :: map x (pre ++ post) ->
  gaxes bt = map x (neighbouring_nodes bn) ++ [p] ->
  o <> p ->
  exists r, bra_to_ket_ignore bt kb bn kn next = Some r /\
    gaxes r = [wj; x next] /\
    gatoms r = gatoms kb ++ gatoms bt /\
    gbnd r = map x (pre ++ post) ++ gbnd kb ++ gbnd bt /\
    gglue r = (o, p) :: gglue kb ++ gglue bt.
Proof.
  intros Hnbs Hnd Hperm Hkb Hbt Hop.
  destruct (NoDup_mid_notin _ _ _ Hnd) as (Hnpre & Hnpost & Hnd').
  set (L := pre ++ post) in *.
  set (nb_b := neighbouring_nodes bn) in *.
  assert (HndB : NoDup nb_b) by (eapply Permutation_NoDup; [symmetry; exact Hperm|exact Hnd]).
  assert (HinB : forall y, In y nb_b <-> In y (pre ++ next :: post)).
  { intros y. split; apply Permutation_in; [exact Hperm|symmetry; exact Hperm]. }
  assert (HnextL : ~ In next L).
  { unfold L. intros H. apply in_app_or in H. destruct H; contradiction. }
  assert (HLB : forall y, In y L -> In y nb_b).
  { intros y Hy. apply HinB. apply in_mid_intro. exact Hy. }
  assert (HlenB : length nb_b = S (length L)).
  { unfold L. rewrite (Permutation_length Hperm), !app_length. cbn. lia. }
  assert (HnextB : In next nb_b) by (apply HinB; apply in_or_app; right; left; reflexivity).
  destruct (pos_in_spec nb_b next HnextB) as (_ & Hjb & Hjbn).
  set (jb := pos_in nb_b next) in *.
  unfold bra_to_ket_ignore.
  rewrite neighbour_index_nbs, Hnbs, idx_mid by exact Hnpre.
  rewrite filter_neq_mid by assumption. unfold id, wire in *. fold L.
  (* ket positions *)
  assert (Hkis : all_some (map (neighbour_index kn) L) = Some (seq 0 (length pre) ++ seq (S (length pre)) (length post))).
  { unfold L. rewrite map_app. apply all_some_app.
    - rewrite (map_ext _ (fun nb => index_of nb ([] ++ pre ++ next :: post))).
      + apply (all_some_idx_seq [] pre (next :: post)). exact Hnd.
      + intros a. rewrite neighbour_index_nbs, Hnbs. reflexivity.
    - rewrite (map_ext _ (fun nb => index_of nb ((pre ++ [next]) ++ post ++ []))).
      + replace (S (length pre)) with (length (pre ++ [next])) by (rewrite app_length; cbn; lia).
        apply (all_some_idx_seq (pre ++ [next]) post []).
        rewrite app_nil_r, <- app_assoc. exact Hnd.
      + intros a. rewrite neighbour_index_nbs, Hnbs, app_nil_r, <- app_assoc. reflexivity. }
  unfold id, wire in *. rewrite Hkis.
  (* bra positions *)
  assert (Hbis : all_some (map (neighbour_index bn) L) = Some (map (pos_in nb_b) L)).
  { apply all_some_total. intros a Ha. rewrite neighbour_index_nbs. apply pos_in_spec. apply HLB. exact Ha. }
  unfold id, wire in *. rewrite Hbis.
  (* the ket-side legs are 2, 3, ..., then 1 *)
  assert (Hlegs : map (fun ki => ki + 1 + (if Nat.ltb ki (length pre) then 1 else 0))
                    (seq 0 (length pre) ++ seq (S (length pre)) (length post)) = seq 2 (length L)).
  { unfold L. rewrite map_app, app_length, seq_app. f_equal.
    - rewrite <- (map_add_seq 2 0). apply map_ext_in. intros i Hi. apply in_seq in Hi.
      destruct (Nat.ltb_spec i (length pre)); lia.
    - replace (2 + length pre) with (S (length pre) + 1) by lia. rewrite <- map_add_seq.
      apply map_ext_in. intros i Hi. apply in_seq in Hi. destruct (Nat.ltb_spec i (length pre)); lia. }
  unfold id, wire in *. rewrite Hlegs. rewrite nvirt_nbs. fold nb_b.
  assert (HposB : forall a, In a L -> pos_in nb_b a < length nb_b /\ pos_in nb_b a <> jb).
  { intros a Ha. destruct (pos_in_spec nb_b a (HLB a Ha)) as (_ & H1 & H2). split; [exact H1|].
    intros E. apply HnextL. replace next with a; [exact Ha|]. apply (pos_in_inj nb_b); auto. }
  rewrite g_tensordot_ok.
  2:{ rewrite !app_length, map_length, seq_length. reflexivity. }
  2:{ intros i Hi. rewrite Hkb. cbn [length]. rewrite map_length. apply in_app_or in Hi.
      destruct Hi as [Hi|[<-|[]]]; [apply in_seq in Hi|]; lia. }
  2:{ intros i Hi. rewrite Hbt, app_length, map_length. cbn. apply in_app_or in Hi.
      destruct Hi as [Hi|[<-|[]]]; [|lia]. apply in_map_iff in Hi. destruct Hi as (a & <- & Ha).
      destruct (HposB a Ha). lia. }
  2:{ apply NoDup_app_one. - apply seq_NoDup. - intros Hi. apply in_seq in Hi. lia. }
  2:{ apply NoDup_app_one.
      - apply NoDup_map_inj_in; [|exact Hnd']. intros a b Ha Hb. apply pos_in_inj; apply HLB; assumption.
      - intros Hi. apply in_map_iff in Hi. destruct Hi as (a & E & Ha). destruct (HposB a Ha). lia. }
  (* wires read off the two leg lists *)
  assert (Hwa : map (fun i => nth i (gaxes kb) 0) (seq 2 (length L) ++ [1]) = map x L ++ [o]).
  { rewrite Hkb, map_app. cbn [map nth]. f_equal.
    pose proof (nth_seq_block 0 [wj; o] (map x L) []) as H. rewrite app_nil_r, map_length in H. exact H. }
  assert (Hwb : map (fun i => nth i (gaxes bt) 0) (map (pos_in nb_b) L ++ [length nb_b]) = map x L ++ [p]).
  { rewrite Hbt, map_app. cbn [map]. f_equal.
    - rewrite map_map. apply map_ext_in. intros a Ha. destruct (pos_in_spec nb_b a (HLB a Ha)) as (_ & H1 & H2).
      rewrite app_nth1 by (rewrite map_length; exact H1).
      rewrite (nth_indep _ 0 (x 0)) by (rewrite map_length; exact H1). rewrite map_nth, H2. reflexivity.
    - f_equal. rewrite <- (map_length x nb_b). apply nth_mid. }
  rewrite Hwa, Hwb, pairs_same, pairs_diff by exact Hop.
  eexists. split; [reflexivity|]. cbn [gaxes gatoms gbnd gglue]. split; [|auto].
  (* the surviving axes *)
  rewrite Hkb, Hbt.
  rewrite (dropfrom_one 0 0 _ (wj :: o :: map x L) 0).
  2:{ cbn. lia. }
  2:{ intros i Hi. cbn [length] in Hi. rewrite map_length in Hi. cbn [Nat.add]. rewrite in_app_iff, in_seq. cbn [In]. lia. }
  rewrite (dropfrom_one 0 0 _ (map x nb_b ++ [p]) jb).
  2:{ rewrite app_length, map_length. cbn. lia. }
  2:{ intros i Hi. rewrite app_length, map_length in Hi. cbn in Hi. cbn [Nat.add]. rewrite in_app_iff. cbn [In]. split.
      - intros [H|[H|[]]]; [|lia]. apply in_map_iff in H. destruct H as (a & <- & Ha). apply HposB. exact Ha.
      - intros Hne. destruct (Nat.eq_dec i (length nb_b)) as [->|Hne2]; [right; left; reflexivity|]. left.
        assert (Hi' : i < length nb_b) by lia.
        apply in_map_iff. exists (nth i nb_b 0). split; [apply pos_in_nth; assumption|].
        apply in_mid_other with (x := next).
        + apply HinB. apply nth_In. exact Hi'.
        + intros E. apply Hne. rewrite <- (pos_in_nth nb_b i HndB Hi'). rewrite E. reflexivity. }
  cbn [nth app]. rewrite app_nth1 by (rewrite map_length; exact Hjb).
  rewrite (nth_indep _ 0 (x 0)) by (rewrite map_length; exact Hjb). rewrite map_nth, Hjbn. reflexivity.
Qed.
