(* Property C04, the semantic bridge for the orthogonality-centre shortcuts (Contr/TensorProd.v, part C):
   over the abstract commutative-semiring semantics of Wire/Sem.v, under the kernel contract
   "every tensor off the centre is an isometry from its bond toward the centre"
        SUM over the other axes of  q . conj(q)  =  delta on the two copies of the bond,
   the value of the full closed network <psi|psi> equals the value of the local diagram at the centre
   (the centre tensor against its conjugate copy over all legs).

   1. algebra: delta sums, sums over bounded assignments, moving a substitution through a sum;
   2. iso_pair_remove: ONE isometry pair is removed from a sum of products, leaving the rest with the bra-side
      bond wire renamed to the ket-side one;
   3. the tree induction (from the leaves toward the centre): block_delta, network_collapses;
   4. the instantiation with atoms (Sem.value of the two diagrams).
   Proofs only; nothing is assumed beyond the stated hypotheses. *)
From Coq Require Import List Arith Bool Lia Permutation.
From PTN Require Import TTN.Store TTN.InvProofs Wire.Sem Wire.SemProofs Contr.Blocks Contr.Closed Contr.ClosedProofs.
Import ListNotations.

Section IsoSem.
  Variable R : Type.
  Variables (zero one : R) (add mul : R -> R -> R).
  Hypothesis SR : comm_semiring zero one add mul.
  Variable dim : wire -> nat.

  Local Notation sumb := (sum_bnd R zero add dim).
  Local Notation sumu := (sum_upto R zero add).
  Local Notation indep := (indep R).
  Local Notation ext := (ext R).

  (* ---- 1. algebra -------------------------------------------------------------------------------------------- *)
  Lemma add_0_r x : add x zero = x.
  Proof. rewrite (csr_add_comm _ _ _ _ SR). apply (csr_add_0_l _ _ _ _ SR). Qed.
  Lemma mul_0_l x : mul zero x = zero.
  Proof. rewrite (csr_mul_comm _ _ _ _ SR). apply (csr_mul_0_r _ _ _ _ SR). Qed.
  Lemma mul_1_r x : mul x one = x.
  Proof. rewrite (csr_mul_comm _ _ _ _ SR). apply (csr_mul_1_l _ _ _ _ SR). Qed.

  Definition delta (i j : nat) : R := if Nat.eqb i j then one else zero.

  Lemma delta_sym i j : delta i j = delta j i.
  Proof. unfold delta. rewrite Nat.eqb_sym. reflexivity. Qed.

  (* SUM_{k<n} f k . delta j k = f j   for j < n *)
  Lemma sum_upto_delta n j f : j < n -> sumu n (fun k => mul (f k) (delta j k)) = f j.
  Proof.
    induction n as [|n IH]; intros Hj; [lia|]. cbn [sum_upto].
    destruct (Nat.eq_dec j n) as [->|Hne].
    - assert (E : sumu n (fun k => mul (f k) (delta n k)) = zero).
      { transitivity (sumu n (fun _ => zero)); [|apply (sum_upto_zero R zero one add mul SR n)].
        apply sum_upto_ext. intros k Hk. unfold delta.
        destruct (Nat.eqb_spec n k); [lia|]. apply (csr_mul_0_r _ _ _ _ SR). }
      rewrite E. unfold delta. rewrite Nat.eqb_refl, mul_1_r. apply (csr_add_0_l _ _ _ _ SR).
    - rewrite IH by lia. unfold delta at 1. destruct (Nat.eqb_spec j n); [contradiction|].
      rewrite (csr_mul_0_r _ _ _ _ SR). apply add_0_r.
  Qed.

  (* inside a sum over ws the summand is only evaluated at assignments that are within the dimensions on ws
     and agree with the outer assignment elsewhere *)
  Lemma sum_bnd_ext_dom ws F G : forall rho,
    (forall r, (forall w, In w ws -> r w < dim w) -> (forall w, ~ In w ws -> r w = rho w) -> F r = G r) ->
    sumb ws F rho = sumb ws G rho.
  Proof.
    induction ws as [|w t IH]; intros rho H; cbn [sum_bnd].
    - apply H; [intros ? []|reflexivity].
    - apply sum_upto_ext. intros k Hk. apply IH. intros r Hb Ho. apply H.
      + intros x [<-|Hx]; [|apply Hb; exact Hx].
        destruct (in_dec Nat.eq_dec w t) as [Hin|Hout]; [apply Hb; exact Hin|].
        rewrite (Ho w Hout). unfold upd. rewrite Nat.eqb_refl. exact Hk.
      + intros x Hx. assert (Hxt : ~ In x t) by (intros Hc; apply Hx; right; exact Hc).
        rewrite (Ho x Hxt). apply upd_other. intros ->. apply Hx. left. reflexivity.
  Qed.

  (* a substitution on a wire that is not summed moves through the sum *)
  Lemma sum_bnd_upd_out ws G w v : ext G -> ~ In w ws ->
    forall r, sumb ws G (upd r w v) = sumb ws (fun r' => G (upd r' w v)) r.
  Proof.
    intros HG. induction ws as [|x t IH]; intros Hw r; cbn [sum_bnd]; [reflexivity|].
    assert (Hxw : x <> w) by (intros ->; apply Hw; left; reflexivity).
    apply sum_upto_ext. intros k _. rewrite <- IH by (intros Hc; apply Hw; right; exact Hc).
    apply (sum_bnd_ext R zero add dim t G HG). intros z. apply upd_comm. apply not_eq_sym. exact Hxw.
  Qed.

  (* SUM_{b'} F . delta(b, b')  =  F[b' := b] *)
  Lemma sum_delta_elim b b' F rho : ext F -> b <> b' -> rho b < dim b' ->
    sumb [b'] (fun r => mul (F r) (delta (r b) (r b'))) rho = F (upd rho b' (rho b)).
  Proof.
    intros HF Hne Hlt. cbn [sum_bnd].
    rewrite (sum_upto_ext R zero add (dim b') _ (fun k => mul (F (upd rho b' k)) (delta (rho b) k))).
    - apply (sum_upto_delta (dim b') (rho b) (fun k => F (upd rho b' k)) Hlt).
    - intros k _. rewrite upd_same, (upd_other rho b' k b Hne). reflexivity.
  Qed.

  (* ---- dependency sets ------------------------------------------------------------------------------------------ *)
  (* F looks only at the wires in D *)
  Definition dep (F : assignment -> R) (D : list wire) : Prop :=
    forall r r', (forall w, In w D -> r w = r' w) -> F r = F r'.

  Lemma dep_ext F D : dep F D -> ext F.
  Proof. intros H r r' E. apply H. intros w _. apply E. Qed.

  Lemma dep_indep F D ws : dep F D -> (forall w, In w ws -> ~ In w D) -> indep F ws.
  Proof. intros H Hd r r' E. apply H. intros w Hw. apply E. intros Hc. apply (Hd w Hc Hw). Qed.

  Lemma dep_incl F D D' : dep F D -> incl D D' -> dep F D'.
  Proof. intros H I r r' E. apply H. intros w Hw. apply E, I, Hw. Qed.

  Lemma dep_mul F G D D' : dep F D -> dep G D' -> dep (fun r => mul (F r) (G r)) (D ++ D').
  Proof.
    intros HF HG r r' E. rewrite (HF r r'), (HG r r'); [reflexivity| |]; intros w Hw; apply E; apply in_or_app; auto.
  Qed.

  (* ---- 2. one isometry pair -------------------------------------------------------------------------------------- *)
  (* Q, Q' : the ket-side and bra-side factor as functions of the assignment; S the wires they share (summed);
     b, b' the two copies of the bond.  The contract: SUM_S Q . Q' = delta(b, b'). *)
  Definition iso_pair (Q Q' : assignment -> R) (b b' : wire) (S : list wire) : Prop :=
    forall rho, rho b < dim b -> rho b' < dim b' -> sumb S (fun r => mul (Q r) (Q' r)) rho = delta (rho b) (rho b').

  (* removing the pair: the rest F of the network (which does not touch S) is left with b' renamed to b *)
  Theorem iso_pair_remove Q Q' b b' S F rho :
    iso_pair Q Q' b b' S -> ext F -> indep F S -> b <> b' -> dim b' = dim b -> rho b < dim b ->
    sumb (b' :: S) (fun r => mul (mul (Q r) (Q' r)) (F r)) rho = F (upd rho b' (rho b)).
  Proof.
    intros Hiso HF HFS Hne Hdim Hlt.
    change (b' :: S) with ([b'] ++ S). rewrite sum_bnd_app.
    transitivity (sumb [b'] (fun r => mul (F r) (delta (r b) (r b'))) rho).
    - apply sum_bnd_ext_dom. intros r Hb Hout.
      rewrite (sum_bnd_mul_r R zero one add mul SR dim S F _ HFS r), Hiso; [apply (csr_mul_comm _ _ _ _ SR)| |].
      + rewrite Hout; [exact Hlt|]. intros [E|[]]. apply Hne. symmetry. exact E.
      + apply Hb. left. reflexivity.
    - apply sum_delta_elim; [exact HF|exact Hne|]. rewrite Hdim. exact Hlt.
  Qed.

  (* ---- 3. the tree induction ------------------------------------------------------------------------------------- *)
  (* A tree of node identifiers rooted at the centre (Closed.rt).  Node m carries a ket-side factor KA m and a bra-side
     factor KB m (functions of the wire assignment); u m / u' m are the ket / bra copies of the bond from m toward the
     centre, o m the wires the two factors share (the open legs, identified by the gluing). *)
  Variables (u u' : id -> wire) (o : id -> list wire) (KA KB : id -> assignment -> R).

  Definition cu (cs : list rt) : list wire := map (fun x => u (rid x)) cs.
  Definition cu' (cs : list rt) : list wire := map (fun x => u' (rid x)) cs.
  Lemma in_cu x cs : In x cs -> In (u (rid x)) (cu cs).
  Proof. intros H. unfold cu. apply (in_map (fun x => u (rid x))). exact H. Qed.
  Lemma in_cu' x cs : In x cs -> In (u' (rid x)) (cu' cs).
  Proof. intros H. unfold cu'. apply (in_map (fun x => u' (rid x))). exact H. Qed.

  (* the wires summed inside the subtree t (its own bond copies excluded), and the product of its factors *)
  Fixpoint wires_sub (t : rt) : list wire :=
    match t with RN n cs => o n ++ flat_map (fun x => u (rid x) :: u' (rid x) :: wires_sub x) cs end.
  Fixpoint prod_sub (t : rt) (r : assignment) : R :=
    match t with RN n cs => mul (mul (KA n r) (KB n r)) (fold_right mul one (map (fun x => prod_sub x r) cs)) end.
  Definition dsub (t : rt) : list wire := u (rid t) :: u' (rid t) :: wires_sub t.
  Definition Lw (cs : list rt) : list wire := flat_map dsub cs.
  Definition Lp (cs : list rt) (r : assignment) : R := fold_right mul one (map (fun x => prod_sub x r) cs).

  Lemma wires_sub_eq n cs : wires_sub (RN n cs) = o n ++ Lw cs.
  Proof. reflexivity. Qed.
  Lemma prod_sub_eq n cs r : prod_sub (RN n cs) r = mul (mul (KA n r) (KB n r)) (Lp cs r).
  Proof. reflexivity. Qed.

  (* the bra-side bond copies of the children renamed to the ket-side ones *)
  Definition sub (cs : list rt) (r : assignment) : assignment :=
    fun w => match find (fun x => Nat.eqb (u' (rid x)) w) cs with Some x => r (u (rid x)) | None => r w end.

  Lemma sub_out cs r w : ~ In w (cu' cs) -> sub cs r w = r w.
  Proof.
    intros H. unfold sub. destruct (find _ cs) as [x|] eqn:E; [|reflexivity]. exfalso. apply find_some in E.
    destruct E as [Hx Hw]. apply Nat.eqb_eq in Hw. apply H. rewrite <- Hw. apply in_cu'. exact Hx.
  Qed.

  (* what the factors of a node may look at; bra and ket copies of a bond have the same dimension *)
  Inductive scoped : rt -> Prop :=
  | scoped_intro n cs :
      dep (KA n) (u n :: cu cs ++ o n) -> dep (KB n) (u' n :: cu' cs ++ o n) ->
      (forall x, In x cs -> dim (u' (rid x)) = dim (u (rid x))) ->
      (forall x, In x cs -> scoped x) -> scoped (RN n cs).

  (* the kernel contract at node n with children cs: summing the shared wires (open legs and the bonds to the
     children), ket factor times bra factor is the identity on the two copies of the bond toward the centre *)
  Definition iso_node (n : id) (cs : list rt) : Prop :=
    forall rho, rho (u n) < dim (u n) -> rho (u' n) < dim (u' n) ->
      sumb (o n ++ cu cs) (fun r => mul (KA n r) (KB n (sub cs r))) rho = delta (rho (u n)) (rho (u' n)).
  Inductive isos : rt -> Prop :=
  | isos_intro n cs : iso_node n cs -> (forall x, In x cs -> isos x) -> isos (RN n cs).

  Lemma Lp_dep cs : (forall x, In x cs -> dep (prod_sub x) (dsub x)) -> dep (Lp cs) (Lw cs).
  Proof.
    induction cs as [|x r IH]; intros H; [intros ? ? _; reflexivity|]. unfold Lp, Lw. cbn [map fold_right flat_map].
    apply dep_mul; [apply H; left; reflexivity|]. apply IH. intros y Hy. apply H. right. exact Hy.
  Qed.

  Lemma prod_sub_dep t : scoped t -> dep (prod_sub t) (dsub t).
  Proof.
    induction t as [n cs IH] using rt_rect'. intros Hs. inversion Hs as [? ? HA HB _ Hc]; subst.
    assert (HL : dep (Lp cs) (Lw cs)) by (apply Lp_dep; intros x Hx; apply (IH x Hx), Hc, Hx).
    intros r r' E. rewrite !prod_sub_eq. rewrite (HA r r'), (HB r r'), (HL r r'); [reflexivity| | |].
    - intros w Hw. apply E. unfold dsub. cbn [rid]. rewrite wires_sub_eq. right. right. apply in_or_app. right. exact Hw.
    - intros w Hw. apply E. unfold dsub. cbn [rid]. rewrite wires_sub_eq. destruct Hw as [<-|Hw]; [right; left; reflexivity|].
      right. right. apply in_app_or in Hw. destruct Hw as [Hw|Hw]; apply in_or_app; [right|left; exact Hw].
      unfold cu' in Hw. apply in_map_iff in Hw. destruct Hw as (x & <- & Hx). unfold Lw. apply in_flat_map. exists x. split; [exact Hx|].
      unfold dsub. right. left. reflexivity.
    - intros w Hw. apply E. unfold dsub. cbn [rid]. rewrite wires_sub_eq. destruct Hw as [<-|Hw]; [left; reflexivity|].
      right. right. apply in_app_or in Hw. destruct Hw as [Hw|Hw]; apply in_or_app; [right|left; exact Hw].
      unfold cu in Hw. apply in_map_iff in Hw. destruct Hw as (x & <- & Hx). unfold Lw. apply in_flat_map. exists x. split; [exact Hx|].
      unfold dsub. left. reflexivity.
  Qed.

  Lemma cu_in_Lw cs w : In w (cu cs) -> In w (Lw cs).
  Proof.
    unfold cu. intros H. apply in_map_iff in H. destruct H as (x & <- & Hx). apply in_flat_map. exists x. split; [exact Hx|left; reflexivity].
  Qed.
  Lemma cu'_in_Lw cs w : In w (cu' cs) -> In w (Lw cs).
  Proof.
    unfold cu'. intros H. apply in_map_iff in H. destruct H as (x & <- & Hx). apply in_flat_map. exists x. split; [exact Hx|right; left; reflexivity].
  Qed.

  Definition block (x : rt) : Prop :=
    forall rho, rho (u (rid x)) < dim (u (rid x)) -> rho (u' (rid x)) < dim (u' (rid x)) ->
      sumb (wires_sub x) (prod_sub x) rho = delta (rho (u (rid x))) (rho (u' (rid x))).

  (* the children's subtrees collapse to deltas, which rename the bra-side bond copies in the rest F *)
  Lemma collapse_children : forall cs D F,
    dep F (D ++ cu cs ++ cu' cs) -> NoDup (D ++ Lw cs) ->
    (forall x, In x cs -> scoped x /\ block x /\ dim (u' (rid x)) = dim (u (rid x))) ->
    forall rho, sumb (Lw cs) (fun r => mul (F r) (Lp cs r)) rho = sumb (cu cs) (fun r => F (sub cs r)) rho.
  Proof.
    induction cs as [|x rest IH]; intros D F HF Hnd Hx rho.
    - cbn. rewrite mul_1_r. apply (dep_ext F _ HF). intros w. reflexivity.
    - destruct (Hx x (or_introl eq_refl)) as (Sx & Bx & Dx).
      set (a := u (rid x)) in *. set (a' := u' (rid x)) in *.
      assert (HLw : Lw (x :: rest) = a :: a' :: wires_sub x ++ Lw rest) by reflexivity.
      rewrite HLw in Hnd |- *.
      (* disjointness facts *)
      assert (Hnd2 : NoDup ((D ++ [a; a']) ++ Lw rest)).
      { rewrite <- app_assoc. cbn [app].
        apply NoDup_app_iff in Hnd. destruct Hnd as (N1 & N2 & N3).
        apply NoDup_app_iff. split; [exact N1|]. split.
        - inversion N2 as [|? ? Q1 N2']; subst. inversion N2' as [|? ? Q2 N2'']; subst. apply NoDup_app_iff in N2''.
          destruct N2'' as (_ & N5 & _). constructor; [|constructor; [|exact N5]].
          + intros [E|Hin]; [apply Q1; left; exact E|]. apply Q1. right. apply in_or_app. right. exact Hin.
          + intros Hin. apply Q2. apply in_or_app. right. exact Hin.
        - intros w Hw Hin. apply (N3 w Hw). destruct Hin as [<-|[<-|Hin]]; [left; reflexivity|right; left; reflexivity|].
          right. right. apply in_or_app. right. exact Hin. }
      apply NoDup_app_iff in Hnd. destruct Hnd as (ND & NL & Ndisj).
      inversion NL as [|? ? Qa NL']; subst. inversion NL' as [|? ? Qa' NL'']; subst.
      apply NoDup_app_iff in NL''. destruct NL'' as (NWx & NLr & NWL).
      assert (Haa' : a <> a') by (intros E; apply Qa; left; symmetry; exact E).
      (* the sum over the rest of the children, as a function *)
      set (Lr := fun r => sumb (Lw rest) (fun r0 => mul (F r0) (Lp rest r0)) r).
      assert (HPx : dep (prod_sub x) (dsub x)) by (apply prod_sub_dep; exact Sx).
      assert (HLp : dep (Lp rest) (Lw rest)).
      { apply Lp_dep. intros y Hy. apply prod_sub_dep. apply (Hx y (or_intror Hy)). }
      assert (HPx_ind : indep (prod_sub x) (Lw rest)).
      { apply (dep_indep _ _ _ HPx). intros w Hw Hin. unfold dsub in Hin. fold a a' in Hin.
        destruct Hin as [<-|[<-|Hin]].
        - apply Qa. right. apply in_or_app. right. exact Hw.
        - apply Qa'. apply in_or_app. right. exact Hw.
        - apply (NWL w Hin Hw). }
      assert (HFLp_ind : indep (fun r0 => mul (F r0) (Lp rest r0)) (wires_sub x)).
      { apply (dep_indep _ _ _ (dep_mul _ _ _ _ HF HLp)). intros w Hw Hin. apply in_app_or in Hin. destruct Hin as [Hin|Hin].
        - apply in_app_or in Hin. destruct Hin as [Hin|Hin].
          + apply (Ndisj w Hin). right. right. apply in_or_app. left. exact Hw.
          + assert (Hin' : In w (Lw (x :: rest))).
            { apply in_app_or in Hin. destruct Hin; [apply cu_in_Lw|apply cu'_in_Lw]; assumption. }
            rewrite HLw in Hin'. destruct Hin' as [<-|[<-|Hin']].
            * apply Qa. right. apply in_or_app. left. exact Hw.
            * apply Qa'. apply in_or_app. left. exact Hw.
            * apply in_app_or in Hin'. destruct Hin' as [Hin'|Hin']; [|apply (NWL w Hw Hin')].
              (* w in wires_sub x and also in cu/cu' of the list: it is then a or a' or in Lw rest *)
              unfold cu, cu' in Hin. cbn [map] in Hin. fold a a' in Hin.
              apply in_app_or in Hin. destruct Hin as [[<-|Hin]|[<-|Hin]].
              -- apply Qa. right. apply in_or_app. left. exact Hw.
              -- apply (NWL w Hw). apply cu_in_Lw. exact Hin.
              -- apply Qa'. apply in_or_app. left. exact Hw.
              -- apply (NWL w Hw). apply cu'_in_Lw. exact Hin.
        - apply (NWL w Hw Hin). }
      assert (HLr_ind : indep Lr (wires_sub x)) by (apply sum_bnd_indep; exact HFLp_ind).
      assert (HLr_ext : ext Lr).
      { apply sum_bnd_ext. apply (dep_ext _ _ (dep_mul _ _ _ _ HF HLp)). }
      (* step 1: split the sums and pull the subtree of x out *)
      change (a :: a' :: wires_sub x ++ Lw rest) with ([a] ++ [a'] ++ (wires_sub x ++ Lw rest)).
      rewrite sum_bnd_app.
      assert (Einner : forall r2, r2 a < dim a -> r2 a' < dim a' ->
                                  sumb (wires_sub x ++ Lw rest) (fun r0 => mul (F r0) (Lp (x :: rest) r0)) r2
                                  = mul (Lr r2) (delta (r2 a) (r2 a'))).
      { intros r2 Hba Hba'. rewrite sum_bnd_app. rewrite (sum_bnd_ext_F R zero add dim (wires_sub x) _ (fun r => mul (Lr r) (prod_sub x r))).
        - rewrite (sum_bnd_mul_l R zero one add mul SR dim (wires_sub x) Lr (prod_sub x) HLr_ind r2). rewrite (Bx r2 Hba Hba'). reflexivity.
        - intros r1. unfold Lr. rewrite <- (sum_bnd_mul_r R zero one add mul SR dim (Lw rest) (prod_sub x) _ HPx_ind r1).
          apply sum_bnd_ext_F. intros r0. unfold Lp. cbn [map fold_right].
          rewrite (csr_mul_comm _ _ _ _ SR (prod_sub x r0)), (csr_mul_assoc _ _ _ _ SR). reflexivity. }
      assert (Ha'_cu : ~ In a' (cu rest)) by (intros Hc; apply Qa'; apply in_or_app; right; apply cu_in_Lw; exact Hc).
      assert (Ha'_cu' : ~ In a' (cu' rest)) by (intros Hc; apply Qa'; apply in_or_app; right; apply cu'_in_Lw; exact Hc).
      assert (Ha_cu : ~ In a (cu rest)) by (intros Hc; apply Qa; right; apply in_or_app; right; apply cu_in_Lw; exact Hc).
      (* step 2: the delta renames a' to a in the rest *)
      transitivity (sumb [a] (fun r3 => Lr (upd r3 a' (r3 a))) rho).
      { apply sum_bnd_ext_dom. intros r3 Hb _. rewrite sum_bnd_app.
        assert (Hr3a : r3 a < dim a) by (apply Hb; left; reflexivity).
        transitivity (sumb [a'] (fun r2 => mul (Lr r2) (delta (r2 a) (r2 a'))) r3).
        - apply sum_bnd_ext_dom. intros r2 Hb2 Hout2. apply Einner; [|apply Hb2; left; reflexivity].
          rewrite Hout2; [exact Hr3a|]. intros [E|[]]. apply Haa'. symmetry. exact E.
        - apply sum_delta_elim; [exact HLr_ext|exact Haa'|]. fold a a' in Dx. rewrite Dx. exact Hr3a. }
      (* step 3: the induction hypothesis for the remaining children *)
      assert (HIH : forall r, Lr r = sumb (cu rest) (fun r' => F (sub rest r')) r).
      { intros r. unfold Lr. apply (IH (D ++ [a; a']) F).
        - apply (dep_incl _ _ _ HF). intros w Hw. apply in_app_or in Hw. destruct Hw as [Hw|Hw].
          + apply in_or_app. left. apply in_or_app. left. exact Hw.
          + unfold cu, cu' in Hw. cbn [map] in Hw. fold a a' in Hw. fold (cu rest) (cu' rest) in Hw.
            apply in_app_or in Hw. destruct Hw as [[<-|Hw]|[<-|Hw]].
            * apply in_or_app. left. apply in_or_app. right. left. reflexivity.
            * apply in_or_app. right. apply in_or_app. left. exact Hw.
            * apply in_or_app. left. apply in_or_app. right. right. left. reflexivity.
            * apply in_or_app. right. apply in_or_app. right. exact Hw.
        - exact Hnd2.
        - intros y Hy. apply Hx. right. exact Hy. }
      assert (HG_ext : ext (fun r' => F (sub rest r'))).
      { intros r r' E. apply (dep_ext F _ HF). intros w. unfold sub. destruct (find _ rest); apply E. }
      cbn [cu map]. fold a. fold (cu rest). change (a :: cu rest) with ([a] ++ cu rest). rewrite sum_bnd_app.
      apply sum_bnd_ext_F. intros r3. rewrite HIH.
      etransitivity; [apply (sum_bnd_upd_out (cu rest) (fun r' => F (sub rest r')) a' (r3 a) HG_ext Ha'_cu r3)|].
      apply sum_bnd_ext_dom. intros r' _ Hout. apply (dep_ext F _ HF). intros w.
      rewrite <- (Hout a Ha_cu). 
      (* pointwise: renaming a' after the substitution for the rest = the substitution for x :: rest *)
      unfold sub. cbn [find]. fold a'. destruct (Nat.eqb_spec a' w) as [<-|Hne].
      + destruct (find (fun x0 => Nat.eqb (u' (rid x0)) a') rest) as [y|] eqn:Ey.
        * exfalso. apply find_some in Ey. destruct Ey as [Hy Hw]. apply Nat.eqb_eq in Hw. apply Ha'_cu'. rewrite <- Hw.
          apply in_cu'. exact Hy.
        * apply upd_same.
      + destruct (find (fun x0 => Nat.eqb (u' (rid x0)) w) rest) as [y|] eqn:Ey.
        * apply upd_other. intros Hc. apply find_some in Ey. destruct Ey as [Hy _]. apply Ha'_cu. rewrite <- Hc.
          apply in_cu. exact Hy.
        * apply upd_other. intros Hc. apply Hne. symmetry. exact Hc.
  Qed.

  Lemma cu_cu'_disjoint : forall cs, NoDup (Lw cs) -> forall w, In w (cu cs) -> In w (cu' cs) -> False.
  Proof.
    induction cs as [|x rest IH]; intros Hnd w H1 H2; [destruct H1|].
    change (Lw (x :: rest)) with (u (rid x) :: u' (rid x) :: wires_sub x ++ Lw rest) in Hnd.
    inversion Hnd as [|? ? Qa N1]; subst. inversion N1 as [|? ? Qa' N2]; subst. apply NoDup_app_iff in N2. destruct N2 as (_ & N3 & _).
    cbn [cu cu' map] in H1, H2. fold (cu rest) in H1. fold (cu' rest) in H2.
    destruct H1 as [<-|H1]; destruct H2 as [E|H2].
    - apply Qa. left. exact E.
    - apply Qa. right. apply in_or_app. right. apply cu'_in_Lw. exact H2.
    - subst w. apply Qa'. apply in_or_app. right. apply cu_in_Lw. exact H1.
    - apply (IH N3 w H1 H2).
  Qed.

  Lemma dsub_child_nodup cs : NoDup (Lw cs) -> forall x, In x cs -> NoDup (dsub x).
  Proof.
    induction cs as [|y rest IH]; intros Hnd x Hx; [destruct Hx|]. unfold Lw in Hnd. cbn [flat_map] in Hnd.
    apply NoDup_app_iff in Hnd. destruct Hnd as (N1 & N2 & _). destruct Hx as [<-|Hx]; [exact N1|apply (IH N2 x Hx)].
  Qed.

  (* one node: the subtrees of the children collapse, leaving the node's two factors with the bra-side child bonds
     renamed to the ket-side ones, summed over the node's shared wires and the (ket-side) child bonds *)
  Lemma node_collapse n cs : scoped (RN n cs) -> NoDup (dsub (RN n cs)) -> (forall x, In x cs -> block x) ->
    forall rho, sumb (wires_sub (RN n cs)) (prod_sub (RN n cs)) rho
                = sumb (o n ++ cu cs) (fun r => mul (KA n r) (KB n (sub cs r))) rho.
  Proof.
    intros Hs Hnd Hb rho. inversion Hs as [? ? HA HB Hdim Hc]; subst.
    unfold dsub in Hnd. cbn [rid] in Hnd. rewrite wires_sub_eq in Hnd.
    change (u n :: u' n :: o n ++ Lw cs) with ((u n :: u' n :: o n) ++ Lw cs) in Hnd.
    rewrite wires_sub_eq, !sum_bnd_app. apply sum_bnd_ext_F. intros r0.
    set (F := fun r => mul (KA n r) (KB n r)).
    change (sumb (Lw cs) (prod_sub (RN n cs)) r0) with (sumb (Lw cs) (fun r => mul (F r) (Lp cs r)) r0).
    rewrite (collapse_children cs (u n :: u' n :: o n) F).
    - apply sum_bnd_ext_F. intros r. unfold F. f_equal. apply HA. intros w Hw. apply sub_out. intros Hw'.
      apply NoDup_app_iff in Hnd. destruct Hnd as (N1 & N2 & N3).
      destruct Hw as [<-|Hw]; [apply (N3 (u n)); [left; reflexivity|apply cu'_in_Lw; exact Hw']|].
      apply in_app_or in Hw. destruct Hw as [Hw|Hw].
      + apply (cu_cu'_disjoint cs N2 w Hw Hw').
      + apply (N3 w); [right; right; exact Hw|apply cu'_in_Lw; exact Hw'].
    - apply (dep_incl _ _ _ (dep_mul _ _ _ _ HA HB)). intros w Hw. apply in_app_or in Hw. destruct Hw as [Hw|Hw].
      + destruct Hw as [<-|Hw]; [left; reflexivity|]. apply in_app_or in Hw. destruct Hw as [Hw|Hw].
        * apply in_or_app. right. apply in_or_app. left. exact Hw.
        * right. right. apply in_or_app. left. exact Hw.
      + destruct Hw as [<-|Hw]; [right; left; reflexivity|]. apply in_app_or in Hw. destruct Hw as [Hw|Hw].
        * apply in_or_app. right. apply in_or_app. right. exact Hw.
        * right. right. apply in_or_app. left. exact Hw.
    - exact Hnd.
    - intros x Hx. split; [apply Hc; exact Hx|]. split; [apply Hb; exact Hx|apply Hdim; exact Hx].
  Qed.

  (* from the leaves toward the centre: the closed block of a subtree all of whose tensors are isometries toward the
     centre is the identity on the two copies of its bond *)
  Theorem block_delta t : scoped t -> NoDup (dsub t) -> isos t -> block t.
  Proof.
    induction t as [n cs IH] using rt_rect'. intros Hs Hnd Hi rho Hb1 Hb2. cbn [rid] in Hb1, Hb2.
    inversion Hs as [? ? HA HB Hdim Hc]; subst. inversion Hi as [? ? Hiso Hic]; subst.
    assert (HndL : NoDup (Lw cs)).
    { unfold dsub in Hnd. cbn [rid] in Hnd. rewrite wires_sub_eq in Hnd. inversion Hnd as [|? ? _ N1]; subst.
      inversion N1 as [|? ? _ N2]; subst. apply NoDup_app_iff in N2. apply N2. }
    rewrite (node_collapse n cs Hs Hnd).
    - apply Hiso; assumption.
    - intros x Hx. apply (IH x Hx); [apply Hc; exact Hx|apply (dsub_child_nodup cs HndL x Hx)|apply Hic; exact Hx].
  Qed.

  (* the whole network around the centre n: if every tensor off the centre is an isometry toward it, the value of the
     closed network <psi|psi> is the local contraction of the centre's two factors over all their legs *)
  Theorem network_collapses n cs : scoped (RN n cs) -> NoDup (dsub (RN n cs)) -> (forall x, In x cs -> isos x) ->
    forall rho, sumb (wires_sub (RN n cs)) (prod_sub (RN n cs)) rho
                = sumb (o n ++ cu cs) (fun r => mul (KA n r) (KB n (sub cs r))) rho.
  Proof.
    intros Hs Hnd Hi rho. inversion Hs as [? ? HA HB Hdim Hc]; subst.
    assert (HndL : NoDup (Lw cs)).
    { unfold dsub in Hnd. cbn [rid] in Hnd. rewrite wires_sub_eq in Hnd. inversion Hnd as [|? ? _ N1]; subst.
      inversion N1 as [|? ? _ N2]; subst. apply NoDup_app_iff in N2. apply N2. }
    apply (node_collapse n cs Hs Hnd). intros x Hx.
    apply (block_delta x); [apply Hc; exact Hx|apply (dsub_child_nodup cs HndL x Hx)|apply Hi; exact Hx].
  Qed.
End IsoSem.

(* ---- 4. atoms: the two diagrams in the semantics of Wire/Sem.v ------------------------------------------------------- *)
Section IsoAtoms.
  Variable R : Type.
  Variables (zero one : R) (add mul : R -> R -> R).
  Hypothesis SR : comm_semiring zero one add mul.
  Variable wires_of : nat -> list wire.
  Variable dim : wire -> nat.
  Variable tbl : nat -> list nat -> R.
  (* the tree around the centre: bond copies, open wires, and the ket / bra atom of every node *)
  Variables (u u' : id -> wire) (o : id -> list wire) (ka kb : id -> nat).

  Local Notation sumb := (sum_bnd R zero add dim).
  Local Notation aval := (atom_val R wires_of tbl).
  Local Notation KA := (fun (m : id) (r : assignment) => aval r (ka m)).
  Local Notation KB := (fun (m : id) (r : assignment) => aval r (kb m)).
  Local Notation cu := (cu u).
  Local Notation cu' := (cu' u').
  Local Notation sub := (sub u u').
  Local Notation dsub := (dsub u u' o).
  Local Notation Lw := (Lw u u' o).
  Local Notation wires_sub := (wires_sub u u' o).

  (* the conjugate copy of a node's atom sits on the same wires with every bond wire replaced by its bra copy *)
  Definition ren (n : id) (cs : list rt) (w : wire) : wire :=
    if Nat.eqb w (u n) then u' n
    else match find (fun x => Nat.eqb (u (rid x)) w) cs with Some x => u' (rid x) | None => w end.

  Inductive atoms_ok : rt -> Prop :=
  | atoms_ok_intro n cs :
      incl (wires_of (ka n)) (u n :: cu cs ++ o n) ->
      wires_of (kb n) = map (ren n cs) (wires_of (ka n)) ->
      (forall x, In x cs -> dim (u' (rid x)) = dim (u (rid x))) ->
      (forall x, In x cs -> atoms_ok x) -> atoms_ok (RN n cs).

  (* THE KERNEL CONTRACT, on the atom table: q is an isometry from its bond b -- summing over the wires S of its other
     axes, q times its conjugate twin q' (read at the same indices except i' on the bond axis) is delta(bond index, i') *)
  Definition iso_atom (q q' : nat) (b b' : wire) (S : list wire) : Prop :=
    forall rho i', rho b < dim b -> i' < dim b' ->
      sumb S (fun r => mul (tbl q (map r (wires_of q))) (tbl q' (map (upd r b i') (wires_of q)))) rho
      = delta R zero one (rho b) i'.
  Inductive atoms_iso : rt -> Prop :=
  | atoms_iso_intro n cs : iso_atom (ka n) (kb n) (u n) (u' n) (o n ++ cu cs) -> (forall x, In x cs -> atoms_iso x) -> atoms_iso (RN n cs).

  Fixpoint atoms_sub (t : rt) : list nat := match t with RN n cs => ka n :: kb n :: flat_map atoms_sub cs end.
  (* the closed network <psi|psi> around the centre, open legs glued *)
  Definition full_diagram (t : rt) : sarr := {| axes := []; atoms := atoms_sub t; bnd := wires_sub t |}.

  Lemma sub_at_child r : forall cs, NoDup (cu' cs) -> forall x, In x cs -> sub cs r (u' (rid x)) = r (u (rid x)).
  Proof.
    induction cs as [|y rest IH]; intros Hnd x Hx; [destruct Hx|]. unfold TensorProdSem.sub. cbn [find].
    unfold TensorProdSem.cu' in Hnd. cbn [map] in Hnd. inversion Hnd as [|? ? Hni Hnd']; subst.
    destruct (Nat.eqb_spec (u' (rid y)) (u' (rid x))) as [E|Hne].
    - destruct Hx as [->|Hx]; [reflexivity|]. exfalso. apply Hni. rewrite E. apply (in_map (fun x0 => u' (rid x0))). exact Hx.
    - destruct Hx as [->|Hx]; [congruence|]. apply (IH Hnd' x Hx).
  Qed.

  (* reading the bra atom of (n, cs) after the children's bra bonds were renamed = reading it on the ket's wires with
     the bond toward the centre at the bra copy's index *)
  Lemma bra_read n cs r : NoDup (dsub (RN n cs)) -> incl (wires_of (ka n)) (u n :: cu cs ++ o n) ->
    map (sub cs r) (map (ren n cs) (wires_of (ka n))) = map (upd r (u n) (r (u' n))) (wires_of (ka n)).
  Proof.
    intros Hnd Hin. rewrite map_map. apply map_ext_in. intros w Hw. apply Hin in Hw.
    unfold TensorProdSem.dsub in Hnd. cbn [rid] in Hnd. rewrite wires_sub_eq in Hnd.
    inversion Hnd as [|? ? Qu N1]; subst. inversion N1 as [|? ? Qu' N2]; subst. apply NoDup_app_iff in N2. destruct N2 as (No & NL & NoL).
    assert (Hcu'nd : NoDup (cu' cs)).
    { clear - NL. induction cs as [|x rest IH]; [constructor|].
      change (Lw (x :: rest)) with (u (rid x) :: u' (rid x) :: wires_sub x ++ Lw rest) in NL.
      inversion NL as [|? ? _ N1]; subst. inversion N1 as [|? ? Q N2]; subst. apply NoDup_app_iff in N2. destruct N2 as (_ & N3 & _).
      unfold TensorProdSem.cu'. cbn [map]. constructor; [|apply IH; exact N3].
      intros Hc. apply Q. apply in_or_app. right. apply (cu'_in_Lw u u' o). exact Hc. }
    unfold ren. destruct (Nat.eqb_spec w (u n)) as [->|Hwn].
    - rewrite upd_same. apply sub_out. intros Hc. apply Qu'. apply in_or_app. right. apply (cu'_in_Lw u u' o). exact Hc.
    - rewrite (upd_other r (u n) _ w Hwn). destruct (find (fun x => Nat.eqb (u (rid x)) w) cs) as [x|] eqn:Ef.
      + apply find_some in Ef. destruct Ef as [Hx Ew]. apply Nat.eqb_eq in Ew. rewrite <- Ew. apply (sub_at_child r cs Hcu'nd x Hx).
      + apply sub_out. intros Hc. destruct Hw as [Hw|Hw]; [congruence|]. apply in_app_or in Hw. destruct Hw as [Hw|Hw].
        * unfold TensorProdSem.cu in Hw. apply in_map_iff in Hw. destruct Hw as (x & Ex & Hx).
          pose proof (find_none _ _ Ef x Hx) as Hf. cbn in Hf. rewrite Ex, Nat.eqb_refl in Hf. discriminate.
        * apply (NoL w Hw). apply (cu'_in_Lw u u' o). exact Hc.
  Qed.

  Lemma atoms_scoped t : atoms_ok t -> scoped R dim u u' o KA KB t.
  Proof.
    induction t as [n cs IH] using rt_rect'. intros H. inversion H as [? ? Hin Hb Hd Hc]; subst. constructor.
    - intros r r' E. apply atom_val_agree. intros w Hw. apply E. apply Hin. exact Hw.
    - intros r r' E. apply atom_val_agree. intros w Hw. apply E. rewrite Hb in Hw. apply in_map_iff in Hw.
      destruct Hw as (w0 & <- & Hw0). apply Hin in Hw0. unfold ren. destruct (Nat.eqb_spec w0 (u n)); [left; reflexivity|].
      right. destruct (find (fun x => Nat.eqb (u (rid x)) w0) cs) as [x|] eqn:Ef.
      + apply find_some in Ef. apply in_or_app. left. apply (in_cu' u'). apply Ef.
      + destruct Hw0 as [Hw0|Hw0]; [congruence|]. apply in_app_or in Hw0. destruct Hw0 as [Hw0|Hw0]; [|apply in_or_app; right; exact Hw0].
        exfalso. unfold TensorProdSem.cu in Hw0. apply in_map_iff in Hw0. destruct Hw0 as (x & Ex & Hx).
        pose proof (find_none _ _ Ef x Hx) as Hf. cbn in Hf. rewrite Ex, Nat.eqb_refl in Hf. discriminate.
    - exact Hd.
    - intros x Hx. apply (IH x Hx). apply Hc. exact Hx.
  Qed.

  Lemma atoms_isos t : atoms_ok t -> NoDup (dsub t) -> atoms_iso t -> isos R zero one add mul dim u u' o KA KB t.
  Proof.
    induction t as [n cs IH] using rt_rect'. intros Hok Hnd Hi.
    inversion Hok as [? ? Hin Hb Hd Hc]; subst. inversion Hi as [? ? Hiso Hic]; subst.
    assert (HndL : NoDup (Lw cs)).
    { unfold TensorProdSem.dsub in Hnd. cbn [rid] in Hnd. rewrite wires_sub_eq in Hnd. inversion Hnd as [|? ? _ N1]; subst.
      inversion N1 as [|? ? _ N2]; subst. apply NoDup_app_iff in N2. apply N2. }
    constructor.
    - intros rho Hb1 Hb2. rewrite <- (Hiso rho (rho (u' n)) Hb1 Hb2). apply sum_bnd_ext_dom. intros r _ Hout.
      f_equal. unfold atom_val. rewrite Hb, (bra_read n cs r Hnd Hin). f_equal. f_equal. f_equal.
      apply Hout. intros Hc'. unfold TensorProdSem.dsub in Hnd. cbn [rid] in Hnd. rewrite wires_sub_eq in Hnd.
      inversion Hnd as [|? ? _ N1]; subst. inversion N1 as [|? ? Qu' _]; subst. apply Qu'.
      apply in_app_or in Hc'. apply in_or_app. destruct Hc' as [Hc'|Hc']; [left; exact Hc'|right; apply (cu_in_Lw u u' o); exact Hc'].
    - intros x Hx. apply (IH x Hx); [apply Hc; exact Hx|apply (dsub_child_nodup u u' o cs HndL x Hx)|apply Hic; exact Hx].
  Qed.

  Lemma prod_sub_atoms t r : prod_sub R one mul KA KB t r = atoms_val R one mul wires_of tbl (atoms_sub t) r.
  Proof.
    induction t as [n cs IH] using rt_rect'. cbn [TensorProdSem.prod_sub atoms_sub]. unfold atoms_val. cbn [prod_over].
    rewrite <- (csr_mul_assoc _ _ _ _ SR). f_equal. f_equal.
    induction cs as [|x rest IHr]; [reflexivity|]. cbn [map fold_right flat_map].
    rewrite (prod_over_app R zero one add mul SR). rewrite (IH x (or_introl eq_refl)). unfold atoms_val. f_equal.
    apply IHr. intros c Hc. apply IH. right. exact Hc.
  Qed.

  (* If the kernel contract holds at every tensor off the centre (each is an isometry from its bond toward the centre),
     the value of the closed network <psi|psi> is the value of the local diagram at the centre: the centre atom against
     its conjugate twin read at the same indices, summed over all the centre's legs (open legs and bonds). *)
  Theorem canonical_norm_is_local n cs :
    atoms_ok (RN n cs) -> NoDup (dsub (RN n cs)) -> ~ In (u n) (wires_of (ka n)) ->
    (forall x, In x cs -> atoms_iso x) ->
    forall rho,
      value R zero one add mul wires_of dim tbl (full_diagram (RN n cs)) rho
      = sumb (o n ++ cu cs) (fun r => mul (tbl (ka n) (map r (wires_of (ka n)))) (tbl (kb n) (map r (wires_of (ka n))))) rho.
  Proof.
    intros Hok Hnd Hun Hi rho. inversion Hok as [? ? Hin Hb Hd Hc]; subst.
    assert (HndL : NoDup (Lw cs)).
    { unfold TensorProdSem.dsub in Hnd. cbn [rid] in Hnd. rewrite wires_sub_eq in Hnd. inversion Hnd as [|? ? _ N1]; subst.
      inversion N1 as [|? ? _ N2]; subst. apply NoDup_app_iff in N2. apply N2. }
    unfold value, full_diagram. cbn [atoms bnd].
    rewrite (sum_bnd_ext_F R zero add dim _ _ (prod_sub R one mul KA KB (RN n cs))) by (intros r; symmetry; apply prod_sub_atoms).
    rewrite (network_collapses R zero one add mul SR dim u u' o KA KB n cs (atoms_scoped _ Hok) Hnd).
    - apply sum_bnd_ext_F. intros r. f_equal. unfold atom_val. rewrite Hb, (bra_read n cs r Hnd Hin). f_equal.
      apply map_ext_in. intros w Hw. apply upd_other. intros ->. contradiction.
    - intros x Hx. apply atoms_isos; [apply Hc; exact Hx|apply (dsub_child_nodup u u' o cs HndL x Hx)|apply Hi; exact Hx].
  Qed.
End IsoAtoms.

(* ---- non-vacuity: a two-node state (centre 0, leaf 1 whose tensor is the identity matrix, an isometry) over Z ---------- *)
From Coq Require Import ZArith.
From PTN Require Import Wire.SemInst.
Section IsoExample.
  Definition ex_u (m : id) : wire := match m with 1 => 10 | _ => 0 end.
  Definition ex_u' (m : id) : wire := match m with 1 => 11 | _ => 1 end.
  Definition ex_o (m : id) : list wire := match m with 0 => [20] | _ => [21] end.
  Definition ex_ka (m : id) : nat := m.
  Definition ex_kb (m : id) : nat := 2 + m.
  Definition ex_wires (a : nat) : list wire :=
    match a with 0 => [10; 20] | 1 => [10; 21] | 2 => [11; 20] | 3 => [11; 21] | _ => [] end.
  Definition ex_dim (w : wire) : nat := 2.
  Definition ex_tblZ (a : nat) (idx : list nat) : Z :=
    match a, idx with
    | 1, [i; j] | 3, [i; j] => if Nat.eqb i j then 1%Z else 0%Z
    | _, [i; j] => Z.of_nat (3 * i + j + 1)
    | _, _ => 0%Z
    end.
  Definition ex_tree : rt := RN 0 [RN 1 []].

  Example ex_iso_hypotheses :
    atoms_ok ex_wires ex_dim ex_u ex_u' ex_o ex_ka ex_kb ex_tree /\
    NoDup (dsub ex_u ex_u' ex_o ex_tree) /\ ~ In (ex_u 0) (ex_wires (ex_ka 0)) /\
    atoms_iso Z 0%Z 1%Z Z.add Z.mul ex_wires ex_dim ex_tblZ ex_u ex_u' ex_o ex_ka ex_kb (RN 1 []).
  Proof.
    split; [|split; [|split]].
    - constructor.
      + intros w Hw. cbn in Hw |- *. tauto.
      + reflexivity.
      + intros x [<-|[]]. reflexivity.
      + intros x [<-|[]]. constructor.
        * intros w Hw. cbn in Hw |- *. tauto.
        * reflexivity.
        * intros x [].
        * intros x [].
    - cbn. repeat constructor; cbn; intuition congruence.
    - cbn. intuition congruence.
    - constructor; [|intros x []]. intros rho i' Hb Hi. unfold ex_dim in *. cbn in Hb, Hi |- *. unfold upd, delta. cbn.
      destruct (rho 10) as [|[|n]]; destruct i' as [|[|m]]; try lia; reflexivity.
  Qed.

  (* the theorem on the example, and both sides computed: <psi|psi> = 1 + 4 + 16 + 25 = 46 *)
  Example ex_iso_instance : forall rho,
    value Z 0%Z 1%Z Z.add Z.mul ex_wires ex_dim ex_tblZ (full_diagram ex_u ex_u' ex_o ex_ka ex_kb ex_tree) rho
    = sum_bnd Z 0%Z Z.add ex_dim [20; 10]
        (fun r => (ex_tblZ 0 (map r (ex_wires 0)) * ex_tblZ 2 (map r (ex_wires 0)))%Z) rho.
  Proof.
    intros rho. destruct ex_iso_hypotheses as (H1 & H2 & H3 & H4).
    apply (canonical_norm_is_local Z 0%Z 1%Z Z.add Z.mul Z_csr ex_wires ex_dim ex_tblZ ex_u ex_u' ex_o ex_ka ex_kb 0 [RN 1 []] H1 H2 H3).
    intros x [<-|[]]. exact H4.
  Qed.
  Example ex_iso_value :
    value Z 0%Z 1%Z Z.add Z.mul ex_wires ex_dim ex_tblZ (full_diagram ex_u ex_u' ex_o ex_ka ex_kb ex_tree) (fun _ => 0) = 46%Z.
  Proof. vm_compute. reflexivity. Qed.
End IsoExample.
