From Coq Require Import List Arith Bool Lia Permutation.
From PTN Require Import TTN.Store Contr.Blocks.
Import ListNotations.

(* ---- TTNO.as_matrix: evens ++ odds --------------------------------------------------------------- *)
Lemma as_matrix_perm_length n : length (as_matrix_perm n) = 2 * n.
Proof. unfold as_matrix_perm. rewrite app_length, !map_length, seq_length. lia. Qed.

(* rows: the j-th row leg is the output leg (first open leg) of the j-th contracted node;
   columns: the j-th column leg is its input leg *)
Lemma as_matrix_perm_rows n j : j < n -> nth j (as_matrix_perm n) 0 = 2 * j.
Proof.
  intros H. unfold as_matrix_perm. rewrite app_nth1 by (rewrite map_length, seq_length; exact H).
  rewrite (nth_indep _ 0 (2 * 0)) by (rewrite map_length, seq_length; exact H).
  rewrite (map_nth (fun k => 2 * k)). rewrite seq_nth by exact H. reflexivity.
Qed.
Lemma as_matrix_perm_cols n j : j < n -> nth (n + j) (as_matrix_perm n) 0 = 2 * j + 1.
Proof.
  intros H. unfold as_matrix_perm. rewrite app_nth2 by (rewrite map_length, seq_length; lia).
  rewrite map_length, seq_length. replace (n + j - n) with j by lia.
  rewrite (nth_indep _ 0 (2 * 0 + 1)) by (rewrite map_length, seq_length; exact H).
  rewrite (map_nth (fun k => 2 * k + 1)). rewrite seq_nth by exact H. reflexivity.
Qed.

Lemma perm_shuffle {A} (l1 l2 : list A) x y : Permutation ((l1 ++ [x]) ++ (l2 ++ [y])) ((l1 ++ l2) ++ [x; y]).
Proof. rewrite <- !app_assoc. apply Permutation_app_head. cbn. apply Permutation_middle. Qed.

Lemma evens_odds_perm n : Permutation (as_matrix_perm n) (seq 0 (2 * n)).
Proof.
  induction n as [|n IH].
  - reflexivity.
  - unfold as_matrix_perm in *. rewrite !seq_S, !map_app. cbn [map Nat.add].
    replace (2 * S n) with (S (S (2 * n))) by lia. rewrite !seq_S. cbn [Nat.add].
    rewrite perm_shuffle, IH. rewrite <- app_assoc. cbn [app].
    replace (2 * n + 1) with (S (2 * n)) by lia. reflexivity.
Qed.

(* ---- tensordot bookkeeping -------------------------------------------------------------------------- *)
Lemma g_tensordot_atoms a b ia ib r : g_tensordot a b ia ib = Some r -> gatoms r = gatoms a ++ gatoms b.
Proof.
  unfold g_tensordot. repeat match goal with |- (if ?c then _ else _) = _ -> _ => destruct c; [discriminate|] end.
  intros [= <-]. reflexivity.
Qed.

Lemma filter_split_length {A} (f : A -> bool) l : length (filter f l) + length (filter (fun x => negb (f x)) l) = length l.
Proof. induction l as [|x t IH]; cbn; [reflexivity|]. destruct (f x); cbn; lia. Qed.

(* every contracted axis pair is either bound (same wire) or glued (recorded pair): none is lost *)
Lemma g_tensordot_pairs a b ia ib r : g_tensordot a b ia ib = Some r ->
  length (gbnd r) + length (gglue r) = length ia + length (gbnd a) + length (gbnd b) + length (gglue a) + length (gglue b).
Proof.
  unfold g_tensordot.
  destruct (negb (Nat.eqb (length ia) (length ib))) eqn:E1; [discriminate|].
  repeat match goal with |- (if ?c then _ else _) = _ -> _ => destruct c; [discriminate|] end.
  intros [= <-]. cbn [gbnd gglue].
  apply negb_false_iff, Nat.eqb_eq in E1.
  rewrite !app_length, map_length.
  set (pairs := combine _ _).
  pose proof (filter_split_length (fun p : nat * nat => Nat.eqb (fst p) (snd p)) pairs) as H.
  assert (length pairs = length ia).
  { unfold pairs. rewrite combine_length, !map_length. lia. }
  cbv beta in H. unfold wire in *. lia.
Qed.
