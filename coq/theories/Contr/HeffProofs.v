(* Universal theorems about Contr/Heff.v: for every tree, every target node and independent neighbour orders of
   state and operator, the environment blocks close their subtrees of the tree re-rooted at the target, and the
   effective site Hamiltonian built from them is the <psi|H|psi> network with the target's ket tensor and its
   conjugate twin removed, legs in the order of the updated tensor (E^dagger H E at the diagram level). *)
From Coq Require Import List Arith Bool Lia Permutation.
From PTN Require Import TTN.Store Contr.Blocks Contr.BlocksProofs Contr.Closed Contr.ClosedProofs Contr.Heff.
Import ListNotations.

(* ---- small list facts ------------------------------------------------------------------------------------------ *)
Lemma NoDup_app_intro {A} (a b : list A) :
  NoDup a -> NoDup b -> (forall x, In x a -> ~ In x b) -> NoDup (a ++ b).
Proof.
  induction a as [|x t IH]; intros Ha Hb H; cbn; [exact Hb|].
  inversion Ha as [|? ? Hni Ht]; subst. constructor.
  - intros Hin. apply in_app_or in Hin. destruct Hin as [Hin|Hin]; [contradiction|]. apply (H x); [left; reflexivity|exact Hin].
  - apply IH; [exact Ht|exact Hb|]. intros y Hy. apply H. right. exact Hy.
Qed.

Lemma others_mid x a b : ~ In x a -> ~ In x b -> others x (a ++ x :: b) = a ++ b.
Proof. apply filter_neq_mid. Qed.

Lemma nbs_leaf kn : children kn = [] -> neighbouring_nodes kn = match parent kn with Some q => [q] | None => [] end.
Proof. intros H. unfold neighbouring_nodes. rewrite H. destruct (parent kn); reflexivity. Qed.

Lemma map_eq_nil_inv {A B} (f : A -> B) l : map f l = [] -> l = [].
Proof. destruct l; [reflexivity|discriminate]. Qed.

(* interleaved legs [w; x; w; x; ...] *)
Lemma il_nth_pos (w x : nat -> wire) L : forall i, i < length L ->
  nth (2 * i) (flat_map (fun nb => [w nb; x nb]) L) 0 = w (nth i L 0) /\
  nth (2 * i + 1) (flat_map (fun nb => [w nb; x nb]) L) 0 = x (nth i L 0).
Proof.
  induction L as [|a t IH]; intros i Hi; cbn in Hi; [lia|].
  destruct i as [|i]; [split; reflexivity|].
  replace (2 * S i) with (S (S (2 * i))) by lia. cbn [flat_map app nth Nat.add].
  apply IH. lia.
Qed.

(* ---- redges / rnodes ----------------------------------------------------------------------------------------------- *)
Lemma redges_nodes t : forall p, map fst (redges p t) = rnodes t.
Proof.
  induction t as [n cs IH] using rt_rect'. intros p. cbn [redges rnodes map fst]. f_equal.
  induction cs as [|c cs' IHc]; [reflexivity|]. cbn [flat_map]. rewrite map_app. f_equal.
  - apply IH. left. reflexivity.
  - apply IHc. intros c' Hc'. apply IH. right. exact Hc'.
Qed.

Lemma perm_children_e {A} (f : id -> list A) (g : id * id -> list A) n cs :
  (forall c, In c cs -> Permutation (f (rid c)) (flat_map g (redges n c))) ->
  Permutation (flat_map f (map rid cs)) (flat_map g (flat_map (redges n) cs)).
Proof.
  intros H. rewrite flat_map_map, flat_map_flat_map. apply perm_flat_map_pointwise. exact H.
Qed.

(* ---- g_tensordot over (0, 1): one step of contract_all_except_node ------------------------------------------------------- *)
Lemma g_tensordot_01 r blk y tl a b :
  gaxes r = y :: tl -> gaxes blk = [a; y; b] ->
  g_tensordot r blk [0] [1] =
  Some {| gaxes := tl ++ [a; b]; gatoms := gatoms r ++ gatoms blk;
          gbnd := y :: gbnd r ++ gbnd blk; gglue := gglue r ++ gglue blk |}.
Proof.
  intros Hr Hb. rewrite g_tensordot_ok.
  - rewrite Hr, Hb. cbn [map nth combine filter fst snd]. rewrite Nat.eqb_refl. cbn [negb map fst app].
    cbn [dropfrom memb existsb Nat.eqb orb]. rewrite dropfrom_keep by (intros i Hi [E|[]]; lia). reflexivity.
  - reflexivity.
  - intros i [<-|[]]. rewrite Hr. cbn. lia.
  - intros i [<-|[]]. rewrite Hb. cbn. lia.
  - constructor; [intros []|constructor].
  - constructor; [intros []|constructor].
Qed.

Lemma ham_fold blocks (w y x : id -> wire) (blk : id -> garr) l :
  (forall nb, In nb l -> aget nb blocks = Some (blk nb) /\ gaxes (blk nb) = [w nb; y nb; x nb]) ->
  forall r rest, gaxes r = map y l ++ rest ->
  exists r', fold_left (ham_step blocks) l (Some r) = Some r' /\
     gaxes r' = rest ++ flat_map (fun nb => [w nb; x nb]) l /\
     gatoms r' = gatoms r ++ flat_map (fun nb => gatoms (blk nb)) l /\
     gbnd r' = rev (map y l) ++ gbnd r ++ flat_map (fun nb => gbnd (blk nb)) l /\
     gglue r' = gglue r ++ flat_map (fun nb => gglue (blk nb)) l.
Proof.
  induction l as [|nb l IH]; intros H r rest Hax.
  - exists r. cbn in *. rewrite !app_nil_r. auto.
  - destruct (H nb (or_introl eq_refl)) as (Hblk & Hbax).
    cbn [fold_left]. unfold ham_step at 2. rewrite Hblk. cbn [map app] in Hax.
    rewrite (g_tensordot_01 r (blk nb) (y nb) (map y l ++ rest) (w nb) (x nb) Hax Hbax).
    match goal with |- context [fold_left _ l (Some ?rr)] => set (r1 := rr) end.
    destruct (IH (fun nb' Hin => H nb' (or_intror Hin)) r1 (rest ++ [w nb; x nb])) as (r' & Hf & H1 & H2 & H3 & H4).
    { subst r1. cbn [gaxes]. rewrite <- app_assoc. reflexivity. }
    exists r'. split; [exact Hf|]. subst r1. cbn [gaxes gatoms gbnd gglue] in *.
    rewrite H1, H2, H3, H4. cbn [flat_map map rev]. rewrite <- !app_assoc. cbn [app]. rewrite <- !app_assoc. auto.
Qed.

(* ---- g_transpose with the permutation of find_tensor_leg_permutation ------------------------------------------------------- *)
Lemma is_perm_of_seq_intro p : NoDup p -> (forall i, In i p -> i < length p) -> is_perm_of_seq p = true.
Proof.
  intros H1 H2. unfold is_perm_of_seq. apply andb_true_intro. split; [apply cl_nodupb; exact H1|apply forallb_ltb; exact H2].
Qed.

Lemma heff_perm_valid P k :
  NoDup P -> (forall i, In i P -> i < k) -> length P = k ->
  let p := map (fun i => 2 * i + 3) P ++ [0] ++ map (fun i => 2 * i + 2) P ++ [1] in
  length p = 2 * k + 2 /\ is_perm_of_seq p = true.
Proof.
  intros Hnd Hlt Hlen p.
  assert (Hl : length p = 2 * k + 2).
  { unfold p. rewrite !app_length, !map_length. cbn. lia. }
  split; [exact Hl|]. apply is_perm_of_seq_intro.
  - unfold p. apply NoDup_app_intro; [| |].
    + apply NoDup_map_inj_in; [|exact Hnd]. intros a b _ _ E. lia.
    + apply NoDup_app_intro.
      * constructor; [intros []|constructor].
      * apply NoDup_app_intro.
        -- apply NoDup_map_inj_in; [|exact Hnd]. intros a b _ _ E. lia.
        -- constructor; [intros []|constructor].
        -- intros z Hz [E|[]]. apply in_map_iff in Hz. destruct Hz as (i & Ei & _). lia.
      * intros z [<-|[]] Hin. apply in_app_or in Hin. destruct Hin as [Hin|[E|[]]]; [|lia].
        apply in_map_iff in Hin. destruct Hin as (i & Ei & _). lia.
    + intros z Hz Hin. apply in_map_iff in Hz. destruct Hz as (i & Ei & _).
      apply in_app_or in Hin. destruct Hin as [[E|[]]|Hin]; [lia|].
      apply in_app_or in Hin. destruct Hin as [Hin|[E|[]]]; [|lia].
      apply in_map_iff in Hin. destruct Hin as (j & Ej & _). lia.
  - rewrite Hl. intros z Hz. unfold p in Hz.
    apply in_app_or in Hz. destruct Hz as [Hz|Hz].
    { apply in_map_iff in Hz. destruct Hz as (i & <- & Hi). specialize (Hlt i Hi). lia. }
    apply in_app_or in Hz. destruct Hz as [[<-|[]]|Hz]; [lia|].
    apply in_app_or in Hz. destruct Hz as [Hz|[<-|[]]]; [|lia].
    apply in_map_iff in Hz. destruct Hz as (i & <- & Hi). specialize (Hlt i Hi). lia.
Qed.

(* the whole of contract_all_except_node, given blocks with legs (ket, operator, conjugate) *)
Theorem heff_site_with_axes kn on ot blocks (w y x : id -> wire) (blk : id -> garr) oo oi :
  NoDup (neighbouring_nodes kn) ->
  Permutation (neighbouring_nodes on) (neighbouring_nodes kn) ->
  gaxes ot = map y (neighbouring_nodes on) ++ [oo; oi] ->
  (forall nb, In nb (neighbouring_nodes on) -> aget nb blocks = Some (blk nb) /\ gaxes (blk nb) = [w nb; y nb; x nb]) ->
  exists g, heff_site_with kn on ot blocks = Some g /\
    gaxes g = map x (neighbouring_nodes kn) ++ [oo] ++ map w (neighbouring_nodes kn) ++ [oi] /\
    gatoms g = gatoms ot ++ flat_map (fun nb => gatoms (blk nb)) (neighbouring_nodes on) /\
    gbnd g = rev (map y (neighbouring_nodes on)) ++ gbnd ot ++ flat_map (fun nb => gbnd (blk nb)) (neighbouring_nodes on) /\
    gglue g = gglue ot ++ flat_map (fun nb => gglue (blk nb)) (neighbouring_nodes on).
Proof.
  intros Hnd Hperm Hot Hblk.
  set (K := neighbouring_nodes kn) in *. set (BO := neighbouring_nodes on) in *.
  assert (HndO : NoDup BO) by (eapply Permutation_NoDup; [symmetry; exact Hperm|exact Hnd]).
  assert (HKO : forall a, In a K -> In a BO) by (intros a Ha; apply (Permutation_in _ (Permutation_sym Hperm)); exact Ha).
  assert (Hlen : length BO = length K) by (apply Permutation_length; exact Hperm).
  destruct (ham_fold blocks w y x blk BO Hblk ot [oo; oi] Hot) as (h & Hh & A1 & A2 & A3 & A4).
  unfold heff_site_with. fold BO. rewrite Hh. unfold heff_site_perm. fold K.
  rewrite (node_positions on K HKO). fold BO.
  set (P := map (pos_in BO) K).
  assert (HP1 : NoDup P).
  { unfold P. apply NoDup_map_inj_in; [|exact Hnd]. intros a b Ha Hb. apply pos_in_inj; apply HKO; assumption. }
  assert (HP2 : forall i, In i P -> i < length K).
  { intros i Hi. unfold P in Hi. apply in_map_iff in Hi. destruct Hi as (a & <- & Ha).
    rewrite <- Hlen. apply pos_in_spec. apply HKO. exact Ha. }
  assert (HP3 : length P = length K) by (unfold P; apply map_length).
  destruct (heff_perm_valid P (length K) HP1 HP2 HP3) as (Hl & Hv). cbv zeta in Hl, Hv.
  unfold g_transpose. rewrite Hv, Hl, A1. cbn [length app]. rewrite il_length.
  match goal with |- context [Nat.eqb ?a ?b] => replace (Nat.eqb a b) with true by (symmetry; apply Nat.eqb_eq; nlia) end. cbn [andb].
  eexists. split; [reflexivity|]. cbn [gaxes gatoms gbnd gglue]. split; [|auto].
  assert (Hw : forall a, In a K ->
             nth (2 * pos_in BO a + 2) (oo :: oi :: flat_map (fun nb => [w nb; x nb]) BO) 0 = w a /\
             nth (2 * pos_in BO a + 3) (oo :: oi :: flat_map (fun nb => [w nb; x nb]) BO) 0 = x a).
  { intros a Ha. destruct (pos_in_spec BO a (HKO a Ha)) as (_ & H1 & H2).
    destruct (il_nth_pos w x BO (pos_in BO a) H1) as (E1 & E2). rewrite H2 in E1, E2.
    replace (2 * pos_in BO a + 2) with (S (S (2 * pos_in BO a))) by lia.
    replace (2 * pos_in BO a + 3) with (S (S (2 * pos_in BO a + 1))) by lia. cbn [nth]. split; assumption. }
  unfold P. rewrite map_app. apply f_equal2.
  { rewrite !map_map. apply map_ext_in. intros a Ha. apply Hw. exact Ha. }
  cbn [map app]. apply f_equal2; [reflexivity|]. rewrite map_app. apply f_equal2; [|reflexivity].
  rewrite !map_map. apply map_ext_in. intros a Ha. apply Hw. exact Ha.
Qed.

(* ==== the environment blocks: induction over the tree re-rooted at the target ============================================= *)
Lemma env_block_leaf f woff aoff ket op n next kn on kt ot :
  aget n (nodes ket) = Some kn -> aget n (nodes op) = Some on -> tensor_of ket n = Some kt -> tensor_of op n = Some ot ->
  children kn = [] ->
  env_block (S f) woff aoff ket op n next = sandwich_leaf kt ot (conj_arr woff aoff kt) kn on kn.
Proof. intros H1 H2 H3 H4 H5. cbn [env_block]. rewrite H1, H2, H3, H4, H5. reflexivity. Qed.

Lemma env_block_node f woff aoff ket op n next kn on kt ot :
  aget n (nodes ket) = Some kn -> aget n (nodes op) = Some on -> tensor_of ket n = Some kt -> tensor_of op n = Some ot ->
  children kn <> [] ->
  env_block (S f) woff aoff ket op n next =
  match all_some (map (fun c => option_map (fun b => (c, b)) (env_block f woff aoff ket op c n))
                      (others next (neighbouring_nodes kn))) with
  | None => None
  | Some blocks => sandwich_subtree kt ot (conj_arr woff aoff kt) kn on kn next blocks
  end.
Proof.
  intros H1 H2 H3 H4 H5. cbn [env_block]. rewrite H1, H2, H3, H4. destruct (children kn); [congruence|reflexivity].
Qed.

Section GlobalE.
  Variables (woff aoff : nat) (ket op : store).
  Let ko := open_wire ket. Let oo := out_wire op. Let oi := in_wire op.
  Let AT (m : id) : list nat := t_atoms ket m ++ t_atoms op m ++ map (Nat.add aoff) (t_atoms ket m).
  Let IB (m : id) : list wire := t_bnd ket m ++ t_bnd op m ++ map (Nat.add woff) (t_bnd ket m).
  Let E3 (e : id * id) : list wire := edge3 woff ket op e.
  Let EB (e : id * id) : list wire := E3 e ++ IB (fst e).
  Let OP (m : id) : list (wire * wire) := [(ko m, oi m); (oo m, woff + ko m)].

  Definition blkE_of (f : nat) (n : id) (dflt : garr) (c : id) : garr :=
    match env_block f woff aoff ket op c n with Some g => g | None => dflt end.

  Lemma env_block_closed po t : wf_env woff ket op po t ->
    forall p fuel, po = Some p -> length (rnodes t) <= fuel ->
    exists g, env_block fuel woff aoff ket op (rid t) p = Some g /\
      gaxes g = E3 (rid t, p) /\
      Permutation (gatoms g) (flat_map AT (rnodes t)) /\
      Permutation (E3 (rid t, p) ++ gbnd g) (flat_map EB (redges p t)) /\
      Permutation (gglue g) (flat_map OP (rnodes t)).
  Proof.
    induction 1 as [po n cs Hok Hcs IH]. intros p fuel -> Hfuel.
    destruct fuel as [|f]; [cbn in Hfuel; lia|].
    destruct Hok as (kn & on & Hk & Ho & Hnd & Hperm & Hpin & Hcsq & Hkax & Hoax & Hcons & Hop1 & Hop2).
    cbn [others_opt] in Hcsq.
    destruct (tensor_of_view ket n kn Hk) as (kt & Hkt & Hkt1 & Hkt2 & Hkt3 & Hkt4 & Hkt5).
    { rewrite Hkax. intros E. apply (f_equal (@length _)) in E. rewrite app_length in E. cbn in E. lia. }
    destruct (tensor_of_view op n on Ho) as (ot & Hot & Hot1 & Hot2 & Hot3 & Hot4 & Hot5).
    { rewrite Hoax. intros E. apply (f_equal (@length _)) in E. rewrite app_length in E. cbn in E. lia. }
    cbn [rid rnodes redges flat_map]. fold ko oo oi in Hkax, Hoax, Hop1, Hop2.
    set (bt := conj_arr woff aoff kt).
    assert (Hb2 : gatoms bt = map (Nat.add aoff) (t_atoms ket n)) by (unfold bt; cbn; rewrite Hkt2; reflexivity).
    assert (Hb3 : gbnd bt = map (Nat.add woff) (t_bnd ket n)) by (unfold bt; cbn; rewrite Hkt3; reflexivity).
    assert (Hb4 : gglue bt = []) by (unfold bt; cbn; rewrite Hkt4; reflexivity).
    set (w := ewire ket n) in *. set (y := ewire op n) in *. set (x := fun m : id => woff + ewire ket n m).
    assert (Hbt1 : gaxes bt = map x (neighbouring_nodes kn) ++ [woff + ko n]).
    { unfold bt. cbn [conj_arr gaxes]. rewrite Hkt1, Hkax, map_app, map_map. reflexivity. }
    destruct (in_split _ _ Hpin) as (pre & post & Hnbs).
    pose proof Hnd as Hnd0. rewrite Hnbs in Hnd.
    destruct (NoDup_mid_notin _ _ _ Hnd) as (Hnpre & Hnpost & HndL).
    assert (Hids : map rid cs = pre ++ post) by (rewrite Hcsq, Hnbs; apply others_mid; assumption).
    destruct (children kn) as [|ch0 chs] eqn:Hch.
    - (* the ket node has no children: contract_leaf; its only neighbour is its parent p *)
      pose proof (nbs_leaf kn Hch) as Hl. rewrite Hnbs in Hl.
      assert (Hpp : pre = [] /\ post = []).
      { destruct (parent kn); destruct pre as [|a pre']; cbn in Hl; try discriminate.
        - injection Hl as _ Hl. split; [reflexivity|exact Hl].
        - injection Hl as _ Hl. destruct pre'; discriminate. }
      destruct Hpp as [-> ->]. cbn [app] in *.
      apply map_eq_nil_inv in Hids. subst cs. cbn [flat_map app].
      assert (HnbO : neighbouring_nodes on = [p]).
      { rewrite Hnbs in Hperm. apply Permutation_sym, Permutation_length_1_inv in Hperm. exact Hperm. }
      assert (Hvk : nvirt kn = 1) by (rewrite nvirt_nbs, Hnbs; reflexivity).
      assert (Hvo : nvirt on = 1) by (rewrite nvirt_nbs, HnbO; reflexivity).
      rewrite (env_block_leaf f woff aoff ket op n p kn on kt ot Hk Ho Hkt Hot Hch). fold bt.
      rewrite (sandwich_leaf_axes kt ot bt kn on kn (w p) (y p) (x p) (ko n) (oo n) (oi n) (woff + ko n) Hvk Hvo Hvk).
      2:{ rewrite Hkt1, Hkax, Hnbs. reflexivity. }
      2:{ rewrite Hot1, Hoax, HnbO. reflexivity. }
      2:{ rewrite Hbt1, Hnbs. reflexivity. }
      2:{ exact Hop1. }
      2:{ exact Hop2. }
      eexists. split; [reflexivity|]. cbn [gaxes gatoms gbnd gglue].
      rewrite Hkt2, Hkt3, Hkt4, Hot2, Hot3, Hot4, Hb2, Hb3, Hb4. unfold AT, EB, IB, OP, E3, edge3. cbn [fst snd flat_map app]. rewrite !app_nil_r.
      split; [reflexivity|]. split; [reflexivity|]. split; [|reflexivity]. fold w y. unfold x. perm_solve.
    - (* contract_subtrees_using_dictionary *)
      rewrite (env_block_node f woff aoff ket op n p kn on kt ot Hk Ho Hkt Hot).
      2:{ rewrite Hch. discriminate. }
      fold bt. rewrite Hnbs, others_mid by assumption. rewrite <- Hids.
      set (blk := blkE_of f n kt).
      assert (Hsub : forall c, In c cs ->
                env_block f woff aoff ket op (rid c) n = Some (blk (rid c)) /\
                gaxes (blk (rid c)) = [w (rid c); y (rid c); x (rid c)] /\
                Permutation (gatoms (blk (rid c))) (flat_map AT (rnodes c)) /\
                Permutation ([w (rid c); y (rid c); x (rid c)] ++ gbnd (blk (rid c))) (flat_map EB (redges n c)) /\
                Permutation (gglue (blk (rid c))) (flat_map OP (rnodes c))).
      { intros c Hc. destruct (IH c Hc n f eq_refl) as (g & Hg & HH).
        - cbn [rnodes length] in Hfuel. pose proof (flat_map_length_in rnodes cs c Hc). lia.
        - unfold blk, blkE_of. rewrite Hg. split; [reflexivity|].
          destruct (Hcons (rid c) (in_map rid cs c Hc)) as (C1 & C2).
          unfold E3, edge3 in HH. cbn [fst snd] in HH. rewrite C1, C2 in HH. exact HH. }
      assert (Hidc : forall a, In a (map rid cs) -> exists c, In c cs /\ rid c = a).
      { intros a Ha. apply in_map_iff in Ha. destruct Ha as (c & E & Hc). eauto. }
      assert (Hblocks : all_some (map (fun c => option_map (fun b => (c, b)) (env_block f woff aoff ket op c n)) (map rid cs))
                        = Some (map (fun c => (c, blk c)) (map rid cs))).
      { apply all_some_total. intros a Ha. destruct (Hidc a Ha) as (c & Hc & <-).
        destruct (Hsub c Hc) as (-> & _). reflexivity. }
      rewrite Hblocks.
      destruct (sandwich_subtree_axes kt ot bt kn on kn p (map (fun c => (c, blk c)) (map rid cs)) w y x blk
                  (w p) (ko n) (oo n) (oi n) (woff + ko n) pre post Hnbs)
        as (g & Hg & G1 & G2 & G3 & G4).
      { exact Hnd. }
      { rewrite <- Hnbs. exact Hperm. }
      { rewrite Hnbs. reflexivity. }
      { rewrite Hkt1, Hkax, Hnbs, map_app. cbn [map]. rewrite <- !app_assoc. reflexivity. }
      { rewrite Hot1. exact Hoax. }
      { exact Hbt1. }
      { intros nb Hnb. rewrite <- Hids in Hnb. split; [apply aget_map_pair; exact Hnb|].
        destruct (Hidc nb Hnb) as (c & Hc & <-). apply Hsub. exact Hc. }
      { exact Hop1. }
      { exact Hop2. }
      exists g. split; [exact Hg|]. rewrite <- Hids in G2, G3, G4.
      split; [rewrite G1; reflexivity|].
      rewrite G2, G3, G4, Hkt2, Hkt3, Hkt4, Hot2, Hot3, Hot4, Hb2, Hb3, Hb4.
      pose proof (perm_children (fun c => gatoms (blk c)) AT cs (fun c Hc => proj1 (proj2 (proj2 (Hsub c Hc))))) as P1.
      pose proof (perm_children_e (fun c => [w c; y c; x c] ++ gbnd (blk c)) EB n cs
                    (fun c Hc => proj1 (proj2 (proj2 (proj2 (Hsub c Hc)))))) as P2.
      pose proof (perm_children (fun c => gglue (blk c)) OP cs (fun c Hc => proj2 (proj2 (proj2 (proj2 (Hsub c Hc)))))) as P3.
      rewrite <- (perm_edge_sum3 w y x (fun c => gbnd (blk c)) (map rid cs)) in P2.
      rewrite <- P1, <- P2, <- P3. unfold AT at 1. unfold EB at 1. unfold IB at 1. unfold OP at 1. unfold E3, edge3. cbn [fst snd].
      fold w y. change (woff + ewire ket n p) with (x p).
      split; [|split]; perm_solve.
  Qed.
End GlobalE.

(* ==== the effective site Hamiltonian ============================================================================================ *)
Lemma wf_env_nodes woff ket op po t : wf_env woff ket op po t -> forall m, In m (rnodes t) -> In m (akeys (nodes ket)).
Proof.
  induction 1 as [po n cs Hok Hcs IH]. intros m Hm. cbn [rnodes] in Hm. destruct Hm as [<-|Hm].
  - destruct Hok as (kn & on & Hk & _). eapply aget_akeys; eassumption.
  - apply in_flat_map in Hm. destruct Hm as (c & Hc & Hm). eapply IH; eassumption.
Qed.

Lemma map_flat_map {A B C} (f : B -> C) (g : A -> list B) l : map f (flat_map g l) = flat_map (fun a => map f (g a)) l.
Proof. induction l as [|a t IH]; cbn; [reflexivity|]. rewrite map_app, IH. reflexivity. Qed.

Lemma sub_edges_nodes t : map fst (sub_edges t) = rdesc t.
Proof.
  unfold sub_edges, rdesc. rewrite map_flat_map. apply flat_map_ext. intros c. apply redges_nodes.
Qed.

Lemma redges_sub p c : redges p c = (rid c, p) :: sub_edges c.
Proof. destruct c. reflexivity. Qed.

Lemma perm_open_sum {A} (a b c : id -> A) (h : id -> list A) l :
  Permutation (flat_map (fun m => [a m; c m]) l ++ map b l ++ flat_map h l) (flat_map (fun m => [a m; b m; c m] ++ h m) l).
Proof. induction l as [|m t IH]; cbn; [constructor|]. rewrite <- IH. perm_solve. Qed.

Section GlobalH.
  Variables (woff aoff : nat) (ket op : store).
  Let ko := open_wire ket. Let oo := out_wire op. Let oi := in_wire op.
  Let AT (m : id) : list nat := t_atoms ket m ++ t_atoms op m ++ map (Nat.add aoff) (t_atoms ket m).
  Let IB (m : id) : list wire := t_bnd ket m ++ t_bnd op m ++ map (Nat.add woff) (t_bnd ket m).
  Let E3 (e : id * id) : list wire := edge3 woff ket op e.
  Let EB (e : id * id) : list wire := E3 e ++ IB (fst e).
  Let OP (m : id) : list (wire * wire) := [(ko m, oi m); (oo m, woff + ko m)].

  Theorem heff_site_aux t : wf_heff woff ket op t ->
    exists g, heff_site woff aoff ket op (rid t) = Some g /\
      gaxes g = heff_axes woff ket op (rid t) /\
      Permutation (gatoms g) (t_atoms op (rid t) ++ flat_map AT (rdesc t)) /\
      Permutation (flat_map (fun c => [ewire ket (rid t) c; woff + ewire ket (rid t) c]) (map rid (rcs t)) ++ gbnd g)
                  (t_bnd op (rid t) ++ flat_map EB (sub_edges t)) /\
      Permutation (gglue g) (flat_map OP (rdesc t)) /\
      (forall c, In c (map rid (rcs t)) -> ewire ket c (rid t) = ewire ket (rid t) c /\ ewire op c (rid t) = ewire op (rid t) c) /\
      nbs ket (rid t) = map rid (rcs t).
  Proof.
    intros (Hnodup & Hwf).
    assert (Hsize : length (rnodes t) <= length (nodes ket)).
    { replace (length (nodes ket)) with (length (akeys (nodes ket))) by apply map_length.
      apply NoDup_incl_length; [exact Hnodup|]. intros m Hm. eapply wf_env_nodes; eassumption. }
    inversion Hwf as [po n cs Hok Hcs E1 E2]. subst po t. cbn [rid rcs] in *.
    destruct Hok as (kn & on & Hk & Ho & Hnd & Hperm & _ & Hcsq & Hkax & Hoax & Hcons & Hop1 & Hop2).
    cbn [others_opt] in Hcsq.
    destruct (tensor_of_view op n on Ho) as (ot & Hot & Hot1 & Hot2 & Hot3 & Hot4 & Hot5).
    { rewrite Hoax. intros E. apply (f_equal (@length _)) in E. rewrite app_length in E. cbn in E. lia. }
    set (w := ewire ket n) in *. set (y := ewire op n) in *. set (x := fun m : id => woff + ewire ket n m).
    unfold heff_site. rewrite Hk, Ho, Hot.
    set (f := length (nodes ket)) in *. set (blk := blkE_of woff aoff ket op f n ot).
    assert (Hsub : forall c, In c cs ->
              env_block f woff aoff ket op (rid c) n = Some (blk (rid c)) /\
              gaxes (blk (rid c)) = [w (rid c); y (rid c); x (rid c)] /\
              Permutation (gatoms (blk (rid c))) (flat_map AT (rnodes c)) /\
              Permutation ([w (rid c); y (rid c); x (rid c)] ++ gbnd (blk (rid c))) (flat_map EB (redges n c)) /\
              Permutation (gglue (blk (rid c))) (flat_map OP (rnodes c))).
    { intros c Hc. destruct (env_block_closed woff aoff ket op (Some n) c (Hcs c Hc) n f eq_refl) as (g & Hg & HH).
      - cbn [rnodes length] in Hsize. pose proof (flat_map_length_in rnodes cs c Hc). lia.
      - unfold blk, blkE_of. rewrite Hg. split; [reflexivity|].
        destruct (Hcons (rid c) (in_map rid cs c Hc)) as (C1 & C2).
        unfold edge3 in HH. cbn [fst snd] in HH. rewrite C1, C2 in HH. exact HH. }
    assert (Hidc : forall a, In a (map rid cs) -> exists c, In c cs /\ rid c = a).
    { intros a Ha. apply in_map_iff in Ha. destruct Ha as (c & E & Hc). eauto. }
    assert (HOK : forall a, In a (neighbouring_nodes on) -> In a (map rid cs)).
    { intros a Ha. rewrite Hcsq. eapply Permutation_in; eassumption. }
    assert (Hblocks : all_some (map (fun c => option_map (fun b => (c, b)) (env_block f woff aoff ket op c n)) (neighbouring_nodes on))
                      = Some (map (fun c => (c, blk c)) (neighbouring_nodes on))).
    { apply all_some_total. intros a Ha. destruct (Hidc a (HOK a Ha)) as (c & Hc & <-).
      destruct (Hsub c Hc) as (-> & _). reflexivity. }
    rewrite Hblocks.
    destruct (heff_site_with_axes kn on ot (map (fun c => (c, blk c)) (neighbouring_nodes on)) w y x blk (oo n) (oi n) Hnd Hperm)
      as (g & Hg & G1 & G2 & G3 & G4).
    { rewrite Hot1. exact Hoax. }
    { intros nb Hnb. split; [apply aget_map_pair; exact Hnb|].
      destruct (Hidc nb (HOK nb Hnb)) as (c & Hc & <-). apply Hsub. exact Hc. }
    exists g. split; [exact Hg|].
    assert (Hnbs : nbs ket n = map rid cs) by (unfold nbs; rewrite Hk; symmetry; exact Hcsq).
    split; [|split; [|split; [|split; [|split; [exact Hcons|exact Hnbs]]]]].
    - rewrite G1. unfold heff_axes. rewrite Hnbs, <- Hcsq. reflexivity.
    - rewrite G2, Hot2, Hperm, <- Hcsq.
      pose proof (perm_children (fun c => gatoms (blk c)) AT cs (fun c Hc => proj1 (proj2 (proj2 (Hsub c Hc))))) as P1.
      rewrite P1. unfold rdesc. cbn [rcs]. reflexivity.
    - rewrite G3, Hot3.
      assert (Hrev : Permutation (rev (map y (neighbouring_nodes on))) (map y (map rid cs))).
      { rewrite <- Permutation_rev, Hperm, <- Hcsq. reflexivity. }
      rewrite Hrev, Hperm, <- Hcsq.
      pose proof (perm_children_e (fun c => [w c; y c; x c] ++ gbnd (blk c)) EB n cs
                    (fun c Hc => proj1 (proj2 (proj2 (proj2 (Hsub c Hc)))))) as P2.
      rewrite <- (perm_open_sum w y x (fun c => gbnd (blk c)) (map rid cs)) in P2.
      unfold sub_edges. cbn [rid rcs]. rewrite <- P2. fold w. perm_solve.
    - rewrite G4, Hot4, Hperm, <- Hcsq. cbn [app].
      pose proof (perm_children (fun c => gglue (blk c)) OP cs (fun c Hc => proj2 (proj2 (proj2 (proj2 (Hsub c Hc)))))) as P3.
      rewrite P3. unfold rdesc. cbn [rcs]. reflexivity.
  Qed.
End GlobalH.

(* ---- the statement in the vocabulary of Heff.v ------------------------------------------------------------------------------------- *)
(* heff_site succeeds for every tree, every target node and independent neighbour orders of state and operator, and
   its result is the <psi|H|psi> network with the ket tensor of the target and its conjugate twin removed:
   axes = (conjugate wires of the target's neighbour legs in the STATE's order, operator output; ket wires of those legs
   in the same order, operator input); atoms = every operator atom, every ket atom and conjugate copy except the
   target's; bound = the operator's wires at the target, all three wires of every edge not incident to the target,
   whatever the tensors bind internally; glued = (ket open, operator input), (operator output, conjugate open) at
   every other node. *)
Theorem heff_site_correct woff aoff ket op t :
  wf_heff woff ket op t ->
  exists g, heff_site woff aoff ket op (rid t) = Some g /\ diagram_is g (heff_expected woff aoff ket op t).
Proof.
  intros Hwf. destruct (heff_site_aux woff aoff ket op t Hwf) as (g & Hg & H1 & H2 & H3 & H4 & Hcons & Hnbs).
  exists g. split; [exact Hg|]. unfold diagram_is, heff_expected. split; [exact H1|]. split; [exact H2|]. split; [|exact H4].
  set (n := rid t) in *. set (ids := map rid (rcs t)) in *.
  set (A := flat_map (fun c => [ewire ket n c; woff + ewire ket n c]) ids) in *.
  apply (Permutation_app_inv_l A). rewrite H3. unfold heff_bnd. fold n ids.
  (* split the per-edge sums *)
  rewrite (perm_flat_map_split (edge3 woff ket op)
             (fun e => t_bnd ket (fst e) ++ t_bnd op (fst e) ++ map (Nat.add woff) (t_bnd ket (fst e))) (sub_edges t)).
  rewrite <- (flat_map_map (fun m => t_bnd ket m ++ t_bnd op m ++ map (Nat.add woff) (t_bnd ket m)) fst (sub_edges t)).
  rewrite sub_edges_nodes. unfold inner_bnd3.
  (* the edges incident to the target *)
  assert (Hinc : Permutation (flat_map (edge3 woff ket op) (sub_edges t))
                   (flat_map (fun c => [ewire ket n c; ewire op n c; woff + ewire ket n c]) ids ++
                    flat_map (edge3 woff ket op) (far_edges t))).
  { unfold sub_edges, far_edges, ids. fold n. clear - Hcons. fold n in Hcons.
    induction (rcs t) as [|c cs IH]; [constructor|].
    cbn [flat_map map]. rewrite redges_sub. cbn [flat_map]. rewrite !flat_map_app.
    rewrite IH by (intros a Ha; apply Hcons; right; exact Ha).
    destruct (Hcons (rid c) (or_introl eq_refl)) as (C1 & C2). cbn [flat_map]. unfold edge3 at 1. cbn [fst snd]. rewrite C1, C2. perm_solve. }
  rewrite Hinc. unfold A.
  rewrite <- (perm_open_sum (ewire ket n) (ewire op n) (fun c => woff + ewire ket n c) (fun _ => @nil wire) ids).
  assert (En : forall l : list id, flat_map (fun _ : id => @nil wire) l = []) by (induction l; [reflexivity|assumption]).
  rewrite En. perm_solve.
Qed.

(* ---- the executable hypothesis checker is sound ----------------------------------------------------------------------------------------- *)
Lemma node_okEb_sound woff ket op p n cs : node_okEb woff ket op p n cs = true -> node_okE woff ket op p n cs.
Proof.
  unfold node_okEb. destruct (aget n (nodes ket)) as [kn|] eqn:Hk; [|discriminate].
  destruct (aget n (nodes op)) as [on|] eqn:Ho; [|discriminate].
  intros H. repeat (apply andb_prop in H; let H' := fresh "H" in destruct H as [H H']).
  exists kn, on. repeat split; auto using cl_list_eqb, perm_of_nodupb_sound.
  - apply cl_nodupb. assumption.
  - destruct p as [q|]; [apply cl_memb_In; assumption|exact I].
  - rewrite forallb_forall in H2. specialize (H2 c H8). apply andb_prop in H2. apply Nat.eqb_eq. apply H2.
  - rewrite forallb_forall in H2. specialize (H2 c H8). apply andb_prop in H2. apply Nat.eqb_eq. apply H2.
  - apply negb_true_iff, Nat.eqb_neq in H1. exact H1.
  - apply negb_true_iff, Nat.eqb_neq in H0. exact H0.
Qed.

Lemma wf_envb_sound woff ket op t : forall p, wf_envb woff ket op p t = true -> wf_env woff ket op p t.
Proof.
  induction t as [n cs IH] using rt_rect'. intros p H. cbn [wf_envb] in H. apply andb_prop in H. destruct H as [H1 H2].
  constructor; [apply node_okEb_sound; exact H1|].
  intros c Hc. apply IH; [exact Hc|]. rewrite forallb_forall in H2. apply H2. exact Hc.
Qed.

(* the universal theorem with a decidable hypothesis: whenever the checker accepts state, operator and target, the
   effective site Hamiltonian is the expected diagram over the tree re-rooted at the target *)
Theorem wf_heffb_correct woff aoff ket op n :
  wf_heffb woff ket op n = true ->
  exists t g, tree_at ket n = Some t /\ rid t = n /\ heff_site woff aoff ket op n = Some g /\
              diagram_is g (heff_expected woff aoff ket op t).
Proof.
  unfold wf_heffb. destruct (tree_at ket n) as [t|]; [|discriminate]. intros H.
  apply andb_prop in H. destruct H as [H H3]. apply andb_prop in H. destruct H as [H1 H2].
  apply Nat.eqb_eq in H1. apply cl_nodupb in H2. apply wf_envb_sound in H3.
  destruct (heff_site_correct woff aoff ket op t (conj H2 H3)) as (g & Hg & Hd).
  exists t, g. rewrite <- H1. auto.
Qed.

(* every environment block (sandwich cache entry n -> p built from fresh blocks): three legs (ket, operator, conjugate
   copy towards p) and everything behind n, seen from p, closed *)
Theorem env_block_subtree_closed woff aoff ket op p t fuel :
  wf_env woff ket op (Some p) t -> length (rnodes t) <= fuel ->
  exists g, env_block fuel woff aoff ket op (rid t) p = Some g /\
    diagram_is g (edge3 woff ket op (rid t, p),
                  all_atoms3 aoff ket op (rnodes t),
                  flat_map (edge3 woff ket op) (sub_edges t) ++ inner_bnd3 woff ket op (rnodes t),
                  open_pairs3 woff ket op (rnodes t)).
Proof.
  intros Hwf Hfuel.
  destruct (env_block_closed woff aoff ket op (Some p) t Hwf p fuel eq_refl Hfuel) as (g & Hg & H1 & H2 & H3 & H4).
  exists g. split; [exact Hg|]. unfold diagram_is. split; [exact H1|]. split; [exact H2|]. split; [|exact H4].
  apply (Permutation_app_inv_l (edge3 woff ket op (rid t, p))). rewrite H3.
  rewrite redges_sub. cbn [flat_map fst].
  rewrite (perm_flat_map_split (edge3 woff ket op)
             (fun e => t_bnd ket (fst e) ++ t_bnd op (fst e) ++ map (Nat.add woff) (t_bnd ket (fst e))) (sub_edges t)).
  rewrite <- (flat_map_map (fun m => t_bnd ket m ++ t_bnd op m ++ map (Nat.add woff) (t_bnd ket m)) fst (sub_edges t)).
  rewrite sub_edges_nodes. unfold inner_bnd3. rewrite (rnodes_desc t). cbn [flat_map]. perm_solve.
Qed.

(* ---- the result checker heff_ok is sound: a per-instance `true` is the diagram statement ------------------------------------------------- *)
Lemma sort_insert_perm x l : Permutation (sort_insert x l) (x :: l).
Proof.
  induction l as [|y t IH]; cbn; [reflexivity|]. destruct (Nat.leb x y); [reflexivity|].
  rewrite IH. apply perm_swap.
Qed.

Lemma sort_nat_perm l : Permutation (sort_nat l) l.
Proof. induction l as [|x t IH]; cbn; [constructor|]. rewrite sort_insert_perm. constructor. exact IH. Qed.

Lemma psort_insert_perm x l : Permutation (psort_insert x l) (x :: l).
Proof.
  induction l as [|y t IH]; cbn; [reflexivity|]. destruct (pair_leb x y); [reflexivity|].
  rewrite IH. apply perm_swap.
Qed.

Lemma sort_pairs_perm l : Permutation (sort_pairs l) l.
Proof. induction l as [|x t IH]; cbn; [constructor|]. rewrite psort_insert_perm. constructor. exact IH. Qed.

Lemma plist_eqb_eq a : forall b, plist_eqb a b = true -> a = b.
Proof.
  induction a as [|[x1 x2] a IH]; intros [|[y1 y2] b]; cbn; try discriminate; [reflexivity|].
  intros H. apply andb_prop in H. destruct H as [H1 H2]. unfold pair_eqb in H1. cbn in H1.
  apply andb_prop in H1. destruct H1 as [E1 E2]. apply Nat.eqb_eq in E1. apply Nat.eqb_eq in E2. subst.
  f_equal. apply IH. exact H2.
Qed.

Lemma diagram_matches_sound g e : diagram_matches g e = true -> diagram_is g e.
Proof.
  destruct e as [[[ax at_] bd] gl]. unfold diagram_matches, diagram_is. intros H.
  apply andb_prop in H. destruct H as [H H0]. apply andb_prop in H. destruct H as [H H1].
  apply andb_prop in H. destruct H as [H H2].
  apply cl_list_eqb in H. apply cl_list_eqb in H2. apply cl_list_eqb in H1. apply plist_eqb_eq in H0.
  split; [exact H|]. split; [|split].
  - rewrite <- (sort_nat_perm (gatoms g)), H2. apply sort_nat_perm.
  - rewrite <- (sort_nat_perm (gbnd g)), H1. apply sort_nat_perm.
  - rewrite <- (sort_pairs_perm (gglue g)), H0. apply sort_pairs_perm.
Qed.

Theorem heff_ok_sound woff aoff ket op n :
  heff_ok woff aoff ket op n = true ->
  exists t g, tree_at ket n = Some t /\ heff_site woff aoff ket op n = Some g /\
              diagram_is g (heff_expected woff aoff ket op t).
Proof.
  unfold heff_ok. destruct (tree_at ket n) as [t|]; [|discriminate].
  destruct (heff_site woff aoff ket op n) as [g|]; [|discriminate]. intros H.
  exists t, g. split; [reflexivity|]. split; [reflexivity|]. apply diagram_matches_sound. exact H.
Qed.

(* the link checker evaluated per instance means: heff_link is the network of both sides of the edge, complete, the
   operator wire of the edge bound, axes = (conjugate copies of the link tensor's legs, the link tensor's legs) *)
Theorem link_ok_sound woff aoff ket op a b l :
  link_ok woff aoff ket op a b l = true ->
  exists ta tb g,
    tree_from (S (length (nodes ket))) ket (Some l) a = Some ta /\
    tree_from (S (length (nodes ket))) ket (Some l) b = Some tb /\
    heff_link woff aoff ket op a b l = Some g /\
    ewire ket a l = ewire ket l a /\ ewire ket b l = ewire ket l b /\ ewire op a b = ewire op b a /\
    diagram_is g (map (Nat.add woff) (t_axes ket l) ++ t_axes ket l,
                  all_atoms3 aoff ket op (rnodes ta ++ rnodes tb),
                  ewire op a b :: flat_map (edge3 woff ket op) (sub_edges ta ++ sub_edges tb) ++
                    inner_bnd3 woff ket op (rnodes ta ++ rnodes tb),
                  open_pairs3 woff ket op (rnodes ta ++ rnodes tb)).
Proof.
  unfold link_ok.
  destruct (tree_from (S (length (nodes ket))) ket (Some l) a) as [ta|]; [|discriminate].
  destruct (tree_from (S (length (nodes ket))) ket (Some l) b) as [tb|]; [|discriminate].
  destruct (heff_link woff aoff ket op a b l) as [g|]; [|discriminate].
  intros H. apply andb_prop in H. destruct H as [H H4]. apply andb_prop in H. destruct H as [H H3].
  apply andb_prop in H. destruct H as [H1 H2].
  apply Nat.eqb_eq in H1. apply Nat.eqb_eq in H2. apply Nat.eqb_eq in H3. apply diagram_matches_sound in H4.
  exists ta, tb, g. repeat split; try assumption; apply H4.
Qed.

(* ==== the link Hamiltonian: the state holds a link node the operator does not have =========================================== *)
(* sandwich_subtree when the neighbour left out is called `next` in the ket / conjugate node and `nexto` in the operator
   node (contract_any(a, link_id, ...): the ket's neighbour is the link node, the operator's is the far end of the edge) *)
Theorem sandwich_subtree_axes_gen kt ot bt kn on bn next nexto blocks (w y x : id -> wire) (blk : id -> garr) wj o oo oi bo pre post :
  neighbouring_nodes kn = pre ++ next :: post ->
  NoDup (pre ++ next :: post) ->
  Permutation (neighbouring_nodes on) (nexto :: pre ++ post) ->
  NoDup (nexto :: pre ++ post) ->
  Permutation (neighbouring_nodes bn) (pre ++ next :: post) ->
  gaxes kt = map w pre ++ wj :: map w post ++ [o] ->
  gaxes ot = map y (neighbouring_nodes on) ++ [oo; oi] ->
  gaxes bt = map x (neighbouring_nodes bn) ++ [bo] ->
  (forall nb, In nb (pre ++ post) -> aget nb blocks = Some (blk nb) /\ gaxes (blk nb) = [w nb; y nb; x nb]) ->
  o <> oi -> oo <> bo ->
  exists r, sandwich_subtree kt ot bt kn on bn next blocks = Some r /\
    gaxes r = [wj; y nexto; x next] /\
    gatoms r = ((gatoms kt ++ flat_map (fun nb => gatoms (blk nb)) (pre ++ post)) ++ gatoms ot) ++ gatoms bt /\
    gbnd r = map x (pre ++ post) ++
             (map y (pre ++ post) ++
              (rev (map w (pre ++ post)) ++ gbnd kt ++ flat_map (fun nb => gbnd (blk nb)) (pre ++ post)) ++ gbnd ot) ++ gbnd bt /\
    gglue r = (oo, bo) :: ((o, oi) :: (gglue kt ++ flat_map (fun nb => gglue (blk nb)) (pre ++ post)) ++ gglue ot) ++ gglue bt.
Proof.
  intros Hnbs Hnd HpO' HndO' HpB Hkt Hot Hbt Hblk Hooi Hoobo.
  destruct (NoDup_mid_notin _ _ _ Hnd) as (Hnpre & Hnpost & HndL).
  destruct (all_but_one_axes kt kn next blocks w (fun nb => [y nb; x nb]) blk wj [o] pre post Hnbs Hnd Hkt Hblk)
    as (t1 & Ht1 & A1 & A2 & A3 & A4).
  set (L := pre ++ post) in *. set (n := length L).
  set (BO := neighbouring_nodes on) in *. set (BB := neighbouring_nodes bn) in *.
  assert (Hmid : Permutation (pre ++ next :: post) (next :: L)) by (symmetry; apply Permutation_middle).
  assert (HpB' : Permutation BB (next :: L)) by (rewrite HpB; exact Hmid).
  assert (HndO : NoDup BO) by (eapply Permutation_NoDup; [symmetry; exact HpO'|exact HndO']).
  assert (HndB : NoDup BB) by (eapply Permutation_NoDup; [symmetry; exact HpB|exact Hnd]).
  assert (HLO : forall a, In a L -> In a BO).
  { intros a Ha. apply (Permutation_in _ (Permutation_sym HpO')). right. exact Ha. }
  assert (HLB : forall a, In a L -> In a BB).
  { intros a Ha. apply (Permutation_in _ (Permutation_sym HpB')). right. exact Ha. }
  assert (Hk : nvirt kn = S n).
  { rewrite nvirt_nbs, Hnbs. unfold n, L. rewrite !app_length. cbn. nlia. }
  unfold sandwich_subtree. rewrite Ht1.
  rewrite (equivalent_legs_ignore kn on next pre post Hnbs Hnd HLO), (equivalent_legs_ignore kn bn next pre post Hnbs Hnd HLB).
  fold L BO BB. rewrite Hk. replace (S n - 1) with n by nlia. rewrite !nvirt_nbs. fold BO BB.
  assert (Hlegs : map (fun j => 2 * j) (seq 1 n) = map (fun m => 2 + 2 * m) (seq 0 n)).
  { rewrite <- seq_shift, map_map. apply map_ext. intros m. nlia. }
  rewrite Hlegs.
  cbn [app] in A1.
  rewrite (node_contract_e t1 ot y BO L _ o [oo; oi] 1 oi (length BO + 1) eq_refl HndO HLO HndL Hot).
  2:{ cbn. nlia. }
  2:{ reflexivity. }
  2:{ exact Hooi. }
  2:{ rewrite app_length, map_length, seq_length. cbn. unfold n. nlia. }
  2:{ apply NoDup_app_one; [apply NoDup_map_affine|]. intros Hin. apply in_map_iff in Hin. destruct Hin as (m & E & _). nlia. }
  2:{ intros i Hi. rewrite A1. cbn [length]. rewrite il_length. fold n. apply in_app_or in Hi. destruct Hi as [Hi|[<-|[]]]; [|nlia].
      apply in_map_iff in Hi. destruct Hi as (m & <- & Hm). apply in_seq in Hm. nlia. }
  2:{ rewrite A1, map_app, map_map. cbn [map nth]. f_equal. exact (il_nth_even y x L [wj; o]). }
  rewrite (filter_rest_one BO L nexto HndO HpO').
  match goal with |- context [g_tensordot ?tt bt _ _] => set (t2 := tt) end.
  assert (T2 : gaxes t2 = [wj] ++ map x L ++ [y nexto] ++ [oo]).
  { unfold t2. cbn [gaxes]. rewrite A1. change (wj :: o :: flat_map (fun nb => [y nb; x nb]) L)
      with ([wj] ++ [o] ++ flat_map (fun nb => [y nb; x nb]) L).
    rewrite !dropfrom_app. cbn [length]. change (0 + 1 + 1) with 2. change (0 + 1) with 1.
    rewrite dropfrom_keep.
    2:{ intros i Hi Hin. cbn in Hi. apply in_app_or in Hin. destruct Hin as [Hin|[Hin|[]]]; [|nlia].
        apply in_map_iff in Hin. destruct Hin as (m & E & _). nlia. }
    rewrite dropfrom_all.
    2:{ intros i Hi. cbn in Hi. apply in_or_app. right. left. nlia. }
    unfold id, wire in *. rewrite (il_drop_idx 2 n [1] y x L eq_refl) by (intros e [<-|[]]; nlia).
    cbn [dropfrom memb existsb Nat.eqb orb map app]. reflexivity. }
  rewrite (node_contract_e t2 bt x BB L _ oo [bo] 0 bo (length BB) (eq_sym (Nat.add_0_r _)) HndB HLB HndL Hbt).
  2:{ cbn. nlia. }
  2:{ reflexivity. }
  2:{ exact Hoobo. }
  2:{ rewrite app_length, seq_length. cbn. unfold n. nlia. }
  2:{ apply NoDup_app_one; [apply seq_NoDup|]. intros Hin. apply in_seq in Hin. nlia. }
  2:{ intros i Hi. rewrite T2. rewrite !app_length, map_length. cbn [length]. fold n. apply in_app_or in Hi.
      destruct Hi as [Hi|[<-|[]]]; [apply in_seq in Hi|]; nlia. }
  2:{ rewrite T2, map_app. cbn [map]. f_equal.
      - pose proof (nth_seq_block 0 [wj] (map x L) ([y nexto] ++ [oo])) as H. rewrite map_length in H. exact H.
      - f_equal. assert (E : [wj] ++ map x L ++ [y nexto] ++ [oo] = ([wj] ++ map x L ++ [y nexto]) ++ oo :: []).
        { rewrite <- !app_assoc. reflexivity. }
        rewrite E. replace (S n + 1) with (length ([wj] ++ map x L ++ [y nexto])) by (rewrite !app_length, map_length; cbn; unfold n; nlia).
        apply nth_mid. }
  rewrite (filter_rest_one BB L next HndB HpB').
  eexists. split; [reflexivity|]. cbn [gaxes gatoms gbnd gglue].
  split; [|subst t2; cbn [gatoms gbnd gglue]; rewrite A2, A3, A4; auto].
  rewrite T2. rewrite !dropfrom_app. cbn [length Nat.add]. rewrite map_length. fold n.
  rewrite (dropfrom_keep 0 _ [wj]).
  2:{ intros i Hi Hin. cbn in Hi. apply in_app_or in Hin. destruct Hin as [Hin|[Hin|[]]]; [apply in_seq in Hin|]; nlia. }
  rewrite (dropfrom_all 1 _ (map x L)).
  2:{ intros i Hi. rewrite map_length in Hi. fold n in Hi. apply in_or_app. left. apply in_seq. nlia. }
  rewrite (dropfrom_keep _ _ [y nexto]).
  2:{ intros i Hi Hin. cbn in Hi. apply in_app_or in Hin. destruct Hin as [Hin|[Hin|[]]]; [apply in_seq in Hin|]; nlia. }
  rewrite (dropfrom_all _ _ [oo]).
  2:{ intros i Hi. cbn in Hi. apply in_or_app. right. left. nlia. }
  cbn [dropfrom memb existsb Nat.eqb orb map app]. reflexivity.
Qed.

(* an end of the edge: its block towards the link node *)
Section GlobalL.
  Variables (woff aoff : nat) (ket op : store).
  Let ko := open_wire ket. Let oo := out_wire op. Let oi := in_wire op.
  Let AT (m : id) : list nat := t_atoms ket m ++ t_atoms op m ++ map (Nat.add aoff) (t_atoms ket m).
  Let IB (m : id) : list wire := t_bnd ket m ++ t_bnd op m ++ map (Nat.add woff) (t_bnd ket m).
  Let E3 (e : id * id) : list wire := edge3 woff ket op e.
  Let EB (e : id * id) : list wire := E3 e ++ IB (fst e).
  Let OP (m : id) : list (wire * wire) := [(ko m, oi m); (oo m, woff + ko m)].

  Lemma env_block_end l m t fuel : wf_end woff ket op l m t -> length (rnodes t) <= fuel ->
    exists g, env_block fuel woff aoff ket op (rid t) l = Some g /\
      gaxes g = [ewire ket (rid t) l; ewire op (rid t) m; woff + ewire ket (rid t) l] /\
      Permutation (gatoms g) (all_atoms3 aoff ket op (rnodes t)) /\
      Permutation (gbnd g) (flat_map (edge3 woff ket op) (sub_edges t) ++ inner_bnd3 woff ket op (rnodes t)) /\
      Permutation (gglue g) (open_pairs3 woff ket op (rnodes t)).
  Proof.
    destruct t as [n cs]. intros (Hok & Hcs) Hfuel. cbn [rid rcs] in *.
    destruct fuel as [|f]; [cbn in Hfuel; lia|].
    destruct Hok as (kn & on & pre & post & Hk & Ho & Hnbs & Hnd & HpO & HndO & Hids & Hkax & Hoax & Hcons & Hop1 & Hop2).
    destruct (tensor_of_view ket n kn Hk) as (kt & Hkt & Hkt1 & Hkt2 & Hkt3 & Hkt4 & Hkt5).
    { rewrite Hkax. intros E. apply (f_equal (@length _)) in E. rewrite app_length in E. cbn in E. lia. }
    destruct (tensor_of_view op n on Ho) as (ot & Hot & Hot1 & Hot2 & Hot3 & Hot4 & Hot5).
    { rewrite Hoax. intros E. apply (f_equal (@length _)) in E. rewrite app_length in E. cbn in E. lia. }
    fold ko oo oi in Hkax, Hoax, Hop1, Hop2.
    set (bt := conj_arr woff aoff kt).
    assert (Hb2 : gatoms bt = map (Nat.add aoff) (t_atoms ket n)) by (unfold bt; cbn; rewrite Hkt2; reflexivity).
    assert (Hb3 : gbnd bt = map (Nat.add woff) (t_bnd ket n)) by (unfold bt; cbn; rewrite Hkt3; reflexivity).
    assert (Hb4 : gglue bt = []) by (unfold bt; cbn; rewrite Hkt4; reflexivity).
    set (w := ewire ket n) in *. set (y := ewire op n) in *. set (x := fun c : id => woff + ewire ket n c).
    assert (Hbt1 : gaxes bt = map x (neighbouring_nodes kn) ++ [woff + ko n]).
    { unfold bt. cbn [conj_arr gaxes]. rewrite Hkt1, Hkax, map_app, map_map. reflexivity. }
    destruct (NoDup_mid_notin _ _ _ Hnd) as (Hnpre & Hnpost & HndL).
    (* the statement in the summed form used by the induction *)
    cut (exists g, env_block (S f) woff aoff ket op n l = Some g /\
           gaxes g = [w l; y m; x l] /\
           Permutation (gatoms g) (AT n ++ flat_map AT (flat_map rnodes cs)) /\
           Permutation (gbnd g) (IB n ++ flat_map EB (flat_map (redges n) cs)) /\
           Permutation (gglue g) (OP n ++ flat_map OP (flat_map rnodes cs))).
    { intros (g & Hg & G1 & G2 & G3 & G4). exists g. split; [exact Hg|]. split; [exact G1|].
      split; [rewrite G2; reflexivity|]. split; [|rewrite G4; reflexivity].
      rewrite G3. change (flat_map (redges n) cs) with (sub_edges (RN n cs)). unfold EB, E3, IB.
      rewrite (perm_flat_map_split (edge3 woff ket op)
                 (fun e => t_bnd ket (fst e) ++ t_bnd op (fst e) ++ map (Nat.add woff) (t_bnd ket (fst e))) (sub_edges (RN n cs))).
      rewrite <- (flat_map_map (fun c => t_bnd ket c ++ t_bnd op c ++ map (Nat.add woff) (t_bnd ket c)) fst (sub_edges (RN n cs))).
      rewrite sub_edges_nodes. unfold inner_bnd3. cbn [rnodes rdesc rcs flat_map]. perm_solve. }
    destruct (children kn) as [|ch0 chs] eqn:Hch.
    - (* contract_leaf *)
      pose proof (nbs_leaf kn Hch) as Hl. rewrite Hnbs in Hl.
      assert (Hpp : pre = [] /\ post = []).
      { destruct (parent kn); destruct pre as [|a pre']; cbn in Hl; try discriminate.
        - injection Hl as _ Hl. split; [reflexivity|exact Hl].
        - injection Hl as _ Hl. destruct pre'; discriminate. }
      destruct Hpp as [-> ->]. cbn [app] in *.
      apply map_eq_nil_inv in Hids. subst cs. cbn [flat_map app].
      assert (HnbO : neighbouring_nodes on = [m]).
      { apply Permutation_sym, Permutation_length_1_inv in HpO. exact HpO. }
      assert (Hvk : nvirt kn = 1) by (rewrite nvirt_nbs, Hnbs; reflexivity).
      assert (Hvo : nvirt on = 1) by (rewrite nvirt_nbs, HnbO; reflexivity).
      rewrite (env_block_leaf f woff aoff ket op n l kn on kt ot Hk Ho Hkt Hot Hch). fold bt.
      rewrite (sandwich_leaf_axes kt ot bt kn on kn (w l) (y m) (x l) (ko n) (oo n) (oi n) (woff + ko n) Hvk Hvo Hvk).
      2:{ rewrite Hkt1, Hkax, Hnbs. reflexivity. }
      2:{ rewrite Hot1, Hoax, HnbO. reflexivity. }
      2:{ rewrite Hbt1, Hnbs. reflexivity. }
      2:{ exact Hop1. }
      2:{ exact Hop2. }
      eexists. split; [reflexivity|]. cbn [gaxes gatoms gbnd gglue].
      rewrite Hkt2, Hkt3, Hkt4, Hot2, Hot3, Hot4, Hb2, Hb3, Hb4. unfold AT, IB, OP. cbn [app]. rewrite !app_nil_r.
      repeat split; reflexivity.
    - (* contract_subtrees_using_dictionary *)
      rewrite (env_block_node f woff aoff ket op n l kn on kt ot Hk Ho Hkt Hot).
      2:{ rewrite Hch. discriminate. }
      fold bt. rewrite Hnbs, others_mid by assumption. rewrite <- Hids.
      set (blk := blkE_of woff aoff ket op f n kt).
      assert (Hsub : forall c, In c cs ->
                env_block f woff aoff ket op (rid c) n = Some (blk (rid c)) /\
                gaxes (blk (rid c)) = [w (rid c); y (rid c); x (rid c)] /\
                Permutation (gatoms (blk (rid c))) (flat_map AT (rnodes c)) /\
                Permutation ([w (rid c); y (rid c); x (rid c)] ++ gbnd (blk (rid c))) (flat_map EB (redges n c)) /\
                Permutation (gglue (blk (rid c))) (flat_map OP (rnodes c))).
      { intros c Hc. destruct (env_block_closed woff aoff ket op (Some n) c (Hcs c Hc) n f eq_refl) as (g & Hg & HH).
        - cbn [rnodes length] in Hfuel. pose proof (flat_map_length_in rnodes cs c Hc). lia.
        - unfold blk, blkE_of. rewrite Hg. split; [reflexivity|].
          destruct (Hcons (rid c) (in_map rid cs c Hc)) as (C1 & C2).
          unfold edge3 in HH. cbn [fst snd] in HH. rewrite C1, C2 in HH. exact HH. }
      assert (Hidc : forall a, In a (map rid cs) -> exists c, In c cs /\ rid c = a).
      { intros a Ha. apply in_map_iff in Ha. destruct Ha as (c & E & Hc). eauto. }
      assert (Hblocks : all_some (map (fun c => option_map (fun b => (c, b)) (env_block f woff aoff ket op c n)) (map rid cs))
                        = Some (map (fun c => (c, blk c)) (map rid cs))).
      { apply all_some_total. intros a Ha. destruct (Hidc a Ha) as (c & Hc & <-).
        destruct (Hsub c Hc) as (-> & _). reflexivity. }
      rewrite Hblocks.
      destruct (sandwich_subtree_axes_gen kt ot bt kn on kn l m (map (fun c => (c, blk c)) (map rid cs)) w y x blk
                  (w l) (ko n) (oo n) (oi n) (woff + ko n) pre post Hnbs)
        as (g & Hg & G1 & G2 & G3 & G4).
      { exact Hnd. }
      { exact HpO. }
      { exact HndO. }
      { rewrite Hnbs. reflexivity. }
      { rewrite Hkt1, Hkax, Hnbs, map_app. cbn [map]. rewrite <- !app_assoc. reflexivity. }
      { rewrite Hot1. exact Hoax. }
      { exact Hbt1. }
      { intros nb Hnb. rewrite <- Hids in Hnb. split; [apply aget_map_pair; exact Hnb|].
        destruct (Hidc nb Hnb) as (c & Hc & <-). apply Hsub. exact Hc. }
      { exact Hop1. }
      { exact Hop2. }
      exists g. split; [exact Hg|]. rewrite <- Hids in G2, G3, G4.
      split; [exact G1|].
      rewrite G2, G3, G4, Hkt2, Hkt3, Hkt4, Hot2, Hot3, Hot4, Hb2, Hb3, Hb4.
      pose proof (perm_children (fun c => gatoms (blk c)) AT cs (fun c Hc => proj1 (proj2 (proj2 (Hsub c Hc))))) as P1.
      pose proof (perm_children_e (fun c => [w c; y c; x c] ++ gbnd (blk c)) EB n cs
                    (fun c Hc => proj1 (proj2 (proj2 (proj2 (Hsub c Hc)))))) as P2.
      pose proof (perm_children (fun c => gglue (blk c)) OP cs (fun c Hc => proj2 (proj2 (proj2 (proj2 (Hsub c Hc)))))) as P3.
      rewrite <- (perm_edge_sum3 w y x (fun c => gbnd (blk c)) (map rid cs)) in P2.
      rewrite <- P1, <- P2, <- P3. unfold AT at 1. unfold IB at 1. unfold OP at 1.
      split; [|split]; perm_solve.
  Qed.
End GlobalL.

(* np.tensordot(e1, e2, axes=(1,1)) of two blocks facing each other: the operator wire of the edge is bound *)
Lemma g_tensordot_11 e1 e2 a1 c1 a2 c2 o :
  gaxes e1 = [a1; o; c1] -> gaxes e2 = [a2; o; c2] ->
  g_tensordot e1 e2 [1] [1] =
  Some {| gaxes := [a1; c1; a2; c2]; gatoms := gatoms e1 ++ gatoms e2;
          gbnd := o :: gbnd e1 ++ gbnd e2; gglue := gglue e1 ++ gglue e2 |}.
Proof.
  intros H1 H2. rewrite g_tensordot_ok.
  - rewrite H1, H2. cbn [map nth combine filter fst snd]. rewrite Nat.eqb_refl. cbn [negb map fst app].
    cbn [dropfrom memb existsb Nat.eqb orb app]. reflexivity.
  - reflexivity.
  - intros i [<-|[]]. rewrite H1. cbn. lia.
  - intros i [<-|[]]. rewrite H2. cbn. lia.
  - constructor; [intros []|constructor].
  - constructor; [intros []|constructor].
Qed.

Lemma wf_end_nodes woff ket op l m t : wf_end woff ket op l m t -> forall z, In z (rnodes t) -> In z (akeys (nodes ket)).
Proof.
  destruct t as [n cs]. intros (Hok & Hcs) z Hz. cbn [rid rcs rnodes] in *. destruct Hz as [<-|Hz].
  - destruct Hok as (kn & on & pre & post & Hk & _). eapply aget_akeys; eassumption.
  - apply in_flat_map in Hz. destruct Hz as (c & Hc & Hz). eapply wf_env_nodes; [apply Hcs; exact Hc|exact Hz].
Qed.

Lemma rid_in_rnodes t : In (rid t) (rnodes t).
Proof. destruct t. left. reflexivity. Qed.

(* the link clause: for every tree, every edge and independent neighbour orders, the effective link Hamiltonian built
   from fresh blocks is the complete network of both sides of the edge, the operator wire of the edge bound, rows =
   conjugate copies of the link tensor's legs, columns = the link tensor's legs, in the link tensor's leg order *)
Theorem heff_link_correct woff aoff ket op a b l ta tb :
  wf_link woff ket op a b l ta tb ->
  exists g, heff_link woff aoff ket op a b l = Some g /\ diagram_is g (link_expected woff aoff ket op a b l ta tb).
Proof.
  intros (Ha & Hb & Hnd & Hea & Heb & (ln & q & c & Hl & Hpl & Hcl & Hqc & Hlax) & Wa & Wb & Wo).
  assert (Hsize : length (rnodes ta ++ rnodes tb) <= length (nodes ket)).
  { replace (length (nodes ket)) with (length (akeys (nodes ket))) by apply map_length.
    apply NoDup_incl_length; [exact Hnd|]. intros z Hz. apply in_app_or in Hz.
    destruct Hz as [Hz|Hz]; [exact (wf_end_nodes _ _ _ _ _ _ Hea z Hz)|exact (wf_end_nodes _ _ _ _ _ _ Heb z Hz)]. }
  rewrite app_length in Hsize.
  assert (Hab : a <> b).
  { intros E.
    assert (In a (rnodes ta)) by (rewrite <- Ha; apply rid_in_rnodes).
    assert (In a (rnodes tb)) by (rewrite E, <- Hb; apply rid_in_rnodes).
    revert Hnd H H0. generalize (rnodes ta) (rnodes tb). clear. intros l1 l2 Hnd H1 H2.
    induction l1 as [|z t IH]; [destruct H1|]. cbn in Hnd. inversion Hnd as [|? ? Hni Hnd']; subst.
    destruct H1 as [->|H1]; [apply Hni; apply in_or_app; right; exact H2|apply IH; assumption]. }
  destruct (env_block_end woff aoff ket op l b ta (length (nodes ket)) Hea ltac:(lia)) as (ea & Eea & A1 & A2 & A3 & A4).
  destruct (env_block_end woff aoff ket op l a tb (length (nodes ket)) Heb ltac:(lia)) as (eb & Eeb & B1 & B2 & B3 & B4).
  rewrite Ha in Eea, A1. rewrite Hb in Eeb, B1. rewrite <- Wo in B1.
  unfold heff_link. rewrite Hl, Hpl, Hcl, Eea, Eeb.
  unfold diagram_is, link_expected.
  assert (Hat : Permutation (gatoms ea ++ gatoms eb) (all_atoms3 aoff ket op (rnodes ta ++ rnodes tb))).
  { unfold all_atoms3 in *. rewrite flat_map_app, A2, B2. reflexivity. }
  assert (Hgl : Permutation (gglue ea ++ gglue eb) (open_pairs3 woff ket op (rnodes ta ++ rnodes tb))).
  { unfold open_pairs3 in *. rewrite flat_map_app, A4, B4. reflexivity. }
  assert (Hbd : Permutation (ewire op a b :: gbnd ea ++ gbnd eb)
                  (ewire op a b :: flat_map (edge3 woff ket op) (sub_edges ta ++ sub_edges tb) ++
                   inner_bnd3 woff ket op (rnodes ta ++ rnodes tb))).
  { constructor. unfold inner_bnd3 in *. rewrite !flat_map_app, A3, B3. perm_solve. }
  destruct Hqc as [[-> ->]|[-> ->]].
  - (* the link's parent is a *)
    assert (Em : memb a [b] = false) by (apply cl_memb_false; intros [E|[]]; congruence).
    rewrite Em, (g_tensordot_11 ea eb _ _ _ _ _ A1 B1).
    eexists. split; [reflexivity|]. cbn [gaxes gatoms gbnd gglue map nth].
    split; [rewrite Hlax, <- Wa, <- Wb; reflexivity|].
    split; [exact Hat|]. split; [exact Hbd|exact Hgl].
  - (* the link's parent is b *)
    assert (Em : memb a [a] = true) by (apply cl_memb_In; left; reflexivity).
    rewrite Em, (g_tensordot_11 eb ea _ _ _ _ _ B1 A1).
    eexists. split; [reflexivity|]. cbn [gaxes gatoms gbnd gglue map nth].
    split; [rewrite Hlax, <- Wa, <- Wb; reflexivity|].
    split; [rewrite <- Hat; perm_solve|]. split; [rewrite <- Hbd; perm_solve|rewrite <- Hgl; perm_solve].
Qed.

(* ---- the link hypothesis checker is sound -------------------------------------------------------------------------------------------- *)
Lemma node_okLb_sound woff ket op l m n cs : node_okLb woff ket op l m n cs = true -> node_okL woff ket op l m n cs.
Proof.
  unfold node_okLb. destruct (aget n (nodes ket)) as [kn|] eqn:Hk; [|discriminate].
  destruct (aget n (nodes op)) as [on|] eqn:Ho; [|discriminate].
  intros H. repeat (apply andb_prop in H; let H' := fresh "H" in destruct H as [H H']).
  apply cl_nodupb in H. apply cl_memb_In in H8.
  destruct (in_split _ _ H8) as (pre & post & Hnbs).
  pose proof H as Hnd. rewrite Hnbs in Hnd.
  destruct (NoDup_mid_notin _ _ _ Hnd) as (Hnpre & Hnpost & _).
  assert (Hoth : others l (neighbouring_nodes kn) = pre ++ post) by (rewrite Hnbs; apply others_mid; assumption).
  rewrite Hoth in *.
  exists kn, on, pre, post. repeat split; auto using cl_list_eqb, perm_of_nodupb_sound.
  - apply cl_nodupb. assumption.
  - rewrite forallb_forall in H2. specialize (H2 c H9). apply andb_prop in H2. apply Nat.eqb_eq. apply H2.
  - rewrite forallb_forall in H2. specialize (H2 c H9). apply andb_prop in H2. apply Nat.eqb_eq. apply H2.
  - apply negb_true_iff, Nat.eqb_neq in H1. exact H1.
  - apply negb_true_iff, Nat.eqb_neq in H0. exact H0.
Qed.

Lemma wf_endb_sound woff ket op l m t : wf_endb woff ket op l m t = true -> wf_end woff ket op l m t.
Proof.
  unfold wf_endb, wf_end. intros H. apply andb_prop in H. destruct H as [H1 H2]. split; [apply node_okLb_sound; exact H1|].
  intros c Hc. apply wf_envb_sound. rewrite forallb_forall in H2. apply H2. exact Hc.
Qed.

Theorem wf_linkb_correct woff aoff ket op a b l :
  wf_linkb woff ket op a b l = true ->
  exists ta tb g,
    tree_from (S (length (nodes ket))) ket (Some l) a = Some ta /\
    tree_from (S (length (nodes ket))) ket (Some l) b = Some tb /\
    heff_link woff aoff ket op a b l = Some g /\ diagram_is g (link_expected woff aoff ket op a b l ta tb).
Proof.
  unfold wf_linkb.
  destruct (tree_from (S (length (nodes ket))) ket (Some l) a) as [ta|]; [|discriminate].
  destruct (tree_from (S (length (nodes ket))) ket (Some l) b) as [tb|]; [|discriminate].
  destruct (aget l (nodes ket)) as [ln|] eqn:Hl; [|discriminate].
  intros H. repeat (apply andb_prop in H; let H' := fresh "H" in destruct H as [H H']).
  destruct (parent ln) as [q|] eqn:Hp; [|discriminate]. destruct (children ln) as [|c [|c' r]] eqn:Hc; try discriminate.
  apply andb_prop in H3. destruct H3 as [Hqc Hax].
  assert (Hw : wf_link woff ket op a b l ta tb).
  { unfold wf_link.
    split; [apply Nat.eqb_eq; exact H|]. split; [apply Nat.eqb_eq; exact H7|]. split; [apply cl_nodupb; exact H6|].
    split; [apply wf_endb_sound; exact H5|]. split; [apply wf_endb_sound; exact H4|].
    split.
    { exists ln, q, c. split; [exact Hl|]. split; [exact Hp|]. split; [exact Hc|]. split.
      - apply orb_prop in Hqc. destruct Hqc as [E|E]; apply andb_prop in E; destruct E as [E1 E2];
          apply Nat.eqb_eq in E1; apply Nat.eqb_eq in E2; [left|right]; split; assumption.
      - apply cl_list_eqb. exact Hax. }
    split; [apply Nat.eqb_eq; exact H2|]. split; [apply Nat.eqb_eq; exact H1|apply Nat.eqb_eq; exact H0]. }
  destruct (heff_link_correct woff aoff ket op a b l ta tb Hw) as (g & Hg & Hd).
  exists ta, tb, g. auto.
Qed.
