(* Proofs about Contr/TensorProdBridge.v (property C04): from a store in canonical form to the abstract isometry
   theorem of Contr/TensorProdSem.v.
     1. sums over wires: substitutions that commute with the summed wires, dependency sets, fusion of private sums;
     2. the denotation of glued diagrams (gvalue): invariance under reordering, plain diagrams;
     3. the tree around the centre (ctree) from the walks of TTN/CanonDist.v;
   the store-level part is in TensorProdBridgeStore.v. *)
From Coq Require Import List Arith Bool Lia Permutation.
From PTN Require Import TTN.Store TTN.StoreProofs TTN.Inv TTN.InvProofs TTN.InvNode Wire.Sem Wire.SemProofs
  TTN.Canon TTN.CanonTree TTN.CanonDist
  Contr.Blocks Contr.Closed Contr.ClosedProofs Contr.TensorProd Contr.TensorProdSem Contr.TensorProdBridge.
Import ListNotations.

Ltac nlia := unfold id, wire in *; lia.
Ltac ncongr := unfold id, wire in *; congruence.

(* ================================================================================================================ *)
(* 1. sums over wires                                                                                                *)
(* ================================================================================================================ *)
Section Sums.
  Variable R : Type.
  Variables (zero one : R) (add mul : R -> R -> R).
  Hypothesis SR : comm_semiring zero one add mul.
  Variable dim : wire -> nat.

  Local Notation sumb := (sum_bnd R zero add dim).
  Local Notation dep := (dep R).
  Local Notation ext := (ext R).
  Local Notation indep := (indep R).

  (* a transformation of assignments that commutes with updating the summed wires moves through the sum *)
  Lemma sum_bnd_comm_subst (phi : assignment -> assignment) ws F :
    ext F ->
    (forall r r', (forall x, r x = r' x) -> forall x, phi r x = phi r' x) ->
    (forall r b k x, In b ws -> phi (upd r b k) x = upd (phi r) b k x) ->
    forall r, sumb ws (fun r' => F (phi r')) r = sumb ws F (phi r).
  Proof.
    intros HF Hphi. induction ws as [|w t IH]; intros Hc r; cbn [sum_bnd]; [reflexivity|].
    apply sum_upto_ext. intros k _. rewrite IH by (intros; apply Hc; right; assumption).
    apply (sum_bnd_ext R zero add dim t F HF). intros x. apply Hc. left. reflexivity.
  Qed.

  (* summing the wires B of a function that looks at D ++ B only leaves a function that looks at D only *)
  Lemma sum_bnd_dep B : forall F D, dep F (D ++ B) -> dep (sumb B F) D.
  Proof.
    induction B as [|b t IH]; intros F D H r r' E; cbn [sum_bnd].
    - apply H. intros w Hw. apply E. rewrite app_nil_r in Hw. exact Hw.
    - apply sum_upto_ext. intros k _. apply (IH F (b :: D)).
      + apply (dep_incl R F (D ++ b :: t)); [exact H|]. intros w Hw. apply in_app_or in Hw.
        destruct Hw as [Hw|[<-|Hw]]; [right; apply in_or_app; left; exact Hw|left; reflexivity|right; apply in_or_app; right; exact Hw].
      + intros w [<-|Hw]; [rewrite !upd_same; reflexivity|]. unfold upd. destruct (Nat.eqb w b); [reflexivity|apply E; exact Hw].
  Qed.

  Lemma indep_app F S1 S2 : indep F S1 -> indep F S2 -> indep F (S1 ++ S2).
  Proof.
    intros H1 H2 r r' E.
    set (r'' := fun w => if in_dec Nat.eq_dec w S1 then r' w else r w).
    transitivity (F r'').
    - apply H1. intros x Hx. unfold r''. destruct (in_dec Nat.eq_dec x S1); [contradiction|reflexivity].
    - apply H2. intros x Hx. unfold r''. destruct (in_dec Nat.eq_dec x S1) as [Hin|Hout]; [reflexivity|].
      apply E. intros Hc. apply in_app_or in Hc. tauto.
  Qed.

  Lemma indep_flat_map {A} F (B : A -> list wire) ns : (forall m, In m ns -> indep F (B m)) -> ext F -> indep F (flat_map B ns).
  Proof.
    intros H HF. induction ns as [|a t IH]; cbn [flat_map]; [apply (ext_indep_nil R F HF)|].
    apply indep_app; [apply H; left; reflexivity|apply IH; intros m Hm; apply H; right; exact Hm].
  Qed.

  Lemma indep_mul F G S : indep F S -> indep G S -> indep (fun r => mul (F r) (G r)) S.
  Proof. intros HF HG r r' E. rewrite (HF r r' E), (HG r r' E). reflexivity. Qed.

  Lemma indep_prod {A} (Q : A -> assignment -> R) ns S :
    (forall m, In m ns -> indep (Q m) S) -> indep (fun r => prod_over R one mul (fun m => Q m r) ns) S.
  Proof.
    intros H r r' E. apply (prod_over_ext R one mul). intros m Hm. apply (H m Hm r r' E).
  Qed.

  Lemma dep_indep' F D ws : dep F D -> (forall w, In w ws -> ~ In w D) -> indep F ws.
  Proof. apply dep_indep. Qed.

  (* SUM_{B ++ B'} F.G = (SUM_B F).(SUM_B' G) when F does not look at B' and G does not look at B *)
  Lemma sum_join B B' F G r : indep F B' -> indep G B ->
    sumb (B ++ B') (fun r => mul (F r) (G r)) r = mul (sumb B F r) (sumb B' G r).
  Proof.
    intros HF HG. rewrite sum_bnd_app.
    transitivity (sumb B (fun r => mul (F r) (sumb B' G r)) r).
    - apply sum_bnd_ext_F. intros r0. apply (sum_bnd_mul_l R zero one add mul SR dim B' F G HF).
    - apply (sum_bnd_mul_r R zero one add mul SR dim B (sumb B' G) F). apply sum_bnd_indep. exact HG.
  Qed.

  (* private sums fuse: SUM over all the B m of the product of the P m = product of the SUM_{B m} P m *)
  Lemma sum_fuse {A} (P : A -> assignment -> R) (B : A -> list wire) : forall ns,
    (forall m, In m ns -> ext (P m)) ->
    (forall m m', In m ns -> In m' ns -> m <> m' -> indep (P m) (B m')) ->
    NoDup ns ->
    forall r, sumb (flat_map B ns) (fun r => prod_over R one mul (fun m => P m r) ns) r
              = prod_over R one mul (fun m => sumb (B m) (P m) r) ns.
  Proof.
    induction ns as [|a t IH]; intros Hext Hind Hnd r; [reflexivity|].
    inversion Hnd as [|? ? Hni Hnd']; subst. cbn [flat_map prod_over]. rewrite sum_bnd_app.
    transitivity (sumb (B a) (fun r => mul (P a r) (prod_over R one mul (fun m => sumb (B m) (P m) r) t)) r).
    - apply sum_bnd_ext_F. intros r0.
      rewrite (sum_bnd_mul_l R zero one add mul SR dim (flat_map B t) (P a)).
      + f_equal. apply IH; [intros m Hm; apply Hext; right; exact Hm| |exact Hnd'].
        intros m m' Hm Hm' Hne. apply Hind; [right; exact Hm|right; exact Hm'|exact Hne].
      + apply indep_flat_map; [|apply Hext; left; reflexivity]. intros m Hm. apply Hind; [left; reflexivity|right; exact Hm|].
        intros ->. contradiction.
    - apply (sum_bnd_mul_r R zero one add mul SR dim (B a) (fun r => prod_over R one mul (fun m => sumb (B m) (P m) r) t) (P a)).
      apply indep_prod. intros m Hm. apply sum_bnd_indep. apply Hind; [right; exact Hm|left; reflexivity|].
      intros ->. contradiction.
  Qed.
End Sums.

(* ================================================================================================================ *)
(* 2. the denotation of glued diagrams                                                                               *)
(* ================================================================================================================ *)
Lemma find_snd_in (G : list (wire * wire)) : NoDup (map snd G) -> forall p, In p G ->
  find (fun q => Nat.eqb (snd q) (snd p)) G = Some p.
Proof.
  unfold wire in *. induction G as [|q t IH]; intros Hnd p Hp; [destruct Hp|]. cbn [map] in Hnd. inversion Hnd as [|? ? Hni Hnd']; subst.
  cbn [find]. destruct Hp as [->|Hp]; [rewrite Nat.eqb_refl; reflexivity|].
  destruct (Nat.eqb (snd q) (snd p)) eqn:E; [|apply IH; assumption].
  apply Nat.eqb_eq in E. exfalso. apply Hni. rewrite E. apply in_map. exact Hp.
Qed.

Lemma find_snd_none (G : list (wire * wire)) w : ~ In w (map snd G) -> find (fun q => Nat.eqb (snd q) w) G = None.
Proof.
  unfold wire in *. induction G as [|q t IH]; intros H; [reflexivity|]. cbn [find]. destruct (Nat.eqb (snd q) w) eqn:E.
  - apply Nat.eqb_eq in E. exfalso. apply H. left. exact E.
  - apply IH. intros Hc. apply H. right. exact Hc.
Qed.

Lemma glue_asg_out G r w : ~ In w (map snd G) -> glue_asg G r w = r w.
Proof. intros H. unfold glue_asg. rewrite (find_snd_none G w H). reflexivity. Qed.

Lemma glue_asg_in G r p : NoDup (map snd G) -> In p G -> glue_asg G r (snd p) = r (fst p).
Proof. intros Hnd Hp. unfold glue_asg. rewrite (find_snd_in G Hnd p Hp). reflexivity. Qed.

Lemma glue_asg_perm G G' r w : NoDup (map snd G) -> Permutation G G' -> glue_asg G r w = glue_asg G' r w.
Proof.
  intros Hnd P.
  assert (Hnd' : NoDup (map snd G')) by (apply (Permutation_NoDup (Permutation_map snd P)); exact Hnd).
  destruct (in_dec Nat.eq_dec w (map snd G)) as [Hin|Hout].
  - apply in_map_iff in Hin. destruct Hin as (p & <- & Hp).
    rewrite (glue_asg_in G r p Hnd Hp), (glue_asg_in G' r p Hnd' (Permutation_in _ P Hp)). reflexivity.
  - rewrite (glue_asg_out G r w Hout). symmetry. apply glue_asg_out. intros Hc. apply Hout.
    apply (Permutation_in _ (Permutation_sym (Permutation_map snd P)) Hc).
Qed.

Lemma glue_asg_ext G r r' : (forall x, r x = r' x) -> forall w, glue_asg G r w = glue_asg G r' w.
Proof. intros E w. unfold glue_asg. destruct (find (fun p => Nat.eqb (snd p) w) G); apply E. Qed.

Section GValue.
  Variable R : Type.
  Variables (zero one : R) (add mul : R -> R -> R).
  Hypothesis SR : comm_semiring zero one add mul.
  Variable wires_of : nat -> list wire.
  Variable dim : wire -> nat.
  Variable tbl : nat -> list nat -> R.

  Local Notation sumb := (sum_bnd R zero add dim).
  Local Notation aval := (atoms_val R one mul wires_of tbl).
  Local Notation gval := (gvalue R zero one add mul wires_of dim tbl).

  Lemma aval_glue_ext A G : ext R (fun r => aval A (glue_asg G r)).
  Proof. intros r r' E. apply (atoms_val_ext R one mul wires_of tbl A). apply glue_asg_ext. exact E. Qed.

  (* the value depends only on the multisets of atoms, summed wires and glued pairs *)
  Theorem gvalue_norm g A L G rho :
    Permutation (gatoms g) A -> Permutation (gbnd g ++ map fst (gglue g)) L ->
    Permutation (gglue g) G -> NoDup (map snd G) ->
    gval g rho = sumb L (fun r => aval A (glue_asg G r)) rho.
  Proof.
    intros PA PL PG Hnd. unfold gvalue.
    rewrite (sum_bnd_perm R zero one add mul SR dim _ _ _ (aval_glue_ext (gatoms g) (gglue g)) PL).
    apply sum_bnd_ext_F. intros r. rewrite (atoms_val_perm R zero one add mul SR wires_of tbl _ _ _ PA).
    apply (atoms_val_ext R one mul wires_of tbl A). intros w. apply glue_asg_perm; [|exact PG].
    apply (Permutation_NoDup (Permutation_map snd (Permutation_sym PG))). exact Hnd.
  Qed.

  Theorem gvalue_perm g g' rho :
    Permutation (gatoms g) (gatoms g') -> Permutation (gbnd g) (gbnd g') -> Permutation (gglue g) (gglue g') ->
    NoDup (map snd (gglue g)) -> gval g rho = gval g' rho.
  Proof.
    intros PA PB PG Hnd.
    rewrite (gvalue_norm g (gatoms g') (gbnd g' ++ map fst (gglue g')) (gglue g') rho PA); [reflexivity| |exact PG|].
    - apply Permutation_app; [exact PB|apply Permutation_map; exact PG].
    - apply (Permutation_NoDup (Permutation_map snd PG)). exact Hnd.
  Qed.

  (* a diagram without glued pairs denotes what Wire/Sem.v says *)
  Theorem gvalue_plain t rho : gval (of_sarr t) rho = value R zero one add mul wires_of dim tbl t rho.
  Proof.
    unfold gvalue, value, of_sarr. cbn [gbnd gglue gatoms map]. rewrite app_nil_r. reflexivity.
  Qed.
End GValue.

(* ================================================================================================================ *)
(* 3. the tree around the centre                                                                                     *)
(* ================================================================================================================ *)
(* the tree has exactly the nodes of the distance table, in the same (DFS pre-) order *)
Lemma ctree_nodes s : forall f cur last, flat_map rnodes (ctree f s cur last) = map fst (dist_rec f s cur last).
Proof.
  induction f as [|f IH]; intros cur last; [reflexivity|].
  destruct (aget cur (nodes s)) as [n|] eqn:E.
  - rewrite (dist_rec_S f s cur last n E). cbn [ctree]. rewrite E. cbn [flat_map rnodes map fst]. rewrite app_nil_r.
    f_equal. rewrite map_fst_flat_map_shift, flat_map_flat_map. apply flat_map_ext. intros nb. apply IH.
  - cbn [ctree dist_rec]. rewrite E. reflexivity.
Qed.

(* what a subtree of the centre tree looks like: its children are the neighbours of its root other than the node
   it was entered from (`last`), which is one step closer to the centre *)
Inductive ct_ok (l : list (id * node)) (d : id -> nat) : option id -> rt -> Prop :=
| ct_ok_intro last x n cs :
    aget x l = Some n -> map rid cs = nbs_of last n ->
    (forall p, last = Some p -> In p (neighbouring_nodes n) /\ S (d p) = d x) ->
    (forall c, In c cs -> ct_ok l d (Some x) c) ->
    ct_ok l d last (RN x cs).

Lemma flat_map_singletons {A} (h : A -> list rt) (Q : rt -> Prop) : forall L : list A,
  forall g : A -> id, (forall a, In a L -> exists T, h a = [T] /\ rid T = g a /\ Q T) ->
  exists cs, flat_map h L = cs /\ map rid cs = map g L /\ forall c, In c cs -> Q c.
Proof.
  induction L as [|a t IH]; intros g H; [exists []; repeat split; intros ? []|].
  destruct (H a (or_introl eq_refl)) as (T & E1 & E2 & E3).
  destruct (IH g) as (cs & F1 & F2 & F3); [intros b Hb; apply H; right; exact Hb|].
  exists (T :: cs). cbn [flat_map map]. rewrite E1, F1, E2, F2. repeat split.
  intros c [<-|Hc]; [exact E3|apply F3; exact Hc].
Qed.

Lemma ctree_ok s c : tstruct (nodes s) -> forall f cur last v,
  reach (nodes s) None c cur last v -> length (nodes s) <= v + f ->
  exists T, ctree f s cur last = [T] /\ rid T = cur /\ ct_ok (nodes s) (dget (distance_to_node s c)) last T.
Proof.
  intros TS. destruct (ts_acyc _ TS) as [rank Hrank].
  induction f as [|f IH]; intros cur last v Hr Hf.
  - pose proof (reach_bound _ TS rank Hrank _ _ _ _ _ Hr). nlia.
  - destruct (reach_in_r _ _ _ _ _ _ Hr) as [n E]. cbn [ctree]. rewrite E.
    pose proof (ts_neighbours_nodup _ _ _ TS E) as Hnd.
    destruct (flat_map_singletons (fun nb => ctree f s nb (Some cur))
                (ct_ok (nodes s) (dget (distance_to_node s c)) (Some cur)) (nbs_of last n) (fun nb => nb)) as (cs & F1 & F2 & F3).
    { intros nb Hnb. apply (In_nbs_of _ _ _ Hnd) in Hnb. destruct Hnb as [Hin Hne].
      destruct (IH nb (Some cur) (S v)) as (T & E1 & E2 & E3); [eapply (reach_snoc _ TS); eauto|lia|].
      exists T. auto. }
    rewrite map_id in F2. exists (RN cur cs). rewrite F1. split; [reflexivity|]. split; [reflexivity|].
    apply (ct_ok_intro _ _ last cur n cs E F2); [|exact F3].
    intros p ->. destruct v as [|v]; [inversion Hr|].
    destruct (reach_unsnoc _ _ _ _ _ _ Hr) as (q & nq & pp & Eq & Enq & Hk & _ & Hrq). injection Eq as <-.
    destruct (ts_neighbour_sym _ _ _ _ TS Enq Hk) as (n' & En' & Hp & _). assert (n' = n) by congruence. subst n'.
    split; [exact Hp|]. rewrite (dget_reach _ _ _ _ _ TS Hr), (dget_reach _ _ _ _ _ TS Hrq). reflexivity.
Qed.

Theorem centre_tree_ok s c : tstruct (nodes s) -> amem c (nodes s) = true ->
  rid (centre_tree s c) = c /\
  ct_ok (nodes s) (dget (distance_to_node s c)) None (centre_tree s c) /\
  NoDup (rnodes (centre_tree s c)) /\
  Permutation (rnodes (centre_tree s c)) (akeys (nodes s)).
Proof.
  intros TS Hc. apply amem_aget in Hc. destruct Hc as [nc Ec].
  destruct (ctree_ok s c TS (length (nodes s)) c None 0) as (T & E1 & E2 & E3); [econstructor; eauto|lia|].
  pose proof (ctree_nodes s (length (nodes s)) c None) as Hn. rewrite E1 in Hn. cbn [flat_map] in Hn. rewrite app_nil_r in Hn.
  unfold centre_tree. rewrite E1. split; [exact E2|]. split; [exact E3|].
  fold (distance_to_node s c) in Hn.
  assert (Hnd : NoDup (rnodes T)) by (rewrite Hn; apply (dist_nodup s c TS)).
  split; [exact Hnd|]. apply NoDup_Permutation; [exact Hnd|apply (ts_nd _ TS)|].
  intros k. rewrite Hn. apply (dist_cover s c k TS). apply amem_aget. eauto.
Qed.

(* ---- list lemmas used by the store-level part -------------------------------------------------------------------- *)
Lemma remove_first_perm x l : In x l -> Permutation l (x :: remove_first x l).
Proof.
  induction l as [|y t IH]; intros H; [destruct H|]. cbn [remove_first]. destruct (Nat.eqb_spec x y) as [->|Hne]; [reflexivity|].
  destruct H as [->|H]; [congruence|]. rewrite perm_swap. constructor. apply IH. exact H.
Qed.

(* the summed wires of the closed network over a tree, as a multiset: both copies of every bond, and the shared wires *)
Lemma wires_sub_perm (u u' : id -> wire) (o : id -> list wire) t :
  Permutation (wires_sub u u' o t) (flat_map (fun m => [u m; u' m]) (rdesc t) ++ flat_map o (rnodes t)).
Proof.
  induction t as [n cs IH] using rt_rect'. cbn [wires_sub rnodes flat_map]. unfold rdesc at 1. cbn [rcs].
  etransitivity; [|apply Permutation_app_swap_app]. apply Permutation_app_head.
  rewrite !flat_map_flat_map. etransitivity; [|apply perm_flat_map_split].
  apply perm_flat_map_pointwise. intros x Hx. rewrite (rnodes_desc x) at 1. cbn [flat_map app].
  do 2 constructor. apply (IH x Hx).
Qed.

Lemma in_double woff L x : In x (flat_map (fun w => [w; woff + w]) L) <-> In x L \/ exists w, In w L /\ x = woff + w.
Proof.
  rewrite in_flat_map. split.
  - intros (w & Hw & [<-|[<-|[]]]); [left; exact Hw|right; exists w; auto].
  - intros [H|(w & Hw & ->)]; [exists x; split; [exact H|left; reflexivity]|exists w; split; [exact Hw|right; left; reflexivity]].
Qed.

Lemma NoDup_double woff : forall L O : list wire, 0 < woff -> NoDup (L ++ O) -> (forall w, In w (L ++ O) -> w < woff) ->
  NoDup (flat_map (fun w => [w; woff + w]) L ++ O).
Proof.
  induction L as [|a L IH]; intros O H0 Hnd Hlt; [exact Hnd|]. cbn [flat_map app] in *.
  inversion Hnd as [|? ? Hni Hnd']; subst.
  assert (IH' : NoDup (flat_map (fun w => [w; woff + w]) L ++ O)) by (apply IH; [exact H0|exact Hnd'|intros w Hw; apply Hlt; right; exact Hw]).
  constructor; [|constructor; [|exact IH']].
  - intros [E|Hin]; [lia|]. apply in_app_or in Hin. destruct Hin as [Hin|Hin].
    + apply in_double in Hin. destruct Hin as [Hin|(w & Hw & E)].
      * apply Hni. apply in_or_app. left. exact Hin.
      * pose proof (Hlt a (or_introl eq_refl)). lia.
    + apply Hni. apply in_or_app. right. exact Hin.
  - intros Hin. apply in_app_or in Hin. destruct Hin as [Hin|Hin].
    + apply in_double in Hin. destruct Hin as [Hin|(w & Hw & E)].
      * assert (woff + a < woff) by (apply Hlt; right; apply in_or_app; left; exact Hin). lia.
      * assert (w = a) by lia. subst w. apply Hni. apply in_or_app. left. exact Hw.
    + assert (woff + a < woff) by (apply Hlt; right; apply in_or_app; right; exact Hin). lia.
Qed.

Lemma flat_map_double {A} (u u' : A -> wire) woff L : (forall m, In m L -> u' m = woff + u m) ->
  flat_map (fun m => [u m; u' m]) L = flat_map (fun w => [w; woff + w]) (map u L).
Proof.
  induction L as [|a L IH]; intros H; [reflexivity|]. cbn [flat_map map app]. rewrite (H a (or_introl eq_refl)).
  do 2 f_equal. apply IH. intros m Hm. apply H. right. exact Hm.
Qed.

(* product over the nodes of a tree = the nested product of the abstract theorem *)
Lemma prod_sub_flat R (zero one : R) add mul (SR : comm_semiring zero one add mul) (KA KB : id -> assignment -> R) t r :
  prod_sub R one mul KA KB t r = prod_over R one mul (fun m => mul (KA m r) (KB m r)) (rnodes t).
Proof.
  induction t as [n cs IH] using rt_rect'. cbn [prod_sub rnodes prod_over]. f_equal.
  induction cs as [|x rest IHr]; [reflexivity|]. cbn [map fold_right flat_map].
  rewrite (prod_over_app R zero one add mul SR). rewrite (IH x (or_introl eq_refl)). f_equal.
  apply IHr. intros y Hy. apply IH. right. exact Hy.
Qed.

Lemma atoms_val_flat_map R (zero one : R) add mul (SR : comm_semiring zero one add mul) wires_of tbl {A} (f : A -> list nat) ns r :
  atoms_val R one mul wires_of tbl (flat_map f ns) r = prod_over R one mul (fun m => atoms_val R one mul wires_of tbl (f m) r) ns.
Proof.
  induction ns as [|a t IH]; [reflexivity|]. cbn [flat_map prod_over].
  rewrite (atoms_val_app R zero one add mul SR). rewrite IH. reflexivity.
Qed.

(* ================================================================================================================ *)
(* 4. a tensordot of glued diagrams denotes np.tensordot                                                             *)
(* ================================================================================================================ *)
Lemma find_app_none {A} (f : A -> bool) l1 l2 : find f l1 = None -> find f (l1 ++ l2) = find f l2.
Proof. induction l1 as [|x t IH]; cbn; [reflexivity|]. destruct (f x); [discriminate|exact IH]. Qed.
Lemma find_app_some {A} (f : A -> bool) l1 l2 x : find f l1 = Some x -> find f (l1 ++ l2) = Some x.
Proof. induction l1 as [|y t IH]; cbn; [discriminate|]. destruct (f y); [auto|exact IH]. Qed.

Lemma glue_app_l G1 G2 r y : ~ In y (map snd G2) -> glue_asg (G1 ++ G2) r y = glue_asg G1 r y.
Proof.
  intros H. pose proof (find_snd_none G2 y H) as H2. unfold glue_asg. unfold wire in *.
  destruct (find (fun p => Nat.eqb (snd p) y) G1) as [p|] eqn:E.
  - rewrite (find_app_some _ G1 G2 p E). reflexivity.
  - rewrite (find_app_none _ G1 G2 E), H2. reflexivity.
Qed.
Lemma glue_app_r G1 G2 r y : ~ In y (map snd G1) -> glue_asg (G1 ++ G2) r y = glue_asg G2 r y.
Proof. intros H. pose proof (find_snd_none G1 y H) as H1. unfold glue_asg. unfold wire in *. rewrite (find_app_none _ G1 G2 H1). reflexivity. Qed.

Lemma glue_asg_upd' G r b k x : ~ In b (map fst G) -> ~ In b (map snd G) -> glue_asg G (upd r b k) x = upd (glue_asg G r) b k x.
Proof.
  intros H1 H2. destruct (Nat.eqb_spec x b) as [->|Hne].
  - rewrite upd_same. unfold glue_asg. rewrite (find_snd_none G b H2). apply upd_same.
  - rewrite (upd_other _ b k x Hne). unfold glue_asg.
    destruct (find (fun p => Nat.eqb (snd p) x) G) as [p|] eqn:E.
    + apply find_some in E. destruct E as [Hp _]. apply upd_other. intros Hc. apply H1. rewrite <- Hc. apply in_map. exact Hp.
    + apply upd_other. exact Hne.
Qed.

Section GTensordot.
  Variable R : Type.
  Variables (zero one : R) (add mul : R -> R -> R).
  Hypothesis SR : comm_semiring zero one add mul.
  Variable wires_of : nat -> list wire.
  Variable dim : wire -> nat.
  Variable tbl : nat -> list nat -> R.

  Local Notation sumb := (sum_bnd R zero add dim).
  Local Notation aval := (atoms_val R one mul wires_of tbl).
  Local Notation gval := (gvalue R zero one add mul wires_of dim tbl).

  (* the summed wires of a diagram, and the wires it redirects *)
  Definition gsum (g : garr) : list wire := gbnd g ++ map fst (gglue g).
  Definition gred (g : garr) : list wire := map snd (gglue g).

  (* a and b do not interfere: the atoms of one do not touch the summed / redirected wires of the other, the sources of the
     gluings are not summed on the other side, the contracted axes are summed on neither side, and the contracted axes of b
     are not redirected inside b *)
  Record td_ok (a b : garr) (diff : list (wire * wire)) : Prop := {
    td_a : atoms_avoid wires_of (gatoms a) (gsum b ++ gred b ++ map snd diff);
    td_b : atoms_avoid wires_of (gatoms b) (gsum a ++ gred a);
    td_ga : forall p, In p (gglue a) -> ~ In (fst p) (gsum b);
    td_gb : forall p, In p (gglue b) -> ~ In (fst p) (gsum a) /\ ~ In (fst p) (map snd diff);
    td_d : forall p, In p diff -> ~ In (fst p) (gsum a) /\ ~ In (fst p) (gsum b) /\ ~ In (snd p) (gsum b) /\ ~ In (snd p) (gred b)
  }.

  (* np.tensordot: the value of the result is the sum, over one index per contracted axis pair (bound wires: the common wire;
     glued pairs: the index lives on a's wire and b reads it through the gluing), of value(a) . value(b) *)
  Theorem gvalue_tensordot a b c same diff :
    gatoms c = gatoms a ++ gatoms b -> gbnd c = same ++ gbnd a ++ gbnd b -> gglue c = diff ++ gglue a ++ gglue b ->
    td_ok a b diff ->
    forall rho, gval c rho = sumb (same ++ map fst diff) (fun r => mul (gval a r) (gval b (glue_asg diff r))) rho.
  Proof.
    intros EA EB EG [Ha Hb Hga Hgb Hd] rho. unfold gvalue at 1. rewrite EA, EB, EG.
    assert (Hagree : forall A r1 r2, (forall x y, In x A -> In y (wires_of x) -> r1 y = r2 y) -> aval A r1 = aval A r2).
    { intros A r1 r2 H. unfold atoms_val. apply (prod_over_ext R one mul). intros x Hx. apply atom_val_agree. intros y Hy. apply (H x y Hx Hy). }
    rewrite (sum_bnd_perm R zero one add mul SR dim _ _ ((same ++ map fst diff) ++ (gsum a ++ gsum b))
               (aval_glue_ext R one mul wires_of tbl _ _)) by (unfold gsum; rewrite !map_app; perm_solve).
    rewrite sum_bnd_app. apply sum_bnd_ext_F. intros r.
    set (Fa := fun r => aval (gatoms a) (glue_asg (gglue a) r)).
    set (Fb := fun r => aval (gatoms b) (glue_asg (gglue b) (glue_asg diff r))).
    rewrite (sum_bnd_ext_F R zero add dim _ _ (fun r => mul (Fa r) (Fb r))).
    - rewrite (sum_join R zero one add mul SR dim).
      + f_equal. unfold gvalue. fold (gsum b).
        apply (sum_bnd_comm_subst R zero add dim (glue_asg diff) (gsum b) (fun r' => aval (gatoms b) (glue_asg (gglue b) r'))).
        * apply aval_glue_ext.
        * intros r1 r2 E x. apply glue_asg_ext. exact E.
        * intros r0 s0 k x Hs. apply glue_asg_upd'.
          -- intros Hc. apply in_map_iff in Hc. destruct Hc as (p & <- & Hp). destruct (Hd p Hp) as (_ & H2 & _). exact (H2 Hs).
          -- intros Hc. apply in_map_iff in Hc. destruct Hc as (p & <- & Hp). destruct (Hd p Hp) as (_ & _ & H3 & _). exact (H3 Hs).
      + (* a's factor does not look at b's summed wires *)
        intros r1 r2 E. unfold Fa. apply Hagree. intros x y Hx Hy. unfold glue_asg.
        destruct (find (fun p => Nat.eqb (snd p) y) (gglue a)) as [p|] eqn:Ef.
        * apply find_some in Ef. apply E. apply (Hga p (proj1 Ef)).
        * apply E. intros Hc. apply (Ha x Hx y Hy). apply in_or_app. left. exact Hc.
      + (* b's factor does not look at a's summed wires *)
        intros r1 r2 E. unfold Fb. apply Hagree. intros x y Hx Hy. unfold glue_asg at 1 3.
        destruct (find (fun p => Nat.eqb (snd p) y) (gglue b)) as [q|] eqn:Ef.
        * apply find_some in Ef. destruct (Hgb q (proj1 Ef)) as [G1 G2]. rewrite !(glue_asg_out diff _ _ G2). apply E. exact G1.
        * unfold glue_asg. destruct (find (fun p => Nat.eqb (snd p) y) diff) as [p|] eqn:Ed.
          -- apply find_some in Ed. destruct (Hd p (proj1 Ed)) as (D1 & _). apply E. exact D1.
          -- apply E. intros Hc. apply (Hb x Hx y Hy). apply in_or_app. left. exact Hc.
    - intros r0. rewrite (atoms_val_app R zero one add mul SR). f_equal.
      + apply Hagree. intros x y Hx Hy.
        rewrite glue_app_r by (intros Hc; apply (Ha x Hx y Hy); apply in_or_app; right; apply in_or_app; right; exact Hc).
        apply glue_app_l. intros Hc. apply (Ha x Hx y Hy). apply in_or_app. right. apply in_or_app. left. exact Hc.
      + apply Hagree. intros x y Hx Hy.
        assert (Hya : ~ In y (gred a)) by (intros Hc; apply (Hb x Hx y Hy); apply in_or_app; right; exact Hc).
        destruct (find (fun p => Nat.eqb (snd p) y) diff) as [p0|] eqn:Ed.
        * pose proof (find_some _ _ Ed) as [Hp0 Es]. apply Nat.eqb_eq in Es. destruct (Hd p0 Hp0) as (_ & _ & _ & D4).
          assert (D4' : ~ In y (gred b)) by (intros Hc; apply D4; unfold wire in *; rewrite Es; exact Hc).
          rewrite (glue_asg_out (gglue b) _ y D4'). unfold glue_asg. unfold wire in *. rewrite (find_app_some _ diff _ p0 Ed), Ed. reflexivity.
        * assert (Hyd : ~ In y (map snd diff)).
          { intros Hc. apply in_map_iff in Hc. destruct Hc as (p & Ep & Hp). pose proof (find_none _ _ Ed p Hp) as Hf. cbn in Hf.
            unfold wire in *. rewrite Ep, Nat.eqb_refl in Hf. discriminate. }
          rewrite (glue_app_r diff _ r0 y Hyd), (glue_app_r (gglue a) _ r0 y Hya).
          unfold glue_asg at 1 2. destruct (find (fun p => Nat.eqb (snd p) y) (gglue b)) as [q|] eqn:Ef.
          -- apply find_some in Ef. destruct (Hgb q (proj1 Ef)) as [_ G2]. symmetry. apply (glue_asg_out diff r0 _ G2).
          -- symmetry. apply (glue_asg_out diff r0 y Hyd).
  Qed.

  (* ... in particular for Blocks.g_tensordot *)
  Theorem gvalue_g_tensordot a b ia ib c : g_tensordot a b ia ib = Some c ->
    let pairs := combine (map (fun i => nth i (gaxes a) 0) ia) (map (fun i => nth i (gaxes b) 0) ib) in
    let same := map fst (filter (fun p => Nat.eqb (fst p) (snd p)) pairs) in
    let diff := filter (fun p => negb (Nat.eqb (fst p) (snd p))) pairs in
    td_ok a b diff ->
    forall rho, gval c rho = sumb (same ++ map fst diff) (fun r => mul (gval a r) (gval b (glue_asg diff r))) rho.
  Proof.
    intros H pairs same diff Hok. unfold g_tensordot in H.
    repeat match type of H with (if ?x then _ else _) = _ => destruct x; [discriminate|] end.
    injection H as <-. apply (gvalue_tensordot a b _ same diff); [reflexivity|reflexivity|reflexivity|exact Hok].
  Qed.
End GTensordot.

(* non-vacuity of td_ok: a leaf tensor (atom 0 on wires 0, 1) against the conjugate copy of a leaf (atom 1 on wires 10, 11)
   over their open legs: contract_leafs *)
Definition tdx_a : garr := {| gaxes := [0; 1]; gatoms := [0]; gbnd := []; gglue := [] |}.
Definition tdx_b : garr := {| gaxes := [10; 11]; gatoms := [1]; gbnd := []; gglue := [] |}.
Definition tdx_wires (x : nat) : list wire := match x with 0 => [0; 1] | 1 => [10; 11] | _ => [] end.
Example tdx_ok : g_tensordot tdx_a tdx_b [1] [1]
                 = Some {| gaxes := [0; 10]; gatoms := [0; 1]; gbnd := []; gglue := [(1, 11)] |} /\
                 td_ok tdx_wires tdx_a tdx_b [(1, 11)].
Proof.
  split; [vm_compute; reflexivity|]. constructor; cbn.
  - intros x [<-|[]] y Hy. cbn in Hy |- *. intuition lia.
  - intros x [<-|[]] y Hy Hc. destruct Hc.
  - intros p [].
  - intros p [].
  - intros p [<-|[]]. cbn. tauto.
Qed.
