(* Property C04, the bridge between the STORE and the abstract isometry theorem of Contr/TensorProdSem.v.
   Definitions only (executable where possible); the proofs are in TensorProdBridgeProofs.v.

   1. a Sem.value-style semantics for the glued diagrams of Contr/Blocks.v (garr with gglue);
   2. the world of a pair of states (ket, conjugate copy) : atom wires and dimensions of both;
   3. the tree of a store re-rooted at the orthogonality centre, read off by the same recursion as
      Canon.dist_rec / distance_to_node;
   4. the bond wires, factors and the kernel contract (Q of every recorded QR call is an isometry)
      in the vocabulary of the store. *)
From Coq Require Import List Arith Bool Permutation.
From PTN Require Import TTN.Store TTN.Inv Wire.Sem TTN.InvSem TTN.Canon TTN.CanonDist
  Contr.Blocks Contr.Closed Contr.TensorProd Contr.TensorProdSem.
Import ListNotations.

(* ==== 1. the denotation of a glued diagram ==================================================================== *)
(* a glued pair (w, w') says that the legs w and w' were contracted with each other by a tensordot although
   they are different wires (legs of different networks): both carry the same summation index.  The index lives
   on the first wire; reading the second wire gives the index of the first. *)
Definition glue_asg (G : list (wire * wire)) (r : wire -> nat) : wire -> nat :=
  fun w => match find (fun p => Nat.eqb (snd p) w) G with Some p => r (fst p) | None => r w end.

Section GSem.
  Variable R : Type.
  Variables (zero one : R) (add mul : R -> R -> R).
  Variable wires_of : nat -> list wire.
  Variable dim : wire -> nat.
  Variable tbl : nat -> list nat -> R.

  (* SUM over the bound wires and over one index per glued pair of the product of the atoms *)
  Definition gvalue (g : garr) (rho : wire -> nat) : R :=
    sum_bnd R zero add dim (gbnd g ++ map fst (gglue g))
      (fun r => atoms_val R one mul wires_of tbl (gatoms g) (glue_asg (gglue g) r)) rho.
End GSem.

(* ==== 2. the world of two networks ================================================================================ *)
Definition pair_wires (ket bra : store) (a : nat) : list wire :=
  match aget a (atab ket) with Some ws => ws | None => atom_wires bra a end.
Definition pair_dim (ket bra : store) (w : wire) : nat :=
  match aget w (dims ket) with Some d => d | None => wdim bra w end.

(* ==== 3. the tree around the centre ================================================================================= *)
(* the DFS of Canon.dist_rec, returning the tree instead of the distance table (a list with at most one element,
   empty when the fuel runs out or the node is unknown, exactly where dist_rec returns the empty table) *)
Fixpoint ctree (fuel : nat) (s : store) (cur : id) (last : option id) : list rt :=
  match fuel with
  | O => []
  | S f =>
      match aget cur (nodes s) with
      | None => []
      | Some n => [RN cur (flat_map (fun nb => ctree f s nb (Some cur)) (nbs_of last n))]
      end
  end.
Definition centre_tree (s : store) (c : id) : rt :=
  match ctree (length (nodes s)) s c None with T :: _ => T | [] => RN c [] end.

(* ==== 4. bonds, factors, contracts ================================================================================== *)
(* the wire of the tree edge between the adjacent nodes a and b: the parent-leg wire of whichever is the child *)
Definition ewire (s : store) (a b : id) : wire :=
  match aget a (nodes s) with
  | Some na => if opt_eqb (parent na) (Some b) then up_wire s a else up_wire s b
  | None => 0
  end.

(* the neighbour of m that is one step closer to the centre c (Canon.toward, the one iso_check uses) *)
Definition tpar (s : store) (c m : id) : option id :=
  match aget m (nodes s) with
  | Some nd => toward s (distance_to_node s c) nd
  | None => None
  end.

(* ket copy / conjugate copy of the bond from m toward the centre; the centre itself has no such bond and gets two
   wires outside both copies (ket wires are < woff, the conjugate copy's are in [woff, 2 woff) ) *)
Definition bond_u (woff : nat) (s : store) (c m : id) : wire :=
  if Nat.eqb m c then woff + woff
  else match tpar s c m with Some p => ewire s m p | None => 0 end.
Definition bond_u' (woff : nat) (s : store) (c m : id) : wire :=
  if Nat.eqb m c then S (woff + woff) else woff + bond_u woff s c m.
Definition open_o (s : store) (m : id) : list wire := [open_wire s m].

(* the glued pairs of <psi|psi>: open leg of every node with the open leg of its conjugate copy; with an operator
   applied at the centre c the ket-side leg of c is the operator's output wire co *)
Definition ket_open (s : store) (c : id) (co : wire) (m : id) : wire := if Nat.eqb m c then co else open_wire s m.
Definition glue_pairs (woff : nat) (s : store) (c : id) (co : wire) (ns : list id) : list (wire * wire) :=
  map (fun m => (ket_open s c co m, woff + open_wire s m)) ns.

(* a world extended by one atom (the single-site operator) and the dimension of its wires *)
Definition ext_wires (W : nat -> list wire) (a : nat) (ws : list wire) : nat -> list wire :=
  fun x => if Nat.eqb x a then ws else W x.
Definition ext_dim (D : wire -> nat) (ws : list wire) (dd : nat) : wire -> nat :=
  fun w => if memb w ws then dd else D w.

Section Factors.
  Variable R : Type.
  Variables (zero one : R) (add mul : R -> R -> R).
  Variables (aoff : nat) (s : store).
  Variable tbl : nat -> list nat -> R.

  (* THE KERNEL CONTRACT for one recorded QR call: the Q factor is an isometry from its bond -- summing over the
     wires of its other axes, Q times its conjugate twin (the atom aoff + kq, read at the same indices except i' on
     the bond axis) is delta(bond index, i').  A statement about the atom table only. *)
  Definition q_iso (df : kdef) : Prop :=
    let q := kq df in
    let b := kbond df in
    let ws := atom_wires s q in
    forall rho i', rho b < wdim s b -> i' < wdim s b ->
      sum_bnd R zero add (wdim s) (remove_first b ws)
        (fun r => mul (tbl q (map r ws)) (tbl (aoff + q) (map (upd r b i') ws))) rho
      = delta R zero one (rho b) i'.

  (* ... for every recorded QR call whose Q factor is still a tensor of the network *)
  Definition qr_contracts : Prop :=
    forall df, In df (defs s) -> kkind df = 0 -> In (kq df) (total_atoms s) -> q_iso df.
End Factors.

(* a node whose tensor is a plain atom: nothing summed inside, the atom's axes are the tensor's axes *)
Definition plain_node (s : store) (k : id) : Prop :=
  exists t, aget k (tensors s) = Some t /\ bnd t = [] /\
            forall a, atoms t = [a] -> Permutation (atom_wires s a) (axes t).
Definition plain_nodeb (s : store) (k : id) : bool :=
  match aget k (tensors s) with
  | Some t => match bnd t, atoms t with
              | [], [a] => perm_of_nodupb (atom_wires s a) (axes t)
              | _, _ => false
              end
  | None => false
  end.
(* every node off the centre is plain *)
Definition plain_off (s : store) (c : id) : Prop := forall k, In k (akeys (nodes s)) -> k <> c -> plain_node s k.
Definition plain_offb (s : store) (c : id) : bool :=
  forallb (fun k => Nat.eqb k c || plain_nodeb s k) (akeys (nodes s)).

(* one open leg per node (a state) *)
Definition one_open (s : store) : Prop := forall k nd, aget k (nodes s) = Some nd -> nopen nd = 1.
Definition one_openb (s : store) : bool := forallb (fun kn => Nat.eqb (nopen (snd kn)) 1) (nodes s).

(* executable form of the structural hypotheses of the bridge theorem *)
Definition canon_hyp (woff aoff : nat) (s : store) (c : id) : bool :=
  wfsb s && amem c (nodes s) && iso_check (s, Some c) && one_openb s && plain_offb s c
  && Nat.ltb 0 woff && Nat.leb (next_wire s) woff && Nat.leb (next_atom s) aoff.

(* per-instance driver for the harness: the model's canonical form (centre c, REDUCED mode, temporary identifier 4999) of
   the state built by kops satisfies the structural hypotheses of the bridge theorems *)
Definition canon_case (kops : list op) (c : id) (woff aoff : nat) : bool :=
  let s := fst (run empty_store kops) in
  match canonical_form (s, None) c Reduced 4999 with
  | Some cs => canon_hyp woff aoff (fst cs) c
  | None => false
  end.
