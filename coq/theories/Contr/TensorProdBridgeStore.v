(* Property C04: the store-level part of the bridge (Contr/TensorProdBridge.v).  For a well-formed state s whose
   recorded orthogonality centre c passes Canon.iso_check, under the kernel contract "the Q factor of every recorded QR
   call is an isometry", the value of the full closed network <psi|psi> produced by contract_two_ttns equals the value of
   the local diagram produced by the centre shortcut. *)
From Coq Require Import List Arith Bool Lia Permutation.
From PTN Require Import TTN.Store TTN.StoreProofs TTN.Inv TTN.InvProofs TTN.InvNode Wire.Sem Wire.SemProofs
  TTN.InvContract TTN.InvSem TTN.InvSemProofs TTN.InvSemOps TTN.InvSemValue
  TTN.Canon TTN.CanonProofs TTN.CanonTree TTN.CanonDist TTN.CanonIso
  Contr.Blocks Contr.Closed Contr.ClosedProofs Contr.TensorProd Contr.TensorProdProofs Contr.TensorProdSem
  Contr.TensorProdBridge Contr.TensorProdBridgeProofs.
Import ListNotations.

(* ---- association lists with shifted keys ------------------------------------------------------------------------- *)
Lemma aget_shift {V V'} (off : nat) (g : V -> V') (l : list (nat * V)) k :
  aget (off + k) (map (fun kv => (off + fst kv, g (snd kv))) l) = option_map g (aget k l).
Proof.
  induction l as [|[k' v] t IH]; [reflexivity|]. cbn [map aget fst snd].
  destruct (Nat.eqb_spec k k') as [->|Hne].
  - rewrite Nat.eqb_refl. reflexivity.
  - destruct (Nat.eqb_spec (off + k) (off + k')) as [E|_]; [lia|exact IH].
Qed.

Lemma aget_shift_low {V V'} (off : nat) (g : V -> V') (l : list (nat * V)) k : k < off ->
  aget k (map (fun kv => (off + fst kv, g (snd kv))) l) = None.
Proof.
  intros Hk. induction l as [|[k' v] t IH]; [reflexivity|]. cbn [map aget fst snd].
  destruct (Nat.eqb_spec k (off + k')) as [E|_]; [lia|exact IH].
Qed.

Lemma aget_none_high {V} (l : list (nat * V)) b k : (forall x, In x (akeys l) -> x < b) -> b <= k -> aget k l = None.
Proof.
  intros H Hk. destruct (aget k l) as [v|] eqn:E; [|reflexivity]. apply aget_Some_keys in E. apply H in E. lia.
Qed.

Lemma sum_bnd_dim_ext {R} (zero : R) add (dim dim' : wire -> nat) ws : (forall w, In w ws -> dim w = dim' w) ->
  forall F r, sum_bnd R zero add dim ws F r = sum_bnd R zero add dim' ws F r.
Proof.
  induction ws as [|w t IH]; intros H F r; cbn [sum_bnd]; [reflexivity|].
  rewrite (H w (or_introl eq_refl)). apply sum_upto_ext. intros k _. apply IH. intros x Hx. apply H. right. exact Hx.
Qed.

Lemma nth_map_lt {A B} (f : A -> B) l n d d' : n < length l -> nth n (map f l) d' = f (nth n l d).
Proof. revert n. induction l as [|a t IH]; intros [|n] H; cbn in *; try lia; [reflexivity|apply IH; lia]. Qed.

Lemma glue_asg_upd G r b k x : ~ In b (map fst G) -> ~ In b (map snd G) ->
  glue_asg G (upd r b k) x = upd (glue_asg G r) b k x.
Proof.
  intros H1 H2. destruct (Nat.eqb_spec x b) as [->|Hne].
  - rewrite upd_same. unfold glue_asg. rewrite (find_snd_none G b H2). apply upd_same.
  - rewrite (upd_other _ b k x Hne). unfold glue_asg.
    destruct (find (fun p => Nat.eqb (snd p) x) G) as [p|] eqn:E.
    + apply find_some in E. destruct E as [Hp _]. apply upd_other. intros Hc. apply H1. rewrite <- Hc. apply in_map. exact Hp.
    + apply upd_other. exact Hne.
Qed.

Lemma glue_snoc_other G p r y : snd p <> y -> glue_asg (G ++ [p]) r y = glue_asg G r y.
Proof.
  intros H. unfold glue_asg. unfold wire in *. induction G as [|q t IH]; cbn [app find].
  - destruct (Nat.eqb (snd p) y) eqn:E; [apply Nat.eqb_eq in E; contradiction|reflexivity].
  - destruct (Nat.eqb (snd q) y); [reflexivity|exact IH].
Qed.

Lemma glue_snoc_hit G p r : ~ In (snd p) (map snd G) -> glue_asg (G ++ [p]) r (snd p) = r (fst p).
Proof.
  intros H. unfold glue_asg. unfold wire in *. induction G as [|q t IH]; cbn [app find].
  - rewrite Nat.eqb_refl. reflexivity.
  - destruct (Nat.eqb (snd q) (snd p)) eqn:E; [apply Nat.eqb_eq in E; exfalso; apply H; left; exact E|].
    apply IH. intros Hc. apply H. right. exact Hc.
Qed.

(* ================================================================================================================ *)
(* the world of a state and its conjugate copy *)
Section PairWorld.
  Variables (woff aoff : nat) (s : store).
  Hypothesis WS : wfs s.
  Hypothesis Hw : next_wire s <= woff.
  Hypothesis Ha : next_atom s <= aoff.
  Let bra := conj_store woff aoff s.

  Lemma pw_ket a : In a (total_atoms s) -> pair_wires s bra a = atom_wires s a.
  Proof.
    intros H. pose proof (ws_atoms_tab s WS a H) as Hm. apply amem_aget in Hm. destruct Hm as [ws E].
    unfold pair_wires, atom_wires. rewrite E. reflexivity.
  Qed.

  Lemma pw_bra a : a < next_atom s -> pair_wires s bra (aoff + a) = map (Nat.add woff) (atom_wires s a).
  Proof.
    intros H. unfold pair_wires. rewrite (atab_fresh s (aoff + a) WS) by lia.
    unfold atom_wires, bra, conj_store. cbn [atab]. clear. induction (atab s) as [|[k ws] t IH]; [reflexivity|].
    cbn [map aget fst snd]. destruct (Nat.eqb_spec a k) as [->|Hne]; [rewrite Nat.eqb_refl; reflexivity|].
    destruct (Nat.eqb_spec (aoff + a) (aoff + k)) as [E|_]; [lia|exact IH].
  Qed.

  Lemma pd_ket w : w < woff -> pair_dim s bra w = wdim s w.
  Proof.
    intros H. unfold pair_dim, wdim. destruct (aget w (dims s)) as [d|] eqn:E; [reflexivity|].
    unfold bra, conj_store. cbn [dims]. rewrite (aget_shift_low woff (fun d => d) (dims s) w H). reflexivity.
  Qed.

  Lemma pd_bra w : pair_dim s bra (woff + w) = wdim s w.
  Proof.
    unfold pair_dim. rewrite (aget_none_high (dims s) (next_wire s) (woff + w)) by (try apply (wf_dims s (ws_wf s WS)); lia).
    unfold wdim, bra, conj_store. cbn [dims]. rewrite (aget_shift woff (fun d => d) (dims s) w).
    destruct (aget w (dims s)); reflexivity.
  Qed.
End PairWorld.

(* ================================================================================================================ *)
Section Bridge.
  Variable R : Type.
  Variables (zero one : R) (add mul : R -> R -> R).
  Hypothesis SR : comm_semiring zero one add mul.
  Variables (woff aoff : nat) (s : store).
  Variable tbl : nat -> list nat -> R.

  Hypothesis WS : wfs s.
  Hypothesis Hw0 : 0 < woff.
  Hypothesis Hw : next_wire s <= woff.
  Hypothesis Ha : next_atom s <= aoff.

  (* the world: any atom-wire table and dimension function that agree with the state and its conjugate copy on their
     atoms and wires (the pair world of TensorProdBridge.v, or an extension of it by further atoms and wires) *)
  Variable Wr : nat -> list wire.
  Variable Dm : wire -> nat.
  Hypothesis Wr_ket : forall a, In a (total_atoms s) -> Wr a = atom_wires s a.
  Hypothesis Wr_bra : forall a, a < next_atom s -> Wr (aoff + a) = map (Nat.add woff) (atom_wires s a).
  Hypothesis Dm_ket : forall w, w < next_wire s -> Dm w = wdim s w.
  Hypothesis Dm_bra : forall w, w < next_wire s -> Dm (woff + w) = wdim s w.

  Let bra := conj_store woff aoff s.
  Let Wf : wf s := ws_wf s WS.
  Let TS : tstruct (nodes s) := wf_tstruct s Wf.

  Local Notation sumb := (sum_bnd R zero add Dm).
  Local Notation aval := (atoms_val R one mul Wr tbl).
  Local Notation gval := (gvalue R zero one add mul Wr Dm tbl).
  Local Notation val := (value R zero one add mul Wr Dm tbl).

  (* ---- what the stores say about a node ------------------------------------------------------------------------ *)
  Lemma t_views m kn tm : aget m (nodes s) = Some kn -> aget m (tensors s) = Some tm ->
    t_axes s m = lax s m kn /\ t_atoms s m = atoms tm /\ t_bnd s m = bnd tm /\ tens s m = tm.
  Proof.
    intros E1 E2. unfold t_axes, t_atoms, t_bnd, tensor_of, logical, lax, laxes, tens. rewrite E1, E2. cbn. auto.
  Qed.

  Lemma node_tensor m kn : aget m (nodes s) = Some kn -> exists tm, aget m (tensors s) = Some tm.
  Proof. intros E. apply amem_aget. apply (ni_t _ _ _ (wf_node s Wf m kn E)). Qed.

  (* privacy and ranges of the wires (from the extended invariant) *)
  Lemma F_closed m tm a y : aget m (tensors s) = Some tm -> In a (atoms tm) -> In y (atom_wires s a) -> In y (axes tm) \/ In y (bnd tm).
  Proof. intros E Ha' Hy. exact (ws_closed s WS m tm E a Ha' y Hy). Qed.

  Lemma F_axes_nw m tm y : aget m (tensors s) = Some tm -> In y (axes tm) -> y < next_wire s.
  Proof. intros E Hy. exact (wf_wires s Wf m tm y E Hy). Qed.

  Lemma F_bnd_nw m tm y : aget m (tensors s) = Some tm -> In y (bnd tm) -> y < next_wire s.
  Proof. intros E Hy. exact (ws_bnd_lt s WS y (total_bnd_In s m tm y (aget_In _ _ _ E) Hy)). Qed.

  Lemma F_axes_lt m tm y : aget m (tensors s) = Some tm -> In y (axes tm) -> y < woff.
  Proof. intros E Hy. pose proof (F_axes_nw m tm y E Hy). lia. Qed.

  Lemma F_bnd_lt m tm y : aget m (tensors s) = Some tm -> In y (bnd tm) -> y < woff.
  Proof. intros E Hy. pose proof (F_bnd_nw m tm y E Hy). lia. Qed.

  Lemma F_bnd_axes m tm m' tm' y : aget m (tensors s) = Some tm -> aget m' (tensors s) = Some tm' ->
    In y (bnd tm) -> ~ In y (axes tm').
  Proof.
    intros E E' Hy Hc. apply (ws_bnd_ax s WS y (total_bnd_In s m tm y (aget_In _ _ _ E) Hy)).
    apply (total_axes_In' s m' tm' y (aget_In _ _ _ E') Hc).
  Qed.

  Lemma F_bnd_disj m tm m' tm' y : aget m (tensors s) = Some tm -> aget m' (tensors s) = Some tm' -> m <> m' ->
    In y (bnd tm) -> ~ In y (bnd tm').
  Proof.
    intros E E' Hne Hy Hc. pose proof (ws_bnd_nd s WS) as Hnd. unfold total_bnd in Hnd.
    apply (NoDup_flat_map_assoc _ _ (wf_tnd s Wf)) in Hnd. destruct Hnd as [_ Hd].
    apply Hne. apply (Hd m tm m' tm' y E E' Hy Hc).
  Qed.

  Lemma F_bnd_nodup m tm : aget m (tensors s) = Some tm -> NoDup (bnd tm).
  Proof.
    intros E. pose proof (ws_bnd_nd s WS) as Hnd. unfold total_bnd in Hnd.
    apply (NoDup_flat_map_assoc _ _ (wf_tnd s Wf)) in Hnd. destruct Hnd as [Hn _]. apply (Hn m tm E).
  Qed.

  Lemma F_atom_in m tm a : aget m (tensors s) = Some tm -> In a (atoms tm) -> In a (total_atoms s).
  Proof. intros E Ha'. apply (total_atoms_In s m tm a (aget_In _ _ _ E) Ha'). Qed.

  Lemma F_Wr_ket m tm a : aget m (tensors s) = Some tm -> In a (atoms tm) -> Wr a = atom_wires s a.
  Proof. intros E Ha'. apply Wr_ket. eapply F_atom_in; eauto. Qed.

  Lemma F_Wr_bra m tm a : aget m (tensors s) = Some tm -> In a (atoms tm) -> Wr (aoff + a) = map (Nat.add woff) (atom_wires s a).
  Proof. intros E Ha'. apply Wr_bra. apply (ws_atoms_lt s WS). eapply F_atom_in; eauto. Qed.

  (* ---- one node against its conjugate copy, under a gluing -------------------------------------------------------- *)
  Lemma aval_agree A r r' : (forall a y, In a A -> In y (Wr a) -> r y = r' y) -> aval A r = aval A r'.
  Proof.
    intros H. unfold atoms_val. apply (prod_over_ext R one mul). intros a Ha'. apply atom_val_agree. intros y Hy. apply (H a y Ha' Hy).
  Qed.

  (* a gluing that may be applied around the tensor tm: it only redirects wires of the conjugate copy, never from or
     to a wire summed inside tm or its copy *)
  Definition gl_ok (G : list (wire * wire)) (tm : sarr) : Prop :=
    forall p, In p G -> woff <= snd p /\ fst p < woff /\ ~ In (fst p) (bnd tm) /\ ~ In (snd p) (map (Nat.add woff) (bnd tm)).

  Lemma glue_low G tm r y : gl_ok G tm -> y < woff -> glue_asg G r y = r y.
  Proof.
    intros HG Hy. apply glue_asg_out. intros Hc. apply in_map_iff in Hc. destruct Hc as (p & E & Hp).
    destruct (HG p Hp) as (H1 & _). lia.
  Qed.

  Lemma node_pair_sum m tm G r : aget m (tensors s) = Some tm -> gl_ok G tm ->
    sumb (bnd tm ++ map (Nat.add woff) (bnd tm))
         (fun r => aval (atoms tm ++ map (Nat.add aoff) (atoms tm)) (glue_asg G r)) r
    = mul (val tm r) (val (conj_sarr woff aoff tm) (glue_asg G r)).
  Proof.
    intros E HG.
    set (F := fun r => aval (atoms tm) (glue_asg G r)).
    set (G0 := fun r => aval (map (Nat.add aoff) (atoms tm)) (glue_asg G r)).
    rewrite (sum_bnd_ext_F R zero add Dm _ _ (fun r => mul (F r) (G0 r))) by (intros r0; apply (atoms_val_app R zero one add mul SR)).
    assert (HFlow : forall r0, F r0 = aval (atoms tm) r0).
    { intros r0. apply aval_agree. intros a y Ha' Hy. rewrite (F_Wr_ket m tm a E Ha') in Hy.
      apply (glue_low G tm r0 y HG). destruct (F_closed m tm a y E Ha' Hy) as [H|H]; [eapply F_axes_lt|eapply F_bnd_lt]; eauto. }
    rewrite (sum_join R zero one add mul SR Dm).
    - f_equal.
      + unfold value. apply sum_bnd_ext_F. exact HFlow.
      + unfold value, conj_sarr. cbn [bnd atoms]. unfold G0.
        apply (sum_bnd_comm_subst R zero add Dm (glue_asg G)).
        * apply atoms_val_ext.
        * intros r1 r2 E12 x. apply glue_asg_ext. exact E12.
        * intros r0 b k x Hb. apply glue_asg_upd.
          -- intros Hc. apply in_map_iff in Hc. destruct Hc as (p & Ep & Hp). destruct (HG p Hp) as (_ & H2 & _).
             apply in_map_iff in Hb. destruct Hb as (b0 & <- & _). lia.
          -- intros Hc. apply in_map_iff in Hc. destruct Hc as (p & Ep & Hp). destruct (HG p Hp) as (_ & _ & _ & H4).
             apply H4. rewrite Ep. exact Hb.
    - intros r1 r2 E12. rewrite !HFlow. apply aval_agree. intros a y Ha' Hy. apply E12.
      rewrite (F_Wr_ket m tm a E Ha') in Hy.
      assert (y < woff) by (destruct (F_closed m tm a y E Ha' Hy) as [H|H]; [eapply F_axes_lt|eapply F_bnd_lt]; eauto).
      intros Hc. apply in_map_iff in Hc. destruct Hc as (b0 & Eb & _). lia.
    - intros r1 r2 E12. unfold G0. apply aval_agree. intros a' y Ha' Hy.
      apply in_map_iff in Ha'. destruct Ha' as (a & <- & Ha'). rewrite (F_Wr_bra m tm a E Ha') in Hy.
      apply in_map_iff in Hy. destruct Hy as (w & <- & Hw').
      unfold glue_asg. destruct (find (fun p => Nat.eqb (snd p) (woff + w)) G) as [p|] eqn:Ef.
      + apply find_some in Ef. destruct Ef as [Hp _]. destruct (HG p Hp) as (_ & _ & H3 & _). apply E12. exact H3.
      + apply E12. intros Hc. pose proof (F_bnd_lt m tm _ E Hc). lia.
  Qed.

  (* ================================================================================================================ *)
  Variable t : rt.
  Hypothesis WT : wf_two s bra t.
  Hypothesis Ht : Permutation (rnodes t) (akeys (nodes s)).
  Variable c : id.
  Hypothesis Hc : amem c (nodes s) = true.

  Let T := centre_tree s c.
  Let dtab := distance_to_node s c.
  Let d := dget dtab.
  Let u := bond_u woff s c.
  Let u' := bond_u' woff s c.
  (* the ket-side open wire of the centre: its own open wire, or a fresh wire (the output wire of an operator) *)
  Variable co : wire.
  Hypothesis Hco : co = open_wire s c \/ (next_wire s <= co /\ co < woff).
  Let kop := ket_open s c co.
  Let o := fun m : id => [kop m].

  Lemma kop_off m : m <> c -> kop m = open_wire s m.
  Proof. intros H. unfold kop, ket_open. destruct (Nat.eqb_spec m c); [contradiction|reflexivity]. Qed.
  Lemma kop_c : kop c = co.
  Proof. unfold kop, ket_open. rewrite Nat.eqb_refl. reflexivity. Qed.

  Lemma node_view m : In m (akeys (nodes s)) -> exists kn tm,
    aget m (nodes s) = Some kn /\ aget m (tensors s) = Some tm /\ NoDup (neighbouring_nodes kn) /\
    t_axes s m = opt_list (parent kn) (up_wire s m) ++ map (up_wire s) (children kn) ++ [open_wire s m].
  Proof.
    intros Hm. destruct WT as (_ & _ & _ & Hsub).
    destruct (wf_sub_node s bra t None Hsub m (Permutation_in _ (Permutation_sym Ht) Hm)) as (q & cs & kn & bn & E1 & _ & P1 & _ & C1 & _ & ND & AX & _).
    destruct (node_tensor m kn E1) as [tm E2]. exists kn, tm. subst q cs. auto.
  Qed.

  Lemma own_view m kn tm : aget m (nodes s) = Some kn -> aget m (tensors s) = Some tm ->
    t_axes s m = opt_list (parent kn) (up_wire s m) ++ map (up_wire s) (children kn) ++ [open_wire s m] ->
    own_of kn (tens s m) = opt_list (parent kn) (up_wire s m) ++ [open_wire s m].
  Proof.
    intros E1 E2 AX. destruct (t_views m kn tm E1 E2) as (V1 & _ & _ & V4). unfold own_of.
    change (laxes kn (tens s m)) with (lax s m kn). rewrite <- V1, AX. unfold nvirt, nparents.
    destruct (parent kn) as [p|]; cbn [opt_list app length firstn skipn Nat.add].
    - f_equal. rewrite <- (map_length (up_wire s) (children kn)). rewrite skipn_app, skipn_all, Nat.sub_diag. reflexivity.
    - rewrite <- (map_length (up_wire s) (children kn)). rewrite skipn_app, skipn_all, Nat.sub_diag. reflexivity.
  Qed.

  (* distinctness of the edge wires and the open wires (every one of them is owned by exactly one node) *)
  Lemma own_wires_inj m m' w : In m (akeys (nodes s)) -> In m' (akeys (nodes s)) ->
    forall kn kn', aget m (nodes s) = Some kn -> aget m' (nodes s) = Some kn' ->
    In w (opt_list (parent kn) (up_wire s m) ++ [open_wire s m]) ->
    In w (opt_list (parent kn') (up_wire s m') ++ [open_wire s m']) -> m = m'.
  Proof.
    intros Hm Hm' kn kn' E E' H1 H2.
    destruct (node_view m Hm) as (k1 & t1 & A1 & A2 & _ & A4). destruct (node_view m' Hm') as (k2 & t2 & B1 & B2 & _ & B4).
    assert (k1 = kn) by congruence. assert (k2 = kn') by congruence. subst k1 k2.
    rewrite <- (own_view m kn t1 A1 A2 A4) in H1. rewrite <- (own_view m' kn' t2 B1 B2 B4) in H2.
    apply (wf_own2 s Wf m kn m' kn' w E E' H1 H2).
  Qed.

  Lemma open_wire_inj m m' : In m (akeys (nodes s)) -> In m' (akeys (nodes s)) -> open_wire s m = open_wire s m' -> m = m'.
  Proof.
    intros Hm Hm' E. destruct (keys_aget _ _ Hm) as [kn E1]. destruct (keys_aget _ _ Hm') as [kn' E2].
    apply (own_wires_inj m m' (open_wire s m) Hm Hm' kn kn' E1 E2); apply in_or_app; right; left; [reflexivity|symmetry; exact E].
  Qed.

  Lemma up_wire_inj m m' kn kn' p p' : aget m (nodes s) = Some kn -> aget m' (nodes s) = Some kn' ->
    parent kn = Some p -> parent kn' = Some p' -> up_wire s m = up_wire s m' -> m = m'.
  Proof.
    intros E1 E2 P1 P2 E.
    apply (own_wires_inj m m' (up_wire s m) (aget_Some_keys _ _ _ E1) (aget_Some_keys _ _ _ E2) kn kn' E1 E2).
    - rewrite P1. left. reflexivity.
    - rewrite P2. left. symmetry. exact E.
  Qed.

  Lemma up_open_neq m m' kn p : aget m (nodes s) = Some kn -> parent kn = Some p -> In m' (akeys (nodes s)) ->
    up_wire s m <> open_wire s m'.
  Proof.
    intros E1 P1 Hm' E. destruct (keys_aget _ _ Hm') as [kn' E2].
    assert (m = m').
    { apply (own_wires_inj m m' (up_wire s m) (aget_Some_keys _ _ _ E1) Hm' kn kn' E1 E2).
      - rewrite P1. left. reflexivity.
      - apply in_or_app. right. left. symmetry. exact E. }
    subst m'. assert (kn' = kn) by congruence. subst kn'.
    destruct (node_view m Hm') as (k1 & t1 & A1 & A2 & _ & A4). assert (k1 = kn) by congruence. subst k1.
    pose proof (wf_own1 s Wf m kn E1) as Hnd. rewrite (own_view m kn t1 A1 A2 A4), P1 in Hnd. cbn in Hnd.
    inversion Hnd as [|? ? Hni _]; subst. apply Hni. left. symmetry. exact E.
  Qed.

  (* ---- edge wires --------------------------------------------------------------------------------------------------- *)
  Lemma ewire_par m kn p : aget m (nodes s) = Some kn -> parent kn = Some p -> ewire s m p = up_wire s m.
  Proof. intros E P. unfold ewire. rewrite E, P. cbn. rewrite Nat.eqb_refl. reflexivity. Qed.

  Lemma ewire_child m kn x : aget m (nodes s) = Some kn -> In x (children kn) -> ewire s m x = up_wire s x.
  Proof.
    intros E Hx. unfold ewire. rewrite E. destruct (parent kn) as [p|] eqn:P; cbn; [|reflexivity].
    destruct (Nat.eqb_spec p x) as [->|_]; [|reflexivity]. exfalso. exact (ts_parent_not_child _ _ _ _ TS E P Hx).
  Qed.

  Lemma ewire_sym m kn y : aget m (nodes s) = Some kn -> In y (neighbouring_nodes kn) -> ewire s m y = ewire s y m.
  Proof.
    intros E Hy. apply in_neighbouring in Hy. destruct Hy as [P|Hch].
    - rewrite (ewire_par m kn y E P). destruct (ts_par _ TS m kn y E P) as (ny & Ey & Hin).
      symmetry. apply (ewire_child y ny m Ey Hin).
    - rewrite (ewire_child m kn y E Hch). destruct (ts_ch _ TS m kn y E Hch) as (ny & Ey & Py).
      symmetry. apply (ewire_par y ny m Ey Py).
  Qed.

  Lemma axes_ewire m kn : aget m (nodes s) = Some kn ->
    t_axes s m = map (ewire s m) (neighbouring_nodes kn) ++ [open_wire s m].
  Proof.
    intros E. destruct (node_view m (aget_Some_keys _ _ _ E)) as (k1 & t1 & A1 & _ & _ & A4). assert (k1 = kn) by congruence. subst k1.
    rewrite A4. unfold neighbouring_nodes. destruct (parent kn) as [p|] eqn:P; cbn [opt_list map app].
    - rewrite (ewire_par m kn p E P). f_equal. f_equal. apply map_ext_in. intros x Hx. symmetry. apply (ewire_child m kn x E Hx).
    - f_equal. apply map_ext_in. intros x Hx. symmetry. apply (ewire_child m kn x E Hx).
  Qed.

  (* the bond recorded by iso_check: the wire on the leg toward the neighbour nb *)
  Lemma leg_wire m kn tm nb leg : aget m (nodes s) = Some kn -> aget m (tensors s) = Some tm ->
    neighbour_index kn nb = Some leg -> nth (nth leg (perm kn) 0) (axes tm) 0 = ewire s m nb.
  Proof.
    intros E1 E2 Hl. destruct (t_views m kn tm E1 E2) as (V1 & _ & _ & V4).
    rewrite neighbour_index_nbs in Hl. apply idx_some in Hl. destruct Hl as [Hlt Hnth].
    pose proof (axes_ewire m kn E1) as AX. rewrite V1 in AX. unfold lax, laxes in AX. rewrite V4 in AX. unfold permute in AX.
    assert (Hlen : length (perm kn) = length (neighbouring_nodes kn) + 1).
    { apply (f_equal (@length _)) in AX. rewrite map_length, app_length, map_length in AX. exact AX. }
    transitivity (nth leg (map (fun i => nth i (axes tm) 0) (perm kn)) 0).
    - symmetry. apply (nth_map_lt (fun i => nth i (axes tm) 0) (perm kn) leg 0 0). nlia.
    - etransitivity; [exact (f_equal (fun l => nth leg l 0) AX)|]. cbv beta.
      rewrite app_nth1 by (rewrite map_length; exact Hlt).
      rewrite (nth_map_lt (ewire s m) (neighbouring_nodes kn) leg 0 0 Hlt). f_equal. exact Hnth.
  Qed.

  (* ---- distances and the neighbour toward the centre ------------------------------------------------------------ *)
  Lemma d_centre : d c = 0.
  Proof. apply dist_centre. exact Hc. Qed.

  Lemma d_adj m kn p : aget m (nodes s) = Some kn -> In p (neighbouring_nodes kn) -> S (d p) = d m \/ d p = S (d m).
  Proof.
    intros E Hp. destruct (Nat.eq_dec m c) as [->|Hne].
    - right. unfold d, dtab. rewrite (dist_centre_nbrs s c kn p TS E Hp). rewrite dist_centre by exact Hc. reflexivity.
    - destruct (dist_step s c m kn TS Hc E Hne) as (nb & Hnb & Hd & Hoth).
      destruct (Nat.eq_dec p nb) as [->|Hp']; [left; exact Hd|right; apply (Hoth p Hp Hp')].
  Qed.

  Lemma tpar_char x kn p : aget x (nodes s) = Some kn -> In p (neighbouring_nodes kn) -> S (d p) = d x ->
    tpar s c x = Some p.
  Proof.
    intros E Hp Hd. assert (Hne : x <> c) by (intros ->; rewrite d_centre in Hd; discriminate).
    unfold tpar, toward. rewrite E. destruct (dist_step s c x kn TS Hc E Hne) as (nb & Hnb & Hd1 & Hoth).
    assert (p = nb).
    { destruct (Nat.eq_dec p nb) as [|Hp']; [assumption|]. pose proof (Hoth p Hp Hp') as H. fold dtab in H. fold (d p) in H. fold (d x) in H. lia. }
    subst nb. apply first_min_unique; [exact Hp|]. intros y Hy Hyp. rewrite (Hoth y Hy Hyp). fold dtab. fold (d p). fold (d x). lia.
  Qed.

  Lemma u_off x p : x <> c -> tpar s c x = Some p -> u x = ewire s x p /\ u' x = woff + ewire s x p.
  Proof.
    intros Hne Hp. unfold u, u', bond_u', bond_u. destruct (Nat.eqb_spec x c) as [|_]; [contradiction|]. rewrite Hp. auto.
  Qed.

  Lemma u_centre : u c = woff + woff /\ u' c = S (woff + woff).
  Proof. unfold u, u', bond_u', bond_u. rewrite Nat.eqb_refl. auto. Qed.

  (* ---- the tree around the centre ------------------------------------------------------------------------------------ *)
  Lemma T_ok : rid T = c /\ ct_ok (nodes s) d None T /\ NoDup (rnodes T) /\ Permutation (rnodes T) (akeys (nodes s)).
  Proof. apply (centre_tree_ok s c TS Hc). Qed.

  Lemma up_wire_nw m kn p : aget m (nodes s) = Some kn -> parent kn = Some p -> up_wire s m < next_wire s.
  Proof.
    intros E P. destruct (node_view m (aget_Some_keys _ _ _ E)) as (k1 & tm & A1 & A2 & _ & A4). assert (k1 = kn) by congruence. subst k1.
    destruct (t_views m kn tm A1 A2) as (V1 & _ & _ & V4).
    apply (F_axes_nw m tm _ A2). rewrite <- V4. apply (Permutation_in _ (wf_lax_perm s m kn Wf A1)). rewrite <- V1, A4, P. left. reflexivity.
  Qed.

  Lemma up_wire_lt m kn p : aget m (nodes s) = Some kn -> parent kn = Some p -> up_wire s m < woff.
  Proof. intros E P. pose proof (up_wire_nw m kn p E P). lia. Qed.

  Lemma open_wire_in m kn tm : aget m (nodes s) = Some kn -> aget m (tensors s) = Some tm -> In (open_wire s m) (axes tm).
  Proof.
    intros A1 A2. destruct (node_view m (aget_Some_keys _ _ _ A1)) as (k1 & t1 & B1 & B2 & _ & A4). assert (k1 = kn) by congruence. subst k1.
    destruct (t_views m kn tm A1 A2) as (V1 & _ & _ & V4).
    rewrite <- V4. apply (Permutation_in _ (wf_lax_perm s m kn Wf A1)). rewrite <- V1, A4. apply in_or_app. right. apply in_or_app. right. left. reflexivity.
  Qed.

  Lemma open_wire_nw m : In m (akeys (nodes s)) -> open_wire s m < next_wire s.
  Proof.
    intros Hm. destruct (node_view m Hm) as (kn & tm & A1 & A2 & _). apply (F_axes_nw m tm _ A2). apply (open_wire_in m kn tm A1 A2).
  Qed.
  Lemma open_wire_lt m : In m (akeys (nodes s)) -> open_wire s m < woff.
  Proof. intros Hm. pose proof (open_wire_nw m Hm). lia. Qed.

  Lemma ewire_nw m kn y : aget m (nodes s) = Some kn -> In y (neighbouring_nodes kn) -> ewire s m y < next_wire s.
  Proof.
    intros E Hy. apply in_neighbouring in Hy. destruct Hy as [P|Hch].
    - rewrite (ewire_par m kn y E P). apply (up_wire_nw m kn y E P).
    - rewrite (ewire_child m kn y E Hch). destruct (ts_ch _ TS m kn y E Hch) as (ny & Ey & Py). apply (up_wire_nw y ny m Ey Py).
  Qed.
  Lemma ewire_lt m kn y : aget m (nodes s) = Some kn -> In y (neighbouring_nodes kn) -> ewire s m y < woff.
  Proof. intros E Hy. pose proof (ewire_nw m kn y E Hy). lia. Qed.

  Lemma kop_lt m : In m (akeys (nodes s)) -> kop m < woff.
  Proof.
    intros Hm. unfold kop, ket_open. destruct (Nat.eqb_spec m c) as [->|_]; [|apply open_wire_lt; exact Hm].
    destruct Hco as [E|[_ H]]; [rewrite E; apply open_wire_lt; exact Hm|exact H].
  Qed.

  (* the ket-side open wire of a node is never summed inside a tensor *)
  Lemma kop_not_bnd x m tm : In x (akeys (nodes s)) -> aget m (tensors s) = Some tm -> ~ In (kop x) (bnd tm).
  Proof.
    intros Hx E Hb.
    assert (Hop : forall y, In y (akeys (nodes s)) -> ~ In (open_wire s y) (bnd tm)).
    { intros y Hy Hb'. destruct (node_view y Hy) as (ky & ty & Y1 & Y2 & _).
      exact (F_bnd_axes m tm y ty _ E Y2 Hb' (open_wire_in y ky ty Y1 Y2)). }
    unfold kop, ket_open in Hb. destruct (Nat.eqb_spec x c) as [->|_]; [|exact (Hop x Hx Hb)].
    destruct Hco as [E0|[H _]]; [rewrite E0 in Hb; exact (Hop c Hx Hb)|]. pose proof (F_bnd_nw m tm co E Hb). lia.
  Qed.

  (* the local picture at a node of the tree *)
  Lemma ct_node last x cs : ct_ok (nodes s) d last (RN x cs) ->
    exists kn, aget x (nodes s) = Some kn /\ map rid cs = nbs_of last kn /\
      (forall p, last = Some p -> In p (neighbouring_nodes kn) /\ x <> c /\ tpar s c x = Some p) /\
      (forall y, In y cs -> ct_ok (nodes s) d (Some x) y /\ In (rid y) (neighbouring_nodes kn) /\ rid y <> c /\
                           u (rid y) = ewire s x (rid y) /\ u' (rid y) = woff + ewire s x (rid y)).
  Proof.
    intros H. inversion H as [? ? kn ? E Hcs Hlast Hsub]; subst. exists kn. split; [exact E|]. split; [exact Hcs|].
    pose proof (ts_neighbours_nodup _ _ _ TS E) as Hnd. split.
    - intros p ->. destruct (Hlast p eq_refl) as [Hp Hd]. split; [exact Hp|].
      split; [intros ->; rewrite d_centre in Hd; discriminate|apply (tpar_char x kn p E Hp Hd)].
    - intros y Hy. split; [apply Hsub; exact Hy|].
      assert (Hin : In (rid y) (nbs_of last kn)) by (rewrite <- Hcs; apply in_map; exact Hy).
      apply (In_nbs_of _ _ _ Hnd) in Hin. destruct Hin as [Hin _]. split; [exact Hin|].
      pose proof (Hsub y Hy) as Hy'. destruct y as [yid ycs]. cbn [rid] in *.
      inversion Hy' as [? ? ky ? Ey _ Hl _]; subst. destruct (Hl x eq_refl) as [Hx Hd].
      assert (Hne : yid <> c) by (intros ->; rewrite d_centre in Hd; discriminate).
      destruct (u_off yid x Hne (tpar_char yid ky x Ey Hx Hd)) as [U1 U2].
      rewrite U1, U2, (ewire_sym yid ky x Ey Hx). auto.
  Qed.

  Lemma cu_tree last x cs kn : aget x (nodes s) = Some kn -> map rid cs = nbs_of last kn ->
    (forall y, In y cs -> u (rid y) = ewire s x (rid y) /\ u' (rid y) = woff + ewire s x (rid y)) ->
    cu u cs = map (ewire s x) (nbs_of last kn) /\ cu' u' cs = map (fun y => woff + ewire s x y) (nbs_of last kn).
  Proof.
    intros E Hcs H. rewrite <- Hcs, !map_map. unfold cu, cu'. split; apply map_ext_in; intros y Hy; apply (H y Hy).
  Qed.

  Lemma axes_tree last x cs : ct_ok (nodes s) d last (RN x cs) ->
    Permutation (t_axes s x) (opt_list last (u x) ++ cu u cs ++ [open_wire s x]).
  Proof.
    intros H. destruct (ct_node last x cs H) as (kn & E & Hcs & Hlast & Hch).
    destruct (cu_tree last x cs kn E Hcs) as [C1 _]; [intros y Hy; apply (Hch y Hy)|].
    rewrite (axes_ewire x kn E), C1. destruct last as [p|]; cbn [opt_list nbs_of app].
    - destruct (Hlast p eq_refl) as (Hp & Hne & Htp). destruct (u_off x p Hne Htp) as [U1 _]. rewrite U1.
      change (ewire s x p :: map (ewire s x) (remove_first p (neighbouring_nodes kn)) ++ [open_wire s x])
        with ((map (ewire s x) (p :: remove_first p (neighbouring_nodes kn))) ++ [open_wire s x]).
      apply Permutation_app_tail. apply Permutation_map. apply remove_first_perm. exact Hp.
    - reflexivity.
  Qed.

  (* ---- re-rooting: the edge wires enumerated from the root and from the centre ------------------------------------------ *)
  Lemma rdesc_t_node m : In m (rdesc t) -> exists kn p, aget m (nodes s) = Some kn /\ parent kn = Some p.
  Proof.
    intros Hm. destruct WT as (_ & _ & _ & Hsub).
    destruct (wf_sub_desc s bra t None Hsub m Hm) as (q & cs & kn & bn & E1 & _ & P1 & _). exists kn, q. auto.
  Qed.

  Lemma in_rdesc_T m : In m (akeys (nodes s)) -> m <> c -> In m (rdesc T).
  Proof.
    intros Hm Hne. destruct T_ok as (Hr & _ & _ & HP). apply (Permutation_in _ (Permutation_sym HP)) in Hm.
    rewrite (rnodes_desc T), Hr in Hm. destruct Hm as [E|Hm]; [congruence|exact Hm].
  Qed.

  Lemma rdesc_T_node m : In m (rdesc T) -> In m (akeys (nodes s)) /\ m <> c.
  Proof.
    intros Hm. destruct T_ok as (Hr & _ & Hnd & HP). rewrite (rnodes_desc T), Hr in Hnd, HP. apply NoDup_cons_iff in Hnd. destruct Hnd as [Hni _].
    split; [apply (Permutation_in _ HP); right; exact Hm|intros ->; contradiction].
  Qed.

  Lemma u_rdesc_T m : In m (rdesc T) -> exists kn p, aget m (nodes s) = Some kn /\ In p (neighbouring_nodes kn) /\
    tpar s c m = Some p /\ u m = ewire s m p /\ u' m = woff + ewire s m p.
  Proof.
    intros Hm. destruct (rdesc_T_node m Hm) as [Hk Hne]. destruct (keys_aget _ _ Hk) as [kn E].
    destruct (dist_step s c m kn TS Hc E Hne) as (nb & Hnb & Hd & _).
    pose proof (tpar_char m kn nb E Hnb Hd) as Htp. destruct (u_off m nb Hne Htp) as [U1 U2]. exists kn, nb. auto.
  Qed.

  Lemma perm_edges : Permutation (map (up_wire s) (rdesc t)) (map u (rdesc T)).
  Proof.
    destruct WT as (_ & _ & Hndt & _). rewrite (rnodes_desc t) in Hndt. apply NoDup_cons_iff in Hndt. destruct Hndt as [_ Hndd].
    apply NoDup_Permutation_bis.
    - apply NoDup_map_inj_in; [|exact Hndd]. intros a b Hia Hib E.
      destruct (rdesc_t_node a Hia) as (ka & pa & Ea & Pa). destruct (rdesc_t_node b Hib) as (kb & pb & Eb & Pb).
      apply (up_wire_inj a b ka kb pa pb Ea Eb Pa Pb E).
    - rewrite !map_length. destruct T_ok as (_ & _ & _ & HP).
      pose proof (Permutation_length (Permutation_trans HP (Permutation_sym Ht))) as Hl.
      rewrite (rnodes_desc T), (rnodes_desc t) in Hl. cbn in Hl. lia.
    - intros w Hiw. apply in_map_iff in Hiw. destruct Hiw as (m & <- & Hm).
      destruct (rdesc_t_node m Hm) as (kn & p & E & P).
      assert (Hp : In p (neighbouring_nodes kn)) by (apply in_neighbouring; left; exact P).
      destruct (d_adj m kn p E Hp) as [Hd|Hd].
      + assert (Hne : m <> c) by (intros ->; rewrite d_centre in Hd; discriminate).
        destruct (u_off m p Hne (tpar_char m kn p E Hp Hd)) as [U1 _].
        rewrite <- (ewire_par m kn p E P), <- U1. apply in_map. apply in_rdesc_T; [eapply aget_Some_keys; eauto|exact Hne].
      + destruct (ts_par _ TS m kn p E P) as (kp & Ep & Hin).
        assert (Hm' : In m (neighbouring_nodes kp)) by (apply in_neighbouring; right; exact Hin).
        assert (Hne : p <> c) by (intros ->; rewrite d_centre in Hd; discriminate).
        destruct (u_off p m Hne (tpar_char p kp m Ep Hm' (eq_sym Hd))) as [U1 _].
        rewrite <- (ewire_child p kp m Ep Hin), <- U1. apply in_map. apply in_rdesc_T; [eapply aget_Some_keys; eauto|exact Hne].
  Qed.

  Lemma perm_T_t : Permutation (rnodes T) (rnodes t).
  Proof. destruct T_ok as (_ & _ & _ & HP). exact (Permutation_trans HP (Permutation_sym Ht)). Qed.

  Lemma nodup_ket_wires : NoDup (map u (rdesc T) ++ map (open_wire s) (rnodes T)).
  Proof.
    apply (Permutation_NoDup (l := map (up_wire s) (rdesc t) ++ map (open_wire s) (rnodes t))).
    { apply Permutation_app; [exact perm_edges|apply Permutation_map, Permutation_sym, perm_T_t]. }
    destruct WT as (_ & _ & Hndt & _). pose proof Hndt as Hndt'. rewrite (rnodes_desc t) in Hndt'. apply NoDup_cons_iff in Hndt'. destruct Hndt' as [_ Hndd].
    apply NoDup_app_iff. split; [|split].
    - apply NoDup_map_inj_in; [|exact Hndd]. intros a b Hia Hib E.
      destruct (rdesc_t_node a Hia) as (ka & pa & Ea & Pa). destruct (rdesc_t_node b Hib) as (kb & pb & Eb & Pb).
      apply (up_wire_inj a b ka kb pa pb Ea Eb Pa Pb E).
    - apply NoDup_map_inj_in; [|exact Hndt]. intros a b Hia Hib E.
      apply (open_wire_inj a b (Permutation_in _ Ht Hia) (Permutation_in _ Ht Hib) E).
    - intros w H1 H2. apply in_map_iff in H1. destruct H1 as (m & <- & Hm). apply in_map_iff in H2. destruct H2 as (m' & E & Hm').
      destruct (rdesc_t_node m Hm) as (kn & p & Em & Pm).
      apply (up_open_neq m m' kn p Em Pm (Permutation_in _ Ht Hm')). symmetry. exact E.
  Qed.

  Lemma ket_wires_lt w : In w (map u (rdesc T) ++ map (open_wire s) (rnodes T)) -> w < woff.
  Proof.
    intros H. apply in_app_or in H. destruct H as [H|H]; apply in_map_iff in H; destruct H as (m & <- & Hm).
    - destruct (u_rdesc_T m Hm) as (kn & p & E & Hp & _ & U1 & _). rewrite U1. apply (ewire_lt m kn p E Hp).
    - apply open_wire_lt. destruct T_ok as (_ & _ & _ & HP). apply (Permutation_in _ HP Hm).
  Qed.

  Lemma ket_wires_nw w : In w (map u (rdesc T) ++ map (open_wire s) (rnodes T)) -> w < next_wire s.
  Proof.
    intros H. apply in_app_or in H. destruct H as [H|H]; apply in_map_iff in H; destruct H as (m & <- & Hm).
    - destruct (u_rdesc_T m Hm) as (kn & p & E & Hp & _ & U1 & _). rewrite U1. apply (ewire_nw m kn p E Hp).
    - apply open_wire_nw. destruct T_ok as (_ & _ & _ & HP). apply (Permutation_in _ HP Hm).
  Qed.

  (* the same with the ket-side open wire of the centre replaced *)
  Lemma nodup_kop_wires : NoDup (map u (rdesc T) ++ map kop (rnodes T)).
  Proof.
    pose proof nodup_ket_wires as Hnd. destruct T_ok as (Hr & _ & HndT & _).
    rewrite (rnodes_desc T), Hr in Hnd, HndT |- *. cbn [map] in Hnd |- *. rewrite kop_c.
    assert (Hrest : map kop (rdesc T) = map (open_wire s) (rdesc T)).
    { apply map_ext_in. intros m Hm. apply kop_off. intros ->. apply NoDup_cons_iff in HndT. destruct HndT as [Hni _]. contradiction. }
    rewrite Hrest. destruct Hco as [E|[H1 H2]]; [rewrite E; exact Hnd|].
    apply (Permutation_NoDup (Permutation_middle _ _ _)). apply (Permutation_NoDup (Permutation_sym (Permutation_middle _ _ _))) in Hnd.
    apply NoDup_cons_iff in Hnd. destruct Hnd as [_ Hnd]. constructor; [|exact Hnd].
    intros Hin. assert (co < next_wire s); [|lia]. apply ket_wires_nw. rewrite (rnodes_desc T), Hr. cbn [map].
    apply in_app_or in Hin. apply in_or_app. destruct Hin as [Hin|Hin]; [left; exact Hin|right; right; exact Hin].
  Qed.

  Lemma kop_wires_lt w : In w (map u (rdesc T) ++ map kop (rnodes T)) -> w < woff.
  Proof.
    intros H. apply in_app_or in H. destruct H as [H|H]; apply in_map_iff in H; destruct H as (m & <- & Hm).
    - destruct (u_rdesc_T m Hm) as (kn & p & E & Hp & _ & U1 & _). rewrite U1. apply (ewire_lt m kn p E Hp).
    - apply kop_lt. destruct T_ok as (_ & _ & _ & HP). apply (Permutation_in _ HP Hm).
  Qed.

  Lemma dsub_T_perm : Permutation (dsub u u' o T)
    (u c :: u' c :: flat_map (fun w => [w; woff + w]) (map u (rdesc T)) ++ map kop (rnodes T)).
  Proof.
    unfold dsub. destruct T_ok as (Hr & _). rewrite Hr. do 2 constructor. rewrite (wires_sub_perm u u' o T).
    apply Permutation_app.
    - rewrite (flat_map_double u u' woff (rdesc T)); [reflexivity|]. intros m Hm. destruct (u_rdesc_T m Hm) as (kn & p & _ & _ & _ & U1 & U2). rewrite U1, U2. reflexivity.
    - unfold o. rewrite flat_map_single. reflexivity.
  Qed.

  Lemma nodup_dsub_T : NoDup (dsub u u' o T).
  Proof.
    apply (Permutation_NoDup (Permutation_sym dsub_T_perm)). destruct u_centre as [U1 U2]. rewrite U1, U2.
    pose proof (NoDup_double woff _ _ Hw0 nodup_kop_wires kop_wires_lt) as Hnd.
    assert (Hlt : forall w, In w (flat_map (fun w => [w; woff + w]) (map u (rdesc T)) ++ map kop (rnodes T)) -> w < woff + woff).
    { intros w H. apply in_app_or in H. destruct H as [H|H].
      - apply in_double in H. destruct H as [H|(w0 & H & ->)].
        + pose proof (kop_wires_lt w (in_or_app _ _ _ (or_introl H))). lia.
        + pose proof (kop_wires_lt w0 (in_or_app _ _ _ (or_introl H))). lia.
      - pose proof (kop_wires_lt w (in_or_app _ _ _ (or_intror H))). lia. }
    constructor; [|constructor; [|exact Hnd]].
    - intros [E|H]; [lia|]. apply Hlt in H. lia.
    - intros H. apply Hlt in H. lia.
  Qed.

  (* ---- the gluing of <psi|psi> ----------------------------------------------------------------------------------------- *)
  Let OPT := glue_pairs woff s c co (akeys (nodes s)).
  (* the ket factor of the centre is a parameter (its tensor, or its tensor with an operator applied) *)
  Variable KAc : assignment -> R.
  Let KA := fun (m : id) (r : assignment) => if Nat.eqb m c then KAc r else val (tens s m) r.
  Let KB := fun (m : id) (r : assignment) => val (conj_sarr woff aoff (tens s m)) (glue_asg OPT r).

  Lemma KA_off m r : m <> c -> KA m r = val (tens s m) r.
  Proof. intros H. unfold KA. destruct (Nat.eqb_spec m c); [contradiction|reflexivity]. Qed.
  Lemma KA_c r : KA c r = KAc r.
  Proof. unfold KA. rewrite Nat.eqb_refl. reflexivity. Qed.
  Lemma KB_eq m r : KB m r = val (conj_sarr woff aoff (tens s m)) (glue_asg OPT r).
  Proof. reflexivity. Qed.

  Lemma OPT_in x : In x (akeys (nodes s)) -> In (kop x, woff + open_wire s x) OPT.
  Proof. intros H. unfold OPT, glue_pairs. apply (in_map (fun m => (ket_open s c co m, woff + open_wire s m))). exact H. Qed.

  Lemma OPT_inv p : In p OPT -> exists x, In x (akeys (nodes s)) /\ p = (kop x, woff + open_wire s x).
  Proof. intros H. unfold OPT, glue_pairs in H. apply in_map_iff in H. destruct H as (x & E & Hx). exists x. auto. Qed.

  Lemma OPT_nodup : NoDup (map snd OPT).
  Proof.
    unfold OPT, glue_pairs. rewrite map_map. cbn [snd]. apply NoDup_map_inj_in; [|apply (wf_nd s Wf)].
    intros a b Hia Hib E. apply (open_wire_inj a b Hia Hib). lia.
  Qed.

  Lemma OPT_ok m tm : aget m (tensors s) = Some tm -> gl_ok OPT tm.
  Proof.
    intros E p Hp. destruct (OPT_inv p Hp) as (x & Hx & ->). cbn [fst snd].
    destruct (node_view x Hx) as (kx & tx & X1 & X2 & _).
    pose proof (open_wire_in x kx tx X1 X2) as Hin.
    split; [lia|]. split; [apply (kop_lt x Hx)|]. split.
    - apply (kop_not_bnd x m tm Hx E).
    - intros Hb. apply in_map_iff in Hb. destruct Hb as (b & Eb & Hb). assert (b = open_wire s x) by lia. subst b.
      apply (F_bnd_axes m tm x tx _ E X2 Hb Hin).
  Qed.

  Lemma glue_open r x : In x (akeys (nodes s)) -> glue_asg OPT r (woff + open_wire s x) = r (kop x).
  Proof. intros Hx. apply (glue_asg_in OPT r (kop x, woff + open_wire s x) OPT_nodup (OPT_in x Hx)). Qed.

  Lemma glue_other r w : (forall x, In x (akeys (nodes s)) -> w <> open_wire s x) -> glue_asg OPT r (woff + w) = r (woff + w).
  Proof.
    intros H. apply glue_asg_out. intros Hcc. apply in_map_iff in Hcc. destruct Hcc as (p & E & Hp).
    destruct (OPT_inv p Hp) as (x & Hx & ->). cbn [snd] in E. apply (H x Hx). lia.
  Qed.

  Lemma glue_ket r y : y < woff -> glue_asg OPT r y = r y.
  Proof.
    intros Hy. apply glue_asg_out. intros Hcc. apply in_map_iff in Hcc. destruct Hcc as (p & E & Hp).
    destruct (OPT_inv p Hp) as (x & Hx & ->). cbn [snd] in E. lia.
  Qed.

  Lemma u_not_open m x : In m (akeys (nodes s)) -> m <> c -> In x (akeys (nodes s)) -> u m <> open_wire s x.
  Proof.
    intros Hm Hne Hx E. pose proof nodup_ket_wires as Hnd. apply NoDup_app_iff in Hnd. destruct Hnd as (_ & _ & Hd).
    apply (Hd (u m)); [apply in_map, in_rdesc_T; assumption|]. rewrite E. apply in_map.
    destruct T_ok as (_ & _ & _ & HP). apply (Permutation_in _ (Permutation_sym HP) Hx).
  Qed.

  (* ---- the hypotheses of the abstract theorem: scoping ------------------------------------------------------------------- *)
  Lemma axes_incl last x cs tm : ct_ok (nodes s) d last (RN x cs) -> aget x (tensors s) = Some tm ->
    forall y, In y (axes tm) -> In y (opt_list last (u x) ++ cu u cs ++ [open_wire s x]).
  Proof.
    intros H E y Hy. destruct (ct_node last x cs H) as (kn & En & _).
    destruct (t_views x kn tm En E) as (V1 & _ & _ & V4).
    apply (Permutation_in _ (axes_tree last x cs H)). rewrite V1. apply (Permutation_in _ (Permutation_sym (wf_lax_perm s x kn Wf En))).
    rewrite V4. exact Hy.
  Qed.

  Lemma opt_list_incl last (w : wire) y (l : list wire) : In y (opt_list last w ++ l) -> In y (w :: l).
  Proof. destruct last; cbn; tauto. Qed.

  Lemma val_conj_dep tm m : aget m (tensors s) = Some tm -> dep R (val (conj_sarr woff aoff tm)) (map (Nat.add woff) (axes tm)).
  Proof.
    intros E. unfold value, conj_sarr. cbn [bnd atoms]. apply sum_bnd_dep. intros r r' Hag. apply aval_agree. intros a' y Ha' Hy.
    apply in_map_iff in Ha'. destruct Ha' as (a & <- & Ha'). rewrite (F_Wr_bra m tm a E Ha') in Hy.
    apply in_map_iff in Hy. destruct Hy as (w & <- & Hw'). apply Hag. rewrite <- map_app. apply in_map.
    apply in_or_app. apply (F_closed m tm a w E Ha' Hw').
  Qed.

  Lemma val_ket_dep tm m : aget m (tensors s) = Some tm -> dep R (val tm) (axes tm).
  Proof.
    intros E. unfold value. apply sum_bnd_dep. intros r r' Hag. apply aval_agree. intros a y Ha' Hy.
    rewrite (F_Wr_ket m tm a E Ha') in Hy. apply Hag. apply in_or_app. apply (F_closed m tm a y E Ha' Hy).
  Qed.

  (* the conjugate copy of the tensor at x, read through the gluing and a renaming of the children's bonds: what it
     looks at *)
  Lemma KB_dep last x cs : ct_ok (nodes s) d last (RN x cs) -> dep R (KB x) (opt_list last (u' x) ++ cu' u' cs ++ o x).
  Proof.
    intros H. destruct (ct_node last x cs H) as (kn & En & Hcs & Hlast & Hch).
    destruct (node_tensor x kn En) as [tm Et]. destruct (t_views x kn tm En Et) as (_ & _ & _ & V4).
    assert (Hxk : In x (akeys (nodes s))) by (eapply aget_Some_keys; eauto).
    intros r r' Hag. rewrite !KB_eq, V4. apply (val_conj_dep tm x Et). intros y' Hy'.
    apply in_map_iff in Hy'. destruct Hy' as (y & <- & Hy).
    pose proof (axes_incl last x cs tm H Et y Hy) as Hin. apply in_app_or in Hin. destruct Hin as [Hin|Hin].
    - destruct last as [p|]; [|destruct Hin]. destruct Hin as [<-|[]]. destruct (Hlast p eq_refl) as (Hp & Hne & Htp).
      destruct (u_off x p Hne Htp) as [U1 U2]. rewrite !glue_other by (intros z Hz; apply (u_not_open x z Hxk Hne Hz)).
      rewrite <- U1 in U2. rewrite <- U2. apply Hag. left. reflexivity.
    - apply in_app_or in Hin. destruct Hin as [Hin|Hin].
      + unfold cu in Hin. apply in_map_iff in Hin. destruct Hin as (z & <- & Hz). destruct (Hch z Hz) as (_ & Hzn & Hzc & U1 & U2).
        assert (Hzk : In (rid z) (akeys (nodes s))).
        { destruct (ts_neighbour_sym _ _ _ _ TS En Hzn) as (kz & Ez & _). eapply aget_Some_keys; eauto. }
        rewrite !glue_other by (intros w Hw'; apply (u_not_open (rid z) w Hzk Hzc Hw')).
        rewrite <- U1 in U2. rewrite <- U2. apply Hag. apply in_or_app. right. apply in_or_app. left. apply (in_cu' u'). exact Hz.
      + destruct Hin as [<-|[]]. rewrite !glue_open by exact Hxk.
        apply Hag. apply in_or_app. right. apply in_or_app. right. left. reflexivity.
  Qed.

  Lemma scoped_T : forall T0 p, ct_ok (nodes s) d (Some p) T0 -> scoped R Dm u u' o KA KB T0.
  Proof.
    induction T0 as [x cs IH] using rt_rect'. intros p H.
    destruct (ct_node (Some p) x cs H) as (kn & En & Hcs & Hlast & Hch).
    destruct (Hlast p eq_refl) as (Hp & Hne & Htp).
    destruct (node_tensor x kn En) as [tm Et]. destruct (t_views x kn tm En Et) as (_ & _ & _ & V4).
    constructor.
    - intros r r' Hag. rewrite !(KA_off x _ Hne), V4. apply (val_ket_dep tm x Et). intros y Hy. apply Hag.
      unfold o. rewrite (kop_off x Hne). apply (opt_list_incl (Some p)). apply (axes_incl (Some p) x cs tm H Et y Hy).
    - apply (dep_incl R _ _ _ (KB_dep (Some p) x cs H)). intros y Hy. exact Hy.
    - intros z Hz. destruct (Hch z Hz) as (_ & Hzn & _ & U1 & U2). rewrite U1, U2.
      pose proof (ewire_nw x kn (rid z) En Hzn) as Hlt. rewrite (Dm_bra _ Hlt), (Dm_ket _ Hlt). reflexivity.
    - intros z Hz. apply (IH z Hz x). apply (Hch z Hz).
  Qed.

  (* ---- the hypotheses of the abstract theorem: the isometries -------------------------------------------------------------- *)

  Lemma iso_node_T : iso_check (s, Some c) = true -> plain_off s c -> qr_contracts R zero one add mul aoff s tbl ->
    forall p x cs, ct_ok (nodes s) d (Some p) (RN x cs) -> NoDup (dsub u u' o (RN x cs)) ->
    iso_node R zero one add mul Dm u u' o KA KB x cs.
  Proof.
    intros HI HPl HQ p x cs H Hnd. destruct (ct_node (Some p) x cs H) as (kn & En & Hcs & Hlast & Hch).
    destruct (Hlast p eq_refl) as (Hp & Hne & Htp). destruct (u_off x p Hne Htp) as [U1 U2].
    assert (Hxk : In x (akeys (nodes s))) by (eapply aget_Some_keys; eauto).
    (* what iso_check says about x *)
    destruct (iso_good s c TS Hc HI x Hxk Hne) as (nd & tm & a & leg & nb & df & G1 & G2 & G3 & G4 & G5 & G6 & G7 & G8 & G9 & G10).
    assert (nd = kn) by congruence. subst nd.
    assert (nb = p) by (pose proof (tpar_char x kn nb G1 G4 G5); congruence). subst nb.
    rewrite (leg_wire x kn tm p leg G1 G2 G6), <- U1 in G10.
    (* plainness *)
    destruct (HPl x Hxk Hne) as (tm' & E' & Hb & Hperm). assert (tm' = tm) by congruence. subst tm'. specialize (Hperm a G3).
    destruct (t_views x kn tm G1 G2) as (V1 & _ & _ & V4).
    set (ws := atom_wires s a) in *.
    assert (Hox : kop x = open_wire s x) by (apply kop_off; exact Hne).
    assert (Hws : Permutation ws (u x :: cu u cs ++ [open_wire s x])).
    { rewrite Hperm. rewrite <- V4. rewrite <- (wf_lax_perm s x kn Wf G1), <- V1. apply (axes_tree (Some p) x cs H). }
    (* the pieces of NoDup (dsub ...) *)
    unfold dsub in Hnd. cbn [rid] in Hnd. rewrite wires_sub_eq in Hnd.
    apply NoDup_cons_iff in Hnd. destruct Hnd as [Qu Hnd]. apply NoDup_cons_iff in Hnd. destruct Hnd as [Qu' Hnd].
    apply NoDup_app_iff in Hnd. destruct Hnd as (No & NL & NoL).
    change (o x) with [kop x] in *. rewrite Hox in *.
    assert (Hcu'nd : NoDup (cu' u' cs)).
    { clear - NL. induction cs as [|z rest IH]; [constructor|].
      change (Lw u u' o (z :: rest)) with (u (rid z) :: u' (rid z) :: wires_sub u u' o z ++ Lw u u' o rest) in NL.
      apply NoDup_cons_iff in NL. destruct NL as [_ NL]. apply NoDup_cons_iff in NL. destruct NL as [Q NL].
      apply NoDup_app_iff in NL. destruct NL as (_ & N3 & _).
      unfold cu'. cbn [map]. constructor; [|apply IH; exact N3].
      intros Hcc. apply Q. apply in_or_app. right. apply (cu'_in_Lw u u' o). exact Hcc. }
    intros rho Hb1 Hb2. change (o x) with [kop x]. rewrite Hox.
    assert (Ea : In a (total_atoms s)) by (apply (F_atom_in x tm a G2); rewrite G3; left; reflexivity).
    pose proof (HQ df G7 G9 (eq_ind_r (fun q => In q (total_atoms s)) Ea G8)) as Hiso. unfold q_iso in Hiso. rewrite G8, G10 in Hiso. fold ws in Hiso.
    set (i' := rho (u' x)).
    transitivity (sumb ([open_wire s x] ++ cu u cs) (fun r => mul (tbl a (map r ws)) (tbl (aoff + a) (map (upd r (u x) i') ws))) rho).
    - apply sum_bnd_ext_dom. intros r _ Hout. rewrite (KA_off x _ Hne), KB_eq, V4. unfold value. cbn [conj_sarr bnd atoms]. rewrite Hb, G3. cbn [map sum_bnd].
      unfold atoms_val. cbn [map prod_over]. unfold atom_val. rewrite !(TensorProdSem.mul_1_r R zero one add mul SR).
      rewrite (F_Wr_ket x tm a G2) by (rewrite G3; left; reflexivity). rewrite (F_Wr_bra x tm a G2) by (rewrite G3; left; reflexivity).
      fold ws. f_equal. f_equal. rewrite map_map. apply map_ext_in. intros w Hw'.
      apply (Permutation_in _ Hws) in Hw'. destruct Hw' as [<-|Hw'].
      + rewrite upd_same. rewrite glue_other by (intros z Hz; apply (u_not_open x z Hxk Hne Hz)).
        rewrite <- U1 in U2. rewrite <- U2. rewrite sub_out.
        * unfold i'. apply Hout. intros Hcc. apply Qu'. apply in_app_or in Hcc. apply in_or_app.
          destruct Hcc as [Hcc|Hcc]; [left; exact Hcc|right; apply (cu_in_Lw u u' o); exact Hcc].
        * intros Hcc. apply Qu'. apply in_or_app. right. apply (cu'_in_Lw u u' o). exact Hcc.
      + apply in_app_or in Hw'. destruct Hw' as [Hw'|Hw'].
        * pose proof Hw' as Hw2. unfold cu in Hw2. apply in_map_iff in Hw2. destruct Hw2 as (z & <- & Hz).
          destruct (Hch z Hz) as (_ & Hzn & Hzc & V2 & V3).
          assert (Hzk : In (rid z) (akeys (nodes s))).
          { destruct (ts_neighbour_sym _ _ _ _ TS En Hzn) as (kz & Ez & _). eapply aget_Some_keys; eauto. }
          rewrite glue_other by (intros y Hy; apply (u_not_open (rid z) y Hzk Hzc Hy)).
          rewrite <- V2 in V3. rewrite <- V3. rewrite (sub_at_child u u' r cs Hcu'nd z Hz).
          symmetry. apply upd_other. intros Hcc. apply Qu. right. apply in_or_app. right. rewrite <- Hcc. apply (cu_in_Lw u u' o). exact Hw'.
        * destruct Hw' as [<-|[]]. rewrite (glue_open _ x Hxk), Hox. rewrite sub_out.
          -- symmetry. apply upd_other. intros Hcc. apply Qu. right. apply in_or_app. left. rewrite <- Hcc. left. reflexivity.
          -- intros Hcc. apply (NoL (open_wire s x)); [left; reflexivity|apply (cu'_in_Lw u u' o); exact Hcc].
    - assert (Hin : In (u x) ws) by (apply (Permutation_in _ (Permutation_sym Hws)); left; reflexivity).
      assert (HS : Permutation ([open_wire s x] ++ cu u cs) (remove_first (u x) ws)).
      { apply (Permutation_cons_inv (a := u x)). rewrite <- (remove_first_perm (u x) ws Hin). rewrite Hws.
        constructor. apply Permutation_app_comm. }
      assert (Hext : ext R (fun r => mul (tbl a (map r ws)) (tbl (aoff + a) (map (upd r (u x) i') ws)))).
      { intros r r' E. rewrite (map_ext r r' E). f_equal. f_equal. apply map_ext. intros w. unfold upd.
        destruct (Nat.eqb w (u x)); [reflexivity|apply E]. }
      rewrite (sum_bnd_perm R zero one add mul SR Dm _ _ _ Hext HS).
      rewrite (sum_bnd_dim_ext zero add Dm (wdim s) (remove_first (u x) ws)).
      + apply Hiso.
        * rewrite <- (Dm_ket (u x)); [exact Hb1|]. rewrite U1. apply (ewire_nw x kn p En Hp).
        * unfold i'. replace (Dm (u' x)) with (wdim s (u x)) in Hb2 by (rewrite U2, U1, (Dm_bra _ (ewire_nw x kn p En Hp)); reflexivity). exact Hb2.
      + intros w Hw'. apply Dm_ket. assert (Hw2 : In w ws) by (apply (Permutation_in _ (Permutation_sym (remove_first_perm (u x) ws Hin))); right; exact Hw').
        rewrite Hperm in Hw2. apply (F_axes_nw x tm w G2 Hw2).
  Qed.

  Lemma Lw_cu_nodup : forall cs, NoDup (Lw u u' o cs) -> NoDup (cu u cs) /\ NoDup (cu' u' cs).
  Proof.
    induction cs as [|z rest IH]; intros NL; [split; constructor|].
    change (Lw u u' o (z :: rest)) with (u (rid z) :: u' (rid z) :: wires_sub u u' o z ++ Lw u u' o rest) in NL.
    apply NoDup_cons_iff in NL. destruct NL as [Q1 NL]. apply NoDup_cons_iff in NL. destruct NL as [Q2 NL].
    apply NoDup_app_iff in NL. destruct NL as (_ & N3 & _). destruct (IH N3) as [I1 I2].
    unfold cu, cu'. cbn [map]. split; constructor; try assumption.
    - intros Hcc. apply Q1. right. apply in_or_app. right. apply (cu_in_Lw u u' o). exact Hcc.
    - intros Hcc. apply Q2. apply in_or_app. right. apply (cu'_in_Lw u u' o). exact Hcc.
  Qed.

  Lemma isos_T : iso_check (s, Some c) = true -> plain_off s c -> qr_contracts R zero one add mul aoff s tbl ->
    forall T0 p, ct_ok (nodes s) d (Some p) T0 -> NoDup (dsub u u' o T0) ->
    isos R zero one add mul Dm u u' o KA KB T0.
  Proof.
    intros HI HPl HQ. induction T0 as [x cs IH] using rt_rect'. intros p H Hnd. constructor; [apply (iso_node_T HI HPl HQ p x cs H Hnd)|].
    intros z Hz. destruct (ct_node (Some p) x cs H) as (kn & _ & _ & _ & Hch). apply (IH z Hz x); [apply (Hch z Hz)|].
    unfold dsub in Hnd. cbn [rid] in Hnd. rewrite wires_sub_eq in Hnd.
    apply NoDup_cons_iff in Hnd. destruct Hnd as [_ Hnd]. apply NoDup_cons_iff in Hnd. destruct Hnd as [_ Hnd].
    apply NoDup_app_iff in Hnd. destruct Hnd as (_ & NL & _). apply (dsub_child_nodup u u' o cs NL z Hz).
  Qed.

  (* ---- the full network: from the diagram of contract_two_ttns to the abstract sum over the tree ------------------------- *)
  Lemma node_indep m m' tm tm' : aget m (tensors s) = Some tm -> aget m' (tensors s) = Some tm' -> m <> m' ->
    indep R (fun r => aval (atoms tm ++ map (Nat.add aoff) (atoms tm)) (glue_asg OPT r)) (bnd tm' ++ map (Nat.add woff) (bnd tm')).
  Proof.
    intros E E' Hne r r' Hag.
    assert (Hout : forall w, (In w (axes tm) \/ In w (bnd tm)) -> ~ In w (bnd tm')).
    { intros w [H|H] Hb; [exact (F_bnd_axes m' tm' m tm w E' E Hb H)|exact (F_bnd_disj m tm m' tm' w E E' Hne H Hb)]. }
    assert (Hlt : forall w, (In w (axes tm) \/ In w (bnd tm)) -> w < woff).
    { intros w [H|H]; [exact (F_axes_lt m tm w E H)|exact (F_bnd_lt m tm w E H)]. }
    assert (Hlow : forall w, w < woff -> ~ In w (bnd tm') -> r w = r' w).
    { intros w H1 H2. apply Hag. intros Hcc. apply in_app_or in Hcc. destruct Hcc as [Hcc|Hcc]; [contradiction|].
      apply in_map_iff in Hcc. destruct Hcc as (b & Eb & _). lia. }
    apply aval_agree. intros a y Hia Hy. apply in_app_or in Hia. destruct Hia as [Hia|Hia].
    - rewrite (F_Wr_ket m tm a E Hia) in Hy. pose proof (F_closed m tm a y E Hia Hy) as Hcl.
      rewrite !glue_ket by (apply Hlt; exact Hcl). apply Hlow; [apply Hlt|apply Hout]; exact Hcl.
    - apply in_map_iff in Hia. destruct Hia as (a0 & <- & Hia). rewrite (F_Wr_bra m tm a0 E Hia) in Hy.
      apply in_map_iff in Hy. destruct Hy as (w & <- & Hw'). pose proof (F_closed m tm a0 w E Hia Hw') as Hcl.
      destruct (in_dec Nat.eq_dec w (map (open_wire s) (akeys (nodes s)))) as [Hop|Hnop].
      + apply in_map_iff in Hop. destruct Hop as (x & <- & Hx). rewrite !glue_open by exact Hx.
        apply Hlow; [apply kop_lt; exact Hx|apply (kop_not_bnd x m' tm' Hx E')].
      + rewrite !glue_other by (intros x Hx Ex; apply Hnop; rewrite Ex; apply in_map; exact Hx).
        apply Hag. intros Hcc. apply in_app_or in Hcc. destruct Hcc as [Hcc|Hcc].
        * pose proof (F_bnd_lt m' tm' _ E' Hcc). lia.
        * apply in_map_iff in Hcc. destruct Hcc as (b & Eb & Hb). assert (b = w) by lia. subst b. exact (Hout w Hcl Hb).
  Qed.

  Lemma T_nodes m : In m (rnodes T) -> exists kn tm, aget m (nodes s) = Some kn /\ aget m (tensors s) = Some tm /\ tens s m = tm /\
    t_atoms s m = atoms tm /\ t_bnd s m = bnd tm /\ t_axes s m <> [].
  Proof.
    intros Hm. destruct T_ok as (_ & _ & _ & HP). apply (Permutation_in _ HP) in Hm.
    destruct (node_view m Hm) as (kn & tm & A1 & A2 & _ & A4). destruct (t_views m kn tm A1 A2) as (_ & V2 & V3 & V4).
    exists kn, tm. repeat split; auto. rewrite A4. destruct (opt_list (parent kn) (up_wire s m)); [|discriminate].
    destruct (map (up_wire s) (children kn)); discriminate.
  Qed.

  Let NA := flat_map (fun m => atoms (tens s m) ++ map (Nat.add aoff) (atoms (tens s m))) (rnodes T).
  Let NB := flat_map (fun m => bnd (tens s m) ++ map (Nat.add woff) (bnd (tens s m))) (rnodes T).

  (* the sums inside the tensors fuse: what is left is the product over the nodes of (tensor).(conjugate copy) *)
  Lemma fused_value r0 :
    sumb NB (fun r => aval NA (glue_asg OPT r)) r0
    = prod_over R one mul (fun m => mul (val (tens s m) r0) (KB m r0)) (rnodes T).
  Proof.
    unfold NA, NB.
    rewrite (sum_bnd_ext_F R zero add Dm _ _ (fun r => prod_over R one mul
               (fun m => aval (atoms (tens s m) ++ map (Nat.add aoff) (atoms (tens s m))) (glue_asg OPT r)) (rnodes T)))
      by (intros r; apply (atoms_val_flat_map R zero one add mul SR)).
    destruct T_ok as (_ & _ & Hnd & _).
    rewrite (sum_fuse R zero one add mul SR Dm
               (fun m r => aval (atoms (tens s m) ++ map (Nat.add aoff) (atoms (tens s m))) (glue_asg OPT r))
               (fun m => bnd (tens s m) ++ map (Nat.add woff) (bnd (tens s m))) (rnodes T)).
    - apply (prod_over_ext R one mul). intros m Hm. destruct (T_nodes m Hm) as (kn & tm & A1 & A2 & V4 & _).
      rewrite KB_eq, V4. apply (node_pair_sum m tm OPT r0 A2 (OPT_ok m tm A2)).
    - intros m _. apply aval_glue_ext.
    - intros m m' Hm Hm' Hne. destruct (T_nodes m Hm) as (kn & tm & A1 & A2 & V4 & _).
      destruct (T_nodes m' Hm') as (kn' & tm' & B1 & B2 & W4 & _). rewrite V4, W4. apply (node_indep m m' tm tm' A2 B2 Hne).
    - exact Hnd.
  Qed.

  (* the pieces of the diagram of contract_two_ttns in the order of the tree around the centre *)
  Lemma bra_views m : In m (rnodes T) -> t_atoms bra m = map (Nat.add aoff) (t_atoms s m) /\
    t_bnd bra m = map (Nat.add woff) (t_bnd s m) /\ open_wire bra m = woff + open_wire s m /\ up_wire bra m = woff + up_wire s m.
  Proof.
    intros Hm. destruct (T_nodes m Hm) as (kn & tm & A1 & _ & _ & _ & _ & Hne).
    destruct (conj_store_views woff aoff s m kn Wf A1) as (_ & C2 & C3 & C4 & C5). auto.
  Qed.

  Lemma perm_atoms_T : Permutation (all_atoms s bra (rnodes t)) NA.
  Proof.
    unfold all_atoms, NA. rewrite <- (Permutation_flat_map _ perm_T_t).
    apply perm_flat_map_pointwise. intros m Hm. destruct (T_nodes m Hm) as (kn & tm & _ & _ & V4 & V2 & _).
    destruct (bra_views m Hm) as (C2 & _). rewrite C2, V2, V4. reflexivity.
  Qed.

  Lemma perm_wires_T : Permutation ((Closed.edge_wires s bra (rdesc t) ++ inner_bnd s bra (rnodes t)) ++ map kop (rnodes t))
                                   (wires_sub u u' o T ++ NB).
  Proof.
    rewrite (wires_sub_perm u u' o T). unfold Closed.edge_wires, inner_bnd.
    rewrite <- app_assoc. rewrite <- app_assoc. apply Permutation_app; [|rewrite Permutation_app_comm; apply Permutation_app].
    - rewrite (flat_map_double u u' woff (rdesc T)) by (intros m Hm; destruct (u_rdesc_T m Hm) as (kn & p & _ & _ & _ & U1 & U2); rewrite U1, U2; reflexivity).
      rewrite <- (Permutation_flat_map _ perm_edges). rewrite flat_map_map. apply perm_flat_map_pointwise. intros m Hm.
      assert (HmT : In m (rnodes T)) by (apply (Permutation_in _ (Permutation_sym perm_T_t)); rewrite (rnodes_desc t); right; exact Hm).
      destruct (bra_views m HmT) as (_ & _ & _ & C5). rewrite C5. reflexivity.
    - unfold o. rewrite flat_map_single. apply Permutation_map. apply Permutation_sym, perm_T_t.
    - unfold NB. rewrite <- (Permutation_flat_map _ perm_T_t).
      apply perm_flat_map_pointwise. intros m Hm. destruct (T_nodes m Hm) as (kn & tm & _ & _ & V4 & _ & V3 & _).
      destruct (bra_views m Hm) as (_ & C3 & _). rewrite C3, V3, V4. reflexivity.
  Qed.

  Lemma perm_glue_T : Permutation (map (fun m => (kop m, open_wire bra m)) (rnodes t)) OPT.
  Proof.
    unfold OPT, glue_pairs. transitivity (map (fun m => (ket_open s c co m, woff + open_wire s m)) (rnodes t)); [|apply Permutation_map, Ht].
    apply Permutation_refl'. apply map_ext_in. intros m Hm.
    destruct (bra_views m (Permutation_in _ (Permutation_sym perm_T_t) Hm)) as (_ & _ & C4 & _). rewrite C4. reflexivity.
  Qed.

  Lemma T_shape : exists cs0, T = RN c cs0.
  Proof.
    destruct T_ok as (Hr & _). destruct T as [x cs0]. cbn [rid] in Hr. exists cs0. rewrite Hr. reflexivity.
  Qed.

  (* the product over the tree, with the centre's ket factor *)
  Lemma prod_centre r0 cs0 : T = RN c cs0 ->
    prod_sub R one mul KA KB T r0
    = mul (mul (KAc r0) (KB c r0)) (prod_over R one mul (fun m => mul (val (tens s m) r0) (KB m r0)) (rdesc T)).
  Proof.
    intros HT. rewrite (prod_sub_flat R zero one add mul SR). rewrite (rnodes_desc T). destruct T_ok as (Hr & _ & Hnd & _). rewrite Hr.
    cbn [prod_over]. rewrite KA_c. f_equal. apply (prod_over_ext R one mul). intros m Hm. rewrite KA_off; [reflexivity|].
    intros ->. rewrite (rnodes_desc T), Hr in Hnd. apply NoDup_cons_iff in Hnd. destruct Hnd as [Hni _]. contradiction.
  Qed.

  (* ---- the norm: co is the centre's own open wire and KAc its tensor ----------------------------------------------------------- *)
  Hypothesis HI : iso_check (s, Some c) = true.
  Hypothesis HPl : plain_off s c.
  Hypothesis HQ : qr_contracts R zero one add mul aoff s tbl.

  Lemma collapse cs0 : T = RN c cs0 -> dep R KAc (cu u cs0 ++ [co]) ->
    forall rho, sumb (wires_sub u u' o T) (prod_sub R one mul KA KB T) rho
                = sumb ([co] ++ cu u cs0) (fun r => mul (KAc r) (KB c (sub u u' cs0 r))) rho.
  Proof.
    intros HT HKc rho. destruct T_ok as (_ & Hok & _ & _). rewrite HT in Hok |- *.
    rewrite (network_collapses R zero one add mul SR Dm u u' o KA KB c cs0).
    - unfold o. rewrite kop_c. apply sum_bnd_ext_F. intros r. rewrite KA_c. reflexivity.
    - destruct (ct_node None c cs0 Hok) as (kn & En & Hcs & _ & Hch). constructor.
      + intros r r' Hag. rewrite !KA_c. apply HKc. intros y Hy. apply Hag. right. unfold o. rewrite kop_c. exact Hy.
      + apply (dep_incl R _ _ _ (KB_dep None c cs0 Hok)). intros y Hy. right. exact Hy.
      + intros z Hz. destruct (Hch z Hz) as (_ & Hzn & _ & U1 & U2). rewrite U1, U2.
        pose proof (ewire_nw c kn (rid z) En Hzn) as Hlt. rewrite (Dm_bra _ Hlt), (Dm_ket _ Hlt). reflexivity.
      + intros z Hz. apply (scoped_T z c). apply (Hch z Hz).
    - rewrite <- HT. exact nodup_dsub_T.
    - intros z Hz. destruct (ct_node None c cs0 Hok) as (kn & _ & _ & _ & Hch). apply (isos_T HI HPl HQ z c); [apply (Hch z Hz)|].
      pose proof nodup_dsub_T as Hnd. rewrite HT in Hnd. unfold dsub in Hnd. cbn [rid] in Hnd. rewrite wires_sub_eq in Hnd.
      apply NoDup_cons_iff in Hnd. destruct Hnd as [_ Hnd]. apply NoDup_cons_iff in Hnd. destruct Hnd as [_ Hnd].
      apply NoDup_app_iff in Hnd. destruct Hnd as (_ & NL & _). apply (dsub_child_nodup u u' o cs0 NL z Hz).
  Qed.
  (* ---- the norm: co is the centre's own open wire and KAc its tensor ----------------------------------------------------------- *)
  Lemma kop_norm : co = open_wire s c -> forall m, kop m = open_wire s m.
  Proof. intros E m. unfold kop, ket_open. destruct (Nat.eqb_spec m c) as [->|_]; [exact E|reflexivity]. Qed.

  Lemma full_value : co = open_wire s c -> (forall r, KAc r = val (tens s c) r) ->
    exists g, contract_two_ttns s bra = Some g /\
    forall rho, gval g rho = sumb (wires_sub u u' o T) (prod_sub R one mul KA KB T) rho.
  Proof.
    intros Eco EK. destruct (contract_two_ttns_closed s bra t WT) as (g & Hg & _ & PA & PB & PG). exists g. split; [exact Hg|]. intros rho.
    assert (Hop : open_pairs s bra (rnodes t) = map (fun m => (kop m, open_wire bra m)) (rnodes t)).
    { unfold open_pairs. apply map_ext. intros m. rewrite (kop_norm Eco m). reflexivity. }
    rewrite (gvalue_norm R zero one add mul SR Wr Dm tbl g NA (wires_sub u u' o T ++ NB) OPT rho).
    - rewrite sum_bnd_app. apply sum_bnd_ext_F. intros r0. rewrite fused_value, (prod_sub_flat R zero one add mul SR).
      apply (prod_over_ext R one mul). intros m _. f_equal. unfold KA. destruct (Nat.eqb_spec m c) as [->|_]; [symmetry; apply EK|reflexivity].
    - rewrite PA. exact perm_atoms_T.
    - rewrite PB, (Permutation_map fst PG), Hop, map_map. cbn [fst]. exact perm_wires_T.
    - rewrite PG, Hop. exact perm_glue_T.
    - exact OPT_nodup.
  Qed.

  (* ---- the local diagram at the centre ------------------------------------------------------------------------------------ *)
  Lemma local_value cs0 : co = open_wire s c -> (forall r, KAc r = val (tens s c) r) ->
    T = RN c cs0 -> exists gl, center_norm woff aoff s c = Some gl /\
    forall rho, gval gl rho = sumb ([co] ++ cu u cs0) (fun r => mul (KAc r) (KB c (sub u u' cs0 r))) rho.
  Proof.
    intros Eco EK HT. destruct T_ok as (_ & Hok & _ & HP). rewrite HT in Hok.
    assert (Hck : In c (akeys (nodes s))) by (apply amem_aget in Hc; destruct Hc as [v E]; eapply aget_Some_keys; eauto).
    destruct (node_view c Hck) as (kn & tm & A1 & A2 & _ & A4). destruct (t_views c kn tm A1 A2) as (V1 & _ & _ & V4).
    pose proof (wf_lax_perm s c kn Wf A1) as PX. rewrite V4, <- V1 in PX.
    assert (HX : permute 0 (perm kn) (axes tm) = t_axes s c) by (rewrite V1; unfold lax, laxes; rewrite V4; reflexivity).
    set (X := t_axes s c) in *.
    assert (Hlog : logical s c = Some (s_transpose (perm kn) tm)) by (unfold logical; rewrite A1, A2; reflexivity).
    rewrite (center_norm_diagram woff aoff s c _ Hw0 Hlog). eexists. split; [reflexivity|]. intros rho.
    unfold gvalue. cbn [gbnd gglue gatoms s_transpose atoms bnd axes].
    rewrite HX.
    set (GL := map (fun w => (w, woff + w)) X).
    assert (Hfst : map fst GL = X) by (unfold GL; rewrite map_map; cbn [fst]; apply map_id).
    etransitivity; [exact (f_equal (fun l => sumb ((bnd tm ++ map (Nat.add woff) (bnd tm)) ++ l)
       (fun r => aval (atoms tm ++ map (Nat.add aoff) (atoms tm)) (glue_asg GL r)) rho) Hfst)|].
    (* the wires of the centre *)
    pose proof nodup_dsub_T as Hnd. rewrite HT in Hnd. unfold dsub in Hnd. cbn [rid] in Hnd. rewrite wires_sub_eq in Hnd.
    apply NoDup_cons_iff in Hnd. destruct Hnd as [Qu Hnd]. apply NoDup_cons_iff in Hnd. destruct Hnd as [Qu' Hnd].
    apply NoDup_app_iff in Hnd. destruct Hnd as (No & NL & NoL). destruct (Lw_cu_nodup cs0 NL) as [Ncu Ncu'].
    change (o c) with [kop c] in No, NoL, Qu, Qu'. rewrite kop_c, Eco in No, NoL, Qu, Qu'.
    pose proof (axes_tree None c cs0 Hok) as PT. cbn [opt_list app] in PT. fold X in PT.
    assert (HXnd : NoDup X).
    { apply (Permutation_NoDup (Permutation_sym PT)). apply NoDup_app_iff. split; [exact Ncu|]. split; [exact No|].
      intros w H1 H2. apply (NoL w H2). apply (cu_in_Lw u u' o). exact H1. }
    assert (HGLnd : NoDup (map snd GL)).
    { unfold GL. rewrite map_map. cbn [snd]. apply NoDup_map_inj_in; [|exact HXnd]. intros a b _ _ E. lia. }
    assert (HGLok : gl_ok GL tm).
    { intros p Hp. unfold GL in Hp. apply in_map_iff in Hp. destruct Hp as (w & <- & Hw'). cbn [fst snd].
      pose proof (Permutation_in _ PX Hw') as Hax. split; [lia|]. split; [exact (F_axes_lt c tm w A2 Hax)|]. split.
      - intros Hb. exact (F_bnd_axes c tm c tm w A2 A2 Hb Hax).
      - intros Hb. apply in_map_iff in Hb. destruct Hb as (b & Eb & Hb). assert (b = w) by lia. subst b. exact (F_bnd_axes c tm c tm w A2 A2 Hb Hax). }
    transitivity (sumb X (fun r => mul (val tm r) (val (conj_sarr woff aoff tm) (glue_asg GL r))) rho).
    - rewrite (sum_bnd_perm R zero one add mul SR Dm _ _ (X ++ (bnd tm ++ map (Nat.add woff) (bnd tm)))
                 (aval_glue_ext R one mul Wr tbl _ GL) (Permutation_app_comm _ _)).
      rewrite sum_bnd_app. apply sum_bnd_ext_F. intros r. apply (node_pair_sum c tm GL r A2 HGLok).
    - assert (Hext : ext R (fun r => mul (val tm r) (val (conj_sarr woff aoff tm) (glue_asg GL r)))).
      { intros r r' E. rewrite (value_ext R zero one add mul Wr Dm tbl tm r r' E). f_equal.
        apply (value_ext R zero one add mul Wr Dm tbl). apply glue_asg_ext. exact E. }
      replace ([co] ++ cu u cs0) with ([open_wire s c] ++ cu u cs0) by (rewrite <- Eco; reflexivity).
      rewrite (sum_bnd_perm R zero one add mul SR Dm _ _ ([open_wire s c] ++ cu u cs0) Hext) by (rewrite PT; apply Permutation_app_comm).
      apply sum_bnd_ext_F. intros r. rewrite EK, KB_eq, V4. f_equal.
      apply (val_conj_dep tm c A2). intros y' Hy'. apply in_map_iff in Hy'. destruct Hy' as (w & <- & Hax).
      pose proof (Permutation_in _ (Permutation_sym PX) Hax) as HwX.
      assert (Hpair : In (w, woff + w) GL) by (unfold GL; apply (in_map (fun w => (w, woff + w))); exact HwX).
      pose proof (glue_asg_in GL r (w, woff + w) HGLnd Hpair) as Hgi. cbn [fst snd] in Hgi. rewrite Hgi.
      apply (Permutation_in _ PT) in HwX. apply in_app_or in HwX. destruct HwX as [HwX|HwX].
      + pose proof HwX as Hw2. unfold cu in Hw2. apply in_map_iff in Hw2. destruct Hw2 as (z & <- & Hz).
        destruct (ct_node None c cs0 Hok) as (kn' & En' & _ & _ & Hch). destruct (Hch z Hz) as (_ & Hzn & Hzc & V2 & V3).
        assert (Hzk : In (rid z) (akeys (nodes s))).
        { destruct (ts_neighbour_sym _ _ _ _ TS En' Hzn) as (kz & Ez & _). eapply aget_Some_keys; eauto. }
        rewrite glue_other by (intros y Hy; apply (u_not_open (rid z) y Hzk Hzc Hy)).
        rewrite <- V2 in V3. rewrite <- V3. symmetry. apply (sub_at_child u u' r cs0 Ncu' z Hz).
      + destruct HwX as [<-|[]]. rewrite (glue_open _ c Hck), kop_c, Eco. symmetry. apply sub_out.
        intros Hcc. apply (NoL (open_wire s c)); [left; reflexivity|apply (cu'_in_Lw u u' o); exact Hcc].
  Qed.


  Theorem canonical_norm_bridge : co = open_wire s c -> (forall r, KAc r = val (tens s c) r) -> exists g gl,
    contract_two_ttns s bra = Some g /\ center_norm woff aoff s c = Some gl /\
    forall rho, gval g rho = gval gl rho.
  Proof.
    intros Eco EK. destruct (full_value Eco EK) as (g & Hg & Hfull).
    destruct T_ok as (Hr & Hok & _ & _). remember T as T1 eqn:HT1. destruct T1 as [x cs0]. cbn [rid] in Hr. subst x.
    destruct (local_value cs0 Eco EK (eq_sym HT1)) as (gl & Hgl & Hloc). exists g, gl. split; [exact Hg|]. split; [exact Hgl|].
    intros rho. rewrite Hfull, Hloc. rewrite HT1. apply (collapse cs0 (eq_sym HT1)).
    (* the centre's tensor looks at its axes only *)
    assert (Hck : In c (akeys (nodes s))) by (apply amem_aget in Hc; destruct Hc as [v E]; eapply aget_Some_keys; eauto).
    destruct (node_view c Hck) as (kn & tm & A1 & A2 & _). destruct (t_views c kn tm A1 A2) as (_ & _ & _ & V4).
    intros r r' Hag. rewrite !EK, V4. apply (val_ket_dep tm c A2). intros y Hy. apply Hag.
    pose proof (axes_incl None c cs0 tm Hok A2 y Hy) as Hin. cbn [opt_list app] in Hin. rewrite Eco. exact Hin.
  Qed.

  (* ================================================================================================================ *)
  (* a single-site operator applied at the centre: the operator is the atom next_atom s on (output wire co, the        *)
  (* centre's open wire); the centre's ket factor is its tensor with the operator absorbed                             *)
  (* ================================================================================================================ *)
  Section Op.
    Let na := next_atom s.
    Let oc := open_wire s c.
    Hypothesis Eco : co = next_wire s.
    Hypothesis Hw2 : next_wire s + 2 <= woff.
    Hypothesis Ha2 : next_atom s < aoff.
    Hypothesis HWna : Wr na = [co; oc].
    Hypothesis HKc : forall r, KAc r = sumb [oc] (fun r => mul (val (tens s c) r) (aval [na] r)) r.

    Lemma c_key : In c (akeys (nodes s)).
    Proof. apply amem_aget in Hc. destruct Hc as [v E]. eapply aget_Some_keys; eauto. Qed.

    Lemma oc_nw : oc < next_wire s.
    Proof. apply open_wire_nw. exact c_key. Qed.

    Lemma mul_rearr a b p v : mul (mul (mul a b) p) v = mul (mul a v) (mul b p).
    Proof.
      rewrite <- !(csr_mul_assoc _ _ _ _ SR). f_equal. rewrite (csr_mul_comm _ _ _ _ SR v (mul b p)).
      rewrite <- (csr_mul_assoc _ _ _ _ SR). reflexivity.
    Qed.

    (* the centre's open wire is an axis of no other tensor *)
    Lemma oc_not_axis m tm : In m (akeys (nodes s)) -> m <> c -> aget m (tensors s) = Some tm -> ~ In oc (axes tm).
    Proof.
      intros Hm Hne Et Hin. destruct (keys_aget _ _ Hm) as [kn En]. destruct (t_views m kn tm En Et) as (V1 & _ & _ & V4).
      rewrite <- V4 in Hin. apply (Permutation_in _ (Permutation_sym (wf_lax_perm s m kn Wf En))) in Hin.
      rewrite <- V1, (axes_ewire m kn En) in Hin. apply in_app_or in Hin. destruct Hin as [Hin|[E|[]]].
      - apply in_map_iff in Hin. destruct Hin as (y & E & Hy). apply in_neighbouring in Hy. destruct Hy as [P|Hch].
        + rewrite (ewire_par m kn y En P) in E. exact (up_open_neq m c kn y En P c_key E).
        + rewrite (ewire_child m kn y En Hch) in E. destruct (ts_ch _ TS m kn y En Hch) as (ny & Ey & Py).
          exact (up_open_neq y c ny m Ey Py c_key E).
      - apply Hne. apply (open_wire_inj m c Hm c_key E).
    Qed.

    Lemma val_indep_oc m : In m (rnodes T) -> m <> c -> indep R (val (tens s m)) [oc].
    Proof.
      intros Hm Hne. destruct (T_nodes m Hm) as (kn & tm & A1 & A2 & V4 & _). rewrite V4.
      apply (dep_indep R _ _ _ (val_ket_dep tm m A2)). intros w [<-|[]]. apply (oc_not_axis m tm (aget_Some_keys _ _ _ A1) Hne A2).
    Qed.

    Lemma KB_indep_oc m : In m (rnodes T) -> indep R (KB m) [oc].
    Proof.
      intros Hm r r' Hag. destruct (T_nodes m Hm) as (kn & tm & A1 & A2 & V4 & _). rewrite !KB_eq, V4.
      apply (val_conj_dep tm m A2). intros y' Hy'. apply in_map_iff in Hy'. destruct Hy' as (w & <- & Hw').
      destruct (in_dec Nat.eq_dec w (map (open_wire s) (akeys (nodes s)))) as [Hop|Hnop].
      - apply in_map_iff in Hop. destruct Hop as (x & <- & Hx). rewrite !glue_open by exact Hx. apply Hag. intros [E|[]].
        destruct (Nat.eq_dec x c) as [->|Hxc].
        + rewrite kop_c, Eco in E. pose proof oc_nw. unfold oc in *. lia.
        + rewrite (kop_off x Hxc) in E. apply Hxc. apply (open_wire_inj x c Hx c_key). symmetry. exact E.
      - rewrite !glue_other by (intros x Hx Ex; apply Hnop; rewrite Ex; apply in_map; exact Hx).
        apply Hag. intros [E|[]]. pose proof oc_nw. unfold oc in *. lia.
    Qed.

    Lemma opv_glue r : aval [na] (glue_asg OPT r) = aval [na] r.
    Proof.
      apply aval_agree. intros a y [<-|[]] Hy. rewrite HWna in Hy. apply glue_ket.
      destruct Hy as [<-|[<-|[]]]; [rewrite Eco; lia|pose proof oc_nw; unfold oc in *; lia].
    Qed.

    Lemma opv_indep_NB : indep R (aval [na]) NB.
    Proof.
      intros r r' Hag. apply aval_agree. intros a y [<-|[]] Hy. rewrite HWna in Hy. apply Hag. intros Hin.
      unfold NB in Hin. apply in_flat_map in Hin. destruct Hin as (m & Hm & Hin).
      destruct (T_nodes m Hm) as (kn & tm & A1 & A2 & V4 & _). rewrite V4 in Hin.
      apply in_app_or in Hin. destruct Hin as [Hin|Hin].
      - destruct Hy as [<-|[<-|[]]].
        + pose proof (F_bnd_nw m tm co A2 Hin). lia.
        + destruct (node_view c c_key) as (kc & tc & C1 & C2 & _). exact (F_bnd_axes m tm c tc _ A2 C2 Hin (open_wire_in c kc tc C1 C2)).
      - apply in_map_iff in Hin. destruct Hin as (b & Eb & _). destruct Hy as [<-|[<-|[]]]; [lia|pose proof oc_nw; unfold oc in *; lia].
    Qed.

    Lemma tp_pair_kop dd m : tp_pair woff s [(c, [dd; dd])] m = (kop m, woff + open_wire s m).
    Proof.
      unfold tp_pair, factor_index, kop, ket_open. cbn [map fst index_of]. destruct (Nat.eqb m c); cbn [option_map].
      - rewrite Nat.add_0_r, Eco. reflexivity.
      - reflexivity.
    Qed.

    Lemma full_value_op dd : dd = wdim s oc -> exists g, tp_expectation woff aoff s [(c, [dd; dd])] = Some g /\
      forall rho, gval g rho = sumb (wires_sub u u' o T) (prod_sub R one mul KA KB T) rho.
    Proof.
      intros Edd.
      destruct (tp_expectation_closed woff aoff s [(c, [dd; dd])] t Wf WT) as (ket & g & _ & Hg & _ & PA & PB & PG & _).
      { cbn. constructor; [intros []|constructor]. }
      { intros o0 [<-|[]]. cbn [fst]. apply (Permutation_in _ (Permutation_sym Ht)). exact c_key. }
      { cbn [length]. lia. }
      { intros o0 [<-|[]]. cbn [fst snd]. rewrite Edd. reflexivity. }
      exists g. split; [exact Hg|]. intros rho. cbn [length seq map fst] in PA, PB. fold bra in PA, PB, PG. fold na oc in PA, PB.
      assert (Hpairs : map (tp_pair woff s [(c, [dd; dd])]) (rnodes t) = map (fun m => (kop m, woff + open_wire s m)) (rnodes t))
        by (apply map_ext; intros m; apply tp_pair_kop).
      rewrite Hpairs in PG.
      rewrite (gvalue_norm R zero one add mul SR Wr Dm tbl g (NA ++ [na]) ((wires_sub u u' o T ++ NB) ++ [oc]) OPT rho).
      - (* reorder the sums: tree wires, then the centre's open wire, then the wires inside the tensors *)
        rewrite (sum_bnd_perm R zero one add mul SR Dm _ _ (wires_sub u u' o T ++ ([oc] ++ NB))
                   (aval_glue_ext R one mul Wr tbl _ OPT)) by perm_solve.
        rewrite sum_bnd_app. apply sum_bnd_ext_F. intros r1. rewrite sum_bnd_app.
        destruct T_ok as (Hr & _ & HndT & _). destruct T_shape as [cs0 HT1].
        rewrite (prod_centre r1 cs0 HT1), HKc. rewrite <- (csr_mul_assoc _ _ _ _ SR).
        rewrite <- (sum_bnd_mul_r R zero one add mul SR Dm [oc]
                     (fun r => mul (KB c r) (prod_over R one mul (fun m => mul (val (tens s m) r) (KB m r)) (rdesc T)))).
        + apply sum_bnd_ext_F. intros r2.
          rewrite (sum_bnd_ext_F R zero add Dm NB _ (fun r => mul (aval NA (glue_asg OPT r)) (aval [na] r)))
            by (intros r; rewrite (atoms_val_app R zero one add mul SR), opv_glue; reflexivity).
          rewrite (sum_bnd_mul_r R zero one add mul SR Dm NB (aval [na]) _ opv_indep_NB), fused_value.
          rewrite (rnodes_desc T), Hr. cbn [prod_over]. apply mul_rearr.
        + apply indep_mul; [apply KB_indep_oc; rewrite (rnodes_desc T), Hr; left; reflexivity|].
          apply indep_prod. intros m Hm.
          assert (HmT : In m (rnodes T)) by (rewrite (rnodes_desc T); right; exact Hm).
          apply indep_mul; [|apply (KB_indep_oc m HmT)]. apply (val_indep_oc m HmT).
          intros ->. rewrite (rnodes_desc T), Hr in HndT. apply NoDup_cons_iff in HndT. destruct HndT as [Hni _]. contradiction.
      - rewrite PA. apply Permutation_app; [exact perm_atoms_T|apply Permutation_refl].
      - rewrite PB, (Permutation_map fst PG), map_map. cbn [fst]. rewrite <- perm_wires_T. perm_solve.
      - rewrite PG. unfold OPT, glue_pairs. apply Permutation_map. exact Ht.
      - exact OPT_nodup.
    Qed.

    (* ---- the shortcut diagram of single_site_operator_expectation_value, in a world where the operator atom sits on
            (output wire co, input wire S co) as center_single_site builds it ------------------------------------------ *)
    Variable Wr2 : nat -> list wire.
    Hypothesis HW2 : forall a, a <> na -> Wr2 a = Wr a.
    Hypothesis HW2na : Wr2 na = [co; S co].

    Local Notation aval2 := (atoms_val R one mul Wr2 tbl).

    Lemma aval2_old A r : ~ In na A -> aval2 A r = aval A r.
    Proof.
      intros H. unfold atoms_val. apply (prod_over_ext R one mul). intros a Hia. unfold atom_val. rewrite HW2; [reflexivity|].
      intros ->. contradiction.
    Qed.

    Lemma ext_mul F G : ext R F -> ext R G -> ext R (fun r => mul (F r) (G r)).
    Proof. intros HF HG r r' E. rewrite (HF r r' E), (HG r r' E). reflexivity. Qed.

    Lemma local_value_op cs0 : T = RN c cs0 -> exists gl, center_single_site woff aoff s c = Some gl /\
      forall rho, gvalue R zero one add mul Wr2 Dm tbl gl rho
                  = sumb ([co] ++ cu u cs0) (fun r => mul (KAc r) (KB c (sub u u' cs0 r))) rho.
    Proof.
      intros HT. destruct T_ok as (_ & Hok & _ & HP). rewrite HT in Hok.
      pose proof c_key as Hck. pose proof oc_nw as Hoc.
      destruct (node_view c Hck) as (kn & tm & A1 & A2 & _ & A4). destruct (t_views c kn tm A1 A2) as (V1 & _ & _ & V4).
      pose proof (wf_lax_perm s c kn Wf A1) as PX. rewrite V4, <- V1 in PX.
      assert (HX : permute 0 (perm kn) (axes tm) = t_axes s c) by (rewrite V1; unfold lax, laxes; rewrite V4; reflexivity).
      set (Xv := opt_list (parent kn) (up_wire s c) ++ map (up_wire s) (children kn)).
      assert (HXv : t_axes s c = Xv ++ [oc]) by (rewrite A4; unfold Xv, oc; rewrite app_assoc; reflexivity).
      assert (Hlog : logical s c = Some (s_transpose (perm kn) tm)) by (unfold logical; rewrite A1, A2; reflexivity).
      assert (Hax : axes (s_transpose (perm kn) tm) = Xv ++ [oc]) by (cbn [s_transpose axes]; rewrite HX; exact HXv).
      rewrite (center_single_site_diagram woff aoff s c _ Xv oc Hw0 Hlog Hax) by (unfold oc in *; lia).
      eexists. split; [reflexivity|]. intros rho.
      unfold gvalue. cbn [gbnd gglue gatoms s_transpose atoms bnd]. fold na.
      rewrite <- Eco.
      set (GL' := map (fun w => (w, woff + w)) Xv ++ [(co, woff + oc)]).
      (* the wires of the centre *)
      pose proof nodup_dsub_T as Hnd. rewrite HT in Hnd. unfold dsub in Hnd. cbn [rid] in Hnd. rewrite wires_sub_eq in Hnd.
      apply NoDup_cons_iff in Hnd. destruct Hnd as [Qu Hnd]. apply NoDup_cons_iff in Hnd. destruct Hnd as [Qu' Hnd].
      apply NoDup_app_iff in Hnd. destruct Hnd as (No & NL & NoL). destruct (Lw_cu_nodup cs0 NL) as [Ncu Ncu'].
      change (o c) with [kop c] in NoL. rewrite kop_c in NoL.
      pose proof (axes_tree None c cs0 Hok) as PT. cbn [opt_list app] in PT. fold oc in PT. rewrite HXv in PT.
      apply Permutation_app_inv_r in PT.
      destruct (ct_node None c cs0 Hok) as (kn' & En' & _ & _ & Hch). assert (kn' = kn) by congruence. subst kn'.
      assert (Hcu_child : forall w, In w (cu u cs0) -> exists z, In z cs0 /\ w = u (rid z) /\ u' (rid z) = woff + w /\
                                     (forall y, In y (akeys (nodes s)) -> w <> open_wire s y)).
      { intros w Hw'. unfold cu in Hw'. apply in_map_iff in Hw'. destruct Hw' as (z & <- & Hz).
        destruct (Hch z Hz) as (_ & Hzn & Hzc & V2 & V3). exists z. split; [exact Hz|]. split; [reflexivity|].
        split; [rewrite V2, V3; reflexivity|].
        assert (Hzk : In (rid z) (akeys (nodes s))).
        { destruct (ts_neighbour_sym _ _ _ _ TS A1 Hzn) as (kz & Ez & _). eapply aget_Some_keys; eauto. }
        intros y Hy. apply (u_not_open (rid z) y Hzk Hzc Hy). }
      assert (HXvnd : NoDup (Xv ++ [oc])).
      { apply (Permutation_NoDup (l := cu u cs0 ++ [oc])); [apply Permutation_app_tail, Permutation_sym, PT|].
        apply NoDup_app_iff. split; [exact Ncu|]. split; [constructor; [intros []|constructor]|].
        intros w H1 [<-|[]]. destruct (Hcu_child _ H1) as (_ & _ & _ & _ & Hno). exact (Hno c Hck eq_refl). }
      assert (HXv_ax : forall w, In w (Xv ++ [oc]) -> In w (axes tm)) by (intros w Hw'; apply (Permutation_in _ PX); rewrite HXv; exact Hw').
      assert (Hsnd : map snd GL' = map (Nat.add woff) (Xv ++ [oc])).
      { unfold GL'. rewrite !map_app, !map_map. reflexivity. }
      assert (HGLnd : NoDup (map snd GL')).
      { rewrite Hsnd. apply NoDup_map_inj_in; [|exact HXvnd]. intros a b _ _ E. lia. }
      assert (HGLok : gl_ok GL' tm).
      { intros p Hp. unfold GL' in Hp. apply in_app_or in Hp. destruct Hp as [Hp|[<-|[]]].
        - apply in_map_iff in Hp. destruct Hp as (w & <- & Hw'). cbn [fst snd].
          pose proof (HXv_ax w (in_or_app _ _ _ (or_introl Hw'))) as Hin. split; [lia|]. split; [exact (F_axes_lt c tm w A2 Hin)|]. split.
          + intros Hb. exact (F_bnd_axes c tm c tm w A2 A2 Hb Hin).
          + intros Hb. apply in_map_iff in Hb. destruct Hb as (b & Eb & Hb). assert (b = w) by lia. subst b. exact (F_bnd_axes c tm c tm w A2 A2 Hb Hin).
        - cbn [fst snd]. split; [lia|]. split; [rewrite Eco; lia|]. split.
          + intros Hb. pose proof (F_bnd_nw c tm co A2 Hb). lia.
          + intros Hb. apply in_map_iff in Hb. destruct Hb as (b & Eb & Hb). assert (b = oc) by lia. subst b.
            exact (F_bnd_axes c tm c tm oc A2 A2 Hb (open_wire_in c kn tm A1 A2)). }
      (* reading the glued wires *)
      assert (Hg_x : forall r w, In w Xv -> glue_asg GL' r (woff + w) = r w).
      { intros r w Hw'. assert (Hp : In (w, woff + w) GL') by (unfold GL'; apply in_or_app; left; apply (in_map (fun w => (w, woff + w))); exact Hw').
        exact (glue_asg_in GL' r (w, woff + w) HGLnd Hp). }
      assert (Hg_oc : forall r, glue_asg GL' r (woff + oc) = r co).
      { intros r. assert (Hp : In (co, woff + oc) GL') by (unfold GL'; apply in_or_app; right; left; reflexivity).
        exact (glue_asg_in GL' r (co, woff + oc) HGLnd Hp). }
      assert (Hg_low : forall r y, y < woff -> glue_asg GL' r y = r y) by (intros r y Hy; apply (glue_low GL' tm r y HGLok Hy)).
      (* the atoms of the centre do not contain the operator atom *)
      assert (HnaA : ~ In na (atoms tm)) by (intros H; pose proof (ws_atoms_lt s WS na (F_atom_in c tm na A2 H)); unfold na in *; lia).
      assert (HnaA' : ~ In na (map (Nat.add aoff) (atoms tm))) by (intros H; apply in_map_iff in H; destruct H as (a & E & _); unfold na in *; lia).
      (* step 1: the summand in the world of the full contraction *)
      set (GL2 := (map (fun w => (w, woff + w)) Xv ++ [(co, woff + oc)]) ++ [(oc, S co)]).
      assert (HS1 : forall r, aval2 ((atoms tm ++ [na]) ++ map (Nat.add aoff) (atoms tm)) (glue_asg GL2 r)
                              = mul (aval (atoms tm ++ map (Nat.add aoff) (atoms tm)) (glue_asg GL' r)) (aval [na] r)).
      { intros r. unfold GL2. fold GL'.
        assert (HSco : ~ In (S co) (map snd GL')) by (rewrite Hsnd; intros H; apply in_map_iff in H; destruct H as (b & Eb & _); rewrite Eco in Eb; lia).
        rewrite !(atoms_val_app R zero one add mul SR), (aval2_old _ _ HnaA), (aval2_old _ _ HnaA').
        rewrite <- !(csr_mul_assoc _ _ _ _ SR). f_equal; [|rewrite (csr_mul_comm _ _ _ _ SR); f_equal].
        - apply aval_agree. intros a y Hia Hy. rewrite (F_Wr_ket c tm a A2 Hia) in Hy.
          assert (Hylt : y < next_wire s) by (destruct (F_closed c tm a y A2 Hia Hy) as [H|H]; [exact (F_axes_nw c tm y A2 H)|exact (F_bnd_nw c tm y A2 H)]).
          apply glue_snoc_other. cbn [snd]. rewrite Eco. lia.
        - apply aval_agree. intros a' y Hia Hy. apply in_map_iff in Hia. destruct Hia as (a & <- & Hia).
          rewrite (F_Wr_bra c tm a A2 Hia) in Hy. apply in_map_iff in Hy. destruct Hy as (w & <- & _).
          apply glue_snoc_other. cbn [snd]. rewrite Eco. lia.
        - unfold atoms_val. cbn [prod_over]. f_equal. unfold atom_val. rewrite HW2na, HWna. cbn [map]. f_equal. f_equal; [|f_equal].
          + rewrite glue_snoc_other by (cbn [snd]; lia). apply Hg_low. rewrite Eco. lia.
          + exact (glue_snoc_hit GL' (oc, S co) r HSco). }
      rewrite (sum_bnd_ext_F R zero add Dm _ _ _ HS1).
      assert (Hfst : map fst GL2 = (Xv ++ [co]) ++ [oc]).
      { unfold GL2. rewrite !map_app, map_map. cbn [map fst]. rewrite map_id. reflexivity. }
      etransitivity; [exact (f_equal (fun l => sumb ((bnd tm ++ map (Nat.add woff) (bnd tm)) ++ l)
         (fun r => mul (aval (atoms tm ++ map (Nat.add aoff) (atoms tm)) (glue_asg GL' r)) (aval [na] r)) rho) Hfst)|].
      (* step 2: reorder and fuse *)
      assert (Hext1 : ext R (fun r => mul (aval (atoms tm ++ map (Nat.add aoff) (atoms tm)) (glue_asg GL' r)) (aval [na] r))).
      { apply ext_mul; [apply aval_glue_ext|apply atoms_val_ext]. }
      rewrite (sum_bnd_perm R zero one add mul SR Dm _ _ ((Xv ++ [co]) ++ ([oc] ++ (bnd tm ++ map (Nat.add woff) (bnd tm)))) Hext1) by perm_solve.
      rewrite sum_bnd_app.
      set (VC := fun r => val (conj_sarr woff aoff tm) (glue_asg GL' r)).
      assert (HVC_oc : indep R VC [oc]).
      { intros r r' Hag. unfold VC. apply (val_conj_dep tm c A2). intros y' Hy'. apply in_map_iff in Hy'. destruct Hy' as (w & <- & Hw').
        apply (Permutation_in _ (Permutation_sym PX)) in Hw'. rewrite HXv in Hw'. apply in_app_or in Hw'. destruct Hw' as [Hw'|[<-|[]]].
        - rewrite !(Hg_x _ w Hw'). apply Hag. intros [E|[]]. subst w.
          apply NoDup_app_iff in HXvnd. destruct HXvnd as (_ & _ & Hd). apply (Hd oc Hw'). left. reflexivity.
        - rewrite !Hg_oc. apply Hag. intros [E|[]]. rewrite Eco in E. lia. }
      transitivity (sumb (Xv ++ [co]) (fun r => mul (KAc r) (VC r)) rho).
      - apply sum_bnd_ext_F. intros r1. rewrite sum_bnd_app. rewrite HKc.
        rewrite <- (sum_bnd_mul_r R zero one add mul SR Dm [oc] VC _ HVC_oc).
        apply sum_bnd_ext_F. intros r2.
        rewrite (sum_bnd_mul_r R zero one add mul SR Dm (bnd tm ++ map (Nat.add woff) (bnd tm)) (aval [na])).
        + rewrite (node_pair_sum c tm GL' r2 A2 HGLok). fold (VC r2). rewrite V4.
          rewrite <- !(csr_mul_assoc _ _ _ _ SR). f_equal. apply (csr_mul_comm _ _ _ _ SR).
        + apply (indep_incl R _ NB); [|exact opv_indep_NB]. intros w Hw'. unfold NB. apply in_flat_map. exists c.
          split; [apply (Permutation_in _ (Permutation_sym HP) Hck)|rewrite V4; exact Hw'].
      - assert (Hext2 : ext R (fun r => mul (KAc r) (VC r))).
        { apply ext_mul.
          - intros r r' E. rewrite !HKc. apply (sum_bnd_ext R zero add Dm); [|exact E].
            apply ext_mul; [apply (value_ext R zero one add mul Wr Dm tbl)|apply atoms_val_ext].
          - intros r r' E. unfold VC. apply (value_ext R zero one add mul Wr Dm tbl). apply glue_asg_ext. exact E. }
        rewrite (sum_bnd_perm R zero one add mul SR Dm _ _ ([co] ++ cu u cs0) Hext2)
          by (rewrite Permutation_app_comm; apply Permutation_app_head; exact PT).
        apply sum_bnd_ext_F. intros r. f_equal. unfold VC. rewrite KB_eq, V4.
        apply (val_conj_dep tm c A2). intros y' Hy'. apply in_map_iff in Hy'. destruct Hy' as (w & <- & Hw').
        apply (Permutation_in _ (Permutation_sym PX)) in Hw'. rewrite HXv in Hw'. apply in_app_or in Hw'. destruct Hw' as [Hw'|[<-|[]]].
        + rewrite (Hg_x _ w Hw'). destruct (Hcu_child w (Permutation_in _ PT Hw')) as (z & Hz & -> & V3 & Hno).
          rewrite (glue_other _ _ Hno). rewrite <- V3. symmetry. apply (sub_at_child u u' r cs0 Ncu' z Hz).
        + rewrite Hg_oc. fold oc. rewrite (glue_open _ c Hck), kop_c. symmetry. apply sub_out.
          intros Hcc. apply (NoL co); [left; reflexivity|apply (cu'_in_Lw u u' o); exact Hcc].
    Qed.

    (* (c) the single-site shortcut computes the full contraction with the operator applied at the centre *)
    Theorem single_site_bridge dd : dd = wdim s oc -> exists g gl,
      tp_expectation woff aoff s [(c, [dd; dd])] = Some g /\ center_single_site woff aoff s c = Some gl /\
      forall rho, gval g rho = gvalue R zero one add mul Wr2 Dm tbl gl rho.
    Proof.
      intros Edd. destruct (full_value_op dd Edd) as (g & Hg & Hfull). destruct T_shape as [cs0 HT].
      destruct (local_value_op cs0 HT) as (gl & Hgl & Hloc). exists g, gl. split; [exact Hg|]. split; [exact Hgl|].
      intros rho. rewrite Hfull, Hloc. apply (collapse cs0 HT).
      destruct T_ok as (_ & Hok & _ & _). rewrite HT in Hok.
      destruct (node_view c c_key) as (kn & tm & A1 & A2 & _). destruct (t_views c kn tm A1 A2) as (_ & _ & _ & V4).
      intros r r' Hag. rewrite !HKc. apply (sum_bnd_dep R zero add Dm [oc] _ (cu u cs0 ++ [co])); [|exact Hag].
      apply (dep_incl R _ (axes tm ++ [co; oc])).
      - rewrite V4. apply (dep_mul R mul); [apply (val_ket_dep tm c A2)|].
        intros r1 r2 E. apply aval_agree. intros a y [<-|[]] Hy. rewrite HWna in Hy. apply E. exact Hy.
      - intros y Hy. apply in_app_or in Hy. destruct Hy as [Hy|[<-|[<-|[]]]].
        + pose proof (axes_incl None c cs0 tm Hok A2 y Hy) as Hin. cbn [opt_list app] in Hin. fold oc in Hin.
          apply in_app_or in Hin. destruct Hin as [Hin|[<-|[]]].
          * apply in_or_app. left. apply in_or_app. left. exact Hin.
          * apply in_or_app. right. left. reflexivity.
        + apply in_or_app. left. apply in_or_app. right. left. reflexivity.
        + apply in_or_app. right. left. reflexivity.
    Qed.
  End Op.
End Bridge.

(* ================================================================================================================ *)
(* (d) a well-formed state with one open leg per node and its conjugate copy form a consistent pair                   *)
(* ================================================================================================================ *)
Section PairOfWf.
  Variables (woff aoff : nat) (s : store).
  Hypothesis Wf : wf s.
  Hypothesis H1 : one_open s.
  Hypothesis Hw0 : 0 < woff.

  Lemma t_axes_lax k n : aget k (nodes s) = Some n -> t_axes s k = lax s k n.
  Proof.
    intros E. pose proof (ni_t _ _ _ (wf_node s Wf k n E)) as Hm. apply amem_aget in Hm. destruct Hm as [tm E2].
    unfold t_axes, tensor_of, logical, lax, laxes, tens. rewrite E, E2. reflexivity.
  Qed.

  Lemma axes_struct k n : aget k (nodes s) = Some n ->
    t_axes s k = opt_list (parent n) (up_wire s k) ++ map (up_wire s) (children n) ++ [open_wire s k].
  Proof.
    intros E. pose proof (wf_node s Wf k n E) as Hn. pose proof (t_axes_lax k n E) as HL.
    pose proof (laxes_length n (tens s k)) as Hlen. fold (lax s k n) in Hlen.
    pose proof (ni_virt _ _ _ Hn) as Hv. pose proof (H1 k n E) as Ho. unfold nopen in Ho.
    unfold up_wire, open_wire. rewrite HL. rewrite (wf_lax_decomp s k n Wf E) at 1. set (L := lax s k n) in *.
    f_equal; [|f_equal].
    - unfold nparents, nvirt, nparents in *. destruct (parent n) as [p|]; [|reflexivity].
      destruct L as [|x t]; [cbn in Hlen; lia|reflexivity].
    - apply map_ext_in. intros c0 Hc0. destruct (ni_ch _ _ _ Hn c0 Hc0) as (cn & Ec & _).
      unfold ew. rewrite Ec, (t_axes_lax c0 cn Ec). destruct (lax s c0 cn); reflexivity.
    - unfold open_of. fold (lax s k n). fold L.
      assert (Hsk : length (skipn (nvirt n) L) = 1) by (rewrite skipn_length; lia).
      destruct (skipn (nvirt n) L) as [|x [|y r]] eqn:Es; cbn in Hsk; try lia.
      rewrite <- (firstn_skipn (nvirt n) L), Es. rewrite last_last. reflexivity.
  Qed.

  Lemma axes_nonempty k n : aget k (nodes s) = Some n -> t_axes s k <> [].
  Proof.
    intros E. rewrite (axes_struct k n E). destruct (opt_list (parent n) (up_wire s k)); [|discriminate].
    destruct (map (up_wire s) (children n)); discriminate.
  Qed.

  Let bra := conj_store woff aoff s.

  Lemma node_ok_of_wf k n : aget k (nodes s) = Some n -> Closed.node_ok s bra (parent n) k (children n).
  Proof.
    intros E. exists n, n. pose proof (axes_struct k n E) as AX.
    destruct (conj_store_views woff aoff s k n Wf E) as (C1 & _ & _ & C4 & C5).
    pose proof (axes_nonempty k n E) as Hne. specialize (C4 Hne). specialize (C5 Hne).
    split; [exact E|]. split; [exact E|]. split; [reflexivity|]. split; [reflexivity|]. split; [reflexivity|].
    split; [apply Permutation_refl|]. split; [apply (ts_neighbours_nodup _ _ _ (wf_tstruct s Wf) E)|]. split; [exact AX|]. split.
    - fold bra in C1, C4, C5. rewrite C1, AX, C4, C5, !map_app, map_map. f_equal; [destruct (parent n); reflexivity|]. f_equal.
      apply map_ext_in. intros c0 Hc0. destruct (ni_ch _ _ _ (wf_node s Wf k n E) c0 Hc0) as (cn & Ec & _).
      destruct (conj_store_views woff aoff s c0 cn Wf Ec) as (_ & _ & _ & _ & D5). symmetry. apply D5. apply (axes_nonempty c0 cn Ec).
    - fold bra in C4. rewrite C4. lia.
  Qed.

  Lemma wf_sub_of_wf : forall t, sub_tree (nodes s) t -> forall n, aget (rid t) (nodes s) = Some n -> wf_sub s bra (parent n) t.
  Proof.
    induction t as [k cs IH] using rt_rect'. intros Hst n E. inversion Hst as [? nd ? E' Hch Hsub]; subst. cbn [rid] in E.
    assert (nd = n) by congruence. subst nd. constructor.
    - rewrite <- Hch. apply (node_ok_of_wf k n E).
    - intros c0 Hc0. assert (Hin : In (rid c0) (children n)) by (rewrite Hch; apply in_map; exact Hc0).
      destruct (ni_ch _ _ _ (wf_node s Wf k n E) (rid c0) Hin) as (cn & Ec & Pc). rewrite <- Pc. apply (IH c0 Hc0 (Hsub c0 Hc0) cn Ec).
  Qed.

  (* (d): wf_two for a state and its conjugate copy is a consequence of the store invariant *)
  Theorem wf_two_of_wf : exists t, ket_tree s = Some t /\ wf_two s bra t /\ Permutation (rnodes t) (akeys (nodes s)).
  Proof.
    destruct (ket_tree_ok s Wf) as (t & r & Ek & Er & Hr & Hst & Hnd & HP). exists t. split; [exact Ek|]. split; [|exact HP].
    destruct (wf_root s Wf) as (r' & rn & Er' & En & Pr & _). assert (r' = r) by congruence. subst r'.
    split; [rewrite Hr; exact Er|]. split; [unfold bra, conj_store; cbn [root]; rewrite Hr; exact Er|]. split; [exact Hnd|].
    rewrite <- Pr. apply wf_sub_of_wf; [exact Hst|]. rewrite Hr. exact En.
  Qed.
End PairOfWf.

(* ================================================================================================================ *)
(* the bridge theorem with the hypotheses a caller has                                                                *)
(* ================================================================================================================ *)
Theorem canonical_norm_is_full_contraction (R : Type) (zero one : R) (add mul : R -> R -> R) :
  comm_semiring zero one add mul ->
  forall (woff aoff : nat) (s : store) (tbl : nat -> list nat -> R) (c : id),
  wfs s -> one_open s -> 0 < woff -> next_wire s <= woff -> next_atom s <= aoff -> amem c (nodes s) = true ->
  iso_check (s, Some c) = true -> plain_off s c -> qr_contracts R zero one add mul aoff s tbl ->
  let bra := conj_store woff aoff s in
  exists g gl, scalar_product woff aoff s None = Some g /\ scalar_product woff aoff s (Some c) = Some gl /\
    forall rho, gvalue R zero one add mul (pair_wires s bra) (pair_dim s bra) tbl g rho
                = gvalue R zero one add mul (pair_wires s bra) (pair_dim s bra) tbl gl rho.
Proof.
  intros SR woff aoff s tbl c WS H1 Hw0 Hw Ha Hc HI HP HQ bra.
  destruct (wf_two_of_wf woff aoff s (ws_wf s WS) H1 Hw0) as (t & _ & WT & Ht).
  exact (canonical_norm_bridge R zero one add mul SR woff aoff s tbl WS Hw0 Hw Ha (pair_wires s bra) (pair_dim s bra)
           (pw_ket woff aoff s WS) (pw_bra woff aoff s WS Hw Ha)
           (fun w H => pd_ket woff aoff s w (Nat.lt_le_trans _ _ _ H Hw)) (fun w _ => pd_bra woff aoff s WS Hw Ha w)
           t WT Ht c Hc (open_wire s c) (or_introl eq_refl)
           (value R zero one add mul (pair_wires s bra) (pair_dim s bra) tbl (tens s c)) HI HP HQ eq_refl (fun r => eq_refl)).
Qed.


(* (c) the single-site shortcut.  The operator is the atom next_atom s; the general path (apply_operator) puts it on
   (fresh output wire next_wire s, the centre's open wire), the shortcut diagram on (next_wire s, S (next_wire s)); both
   worlds extend the world of the pair by that one atom; the two fresh wires have the dimension of the centre's open leg *)
Theorem single_site_is_full_contraction (R : Type) (zero one : R) (add mul : R -> R -> R) :
  comm_semiring zero one add mul ->
  forall (woff aoff : nat) (s : store) (tbl : nat -> list nat -> R) (c : id),
  wfs s -> one_open s -> next_wire s + 2 <= woff -> next_atom s < aoff -> amem c (nodes s) = true ->
  iso_check (s, Some c) = true -> plain_off s c -> qr_contracts R zero one add mul aoff s tbl ->
  let bra := conj_store woff aoff s in
  let na := next_atom s in
  let nw := next_wire s in
  let oc := open_wire s c in
  let dd := wdim s oc in
  let W1 := ext_wires (pair_wires s bra) na [nw; oc] in
  let W2 := ext_wires (pair_wires s bra) na [nw; S nw] in
  let D := ext_dim (pair_dim s bra) [nw; S nw] dd in
  exists g gl, tp_expectation_value woff aoff s None [(c, [dd; dd])] = Some g /\
               tp_expectation_value woff aoff s (Some c) [(c, [dd; dd])] = Some gl /\
    forall rho, gvalue R zero one add mul W1 D tbl g rho = gvalue R zero one add mul W2 D tbl gl rho.
Proof.
  intros SR woff aoff s tbl c WS H1 Hw2 Ha2 Hc HI HP HQ bra na nw oc dd W1 W2 D.
  assert (Hw0 : 0 < woff) by lia. assert (Hw : next_wire s <= woff) by lia. assert (Ha : next_atom s <= aoff) by lia.
  destruct (wf_two_of_wf woff aoff s (ws_wf s WS) H1 Hw0) as (t & _ & WT & Ht).
  assert (E1 : tp_expectation_value woff aoff s None [(c, [dd; dd])] = tp_expectation woff aoff s [(c, [dd; dd])]) by reflexivity.
  assert (E2 : tp_expectation_value woff aoff s (Some c) [(c, [dd; dd])] = center_single_site woff aoff s c)
    by (unfold tp_expectation_value; cbn [opt_eqb]; rewrite Nat.eqb_refl; reflexivity).
  rewrite E1, E2.
  assert (Hk1 : forall a, In a (total_atoms s) -> W1 a = atom_wires s a).
  { intros a Hin. unfold W1, ext_wires. pose proof (ws_atoms_lt s WS a Hin) as Hlt.
    destruct (Nat.eqb_spec a na) as [E|_]; [unfold na in E; lia|]. apply (pw_ket woff aoff s WS a Hin). }
  assert (Hk2 : forall a, a < next_atom s -> W1 (aoff + a) = map (Nat.add woff) (atom_wires s a)).
  { intros a Hlt. unfold W1, ext_wires. destruct (Nat.eqb_spec (aoff + a) na) as [E|_]; [unfold na in E; lia|].
    apply (pw_bra woff aoff s WS Hw Ha a Hlt). }
  assert (Hd1 : forall w, w < next_wire s -> D w = wdim s w).
  { intros w Hlt. unfold D, ext_dim. cbn [memb existsb]. destruct (Nat.eqb_spec w nw) as [E|_]; [unfold nw in E; lia|].
    destruct (Nat.eqb_spec w (S nw)) as [E|_]; [unfold nw in E; lia|]. cbn [orb]. apply (pd_ket woff aoff s w). lia. }
  assert (Hd2 : forall w, w < next_wire s -> D (woff + w) = wdim s w).
  { intros w Hlt. unfold D, ext_dim. cbn [memb existsb]. destruct (Nat.eqb_spec (woff + w) nw) as [E|_]; [unfold nw in E; lia|].
    destruct (Nat.eqb_spec (woff + w) (S nw)) as [E|_]; [unfold nw in E; lia|]. cbn [orb]. apply (pd_bra woff aoff s WS Hw Ha w). }
  assert (Hco : nw = open_wire s c \/ (next_wire s <= nw /\ nw < woff)) by (right; unfold nw; lia).
  apply (single_site_bridge R zero one add mul SR woff aoff s tbl WS Hw0 Hw Ha W1 D Hk1 Hk2 Hd1 Hd2 t WT Ht c Hc nw Hco
           (fun r => sum_bnd R zero add D [oc] (fun r0 => mul (value R zero one add mul W1 D tbl (tens s c) r0)
                                                        (atoms_val R one mul W1 tbl [na] r0)) r)
           HI HP HQ eq_refl Hw2 Ha2).
  - unfold W1, ext_wires, na. rewrite Nat.eqb_refl. reflexivity.
  - intros r. reflexivity.
  - intros a Hne. unfold W1, W2, ext_wires. destruct (Nat.eqb_spec a na) as [E|_]; [unfold na in E; contradiction|reflexivity].
  - unfold W2, ext_wires, na. rewrite Nat.eqb_refl. reflexivity.
  - reflexivity.
Qed.

(* the executable forms of the structural hypotheses *)
Lemma one_openb_sound s : wf s -> one_openb s = true -> one_open s.
Proof.
  intros W H k nd E. unfold one_openb in H. rewrite forallb_forall in H. specialize (H (k, nd) (aget_In _ _ _ E)).
  apply Nat.eqb_eq in H. exact H.
Qed.

Lemma plain_offb_sound s c : plain_offb s c = true -> plain_off s c.
Proof.
  intros H k Hk Hne. unfold plain_offb in H. rewrite forallb_forall in H. specialize (H k Hk).
  apply orb_prop in H. destruct H as [H|H]; [apply Nat.eqb_eq in H; contradiction|].
  unfold plain_nodeb in H. unfold plain_node. destruct (aget k (tensors s)) as [t|]; [|discriminate].
  exists t. split; [reflexivity|]. destruct (bnd t) as [|b bs]; [|discriminate]. split; [reflexivity|].
  intros a Ea. rewrite Ea in H. apply perm_of_nodupb_sound. exact H.
Qed.

Theorem canon_hyp_sound woff aoff s c : canon_hyp woff aoff s c = true ->
  wfs s /\ one_open s /\ 0 < woff /\ next_wire s <= woff /\ next_atom s <= aoff /\ amem c (nodes s) = true /\
  iso_check (s, Some c) = true /\ plain_off s c.
Proof.
  unfold canon_hyp. intros H.
  apply andb_prop in H. destruct H as [H H8]. apply andb_prop in H. destruct H as [H H7].
  apply andb_prop in H. destruct H as [H H6]. apply andb_prop in H. destruct H as [H H5].
  apply andb_prop in H. destruct H as [H H4]. apply andb_prop in H. destruct H as [H H3].
  apply andb_prop in H. destruct H as [H H2].
  pose proof (wfsb_wfs s H) as WS.
  split; [exact WS|]. split; [apply one_openb_sound; [apply (ws_wf s WS)|exact H4]|].
  split; [apply Nat.ltb_lt; exact H6|]. split; [apply Nat.leb_le; exact H7|]. split; [apply Nat.leb_le; exact H8|].
  split; [exact H2|]. split; [exact H3|]. apply plain_offb_sound. exact H5.
Qed.

(* ================================================================================================================ *)
(* non-vacuity: a three-node chain brought into canonical form at its middle node, over Z; the two Q factors are     *)
(* (rectangular) identity matrices, the other atoms arbitrary                                                        *)
(* ================================================================================================================ *)
From Coq Require Import ZArith.
From PTN Require Import Wire.SemInst.
Definition bx_s0 := fst (run empty_store [AddRoot 0 [2; 3]; AddChild 1 [2; 3; 2] 0 0 0; AddChild 2 [3; 2] 0 1 1]).
Definition bx_s := match canonical_form (bx_s0, None) 1 Reduced 99 with Some x => fst x | None => bx_s0 end.
Definition bx_tbl (a : nat) (idx : list nat) : Z :=
  match a, idx with
  | 3, [i; j] | 103, [i; j] | 5, [i; j] | 105, [i; j] => if Nat.eqb i j then 1%Z else 0%Z
  | _, _ => Z.of_nat (fold_right (fun i acc => 2 * acc + i + 1) 1 idx)
  end.
Example bx_hyp : canon_hyp 1000 100 bx_s 1 = true.
Proof. vm_compute. reflexivity. Qed.
Example bx_contracts : qr_contracts Z 0%Z 1%Z Z.add Z.mul 100 bx_s bx_tbl.
Proof.
  intros df Hin _ _.
  assert (Hd : map (fun d => (kq d, kbond d)) (defs bx_s) = [(3, 7); (5, 8)]) by (vm_compute; reflexivity).
  assert (Hc : (kq df, kbond df) = (3, 7) \/ (kq df, kbond df) = (5, 8)).
  { apply (in_map (fun d => (kq d, kbond d))) in Hin. rewrite Hd in Hin. destruct Hin as [E|[E|[]]]; auto. }
  unfold q_iso. destruct Hc as [E|E]; injection E as -> ->; intros rho i' Hb Hi.
  - replace (wdim bx_s 7) with 2 in Hb, Hi by (vm_compute; reflexivity).
    replace (atom_wires bx_s 3) with [1; 7] by (vm_compute; reflexivity). cbn [remove_first Nat.eqb sum_bnd].
    replace (wdim bx_s 1) with 3 by (vm_compute; reflexivity). cbn [sum_upto map]. unfold upd, delta. cbn.
    destruct (rho 7) as [|[|n]]; destruct i' as [|[|m]]; try lia; reflexivity.
  - replace (wdim bx_s 8) with 2 in Hb, Hi by (vm_compute; reflexivity).
    replace (atom_wires bx_s 5) with [6; 8] by (vm_compute; reflexivity). cbn [remove_first Nat.eqb sum_bnd].
    replace (wdim bx_s 6) with 2 by (vm_compute; reflexivity). cbn [sum_upto map]. unfold upd, delta. cbn.
    destruct (rho 8) as [|[|n]]; destruct i' as [|[|m]]; try lia; reflexivity.
Qed.

Example bx_instance :
  let bra := conj_store 1000 100 bx_s in
  exists g gl, scalar_product 1000 100 bx_s None = Some g /\ scalar_product 1000 100 bx_s (Some 1) = Some gl /\
    forall rho, gvalue Z 0%Z 1%Z Z.add Z.mul (pair_wires bx_s bra) (pair_dim bx_s bra) bx_tbl g rho
                = gvalue Z 0%Z 1%Z Z.add Z.mul (pair_wires bx_s bra) (pair_dim bx_s bra) bx_tbl gl rho.
Proof.
  destruct (canon_hyp_sound 1000 100 bx_s 1 bx_hyp) as (H1 & H2 & H3 & H4 & H5 & H6 & H7 & H8).
  exact (canonical_norm_is_full_contraction Z 0%Z 1%Z Z.add Z.mul Z_csr 1000 100 bx_s bx_tbl 1 H1 H2 H3 H4 H5 H6 H7 H8 bx_contracts).
Qed.

Definition bx_val (ctr : option id) : option Z :=
  let bra := conj_store 1000 100 bx_s in
  option_map (fun g => gvalue Z 0%Z 1%Z Z.add Z.mul (pair_wires bx_s bra) (pair_dim bx_s bra) bx_tbl g (fun _ => 0))
             (scalar_product 1000 100 bx_s ctr).
(* the shortcut value, computed; the value of the full contraction (11 summed wires, computed directly by vm_compute in
   9 s during development: the same number) follows from the theorem *)
Example bx_local_value : bx_val (Some 1) = Some 751260730%Z.
Proof. vm_compute. reflexivity. Qed.
Example bx_full_value : bx_val None = Some 751260730%Z.
Proof.
  rewrite <- bx_local_value. destruct bx_instance as (g & gl & E1 & E2 & Hv). unfold bx_val. rewrite E1, E2. cbn [option_map].
  f_equal. apply Hv.
Qed.

(* the single-site shortcut on the same state: the operator is the atom 7 (arbitrary, non-symmetric entries) *)
Definition bx_ss (ctr : option id) : option Z :=
  let bra := conj_store 1000 100 bx_s in
  let na := next_atom bx_s in
  let nw := next_wire bx_s in
  let oc := open_wire bx_s 1 in
  let dd := wdim bx_s oc in
  let W := ext_wires (pair_wires bx_s bra) na (match ctr with None => [nw; oc] | Some _ => [nw; S nw] end) in
  let D := ext_dim (pair_dim bx_s bra) [nw; S nw] dd in
  option_map (fun g => gvalue Z 0%Z 1%Z Z.add Z.mul W D bx_tbl g (fun _ => 0))
             (tp_expectation_value 1000 100 bx_s ctr [(1, [dd; dd])]).
Example bx_ss_local : bx_ss (Some 1) = Some 12867863162%Z.
Proof. vm_compute. reflexivity. Qed.
(* the general path (computed directly by vm_compute in 19 s during development: the same number), from the theorem *)
Example bx_ss_full : bx_ss None = Some 12867863162%Z.
Proof.
  rewrite <- bx_ss_local.
  destruct (canon_hyp_sound 1000 100 bx_s 1 bx_hyp) as (H1 & H2 & _ & _ & _ & H6 & H7 & H8).
  assert (Hw2 : next_wire bx_s + 2 <= 1000) by (vm_compute; repeat constructor).
  assert (Ha2 : next_atom bx_s < 100) by (vm_compute; repeat constructor).
  destruct (single_site_is_full_contraction Z 0%Z 1%Z Z.add Z.mul Z_csr 1000 100 bx_s bx_tbl 1 H1 H2 Hw2 Ha2 H6 H7 H8 bx_contracts)
    as (g & gl & E1 & E2 & Hv).
  unfold bx_ss. cbv zeta. unfold id, wire in *. rewrite E1, E2. cbn [option_map]. f_equal. apply Hv.
Qed.
