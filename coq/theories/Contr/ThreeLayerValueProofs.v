(* Proofs about Contr/ThreeLayerValue.v (property C04): the closed diagram of expectation_value(state, ttno) has the fused
   flat value
      SUM_{edge wires of ket, operator, conjugate copy; one index per glued physical pair}
        PROD_{nodes} (ket tensor)(operator tensor)(conjugate ket tensor).
     1. a generic fusion lemma: a family of tensors with private summed wires under a gluing that touches axes only;
     2. the three layers of (state, operator, conjugate copy) form such a family (store invariant + range separation);
     3. the diagram of Closed.expectation_value_closed re-ordered into the flat form (gvalue_norm);
     4. invariance under the child orders. *)
From Coq Require Import List Arith Bool Lia Permutation.
From PTN Require Import TTN.Store TTN.StoreProofs TTN.Inv TTN.InvProofs TTN.InvNode Wire.Sem Wire.SemProofs TTN.InvSem TTN.InvSemOps
  TTN.InvBuild Contr.Blocks Contr.Closed Contr.ClosedProofs Contr.TensorProd Contr.TensorProdProofs Contr.TensorProdSem
  Contr.TensorProdBridge Contr.TensorProdBridgeProofs Contr.TensorProdBridgeStore Contr.ThreeLayerValue.
Import ListNotations.

(* ================================================================================================================ *)
(* 1. generic fusion                                                                                                 *)
(* ================================================================================================================ *)
Section Fuse.
  Variable R : Type.
  Variables (zero one : R) (add mul : R -> R -> R).
  Hypothesis SR : comm_semiring zero one add mul.
  Variable Wr : nat -> list wire.
  Variable Dm : wire -> nat.
  Variable tbl : nat -> list nat -> R.

  Local Notation sumb := (sum_bnd R zero add Dm).
  Local Notation aval := (atoms_val R one mul Wr tbl).
  Local Notation val := (value R zero one add mul Wr Dm tbl).

  (* the gluing moves through the sum over wires it does not touch *)
  Lemma value_glue (d : sarr) G rho :
    (forall b, In b (bnd d) -> ~ In b (map fst G) /\ ~ In b (map snd G)) ->
    sumb (bnd d) (fun r => aval (atoms d) (glue_asg G r)) rho = val d (glue_asg G rho).
  Proof.
    intros H. unfold value.
    apply (sum_bnd_comm_subst R zero add Dm (glue_asg G) (bnd d) (aval (atoms d))).
    - apply atoms_val_ext.
    - intros r r' E x. apply glue_asg_ext. exact E.
    - intros r b k x Hb. destruct (H b Hb) as [H1 H2]. apply glue_asg_upd; assumption.
  Qed.

  Lemma aval_glue_indep A G S :
    (forall a y, In a A -> In y (Wr a) -> ~ In y S) -> (forall p, In p G -> ~ In (fst p) S) ->
    indep R (fun r => aval A (glue_asg G r)) S.
  Proof.
    intros HA HG r r' Hag. apply (aval_agree R one mul tbl Wr). intros a y Ha Hy. unfold glue_asg.
    destruct (find (fun p => Nat.eqb (snd p) y) G) as [p|] eqn:Ef.
    - apply find_some in Ef. destruct Ef as [Hp _]. apply Hag. apply HG. exact Hp.
    - apply Hag. apply (HA a y Ha Hy).
  Qed.

  Variable A : Type.
  Variable d : A -> sarr.
  Variable G : list (wire * wire).
  Variable items : list A.
  Hypothesis Hnd : NoDup items.
  Hypothesis Hclosed : forall i a y, In i items -> In a (atoms (d i)) -> In y (Wr a) -> In y (axes (d i)) \/ In y (bnd (d i)).
  Hypothesis Hba : forall i j b, In i items -> In j items -> In b (bnd (d i)) -> ~ In b (axes (d j)).
  Hypothesis Hbb : forall i j b, In i items -> In j items -> i <> j -> In b (bnd (d i)) -> ~ In b (bnd (d j)).
  Hypothesis HG : forall p, In p G -> (exists i, In i items /\ In (fst p) (axes (d i))) /\ (exists j, In j items /\ In (snd p) (axes (d j))).

  Theorem fuse_items rho :
    sumb (flat_map (fun i => bnd (d i)) items) (fun r => aval (flat_map (fun i => atoms (d i)) items) (glue_asg G r)) rho
    = prod_over R one mul (fun i => val (d i) (glue_asg G rho)) items.
  Proof.
    rewrite (sum_bnd_ext_F R zero add Dm _ _ (fun r => prod_over R one mul (fun i => aval (atoms (d i)) (glue_asg G r)) items))
      by (intros r; apply (atoms_val_flat_map R zero one add mul SR)).
    rewrite (sum_fuse R zero one add mul SR Dm (fun i r => aval (atoms (d i)) (glue_asg G r)) (fun i => bnd (d i)) items).
    - apply (prod_over_ext R one mul). intros i Hi. apply value_glue. intros b Hb. split.
      + intros Hc. apply in_map_iff in Hc. destruct Hc as (p & <- & Hp). destruct (HG p Hp) as ((j & Hj & Hax) & _).
        exact (Hba i j _ Hi Hj Hb Hax).
      + intros Hc. apply in_map_iff in Hc. destruct Hc as (p & <- & Hp). destruct (HG p Hp) as (_ & (j & Hj & Hax)).
        exact (Hba i j _ Hi Hj Hb Hax).
    - intros i _. apply aval_glue_ext.
    - intros i j Hi Hj Hne. apply aval_glue_indep.
      + intros a y Ha Hy Hb. destruct (Hclosed i a y Hi Ha Hy) as [Hax|Hbd].
        * exact (Hba j i y Hj Hi Hb Hax).
        * exact (Hbb i j y Hi Hj Hne Hbd Hb).
      + intros p Hp Hb. destruct (HG p Hp) as ((k & Hk & Hax) & _). exact (Hba j k _ Hj Hk Hb Hax).
    - exact Hnd.
  Qed.
End Fuse.

(* ================================================================================================================ *)
(* 2. the three layers                                                                                               *)
(* ================================================================================================================ *)
Lemma wf_sub3_node woff ket op t : forall p, wf_sub3 woff ket op p t ->
  forall m, In m (rnodes t) -> exists q cs, node_ok3 woff ket op q m cs.
Proof.
  induction t as [n cs IH] using rt_rect'. intros p H m Hm. inversion H as [p0 n0 cs0 Hn Hcs]; subst.
  cbn [rnodes] in Hm. destruct Hm as [<-|Hm]; [exists p, (map rid cs); exact Hn|].
  apply in_flat_map in Hm. destruct Hm as (c & Hc & Hm). exact (IH c Hc (Some n) (Hcs c Hc) m Hm).
Qed.

Lemma own_shape st m kn tm (w : wire) (mid tail : list wire) :
  aget m (nodes st) = Some kn -> aget m (tensors st) = Some tm -> length mid = length (children kn) ->
  t_axes st m = opt_list (parent kn) w ++ mid ++ tail ->
  own_of kn (tens st m) = opt_list (parent kn) w ++ tail.
Proof.
  intros E1 E2 Hl AX. destruct (t_views st m kn tm E1 E2) as (V1 & _ & _ & V4). unfold own_of.
  change (laxes kn (tens st m)) with (lax st m kn). rewrite <- V1, AX. unfold nvirt, nparents.
  destruct (parent kn) as [p|]; cbn [opt_list app length firstn skipn Nat.add].
  - f_equal. rewrite <- Hl. rewrite skipn_app, skipn_all, Nat.sub_diag. reflexivity.
  - rewrite <- Hl. rewrite skipn_app, skipn_all, Nat.sub_diag. reflexivity.
Qed.

Section Three.
  Variable R : Type.
  Variables (zero one : R) (add mul : R -> R -> R).
  Hypothesis SR : comm_semiring zero one add mul.
  Variables (woff aoff : nat) (s op : store).
  Variable tbl : nat -> list nat -> R.
  Hypothesis WS : wfs s.
  Hypothesis WO : wfs op.
  Hypothesis Hw : next_wire s <= woff.
  Hypothesis Hsep : op_above (next_wire s) op.
  Hypothesis Hwo : next_wire op <= woff.
  Variable t : rt.
  Hypothesis WT : wf_three woff s op t.

  Variable Wr : nat -> list wire.
  Variable Dm : wire -> nat.
  Hypothesis Wr_ket : forall a, In a (total_atoms s) -> Wr a = atom_wires s a.
  Hypothesis Wr_op : forall a, In a (total_atoms op) -> Wr a = atom_wires op a.
  Hypothesis Wr_bra : forall a, In a (total_atoms s) -> Wr (aoff + a) = map (Nat.add woff) (atom_wires s a).

  Local Notation sumb := (sum_bnd R zero add Dm).
  Local Notation aval := (atoms_val R one mul Wr tbl).
  Local Notation gval := (gvalue R zero one add mul Wr Dm tbl).
  Local Notation val := (value R zero one add mul Wr Dm tbl).
  Local Notation G := (three_glue woff s op t).
  Local Notation dl := (layer_tensor woff aoff s op).
  Local Notation items := (layer_items (rnodes t)).

  Let Wfs : wf s := ws_wf s WS.
  Let Wfo : wf op := ws_wf op WO.

  Lemma t_nodup : NoDup (rnodes t).
  Proof. destruct WT as (_ & _ & H & _). exact H. Qed.

  (* what the two stores say about a node of the tree *)
  Lemma three_view m : In m (rnodes t) -> exists kn on tk to,
    aget m (nodes s) = Some kn /\ aget m (nodes op) = Some on /\
    aget m (tensors s) = Some tk /\ aget m (tensors op) = Some to /\
    tens s m = tk /\ tens op m = to /\
    t_atoms s m = atoms tk /\ t_bnd s m = bnd tk /\ t_atoms op m = atoms to /\ t_bnd op m = bnd to /\
    In (open_wire s m) (axes tk) /\ In (out_wire op m) (axes to) /\ In (in_wire op m) (axes to) /\
    In (open_wire s m) (own_of kn (tens s m)) /\ In (out_wire op m) (own_of on (tens op m)) /\ In (in_wire op m) (own_of on (tens op m)) /\
    out_wire op m <> in_wire op m.
  Proof.
    intros Hm. destruct WT as (_ & _ & _ & Hsub).
    destruct (wf_sub3_node woff s op t None Hsub m Hm) as (q & cs & kn & on & E1 & E2 & P1 & P2 & C1 & C2 & ND & AX1 & AX2 & _).
    destruct (node_tensor s WS m kn E1) as [tk T1]. destruct (node_tensor op WO m on E2) as [to T2].
    destruct (t_views s m kn tk E1 T1) as (V1 & V2 & V3 & V4). destruct (t_views op m on to E2 T2) as (U1 & U2 & U3 & U4).
    rewrite <- C1 in AX1. rewrite <- P1 in AX1. rewrite <- P2 in AX2.
    assert (O1 : own_of kn (tens s m) = opt_list (parent kn) (up_wire s m) ++ [open_wire s m]).
    { apply (own_shape s m kn tk (up_wire s m) (map (up_wire s) (children kn)) [open_wire s m] E1 T1); [apply map_length|exact AX1]. }
    assert (O2 : own_of on (tens op m) = opt_list (parent on) (up_wire op m) ++ [out_wire op m; in_wire op m]).
    { apply (own_shape op m on to (up_wire op m) (map (up_wire op) (children on)) [out_wire op m; in_wire op m] E2 T2); [apply map_length|exact AX2]. }
    exists kn, on, tk, to. repeat (split; [assumption|]).
    assert (A1 : forall w, In w (own_of kn (tens s m)) -> In w (axes tk)).
    { intros w Hin. rewrite <- V4. apply (Permutation_in _ (wf_lax_perm s m kn Wfs E1)). apply own_of_incl. exact Hin. }
    assert (A2 : forall w, In w (own_of on (tens op m)) -> In w (axes to)).
    { intros w Hin. rewrite <- U4. apply (Permutation_in _ (wf_lax_perm op m on Wfo E2)). apply own_of_incl. exact Hin. }
    assert (I1 : In (open_wire s m) (own_of kn (tens s m))) by (rewrite O1; apply in_or_app; right; left; reflexivity).
    assert (I2 : In (out_wire op m) (own_of on (tens op m))) by (rewrite O2; apply in_or_app; right; left; reflexivity).
    assert (I3 : In (in_wire op m) (own_of on (tens op m))) by (rewrite O2; apply in_or_app; right; right; left; reflexivity).
    split; [apply A1; exact I1|]. split; [apply A2; exact I2|]. split; [apply A2; exact I3|].
    split; [exact I1|]. split; [exact I2|]. split; [exact I3|].
    pose proof (wf_own1 op Wfo m on E2) as Hnd. rewrite O2 in Hnd. apply NoDup_app_iff in Hnd. destruct Hnd as (_ & Hnd & _).
    inversion Hnd as [|? ? Hni _]; subst. intros E. apply Hni. left. symmetry. exact E.
  Qed.

  Lemma items_inv i : In i items -> exists m, In m (rnodes t) /\ (i = (0, m) \/ i = (1, m) \/ i = (2, m)).
  Proof.
    intros H. unfold layer_items in H. apply in_flat_map in H. destruct H as (m & Hm & H). exists m. split; [exact Hm|].
    cbn in H. destruct H as [H|[H|[H|[]]]]; auto.
  Qed.

  Lemma items_nodup : NoDup items.
  Proof.
    unfold layer_items. pose proof t_nodup as H. induction (rnodes t) as [|m l IH]; cbn [flat_map]; [constructor|].
    inversion H as [|? ? Hni Hnd]; subst. specialize (IH Hnd).
    assert (Hout : forall k, ~ In (k, m) (flat_map (fun m0 => [(0, m0); (1, m0); (2, m0)]) l)).
    { intros k Hc. apply in_flat_map in Hc. destruct Hc as (m' & Hm' & Hc). cbn in Hc.
      destruct Hc as [Hc|[Hc|[Hc|[]]]]; inversion Hc; subst; contradiction. }
    cbn [app]. constructor; [|constructor; [|constructor; [|exact IH]]].
    - intros [Hc|[Hc|Hc]]; [discriminate|discriminate|exact (Hout _ Hc)].
    - intros [Hc|Hc]; [discriminate|exact (Hout _ Hc)].
    - apply Hout.
  Qed.

  (* the three wire ranges *)
  Definition rng (l : nat) (w : wire) : Prop :=
    match l with 0 => w < next_wire s | 1 => next_wire s <= w /\ w < woff | _ => woff <= w end.

  Lemma rng_disj l l' w : l < 3 -> l' < 3 -> rng l w -> rng l' w -> l = l'.
  Proof. unfold rng. destruct l as [|[|[|l]]], l' as [|[|[|l']]]; try lia. Qed.

  Lemma item_rng i w : In i items -> In w (axes (dl i)) \/ In w (bnd (dl i)) -> fst i < 3 /\ rng (fst i) w.
  Proof.
    intros Hi Hiw. destruct (items_inv i Hi) as (m & Hm & Hc).
    destruct (three_view m Hm) as (kn & on & tk & to & E1 & E2 & T1 & T2 & V1 & V2 & _).
    destruct Hc as [-> | [-> | ->]]; unfold layer_tensor in Hiw; cbn [fst snd] in *; (split; [lia|]); unfold rng.
    - rewrite V1 in Hiw. destruct Hiw as [Hiw|Hiw]; [exact (F_axes_nw s WS m tk w T1 Hiw)|exact (F_bnd_nw s WS m tk w T1 Hiw)].
    - rewrite V2 in Hiw. split.
      + apply (Hsep m to w T2). apply in_or_app. exact Hiw.
      + destruct Hiw as [Hiw|Hiw]; [pose proof (F_axes_nw op WO m to w T2 Hiw)|pose proof (F_bnd_nw op WO m to w T2 Hiw)]; lia.
    - unfold conj_sarr in Hiw. cbn [axes bnd] in Hiw. destruct Hiw as [Hiw|Hiw]; apply in_map_iff in Hiw; destruct Hiw as (w0 & <- & _); lia.
  Qed.

  Lemma l_closed i a y : In i items -> In a (atoms (dl i)) -> In y (Wr a) -> In y (axes (dl i)) \/ In y (bnd (dl i)).
  Proof.
    intros Hi Ha Hy. destruct (items_inv i Hi) as (m & Hm & Hc).
    destruct (three_view m Hm) as (kn & on & tk & to & E1 & E2 & T1 & T2 & V1 & V2 & _).
    destruct Hc as [-> | [-> | ->]]; unfold layer_tensor in *; cbn [fst snd] in *.
    - rewrite V1 in *. rewrite (Wr_ket a (F_atom_in s m tk a T1 Ha)) in Hy. exact (F_closed s WS m tk a y T1 Ha Hy).
    - rewrite V2 in *. rewrite (Wr_op a (F_atom_in op m to a T2 Ha)) in Hy. exact (F_closed op WO m to a y T2 Ha Hy).
    - rewrite V1 in *. unfold conj_sarr in *. cbn [axes bnd atoms] in *. apply in_map_iff in Ha. destruct Ha as (a0 & <- & Ha).
      rewrite (Wr_bra a0 (F_atom_in s m tk a0 T1 Ha)) in Hy. apply in_map_iff in Hy. destruct Hy as (y0 & <- & Hy).
      destruct (F_closed s WS m tk a0 y0 T1 Ha Hy) as [H|H]; [left|right]; apply in_map; exact H.
  Qed.

  Lemma add_inj_in (w : nat) l : In (woff + w) (map (Nat.add woff) l) -> In w l.
  Proof. intros H. apply in_map_iff in H. destruct H as (x & E & Hx). assert (x = w) by lia. subst x. exact Hx. Qed.

  Lemma l_ba i j b : In i items -> In j items -> In b (bnd (dl i)) -> ~ In b (axes (dl j)).
  Proof.
    intros Hi Hj Hb Hax.
    destruct (item_rng i b Hi (or_intror Hb)) as [L1 R1]. destruct (item_rng j b Hj (or_introl Hax)) as [L2 R2].
    pose proof (rng_disj _ _ b L1 L2 R1 R2) as El.
    destruct (items_inv i Hi) as (m & Hm & Hc). destruct (items_inv j Hj) as (m' & Hm' & Hc').
    destruct (three_view m Hm) as (kn & on & tk & to & E1 & E2 & T1 & T2 & V1 & V2 & _).
    destruct (three_view m' Hm') as (kn' & on' & tk' & to' & E1' & E2' & T1' & T2' & V1' & V2' & _).
    destruct Hc as [-> | [-> | ->]], Hc' as [-> | [-> | ->]]; cbn [fst] in El; try discriminate; unfold layer_tensor in *; cbn [fst snd] in *.
    - rewrite V1 in Hb. rewrite V1' in Hax. exact (F_bnd_axes s WS m tk m' tk' b T1 T1' Hb Hax).
    - rewrite V2 in Hb. rewrite V2' in Hax. exact (F_bnd_axes op WO m to m' to' b T2 T2' Hb Hax).
    - rewrite V1 in Hb. rewrite V1' in Hax. unfold conj_sarr in *. cbn [axes bnd] in *.
      apply in_map_iff in Hb. destruct Hb as (b0 & <- & Hb). apply add_inj_in in Hax.
      exact (F_bnd_axes s WS m tk m' tk' b0 T1 T1' Hb Hax).
  Qed.

  Lemma l_bb i j b : In i items -> In j items -> i <> j -> In b (bnd (dl i)) -> ~ In b (bnd (dl j)).
  Proof.
    intros Hi Hj Hne Hb Hb'.
    destruct (item_rng i b Hi (or_intror Hb)) as [L1 R1]. destruct (item_rng j b Hj (or_intror Hb')) as [L2 R2].
    pose proof (rng_disj _ _ b L1 L2 R1 R2) as El.
    destruct (items_inv i Hi) as (m & Hm & Hc). destruct (items_inv j Hj) as (m' & Hm' & Hc').
    destruct (three_view m Hm) as (kn & on & tk & to & E1 & E2 & T1 & T2 & V1 & V2 & _).
    destruct (three_view m' Hm') as (kn' & on' & tk' & to' & E1' & E2' & T1' & T2' & V1' & V2' & _).
    assert (Hmm : m <> m' -> False).
    { intros Hmm.
      destruct Hc as [-> | [-> | ->]], Hc' as [-> | [-> | ->]]; cbn [fst] in El; try discriminate; unfold layer_tensor in *; cbn [fst snd] in *.
      - rewrite V1 in Hb. rewrite V1' in Hb'. exact (F_bnd_disj s WS m tk m' tk' b T1 T1' Hmm Hb Hb').
      - rewrite V2 in Hb. rewrite V2' in Hb'. exact (F_bnd_disj op WO m to m' to' b T2 T2' Hmm Hb Hb').
      - rewrite V1 in Hb. rewrite V1' in Hb'. unfold conj_sarr in *. cbn [axes bnd] in *.
        apply in_map_iff in Hb. destruct Hb as (b0 & <- & Hb). apply add_inj_in in Hb'.
        exact (F_bnd_disj s WS m tk m' tk' b0 T1 T1' Hmm Hb Hb'). }
    apply Hmm. intros ->. apply Hne. destruct Hc as [-> | [-> | ->]], Hc' as [-> | [-> | ->]]; cbn [fst] in El; try discriminate; reflexivity.
  Qed.

  Lemma in_items k m : k < 3 -> In m (rnodes t) -> In (k, m) items.
  Proof.
    intros Hk Hm. unfold layer_items. apply in_flat_map. exists m. split; [exact Hm|].
    destruct k as [|[|[|k]]]; [left|right; left|right; right; left|lia]; reflexivity.
  Qed.

  Lemma rdesc_in m : In m (rdesc t) -> In m (rnodes t).
  Proof. intros H. rewrite (rnodes_desc t). right. exact H. Qed.
  Lemma root_in : In (rid t) (rnodes t).
  Proof. rewrite (rnodes_desc t). left. reflexivity. Qed.

  Lemma ax_ket m : In m (rnodes t) -> exists i, In i items /\ In (open_wire s m) (axes (dl i)).
  Proof.
    intros Hm. destruct (three_view m Hm) as (kn & on & tk & to & _ & _ & _ & _ & V1 & V2 & _ & _ & _ & _ & A1 & _).
    exists (0, m). split; [apply in_items; [lia|exact Hm]|]. unfold layer_tensor. cbn [fst snd]. rewrite V1. exact A1.
  Qed.
  Lemma ax_out m : In m (rnodes t) -> exists i, In i items /\ In (out_wire op m) (axes (dl i)).
  Proof.
    intros Hm. destruct (three_view m Hm) as (kn & on & tk & to & _ & _ & _ & _ & V1 & V2 & _ & _ & _ & _ & _ & A2 & _).
    exists (1, m). split; [apply in_items; [lia|exact Hm]|]. unfold layer_tensor. cbn [fst snd]. rewrite V2. exact A2.
  Qed.
  Lemma ax_in m : In m (rnodes t) -> exists i, In i items /\ In (in_wire op m) (axes (dl i)).
  Proof.
    intros Hm. destruct (three_view m Hm) as (kn & on & tk & to & _ & _ & _ & _ & V1 & V2 & _ & _ & _ & _ & _ & _ & A3 & _).
    exists (1, m). split; [apply in_items; [lia|exact Hm]|]. unfold layer_tensor. cbn [fst snd]. rewrite V2. exact A3.
  Qed.
  Lemma ax_bra m : In m (rnodes t) -> exists i, In i items /\ In (woff + open_wire s m) (axes (dl i)).
  Proof.
    intros Hm. destruct (three_view m Hm) as (kn & on & tk & to & _ & _ & _ & _ & V1 & V2 & _ & _ & _ & _ & A1 & _).
    exists (2, m). split; [apply in_items; [lia|exact Hm]|]. unfold layer_tensor, conj_sarr. cbn [fst snd axes]. rewrite V1.
    apply in_map. exact A1.
  Qed.

  Lemma G_axes p : In p G ->
    (exists i, In i items /\ In (fst p) (axes (dl i))) /\ (exists j, In j items /\ In (snd p) (axes (dl j))).
  Proof.
    unfold three_glue. intros Hp. apply in_app_or in Hp. destruct Hp as [[<-|[<-|[]]]|Hp]; cbn [fst snd].
    - split; [apply ax_ket|apply ax_in]; exact root_in.
    - split; [apply ax_bra|apply ax_out]; exact root_in.
    - unfold open_pairs3 in Hp. apply in_flat_map in Hp. destruct Hp as (m & Hm & [<-|[<-|[]]]); cbn [fst snd]; apply rdesc_in in Hm.
      + split; [apply ax_ket|apply ax_in]; exact Hm.
      + split; [apply ax_out|apply ax_bra]; exact Hm.
  Qed.

  Lemma op_phys_inj m m' w : In m (rnodes t) -> In m' (rnodes t) ->
    In w [out_wire op m; in_wire op m] -> In w [out_wire op m'; in_wire op m'] -> m = m'.
  Proof.
    intros Hm Hm' H1 H2.
    destruct (three_view m Hm) as (kn & on & tk & to & _ & E2 & _ & _ & _ & _ & _ & _ & _ & _ & _ & _ & _ & _ & I2 & I3 & _).
    destruct (three_view m' Hm') as (kn' & on' & tk' & to' & _ & E2' & _ & _ & _ & _ & _ & _ & _ & _ & _ & _ & _ & _ & I2' & I3' & _).
    apply (wf_own2 op Wfo m on m' on' w E2 E2').
    - destruct H1 as [<-|[<-|[]]]; assumption.
    - destruct H2 as [<-|[<-|[]]]; assumption.
  Qed.

  Lemma ket_open_inj m m' : In m (rnodes t) -> In m' (rnodes t) -> open_wire s m = open_wire s m' -> m = m'.
  Proof.
    intros Hm Hm' E.
    destruct (three_view m Hm) as (kn & on & tk & to & E1 & _ & _ & _ & _ & _ & _ & _ & _ & _ & _ & _ & _ & I1 & _).
    destruct (three_view m' Hm') as (kn' & on' & tk' & to' & E1' & _ & _ & _ & _ & _ & _ & _ & _ & _ & _ & _ & _ & I1' & _).
    apply (wf_own2 s Wfs m kn m' kn' (open_wire s m) E1 E1' I1). rewrite E. exact I1'.
  Qed.

  Lemma op_wire_lt m : In m (rnodes t) -> out_wire op m < woff /\ in_wire op m < woff.
  Proof.
    intros Hm. destruct (three_view m Hm) as (kn & on & tk & to & _ & _ & _ & T2 & _ & _ & _ & _ & _ & _ & _ & A2 & A3 & _).
    pose proof (F_axes_nw op WO m to _ T2 A2). pose proof (F_axes_nw op WO m to _ T2 A3). lia.
  Qed.

  Lemma map_flat_map {X Y Z} (g : Y -> Z) (f : X -> list Y) l : map g (flat_map f l) = flat_map (fun a => map g (f a)) l.
  Proof. induction l as [|a l IH]; [reflexivity|]. cbn [flat_map]. rewrite map_app, IH. reflexivity. Qed.

  Lemma G_nodup : NoDup (map snd G).
  Proof.
    assert (P : Permutation (map snd G)
                  ((out_wire op (rid t) :: map (in_wire op) (rnodes t)) ++ map (fun m => woff + open_wire s m) (rdesc t))).
    { unfold three_glue, open_pairs3. rewrite map_app, map_flat_map. cbn [map fst snd app].
      rewrite (rnodes_desc t). cbn [map app]. rewrite perm_swap. do 2 apply perm_skip.
      rewrite (perm_flat_map_split (fun m => [in_wire op m]) (fun m => [woff + open_wire s m]) (rdesc t)).
      rewrite !flat_map_single. reflexivity. }
    apply (Permutation_NoDup (Permutation_sym P)). apply NoDup_app_iff. split; [|split].
    - constructor.
      + intros Hc. apply in_map_iff in Hc. destruct Hc as (m & E & Hm).
        assert (m = rid t).
        { apply (op_phys_inj m (rid t) (in_wire op m) Hm root_in); [right; left; reflexivity|left; symmetry; exact E]. }
        subst m. destruct (three_view (rid t) root_in) as (kn & on & tk & to & _ & _ & _ & _ & _ & _ & _ & _ & _ & _ & _ & _ & _ & _ & _ & _ & Hne).
        apply Hne. symmetry. exact E.
      + apply NoDup_map_inj_in; [|exact t_nodup]. intros a b Hia Hib E.
        apply (op_phys_inj a b (in_wire op a) Hia Hib); [right; left; reflexivity|right; left; symmetry; exact E].
    - apply NoDup_map_inj_in.
      + intros a b Hia Hib E. apply (ket_open_inj a b (rdesc_in a Hia) (rdesc_in b Hib)). lia.
      + pose proof t_nodup as H. rewrite (rnodes_desc t) in H. inversion H; assumption.
    - intros x Hx Hx'. apply in_map_iff in Hx'. destruct Hx' as (m' & <- & _).
      destruct Hx as [E|Hx].
      + pose proof (op_wire_lt (rid t) root_in). lia.
      + apply in_map_iff in Hx. destruct Hx as (m & E & Hm). pose proof (op_wire_lt m Hm). lia.
  Qed.

  Lemma prod_items (f : nat * id -> R) ns :
    prod_over R one mul f (layer_items ns) = prod_over R one mul (fun m => mul (mul (f (0, m)) (f (1, m))) (f (2, m))) ns.
  Proof.
    induction ns as [|m l IH]; [reflexivity|]. unfold layer_items in *. cbn [flat_map app prod_over]. rewrite IH.
    rewrite !(csr_mul_assoc _ _ _ _ SR). reflexivity.
  Qed.

  (* THE FLAT FORM of the three-layer diagram *)
  Theorem three_flat_value : exists g, expectation_value woff aoff s op = Some g /\ gaxes g = [] /\
    forall rho, gval g rho = three_flat R zero one add mul Wr Dm tbl woff aoff s op t rho.
  Proof.
    destruct (expectation_value_closed woff aoff s op t WT) as (g & Hg & Hax & PA & PB & PG).
    exists g. split; [exact Hg|]. split; [exact Hax|]. intros rho.
    set (NA := flat_map (fun i => atoms (dl i)) items).
    set (NB := flat_map (fun i => bnd (dl i)) items).
    rewrite (gvalue_norm R zero one add mul SR Wr Dm tbl g NA (three_wires woff s op t ++ NB) G rho).
    - unfold three_flat. rewrite sum_bnd_app. apply sum_bnd_ext_F. intros r0. unfold NA, NB.
      rewrite (fuse_items R zero one add mul SR Wr Dm tbl (nat * id) dl G items items_nodup l_closed l_ba l_bb G_axes r0).
      rewrite prod_items. reflexivity.
    - rewrite PA. unfold all_atoms3, NA, layer_items. rewrite flat_map_flat_map. apply perm_flat_map_pointwise. intros m Hm.
      destruct (three_view m Hm) as (kn & on & tk & to & _ & _ & _ & _ & V1 & V2 & W1 & _ & W3 & _).
      cbn [flat_map]. unfold layer_tensor, conj_sarr. cbn [fst snd atoms]. rewrite V1, V2, W1, W3, app_nil_r. reflexivity.
    - rewrite PB. unfold three_wires. rewrite (Permutation_map fst PG). fold G.
      rewrite <- !app_assoc. apply Permutation_app_head. rewrite Permutation_app_comm. apply Permutation_app_head.
      unfold inner_bnd3, NB, layer_items. rewrite flat_map_flat_map. apply perm_flat_map_pointwise. intros m Hm.
      destruct (three_view m Hm) as (kn & on & tk & to & _ & _ & _ & _ & V1 & V2 & _ & W2 & _ & W4 & _).
      cbn [flat_map]. unfold layer_tensor, conj_sarr. cbn [fst snd bnd]. rewrite V1, V2, W2, W4, app_nil_r. reflexivity.
    - exact PG.
    - exact G_nodup.
  Qed.
End Three.

(* ================================================================================================================ *)
(* 3. the packaged statements                                                                                        *)
(* ================================================================================================================ *)
Theorem ttno_expectation_value_flat (R : Type) (zero one : R) (add mul : R -> R -> R) :
  comm_semiring zero one add mul ->
  forall (woff aoff : nat) (s op : store) (t : rt) (tbl : nat -> list nat -> R) (Wr : nat -> list wire) (Dm : wire -> nat),
  wfs s -> wfs op -> next_wire s <= woff -> op_above (next_wire s) op -> next_wire op <= woff ->
  wf_three woff s op t ->
  (forall a, In a (total_atoms s) -> Wr a = atom_wires s a) ->
  (forall a, In a (total_atoms op) -> Wr a = atom_wires op a) ->
  (forall a, In a (total_atoms s) -> Wr (aoff + a) = map (Nat.add woff) (atom_wires s a)) ->
  exists g, expectation_value woff aoff s op = Some g /\ gaxes g = [] /\
    forall rho, gvalue R zero one add mul Wr Dm tbl g rho = three_flat R zero one add mul Wr Dm tbl woff aoff s op t rho.
Proof.
  intros SR woff aoff s op t tbl Wr Dm WS WO Hw Hsep Hwo WT W1 W2 W3.
  exact (three_flat_value R zero one add mul SR woff aoff s op tbl WS WO Hw Hsep Hwo t WT Wr Dm W1 W2 W3).
Qed.

(* ---- the world of the three networks ------------------------------------------------------------------------------ *)
Section ThreeWorld.
  Variables (woff aoff : nat) (s op : store).
  Hypothesis WS : wfs s.
  Hypothesis WO : wfs op.
  Hypothesis Hw : next_wire s <= woff.
  Hypothesis Ha : next_atom s <= aoff.
  Hypothesis Hao : next_atom op <= aoff.
  Hypothesis Hlo : forall a, In a (total_atoms op) -> next_atom s <= a.

  Lemma tw_ket a : In a (total_atoms s) -> three_world woff aoff s op a = atom_wires s a.
  Proof.
    intros H. pose proof (ws_atoms_tab s WS a H) as Hm. apply amem_aget in Hm. destruct Hm as [ws E].
    unfold three_world, atom_wires. rewrite E. reflexivity.
  Qed.

  Lemma tw_op a : In a (total_atoms op) -> three_world woff aoff s op a = atom_wires op a.
  Proof.
    intros H. pose proof (ws_atoms_tab op WO a H) as Hm. apply amem_aget in Hm. destruct Hm as [ws E].
    unfold three_world, atom_wires. rewrite (atab_fresh s a WS (Hlo a H)), E. reflexivity.
  Qed.

  Lemma tw_bra a : In a (total_atoms s) -> three_world woff aoff s op (aoff + a) = map (Nat.add woff) (atom_wires s a).
  Proof.
    intros H. pose proof (ws_atoms_lt s WS a H) as Hlt.
    rewrite <- (pw_bra woff aoff s WS Hw Ha a Hlt). unfold three_world, pair_wires.
    rewrite (atab_fresh s (aoff + a) WS) by lia. rewrite (atab_fresh op (aoff + a) WO) by lia. reflexivity.
  Qed.
End ThreeWorld.

(* in the world of the three stores, hypotheses through the executable checker three_ok *)
Theorem ttno_expectation_value_flat_world (R : Type) (zero one : R) (add mul : R -> R -> R) :
  comm_semiring zero one add mul ->
  forall (woff aoff : nat) (s op : store) (tbl : nat -> list nat -> R),
  wfs s -> wfs op -> next_wire s <= woff -> op_above (next_wire s) op -> next_wire op <= woff ->
  next_atom s <= aoff -> next_atom op <= aoff -> (forall a, In a (total_atoms op) -> next_atom s <= a) ->
  three_ok woff s op = true ->
  exists t g, ket_tree s = Some t /\ expectation_value woff aoff s op = Some g /\ gaxes g = [] /\
    forall rho, gvalue R zero one add mul (three_world woff aoff s op) (three_dim woff aoff s op) tbl g rho
                = three_flat R zero one add mul (three_world woff aoff s op) (three_dim woff aoff s op) tbl woff aoff s op t rho.
Proof.
  intros SR woff aoff s op tbl WS WO Hw Hsep Hwo Ha Hao Hlo Hok.
  unfold three_ok in Hok. destruct (ket_tree s) as [t|]; [|discriminate]. apply wf_threeb_sound in Hok.
  destruct (ttno_expectation_value_flat R zero one add mul SR woff aoff s op t tbl (three_world woff aoff s op) (three_dim woff aoff s op)
              WS WO Hw Hsep Hwo Hok (tw_ket woff aoff s op WS) (tw_op woff aoff s op WS WO Hlo) (tw_bra woff aoff s op WS WO Hw Ha Hao))
    as (g & Hg & Hax & Hv).
  exists t, g. auto.
Qed.

Lemma op_aboveb_sound lo op : op_aboveb lo op = true -> op_above lo op.
Proof.
  unfold op_aboveb, op_above. intros H m tm w E Hin. rewrite forallb_forall in H.
  specialize (H (m, tm) (aget_In _ _ _ E)). cbn [snd] in H. rewrite forallb_forall in H. apply Nat.leb_le. apply H. exact Hin.
Qed.

(* ================================================================================================================ *)
(* 4. the value does not depend on the child orders                                                                  *)
(* ================================================================================================================ *)
Lemma perm_flat_map_2 {X Y} (f f' : X -> list Y) l l' :
  Permutation l l' -> (forall m, In m l -> f m = f' m) -> Permutation (flat_map f l) (flat_map f' l').
Proof.
  intros P H. rewrite <- (Permutation_flat_map f' P). apply perm_flat_map_pointwise. intros m Hm. rewrite (H m Hm). reflexivity.
Qed.

(* two (state, operator) pairs that hold the same node data -- atoms, inner sums, edge wires and physical wires at every node --
   over trees with the same root and the same nodes, in ANY child orders (of the state, hence of its conjugate copy, and of the
   operator): the two closed diagrams have the same value *)
Theorem ttno_expectation_child_orders (R : Type) (zero one : R) (add mul : R -> R -> R) :
  comm_semiring zero one add mul ->
  forall (woff aoff : nat) (s op s' op' : store) (t t' : rt) (tbl : nat -> list nat -> R) (Wr : nat -> list wire) (Dm : wire -> nat),
  wfs s -> wfs op -> next_wire s <= woff -> next_wire op <= woff ->
  wf_three woff s op t -> wf_three woff s' op' t' ->
  rid t = rid t' -> Permutation (rnodes t) (rnodes t') ->
  (forall m, In m (rnodes t) ->
     t_atoms s m = t_atoms s' m /\ t_bnd s m = t_bnd s' m /\ up_wire s m = up_wire s' m /\ open_wire s m = open_wire s' m /\
     t_atoms op m = t_atoms op' m /\ t_bnd op m = t_bnd op' m /\ up_wire op m = up_wire op' m /\
     out_wire op m = out_wire op' m /\ in_wire op m = in_wire op' m) ->
  exists g g', expectation_value woff aoff s op = Some g /\ expectation_value woff aoff s' op' = Some g' /\
    forall rho, gvalue R zero one add mul Wr Dm tbl g rho = gvalue R zero one add mul Wr Dm tbl g' rho.
Proof.
  intros SR woff aoff s op s' op' t t' tbl Wr Dm WS WO Hw Hwo WT WT' Hr HP Hsame.
  destruct (expectation_value_closed woff aoff s op t WT) as (g & Hg & _ & PA & PB & PG).
  destruct (expectation_value_closed woff aoff s' op' t' WT') as (g' & Hg' & _ & PA' & PB' & PG').
  exists g, g'. split; [exact Hg|]. split; [exact Hg'|]. intros rho.
  assert (HPd : Permutation (rdesc t) (rdesc t')).
  { rewrite (rnodes_desc t), (rnodes_desc t'), Hr in HP. exact (Permutation_cons_inv HP). }
  assert (Hd : forall m, In m (rdesc t) -> In m (rnodes t)) by (intros m Hm; rewrite (rnodes_desc t); right; exact Hm).
  assert (Hroot : In (rid t) (rnodes t)) by (rewrite (rnodes_desc t); left; reflexivity).
  apply (gvalue_perm R zero one add mul SR).
  - rewrite PA, PA'. unfold all_atoms3. apply (perm_flat_map_2 _ _ _ _ HP). intros m Hm.
    destruct (Hsame m Hm) as (E1 & _ & _ & _ & E5 & _). rewrite E1, E5. reflexivity.
  - rewrite PB, PB'. apply Permutation_app.
    + unfold edge_wires3. apply (perm_flat_map_2 _ _ _ _ HPd). intros m Hm.
      destruct (Hsame m (Hd m Hm)) as (_ & _ & E3 & _ & _ & _ & E7 & _). rewrite E3, E7. reflexivity.
    + unfold inner_bnd3. apply (perm_flat_map_2 _ _ _ _ HP). intros m Hm.
      destruct (Hsame m Hm) as (_ & E2 & _ & _ & _ & E6 & _). rewrite E2, E6. reflexivity.
  - rewrite PG, PG'. apply Permutation_app.
    + rewrite <- Hr. destruct (Hsame (rid t) Hroot) as (_ & _ & _ & E4 & _ & _ & _ & E8 & E9). rewrite E4, E8, E9. reflexivity.
    + unfold open_pairs3. apply (perm_flat_map_2 _ _ _ _ HPd). intros m Hm.
      destruct (Hsame m (Hd m Hm)) as (_ & _ & _ & E4 & _ & _ & _ & E8 & E9). rewrite E4, E8, E9. reflexivity.
  - apply (Permutation_NoDup (Permutation_map snd (Permutation_sym PG))). exact (G_nodup woff s op WS WO Hw Hwo t WT).
Qed.

(* ================================================================================================================ *)
(* 6. the pairing hypothesis wf_three is a consequence of the store invariants                                        *)
(* ================================================================================================================ *)
From PTN Require Import TTN.InvContract TTN.CanonTree.
Definition two_open (s : store) : Prop := forall k nd, aget k (nodes s) = Some nd -> nopen nd = 2.

Section ThreeOfWf.
  Variables (woff : nat) (s op : store).
  Hypothesis WS : wfs s.
  Hypothesis WO : wfs op.
  Hypothesis H1 : one_open s.
  Hypothesis H2 : two_open op.
  Hypothesis Hroot : root op = root s.
  (* the operator has the state's nodes with the same parents and the same children in ANY order *)
  Hypothesis Hsame : forall k n, aget k (nodes s) = Some n ->
    exists on, aget k (nodes op) = Some on /\ parent on = parent n /\ Permutation (children on) (children n).
  Hypothesis Hsep : op_above (next_wire s) op.
  Hypothesis Hwo : next_wire op <= woff.
  Hypothesis Hw0 : 0 < woff.

  Let Wfs : wf s := ws_wf s WS.
  Let Wfo : wf op := ws_wf op WO.

  Lemma op_axes_struct k n : aget k (nodes op) = Some n ->
    t_axes op k = opt_list (parent n) (up_wire op k) ++ map (up_wire op) (children n) ++ [out_wire op k; in_wire op k].
  Proof.
    intros E. pose proof (wf_node op Wfo k n E) as Hn. pose proof (t_axes_lax op Wfo k n E) as HL.
    pose proof (laxes_length n (tens op k)) as Hlen. fold (lax op k n) in Hlen.
    pose proof (ni_virt _ _ _ Hn) as Hv. pose proof (H2 k n E) as Ho. unfold nopen in Ho.
    unfold up_wire, out_wire, in_wire. rewrite HL. rewrite (wf_lax_decomp op k n Wfo E) at 1. set (L := lax op k n) in *.
    f_equal; [|f_equal].
    - unfold nparents, nvirt, nparents in *. destruct (parent n) as [p|]; [|reflexivity].
      destruct L as [|x t]; [cbn in Hlen; lia|reflexivity].
    - apply map_ext_in. intros c0 Hc0. destruct (ni_ch _ _ _ Hn c0 Hc0) as (cn & Ec & _).
      unfold ew. rewrite Ec, (t_axes_lax op Wfo c0 cn Ec). destruct (lax op c0 cn); reflexivity.
    - unfold open_of. fold (lax op k n). fold L.
      assert (Hsk : length (skipn (nvirt n) L) = 2) by (rewrite skipn_length; lia).
      destruct (skipn (nvirt n) L) as [|x [|y [|z r]]] eqn:Es; cbn in Hsk; try lia.
      rewrite <- (firstn_skipn (nvirt n) L), Es.
      change [x; y] with ([x] ++ [y]). rewrite app_assoc, removelast_last, !last_last. reflexivity.
  Qed.

  Lemma node_ok3_of_wf k n : aget k (nodes s) = Some n -> node_ok3 woff s op (parent n) k (children n).
  Proof.
    intros E. destruct (Hsame k n E) as (on & Eo & Po & Co). exists n, on.
    pose proof (axes_struct woff s Wfs H1 Hw0 k n E) as AX. pose proof (op_axes_struct k on Eo) as AXo.
    split; [exact E|]. split; [exact Eo|]. split; [reflexivity|]. split; [exact Po|]. split; [reflexivity|]. split; [exact Co|].
    split; [apply (ts_neighbours_nodup _ _ _ (wf_tstruct s Wfs) E)|]. split; [exact AX|]. split; [rewrite <- Po; exact AXo|].
    destruct (node_tensor s WS k n E) as [tk T1]. destruct (node_tensor op WO k on Eo) as [to T2].
    destruct (t_views s k n tk E T1) as (V1 & _ & _ & V4). destruct (t_views op k on to Eo T2) as (U1 & _ & _ & U4).
    assert (A1 : In (open_wire s k) (axes tk)).
    { rewrite <- V4. apply (Permutation_in _ (wf_lax_perm s k n Wfs E)). rewrite <- V1, AX. apply in_or_app. right. apply in_or_app. right. left. reflexivity. }
    assert (A2 : forall w, In w [out_wire op k; in_wire op k] -> In w (axes to)).
    { intros w Hin. rewrite <- U4. apply (Permutation_in _ (wf_lax_perm op k on Wfo Eo)). rewrite <- U1, AXo. apply in_or_app. right. apply in_or_app. right. exact Hin. }
    pose proof (F_axes_nw s WS k tk _ T1 A1) as B1.
    pose proof (Hsep k to (in_wire op k) T2 (in_or_app _ _ _ (or_introl (A2 _ (or_intror (or_introl eq_refl)))))) as B2.
    pose proof (F_axes_nw op WO k to _ T2 (A2 _ (or_introl eq_refl))) as B3.
    split; lia.
  Qed.

  Lemma wf_sub3_of_wf : forall t, sub_tree (nodes s) t -> forall n, aget (rid t) (nodes s) = Some n -> wf_sub3 woff s op (parent n) t.
  Proof.
    induction t as [k cs IH] using rt_rect'. intros Hst n E. inversion Hst as [? nd ? E' Hch Hsub]; subst. cbn [rid] in E.
    assert (nd = n) by congruence. subst nd. constructor.
    - rewrite <- Hch. apply (node_ok3_of_wf k n E).
    - intros c0 Hc0. assert (Hin : In (rid c0) (children n)) by (rewrite Hch; apply in_map; exact Hc0).
      destruct (ni_ch _ _ _ (wf_node s Wfs k n E) (rid c0) Hin) as (cn & Ec & Pc). rewrite <- Pc. apply (IH c0 Hc0 (Hsub c0 Hc0) cn Ec).
  Qed.

  Theorem wf_three_of_wf : exists t, ket_tree s = Some t /\ wf_three woff s op t /\ Permutation (rnodes t) (akeys (nodes s)).
  Proof.
    destruct (ket_tree_ok s Wfs) as (t & r & Ek & Er & Hr & Hst & Hnd & HP). exists t. split; [exact Ek|]. split; [|exact HP].
    destruct (wf_root s Wfs) as (r' & rn & Er' & En & Pr & _). assert (r' = r) by congruence. subst r'.
    split; [rewrite Hr; exact Er|]. split; [rewrite Hroot, Hr; exact Er|]. split; [exact Hnd|].
    rewrite <- Pr. apply wf_sub3_of_wf; [exact Hst|]. rewrite Hr. exact En.
  Qed.
End ThreeOfWf.

(* the flat form with every hypothesis in terms of the store invariants *)
Theorem ttno_expectation_value_flat_wf (R : Type) (zero one : R) (add mul : R -> R -> R) :
  comm_semiring zero one add mul ->
  forall (woff aoff : nat) (s op : store) (tbl : nat -> list nat -> R) (Wr : nat -> list wire) (Dm : wire -> nat),
  wfs s -> one_open s -> wfs op -> two_open op -> root op = root s ->
  (forall k n, aget k (nodes s) = Some n ->
     exists on, aget k (nodes op) = Some on /\ parent on = parent n /\ Permutation (children on) (children n)) ->
  0 < woff -> next_wire s <= woff -> op_above (next_wire s) op -> next_wire op <= woff ->
  (forall a, In a (total_atoms s) -> Wr a = atom_wires s a) ->
  (forall a, In a (total_atoms op) -> Wr a = atom_wires op a) ->
  (forall a, In a (total_atoms s) -> Wr (aoff + a) = map (Nat.add woff) (atom_wires s a)) ->
  exists t g, ket_tree s = Some t /\ Permutation (rnodes t) (akeys (nodes s)) /\
    expectation_value woff aoff s op = Some g /\ gaxes g = [] /\
    forall rho, gvalue R zero one add mul Wr Dm tbl g rho = three_flat R zero one add mul Wr Dm tbl woff aoff s op t rho.
Proof.
  intros SR woff aoff s op tbl Wr Dm WS H1 WO H2 Hroot Hsame Hw0 Hw Hsep Hwo W1 W2 W3.
  destruct (wf_three_of_wf woff s op WS WO H1 H2 Hroot Hsame Hsep Hwo Hw0) as (t & Ek & WT & HP).
  destruct (ttno_expectation_value_flat R zero one add mul SR woff aoff s op t tbl Wr Dm WS WO Hw Hsep Hwo WT W1 W2 W3) as (g & Hg & Hax & Hv).
  exists t, g. auto.
Qed.

(* ================================================================================================================ *)
(* 5. an instance over Z: three nodes (root 0 with children 1, 2), bond dimensions 2 and 3, operator with the root's    *)
(* children in the opposite order, arbitrary NON-SYMMETRIC integer tensors; both sides evaluated                       *)
(* ================================================================================================================ *)
From Coq Require Import ZArith.
From PTN Require Import Wire.SemInst TTN.InvSemProofs.
Definition tx_s := Eval vm_compute in fst (run empty_store [AddRoot 0 [2; 3; 2]; AddChild 1 [2; 2] 0 0 0; AddChild 2 [3; 2] 0 0 1]).
Definition tx_op := Eval vm_compute in fst (run (store_at 20 10) [AddRoot 0 [3; 2; 2; 2]; AddChild 2 [3; 2; 2] 0 0 0; AddChild 1 [2; 2; 2] 0 0 1]).
Definition tx_tbl (a : nat) (idx : list nat) : Z :=
  Z.of_nat (fold_right (fun i acc => 3 * acc + i + 1) (1 + Nat.modulo a 7) idx) - 20.
Definition tx_lhs (op : store) : option Z :=
  option_map (fun g => gvalue Z 0%Z 1%Z Z.add Z.mul (three_world 40 20 tx_s op) (three_dim 40 20 tx_s op) tx_tbl g (fun _ => 0))
             (expectation_value 40 20 tx_s op).
Definition tx_rhs (op : store) : option Z :=
  option_map (fun t => three_flat Z 0%Z 1%Z Z.add Z.mul (three_world 40 20 tx_s op) (three_dim 40 20 tx_s op) tx_tbl
                                  40 20 tx_s op t (fun _ => 0))
             (ket_tree tx_s).
Definition tx_hyp (op : store) : bool :=
  wfsb tx_s && wfsb op && Nat.leb (next_wire tx_s) 40 && op_aboveb (next_wire tx_s) op && Nat.leb (next_wire op) 40
  && Nat.leb (next_atom tx_s) 20 && Nat.leb (next_atom op) 20 && forallb (fun a => Nat.leb (next_atom tx_s) a) (total_atoms op)
  && three_ok 40 tx_s op.
Example tx_hyp_ok : tx_hyp tx_op = true.
Proof. vm_compute. reflexivity. Qed.
(* the diagram of expectation_value, evaluated (12 summed wires, 13824 terms) *)
Example tx_lhs_value : tx_lhs tx_op = Some (-732275630062126920)%Z.
Proof. vm_compute. reflexivity. Qed.
(* the flat form, evaluated *)
Example tx_rhs_value : tx_rhs tx_op = Some (-732275630062126920)%Z.
Proof. vm_compute. reflexivity. Qed.
(* the hypotheses of the theorem hold for the instance, so the equality is also a consequence of it *)
Example tx_instance : tx_lhs tx_op = tx_rhs tx_op.
Proof.
  pose proof tx_hyp_ok as H. unfold tx_hyp in H.
  apply andb_prop in H. destruct H as [H K9]. apply andb_prop in H. destruct H as [H K8]. apply andb_prop in H. destruct H as [H K7].
  apply andb_prop in H. destruct H as [H K6]. apply andb_prop in H. destruct H as [H K5]. apply andb_prop in H. destruct H as [H K4].
  apply andb_prop in H. destruct H as [H K3]. apply andb_prop in H. destruct H as [K1 K2].
  apply wfsb_wfs in K1. apply wfsb_wfs in K2. apply Nat.leb_le in K3, K5, K6, K7. apply op_aboveb_sound in K4.
  assert (Hlo : forall a, In a (total_atoms tx_op) -> next_atom tx_s <= a).
  { intros a Ha. rewrite forallb_forall in K8. apply Nat.leb_le. apply K8. exact Ha. }
  destruct (ttno_expectation_value_flat_world Z 0%Z 1%Z Z.add Z.mul Z_csr 40 20 tx_s tx_op tx_tbl K1 K2 K3 K4 K5 K6 K7 Hlo K9)
    as (t & g & E1 & E2 & _ & Hv).
  unfold tx_lhs, tx_rhs. rewrite E1, E2. cbn [option_map]. f_equal. apply Hv.
Qed.
