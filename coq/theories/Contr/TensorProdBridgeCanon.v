(* Property C04: the structural hypotheses of the bridge theorems (Contr/TensorProdBridgeStore.v) hold on every state
   produced by canonical_form / move_orthogonalization_center (TTN/Canon.v): the extended store invariant wfs is
   preserved, and every tensor off the centre is a plain atom (plain_off): exactly the Q factor of the QR call that
   produced it, on exactly its axes, nothing summed inside.  Together with C03's iso_check theorems this discharges
   every structural hypothesis except "one open leg per node" and the wire / atom offsets. *)
From Coq Require Import List Arith Bool Lia Permutation Sorted.
From PTN Require Import TTN.Store TTN.StoreProofs TTN.Inv TTN.InvProofs TTN.InvNode TTN.InvContract TTN.InvSplit Wire.Sem
  TTN.InvSem TTN.InvSemProofs TTN.InvSemWfs TTN.InvSemOps TTN.InvSemValue
  TTN.Canon TTN.CanonProofs TTN.CanonTree TTN.CanonMore TTN.CanonStep TTN.CanonDist TTN.CanonIso
  TEBD.GateTree Contr.Blocks Contr.Closed Contr.TensorProd Contr.TensorProdBridge Contr.TensorProdBridgeStore.
Import ListNotations.

(* ---- two facts about the store operations (kept local so that this file depends on the C02 / C03 / C08 layers only) ---- *)
Lemma br_In_remove_first x y l : In x (remove_first y l) -> In x l.
Proof.
  induction l as [|z t IH]; cbn; [auto|]. destruct (Nat.eqb y z); [auto|]. intros [->|H]; auto.
Qed.

(* the leg specifications of _build_qr_leg_specs describe the node truthfully when nb is a neighbour *)
Lemma br_build_qr_specs_ok nd nb : In nb (neighbouring_nodes nd) ->
  leg_ok nd (fst (build_qr_leg_specs nd nb)) /\ leg_ok nd (snd (build_qr_leg_specs nd nb)).
Proof.
  intros Hin. unfold build_qr_leg_specs.
  destruct (match parent nd with Some p => Nat.eqb p nb | None => false end) eqn:Hco; cbn [fst snd]; unfold leg_ok; cbn.
  - destruct (parent nd) as [p|] eqn:Hp; [|discriminate]. apply Nat.eqb_eq in Hco. subst p. repeat split; try discriminate; auto.
    + unfold is_root. rewrite Hp. discriminate.
    + intros x Hx. exact Hx.
    + intros l Hl. apply in_seq in Hl. lia.
    + intros x [].
    + intros l [].
  - repeat split; try discriminate; auto.
    + apply is_root_spec.
    + intros x Hx. eapply br_In_remove_first; eauto.
    + intros l Hl. apply in_seq in Hl. lia.
    + intros x [<-|[]]. apply in_neighbouring in Hin. destruct Hin as [Hp|Hc]; [|exact Hc].
      rewrite Hp, Nat.eqb_refl in Hco. discriminate.
    + intros l [].
Qed.

(* contract_nodes leaves the tensors of the other nodes alone *)
Lemma br_contract_other_tensor s a b new s' k : wf s -> contract_nodes s a b new = Some s' ->
  k <> a -> k <> b -> k <> new -> aget k (tensors s') = aget k (tensors s).
Proof.
  intros W H Ha Hb Hn. destruct (contract_data _ _ _ _ _ H) as (p & c & s1 & pn & pt & s2 & cn & ct & ax & nt & Hpc & _ & A1 & A2 & _ & _ & ET).
  pose proof (access_preserves_wf s p s1 pn pt W A1) as W1. pose proof (access_preserves_wf s1 c s2 cn ct W1 A2) as W2.
  destruct (access_result _ _ _ _ _ A1) as (_ & _ & _ & B4 & _). destruct (access_result _ _ _ _ _ A2) as (_ & _ & _ & C4 & _).
  assert (Hkp : k <> p) by (destruct Hpc as [[-> ->]|[-> ->]]; auto).
  assert (Hkc : k <> c) by (destruct Hpc as [[-> ->]|[-> ->]]; auto).
  rewrite ET, InvProofs.aget_app.
  rewrite (aget_adel k c) by (apply NoDup_akeys_adel; exact (wf_tnd s2 W2)). rewrite (aget_adel k p) by exact (wf_tnd s2 W2).
  destruct (Nat.eqb_spec k c); [contradiction|]. destruct (Nat.eqb_spec k p); [contradiction|].
  destruct (C4 k Hkc) as [_ E2]. destruct (B4 k Hkp) as [_ E1]. rewrite E2, E1.
  destruct (aget k (tensors s)); [reflexivity|]. cbn. destruct (Nat.eqb_spec k new); [contradiction|reflexivity].
Qed.

(* ---- one step split_qr_contract_r_to_neighbour --------------------------------------------------------------------- *)
Lemma qr_parts s n nb m rid s' : qr_to_neighbour s n nb m rid = Some s' ->
  exists nd q r s1, aget n (nodes s) = Some nd /\ build_qr_leg_specs nd nb = (q, r) /\
    split_nodes s n q r n rid 0 m 0 = Some s1 /\ contract_nodes s1 nb rid nb = Some s'.
Proof.
  unfold qr_to_neighbour. destruct (aget n (nodes s)) as [nd|]; [|discriminate].
  destruct (build_qr_leg_specs nd nb) as [q r] eqn:E. destruct (split_nodes s n q r n rid 0 m 0) as [s1|] eqn:Es; [|discriminate].
  intros H. exists nd, q, r, s1. auto.
Qed.

Lemma qr_side s n nb m rid s' nd q r : wf s -> aget rid (nodes s) = None -> aget n (nodes s) = Some nd ->
  qr_to_neighbour s n nb m rid = Some s' -> build_qr_leg_specs nd nb = (q, r) ->
  spec_ok s n q r /\ ids_ok s n n rid.
Proof.
  intros W Hrid En H Eqr.
  pose proof (qr_step_neighbour s n nb m rid s' nd En H) as Hin.
  pose proof (br_build_qr_specs_ok nd nb Hin) as [Hq Hr]. rewrite Eqr in Hq, Hr. cbn [fst snd] in Hq, Hr. split.
  - intros nd' E'. rewrite En in E'. injection E' as <-. auto.
  - split; [left; reflexivity|right; apply aget_None; exact Hrid].
Qed.

Lemma qr_wfs s n nb m rid s' : wfs s -> aget rid (nodes s) = None -> qr_to_neighbour s n nb m rid = Some s' -> wfs s'.
Proof.
  intros WS Hrid H. destruct (qr_parts _ _ _ _ _ _ H) as (nd & q & r & s1 & En & Eqr & Es & Hc).
  destruct (qr_side s n nb m rid s' nd q r (ws_wf s WS) Hrid En H Eqr) as [Hspec Hids].
  pose proof (split_preserves_wfs s n q r n rid 0 m 0 s1 WS Es Hspec Hids) as WS1.
  apply (contract_preserves_wfs s1 nb rid nb s' WS1 Hc). left. reflexivity.
Qed.

Lemma qr_old_atoms s n nb m rid s' a : qr_to_neighbour s n nb m rid = Some s' -> a < next_atom s ->
  atom_wires s' a = atom_wires s a.
Proof.
  intros H Ha. destruct (qr_parts _ _ _ _ _ _ H) as (nd & q & r & s1 & En & Eqr & Es & Hc).
  destruct (contract_world _ _ _ _ _ Hc) as (Eat & _). unfold atom_wires. rewrite Eat.
  apply (split_atom_wires_old s n q r n rid 0 m 0 s1 a Es Ha).
Qed.

(* the node that was split is now exactly the fresh Q atom *)
Lemma qr_plain_new s n nb m rid s' : wfs s -> aget rid (nodes s) = None -> qr_to_neighbour s n nb m rid = Some s' ->
  plain_node s' n.
Proof.
  intros WS Hrid H. pose proof (ws_wf s WS) as W. destruct (qr_parts _ _ _ _ _ _ H) as (nd & q & r & s1 & En & Eqr & Es & Hc).
  destruct (qr_side s n nb m rid s' nd q r W Hrid En H Eqr) as [Hspec Hids].
  pose proof (qr_step_neighbour s n nb m rid s' nd En H) as Hin.
  destruct (ts_neighbour_sym _ _ _ _ (wf_tstruct s W) En Hin) as (nbn & Enb & _ & Hnbn).
  assert (Hnr : n <> rid) by (intros ->; congruence).
  destruct (split_view_of s n q r n rid 0 m 0 s1 W Es Hspec Hids)
    as (s0 & nd0 & t & ol & il & on2 & in2 & cO & cI & bd & Ha & W0 & _ & _ & _ & _ & _ & _ & _ & Eatab & Hview).
  destruct (sp_access_next _ _ _ _ _ Ha) as (Na & Nw & _).
  assert (Et1 : aget n (tensors s1) = Some (sp_ot s0 t ol)).
  { destruct Hview as [[_ V]|[_ V]]; [exact (sv_tL _ _ _ _ _ _ _ _ _ _ _ _ _ _ _ _ V)|exact (sv_tU _ _ _ _ _ _ _ _ _ _ _ _ _ _ _ _ V)]. }
  pose proof (split_preserves_wf s n q r n rid 0 m 0 s1 W Es Hspec Hids) as W1.
  assert (Et' : aget n (tensors s') = Some (sp_ot s0 t ol)).
  { assert (Hnn : n <> nb) by (intros E; apply Hnbn; symmetry; exact E).
    rewrite (br_contract_other_tensor s1 nb rid nb s' n W1 Hc Hnn Hnr Hnn). exact Et1. }
  destruct (contract_world _ _ _ _ _ Hc) as (Eat & _).
  exists (sp_ot s0 t ol). split; [exact Et'|]. split; [reflexivity|]. intros a Ea. cbn [sp_ot atoms] in Ea. injection Ea as <-.
  unfold atom_wires. cbn [sp_ot axes]. rewrite Eat, Eatab, Na, Nw.
  rewrite !InvProofs.aget_app, (atab_fresh s (next_atom s) WS (le_n _)). cbn [aget]. rewrite Nat.eqb_refl. apply Permutation_refl.
Qed.

(* a node that is neither split nor contracted into keeps its tensor and its atom's wires *)
Lemma qr_plain_keep s n nb m rid s' k : wfs s -> aget rid (nodes s) = None -> qr_to_neighbour s n nb m rid = Some s' ->
  k <> n -> k <> nb -> plain_node s k -> plain_node s' k.
Proof.
  intros WS Hrid H Hkn Hkb (t & Et & Hb & Hp). pose proof (ws_wf s WS) as W.
  destruct (qr_step_effect s n nb m rid s' (wf_tstruct s W) Hrid H) as (nd & En & Hin & SE).
  assert (Hkr : k <> rid).
  { intros ->. assert (Hm : amem rid (tensors s) = true) by (apply amem_aget; eauto).
    apply (wf_tn s W) in Hm. apply amem_aget in Hm. destruct Hm as [v E]. congruence. }
  exists t. split; [rewrite (se_other_t _ _ _ _ _ _ SE k Hkn Hkb Hkr); exact Et|]. split; [exact Hb|].
  intros a Ea. rewrite (qr_old_atoms s n nb m rid s' a H); [exact (Hp a Ea)|].
  apply (ws_atoms_lt s WS). apply (total_atoms_In s k t a (aget_In _ _ _ Et)). rewrite Ea. left. reflexivity.
Qed.

(* one open leg per node is preserved by the step *)
Lemma nopen_open_of nd t : length (open_of nd t) = nopen nd.
Proof. unfold open_of, nopen. rewrite skipn_length, laxes_length. reflexivity. Qed.

Lemma qr_specs_open nd nb q r : build_qr_leg_specs nd nb = (q, r) -> ls_open q = seq (nvirt nd) (nopen nd) /\ ls_open r = [].
Proof.
  unfold build_qr_leg_specs. destruct (match parent nd with Some p => Nat.eqb p nb | None => false end); intros E; injection E as <- <-; auto.
Qed.

Lemma qr_one_open s n nb m rid s' : wf s -> aget rid (nodes s) = None -> qr_to_neighbour s n nb m rid = Some s' ->
  one_open s -> one_open s'.
Proof.
  intros W Hrid H H1. destruct (qr_parts _ _ _ _ _ _ H) as (nd & q & r & s1 & En & Eqr & Es & Hc).
  destruct (qr_side s n nb m rid s' nd q r W Hrid En H Eqr) as [Hspec Hids].
  destruct (qr_specs_open nd nb q r Eqr) as [Oq Or].
  pose proof (qr_step_neighbour s n nb m rid s' nd En H) as Hin.
  destruct (ts_neighbour_sym _ _ _ _ (wf_tstruct s W) En Hin) as (nbn & Enb & _ & Hnbn).
  assert (Hnr : n <> rid) by (intros ->; congruence).
  assert (Hbr : nb <> rid) by (intros ->; congruence).
  destruct (split_open_legs s n q r n rid 0 m 0 s1 nd W Es Hspec Hids En) as (no & ni & E1 & E2 & O1 & O2 & Hoth).
  pose proof (split_preserves_wf s n q r n rid 0 m 0 s1 W Es Hspec Hids) as W1.
  destruct (Hoth nb nbn Hnbn Enb) as (nbn1 & Enb1 & Onb1 & _).
  destruct (contract_open_rule s1 nb rid nb s' nbn1 ni W1 Hc (or_introl eq_refl) Enb1 E2) as (nn & Enn & Onn & Hoth2).
  destruct (qr_step_effect s n nb m rid s' (wf_tstruct s W) Hrid H) as (nd' & En' & _ & SE).
  intros k kn' Ek'.
  destruct (Nat.eq_dec k nb) as [->|Hkb].
  - assert (kn' = nn) by congruence. subst kn'. rewrite <- (nopen_open_of nn (tens s' nb)), Onn, app_length, Onb1, O2, Or.
    cbn [map length]. rewrite nopen_open_of, (H1 nb nbn Enb). reflexivity.
  - assert (Hk : In k (akeys (nodes s))) by (rewrite <- (se_keys _ _ _ _ _ _ SE); eapply aget_Some_keys; eauto).
    apply keys_aget in Hk. destruct Hk as [nk Ek]. assert (Hkr : k <> rid) by (intros ->; congruence).
    destruct (Nat.eq_dec k n) as [->|Hkn].
    + destruct (Hoth2 n no E1 Hkb Hkr) as (nk' & Ek2 & _ & Ok). assert (kn' = nk') by congruence. subst kn'.
      rewrite <- (nopen_open_of nk' (tens s' n)), Ok, O1, Oq, map_length, seq_length. assert (nk = nd) by congruence. subst nk. apply (H1 n nd En).
    + destruct (Hoth k nk Hkn Ek) as (nk1 & Ek1 & Ok1 & _). destruct (Hoth2 k nk1 Ek1 Hkb Hkr) as (nk' & Ek2 & _ & Ok).
      assert (kn' = nk') by congruence. subst kn'.
      rewrite <- (nopen_open_of nk' (tens s' k)), Ok, Ok1, nopen_open_of. apply (H1 k nk Ek).
Qed.

(* ---- canonical_form: the farthest-first sweep -------------------------------------------------------------------------- *)
Section SweepPlain.
  Variables (s0 : store) (c : id) (m : mode) (rid : id).
  Hypothesis T0 : tstruct (nodes s0).
  Hypothesis Hc : amem c (nodes s0) = true.
  Let d := distance_to_node s0 c.

  Lemma sweep_plain : forall todo done s sf,
    wfs s -> same_tree (nodes s0) (nodes s) -> aget rid (nodes s) = None ->
    (forall k, In k done -> plain_node s k) ->
    StronglySorted (farther d) todo -> NoDup todo ->
    (forall n, In n todo -> n <> c) ->
    (forall k n, In k done -> In n todo -> k <> n /\ dget d n <= dget d k) ->
    fold_left (canon_step d m rid) todo (Some s) = Some sf ->
    wfs sf /\ (one_open s -> one_open sf) /\ forall k, In k (done ++ todo) -> plain_node sf k.
  Proof.
    induction todo as [|n todo IH]; intros done s sf WS S Hrid Hgood Hss Hnd Hnc Hsep Hf.
    - cbn in Hf. injection Hf as <-. rewrite app_nil_r. auto.
    - cbn [fold_left] in Hf. pose proof (wf_tstruct s (ws_wf s WS)) as T.
      destruct (canon_step d m rid (Some s) n) as [s1|] eqn:E1; [|rewrite canon_fold_none in Hf; discriminate].
      cbn [canon_step] in E1. destruct (aget n (nodes s)) as [nd|] eqn:En; [|discriminate].
      destruct (choose_closer s0 c T0 Hc s n nd S En (Hnc n (or_introl eq_refl))) as (nb & Hfm & Hin & Hd). fold d in Hfm, Hd.
      rewrite Hfm in E1.
      destruct (qr_step_effect _ _ _ _ _ _ T Hrid E1) as (nd' & En' & _ & SE).
      rewrite En in En'. injection En' as <-.
      destruct (step_same_tree _ _ _ _ _ _ T En Hin SE) as [S1 T1].
      destruct (ts_neighbour_sym _ _ _ _ T En Hin) as (nbn & Enb & _ & Hnbn).
      assert (Hrn : rid <> n) by (intros ->; congruence).
      assert (Hrb : rid <> nb) by (intros ->; congruence).
      inversion Hss as [|? ? Hss' Hfar]; subst. inversion Hnd as [|? ? Hni Hnd']; subst.
      specialize (IH (done ++ [n]) s1 sf (qr_wfs _ _ _ _ _ _ WS Hrid E1) (same_tree_trans _ _ _ S S1)).
      destruct IH as (WSf & Of & Gf); auto.
      + rewrite (se_other_n _ _ _ _ _ _ SE rid Hrn Hrb). exact Hrid.
      + intros k Hk. apply in_app_or in Hk. destruct Hk as [Hk|[<-|[]]].
        * destruct (Hsep k n Hk (or_introl eq_refl)) as [Hkn Hle].
          apply (qr_plain_keep s n nb m rid s1 k WS Hrid E1 Hkn); [|exact (Hgood k Hk)]. intros ->. lia.
        * apply (qr_plain_new s n nb m rid s1 WS Hrid E1).
      + intros x Hx. apply Hnc. right. exact Hx.
      + intros k x Hk Hx. apply in_app_or in Hk. destruct Hk as [Hk|[<-|[]]].
        * apply Hsep; [exact Hk|right; exact Hx].
        * split; [intros ->; contradiction|]. rewrite Forall_forall in Hfar. apply (Hfar x Hx).
      + split; [exact WSf|]. split; [intros H1; apply Of; apply (qr_one_open s n nb m rid s1 (ws_wf s WS) Hrid E1 H1)|].
        intros k Hk. apply Gf. rewrite <- app_assoc. exact Hk.
  Qed.
End SweepPlain.

Theorem canonical_form_plain s oc c m rid cs' :
  wfs s -> aget rid (nodes s) = None -> canonical_form (s, oc) c m rid = Some cs' ->
  wfs (fst cs') /\ snd cs' = Some c /\ amem c (nodes (fst cs')) = true /\ plain_off (fst cs') c /\ iso_check cs' = true /\
  (one_open s -> one_open (fst cs')).
Proof.
  intros WS Hrid H. pose proof (wf_tstruct s (ws_wf s WS)) as T.
  destruct (canonical_form_iso_tstruct s oc c m rid cs' T Hrid H) as (HI & Tf & Sf & _).
  rewrite canonical_form_unfold in H. cbn [fst] in H.
  destruct (amem c (nodes s)) eqn:Hc; [|discriminate]. cbn [negb] in H.
  set (d := distance_to_node s c) in *.
  destruct (fold_left (canon_step d m rid) (sweep_order d) (Some s)) as [sf|] eqn:Hf; [|discriminate].
  injection H as <-. cbn [fst snd] in *.
  pose proof (dist_nodup s c T) as Hnd. fold d in Hnd.
  destruct (sweep_plain s c m rid T Hc (sweep_order d) [] s sf WS (same_tree_refl _) Hrid) as (WSf & Of & Gf).
  - intros k [].
  - apply sorted_sweep_order. exact Hnd.
  - apply NoDup_sweep_order. exact Hnd.
  - intros n Hn ->. apply in_sweep_order in Hn. destruct Hn as (v & Hv & Hin).
    pose proof (in_d_dget d c v Hnd Hin) as E. unfold d in E. rewrite (dist_centre s c Hc) in E. lia.
  - intros k n [].
  - exact Hf.
  - split; [exact WSf|]. split; [reflexivity|]. split.
    { apply amem_true. apply (same_tree_keys _ _ c Sf). apply amem_true. exact Hc. }
    split; [|split; [exact HI|exact Of]]. intros k Hk Hkc. apply Gf. cbn [app].
    apply (same_tree_keys _ _ k Sf) in Hk. pose proof Hk as Hk2.
    apply (dist_cover s c k T Hc) in Hk. fold d in Hk. apply in_map_iff in Hk. destruct Hk as ([k' v] & <- & Hin).
    cbn [fst] in *. apply in_sweep_order. exists v. split; [|exact Hin].
    apply keys_aget in Hk2. destruct Hk2 as [nk Enk].
    pose proof (dist_pos s c k' nk T Hc Enk Hkc) as Hp. fold d in Hp. rewrite (in_d_dget d k' v Hnd Hin) in Hp. exact Hp.
Qed.

(* ---- move_orthogonalization_center --------------------------------------------------------------------------------------- *)
Lemma move_fold_plain m rid : forall l s cur cs',
  wfs s -> aget rid (nodes s) = None -> plain_off s cur ->
  fold_left (move_step m rid) l (Some (s, Some cur)) = Some cs' ->
  wfs (fst cs') /\ (one_open s -> one_open (fst cs')) /\ exists c', snd cs' = Some c' /\ plain_off (fst cs') c'.
Proof.
  induction l as [|nb t IH]; intros s cur cs' WS Hrid HP H; cbn [fold_left] in H.
  - injection H as <-. cbn [fst snd]. split; [exact WS|]. split; [auto|]. exists cur. auto.
  - cbn [move_step] in H. destruct (qr_to_neighbour s cur nb m rid) as [s2|] eqn:E; [|rewrite move_fold_none in H; discriminate].
    pose proof (wf_tstruct s (ws_wf s WS)) as T.
    destruct (qr_step_effect _ _ _ _ _ _ T Hrid E) as (nd & En & Hin & SE).
    destruct (ts_neighbour_sym _ _ _ _ T En Hin) as (nbn & Enb & _ & Hne).
    assert (Hrn : rid <> cur) by (intros ->; congruence).
    assert (Hrb : rid <> nb) by (intros ->; congruence).
    destruct (IH s2 nb cs' (qr_wfs _ _ _ _ _ _ WS Hrid E)) as (A1 & A2 & A3); [| |exact H|].
    3: { split; [exact A1|]. split; [intros H1; apply A2; apply (qr_one_open s cur nb m rid s2 (ws_wf s WS) Hrid E H1)|exact A3]. }
    + rewrite (se_other_n _ _ _ _ _ _ SE rid Hrn Hrb). exact Hrid.
    + intros k Hk Hkb. rewrite (se_keys _ _ _ _ _ _ SE) in Hk. destruct (Nat.eq_dec k cur) as [->|Hkc].
      * apply (qr_plain_new s cur nb m rid s2 WS Hrid E).
      * apply (qr_plain_keep s cur nb m rid s2 k WS Hrid E Hkc Hkb). apply (HP k Hk Hkc).
Qed.

Theorem move_center_plain cs c m rid cs' c0 :
  wfs (fst cs) -> aget rid (nodes (fst cs)) = None -> snd cs = Some c0 -> plain_off (fst cs) c0 ->
  move_center cs c m rid = Some cs' ->
  wfs (fst cs') /\ (one_open (fst cs) -> one_open (fst cs')) /\ exists c', snd cs' = Some c' /\ plain_off (fst cs') c'.
Proof.
  intros WS Hrid Hs HP H. destruct cs as [s oc]. cbn [fst snd] in *. subst oc. unfold move_center in H. cbn [fst snd] in H.
  destruct (Nat.eqb c0 c).
  - injection H as <-. cbn [fst snd]. split; [exact WS|]. split; [auto|]. exists c0. auto.
  - apply (move_fold_plain m rid _ s c0 cs' WS Hrid HP H).
Qed.

(* ---- end to end: the states the library calls canonical ------------------------------------------------------------------ *)
(* after canonical_form(c) on ANY well-formed state (extended invariant), the centre shortcut of scalar_product() and of
   single_site_operator_expectation_value compute the full contractions, under the kernel contract on the recorded QR
   calls; "one open leg per node" is asked of the resulting store *)
Theorem canonical_form_shortcuts (R : Type) (zero one : R) (add mul : R -> R -> R) :
  comm_semiring zero one add mul ->
  forall (woff aoff : nat) (s : store) (oc : option id) (c : id) (m : mode) (rid : id) (cs' : cstore) (tbl : nat -> list nat -> R),
  wfs s -> one_open s -> aget rid (nodes s) = None -> canonical_form (s, oc) c m rid = Some cs' ->
  let s' := fst cs' in
  next_wire s' + 2 <= woff -> next_atom s' < aoff -> qr_contracts R zero one add mul aoff s' tbl ->
  let bra := conj_store woff aoff s' in
  snd cs' = Some c /\
  (exists g gl, scalar_product woff aoff s' None = Some g /\ scalar_product woff aoff s' (snd cs') = Some gl /\
     forall rho, gvalue R zero one add mul (pair_wires s' bra) (pair_dim s' bra) tbl g rho
                 = gvalue R zero one add mul (pair_wires s' bra) (pair_dim s' bra) tbl gl rho) /\
  (let na := next_atom s' in
   let nw := next_wire s' in
   let oc' := open_wire s' c in
   let dd := wdim s' oc' in
   let W1 := ext_wires (pair_wires s' bra) na [nw; oc'] in
   let W2 := ext_wires (pair_wires s' bra) na [nw; S nw] in
   let D := ext_dim (pair_dim s' bra) [nw; S nw] dd in
   exists g gl, tp_expectation_value woff aoff s' None [(c, [dd; dd])] = Some g /\
                tp_expectation_value woff aoff s' (snd cs') [(c, [dd; dd])] = Some gl /\
     forall rho, gvalue R zero one add mul W1 D tbl g rho = gvalue R zero one add mul W2 D tbl gl rho).
Proof.
  intros SR woff aoff s oc c m rid cs' tbl WS H0 Hrid H s' Hw Ha HQ bra.
  destruct (canonical_form_plain s oc c m rid cs' WS Hrid H) as (WS' & Hc' & Hmem & HP & HI & HO).
  pose proof (HO H0) as H1. fold s' in WS', Hmem, HP, H1. split; [exact Hc'|]. rewrite Hc'. destruct cs' as [s'' oc'']. cbn [fst snd] in *. subst oc''. split.
  - apply (canonical_norm_is_full_contraction R zero one add mul SR woff aoff s' tbl c WS' H1); try lia; assumption.
  - apply (single_site_is_full_contraction R zero one add mul SR woff aoff s' tbl c WS' H1 Hw Ha Hmem HI HP HQ).
Qed.

(* the same after move_orthogonalization_center, from any state that has the structural properties at its recorded centre *)
Theorem move_center_shortcuts (R : Type) (zero one : R) (add mul : R -> R -> R) :
  comm_semiring zero one add mul ->
  forall (woff aoff : nat) (cs : cstore) (c0 c : id) (m : mode) (rid : id) (cs' : cstore) (tbl : nat -> list nat -> R),
  wfs (fst cs) -> aget rid (nodes (fst cs)) = None -> snd cs = Some c0 -> amem c0 (nodes (fst cs)) = true ->
  amem c (nodes (fst cs)) = true -> iso_check cs = true -> plain_off (fst cs) c0 -> one_open (fst cs) ->
  move_center cs c m rid = Some cs' ->
  let s' := fst cs' in
  next_wire s' + 2 <= woff -> next_atom s' < aoff -> qr_contracts R zero one add mul aoff s' tbl ->
  let bra := conj_store woff aoff s' in
  snd cs' = Some c /\
  (exists g gl, scalar_product woff aoff s' None = Some g /\ scalar_product woff aoff s' (snd cs') = Some gl /\
     forall rho, gvalue R zero one add mul (pair_wires s' bra) (pair_dim s' bra) tbl g rho
                 = gvalue R zero one add mul (pair_wires s' bra) (pair_dim s' bra) tbl gl rho) /\
  (let na := next_atom s' in
   let nw := next_wire s' in
   let oc' := open_wire s' c in
   let dd := wdim s' oc' in
   let W1 := ext_wires (pair_wires s' bra) na [nw; oc'] in
   let W2 := ext_wires (pair_wires s' bra) na [nw; S nw] in
   let D := ext_dim (pair_dim s' bra) [nw; S nw] dd in
   exists g gl, tp_expectation_value woff aoff s' None [(c, [dd; dd])] = Some g /\
                tp_expectation_value woff aoff s' (snd cs') [(c, [dd; dd])] = Some gl /\
     forall rho, gvalue R zero one add mul W1 D tbl g rho = gvalue R zero one add mul W2 D tbl gl rho).
Proof.
  intros SR woff aoff cs c0 c m rid cs' tbl WS Hrid Hs Hc0 Hc HI HP H0 H s' Hw Ha HQ bra.
  destruct (move_center_plain cs c m rid cs' c0 WS Hrid Hs HP H) as (WS' & HO & c' & Hc' & HP').
  pose proof (HO H0) as H1. fold s' in H1.
  pose proof (wf_tstruct _ (ws_wf _ WS)) as T.
  pose proof (move_center_reaches cs c0 c m rid cs' T Hs Hc0 Hc H) as Hr. rewrite Hr in Hc'. injection Hc' as <-.
  destruct (move_center_iso_tstruct cs c m rid cs' T Hrid HI H) as (HI' & _ & Sf & _).
  assert (Hmem : amem c (nodes s') = true).
  { apply amem_true. apply (same_tree_keys _ _ c Sf). apply amem_true. exact Hc. }
  split; [exact Hr|]. rewrite Hr. destruct cs' as [s'' oc'']. cbn [fst snd] in *. subst oc''. split.
  - apply (canonical_norm_is_full_contraction R zero one add mul SR woff aoff s' tbl c WS' H1); try lia; assumption.
  - apply (single_site_is_full_contraction R zero one add mul SR woff aoff s' tbl c WS' H1 Hw Ha Hmem HI' HP' HQ).
Qed.
