(* Specification-level vocabulary for the universal "the block recursion closes the network" theorems
   about Contr/Blocks.v (which is frozen).  Definitions only; proofs are in ClosedProofs.v.

   - dropfrom: a structurally recursive re-statement of Blocks.drop_positions
   - rt: a rose tree of node identifiers in the KET's child order (the order the recursion follows)
   - wf_sub / wf_two: what a consistent pair of tree tensor network states is, as a predicate on the
     two stores (same ids and parent relation, arbitrary and independent child orders in the bra,
     one open leg per node, edge wires consistent) *)
From Coq Require Import List Arith Bool Permutation.
From PTN Require Import TTN.Store Contr.Blocks.
Import ListNotations.

(* remove from l the elements whose position (counted from s) is in idx *)
Fixpoint dropfrom {A} (s : nat) (idx : list nat) (l : list A) : list A :=
  match l with
  | [] => []
  | x :: t => if memb s idx then dropfrom (S s) idx t else x :: dropfrom (S s) idx t
  end.

(* ---- rose trees of node ids ---------------------------------------------------------------------- *)
Inductive rt := RN (n : id) (cs : list rt).
Definition rid (t : rt) : id := match t with RN n _ => n end.
Definition rcs (t : rt) : list rt := match t with RN _ cs => cs end.
Fixpoint rnodes (t : rt) : list id := match t with RN n cs => n :: flat_map rnodes cs end.
(* proper descendants: every one of them carries one edge (to its parent) *)
Definition rdesc (t : rt) : list id := flat_map rnodes (rcs t).

(* ---- what the stores say about a node ------------------------------------------------------------------ *)
Definition t_axes (s : store) (n : id) : list wire := match tensor_of s n with Some g => gaxes g | None => [] end.
Definition t_atoms (s : store) (n : id) : list nat := match tensor_of s n with Some g => gatoms g | None => [] end.
Definition t_bnd (s : store) (n : id) : list wire := match tensor_of s n with Some g => gbnd g | None => [] end.
(* the wire on the leg towards the parent (first logical axis of a non-root node) *)
Definition up_wire (s : store) (n : id) : wire := hd 0 (t_axes s n).
(* the wire on the open (physical) leg: the last logical axis *)
Definition open_wire (s : store) (n : id) : wire := last (t_axes s n) 0.

Definition opt_list {A} (o : option A) (x : A) : list A := match o with Some _ => [x] | None => [] end.

Section WF.
  Variables ket bra : store.

  (* node n, with parent p (None for the root) and ket child order cs, is consistent in both stores:
     the bra node has the same parent and the same children in ANY order; both logical tensors have the
     legs (parent, children in the node's own order, one open leg) and the wire on the leg to child c is
     the wire on c's parent leg; the two open wires are different wires *)
  Definition node_ok (p : option id) (n : id) (cs : list id) : Prop :=
    exists kn bn,
      aget n (nodes ket) = Some kn /\ aget n (nodes bra) = Some bn /\
      parent kn = p /\ parent bn = p /\
      children kn = cs /\ Permutation (children bn) cs /\
      NoDup (neighbouring_nodes kn) /\
      t_axes ket n = opt_list p (up_wire ket n) ++ map (up_wire ket) cs ++ [open_wire ket n] /\
      t_axes bra n = opt_list p (up_wire bra n) ++ map (up_wire bra) (children bn) ++ [open_wire bra n] /\
      open_wire ket n <> open_wire bra n.

  Inductive wf_sub : option id -> rt -> Prop :=
  | wf_sub_intro p n cs :
      node_ok p n (map rid cs) ->
      (forall c, In c cs -> wf_sub (Some n) c) ->
      wf_sub p (RN n cs).

  (* the pair of stores is a consistent pair of states over the tree t *)
  Definition wf_two (t : rt) : Prop :=
    root ket = Some (rid t) /\ root bra = Some (rid t) /\ NoDup (rnodes t) /\ wf_sub None t.
End WF.

(* ---- the expected closed diagram --------------------------------------------------------------------------- *)
Definition all_atoms (ket bra : store) (ns : list id) : list nat :=
  flat_map (fun m => t_atoms ket m ++ t_atoms bra m) ns.
Definition edge_wires (ket bra : store) (ns : list id) : list wire :=
  flat_map (fun m => [up_wire ket m; up_wire bra m]) ns.
Definition inner_bnd (ket bra : store) (ns : list id) : list wire :=
  flat_map (fun m => t_bnd ket m ++ t_bnd bra m) ns.
Definition open_pairs (ket bra : store) (ns : list id) : list (wire * wire) :=
  map (fun m => (open_wire ket m, open_wire bra m)) ns.

(* ---- an executable checker for wf_two, and the ket's tree read off the store ------------------------------ *)
Definition opt_eqb (a b : option nat) : bool :=
  match a, b with Some x, Some y => Nat.eqb x y | None, None => true | _, _ => false end.

(* l is a rearrangement of the duplicate-free list cs *)
Definition perm_of_nodupb (l cs : list nat) : bool :=
  nodupb l && Nat.leb (length cs) (length l) && forallb (fun a => memb a cs) l.

Definition node_okb (ket bra : store) (p : option id) (n : id) (cs : list id) : bool :=
  match aget n (nodes ket), aget n (nodes bra) with
  | Some kn, Some bn =>
      opt_eqb (parent kn) p && opt_eqb (parent bn) p &&
      list_eqb (children kn) cs && perm_of_nodupb (children bn) cs &&
      nodupb (neighbouring_nodes kn) &&
      list_eqb (t_axes ket n) (opt_list p (up_wire ket n) ++ map (up_wire ket) cs ++ [open_wire ket n]) &&
      list_eqb (t_axes bra n) (opt_list p (up_wire bra n) ++ map (up_wire bra) (children bn) ++ [open_wire bra n]) &&
      negb (Nat.eqb (open_wire ket n) (open_wire bra n))
  | _, _ => false
  end.

Fixpoint wf_subb (ket bra : store) (p : option id) (t : rt) : bool :=
  match t with RN n cs => node_okb ket bra p n (map rid cs) && forallb (wf_subb ket bra (Some n)) cs end.

Definition wf_twob (ket bra : store) (t : rt) : bool :=
  opt_eqb (root ket) (Some (rid t)) && opt_eqb (root bra) (Some (rid t)) && nodupb (rnodes t) && wf_subb ket bra None t.

Fixpoint tree_of (fuel : nat) (s : store) (n : id) : option rt :=
  match fuel with
  | O => None
  | S f => match aget n (nodes s) with
           | Some nd => option_map (RN n) (all_some (map (tree_of f s) (children nd)))
           | None => None
           end
  end.

Definition ket_tree (s : store) : option rt :=
  match root s with Some r => tree_of (S (length (nodes s))) s r | None => None end.

(* per-instance check usable by a harness: the two stores form a consistent pair of states *)
Definition two_ok (ket bra : store) : bool :=
  match ket_tree ket with Some t => wf_twob ket bra t | None => false end.

(* ==== three layers: <psi| O |psi> =========================================================================== *)
(* the root step of expectation_value with the conjugated root tensor passed in (expectation_value unfolds
   to this by computation, see ClosedProofs.expectation_value_root) *)
Definition root_three (ckt kt ot : garr) (kn on : node) (blocks : list (id * garr)) : option garr :=
  match all_to_ket kt kn blocks, equivalent_legs kn on None with
  | Some knb, Some (state_legs, ham_legs) =>
      let k := nvirt kn in
      let block_legs := map (fun j => 2 * j + 1) (seq 0 k) ++ [0] in
      match g_tensordot knb ot block_legs (ham_legs ++ [nvirt on + 1]) with
      | Some khb => let sl := state_legs ++ [length state_legs] in g_tensordot ckt khb sl sl
      | None => None
      end
  | _, _ => None
  end.

(* operator nodes have two open legs: (output, input) = the last two logical axes *)
Definition out_wire (s : store) (n : id) : wire := last (removelast (t_axes s n)) 0.
Definition in_wire (s : store) (n : id) : wire := last (t_axes s n) 0.

Section WF3.
  Variables (woff : nat) (ket op : store).

  Definition node_ok3 (p : option id) (n : id) (cs : list id) : Prop :=
    exists kn on,
      aget n (nodes ket) = Some kn /\ aget n (nodes op) = Some on /\
      parent kn = p /\ parent on = p /\
      children kn = cs /\ Permutation (children on) cs /\
      NoDup (neighbouring_nodes kn) /\
      t_axes ket n = opt_list p (up_wire ket n) ++ map (up_wire ket) cs ++ [open_wire ket n] /\
      t_axes op n = opt_list p (up_wire op n) ++ map (up_wire op) (children on) ++ [out_wire op n; in_wire op n] /\
      open_wire ket n <> in_wire op n /\
      out_wire op n <> woff + open_wire ket n.

  Inductive wf_sub3 : option id -> rt -> Prop :=
  | wf_sub3_intro p n cs :
      node_ok3 p n (map rid cs) ->
      (forall c, In c cs -> wf_sub3 (Some n) c) ->
      wf_sub3 p (RN n cs).

  Definition wf_three (t : rt) : Prop :=
    root ket = Some (rid t) /\ root op = Some (rid t) /\ NoDup (rnodes t) /\ wf_sub3 None t.
End WF3.

Definition all_atoms3 (aoff : nat) (ket op : store) (ns : list id) : list nat :=
  flat_map (fun m => t_atoms ket m ++ t_atoms op m ++ map (Nat.add aoff) (t_atoms ket m)) ns.
Definition edge_wires3 (woff : nat) (ket op : store) (ns : list id) : list wire :=
  flat_map (fun m => [up_wire ket m; up_wire op m; woff + up_wire ket m]) ns.
Definition inner_bnd3 (woff : nat) (ket op : store) (ns : list id) : list wire :=
  flat_map (fun m => t_bnd ket m ++ t_bnd op m ++ map (Nat.add woff) (t_bnd ket m)) ns.
(* ket open leg with the operator's input leg, operator's output leg with the conjugate copy's open leg *)
Definition open_pairs3 (woff : nat) (ket op : store) (ns : list id) : list (wire * wire) :=
  flat_map (fun m => [(open_wire ket m, in_wire op m); (out_wire op m, woff + open_wire ket m)]) ns.

Definition node_ok3b (woff : nat) (ket op : store) (p : option id) (n : id) (cs : list id) : bool :=
  match aget n (nodes ket), aget n (nodes op) with
  | Some kn, Some on =>
      opt_eqb (parent kn) p && opt_eqb (parent on) p &&
      list_eqb (children kn) cs && perm_of_nodupb (children on) cs &&
      nodupb (neighbouring_nodes kn) &&
      list_eqb (t_axes ket n) (opt_list p (up_wire ket n) ++ map (up_wire ket) cs ++ [open_wire ket n]) &&
      list_eqb (t_axes op n) (opt_list p (up_wire op n) ++ map (up_wire op) (children on) ++ [out_wire op n; in_wire op n]) &&
      negb (Nat.eqb (open_wire ket n) (in_wire op n)) &&
      negb (Nat.eqb (out_wire op n) (woff + open_wire ket n))
  | _, _ => false
  end.

Fixpoint wf_sub3b (woff : nat) (ket op : store) (p : option id) (t : rt) : bool :=
  match t with RN n cs => node_ok3b woff ket op p n (map rid cs) && forallb (wf_sub3b woff ket op (Some n)) cs end.

Definition wf_threeb (woff : nat) (ket op : store) (t : rt) : bool :=
  opt_eqb (root ket) (Some (rid t)) && opt_eqb (root op) (Some (rid t)) && nodupb (rnodes t) && wf_sub3b woff ket op None t.

Definition three_ok (woff : nat) (ket op : store) : bool :=
  match ket_tree ket with Some t => wf_threeb woff ket op t | None => false end.
