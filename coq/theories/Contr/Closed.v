(* Specification-level vocabulary for the universal "the block recursion closes the network" theorems
   about Contr/Blocks.v (which is frozen).  Definitions only; proofs are in ClosedProofs.v.

   - dropfrom: a structurally recursive re-statement of Blocks.drop_positions
   - rt: a rose tree of node identifiers in the KET's child order (the order the recursion follows)
   - wf_sub / wf_two: what a consistent pair of tree tensor network states is, as a predicate on the
     two stores (same ids and parent relation, arbitrary and independent child orders in the bra,
     one open leg per node, edge wires consistent) *)
From Coq Require Import List Arith Bool Permutation.
From PTN Require Import TTN.Store Contr.Blocks.
Import ListNotations.

(* remove from l the elements whose position (counted from s) is in idx *)
Fixpoint dropfrom {A} (s : nat) (idx : list nat) (l : list A) : list A :=
  match l with
  | [] => []
  | x :: t => if memb s idx then dropfrom (S s) idx t else x :: dropfrom (S s) idx t
  end.

(* ---- rose trees of node ids ---------------------------------------------------------------------- *)
Inductive rt := RN (n : id) (cs : list rt).
Definition rid (t : rt) : id := match t with RN n _ => n end.
Definition rcs (t : rt) : list rt := match t with RN _ cs => cs end.
Fixpoint rnodes (t : rt) : list id := match t with RN n cs => n :: flat_map rnodes cs end.
(* proper descendants: every one of them carries one edge (to its parent) *)
Definition rdesc (t : rt) : list id := flat_map rnodes (rcs t).

(* ---- what the stores say about a node ------------------------------------------------------------------ *)
Definition t_axes (s : store) (n : id) : list wire := match tensor_of s n with Some g => gaxes g | None => [] end.
Definition t_atoms (s : store) (n : id) : list nat := match tensor_of s n with Some g => gatoms g | None => [] end.
Definition t_bnd (s : store) (n : id) : list wire := match tensor_of s n with Some g => gbnd g | None => [] end.
(* the wire on the leg towards the parent (first logical axis of a non-root node) *)
Definition up_wire (s : store) (n : id) : wire := hd 0 (t_axes s n).
(* the wire on the open (physical) leg: the last logical axis *)
Definition open_wire (s : store) (n : id) : wire := last (t_axes s n) 0.

Definition opt_list {A} (o : option A) (x : A) : list A := match o with Some _ => [x] | None => [] end.

Section WF.
  Variables ket bra : store.

  (* node n, with parent p (None for the root) and ket child order cs, is consistent in both stores:
     the bra node has the same parent and the same children in ANY order; both logical tensors have the
     legs (parent, children in the node's own order, one open leg) and the wire on the leg to child c is
     the wire on c's parent leg; the two open wires are different wires *)
  Definition node_ok (p : option id) (n : id) (cs : list id) : Prop :=
    exists kn bn,
      aget n (nodes ket) = Some kn /\ aget n (nodes bra) = Some bn /\
      parent kn = p /\ parent bn = p /\
      children kn = cs /\ Permutation (children bn) cs /\
      NoDup (neighbouring_nodes kn) /\
      t_axes ket n = opt_list p (up_wire ket n) ++ map (up_wire ket) cs ++ [open_wire ket n] /\
      t_axes bra n = opt_list p (up_wire bra n) ++ map (up_wire bra) (children bn) ++ [open_wire bra n] /\
      open_wire ket n <> open_wire bra n.

  Inductive wf_sub : option id -> rt -> Prop :=
  | wf_sub_intro p n cs :
      node_ok p n (map rid cs) ->
      (forall c, In c cs -> wf_sub (Some n) c) ->
      wf_sub p (RN n cs).

  (* the pair of stores is a consistent pair of states over the tree t *)
  Definition wf_two (t : rt) : Prop :=
    root ket = Some (rid t) /\ root bra = Some (rid t) /\ NoDup (rnodes t) /\ wf_sub None t.
End WF.

(* ---- the expected closed diagram --------------------------------------------------------------------------- *)
Definition all_atoms (ket bra : store) (ns : list id) : list nat :=
  flat_map (fun m => t_atoms ket m ++ t_atoms bra m) ns.
Definition edge_wires (ket bra : store) (ns : list id) : list wire :=
  flat_map (fun m => [up_wire ket m; up_wire bra m]) ns.
Definition inner_bnd (ket bra : store) (ns : list id) : list wire :=
  flat_map (fun m => t_bnd ket m ++ t_bnd bra m) ns.
Definition open_pairs (ket bra : store) (ns : list id) : list (wire * wire) :=
  map (fun m => (open_wire ket m, open_wire bra m)) ns.
