(* Model of pytreenet/contractions/{contraction_util,state_state_contraction,state_operator_contraction}.py:
   the block recursion of contract_two_ttns and expectation_value as symbolic programs.
   Arrays carry, per axis, the wire it stands for; a tensordot binds wires: equal wires (the two
   ends of one network edge) are bound, different wires are *glued* and the pair is recorded, so the
   final diagram says exactly which legs were identified with which.  Definitions only. *)
From Coq Require Import List Arith Bool.
From PTN Require Import TTN.Store.
Import ListNotations.

Record garr := { gaxes : list wire; gatoms : list nat; gbnd : list wire; gglue : list (wire * wire) }.

Definition of_sarr (t : sarr) : garr := {| gaxes := axes t; gatoms := atoms t; gbnd := bnd t; gglue := [] |}.

(* remove the positions in `idx` from l *)
Definition drop_positions {A} (idx : list nat) (l : list A) : list A :=
  map snd (filter (fun p => negb (memb (fst p) idx)) (combine (seq 0 (length l)) l)).

(* np.tensordot(a, b, axes=(ia, ib)) *)
Definition g_tensordot (a b : garr) (ia ib : list nat) : option garr :=
  if negb (Nat.eqb (length ia) (length ib)) then None else
  if negb (forallb (fun i => Nat.ltb i (length (gaxes a))) ia && forallb (fun i => Nat.ltb i (length (gaxes b))) ib) then None else
  if negb (nodupb ia && nodupb ib) then None else
  let wa := map (fun i => nth i (gaxes a) 0) ia in
  let wb := map (fun i => nth i (gaxes b) 0) ib in
  let pairs := combine wa wb in
  let same := map fst (filter (fun p => Nat.eqb (fst p) (snd p)) pairs) in
  let diff := filter (fun p => negb (Nat.eqb (fst p) (snd p))) pairs in
  Some {| gaxes := drop_positions ia (gaxes a) ++ drop_positions ib (gaxes b);
          gatoms := gatoms a ++ gatoms b;
          gbnd := same ++ gbnd a ++ gbnd b;
          gglue := diff ++ gglue a ++ gglue b |}.

(* the conjugated copy of a tensor: distinct atoms and distinct wires (offsets) *)
Definition conj_arr (woff aoff : nat) (t : garr) : garr :=
  {| gaxes := map (Nat.add woff) (gaxes t); gatoms := map (Nat.add aoff) (gatoms t);
     gbnd := map (Nat.add woff) (gbnd t); gglue := map (fun p => (woff + fst p, woff + snd p)) (gglue t) |}.

Definition tensor_of (s : store) (n : id) : option garr := option_map of_sarr (logical s n).

Definition index_of_nb (n : node) (x : id) : option nat := neighbour_index n x.

(* contract_all_but_one_neighbour_block_to_ket *)
Definition all_but_one_to_ket (kt : garr) (kn : node) (next : id) (blocks : list (id * garr)) : option garr :=
  fold_left (fun acc nb =>
               match acc with
               | None => None
               | Some r =>
                   if Nat.eqb nb next then Some r else
                   match neighbour_index kn nb, neighbour_index kn next, aget nb blocks with
                   | Some inb, Some inext, Some blk =>
                       if Nat.eqb inb inext then None else
                       g_tensordot r blk [if Nat.ltb inext inb then 1 else 0] [0]
                   | _, _, _ => None
                   end
               end) (neighbouring_nodes kn) (Some kt).

(* contract_all_neighbour_blocks_to_ket *)
Definition all_to_ket (kt : garr) (kn : node) (blocks : list (id * garr)) : option garr :=
  fold_left (fun acc nb =>
               match acc with
               | None => None
               | Some r => match aget nb blocks with Some blk => g_tensordot r blk [0] [0] | None => None end
               end) (neighbouring_nodes kn) (Some kt).

(* ---- two states ------------------------------------------------------------------------------------ *)
Definition bra_to_ket_ignore (bt ketblock : garr) (bn kn : node) (next : id) : option garr :=
  match neighbour_index kn next with
  | None => None
  | Some inext =>
      let nbs := filter (fun nb => negb (Nat.eqb nb next)) (neighbouring_nodes kn) in
      match all_some (map (neighbour_index kn) nbs), all_some (map (neighbour_index bn) nbs) with
      | Some kis, Some bis =>
          let legs_block := map (fun ki => ki + 1 + (if Nat.ltb ki inext then 1 else 0)) kis ++ [1] in
          let legs_bra := bis ++ [nvirt bn] in
          g_tensordot ketblock bt legs_block legs_bra
      | _, _ => None
      end
  end.

Definition bra_to_ket_all (bt ketblock : garr) (bn kn : node) : option garr :=
  match all_some (map (neighbour_index kn) (neighbouring_nodes bn)) with
  | Some kis => g_tensordot ketblock bt (map (fun ki => ki + 1) kis ++ [0]) (seq 0 (nvirt bn + 1))
  | None => None
  end.

Fixpoint block_two (fuel : nat) (ket bra : store) (n : id) (next : id) : option garr :=
  match fuel with
  | O => None
  | S f =>
      match aget n (nodes ket), aget n (nodes bra), tensor_of ket n, tensor_of bra n with
      | Some kn, Some bn, Some kt, Some bt =>
          match children kn with
          | [] => (* contract_leafs *)
              if negb (Nat.eqb (length (children bn)) 0) then None else
              if negb (Nat.eqb (nopen kn) 1 && Nat.eqb (nopen bn) 1) then None else
              g_tensordot kt bt [nvirt kn] [nvirt bn]
          | cs =>
              match all_some (map (fun c => option_map (fun b => (c, b)) (block_two f ket bra c n)) cs) with
              | None => None
              | Some blocks =>
                  match all_but_one_to_ket kt kn next blocks with
                  | Some kb => bra_to_ket_ignore bt kb bn kn next
                  | None => None
                  end
              end
          end
      | _, _, _, _ => None
      end
  end.

Definition contract_two_ttns (ket bra : store) : option garr :=
  match root ket, root bra with
  | Some r, Some rb =>
      if negb (Nat.eqb r rb) then None else
      match aget r (nodes ket), aget r (nodes bra), tensor_of ket r, tensor_of bra r with
      | Some kn, Some bn, Some kt, Some bt =>
          match all_some (map (fun c => option_map (fun b => (c, b)) (block_two (length (nodes ket)) ket bra c r)) (children kn)) with
          | None => None
          | Some blocks =>
              match all_to_ket kt kn blocks with
              | Some kb => bra_to_ket_all bt kb bn kn
              | None => None
              end
          end
      | _, _, _, _ => None
      end
  | _, _ => None
  end.

(* ---- state, operator, conjugated state ------------------------------------------------------------------- *)
(* get_equivalent_legs(node1, node2, ignore): legs of node2 matching node1's neighbours *)
Definition equivalent_legs (n1 n2 : node) (ignore : option id) : option (list nat * list nat) :=
  let nbs := filter (fun nb => match ignore with Some x => negb (Nat.eqb nb x) | None => true end) (neighbouring_nodes n1) in
  match all_some (map (neighbour_index n1) nbs), all_some (map (neighbour_index n2) nbs) with
  | Some l1, Some l2 => Some (l1, l2)
  | _, _ => None
  end.

Definition sandwich_leaf (kt ot bt : garr) (kn on bn : node) : option garr :=
  match g_tensordot ot bt [nvirt on] [nvirt bn] with       (* operator output leg with the bra's physical leg *)
  | Some bh => g_tensordot kt bh [nvirt kn] [nvirt on + 1 - 1]   (* ket physical leg with the operator input leg (shifted) *)
  | None => None
  end.

Definition sandwich_subtree (kt ot bt : garr) (kn on bn : node) (next : id) (blocks : list (id * garr)) : option garr :=
  match all_but_one_to_ket kt kn next blocks with
  | None => None
  | Some t1 =>
      match equivalent_legs kn on (Some next), equivalent_legs kn bn (Some next) with
      | Some (_, op_legs), Some (_, bra_legs) =>
          let k := nvirt kn in
          let tensor_legs := map (fun j => 2 * j) (seq 1 (k - 1)) ++ [1] in       (* range(2, 2k, 2) + [1] *)
          match g_tensordot t1 ot tensor_legs (op_legs ++ [nvirt on + 1]) with
          | None => None
          | Some t2 => g_tensordot t2 bt (seq 1 (k - 1) ++ [k + 1]) (bra_legs ++ [nvirt bn])
          end
      | _, _ => None
      end
  end.

Fixpoint block_three (fuel : nat) (woff aoff : nat) (ket op : store) (n next : id) : option garr :=
  match fuel with
  | O => None
  | S f =>
      match aget n (nodes ket), aget n (nodes op), tensor_of ket n, tensor_of op n with
      | Some kn, Some on, Some kt, Some ot =>
          let bt := conj_arr woff aoff kt in
          match children kn with
          | [] => sandwich_leaf kt ot bt kn on kn
          | cs =>
              match all_some (map (fun c => option_map (fun b => (c, b)) (block_three f woff aoff ket op c n)) cs) with
              | None => None
              | Some blocks => sandwich_subtree kt ot bt kn on kn next blocks
              end
          end
      | _, _, _, _ => None
      end
  end.

Definition expectation_value (woff aoff : nat) (ket op : store) : option garr :=
  match root ket, root op with
  | Some r, Some ro =>
      if negb (Nat.eqb r ro) then None else
      match aget r (nodes ket), aget r (nodes op), tensor_of ket r, tensor_of op r with
      | Some kn, Some on, Some kt, Some ot =>
          match all_some (map (fun c => option_map (fun b => (c, b)) (block_three (length (nodes ket)) woff aoff ket op c r)) (children kn)) with
          | None => None
          | Some blocks =>
              match all_to_ket kt kn blocks, equivalent_legs kn on None with
              | Some knb, Some (state_legs, ham_legs) =>
                  let k := nvirt kn in
                  let block_legs := map (fun j => 2 * j + 1) (seq 0 k) ++ [0] in          (* range(1, 2k, 2) + [0] *)
                  match g_tensordot knb ot block_legs (ham_legs ++ [nvirt on + 1]) with
                  | Some khb =>
                      let sl := state_legs ++ [length state_legs] in
                      g_tensordot (conj_arr woff aoff kt) khb sl sl
                  | None => None
                  end
              | _, _ => None
              end
          end
      | _, _, _, _ => None
      end
  | _, _ => None
  end.

(* ---- what a correct closed contraction looks like ------------------------------------------------------- *)
Fixpoint sort_insert (x : nat) (l : list nat) : list nat :=
  match l with [] => [x] | y :: t => if Nat.leb x y then x :: l else y :: sort_insert x t end.
Definition sort_nat (l : list nat) : list nat := fold_right sort_insert [] l.
Definition pair_leb (a b : nat * nat) : bool :=
  Nat.ltb (fst a) (fst b) || (Nat.eqb (fst a) (fst b) && Nat.leb (snd a) (snd b)).
Fixpoint psort_insert (x : nat * nat) (l : list (nat * nat)) : list (nat * nat) :=
  match l with [] => [x] | y :: t => if pair_leb x y then x :: l else y :: psort_insert x t end.
Definition sort_pairs (l : list (nat * nat)) := fold_right psort_insert [] l.
Definition norm_pair (p : nat * nat) : nat * nat := if Nat.leb (fst p) (snd p) then p else (snd p, fst p).

(* canonical summary of a result: remaining axes, sorted atoms, sorted bound wires, sorted glued pairs *)
Definition summary (g : garr) :=
  (gaxes g, sort_nat (gatoms g), sort_nat (gbnd g), sort_pairs (map norm_pair (gglue g))).

(* TTNO.as_matrix: permutation evens ++ odds of the 2n open legs of the contracted operator *)
Definition as_matrix_perm (n : nat) : list nat := map (fun k => 2 * k) (seq 0 n) ++ map (fun k => 2 * k + 1) (seq 0 n).

(* an empty store whose fresh wires / atoms start at the given offsets (several networks in one
   wire namespace) *)
Definition store_at (w a : nat) : store :=
  {| nodes := []; tensors := []; root := None; dims := []; next_wire := w; next_atom := a; defs := []; atab := [] |}.

Definition two_case (kops bops : list op) (boff aoff : nat) :=
  let ket := fst (run empty_store kops) in
  let bra := fst (run (store_at boff aoff) bops) in
  (observe ket, observe bra, option_map summary (contract_two_ttns ket bra)).

Definition three_case (kops oops : list op) (ooff oaoff woff aoff : nat) :=
  let ket := fst (run empty_store kops) in
  let op := fst (run (store_at ooff oaoff) oops) in
  (observe ket, observe op, option_map summary (expectation_value woff aoff ket op)).
