(* Proofs about Contr/TensorProd.v (property C04):
     A. complete_contraction (completely_contract_tree) on every well-formed store;
     B. tp_expectation (tensor_product_expectation_value, general path) closes the network;
     C. the diagrams of the orthogonality-centre shortcuts.
   The semantic bridge (isometries) is in Contr/TensorProdSem.v. *)
From Coq Require Import List Arith Bool Lia Permutation.
From PTN Require Import TTN.Store TTN.StoreProofs TTN.Inv TTN.InvProofs TTN.InvNode TTN.InvBuild TTN.InvContract TTN.InvSplit
  TTN.CanonTree TTN.CanonDist TEBD.Trotter TEBD.TrotterProofs TEBD.GateTree
  Contr.Blocks Contr.BlocksProofs Contr.Closed Contr.ClosedProofs Contr.TensorProd.
Import ListNotations.

Ltac nlia := unfold id, wire in *; lia.
Ltac ncongr := unfold id, wire in *; congruence.

(* ================================================================================================================ *)
(* 0. the tree of a well-formed store                                                                                *)
(* ================================================================================================================ *)
(* t describes the subtree of the node dictionary l hanging at rid t, children in the nodes' own order *)
Inductive sub_tree (l : list (id * node)) : rt -> Prop :=
| sub_tree_intro n nd cs :
    aget n l = Some nd -> children nd = map rid cs -> (forall c, In c cs -> sub_tree l c) -> sub_tree l (RN n cs).

Lemma sub_tree_root l t : sub_tree l t -> exists nd, aget (rid t) l = Some nd /\ children nd = map rid (rcs t).
Proof. intros H. inversion H; subst. cbn. eauto. Qed.

Lemma rid_in_rnodes t : In (rid t) (rnodes t).
Proof. destruct t. cbn. left. reflexivity. Qed.

Lemma sub_tree_nodes l t : sub_tree l t -> forall m, In m (rnodes t) -> exists nm, aget m l = Some nm.
Proof.
  induction t as [n cs IH] using rt_rect'. intros H m Hm. inversion H as [? nd ? E Hc Hs]; subst.
  cbn in Hm. destruct Hm as [<-|Hm]; [eauto|]. apply in_flat_map in Hm. destruct Hm as (c & Hc1 & Hm).
  apply (IH c Hc1 (Hs c Hc1) m Hm).
Qed.

(* closed under children *)
Lemma sub_tree_children l t : sub_tree l t -> forall p pn m, In p (rnodes t) -> aget p l = Some pn -> In m (children pn) -> In m (rnodes t).
Proof.
  induction t as [n cs IH] using rt_rect'. intros H p pn m Hp Ep Hm. inversion H as [? nd ? E Hc Hs]; subst.
  cbn in Hp |- *. destruct Hp as [<-|Hp].
  - right. rewrite E in Ep. injection Ep as <-. rewrite Hc in Hm. apply in_map_iff in Hm. destruct Hm as (c & <- & Hc1).
    apply in_flat_map. exists c. split; [exact Hc1|apply rid_in_rnodes].
  - right. apply in_flat_map in Hp. destruct Hp as (c & Hc1 & Hp). apply in_flat_map. exists c. split; [exact Hc1|].
    apply (IH c Hc1 (Hs c Hc1) p pn m Hp Ep Hm).
Qed.

(* only the node records of the tree's nodes matter *)
Lemma sub_tree_ext l l' t : sub_tree l t ->
  (forall m nm, In m (rnodes t) -> aget m l = Some nm -> exists nm', aget m l' = Some nm' /\ children nm' = children nm) ->
  sub_tree l' t.
Proof.
  induction t as [n cs IH] using rt_rect'. intros H Hx. inversion H as [? nd ? E Hc Hs]; subst.
  destruct (Hx n nd (rid_in_rnodes (RN n cs)) E) as (nd' & E' & Hc').
  apply (sub_tree_intro l' n nd' cs E'); [congruence|].
  intros c Hc1. apply (IH c Hc1 (Hs c Hc1)). intros m nm Hm Em. apply (Hx m nm); [|exact Em].
  cbn. right. apply in_flat_map. exists c. split; assumption.
Qed.

Section TreeOf.
  Variable s : store.
  Hypothesis W : wf s.
  Let l := nodes s.
  Let H := length l.
  Let A (k : id) := anc l H k.

  Lemma wf_climbs k : In k (akeys l) -> climbs l H k = true.
  Proof.
    intros Hk. destruct (wf_acyc s W) as [d Hd]. apply (ranked_climbs l d k); [exact Hd| |exact Hk].
    apply wf_parents_closed. apply (wf_node s W).
  Qed.

  Lemma A_child c cn k : aget c l = Some cn -> parent cn = Some k -> A c = c :: A k.
  Proof.
    intros Ec Ep. pose proof (wf_climbs c (aget_Some_keys _ _ _ Ec)) as Hc. unfold A.
    destruct H as [|f] eqn:EH; [discriminate|]. cbn in Hc. fold l in Hc. rewrite Ec, Ep in Hc.
    change (anc l (S f) c) with
      (match aget c l with None => [] | Some n => c :: match parent n with None => [] | Some p => anc l f p end end).
    rewrite Ec, Ep. f_equal. symmetry. apply (climbs_anc_stable l f k Hc). lia.
  Qed.

  Lemma A_bound k : length (A k) <= H.
  Proof. destruct (wf_acyc s W) as [d Hd]. apply (anc_length_le l d H k Hd). Qed.

  (* every node of the subtree at k has k among its ancestors, as a suffix of the ancestor chain *)
  Lemma sub_tree_anc t : sub_tree l t -> forall m, In m (rnodes t) -> exists pre, A m = pre ++ A (rid t).
  Proof.
    induction t as [n cs IH] using rt_rect'. intros Ht m Hm. inversion Ht as [? nd ? E Hc Hs]; subst.
    cbn in Hm. destruct Hm as [<-|Hm]; [exists []; reflexivity|].
    apply in_flat_map in Hm. destruct Hm as (c & Hc1 & Hm). destruct (IH c Hc1 (Hs c Hc1) m Hm) as (pre & Hpre).
    assert (Hin : In (rid c) (children nd)) by (rewrite Hc; apply in_map; exact Hc1).
    destruct (ni_ch _ _ _ (wf_node s W n nd E) (rid c) Hin) as (cn & Ec & Ep).
    exists (pre ++ [rid c]). cbn [rid]. rewrite Hpre, (A_child (rid c) cn n Ec Ep), <- app_assoc. reflexivity.
  Qed.

  Lemma sub_tree_nodup t : sub_tree l t -> NoDup (rnodes t).
  Proof.
    induction t as [n cs IH] using rt_rect'. intros Ht. inversion Ht as [? nd ? E Hc Hs]; subst. cbn.
    assert (Hch : forall c, In c cs -> exists cn, aget (rid c) l = Some cn /\ parent cn = Some n).
    { intros c Hc1. apply (ni_ch _ _ _ (wf_node s W n nd E)). rewrite Hc. apply in_map. exact Hc1. }
    assert (Hndc : NoDup (map rid cs)) by (rewrite <- Hc; apply (ni_chnd _ _ _ (wf_node s W n nd E))).
    constructor.
    - intros Hin. apply in_flat_map in Hin. destruct Hin as (c & Hc1 & Hm).
      destruct (sub_tree_anc c (Hs c Hc1) n Hm) as (pre & Hpre). destruct (Hch c Hc1) as (cn & Ec & Ep).
      rewrite (A_child (rid c) cn n Ec Ep) in Hpre. apply (f_equal (@length _)) in Hpre. rewrite app_length in Hpre. cbn in Hpre. lia.
    - apply NoDup_flat_map_disj.
      + apply (NoDup_map_inv rid). exact Hndc.
      + intros c Hc1. apply (IH c Hc1 (Hs c Hc1)).
      + intros c1 c2 z H1 H2 Z1 Z2.
        destruct (sub_tree_anc c1 (Hs c1 H1) z Z1) as (p1 & P1). destruct (sub_tree_anc c2 (Hs c2 H2) z Z2) as (p2 & P2).
        destruct (Hch c1 H1) as (n1 & E1 & Q1). destruct (Hch c2 H2) as (n2 & E2 & Q2).
        rewrite (A_child _ n1 n E1 Q1) in P1. rewrite (A_child _ n2 n E2 Q2) in P2. rewrite P1 in P2.
        assert (Hl : length p1 = length p2).
        { apply (f_equal (@length _)) in P2. rewrite !app_length in P2. cbn in P2. lia. }
        destruct (app_eq_split _ _ _ _ P2 Hl) as [_ Heq]. injection Heq as Heq.
        (* equal identifiers: the two subtrees are the same element of cs *)
        clear - Heq H1 H2 Hndc. induction cs as [|a r IHr]; [destruct H1|].
        cbn in Hndc. inversion Hndc as [|? ? Hni Hnd']; subst.
        destruct H1 as [<-|H1]; destruct H2 as [<-|H2]; auto.
        * exfalso. apply Hni. rewrite Heq. apply in_map. exact H2.
        * exfalso. apply Hni. rewrite <- Heq. apply in_map. exact H1.
  Qed.

  (* the fuelled extraction succeeds: fuel + depth > number of nodes is enough *)
  Lemma tree_of_total : forall f k, In k (akeys l) -> H < f + length (A k) ->
    exists t, tree_of f s k = Some t /\ rid t = k /\ sub_tree l t.
  Proof.
    induction f as [|f IH]; intros k Hk Hf; [pose proof (A_bound k); lia|].
    cbn [tree_of]. fold l. destruct (keys_aget _ _ Hk) as [nd E]. rewrite E.
    assert (Hall : forall cs, incl cs (children nd) ->
              exists ts, all_some (map (tree_of f s) cs) = Some ts /\ map rid ts = cs /\ forall c, In c ts -> sub_tree l c).
    { induction cs as [|c r IHr]; intros Hi; [exists []; repeat split; intros ? []|].
      assert (Hc : In c (children nd)) by (apply Hi; left; reflexivity).
      destruct (ni_ch _ _ _ (wf_node s W k nd E) c Hc) as (cn & Ec & Ep).
      destruct (IH c (aget_Some_keys _ _ _ Ec)) as (tc & E1 & E2 & E3).
      { rewrite (A_child c cn k Ec Ep). cbn [length]. lia. }
      destruct IHr as (ts & F1 & F2 & F3); [intros x Hx; apply Hi; right; exact Hx|].
      exists (tc :: ts). split; [cbn [map all_some]; rewrite E1, F1; reflexivity|].
      split; [cbn [map]; rewrite E2, F2; reflexivity|].
      intros x [<-|Hx]; [exact E3|apply F3; exact Hx]. }
    destruct (Hall (children nd) (incl_refl _)) as (ts & F1 & F2 & F3). rewrite F1. cbn.
    exists (RN k ts). repeat split. apply (sub_tree_intro l k nd ts E); [symmetry; exact F2|exact F3].
  Qed.

  Lemma anc_reaches_root : forall F m, climbs l F m = true ->
    exists r rn, In r (anc l F m) /\ aget r l = Some rn /\ parent rn = None.
  Proof.
    induction F as [|F IH]; intros m Hc; [discriminate|]. cbn in Hc |- *.
    destruct (aget m l) as [n|] eqn:E; [|discriminate]. destruct (parent n) as [p|] eqn:Ep.
    - destruct (IH p Hc) as (r & rn & Hin & Er & Pr). exists r, rn. split; [right; exact Hin|auto].
    - exists m, n. split; [left; reflexivity|auto].
  Qed.

  Lemma anc_in_tree t : sub_tree l t -> forall F m, In (rid t) (anc l F m) -> In m (rnodes t).
  Proof.
    intros Ht. induction F as [|F IH]; intros m Hin; [destruct Hin|]. cbn in Hin.
    destruct (aget m l) as [n|] eqn:E; [|destruct Hin]. destruct Hin as [->|Hin]; [apply rid_in_rnodes|].
    destruct (parent n) as [p|] eqn:Ep; [|destruct Hin].
    pose proof (IH p Hin) as Hp. destruct (ni_par _ _ _ (wf_node s W m n E) p Ep) as (pn & i & Epn & Hmc & _).
    apply (sub_tree_children l t Ht p pn m Hp Epn Hmc).
  Qed.

  (* the tree of the whole store: every node, each once, in pre-order *)
  Theorem ket_tree_ok : exists t r, ket_tree s = Some t /\ root s = Some r /\ rid t = r /\ sub_tree l t /\
    NoDup (rnodes t) /\ Permutation (rnodes t) (akeys l).
  Proof.
    destruct (wf_root s W) as (r & rn & Er & En & Pr & Hu). unfold ket_tree. rewrite Er.
    assert (Hk : In r (akeys l)) by (eapply aget_Some_keys; exact En).
    destruct (tree_of_total (S H) r Hk) as (t & E1 & E2 & E3); [lia|].
    exists t, r. split; [exact E1|]. split; [reflexivity|]. split; [exact E2|]. split; [exact E3|].
    pose proof (sub_tree_nodup t E3) as Hnd. split; [exact Hnd|].
    apply NoDup_Permutation; [exact Hnd|apply (wf_nd s W)|]. intros m. split.
    - intros Hm. destruct (sub_tree_nodes l t E3 m Hm) as [nm Em]. eapply aget_Some_keys; exact Em.
    - intros Hm. pose proof (wf_climbs m Hm) as Hc. destruct (anc_reaches_root H m Hc) as (r' & rn' & Hin & Er' & Pr').
      rewrite (Hu r' rn' Er' Pr') in Hin. rewrite <- E2 in Hin. apply (anc_in_tree t E3 H m Hin).
  Qed.
End TreeOf.

(* ================================================================================================================ *)
(* A. completely_contract_tree                                                                                       *)
(* ================================================================================================================ *)
(* node k keeps parent, children and logical axes from s to s' *)
Definition same_at (s s' : store) (k : id) : Prop :=
  forall nk, aget k (nodes s) = Some nk ->
    exists nk', aget k (nodes s') = Some nk' /\ parent nk' = parent nk /\ children nk' = children nk /\ lax s' k nk' = lax s k nk.

Lemma same_at_refl s k : same_at s s k.
Proof. intros nk E. exists nk. auto. Qed.

Lemma same_at_trans s1 s2 s3 k : same_at s1 s2 k -> same_at s2 s3 k -> same_at s1 s3 k.
Proof.
  intros H1 H2 nk E. destruct (H1 nk E) as (n2 & E2 & P2 & C2 & L2). destruct (H2 n2 E2) as (n3 & E3 & P3 & C3 & L3).
  exists n3. repeat split; congruence.
Qed.

Lemma same_at_ow s s' k : same_at s s' k -> (exists nk, aget k (nodes s) = Some nk) -> ow s' k = ow s k.
Proof.
  intros H [nk E]. destruct (H nk E) as (nk' & E' & P & C & L). unfold ow. rewrite E, E'.
  apply open_of_ext; assumption.
Qed.

(* contract_nodes(parent, child, new_identifier = parent) never raises on a well-formed store *)
Lemma contract_parent_succeeds s p c pn0 cn0 :
  wf s -> aget p (nodes s) = Some pn0 -> aget c (nodes s) = Some cn0 -> parent cn0 = Some p ->
  exists s', contract_nodes s p c p = Some s'.
Proof.
  intros W Ep Ec Hparc.
  destruct (wf_parent_child s c cn0 p W Ec Hparc) as (pn0' & Ep' & Hcin). rewrite Ep in Ep'. injection Ep' as <-.
  assert (Hppc : parent pn0 <> Some c) by apply (wf_parent_not_child s c cn0 p pn0 W Ec Hparc Ep).
  assert (Hpc : p <> c) by (intros ->; apply (wf_not_self_parent s c cn0 W Ec Hparc)).
  unfold contract_nodes.
  assert (Edp : determine_parentage s p c = Some (p, c)).
  { unfold determine_parentage. rewrite Ep, Ec, Hparc, Nat.eqb_refl. reflexivity. }
  rewrite Edp.
  pose proof (wf_tens s p pn0 W Ep) as Etp. pose proof (wf_tens s c cn0 W Ec) as Etc.
  rewrite (access_some s p pn0 _ Ep Etp).
  set (pn := reset_permutation pn0). set (pt := s_transpose (perm pn0) (tens s p)).
  set (s1 := upd_tensors (upd_nodes s (aset p pn)) (aset p pt)).
  assert (Ec1 : aget c (nodes s1) = Some cn0) by (cbn; rewrite aget_aset_other by congruence; exact Ec).
  assert (Etc1 : aget c (tensors s1) = Some (tens s c)) by (cbn; rewrite aget_aset_other by congruence; exact Etc).
  rewrite (access_some s1 c cn0 _ Ec1 Etc1).
  set (cn := reset_permutation cn0). set (ct := s_transpose (perm cn0) (tens s c)).
  set (s2 := upd_tensors (upd_nodes s1 (aset c cn)) (aset c ct)).
  destruct (ni_par _ _ _ (wf_node s W c cn0 Ec) p Hparc) as (pn0' & ax & Ep' & _ & Hax & Hwire).
  rewrite Ep in Ep'. injection Ep' as <-.
  assert (Hax' : neighbour_index pn c = Some ax) by exact Hax. rewrite Hax'.
  pose proof (ni_virt _ _ _ (wf_node s W p pn0 Ep)) as Hvp. pose proof (ni_virt _ _ _ (wf_node s W c cn0 Ec)) as Hvc.
  assert (Hnpc : nparents cn0 = 1) by (unfold nparents; rewrite Hparc; reflexivity).
  assert (Haxlt : ax < nlegs pn0) by (pose proof (neighbour_index_lt pn0 c ax Hppc Hax); lia).
  assert (H0lt : 0 < nlegs cn0) by (unfold nvirt in Hvc; lia).
  assert (Hapt : axes pt = lax s p pn0) by reflexivity.
  assert (Hact : axes ct = lax s c cn0) by reflexivity.
  destruct (pop_some 0 ax (axes pt)) as (ra & Epa & Hra); [rewrite Hapt; unfold lax; rewrite laxes_length; exact Haxlt|].
  destruct (pop_some 0 0 (axes ct)) as (rb & Epb & Hrb); [rewrite Hact; unfold lax; rewrite laxes_length; exact H0lt|].
  unfold s_tensordot. unfold wire in *. rewrite Epa, Epb, Hapt, Hact, <- Hwire, Nat.eqb_refl. cbv beta iota.
  match goal with |- context [create_contracted_node (map (wdim s) (axes ?T)) _ _ _ _] => set (nt := T) end.
  assert (Hshp : length (map (wdim s) (axes nt)) = (nlegs pn - 1) + (nlegs cn - 1)).
  { rewrite map_length. cbn [axes nt]. rewrite app_length. unfold pn, cn. rewrite !nlegs_reset.
    rewrite Hapt in Hra. rewrite Hact in Hrb. unfold lax in Hra, Hrb. rewrite laxes_length in Hra, Hrb. nlia. }
  destruct (ccn_succeeds (map (wdim s) (axes nt)) pn cn c (Nat.eqb p p)) as [nn Enn].
  { exact Hcin. }
  { unfold pn. rewrite nlegs_reset. exact Hvp. }
  { unfold cn. rewrite nlegs_reset. exact Hvc. }
  { exact Hnpc. }
  { exact Hshp. }
  unfold wire in *. rewrite Enn. rewrite rnin_same.
  match goal with |- context [replace_node_in_neighbours ?X p c true] => set (s3 := X) end.
  assert (Ec3 : aget c (nodes s3) = Some cn) by (cbn; apply aget_aset_same).
  destruct (rnin_some s3 p c true cn Ec3) as [s5 E5].
  { intros pp Hpp Hne. exfalso. change (parent cn) with (parent cn0) in Hpp. congruence. }
  rewrite E5. eauto.
Qed.

(* the effect of contracting a childless child into its parent under the parent's identifier *)
Lemma contract_child s n c nd cn :
  wf s -> aget n (nodes s) = Some nd -> aget c (nodes s) = Some cn -> In c (children nd) -> children cn = [] ->
  exists s' nd', contract_nodes s n c n = Some s' /\ wf s' /\
    aget n (nodes s') = Some nd' /\ parent nd' = parent nd /\ children nd' = remove_first c (children nd) /\
    open_of nd' (tens s' n) = open_of nd (tens s n) ++ open_of cn (tens s c) /\
    aget c (nodes s') = None /\
    (forall k, k <> n -> k <> c -> same_at s s' k) /\
    (forall k, aget k (nodes s) = None -> aget k (nodes s') = None) /\
    root s' = root s /\ Permutation (total_atoms s') (total_atoms s) /\ Permutation (total_ends s') (total_ends s).
Proof.
  intros W En Ec Hin Hleaf.
  destruct (wf_child_parent s n nd c W En Hin) as (cn' & Ec' & Hparc). rewrite Ec in Ec'. injection Ec' as <-.
  destruct (contract_parent_succeeds s n c nd cn W En Ec Hparc) as [s' Hs].
  assert (Hnew : n = n \/ n = c \/ ~ In n (akeys (nodes s))) by (left; reflexivity).
  pose proof (contract_preserves_wf s n c n s' W Hs Hnew) as W'.
  pose proof (contract_total_atoms s n c n s' W Hs Hnew) as Hat.
  pose proof (contract_total_ends s n c n s' W Hs Hnew) as Hen.
  destruct (contract_open_rule s n c n s' nd cn W Hs Hnew En Ec) as (nn0 & Enn0 & Hopen & Hothers).
  destruct (contract_inv2 s n c n s' W Hs Hnew) as (p & c0 & s2 & pn & cn2 & nn & ax & nt & F & Hrest & _ & _ & _ & _ & _ & _ & _ & _ & Hroot2).
  destruct F as [Fpc Fab Fwf2 Fp Fc Fpar Fpp Fpc' Fax Ftd Fnn Fkeys Flax Fatoms Fends Ftkeys Fview].
  destruct Fview as (V1 & V2 & V3 & V4 & V5 & V6 & V7 & V8 & V9).
  (* orientation: p = n, c0 = c *)
  assert (Hor : p = n /\ c0 = c).
  { destruct Fpc as [[-> ->]|[-> ->]]; [auto|exfalso].
    destruct (Flax n nd En) as (nk2 & E2 & P2 & _). rewrite Fc in E2. injection E2 as <-.
    rewrite Fpar in P2. symmetry in P2. apply (wf_parent_not_child s c cn n nd W Ec Hparc En). exact P2. }
  destruct Hor as [-> ->].
  destruct (Flax n nd En) as (pn' & Ep' & Pp & Cp & _). rewrite Fp in Ep'. injection Ep' as <-.
  destruct (Flax c cn Ec) as (cn' & Ec' & Pc & Cc & _). rewrite Fc in Ec'. injection Ec' as <-.
  assert (Hnew2 : n = n \/ n = c \/ ~ In n (akeys (nodes s2))) by (left; reflexivity).
  rewrite Nat.eqb_refl in Fnn.
  destruct (cc_nn s2 s' n c n pn cn2 nn ax nt true Fwf2 Fp Fc Fpar Fpp Fpc' Hnew2 Fax Ftd Fnn V3 V4 V9) as (N1 & _ & N3 & _).
  rewrite V2 in Enn0. injection Enn0 as <-.
  exists s', nn. split; [exact Hs|]. split; [exact W'|]. split; [exact V2|].
  split; [congruence|]. split; [rewrite N3, Cp, Cc, Hleaf, app_nil_r; reflexivity|]. split; [exact Hopen|].
  split; [apply V4; apply not_eq_sym; exact Fab|]. split; [|split; [|split; [|split; assumption]]].
  - intros k Hkn Hkc nk Ek. destruct (Flax k nk Ek) as (nk2 & E2 & P2 & C2 & L2).
    destruct (cc_old_node s2 s' n c n pn cn2 Hnew2 V5 k nk2 E2 Hkn Hkc) as [_ E'].
    exists (InvContract.rt n c n (children pn) (children cn2) (parent pn) k nk2). split; [exact E'|].
    split; [|split].
    + cbn. rewrite Cc, Hleaf. cbn. rewrite orb_false_r. destruct (memb k (children pn)) eqn:Hm; [|exact P2].
      apply memb_In in Hm. rewrite Cp in Hm. destruct (wf_child_parent s n nd k W En Hm) as (xn & Ex & Px). congruence.
    + cbn. rewrite replace_first_same. destruct (parent pn) as [q|]; [destruct (Nat.eqb k q)|]; exact C2.
    + rewrite (cc_lax_other s2 s' n c n pn cn2 nt Fwf2 Hnew2 V7 k nk2 Hkn Hkc Hkn). exact L2.
  - intros k Ek. destruct (Nat.eq_dec k n) as [->|Hkn]; [congruence|]. destruct (Nat.eq_dec k c) as [->|Hkc]; [congruence|].
    rewrite (V5 k Hkn Hkc Hkn). assert (E2 : aget k (nodes s2) = None).
    { apply aget_None. rewrite Fkeys. apply aget_None. exact Ek. }
    rewrite E2. reflexivity.
  - rewrite V6, Hroot2. destruct (parent pn) as [q|] eqn:Eq; [reflexivity|].
    destruct (wf_root s W) as (r & rn & Er & _ & _ & Hu). rewrite Er. f_equal. apply (Hu n nd En). congruence.
Qed.

(* what contracting the subtree t of s into its top node does (s' is the store afterwards) *)
Definition cct_post (s s' : store) (t : rt) : Prop :=
  wf s' /\
  (exists nd nd', aget (rid t) (nodes s) = Some nd /\ aget (rid t) (nodes s') = Some nd' /\ parent nd' = parent nd /\
     children nd' = [] /\ open_of nd' (tens s' (rid t)) = flat_map (ow s) (rnodes t)) /\
  (forall k, In k (rdesc t) -> aget k (nodes s') = None) /\
  (forall k, ~ In k (rnodes t) -> same_at s s' k) /\
  (forall k, aget k (nodes s) = None -> aget k (nodes s') = None) /\
  root s' = root s /\ Permutation (total_atoms s') (total_atoms s) /\ Permutation (total_ends s') (total_ends s).

Definition cct_ih (f : nat) (c : rt) : Prop :=
  forall s0 ord0, wf s0 -> sub_tree (nodes s0) c ->
    exists s', cct_rec f s0 (rid c) ord0 = Some (s', ord0 ++ rnodes c) /\ cct_post s0 s' c.

Lemma sub_tree_same_at s s' t : sub_tree (nodes s) t -> (forall k, In k (rnodes t) -> same_at s s' k) -> sub_tree (nodes s') t.
Proof.
  intros Ht H. apply (sub_tree_ext (nodes s) (nodes s') t Ht). intros m nm Hm Em.
  destruct (H m Hm nm Em) as (nm' & E' & _ & C & _). eauto.
Qed.

Lemma cct_loop n f : forall rest s ord nd,
  (forall c, In c rest -> cct_ih f c) ->
  wf s -> aget n (nodes s) = Some nd -> children nd = map rid rest -> (forall c, In c rest -> sub_tree (nodes s) c) ->
  exists s' nd', fold_left (cct_step (cct_rec f) n) (map rid rest) (Some (s, ord)) = Some (s', ord ++ flat_map rnodes rest) /\
    wf s' /\ aget n (nodes s') = Some nd' /\ parent nd' = parent nd /\ children nd' = [] /\
    open_of nd' (tens s' n) = open_of nd (tens s n) ++ flat_map (ow s) (flat_map rnodes rest) /\
    (forall k, In k (flat_map rnodes rest) -> aget k (nodes s') = None) /\
    (forall k, k <> n -> ~ In k (flat_map rnodes rest) -> same_at s s' k) /\
    (forall k, aget k (nodes s) = None -> aget k (nodes s') = None) /\
    root s' = root s /\ Permutation (total_atoms s') (total_atoms s) /\ Permutation (total_ends s') (total_ends s).
Proof.
  induction rest as [|c r IHr]; intros s ord nd IH W En Hch Hsub.
  - exists s, nd. cbn [map fold_left flat_map]. rewrite !app_nil_r.
    split; [reflexivity|]. split; [exact W|]. split; [exact En|]. split; [reflexivity|]. split; [exact Hch|].
    split; [reflexivity|]. split; [intros k []|]. split; [intros k _ _; apply same_at_refl|].
    split; [auto|]. split; [reflexivity|]. split; reflexivity.
  - (* the whole remaining tree below n is duplicate free *)
    assert (Htn : sub_tree (nodes s) (RN n (c :: r))) by (apply (sub_tree_intro _ n nd (c :: r) En Hch Hsub)).
    pose proof (sub_tree_nodup s W _ Htn) as Hnd. cbn [rnodes flat_map] in Hnd.
    inversion Hnd as [|? ? Hn_notin Hnd']; subst. apply NoDup_app_iff in Hnd'. destruct Hnd' as (Hndc & Hndr & Hdisj).
    assert (Hn_c : ~ In n (rnodes c)) by (intros Hx; apply Hn_notin; apply in_or_app; left; exact Hx).
    assert (Hn_r : ~ In n (flat_map rnodes r)) by (intros Hx; apply Hn_notin; apply in_or_app; right; exact Hx).
    (* the recursive call on c *)
    destruct (IH c (or_introl eq_refl) s ord W (Hsub c (or_introl eq_refl))) as (s1 & E1 & P1).
    destruct P1 as (W1 & (cn & cn1 & Ecn & Ecn1 & Pcn1 & Ccn1 & Ocn1) & D1 & S1 & N1 & R1 & A1 & T1).
    cbn [map fold_left]. unfold cct_step at 2. rewrite E1.
    destruct (S1 n Hn_c nd En) as (nd1 & En1 & Pn1 & Cn1 & Ln1).
    assert (Hcin : In (rid c) (children nd1)) by (rewrite Cn1, Hch; left; reflexivity).
    destruct (contract_child s1 n (rid c) nd1 cn1 W1 En1 Ecn1 Hcin Ccn1)
      as (s2 & nd2 & E2 & W2 & En2 & Pn2 & Cn2 & On2 & Dc2 & S2 & N2 & R2 & A2 & T2).
    rewrite E2.
    assert (Cn2' : children nd2 = map rid r).
    { rewrite Cn2, Cn1, Hch. cbn [map remove_first]. rewrite Nat.eqb_refl. reflexivity. }
    (* nodes of the remaining subtrees are untouched so far *)
    assert (Hkeep : forall k, In k (flat_map rnodes r) -> same_at s s2 k).
    { intros k Hk. assert (Hkc : ~ In k (rnodes c)) by (intros Hx; apply (Hdisj k Hx Hk)).
      apply (same_at_trans s s1 s2 k); [apply S1; exact Hkc|].
      apply S2; [intros ->; contradiction|]. intros ->. apply Hkc. apply rid_in_rnodes. }
    assert (Hsub2 : forall c', In c' r -> sub_tree (nodes s2) c').
    { intros c' Hc'. apply (sub_tree_same_at s s2 c' (Hsub c' (or_intror Hc'))).
      intros k Hk. apply Hkeep. apply in_flat_map. exists c'. split; assumption. }
    destruct (IHr s2 (ord ++ rnodes c) nd2 (fun c' Hc' => IH c' (or_intror Hc')) W2 En2 Cn2' Hsub2)
      as (s3 & nd3 & E3 & W3 & En3 & Pn3 & Cn3 & On3 & D3 & S3 & N3 & R3 & A3 & T3).
    exists s3, nd3. split; [rewrite E3; cbn [flat_map]; rewrite app_assoc; reflexivity|].
    split; [exact W3|]. split; [exact En3|]. split; [congruence|]. split; [exact Cn3|].
    split; [|split; [|split; [|split; [|split; [|split]]]]].
    + rewrite On3, On2, Ocn1. cbn [flat_map]. rewrite flat_map_app, <- app_assoc. f_equal.
      * apply open_of_ext; [congruence|congruence|exact Ln1].
      * f_equal. apply flat_map_ext_in. intros k Hk. apply same_at_ow; [apply Hkeep; exact Hk|].
        apply in_flat_map in Hk. destruct Hk as (c' & Hc' & Hk). apply (sub_tree_nodes _ c' (Hsub c' (or_intror Hc')) k Hk).
    + intros k Hk. cbn [flat_map] in Hk. apply in_app_or in Hk. destruct Hk as [Hk|Hk]; [|apply D3; exact Hk].
      apply N3. destruct c as [cid ccs]. cbn in Hk. destruct Hk as [<-|Hk]; [exact Dc2|]. apply N2. apply D1. exact Hk.
    + intros k Hkn Hk. cbn [flat_map] in Hk.
      assert (Hkc : ~ In k (rnodes c)) by (intros Hx; apply Hk; apply in_or_app; left; exact Hx).
      assert (Hkr : ~ In k (flat_map rnodes r)) by (intros Hx; apply Hk; apply in_or_app; right; exact Hx).
      apply (same_at_trans s s2 s3 k); [|apply S3; assumption].
      apply (same_at_trans s s1 s2 k); [apply S1; exact Hkc|]. apply S2; [exact Hkn|].
      intros ->. apply Hkc. apply rid_in_rnodes.
    + intros k Ek. apply N3, N2, N1, Ek.
    + congruence.
    + rewrite A3, A2. exact A1.
    + rewrite T3, T2. exact T1.
Qed.

Lemma cct_sub t : forall fuel, length (rnodes t) <= fuel -> cct_ih fuel t.
Proof.
  induction t as [n cs IH] using rt_rect'. intros fuel Hf s ord W Ht.
  inversion Ht as [? nd ? En Hch Hsub]; subst.
  destruct fuel as [|f]; [cbn in Hf; lia|]. cbn [cct_rec rid]. rewrite En, Hch.
  assert (IH' : forall c, In c cs -> cct_ih f c).
  { intros c Hc. apply (IH c Hc). cbn in Hf. pose proof (flat_map_length_in rnodes cs c Hc). lia. }
  destruct (cct_loop n f cs s (ord ++ [n]) nd IH' W En Hch Hsub)
    as (s' & nd' & E & W' & En' & Pn' & Cn' & On' & D' & S' & N' & R' & A' & T').
  exists s'. split; [rewrite E; cbn [rnodes]; rewrite <- app_assoc; reflexivity|].
  split; [exact W'|]. split; [|split; [|split; [|split; [|split; [|split]]]]]; auto.
  - exists nd, nd'. cbn [rid rnodes flat_map]. repeat split; auto. rewrite On'. unfold ow at 2. rewrite En. reflexivity.
  - intros k Hk. apply S'; [intros ->; apply Hk; left; reflexivity|]. intros Hx. apply Hk. right. exact Hx.
Qed.

Lemma wf_lax_perm s k n : wf s -> aget k (nodes s) = Some n -> Permutation (lax s k n) (axes (tens s k)).
Proof.
  intros W E. unfold lax, laxes. apply permute_is_perm. pose proof (wf_node s W k n E) as Hn.
  pose proof (ni_perm _ _ _ Hn) as Hp. rewrite (ni_shape _ _ _ Hn), map_length in Hp. exact Hp.
Qed.

Lemma single_key_list {V} (l : list (nat * V)) k : akeys l = [k] -> exists v, l = [(k, v)].
Proof. destruct l as [|[k' v] [|x t]]; cbn; try discriminate. intros [= ->]. eauto. Qed.

(* completely_contract_tree on every well-formed store: it succeeds; the order returned is the pre-order; one node (the
   root) is left; its tensor has all atoms of the network, as open axes the open wires of the nodes in pre-order (each
   node's in node order), and every other wire end bound: in particular every tree edge *)
Theorem complete_contraction_spec s : wfb s = true ->
  exists r s' t, root s = Some r /\ complete_contraction s = Some (s', t, preorder s) /\
    wfb s' = true /\ akeys (nodes s') = [r] /\
    axes t = flat_map (ow s) (preorder s) /\
    Permutation (atoms t) (total_atoms s) /\
    Permutation (axes t ++ bnd t ++ bnd t) (total_ends s) /\
    (forall m w, In w (pw s m) -> In w (bnd t)) /\
    Permutation (preorder s) (akeys (nodes s)).
Proof.
  intros Wb. pose proof (wfb_wf s Wb) as W.
  destruct (ket_tree_ok s W) as (t0 & r & Ekt & Er & Erid & Hsub & Hnd & Hperm).
  assert (Hpre : preorder s = rnodes t0) by (unfold preorder; rewrite Ekt; reflexivity).
  assert (Hfuel : length (rnodes t0) <= length (nodes s)).
  { rewrite (Permutation_length Hperm). unfold akeys. rewrite map_length. nlia. }
  destruct (cct_sub t0 (length (nodes s)) Hfuel s [] W Hsub) as (s' & E & P).
  destruct P as (W' & (nd & nd' & End & End' & Pnd' & Cnd' & Ond') & D & S & N & R & A & T).
  rewrite Erid in *. cbn [app] in E.
  destruct (wf_root s W) as (r0 & rn & Er0 & Ern & Prn & _). rewrite Er in Er0. injection Er0 as <-.
  rewrite End in Ern. injection Ern as <-.
  (* one node is left *)
  assert (Hkeys : akeys (nodes s') = [r]).
  { apply nodup_singleton; [apply (wf_nd s' W')|]. intros k. split.
    - intros Hk. destruct (Nat.eq_dec k r) as [|Hkr]; [assumption|exfalso].
      apply keys_aget in Hk. destruct Hk as [v Hv].
      destruct (in_dec Nat.eq_dec k (rnodes t0)) as [Hin|Hout].
      + destruct t0 as [n0 cs0]. cbn in Erid, Hin. subst n0. destruct Hin as [->|Hin]; [congruence|].
        rewrite (D k Hin) in Hv. discriminate.
      + assert (Hn : aget k (nodes s) = None).
        { apply aget_None. intros Hk. apply Hout. apply (Permutation_in _ (Permutation_sym Hperm) Hk). }
        rewrite (N k Hn) in Hv. discriminate.
    - intros ->. eapply aget_Some_keys; exact End'. }
  assert (Htk : akeys (tensors s') = [r]).
  { pose proof (wf_keys_perm s' W') as Hp. rewrite Hkeys in Hp. apply Permutation_sym, Permutation_length_1_inv in Hp. exact Hp. }
  destruct (single_key_list _ _ Htk) as [t' Et'].
  pose proof (wf_tens s' r nd' W' End') as Etr.
  assert (Htens : tens s' r = t') by (unfold tens; rewrite Et'; cbn; rewrite Nat.eqb_refl; reflexivity).
  exists r, s', (s_transpose (perm nd') t'). split; [exact Er|].
  split.
  { unfold complete_contraction. rewrite Er, E, R, Er. unfold logical. rewrite End', Etr, Htens, Hpre. reflexivity. }
  split; [apply wf_wfb; exact W'|]. split; [exact Hkeys|].
  assert (Hax : axes (s_transpose (perm nd') t') = flat_map (ow s) (preorder s)).
  { rewrite Hpre, <- Ond'. unfold open_of, nvirt, nparents. rewrite Pnd', Prn, Cnd', Htens. reflexivity. }
  assert (Hat : Permutation (atoms (s_transpose (perm nd') t')) (total_atoms s)).
  { rewrite <- A. unfold total_atoms. rewrite Et'. cbn. rewrite app_nil_r. reflexivity. }
  assert (Hen : Permutation (axes (s_transpose (perm nd') t') ++ bnd (s_transpose (perm nd') t') ++ bnd (s_transpose (perm nd') t')) (total_ends s)).
  { rewrite <- T. unfold total_ends. rewrite Et'. cbn [flat_map snd]. rewrite app_nil_r. unfold sarr_ends.
    apply Permutation_app_tail. pose proof (wf_lax_perm s' r nd' W' End') as Hp. unfold lax in Hp. rewrite Htens in Hp. exact Hp. }
  split; [exact Hax|]. split; [exact Hat|]. split; [exact Hen|]. split; [|rewrite Hpre; exact Hperm].
  (* every edge wire is bound *)
  intros m w Hw. unfold pw in Hw. destruct (aget m (nodes s)) as [nm|] eqn:Em; [|destruct Hw].
  assert (Hown : In w (own_of nm (tens s m))) by (unfold own_of; apply in_or_app; left; exact Hw).
  assert (Hends : In w (total_ends s)).
  { unfold total_ends. apply in_flat_map. exists (m, tens s m). split; [apply aget_In; apply (wf_tens s m nm W Em)|].
    cbn [snd]. unfold sarr_ends. apply in_or_app. left.
    apply (Permutation_in _ (wf_lax_perm s m nm W Em)). apply (in_firstn_in _ _ _ Hw). }
  apply (Permutation_in _ (Permutation_sym Hen)) in Hends. apply in_app_or in Hends.
  destruct Hends as [Hx|Hx]; [exfalso|apply in_app_or in Hx; destruct Hx; assumption].
  rewrite Hax in Hx. apply in_flat_map in Hx. destruct Hx as (m' & _ & Hm'). unfold ow in Hm'.
  destruct (aget m' (nodes s)) as [nm'|] eqn:Em'; [|destruct Hm'].
  assert (Hown' : In w (own_of nm' (tens s m'))) by (unfold own_of; apply in_or_app; right; exact Hm').
  pose proof (wf_own2 s W m nm m' nm' w Em Em' Hown Hown') as Heq. subst m'. rewrite Em in Em'. injection Em' as <-.
  pose proof (wf_own1 s W m nm Em) as Hnd1. unfold own_of in Hnd1. apply NoDup_app_iff in Hnd1.
  destruct Hnd1 as (_ & _ & Hd). apply (Hd w Hw Hm').
Qed.

(* ---- TTNO.as_matrix ------------------------------------------------------------------------------------------- *)
Lemma evens_odds_even n : evens_odds (2 * n) = as_matrix_perm n.
Proof.
  unfold evens_odds, as_matrix_perm.
  replace ((2 * n + 1) / 2) with n by (apply (Nat.div_unique (2 * n + 1) 2 n 1); lia).
  replace (2 * n / 2) with n by (apply (Nat.div_unique (2 * n) 2 n 0); lia). reflexivity.
Qed.

Lemma nth_interleave {A B} (f g : A -> B) (a0 : A) (d : B) : forall l k, k < length l ->
  nth (2 * k) (flat_map (fun m => [f m; g m]) l) d = f (nth k l a0) /\
  nth (2 * k + 1) (flat_map (fun m => [f m; g m]) l) d = g (nth k l a0).
Proof.
  induction l as [|a r IH]; intros k Hk; [cbn in Hk; lia|]. destruct k as [|k]; [cbn; auto|].
  cbn [length] in Hk. destruct (IH k) as [H1 H2]; [lia|].
  replace (2 * S k) with (S (S (2 * k))) by lia. replace (S (S (2 * k)) + 1) with (S (S (2 * k + 1))) by lia.
  cbn [flat_map app nth]. auto.
Qed.

Lemma permute_interleave {A} (f g : A -> wire) (l : list A) :
  permute 0 (as_matrix_perm (length l)) (flat_map (fun m => [f m; g m]) l) = map f l ++ map g l.
Proof.
  unfold permute, as_matrix_perm. rewrite map_app, !map_map. f_equal.
  - destruct l as [|a0 r]; [reflexivity|]. set (l := a0 :: r).
    rewrite <- (nth_seq_all a0 l) at 2. rewrite map_map. apply map_ext_in. intros k Hk. apply in_seq in Hk.
    apply (nth_interleave f g a0 0 l k). lia.
  - destruct l as [|a0 r]; [reflexivity|]. set (l := a0 :: r).
    rewrite <- (nth_seq_all a0 l) at 2. rewrite map_map. apply map_ext_in. intros k Hk. apply in_seq in Hk.
    apply (nth_interleave f g a0 0 l k). lia.
Qed.

(* a TTNO (two open legs (output, input) per node): as_matrix succeeds, its order is the pre-order, and the transposed
   tensor has first the output wires of the nodes in that order, then the input wires in that order; atoms and bound
   wires are those of the full contraction *)
Theorem as_matrix_spec s (o i : id -> wire) : wfb s = true ->
  (forall m, In m (akeys (nodes s)) -> ow s m = [o m; i m]) ->
  exists s' t, complete_contraction s = Some (s', t, preorder s) /\
    as_matrix s = Some (s_transpose (evens_odds (length (axes t))) t, preorder s) /\
    axes (s_transpose (evens_odds (length (axes t))) t) = map o (preorder s) ++ map i (preorder s) /\
    Permutation (atoms t) (total_atoms s) /\
    Permutation (axes t ++ bnd t ++ bnd t) (total_ends s) /\
    (forall m w, In w (pw s m) -> In w (bnd t)).
Proof.
  intros Wb Hopen. destruct (complete_contraction_spec s Wb) as (r & s' & t & Er & Ec & _ & _ & Hax & Hat & Hen & Hedge & Hperm).
  exists s', t. split; [exact Ec|]. split; [unfold as_matrix; rewrite Ec; reflexivity|].
  split; [|auto].
  assert (Hax' : axes t = flat_map (fun m => [o m; i m]) (preorder s)).
  { rewrite Hax. apply flat_map_ext_in. intros m Hm. apply Hopen. apply (Permutation_in _ Hperm Hm). }
  cbn [axes s_transpose]. rewrite Hax'.
  assert (Hl : forall l : list id, length (flat_map (fun m => [o m; i m]) l) = 2 * length l).
  { induction l as [|a l IH]; [reflexivity|]. cbn [flat_map app length]. rewrite IH. lia. }
  rewrite Hl, evens_odds_even. apply permute_interleave.
Qed.

(* ================================================================================================================ *)
(* B. tensor_product_expectation_value                                                                               *)
(* ================================================================================================================ *)
(* absorb_into_open_legs in the vocabulary of Contr/Closed.v (logical tensors) *)
Lemma absorb_effect s n gshape s' : absorb_open s n gshape = Some s' ->
  exists nd0 t0, aget n (nodes s) = Some nd0 /\ aget n (tensors s) = Some t0 /\
    let L := permute 0 (perm nd0) (axes t0) in
    let k := nopen nd0 in
    length gshape = 2 * k /\ firstn k gshape = skipn k gshape /\ map (wdim s) (skipn (nvirt nd0) L) = skipn k gshape /\
    (forall m, m <> n -> aget m (nodes s') = aget m (nodes s) /\ tensor_of s' m = tensor_of s m) /\
    aget n (nodes s') = Some (reset_permutation nd0) /\
    tensor_of s' n = Some {| gaxes := firstn (nvirt nd0) L ++ seq (next_wire s) k; gatoms := atoms t0 ++ [next_atom s];
                             gbnd := skipn (nvirt nd0) L ++ bnd t0; gglue := [] |} /\
    root s' = root s /\ next_wire s' = next_wire s + k /\ next_atom s' = S (next_atom s) /\
    dims s' = dims s ++ combine (seq (next_wire s) k) (firstn k gshape) /\
    atab s' = atab s ++ [(next_atom s, seq (next_wire s) k ++ skipn (nvirt nd0) L)].
Proof.
  intros H. destruct (absorb_open_inv _ _ _ _ H) as (s1 & nd & t & Ha & Hlen & Hsq & Hdim & En' & Er' & Et' & Ed' & Ew' & Ea' & _ & Eat').
  destruct (access_inv _ _ _ _ _ Ha) as (nd0 & t0 & En0 & Et0 & -> & -> & Es1).
  destruct (sp_access_next _ _ _ _ _ Ha) as (Na & Nw & _ & Nd & Nt).
  exists nd0, t0. split; [exact En0|]. split; [exact Et0|]. cbv zeta.
  rewrite nopen_reset, nvirt_reset in *. cbn [axes s_transpose] in *.
  set (L := permute 0 (perm nd0) (axes t0)) in *. set (k := nopen nd0) in *. set (v := nvirt nd0) in *.
  split; [exact Hlen|]. split; [exact Hsq|]. split; [exact Hdim|].
  assert (Hn1 : forall m, aget m (nodes s1) = if Nat.eqb m n then Some (reset_permutation nd0) else aget m (nodes s)).
  { intros m. rewrite Es1. cbn. apply aget_aset. }
  assert (Ht1 : forall m, m <> n -> aget m (tensors s') = aget m (tensors s)).
  { intros m Hm. rewrite Et', aget_aset_other by exact Hm. rewrite Es1. cbn. apply aget_aset_other. exact Hm. }
  split.
  { intros m Hm. assert (E : aget m (nodes s') = aget m (nodes s)).
    { rewrite En', Hn1. destruct (Nat.eqb_spec m n); [contradiction|reflexivity]. }
    split; [exact E|]. unfold tensor_of, logical. rewrite E, (Ht1 m Hm). reflexivity. }
  assert (En'' : aget n (nodes s') = Some (reset_permutation nd0)) by (rewrite En', Hn1, Nat.eqb_refl; reflexivity).
  split; [exact En''|]. split.
  { unfold tensor_of, logical. rewrite En'', Et', aget_aset_same. cbn [option_map]. f_equal.
    unfold of_sarr, ab_tensor. cbn [axes atoms bnd s_transpose reset_permutation perm]. rewrite Nw, Na.
    rewrite nopen_reset, nvirt_reset. fold L k v. f_equal.
    assert (HlL : length L = length (perm nd0)) by (unfold L; apply permute_length).
    assert (Hlen' : length (firstn v L ++ seq (next_wire s) k) = length (perm nd0)).
    { rewrite app_length, firstn_length, seq_length, HlL. unfold k, nopen, nlegs. fold v. lia. }
    rewrite <- Hlen'. apply permute_seq. }
  split; [rewrite Er', Es1; reflexivity|]. split; [rewrite Ew', Nw; reflexivity|]. split; [rewrite Ea', Na; reflexivity|].
  split; [rewrite Ed', Nd, Nw; reflexivity|]. rewrite Eat', Nt, Na, Nw. reflexivity.
Qed.

(* the same at a node of a consistent pair of states: one open leg *)
Lemma absorb_site ket bra p a cs gshape ket' :
  node_ok ket bra p a cs -> absorb_open ket a gshape = Some ket' ->
  exists kn, aget a (nodes ket) = Some kn /\ aget a (nodes ket') = Some (reset_permutation kn) /\
    (forall m, m <> a -> aget m (nodes ket') = aget m (nodes ket) /\ tensor_of ket' m = tensor_of ket m) /\
    t_axes ket' a = opt_list p (up_wire ket a) ++ map (up_wire ket) cs ++ [next_wire ket] /\
    t_atoms ket' a = t_atoms ket a ++ [next_atom ket] /\
    t_bnd ket' a = open_wire ket a :: t_bnd ket a /\
    root ket' = root ket /\ next_wire ket' = S (next_wire ket) /\ next_atom ket' = S (next_atom ket) /\
    (exists d, dims ket' = dims ket ++ [(next_wire ket, d)]) /\
    atab ket' = atab ket ++ [(next_atom ket, [next_wire ket; open_wire ket a])].
Proof.
  intros (kn & bn & Ekn & _ & Pk & _ & Ck & _ & _ & Hax & _) H.
  destruct (absorb_effect _ _ _ _ H) as (nd0 & t0 & En0 & Et0 & Hrest). cbv zeta in Hrest.
  rewrite Ekn in En0. injection En0 as <-.
  destruct Hrest as (Hlen & Hsq & _ & Hoth & En' & Ht' & Er & Ew & Ea & Ed & Eat).
  assert (HL : permute 0 (perm kn) (axes t0) = t_axes ket a).
  { unfold t_axes, tensor_of, logical. rewrite Ekn, Et0. reflexivity. }
  rewrite HL in *.
  assert (Hv : nvirt kn = length (opt_list p (up_wire ket a) ++ map (up_wire ket) cs)).
  { unfold nvirt, nparents. rewrite Pk, Ck, app_length, map_length. destruct p; reflexivity. }
  assert (Hnl : nlegs kn = S (nvirt kn)).
  { unfold nlegs. rewrite <- (permute_length 0 (perm kn) (axes t0)), HL, Hax, Hv, !app_length. cbn. nlia. }
  assert (Hk : nopen kn = 1) by (unfold nopen; lia).
  rewrite Hk in *. cbn [seq] in *.
  assert (Hf : firstn (nvirt kn) (t_axes ket a) = opt_list p (up_wire ket a) ++ map (up_wire ket) cs).
  { rewrite Hax, app_assoc, Hv. apply firstn_app_len. }
  assert (Hs : skipn (nvirt kn) (t_axes ket a) = [open_wire ket a]).
  { rewrite Hax at 1. rewrite app_assoc, Hv. apply skipn_app_len. }
  unfold wire, id in *.   rewrite Hf, Hs in Ht'. rewrite Hs in Eat.
  exists kn. split; [exact Ekn|]. split; [exact En'|]. split; [exact Hoth|].
  split; [unfold t_axes; rewrite Ht'; cbn; rewrite <- app_assoc; reflexivity|].
  split; [unfold t_atoms at 1; rewrite Ht'; cbn; unfold t_atoms, tensor_of, logical; rewrite Ekn, Et0; reflexivity|].
  split; [unfold t_bnd at 1; rewrite Ht'; cbn; unfold t_bnd, tensor_of, logical; rewrite Ekn, Et0; reflexivity|].
  split; [exact Er|]. split; [rewrite Ew; lia|]. split; [exact Ea|]. split; [|exact Eat].
  destruct gshape as [|d [|d' [|x r]]]; cbn in Hlen; try lia. exists d. exact Ed.
Qed.

Section AbsorbTwo.
  Variables (ket bra : store) (a : id) (gshape : list nat) (ket' : store).
  Hypothesis Hab : absorb_open ket a gshape = Some ket'.

  Lemma absorb_other_view m : m <> a -> (forall p cs, node_ok ket bra p a cs -> True) ->
    aget m (nodes ket') = aget m (nodes ket) /\ tensor_of ket' m = tensor_of ket m.
  Proof.
    intros Hm _. destruct (absorb_effect _ _ _ _ Hab) as (nd0 & t0 & _ & _ & Hrest). cbv zeta in Hrest.
    destruct Hrest as (_ & _ & _ & Hoth & _). apply Hoth. exact Hm.
  Qed.

  Lemma absorb_other m : m <> a ->
    aget m (nodes ket') = aget m (nodes ket) /\ t_axes ket' m = t_axes ket m /\ t_atoms ket' m = t_atoms ket m /\
    t_bnd ket' m = t_bnd ket m /\ up_wire ket' m = up_wire ket m /\ open_wire ket' m = open_wire ket m.
  Proof.
    intros Hm. destruct (absorb_other_view m Hm (fun _ _ _ => I)) as [E1 E2].
    unfold up_wire, open_wire, t_axes, t_atoms, t_bnd. rewrite E2. repeat split; auto.
  Qed.

  Lemma absorb_up_wire q n cs : node_ok ket bra (Some q) n cs -> up_wire ket' n = up_wire ket n.
  Proof.
    intros Hok. destruct (Nat.eq_dec n a) as [->|Hn]; [|apply (absorb_other n Hn)].
    destruct (absorb_site ket bra (Some q) a cs gshape ket' Hok Hab) as (kn & _ & _ & _ & Hax & _).
    unfold up_wire at 1. rewrite Hax. reflexivity.
  Qed.

  Hypothesis Hfresh : next_wire ket <> open_wire bra a.

  Lemma absorb_node_ok p n cs :
    node_ok ket bra p n cs -> (forall c, In c cs -> up_wire ket' c = up_wire ket c) ->
    node_ok ket' bra p n cs.
  Proof.
    intros Hok Hcs. pose proof Hok as (kn & bn & Ekn & Ebn & Pk & Pb & Ck & Cb & Hnd & Hax & Hbx & Hne).
    assert (Hmap : map (up_wire ket') cs = map (up_wire ket) cs) by (apply map_ext_in; intros c Hc; apply (Hcs c Hc)).
    destruct (Nat.eq_dec n a) as [->|Hn].
    - destruct (absorb_site ket bra p a cs gshape ket' Hok Hab) as (kn' & Ekn' & En' & _ & Hax' & _).
      rewrite Ekn in Ekn'. injection Ekn' as <-.
      assert (Hopen : open_wire ket' a = next_wire ket).
      { unfold open_wire. rewrite Hax', !app_assoc. apply last_app_single. }
      exists (reset_permutation kn), bn. repeat split; auto.
      + rewrite Hax', Hopen, Hmap. destruct p as [q|]; [|reflexivity].
        rewrite (absorb_up_wire q a cs Hok). reflexivity.
      + rewrite Hopen. exact Hfresh.
    - destruct (absorb_other n Hn) as (E1 & E2 & _ & _ & E5 & E6).
      exists kn, bn. repeat split; auto; try congruence.
  Qed.

  Lemma absorb_wf_sub : forall t p, wf_sub ket bra p t -> wf_sub ket' bra p t.
  Proof.
    induction t as [n cs IH] using rt_rect'. intros p Hw. inversion Hw as [? ? ? Hok Hsub]; subst.
    constructor.
    - apply (absorb_node_ok p n (map rid cs) Hok). intros c Hc. apply in_map_iff in Hc. destruct Hc as (tc & <- & Htc).
      pose proof (Hsub tc Htc) as Hwc. inversion Hwc as [? ? ? Hokc _]; subst. cbn [rid].
      apply (absorb_up_wire n n0 (map rid cs0) Hokc).
    - intros c Hc. apply (IH c Hc (Some n)). apply Hsub. exact Hc.
  Qed.
End AbsorbTwo.

Lemma site_shape ket bra p a cs : node_ok ket bra p a cs ->
  exists kn t0, aget a (nodes ket) = Some kn /\ aget a (tensors ket) = Some t0 /\
    permute 0 (perm kn) (axes t0) = t_axes ket a /\ nopen kn = 1 /\
    skipn (nvirt kn) (t_axes ket a) = [open_wire ket a].
Proof.
  intros (kn & bn & Ekn & _ & Pk & _ & Ck & _ & _ & Hax & _).
  assert (Hne : t_axes ket a <> []) by (rewrite Hax; destruct (opt_list p (up_wire ket a)), (map (up_wire ket) cs); discriminate).
  destruct (aget a (tensors ket)) as [t0|] eqn:Et0.
  2:{ exfalso. apply Hne. unfold t_axes, tensor_of, logical. rewrite Ekn, Et0. reflexivity. }
  exists kn, t0. split; [exact Ekn|]. split; [reflexivity|].
  assert (HL : permute 0 (perm kn) (axes t0) = t_axes ket a).
  { unfold t_axes, tensor_of, logical. rewrite Ekn, Et0. reflexivity. }
  split; [exact HL|].
  assert (Hv : nvirt kn = length (opt_list p (up_wire ket a) ++ map (up_wire ket) cs)).
  { unfold nvirt, nparents. rewrite Pk, Ck, app_length, map_length. destruct p; reflexivity. }
  assert (Hnl : nlegs kn = S (nvirt kn)).
  { unfold nlegs. rewrite <- (permute_length 0 (perm kn) (axes t0)), HL, Hax, Hv, !app_length. cbn. nlia. }
  split; [unfold nopen; lia|]. rewrite Hax at 1. rewrite app_assoc, Hv. apply skipn_app_len.
Qed.

Lemma absorb_site_succeeds ket bra p a cs d : node_ok ket bra p a cs -> d = wdim ket (open_wire ket a) ->
  exists ket', absorb_open ket a [d; d] = Some ket'.
Proof.
  intros Hok ->. destruct (site_shape ket bra p a cs Hok) as (kn & t0 & Ekn & Et0 & HL & Hk & Hs).
  unfold absorb_open. rewrite (access_some ket a kn t0 Ekn Et0). rewrite nopen_reset, nvirt_reset, Hk.
  cbn [s_transpose axes]. change (permute 0 (perm kn) (axes t0)) with (permute 0 (perm kn) (axes t0)).
  unfold wire, id in *. rewrite HL, Hs. cbn [length firstn skipn map Nat.mul Nat.add Nat.eqb negb].
  rewrite !(proj2 (list_eqb_eq _ _) eq_refl). cbn [negb].
  destruct (fresh_wires _ _) as [s2 neww]. unfold fresh_atom. eauto.
Qed.

Lemma flat_map_change {X} (f f' : id -> list X) a x : forall ns, NoDup ns -> In a ns ->
  (forall m, m <> a -> f' m = f m) -> Permutation (f' a) (x :: f a) ->
  Permutation (flat_map f' ns) (x :: flat_map f ns).
Proof.
  induction ns as [|m r IH]; intros Hnd Hin Hoth Ha; [destruct Hin|]. inversion Hnd as [|? ? Hni Hnd']; subst.
  cbn [flat_map]. destruct (Nat.eq_dec m a) as [->|Hm].
  - rewrite Ha. cbn. constructor. apply Permutation_app_head.
    assert (E : flat_map f' r = flat_map f r); [|rewrite E; reflexivity].
    apply flat_map_ext_in. intros y Hy. apply Hoth. intros ->. contradiction.
  - destruct Hin as [E|Hin]; [contradiction|]. rewrite (Hoth m Hm), (IH Hnd' Hin Hoth Ha).
    apply Permutation_sym, Permutation_middle.
Qed.

Lemma wf_sub_desc ket bra : forall t p, wf_sub ket bra p t -> forall m, In m (rdesc t) -> exists q cs, node_ok ket bra (Some q) m cs.
Proof.
  induction t as [n cs IH] using rt_rect'. intros p Hw m Hm. inversion Hw as [? ? ? Hok Hsub]; subst.
  unfold rdesc in Hm. cbn [rcs] in Hm. apply in_flat_map in Hm. destruct Hm as (c & Hc & Hm).
  pose proof (Hsub c Hc) as Hwc. destruct c as [nc ccs]. cbn [rnodes] in Hm. destruct Hm as [<-|Hm].
  - inversion Hwc; subst. eauto.
  - apply (IH _ Hc (Some n) Hwc m). exact Hm.
Qed.

Lemma wf_sub_node ket bra : forall t p, wf_sub ket bra p t -> forall m, In m (rnodes t) -> exists q cs, node_ok ket bra q m cs.
Proof.
  intros t p Hw m Hm. rewrite rnodes_desc in Hm. destruct Hm as [<-|Hm].
  - inversion Hw; subst. cbn. eauto.
  - destruct (wf_sub_desc ket bra t p Hw m Hm) as (q & cs & H). eauto.
Qed.

Lemma combine_map_l_local {A B C} (f : A -> B) (l : list A) (l' : list C) :
  combine (map f l) l' = map (fun p => (f (fst p), snd p)) (combine l l').
Proof. revert l'. induction l as [|x r IH]; intros [|y r']; cbn; try reflexivity. f_equal. apply IH. Qed.

Lemma aget_snoc_other {V} (l : list (nat * V)) k k' v : k <> k' -> aget k (l ++ [(k', v)]) = aget k l.
Proof.
  intros H. rewrite aget_app. destruct (aget k l); [reflexivity|]. cbn. destruct (Nat.eqb_spec k k'); [contradiction|reflexivity].
Qed.

(* apply_operator on a consistent pair of states: accepted, the pair stays consistent with the fresh output wires as the
   ket's open legs; the totals of the closed-network theorem change by the factor atoms and the old open wires (now bound
   to the factors' input legs) *)
Lemma tp_apply_closed bra t : forall ops ket,
  wf_two ket bra t ->
  NoDup (map fst ops) -> (forall o, In o ops -> In (fst o) (rnodes t)) ->
  (forall i m, i < length ops -> In m (rnodes t) -> next_wire ket + i <> open_wire bra m) ->
  (forall m, In m (rnodes t) -> open_wire ket m < next_wire ket) ->
  (forall o, In o ops -> snd o = [wdim ket (open_wire ket (fst o)); wdim ket (open_wire ket (fst o))]) ->
  exists ket', tp_apply ket ops = Some ket' /\ wf_two ket' bra t /\
    Permutation (all_atoms ket' bra (rnodes t)) (all_atoms ket bra (rnodes t) ++ seq (next_atom ket) (length ops)) /\
    edge_wires ket' bra (rdesc t) = edge_wires ket bra (rdesc t) /\
    Permutation (inner_bnd ket' bra (rnodes t)) (inner_bnd ket bra (rnodes t) ++ map (fun o => open_wire ket (fst o)) ops) /\
    open_pairs ket' bra (rnodes t)
    = map (fun m => (match factor_index ops m with Some i => next_wire ket + i | None => open_wire ket m end, open_wire bra m)) (rnodes t) /\
    atab ket' = atab ket ++ tp_rows ket ops.
Proof.
  induction ops as [|[a shp] rest IH]; intros ket Hwf Hnd Hin Hfresh Hlt Hshp.
  - exists ket. cbn [tp_apply length seq map]. unfold tp_rows. cbn [length seq combine map]. rewrite !app_nil_r.
    split; [reflexivity|]. split; [exact Hwf|]. split; [reflexivity|]. split; [reflexivity|]. split; [reflexivity|].
    split; reflexivity.
  - destruct Hwf as (Hr1 & Hr2 & Hndt & Hsub).
    assert (Ha : In a (rnodes t)) by (apply (Hin (a, shp)); left; reflexivity).
    destruct (wf_sub_node ket bra t None Hsub a Ha) as (q & cs & Hok).
    pose proof (Hshp (a, shp) (or_introl eq_refl)) as Es. cbn [fst snd] in Es. subst shp.
    destruct (absorb_site_succeeds ket bra q a cs _ Hok eq_refl) as [k1 E1].
    destruct (absorb_site ket bra q a cs _ k1 Hok E1) as (kn & Ekn & Ekn1 & Hoth & Hax1 & Hat1 & Hbn1 & Hroot1 & Hnw1 & Hna1 & (d & Hd1) & Hatab1).
    assert (Hfr0 : next_wire ket <> open_wire bra a).
    { pose proof (Hfresh 0 a) as H0. rewrite Nat.add_0_r in H0. apply H0; [cbn; lia|exact Ha]. }
    assert (Hopen1 : open_wire k1 a = next_wire ket).
    { unfold open_wire. rewrite Hax1, !app_assoc. apply last_app_single. }
    assert (Hother : forall m, m <> a -> t_atoms k1 m = t_atoms ket m /\ t_bnd k1 m = t_bnd ket m /\ open_wire k1 m = open_wire ket m).
    { intros m Hm. destruct (absorb_other ket bra a _ k1 E1 m Hm) as (_ & _ & X1 & X2 & _ & X3). auto. }
    assert (Hwf1 : wf_two k1 bra t).
    { split; [congruence|]. split; [exact Hr2|]. split; [exact Hndt|]. apply (absorb_wf_sub ket bra a _ k1 E1 Hfr0). exact Hsub. }
    inversion Hnd as [|? ? Hnotin Hnd']; subst.
    destruct (IH k1 Hwf1 Hnd') as (k2 & E2 & Hwf2 & A2 & W2 & B2 & O2 & T2).
    { intros o Ho. apply Hin. right. exact Ho. }
    { intros i m Hi Hm. rewrite Hnw1. replace (S (next_wire ket) + i) with (next_wire ket + S i) by lia. apply Hfresh; [cbn; lia|exact Hm]. }
    { intros m Hm. rewrite Hnw1. destruct (Nat.eq_dec m a) as [->|Hma]; [rewrite Hopen1; lia|].
      destruct (Hother m Hma) as (_ & _ & ->). pose proof (Hlt m Hm). lia. }
    { intros o Ho. assert (Hoa : fst o <> a).
      { intros E. apply Hnotin. rewrite <- E. apply in_map. exact Ho. }
      destruct (Hother (fst o) Hoa) as (_ & _ & ->). rewrite (Hshp o (or_intror Ho)).
      assert (Hw : wdim k1 (open_wire ket (fst o)) = wdim ket (open_wire ket (fst o))).
      { unfold wdim. rewrite Hd1, aget_snoc_other; [reflexivity|].
        pose proof (Hlt (fst o) (Hin o (or_intror Ho))). lia. }
      rewrite Hw. reflexivity. }
    exists k2. cbn [tp_apply]. rewrite E1. split; [exact E2|]. split; [exact Hwf2|].
    split; [|split; [|split; [|split]]].
    + assert (X : Permutation (all_atoms k1 bra (rnodes t)) (next_atom ket :: all_atoms ket bra (rnodes t))).
      { apply (flat_map_change (fun m => t_atoms ket m ++ t_atoms bra m) (fun m => t_atoms k1 m ++ t_atoms bra m) a (next_atom ket) (rnodes t) Hndt Ha).
        - intros m Hm. destruct (Hother m Hm) as (-> & _). reflexivity.
        - rewrite Hat1, <- app_assoc. cbn. apply Permutation_sym, Permutation_middle. }
      rewrite A2, Hna1, X. cbn [length seq app]. apply Permutation_middle.
    + rewrite W2. unfold edge_wires. apply flat_map_ext_in. intros m Hm.
      destruct (wf_sub_desc ket bra t None Hsub m Hm) as (q' & cs' & Hok'). rewrite (absorb_up_wire ket bra a _ k1 E1 q' m cs' Hok'). reflexivity.
    + assert (X : Permutation (inner_bnd k1 bra (rnodes t)) (open_wire ket a :: inner_bnd ket bra (rnodes t))).
      { apply (flat_map_change (fun m => t_bnd ket m ++ t_bnd bra m) (fun m => t_bnd k1 m ++ t_bnd bra m) a (open_wire ket a) (rnodes t) Hndt Ha).
        - intros m Hm. destruct (Hother m Hm) as (_ & -> & _). reflexivity.
        - rewrite Hbn1. reflexivity. }
      assert (Em : map (fun o : id * list nat => open_wire k1 (fst o)) rest = map (fun o => open_wire ket (fst o)) rest).
      { apply map_ext_in. intros o Ho. apply Hother. intros E. apply Hnotin. rewrite <- E. apply in_map. exact Ho. }
      rewrite B2, X, Em. cbn [map fst app]. apply Permutation_middle.
    + rewrite O2. apply map_ext_in. intros m Hm. f_equal. unfold factor_index. cbn [map fst index_of].
      destruct (Nat.eqb_spec m a) as [->|Hma].
      * assert (Hnone : index_of a (map fst rest) = None).
        { destruct (index_of a (map fst rest)) as [j|] eqn:Ej; [|reflexivity]. exfalso. apply Hnotin.
          apply index_of_Some in Ej. destruct Ej as [Hj <-]. apply nth_In. exact Hj. }
        rewrite Hnone. rewrite Hopen1. lia.
      * destruct (index_of m (map fst rest)) as [j|]; cbn [option_map]; [rewrite Hnw1; lia|]. apply Hother. exact Hma.
    + rewrite T2, Hatab1, <- app_assoc. f_equal. unfold tp_rows. cbn [length seq combine map fst snd app]. rewrite !Nat.add_0_r.
      f_equal. rewrite <- seq_shift, combine_map_l_local, map_map. apply map_ext_in. intros [i o] Hio. cbn [fst snd].
      rewrite Hna1, Hnw1. f_equal; [lia|]. f_equal; [lia|]. f_equal.
      assert (Ho : In o rest) by (apply in_combine_r in Hio; exact Hio).
      apply Hother. intros E. apply Hnotin. rewrite <- E. apply in_map. exact Ho.
Qed.

(* the conjugated copy, seen through the logical tensors *)
Lemma conj_store_tensor woff aoff s m : wf s -> tensor_of (conj_store woff aoff s) m = option_map (conj_arr woff aoff) (tensor_of s m).
Proof.
  intros W. unfold tensor_of, logical, conj_store. cbn [nodes tensors]. destruct (aget m (nodes s)) as [nd|] eqn:End; [|reflexivity].
  assert (E : forall (l : list (id * sarr)), aget m (map (fun kt => (fst kt, conj_sarr woff aoff (snd kt))) l) = option_map (conj_sarr woff aoff) (aget m l)).
  { induction l as [|[k v] r IH]; [reflexivity|]. cbn. destruct (Nat.eqb m k); [reflexivity|exact IH]. }
  rewrite E. rewrite (wf_tens s m nd W End). cbn. f_equal.
  unfold of_sarr, conj_arr, conj_sarr, s_transpose. cbn. f_equal. unfold permute. rewrite map_map.
  apply map_ext_in. intros i Hi.
  assert (Hl : i < length (axes (tens s m))).
  { pose proof (wf_node s W m nd End) as Hn. pose proof (ni_perm _ _ _ Hn) as Hp. rewrite (ni_shape _ _ _ Hn), map_length in Hp.
    apply (perm_bound _ _ Hp i Hi). }
  rewrite (nth_indep _ 0 (woff + 0)) by (rewrite map_length; exact Hl). apply map_nth.
Qed.

Lemma conj_store_views woff aoff s m nd : wf s -> aget m (nodes s) = Some nd ->
  t_axes (conj_store woff aoff s) m = map (Nat.add woff) (t_axes s m) /\
  t_atoms (conj_store woff aoff s) m = map (Nat.add aoff) (t_atoms s m) /\
  t_bnd (conj_store woff aoff s) m = map (Nat.add woff) (t_bnd s m) /\
  (t_axes s m <> [] -> open_wire (conj_store woff aoff s) m = woff + open_wire s m) /\
  (t_axes s m <> [] -> up_wire (conj_store woff aoff s) m = woff + up_wire s m).
Proof.
  intros W End. unfold open_wire, up_wire, t_axes, t_atoms, t_bnd. rewrite (conj_store_tensor woff aoff s m W).
  unfold tensor_of, logical. rewrite End, (wf_tens s m nd W End). cbn. repeat split; auto.
  - intros Hne. set (L := permute 0 (perm nd) (axes (tens s m))) in *.
    destruct (exists_last Hne) as (l' & x & ->). rewrite map_app. cbn [map]. rewrite !last_app_single. reflexivity.
  - intros Hne. destruct (permute 0 (perm nd) (axes (tens s m))); [exfalso; apply Hne; reflexivity|reflexivity].
Qed.

(* open wires were allocated *)
Lemma wf_open_wire_lt s m nd : wf s -> aget m (nodes s) = Some nd -> t_axes s m <> [] -> open_wire s m < next_wire s.
Proof.
  intros W End Hne. unfold open_wire, t_axes, tensor_of, logical in *. rewrite End, (wf_tens s m nd W End) in *. cbn in *.
  change (permute 0 (perm nd) (axes (tens s m))) with (lax s m nd) in *.
  destruct (exists_last Hne) as (l' & x & E). rewrite E, last_app_single.
  apply (wf_wires s W m (tens s m) x (wf_tens s m nd W End)).
  apply (Permutation_in _ (wf_lax_perm s m nd W End)). rewrite E. apply in_or_app. right. left. reflexivity.
Qed.

(* tensor_product_expectation_value, general path, on every state (one open leg per node) and every product of
   single-site operators on distinct sites: the conjugate copy of the ORIGINAL state on offset wires, each factor a
   fresh atom on (fresh output wire, the site's open wire); the result is the closed network in which the site's open
   wire is bound (it is the factor's input), the factor's output wire is glued to the conjugate copy's open wire, sites
   without a factor have ket and conjugate open wires glued directly, every edge wire of both copies is bound *)
Theorem tp_expectation_closed woff aoff s ops t :
  wf s -> wf_two s (conj_store woff aoff s) t ->
  NoDup (map fst ops) -> (forall o, In o ops -> In (fst o) (rnodes t)) ->
  next_wire s + length ops <= woff ->
  (forall o, In o ops -> snd o = [wdim s (open_wire s (fst o)); wdim s (open_wire s (fst o))]) ->
  let bra := conj_store woff aoff s in
  exists ket g, tp_apply s ops = Some ket /\ tp_expectation woff aoff s ops = Some g /\ gaxes g = [] /\
    Permutation (gatoms g) (all_atoms s bra (rnodes t) ++ seq (next_atom s) (length ops)) /\
    Permutation (gbnd g) (edge_wires s bra (rdesc t) ++ inner_bnd s bra (rnodes t) ++ map (fun o => open_wire s (fst o)) ops) /\
    Permutation (gglue g) (map (tp_pair woff s ops) (rnodes t)) /\
    atab ket = atab s ++ tp_rows s ops.
Proof.
  intros W Hwf Hnd Hin Hoff Hshp bra.
  assert (Hnode : forall m, In m (rnodes t) -> exists nd, aget m (nodes s) = Some nd /\ t_axes s m <> []).
  { intros m Hm. destruct Hwf as (_ & _ & _ & Hsub). destruct (wf_sub_node s bra t None Hsub m Hm) as (q & cs & Hok).
    destruct Hok as (kn & bn & Ekn & _ & _ & _ & _ & _ & _ & Hax & _). exists kn. split; [exact Ekn|].
    rewrite Hax. destruct (opt_list q (up_wire s m)), (map (up_wire s) cs); discriminate. }
  assert (Hbra_open : forall m, In m (rnodes t) -> open_wire bra m = woff + open_wire s m).
  { intros m Hm. destruct (Hnode m Hm) as (nd & End & Hne). apply (conj_store_views woff aoff s m nd W End). exact Hne. }
  destruct (tp_apply_closed bra t ops s Hwf Hnd Hin) as (ket & E & Hwf' & A & Wd & B & O & T).
  { intros i m Hi Hm. rewrite (Hbra_open m Hm). lia. }
  { intros m Hm. destruct (Hnode m Hm) as (nd & End & Hne). apply (wf_open_wire_lt s m nd W End Hne). }
  { exact Hshp. }
  destruct (contract_two_ttns_closed ket bra t Hwf') as (g & Eg & G1 & G2 & G3 & G4).
  exists ket, g. split; [exact E|]. split; [unfold tp_expectation; fold bra; rewrite E; exact Eg|]. split; [exact G1|].
  split; [rewrite G2; exact A|]. split; [rewrite G3, Wd, B; reflexivity|]. split; [|exact T].
  rewrite G4, O. assert (Em : map (fun m => (match factor_index ops m with Some i => next_wire s + i | None => open_wire s m end, open_wire bra m)) (rnodes t)
                             = map (tp_pair woff s ops) (rnodes t)); [|rewrite Em; reflexivity].
  apply map_ext_in. intros m Hm. unfold tp_pair. rewrite (Hbra_open m Hm). destruct (factor_index ops m); reflexivity.
Qed.

(* the checker's hypotheses imply those of the theorem *)
Theorem tp_hyp_closed woff aoff s ops : tp_hyp woff aoff s ops = true ->
  let bra := conj_store woff aoff s in
  exists t ket g, ket_tree s = Some t /\ tp_apply s ops = Some ket /\ tp_expectation woff aoff s ops = Some g /\ gaxes g = [] /\
    Permutation (gatoms g) (all_atoms s bra (rnodes t) ++ seq (next_atom s) (length ops)) /\
    Permutation (gbnd g) (edge_wires s bra (rdesc t) ++ inner_bnd s bra (rnodes t) ++ map (fun o => open_wire s (fst o)) ops) /\
    Permutation (gglue g) (map (tp_pair woff s ops) (rnodes t)) /\
    atab ket = atab s ++ tp_rows s ops.
Proof.
  intros H. cbv zeta. unfold tp_hyp in H. do 4 (apply andb_prop in H; let H' := fresh "H" in destruct H as [H H']).
  pose proof (wfb_wf s H) as W. unfold two_ok in H3. destruct (ket_tree s) as [t|] eqn:Ekt; [|discriminate].
  apply wf_twob_sound in H3. apply cl_nodupb in H2. apply Nat.leb_le in H0.
  destruct (ket_tree_ok s W) as (t' & r & Ekt' & _ & _ & _ & _ & Hperm). rewrite Ekt in Ekt'. injection Ekt' as <-.
  rewrite forallb_forall in H1.
  destruct (tp_expectation_closed woff aoff s ops t W H3 H2) as (ket & g & R).
  - intros o Ho. specialize (H1 o Ho). apply andb_prop in H1. destruct H1 as [H1 _]. apply amem_true in H1.
    apply (Permutation_in _ (Permutation_sym Hperm) H1).
  - exact H0.
  - intros o Ho. specialize (H1 o Ho). apply andb_prop in H1. destruct H1 as [_ H1]. apply list_eqb_eq in H1. exact H1.
  - cbv zeta in R. exists t, ket, g. split; [reflexivity|exact R].
Qed.

(* the empty product is exactly the scalar product of the state with itself *)
Theorem tp_expectation_empty woff aoff s :
  tp_expectation woff aoff s [] = contract_two_ttns s (conj_store woff aoff s) /\
  tp_expectation_value woff aoff s None [] = contract_two_ttns s (conj_store woff aoff s) /\
  forall c, tp_expectation_value woff aoff s (Some c) [] = center_norm woff aoff s c.
Proof. repeat split. Qed.

(* the dispatch of tensor_product_expectation_value: the shortcut is taken exactly for one factor on the recorded centre *)
Theorem tp_expectation_value_dispatch woff aoff s ctr ops :
  tp_expectation_value woff aoff s ctr ops =
  match ops, ctr with
  | [], Some c => center_norm woff aoff s c
  | [(n, _)], Some c => if Nat.eqb c n then center_single_site woff aoff s n else tp_expectation woff aoff s ops
  | _, _ => tp_expectation woff aoff s ops
  end.
Proof.
  destruct ops as [|[n shp] [|o r]]; destruct ctr as [c|]; try reflexivity.
Qed.

(* ================================================================================================================ *)
(* C. the diagrams of the orthogonality-centre shortcuts                                                             *)
(* ================================================================================================================ *)
Lemma combine_shift_filters woff (X : list wire) : 0 < woff ->
  filter (fun q : wire * wire => Nat.eqb (fst q) (snd q)) (combine X (map (Nat.add woff) X)) = [] /\
  filter (fun q : wire * wire => negb (Nat.eqb (fst q) (snd q))) (combine X (map (Nat.add woff) X)) = map (fun w => (w, woff + w)) X.
Proof.
  intros Hw. induction X as [|x r [IH1 IH2]]; [split; reflexivity|]. cbn.
  destruct (Nat.eqb_spec x (woff + x)) as [E|_]; [lia|]. cbn. rewrite IH1, IH2. split; reflexivity.
Qed.

(* scalar_product() at a recorded centre: the centre tensor and its conjugate copy, every leg of the one glued to the
   same leg of the other; nothing else *)
Theorem center_norm_diagram woff aoff s c t : 0 < woff -> logical s c = Some t ->
  center_norm woff aoff s c =
  Some {| gaxes := []; gatoms := atoms t ++ map (Nat.add aoff) (atoms t); gbnd := bnd t ++ map (Nat.add woff) (bnd t);
          gglue := map (fun w => (w, woff + w)) (axes t) |}.
Proof.
  intros Hw Hl. unfold center_norm, tensor_of. rewrite Hl. cbn [option_map of_sarr gaxes].
  rewrite g_tensordot_ok.
  - cbn [gaxes gatoms gbnd gglue of_sarr conj_arr]. rewrite !nth_seq_all.
    assert (E : map (fun i => nth i (map (Nat.add woff) (axes t)) 0) (seq 0 (length (axes t))) = map (Nat.add woff) (axes t)).
    { pose proof (nth_seq_all 0 (map (Nat.add woff) (axes t))) as E. rewrite map_length in E. exact E. }
    unfold wire in *. rewrite E.
    destruct (combine_shift_filters woff (axes t) Hw) as [F1 F2]. unfold wire in *. rewrite F1, F2.
    rewrite !dropfrom_all; [|intros i Hi; apply in_seq; rewrite map_length in Hi; nlia|intros i Hi; apply in_seq; nlia].
    cbn. rewrite app_nil_r. reflexivity.
  - reflexivity.
  - intros i Hi. apply in_seq in Hi. cbn. nlia.
  - intros i Hi. apply in_seq in Hi. cbn. rewrite map_length. nlia.
  - apply seq_NoDup.
  - apply seq_NoDup.
Qed.

(* single_site_operator_expectation_value at the centre: the centre tensor, the operator atom and the conjugate copy;
   the centre's open (last) leg meets the operator's INPUT leg (axis 1), the operator's output leg meets the conjugate
   copy's open leg, every virtual leg meets its twin *)
Theorem center_single_site_diagram woff aoff s c t X o : 0 < woff -> logical s c = Some t -> axes t = X ++ [o] ->
  S (next_wire s) <> o -> next_wire s <> woff + o ->
  center_single_site woff aoff s c =
  Some {| gaxes := []; gatoms := (atoms t ++ [next_atom s]) ++ map (Nat.add aoff) (atoms t);
          gbnd := bnd t ++ map (Nat.add woff) (bnd t);
          gglue := (map (fun w => (w, woff + w)) X ++ [(next_wire s, woff + o)]) ++ [(o, S (next_wire s))] |}.
Proof.
  intros Hw Hl Hax Hwi Hwo. unfold center_single_site, tensor_of. rewrite Hl. cbn [option_map of_sarr gaxes].
  rewrite Hax, app_length. cbn [length]. replace (length X + 1 - 1) with (length X) by lia.
  rewrite g_tensordot_ok; [|reflexivity|intros i [<-|[]]; cbn; rewrite Hax, app_length; cbn; nlia|intros i [<-|[]]; cbn; nlia
                           |constructor; [intros []|constructor]|constructor; [intros []|constructor]].
  cbn [gaxes gatoms gbnd gglue of_sarr op_arr map combine nth]. rewrite Hax, nth_mid. cbn [filter fst snd].
  destruct (Nat.eqb_spec o (S (next_wire s))) as [E|_]; [congruence|]. cbn [negb map app].
  rewrite dropfrom_single. cbn [dropfrom memb existsb Nat.eqb orb]. rewrite app_nil_r.
  rewrite g_tensordot_ok.
  - cbn [gaxes gatoms gbnd gglue conj_arr of_sarr]. rewrite Hax.
    replace (length X + 1) with (length (X ++ [next_wire s])) by (rewrite app_length; reflexivity).
    rewrite nth_seq_all.
    replace (length (X ++ [next_wire s])) with (length (map (Nat.add woff) (X ++ [o]))) by (rewrite map_length, !app_length; reflexivity).
    rewrite nth_seq_all.
    rewrite !dropfrom_all; [|intros i Hi; apply in_seq; nlia|intros i Hi; apply in_seq; rewrite map_length, !app_length in *; cbn in *; nlia].
    rewrite map_app. cbn [map].
    assert (F : forall Y : list wire,
               filter (fun q : wire * wire => Nat.eqb (fst q) (snd q)) (combine (Y ++ [next_wire s]) (map (Nat.add woff) Y ++ [woff + o])) = [] /\
               filter (fun q : wire * wire => negb (Nat.eqb (fst q) (snd q))) (combine (Y ++ [next_wire s]) (map (Nat.add woff) Y ++ [woff + o]))
               = map (fun w => (w, woff + w)) Y ++ [(next_wire s, woff + o)]).
    { induction Y as [|y r [I1 I2]]; cbn.
      - destruct (Nat.eqb_spec (next_wire s) (woff + o)); [contradiction|]. split; reflexivity.
      - destruct (Nat.eqb_spec y (woff + y)); [nlia|]. cbn. rewrite I1, I2. split; reflexivity. }
    destruct (F X) as [F1 F2]. unfold wire in *. rewrite F1, F2. cbn [app map fst]. rewrite !app_nil_r. reflexivity.
  - cbn. rewrite !seq_length. reflexivity.
  - intros i Hi. apply in_seq in Hi. cbn. rewrite app_length. cbn. nlia.
  - intros i Hi. apply in_seq in Hi. cbn. rewrite map_length, Hax, app_length. cbn. nlia.
  - apply seq_NoDup.
  - apply seq_NoDup.
Qed.
