(* Model of the effective Hamiltonians of the TDVP classes at the diagram level (property C05):
     pytreenet/contractions/sandwich_caching.py      update_tree_cache = contract_any(node, next, state, hamiltonian, cache)
     pytreenet/contractions/effective_hamiltonians.py contract_all_except_node + find_tensor_leg_permutation
     pytreenet/time_evolution/tdvp_algorithms/onesitetdvp.py _get_effective_link_hamiltonian
   on top of the symbolic arrays of Contr/Blocks.v (one wire per axis, tensordot binds equal wires and records
   glued pairs, the conjugated copy has offset wires / atoms).

   env_block      the environment block (sandwich cache entry) of a node towards ANY neighbour, every block it
                  is built from being fresh: the recursion of contract_any over the tree re-rooted at the target
   heff_site      the tensor handed to tensor_matricisation_half by get_effective_single_site_hamiltonian
   heff_link      the tensor of _get_effective_link_hamiltonian before the matricisation
   heff_expected  the <psi|H|psi> network with the ket tensor of n and its conjugate twin removed
   heff_ok        executable comparison of heff_site with heff_expected
   wf_heff(b)     hypothesis of the universal theorem (HeffProofs.v) and its executable checker
   Definitions only. *)
From Coq Require Import List Arith Bool Permutation NArith.
From PTN Require Import TTN.Store Contr.Blocks Contr.Closed.
Import ListNotations.

(* ---- neighbours ------------------------------------------------------------------------------------------ *)
Definition others (next : id) (l : list id) : list id := filter (fun c => negb (Nat.eqb c next)) l.
Definition others_opt (p : option id) (l : list id) : list id := match p with Some q => others q l | None => l end.
Definition nbs (s : store) (n : id) : list id :=
  match aget n (nodes s) with Some nd => neighbouring_nodes nd | None => [] end.

(* the wire on the leg of a that points to its neighbour b *)
Definition ewire (s : store) (a b : id) : wire :=
  match aget a (nodes s) with
  | Some nd => match neighbour_index nd b with Some i => nth i (t_axes s a) 0 | None => 0 end
  | None => 0
  end.

(* ---- (a) the sandwich cache entry (n -> next) ----------------------------------------------------------------- *)
(* contract_any_node_environment_but_one takes the leaf branch when the KET node has no children (then its only
   neighbour is its parent, which is `next`); otherwise every neighbour other than `next` (children AND parent)
   contributes its own block towards n.  fuel = number of nodes. *)
Fixpoint env_block (fuel : nat) (woff aoff : nat) (ket op : store) (n next : id) : option garr :=
  match fuel with
  | O => None
  | S f =>
      match aget n (nodes ket), aget n (nodes op), tensor_of ket n, tensor_of op n with
      | Some kn, Some on, Some kt, Some ot =>
          let bt := conj_arr woff aoff kt in
          match children kn with
          | [] => sandwich_leaf kt ot bt kn on kn
          | _ =>
              match all_some (map (fun c => option_map (fun b => (c, b)) (env_block f woff aoff ket op c n))
                                  (others next (neighbouring_nodes kn))) with
              | None => None
              | Some blocks => sandwich_subtree kt ot bt kn on kn next blocks
              end
          end
      | _, _, _, _ => None
      end
  end.

(* ---- (b) the effective site Hamiltonian -------------------------------------------------------------------------- *)
(* np.transpose(a, axes=p): p must be a permutation of range(ndim) *)
Definition g_transpose (p : list nat) (a : garr) : option garr :=
  if Nat.eqb (length p) (length (gaxes a)) && is_perm_of_seq p then
    Some {| gaxes := map (fun i => nth i (gaxes a) 0) p; gatoms := gatoms a; gbnd := gbnd a; gglue := gglue a |}
  else None.

(* the loop of contract_all_except_node: tensordot(hamiltonian_tensor, cached_tensor, axes=(0,1)) for the
   neighbours of the HAMILTONIAN node in its own order *)
Definition ham_step (blocks : list (id * garr)) (acc : option garr) (nb : id) : option garr :=
  match acc with
  | None => None
  | Some h => match aget nb blocks with Some blk => g_tensordot h blk [0] [1] | None => None end
  end.

(* find_tensor_leg_permutation *)
Definition heff_site_perm (kn on : node) : option (list nat) :=
  match all_some (map (neighbour_index on) (neighbouring_nodes kn)) with
  | Some perm => Some (map (fun i => 2 * i + 3) perm ++ [0] ++ map (fun i => 2 * i + 2) perm ++ [1])
  | None => None
  end.

Definition heff_site_with (kn on : node) (ot : garr) (blocks : list (id * garr)) : option garr :=
  match fold_left (ham_step blocks) (neighbouring_nodes on) (Some ot), heff_site_perm kn on with
  | Some h, Some p => g_transpose p h
  | _, _ => None
  end.

Definition heff_site (woff aoff : nat) (ket op : store) (n : id) : option garr :=
  match aget n (nodes ket), aget n (nodes op), tensor_of op n with
  | Some kn, Some on, Some ot =>
      match all_some (map (fun c => option_map (fun b => (c, b)) (env_block (length (nodes ket)) woff aoff ket op c n))
                          (neighbouring_nodes on)) with
      | None => None
      | Some blocks => heff_site_with kn on ot blocks
      end
  | _, _, _ => None
  end.

(* ---- (c) the effective link Hamiltonian ----------------------------------------------------------------------------- *)
(* _get_effective_link_hamiltonian(node_id = a, next_node_id = b) while the STATE holds the link node l between a and
   b (the operator has no such node: a and b are neighbours there).  The two blocks facing each other across the
   edge are contracted over their operator legs and transposed to (bra legs, ket legs); the side of the link's parent
   comes first.  Blocks are the fresh ones of the stores given: block (a -> b) is what _update_cache_after_split
   stores, contract_any(a, l, ...); block (b -> a) was cached while b's neighbour was still a, and has the value of
   contract_any(b, l, ...) as long as nothing behind b changed. *)
Definition heff_link (woff aoff : nat) (ket op : store) (a b l : id) : option garr :=
  match aget l (nodes ket) with
  | Some ln =>
      match parent ln, children ln with
      | Some _, [_] =>                                   (* assert not is_root; assert len(children) == 1 *)
          match env_block (length (nodes ket)) woff aoff ket op a l, env_block (length (nodes ket)) woff aoff ket op b l with
          | Some ea, Some eb =>
              match (if memb a (children ln) then g_tensordot eb ea [1] [1] else g_tensordot ea eb [1] [1]) with
              | Some t => g_transpose [1; 3; 0; 2] t
              | None => None
              end
          | _, _ => None
          end
      | _, _ => None
      end
  | None => None
  end.

(* ---- the tree re-rooted at a node, read off a store ----------------------------------------------------------------- *)
Fixpoint tree_from (fuel : nat) (s : store) (p : option id) (n : id) : option rt :=
  match fuel with
  | O => None
  | S f => match aget n (nodes s) with
           | Some nd => option_map (RN n) (all_some (map (tree_from f s (Some n)) (others_opt p (neighbouring_nodes nd))))
           | None => None
           end
  end.

Definition tree_at (s : store) (n : id) : option rt := tree_from (S (length (nodes s))) s None n.

(* the directed edges (node, neighbour towards p) of a subtree hanging below p *)
Fixpoint redges (p : id) (t : rt) : list (id * id) :=
  match t with RN n cs => (n, p) :: flat_map (redges n) cs end.
(* edges strictly inside a subtree / edges of the whole tree that are not incident to its root *)
Definition sub_edges (t : rt) : list (id * id) := flat_map (redges (rid t)) (rcs t).
Definition far_edges (t : rt) : list (id * id) := flat_map sub_edges (rcs t).

(* the three wires of a tree edge: ket, operator, conjugate copy *)
Definition edge3 (woff : nat) (ket op : store) (e : id * id) : list wire :=
  [ewire ket (fst e) (snd e); ewire op (fst e) (snd e); woff + ewire ket (fst e) (snd e)].

(* ---- the expected diagram: E^dagger H E ------------------------------------------------------------------------------- *)
(* t is the tree re-rooted at n.  Legs: bra-side legs in the STATE's neighbour order, operator output; then ket-side
   legs in the state's neighbour order, operator input. *)
Definition heff_axes (woff : nat) (ket op : store) (n : id) : list wire :=
  map (fun m => woff + ewire ket n m) (nbs ket n) ++ [out_wire op n] ++ map (ewire ket n) (nbs ket n) ++ [in_wire op n].
(* all operator atoms; all ket atoms and conjugate copies except those of n *)
Definition heff_atoms (aoff : nat) (ket op : store) (t : rt) : list nat :=
  t_atoms op (rid t) ++ all_atoms3 aoff ket op (rdesc t).
(* bound: the operator's wires at n; all three wires of every edge not incident to n; whatever was bound inside
   the tensors.  The ket's and the conjugate copy's wires at n are NOT bound: they are axes. *)
Definition heff_bnd (woff : nat) (ket op : store) (t : rt) : list wire :=
  map (ewire op (rid t)) (map rid (rcs t)) ++ flat_map (edge3 woff ket op) (far_edges t) ++
  t_bnd op (rid t) ++ inner_bnd3 woff ket op (rdesc t).
Definition heff_glue (woff : nat) (ket op : store) (t : rt) : list (wire * wire) := open_pairs3 woff ket op (rdesc t).

Definition heff_expected (woff aoff : nat) (ket op : store) (t : rt) :=
  (heff_axes woff ket op (rid t), heff_atoms aoff ket op t, heff_bnd woff ket op t, heff_glue woff ket op t).

(* what "g is the diagram e" means: axes exactly, atoms / bound wires / glued pairs as multisets *)
Definition diagram_is (g : garr) (e : list wire * list nat * list wire * list (wire * wire)) : Prop :=
  let '(ax, at_, bd, gl) := e in
  gaxes g = ax /\ Permutation (gatoms g) at_ /\ Permutation (gbnd g) bd /\ Permutation (gglue g) gl.

Definition pair_eqb (a b : nat * nat) : bool := Nat.eqb (fst a) (fst b) && Nat.eqb (snd a) (snd b).
Fixpoint plist_eqb (a b : list (nat * nat)) : bool :=
  match a, b with
  | [], [] => true
  | x :: a', y :: b' => pair_eqb x y && plist_eqb a' b'
  | _, _ => false
  end.

(* the result of heff_site is the expected diagram (axes exactly, the three multisets up to order) *)
Definition diagram_matches (g : garr) (e : list wire * list nat * list wire * list (wire * wire)) : bool :=
  let '(ax, at_, bd, gl) := e in
  list_eqb (gaxes g) ax && list_eqb (sort_nat (gatoms g)) (sort_nat at_) &&
  list_eqb (sort_nat (gbnd g)) (sort_nat bd) && plist_eqb (sort_pairs (gglue g)) (sort_pairs gl).

Definition heff_ok (woff aoff : nat) (ket op : store) (n : id) : bool :=
  match tree_at ket n, heff_site woff aoff ket op n with
  | Some t, Some g => diagram_matches g (heff_expected woff aoff ket op t)
  | _, _ => false
  end.

(* the expected diagram of the link Hamiltonian of the edge a - b carried by the link node l: everything on both sides
   complete, the edge's operator wire bound, axes = (conjugate copies of the link tensor's legs, the link tensor's
   legs) in the link tensor's own leg order *)
Definition link_ok (woff aoff : nat) (ket op : store) (a b l : id) : bool :=
  match tree_from (S (length (nodes ket))) ket (Some l) a, tree_from (S (length (nodes ket))) ket (Some l) b, heff_link woff aoff ket op a b l with
  | Some ta, Some tb, Some g =>
      let ns := rnodes ta ++ rnodes tb in
      Nat.eqb (ewire ket a l) (ewire ket l a) && Nat.eqb (ewire ket b l) (ewire ket l b) &&
      Nat.eqb (ewire op a b) (ewire op b a) &&
      diagram_matches g
        (map (Nat.add woff) (t_axes ket l) ++ t_axes ket l,
         all_atoms3 aoff ket op ns,
         ewire op a b :: flat_map (edge3 woff ket op) (sub_edges ta ++ sub_edges tb) ++ inner_bnd3 woff ket op ns,
         open_pairs3 woff ket op ns)
  | _, _, _ => false
  end.

(* ---- well-formedness: state and operator over the same tree, seen from the target ------------------------------------ *)
Section WFE.
  Variables (woff : nat) (ket op : store).

  (* node n, whose neighbour towards the target is p (None: n is the target), the other neighbours being cs in the
     ket's order: same neighbours in the operator in ANY order; legs = (neighbour legs in the node's own order, open
     legs); both ends of every edge to cs carry the same wire; the open wires are different wires *)
  Definition node_okE (p : option id) (n : id) (cs : list id) : Prop :=
    exists kn on,
      aget n (nodes ket) = Some kn /\ aget n (nodes op) = Some on /\
      NoDup (neighbouring_nodes kn) /\
      Permutation (neighbouring_nodes on) (neighbouring_nodes kn) /\
      match p with Some q => In q (neighbouring_nodes kn) | None => True end /\
      cs = others_opt p (neighbouring_nodes kn) /\
      t_axes ket n = map (ewire ket n) (neighbouring_nodes kn) ++ [open_wire ket n] /\
      t_axes op n = map (ewire op n) (neighbouring_nodes on) ++ [out_wire op n; in_wire op n] /\
      (forall c, In c cs -> ewire ket c n = ewire ket n c /\ ewire op c n = ewire op n c) /\
      open_wire ket n <> in_wire op n /\
      out_wire op n <> woff + open_wire ket n.

  Inductive wf_env : option id -> rt -> Prop :=
  | wf_env_intro p n cs :
      node_okE p n (map rid cs) ->
      (forall c, In c cs -> wf_env (Some n) c) ->
      wf_env p (RN n cs).

  (* t is the tree re-rooted at the target rid t *)
  Definition wf_heff (t : rt) : Prop := NoDup (rnodes t) /\ wf_env None t.
End WFE.

Definition node_okEb (woff : nat) (ket op : store) (p : option id) (n : id) (cs : list id) : bool :=
  match aget n (nodes ket), aget n (nodes op) with
  | Some kn, Some on =>
      nodupb (neighbouring_nodes kn) &&
      perm_of_nodupb (neighbouring_nodes on) (neighbouring_nodes kn) &&
      match p with Some q => memb q (neighbouring_nodes kn) | None => true end &&
      list_eqb cs (others_opt p (neighbouring_nodes kn)) &&
      list_eqb (t_axes ket n) (map (ewire ket n) (neighbouring_nodes kn) ++ [open_wire ket n]) &&
      list_eqb (t_axes op n) (map (ewire op n) (neighbouring_nodes on) ++ [out_wire op n; in_wire op n]) &&
      forallb (fun c => Nat.eqb (ewire ket c n) (ewire ket n c) && Nat.eqb (ewire op c n) (ewire op n c)) cs &&
      negb (Nat.eqb (open_wire ket n) (in_wire op n)) &&
      negb (Nat.eqb (out_wire op n) (woff + open_wire ket n))
  | _, _ => false
  end.

Fixpoint wf_envb (woff : nat) (ket op : store) (p : option id) (t : rt) : bool :=
  match t with RN n cs => node_okEb woff ket op p n (map rid cs) && forallb (wf_envb woff ket op (Some n)) cs end.

Definition wf_heffb (woff : nat) (ket op : store) (n : id) : bool :=
  match tree_at ket n with
  | Some t => Nat.eqb (rid t) n && nodupb (rnodes t) && wf_envb woff ket op None t
  | None => false
  end.

(* ---- well-formedness for a link update: the state holds the link node l between a and b, the operator does not ----------- *)
Section WFL.
  Variables (woff : nat) (ket op : store).

  (* an end n of the edge: its ket neighbour towards the other end is the link node l, its operator neighbour is the
     other end m itself; the remaining neighbours cs (ket order) are the same in both, in independent orders *)
  Definition node_okL (l m n : id) (cs : list id) : Prop :=
    exists kn on pre post,
      aget n (nodes ket) = Some kn /\ aget n (nodes op) = Some on /\
      neighbouring_nodes kn = pre ++ l :: post /\
      NoDup (pre ++ l :: post) /\
      Permutation (neighbouring_nodes on) (m :: pre ++ post) /\
      NoDup (m :: pre ++ post) /\
      cs = pre ++ post /\
      t_axes ket n = map (ewire ket n) (neighbouring_nodes kn) ++ [open_wire ket n] /\
      t_axes op n = map (ewire op n) (neighbouring_nodes on) ++ [out_wire op n; in_wire op n] /\
      (forall c, In c cs -> ewire ket c n = ewire ket n c /\ ewire op c n = ewire op n c) /\
      open_wire ket n <> in_wire op n /\
      out_wire op n <> woff + open_wire ket n.

  Definition wf_end (l m : id) (t : rt) : Prop :=
    node_okL l m (rid t) (map rid (rcs t)) /\ forall c, In c (rcs t) -> wf_env woff ket op (Some (rid t)) c.

  (* ta / tb: what lies behind a / b seen from the link node; the link node is not the root, has one child, two legs
     and no open leg; a, b are its parent and child in either order *)
  Definition wf_link (a b l : id) (ta tb : rt) : Prop :=
    rid ta = a /\ rid tb = b /\ NoDup (rnodes ta ++ rnodes tb) /\
    wf_end l b ta /\ wf_end l a tb /\
    (exists ln q c, aget l (nodes ket) = Some ln /\ parent ln = Some q /\ children ln = [c] /\
                    ((q = a /\ c = b) \/ (q = b /\ c = a)) /\
                    t_axes ket l = [ewire ket l q; ewire ket l c]) /\
    ewire ket a l = ewire ket l a /\ ewire ket b l = ewire ket l b /\ ewire op a b = ewire op b a.
End WFL.

Definition node_okLb (woff : nat) (ket op : store) (l m n : id) (cs : list id) : bool :=
  match aget n (nodes ket), aget n (nodes op) with
  | Some kn, Some on =>
      nodupb (neighbouring_nodes kn) && memb l (neighbouring_nodes kn) &&
      perm_of_nodupb (neighbouring_nodes on) (m :: others l (neighbouring_nodes kn)) &&
      nodupb (m :: others l (neighbouring_nodes kn)) &&
      list_eqb cs (others l (neighbouring_nodes kn)) &&
      list_eqb (t_axes ket n) (map (ewire ket n) (neighbouring_nodes kn) ++ [open_wire ket n]) &&
      list_eqb (t_axes op n) (map (ewire op n) (neighbouring_nodes on) ++ [out_wire op n; in_wire op n]) &&
      forallb (fun c => Nat.eqb (ewire ket c n) (ewire ket n c) && Nat.eqb (ewire op c n) (ewire op n c)) cs &&
      negb (Nat.eqb (open_wire ket n) (in_wire op n)) &&
      negb (Nat.eqb (out_wire op n) (woff + open_wire ket n))
  | _, _ => false
  end.

Definition wf_endb (woff : nat) (ket op : store) (l m : id) (t : rt) : bool :=
  node_okLb woff ket op l m (rid t) (map rid (rcs t)) && forallb (wf_envb woff ket op (Some (rid t))) (rcs t).

Definition wf_linkb (woff : nat) (ket op : store) (a b l : id) : bool :=
  match tree_from (S (length (nodes ket))) ket (Some l) a, tree_from (S (length (nodes ket))) ket (Some l) b, aget l (nodes ket) with
  | Some ta, Some tb, Some ln =>
      Nat.eqb (rid ta) a && Nat.eqb (rid tb) b && nodupb (rnodes ta ++ rnodes tb) &&
      wf_endb woff ket op l b ta && wf_endb woff ket op l a tb &&
      match parent ln, children ln with
      | Some q, [c] =>
          ((Nat.eqb q a && Nat.eqb c b) || (Nat.eqb q b && Nat.eqb c a)) &&
          list_eqb (t_axes ket l) [ewire ket l q; ewire ket l c]
      | _, _ => false
      end &&
      Nat.eqb (ewire ket a l) (ewire ket l a) && Nat.eqb (ewire ket b l) (ewire ket l b) && Nat.eqb (ewire op a b) (ewire op b a)
  | _, _, _ => false
  end.

Definition link_expected (woff aoff : nat) (ket op : store) (a b l : id) (ta tb : rt) :=
  (map (Nat.add woff) (t_axes ket l) ++ t_axes ket l,
   all_atoms3 aoff ket op (rnodes ta ++ rnodes tb),
   ewire op a b :: flat_map (edge3 woff ket op) (sub_edges ta ++ sub_edges tb) ++ inner_bnd3 woff ket op (rnodes ta ++ rnodes tb),
   open_pairs3 woff ket op (rnodes ta ++ rnodes tb)).

(* ---- what the harness evaluates per observed update -------------------------------------------------------------------- *)
(* results are printed as binary numbers (printing unary numerals of the size of the offsets is slow) *)
Definition nlist (l : list nat) : list N := map N.of_nat l.
Definition summary_n (g : garr) :=
  let '(ax, at_, bd, gl) := summary g in
  (nlist ax, nlist at_, nlist bd, map (fun p : nat * nat => (N.of_nat (fst p), N.of_nat (snd p))) gl).
Definition atab_n (s : store) := map (fun p : nat * list wire => (N.of_nat (fst p), nlist (snd p))) (atab s).
Definition all_true (l : list bool) : bool := forallb (fun b => b) l.

(* stores rebuilt from the current state / TTNO (operator at offsets ooff / oaoff as in Blocks.three_case) *)
Definition heff_case (kops oops : list op) (ooff oaoff woff aoff : nat) (n : id) :=
  let rk := run empty_store kops in
  let ro := run (store_at ooff oaoff) oops in
  let ket := fst rk in
  let op := fst ro in
  (all_true (snd rk) && all_true (snd ro),
   wf_heffb woff ket op n, heff_ok woff aoff ket op n,
   option_map summary_n (heff_site woff aoff ket op n), atab_n ket, atab_n op).

Definition link_case (kops oops : list op) (ooff oaoff woff aoff : nat) (a b l : id) :=
  let rk := run empty_store kops in
  let ro := run (store_at ooff oaoff) oops in
  let ket := fst rk in
  let op := fst ro in
  (all_true (snd rk) && all_true (snd ro),
   wf_linkb woff ket op a b l, link_ok woff aoff ket op a b l,
   option_map summary_n (heff_link woff aoff ket op a b l), atab_n ket, atab_n op).
