(* Universal theorem about Contr/Heff2.v: for every tree, every adjacent pair (either one the parent), independent
   neighbour orders of state and operator and any order of the two-site node's neighbours, the two-site effective
   Hamiltonian built from fresh environment blocks is the <psi|H|psi> network with the two ket atoms of the pair and
   their conjugate twins removed, rows = conjugate-side legs, columns = ket-side legs, in the leg order of the two-site
   tensor. *)
From Coq Require Import List Arith Bool Lia Permutation.
From PTN Require Import TTN.Store Contr.Blocks Contr.BlocksProofs Contr.Closed Contr.ClosedProofs Contr.Heff Contr.HeffProofs Contr.Heff2.
Import ListNotations.

(* ---- one step of contract_all_but_one_neighbour_block_to_hamiltonian: axis |fixed| of r against axis 1 of a block -------------- *)
Lemma g_tensordot_single1 r blk fixed y tl a b :
  gaxes r = fixed ++ y :: tl -> gaxes blk = [a; y; b] ->
  g_tensordot r blk [length fixed] [1] =
  Some {| gaxes := fixed ++ tl ++ [a; b]; gatoms := gatoms r ++ gatoms blk;
          gbnd := y :: gbnd r ++ gbnd blk; gglue := gglue r ++ gglue blk |}.
Proof.
  intros Hr Hb. rewrite g_tensordot_ok.
  - rewrite Hr, Hb. rewrite dropfrom_single. cbn [map combine]. rewrite nth_mid. cbn [nth filter fst snd].
    rewrite Nat.eqb_refl. cbn [negb map fst app]. cbn [dropfrom memb existsb Nat.eqb orb].
    rewrite <- app_assoc. reflexivity.
  - reflexivity.
  - intros i [<-|[]]. rewrite Hr, app_length. cbn. lia.
  - intros i [<-|[]]. rewrite Hb. cbn. lia.
  - constructor; [intros []|constructor].
  - constructor; [intros []|constructor].
Qed.

(* one phase of the loop: the neighbours in l all lie on the same side of `next` *)
Lemma hab_phase on next blocks inext a (w y x : id -> wire) (blk : id -> garr) l :
  neighbour_index on next = Some inext ->
  (forall nb, In nb l ->
     nb <> next /\
     (exists inb, neighbour_index on nb = Some inb /\ inb <> inext /\ (if Nat.ltb inext inb then 1 else 0) = a) /\
     aget nb blocks = Some (blk nb) /\ gaxes (blk nb) = [w nb; y nb; x nb]) ->
  forall r fixed rest, length fixed = a -> gaxes r = fixed ++ map y l ++ rest ->
  exists r', fold_left (hab_step on next blocks) l (Some r) = Some r' /\
     gaxes r' = fixed ++ rest ++ flat_map (fun nb => [w nb; x nb]) l /\
     gatoms r' = gatoms r ++ flat_map (fun nb => gatoms (blk nb)) l /\
     gbnd r' = rev (map y l) ++ gbnd r ++ flat_map (fun nb => gbnd (blk nb)) l /\
     gglue r' = gglue r ++ flat_map (fun nb => gglue (blk nb)) l.
Proof.
  intros Hnext. induction l as [|nb l IH]; intros H r fixed rest Hfix Hax.
  - exists r. cbn in *. rewrite !app_nil_r. auto.
  - destruct (H nb (or_introl eq_refl)) as (Hne & (inb & Hinb & Hneq & Ha) & Hblk & Hbax).
    cbn [fold_left]. unfold hab_step at 2.
    destruct (Nat.eqb_spec nb next) as [E|_]; [contradiction|].
    rewrite Hinb, Hnext, Hblk. destruct (Nat.eqb_spec inb inext) as [E|_]; [contradiction|].
    rewrite Ha, <- Hfix.
    cbn [map app] in Hax.
    rewrite (g_tensordot_single1 r (blk nb) fixed (y nb) (map y l ++ rest) (w nb) (x nb) Hax Hbax).
    match goal with |- context [fold_left _ l (Some ?rr)] => set (r1 := rr) end.
    destruct (IH (fun nb' Hin => H nb' (or_intror Hin)) r1 fixed (rest ++ [w nb; x nb]) Hfix) as (r' & Hf & H1 & H2 & H3 & H4).
    { subst r1. cbn [gaxes]. rewrite <- app_assoc. reflexivity. }
    exists r'. split; [exact Hf|]. subst r1. cbn [gaxes gatoms gbnd gglue] in *.
    rewrite H1, H2, H3, H4. cbn [flat_map map rev]. rewrite <- !app_assoc. cbn [app]. rewrite <- !app_assoc. auto.
Qed.

(* the operator tensor has its virtual legs in neighbouring_nodes order (wires y), then `rest` (output, input); every
   neighbour nb other than `next` has a block with legs (ket w, operator y, conjugate x).  The loop succeeds; the result
   has the leg to `next`, then `rest`, then (w, x) per neighbour in the operator's order; it binds exactly the
   operator wires to the contracted neighbours and glues nothing. *)
Theorem ham_all_but_one_axes ot on next blocks (w y x : id -> wire) (blk : id -> garr) yj rest pre post :
  neighbouring_nodes on = pre ++ next :: post ->
  NoDup (pre ++ next :: post) ->
  gaxes ot = map y pre ++ yj :: map y post ++ rest ->
  (forall nb, In nb (pre ++ post) -> aget nb blocks = Some (blk nb) /\ gaxes (blk nb) = [w nb; y nb; x nb]) ->
  exists r, ham_all_but_one ot on next blocks = Some r /\
    gaxes r = yj :: rest ++ flat_map (fun nb => [w nb; x nb]) (pre ++ post) /\
    gatoms r = gatoms ot ++ flat_map (fun nb => gatoms (blk nb)) (pre ++ post) /\
    gbnd r = rev (map y (pre ++ post)) ++ gbnd ot ++ flat_map (fun nb => gbnd (blk nb)) (pre ++ post) /\
    gglue r = gglue ot ++ flat_map (fun nb => gglue (blk nb)) (pre ++ post).
Proof.
  intros Hnbs Hnd Hax Hblk.
  destruct (NoDup_mid_notin _ _ _ Hnd) as (Hnpre & Hnpost & Hnd').
  assert (Hnext : neighbour_index on next = Some (length pre)).
  { rewrite neighbour_index_nbs, Hnbs. apply idx_mid. exact Hnpre. }
  unfold ham_all_but_one. rewrite Hnbs, fold_left_app.
  destruct (hab_phase on next blocks (length pre) 0 w y x blk pre Hnext) with (r := ot) (fixed := @nil wire)
    (rest := yj :: map y post ++ rest) as (r1 & Hf1 & A1 & B1 & C1 & D1).
  { intros nb Hin. split; [intros ->; contradiction|]. split.
    - destruct (idx_app_in nb pre (next :: post) Hin) as (i & Ei & Hi).
      exists i. rewrite neighbour_index_nbs, Hnbs. split; [exact Ei|]. unfold id in *. split; [lia|].
      destruct (Nat.ltb_spec (length pre) i); [lia|reflexivity].
    - apply Hblk. apply in_or_app. left. exact Hin. }
  { reflexivity. }
  { cbn [app]. exact Hax. }
  rewrite Hf1. cbn [fold_left]. unfold hab_step at 2. rewrite Nat.eqb_refl.
  destruct (hab_phase on next blocks (length pre) 1 w y x blk post Hnext) with (r := r1) (fixed := [yj])
    (rest := rest ++ flat_map (fun nb => [w nb; x nb]) pre) as (r2 & Hf2 & A2 & B2 & C2 & D2).
  { intros nb Hin. split; [intros ->; contradiction|]. split.
    - assert (Hnp : ~ In nb pre).
      { intros Hp. apply NoDup_remove_1 in Hnd. revert Hnd Hp Hin. clear. intros Hnd Hp Hin.
        induction pre as [|z t IH]; [destruct Hp|]. cbn in Hnd. inversion Hnd as [|? ? Hni Hnd']; subst.
        destruct Hp as [->|Hp]; [apply Hni; apply in_or_app; right; exact Hin|apply IH; assumption]. }
      destruct (idx_in nb post Hin) as [i Ei].
      exists (length pre + S i). rewrite neighbour_index_nbs, Hnbs. rewrite idx_app_notin by exact Hnp. cbn [index_of].
      destruct (Nat.eqb_spec nb next) as [->|_]; [contradiction|]. rewrite Ei. cbn [option_map]. unfold id in *. split; [reflexivity|]. split; [lia|].
      destruct (Nat.ltb_spec (length pre) (length pre + S i)); [reflexivity|lia].
    - apply Hblk. apply in_or_app. right. exact Hin. }
  { reflexivity. }
  { rewrite A1. cbn [app]. rewrite <- !app_assoc. reflexivity. }
  exists r2. split; [exact Hf2|]. rewrite A2, B2, C2, D2, B1, C1, D1.
  rewrite !flat_map_app, map_app, rev_app_distr. cbn [app]. rewrite <- !app_assoc. auto.
Qed.

(* ---- the transposition of _determine_two_site_leg_permutation ------------------------------------------------------------------- *)
(* legs laid out in pairs *)
Definition flat2 (MP : list (wire * wire)) : list wire := flat_map (fun pr => [fst pr; snd pr]) MP.

Lemma flat2_nth MP : forall i d, i < length MP ->
  nth (2 * i) (flat2 MP) 0 = fst (nth i MP d) /\ nth (S (2 * i)) (flat2 MP) 0 = snd (nth i MP d).
Proof.
  induction MP as [|a t IH]; intros i d Hi; cbn in Hi; [lia|].
  destruct i as [|i]; [split; reflexivity|].
  replace (2 * S i) with (S (S (2 * i))) by lia. unfold flat2. cbn [flat_map app nth]. apply IH. lia.
Qed.

Lemma flat2_length MP : length (flat2 MP) = 2 * length MP.
Proof. unfold flat2. induction MP as [|a t IH]; cbn [flat_map length app]; [reflexivity|]. rewrite IH. lia. Qed.

Definition slot_perm (Q1 Q2 : list nat) : list nat :=
  map (fun q => S (2 * q)) Q1 ++ map (fun q => 2 * q) Q2 ++ map (fun q => 2 * q) Q1 ++ map (fun q => S (2 * q)) Q2.

Lemma slot_perm_valid Q1 Q2 m :
  NoDup (Q1 ++ Q2) -> (forall q, In q (Q1 ++ Q2) -> q < m) -> length (Q1 ++ Q2) = m ->
  length (slot_perm Q1 Q2) = 2 * m /\ is_perm_of_seq (slot_perm Q1 Q2) = true.
Proof.
  intros Hnd Hlt Hlen.
  assert (Hl : length (slot_perm Q1 Q2) = 2 * m).
  { unfold slot_perm. rewrite !app_length, !map_length. rewrite app_length in Hlen. lia. }
  split; [exact Hl|]. apply is_perm_of_seq_intro.
  - assert (P : Permutation (slot_perm Q1 Q2) (map (fun q => 2 * q) (Q1 ++ Q2) ++ map (fun q => S (2 * q)) (Q1 ++ Q2))).
    { unfold slot_perm. rewrite !map_app. perm_solve. }
    apply (Permutation_NoDup (Permutation_sym P)). apply NoDup_app_intro.
    + apply NoDup_map_inj_in; [|exact Hnd]. intros x y _ _ E. lia.
    + apply NoDup_map_inj_in; [|exact Hnd]. intros x y _ _ E. lia.
    + intros z Hz Hz'. apply in_map_iff in Hz. apply in_map_iff in Hz'.
      destruct Hz as (q & E & _). destruct Hz' as (q' & E' & _). lia.
  - rewrite Hl. intros z Hz. unfold slot_perm in Hz.
    repeat (apply in_app_or in Hz; destruct Hz as [Hz|Hz]);
      apply in_map_iff in Hz; destruct Hz as (q & <- & Hq);
      (assert (q < m) by (apply Hlt; apply in_or_app; auto)); lia.
Qed.

Lemma slot_transpose h MP Q1 Q2 d :
  gaxes h = flat2 MP ->
  NoDup (Q1 ++ Q2) -> (forall q, In q (Q1 ++ Q2) -> q < length MP) -> length (Q1 ++ Q2) = length MP ->
  g_transpose (slot_perm Q1 Q2) h =
  Some {| gaxes := map (fun q => snd (nth q MP d)) Q1 ++ map (fun q => fst (nth q MP d)) Q2 ++
                   map (fun q => fst (nth q MP d)) Q1 ++ map (fun q => snd (nth q MP d)) Q2;
          gatoms := gatoms h; gbnd := gbnd h; gglue := gglue h |}.
Proof.
  intros Hax Hnd Hlt Hlen.
  destruct (slot_perm_valid Q1 Q2 (length MP) Hnd Hlt Hlen) as (Hl & Hv).
  unfold g_transpose. rewrite Hv, Hl, Hax, flat2_length, Nat.eqb_refl. cbn [andb].
  f_equal. f_equal. unfold slot_perm. rewrite !map_app, !map_map.
  assert (H1 : forall Q, (forall q, In q Q -> q < length MP) ->
               map (fun q => nth (S (2 * q)) (flat2 MP) 0) Q = map (fun q => snd (nth q MP d)) Q).
  { intros Q HQ. apply map_ext_in. intros q Hq. apply flat2_nth. apply HQ. exact Hq. }
  assert (H0 : forall Q, (forall q, In q Q -> q < length MP) ->
               map (fun q => nth (2 * q) (flat2 MP) 0) Q = map (fun q => fst (nth q MP d)) Q).
  { intros Q HQ. apply map_ext_in. intros q Hq. apply flat2_nth. apply HQ. exact Hq. }
  assert (L1 : forall q, In q Q1 -> q < length MP) by (intros q Hq; apply Hlt; apply in_or_app; auto).
  assert (L2 : forall q, In q Q2 -> q < length MP) by (intros q Hq; apply Hlt; apply in_or_app; auto).
  rewrite (H1 Q1 L1), (H0 Q2 L2), (H0 Q1 L1), (H1 Q2 L2). reflexivity.
Qed.

(* ---- _find_block_leg_target_node ------------------------------------------------------------------------------------------------------ *)
Lemma idx_app_l x a b : In x a -> index_of x (a ++ b) = index_of x a.
Proof.
  induction a as [|y t IH]; [intros []|]. intros Hin. cbn.
  destruct (Nat.eqb_spec x y) as [->|Hne]; [reflexivity|].
  destruct Hin as [->|Hin]; [congruence|]. rewrite (IH Hin). reflexivity.
Qed.

Lemma NoDup_app_disj {A} (a b : list A) x : NoDup (a ++ b) -> In x a -> In x b -> False.
Proof.
  induction a as [|y t IH]; intros Hnd Ha Hb; [destruct Ha|].
  cbn in Hnd. inversion Hnd as [|? ? Hni Hnd']; subst.
  destruct Ha as [->|Ha]; [apply Hni; apply in_or_app; right; exact Hb|apply IH; assumption].
Qed.

Lemma block_leg_target_spec on next pre post nb :
  neighbouring_nodes on = pre ++ next :: post -> NoDup (pre ++ next :: post) -> In nb (pre ++ post) ->
  block_leg_target on next nb = Some (2 * S (pos_in (pre ++ post) nb)).
Proof.
  intros Hnbs Hnd Hin.
  destruct (NoDup_mid_notin _ _ _ Hnd) as (Hnpre & Hnpost & Hnd').
  unfold block_leg_target. rewrite !neighbour_index_nbs, Hnbs. unfold id, wire in *. rewrite (idx_mid next pre post Hnpre).
  apply in_app_or in Hin. destruct Hin as [Hin|Hin].
  - rewrite (idx_app_l nb pre (next :: post) Hin). unfold pos_in. rewrite (idx_app_l nb pre post Hin).
    destruct (idx_in nb pre Hin) as [i Ei]. rewrite Ei. destruct (idx_some _ _ _ Ei) as [Hi _].
    destruct (Nat.ltb_spec i (length pre)); [|nlia]. f_equal. nlia.
  - assert (Hnp : ~ In nb pre) by (intros Hp; exact (NoDup_app_disj pre post nb Hnd' Hp Hin)).
    assert (Hne : nb <> next) by (intros ->; contradiction).
    rewrite (idx_app_notin nb pre (next :: post) Hnp). cbn [index_of].
    destruct (Nat.eqb_spec nb next) as [E|_]; [contradiction|].
    unfold pos_in. rewrite (idx_app_notin nb pre post Hnp).
    destruct (idx_in nb post Hin) as [j Ej]. rewrite Ej. cbn [option_map].
    destruct (Nat.ltb_spec (length pre + S j) (length pre)); [nlia|]. f_equal. nlia.
Qed.

(* ==== the blocks of one side of the pair ============================================================================================= *)
Section Global2.
  Variables (woff aoff : nat) (ket op : store).

  Lemma side_closed l n fuel dflt ts :
    (forall t, In t ts -> wf_end woff ket op l n t /\
                          ewire ket (rid t) l = ewire ket l (rid t) /\ ewire op (rid t) n = ewire op n (rid t)) ->
    (forall t, In t ts -> length (rnodes t) <= fuel) ->
    let blk := blkE_of woff aoff ket op fuel l dflt in
    (forall c, In c (map rid ts) ->
        env_block fuel woff aoff ket op c l = Some (blk c) /\
        gaxes (blk c) = [ewire ket l c; ewire op n c; woff + ewire ket l c]) /\
    Permutation (flat_map (fun c => gatoms (blk c)) (map rid ts)) (all_atoms3 aoff ket op (flat_map rnodes ts)) /\
    Permutation (flat_map (fun c => gbnd (blk c)) (map rid ts))
                (flat_map (edge3 woff ket op) (flat_map sub_edges ts) ++ inner_bnd3 woff ket op (flat_map rnodes ts)) /\
    Permutation (flat_map (fun c => gglue (blk c)) (map rid ts)) (open_pairs3 woff ket op (flat_map rnodes ts)).
  Proof.
    intros H Hf blk.
    assert (Hpt : forall t, In t ts ->
              env_block fuel woff aoff ket op (rid t) l = Some (blk (rid t)) /\
              gaxes (blk (rid t)) = [ewire ket l (rid t); ewire op n (rid t); woff + ewire ket l (rid t)] /\
              Permutation (gatoms (blk (rid t))) (all_atoms3 aoff ket op (rnodes t)) /\
              Permutation (gbnd (blk (rid t))) (flat_map (edge3 woff ket op) (sub_edges t) ++ inner_bnd3 woff ket op (rnodes t)) /\
              Permutation (gglue (blk (rid t))) (open_pairs3 woff ket op (rnodes t))).
    { intros t Ht. destruct (H t Ht) as (W & C1 & C2).
      destruct (env_block_end woff aoff ket op l n t fuel W (Hf t Ht)) as (g & Hg & G1 & G2 & G3 & G4).
      unfold blk, blkE_of. rewrite Hg. split; [reflexivity|]. rewrite G1, C1, C2. auto. }
    split; [|split; [|split]].
    - intros c Hc. apply in_map_iff in Hc. destruct Hc as (t & <- & Ht). destruct (Hpt t Ht) as (E1 & E2 & _). auto.
    - unfold all_atoms3. apply perm_children. intros t Ht. apply (Hpt t Ht).
    - rewrite flat_map_map. unfold inner_bnd3. rewrite !flat_map_flat_map.
      rewrite <- (perm_flat_map_split (fun t => flat_map (edge3 woff ket op) (sub_edges t))
                    (fun t => flat_map (fun m => t_bnd ket m ++ t_bnd op m ++ map (Nat.add woff) (t_bnd ket m)) (rnodes t)) ts).
      apply perm_flat_map_pointwise. intros t Ht. apply (Hpt t Ht).
    - unfold open_pairs3. apply perm_children. intros t Ht. apply (Hpt t Ht).
  Qed.
End Global2.

Lemma in_rnodes_keys woff ket op l n ts :
  (forall t, In t ts -> wf_end woff ket op l n t) -> forall z, In z (flat_map rnodes ts) -> In z (akeys (nodes ket)).
Proof.
  intros H z Hz. apply in_flat_map in Hz. destruct Hz as (t & Ht & Hz). exact (wf_end_nodes _ _ _ _ _ _ (H t Ht) z Hz).
Qed.

(* ==== the two-site effective Hamiltonian ================================================================================================= *)
Definition two_slot (Ca Cb : list id) (nb : id) : nat :=
  if memb nb Ca then S (pos_in Ca nb) else S (length Ca + S (pos_in Cb nb)).

Theorem heff_two_with_axes oa ob ln ta tb a b ba bb (w ya yb x : id -> wire) (blka blkb : id -> garr)
        ooa oia oob oib preA postA preB postB :
  neighbouring_nodes oa = preA ++ b :: postA -> NoDup (preA ++ b :: postA) ->
  neighbouring_nodes ob = preB ++ a :: postB -> NoDup (preB ++ a :: postB) ->
  NoDup (neighbouring_nodes ln) ->
  Permutation (neighbouring_nodes ln) ((preA ++ postA) ++ (preB ++ postB)) ->
  ~ In b (neighbouring_nodes ln) ->
  gaxes ta = map ya (neighbouring_nodes oa) ++ [ooa; oia] ->
  gaxes tb = map yb (neighbouring_nodes ob) ++ [oob; oib] ->
  ya b = yb a ->
  (forall nb, In nb (preA ++ postA) -> aget nb ba = Some (blka nb) /\ gaxes (blka nb) = [w nb; ya nb; x nb]) ->
  (forall nb, In nb (preB ++ postB) -> aget nb bb = Some (blkb nb) /\ gaxes (blkb nb) = [w nb; yb nb; x nb]) ->
  exists g, heff_two_with oa ob ln ta tb a b ba bb = Some g /\
    gaxes g = map x (neighbouring_nodes ln) ++ [ooa; oob] ++ map w (neighbouring_nodes ln) ++ [oia; oib] /\
    gatoms g = (gatoms ta ++ flat_map (fun nb => gatoms (blka nb)) (preA ++ postA)) ++
               (gatoms tb ++ flat_map (fun nb => gatoms (blkb nb)) (preB ++ postB)) /\
    gbnd g = ya b :: (rev (map ya (preA ++ postA)) ++ gbnd ta ++ flat_map (fun nb => gbnd (blka nb)) (preA ++ postA)) ++
                     (rev (map yb (preB ++ postB)) ++ gbnd tb ++ flat_map (fun nb => gbnd (blkb nb)) (preB ++ postB)) /\
    gglue g = (gglue ta ++ flat_map (fun nb => gglue (blka nb)) (preA ++ postA)) ++
              (gglue tb ++ flat_map (fun nb => gglue (blkb nb)) (preB ++ postB)).
Proof.
  intros HnA HndA HnB HndB HndK HpK HbK Hta Htb Hab HblkA HblkB.
  set (Ca := preA ++ postA) in *. set (Cb := preB ++ postB) in *. set (K := neighbouring_nodes ln) in *.
  destruct (NoDup_mid_notin _ _ _ HndA) as (HbpreA & HbpostA & HndCa).
  destruct (NoDup_mid_notin _ _ _ HndB) as (HapreB & HapostB & HndCb).
  assert (HndC : NoDup (Ca ++ Cb)) by (eapply Permutation_NoDup; [exact HpK|exact HndK]).
  assert (HKC : forall nb, In nb K -> In nb (Ca ++ Cb)) by (intros nb Hnb; eapply Permutation_in; [exact HpK|exact Hnb]).
  (* the two blocks *)
  destruct (ham_all_but_one_axes ta oa b ba w ya x blka (ya b) [ooa; oia] preA postA HnA HndA) as (ha & Hha & A1 & A2 & A3 & A4).
  { rewrite Hta, HnA, map_app. cbn [map]. rewrite <- !app_assoc. reflexivity. }
  { exact HblkA. }
  destruct (ham_all_but_one_axes tb ob a bb w yb x blkb (yb a) [oob; oib] preB postB HnB HndB) as (hb & Hhb & B1 & B2 & B3 & B4).
  { rewrite Htb, HnB, map_app. cbn [map]. rewrite <- !app_assoc. reflexivity. }
  { exact HblkB. }
  fold Ca in A1, A2, A3, A4. fold Cb in B1, B2, B3, B4.
  unfold heff_two_with. rewrite Hha, Hhb.
  rewrite <- Hab in B1.
  pose proof (g_tensordot_single ha hb [] (ya b) _ _ A1 B1) as Htd. cbn [length app] in Htd. rewrite Htd. clear Htd.
  (* the permutation *)
  set (slot := two_slot Ca Cb).
  assert (Hperm : two_site_perm oa ob ln a b =
                  Some (slot_perm (map slot K) [0; S (length Ca)])).
  { unfold two_site_perm. fold K.
    rewrite (all_some_total _ (fun nb => 2 * slot nb) K).
    - f_equal. unfold slot_perm. rewrite !map_map. cbn [map].
      assert (Ev : nvirt oa = S (length Ca)).
      { rewrite nvirt_nbs, HnA. unfold Ca. rewrite !app_length. cbn [length]. nlia. }
      rewrite Ev. replace (2 * S (length Ca) + 1) with (S (2 * S (length Ca))) by nlia. reflexivity.
    - intros nb Hnb. specialize (HKC nb Hnb). unfold slot, two_slot.
      destruct (memb nb Ca) eqn:Em.
      + apply cl_memb_In in Em.
        assert (Ein : memb nb (neighbouring_nodes oa) = true).
        { apply cl_memb_In. rewrite HnA. apply in_mid_intro. exact Em. }
        rewrite Ein. apply (block_leg_target_spec oa b preA postA nb HnA HndA Em).
      + apply cl_memb_false in Em.
        assert (Hcb : In nb Cb) by (apply in_app_or in HKC; destruct HKC; [contradiction|assumption]).
        assert (Ein : memb nb (neighbouring_nodes oa) = false).
        { apply cl_memb_false. rewrite HnA. intros Hin.
          assert (nb <> b) by (intros ->; contradiction).
          apply Em. eapply in_mid_other; eassumption. }
        assert (Ein' : memb nb (neighbouring_nodes ob) = true).
        { apply cl_memb_In. rewrite HnB. apply in_mid_intro. exact Hcb. }
        rewrite Ein, Ein'. unfold block_leg_next.
        rewrite (block_leg_target_spec ob a preB postB nb HnB HndB Hcb). cbn [option_map]. f_equal.
        rewrite nvirt_nbs, HnA. fold Cb. unfold Ca. rewrite !app_length. cbn [length]. nlia. }
  rewrite Hperm.
  (* the legs in pairs *)
  set (pr := fun nb : id => (w nb, x nb)).
  set (MP := (ooa, oia) :: map pr Ca ++ (oob, oib) :: map pr Cb).
  match goal with |- context [g_transpose _ ?hh] => set (h := hh) end.
  assert (Hh : gaxes h = flat2 MP).
  { unfold h, MP, flat2. cbn [gaxes app flat_map fst snd]. rewrite flat_map_app. cbn [flat_map fst snd app].
    rewrite !flat_map_map. unfold pr. cbn [fst snd]. rewrite <- ?app_assoc. reflexivity. }
  assert (HlenMP : length MP = S (length Ca + S (length Cb))).
  { unfold MP. cbn [length]. rewrite app_length. cbn [length]. rewrite !map_length. reflexivity. }
  assert (HlenK : length K = length Ca + length Cb).
  { rewrite (Permutation_length HpK), app_length. reflexivity. }
  assert (Hslot : forall nb, In nb K ->
            (In nb Ca /\ slot nb = S (pos_in Ca nb) /\ pos_in Ca nb < length Ca) \/
            (~ In nb Ca /\ In nb Cb /\ slot nb = S (length Ca + S (pos_in Cb nb)) /\ pos_in Cb nb < length Cb)).
  { intros nb Hnb. specialize (HKC nb Hnb). unfold slot, two_slot. destruct (memb nb Ca) eqn:Em.
    - apply cl_memb_In in Em. left. split; [exact Em|]. split; [reflexivity|]. apply pos_in_spec. exact Em.
    - apply cl_memb_false in Em. right.
      assert (Hcb : In nb Cb) by (apply in_app_or in HKC; destruct HKC; [contradiction|assumption]).
      split; [exact Em|]. split; [exact Hcb|]. split; [reflexivity|]. apply pos_in_spec. exact Hcb. }
  assert (HndQ : NoDup (map slot K ++ [0; S (length Ca)])).
  { apply NoDup_app_intro.
    - apply NoDup_map_inj_in; [|exact HndK]. intros n1 n2 H1 H2 E.
      destruct (Hslot n1 H1) as [(I1 & S1 & L1)|(N1 & I1 & S1 & L1)];
        destruct (Hslot n2 H2) as [(I2 & S2 & L2)|(N2 & I2 & S2 & L2)]; rewrite S1, S2 in E.
      + apply (pos_in_inj Ca); [assumption|assumption|nlia].
      + exfalso. nlia.
      + exfalso. nlia.
      + apply (pos_in_inj Cb); [assumption|assumption|nlia].
    - constructor; [intros [E|[]]; discriminate|constructor; [intros []|constructor]].
    - intros z Hz Hz'. apply in_map_iff in Hz. destruct Hz as (nb & <- & Hnb).
      destruct (Hslot nb Hnb) as [(I1 & S1 & L1)|(N1 & I1 & S1 & L1)]; rewrite S1 in Hz';
        destruct Hz' as [E|[E|[]]]; nlia. }
  assert (HltQ : forall q, In q (map slot K ++ [0; S (length Ca)]) -> q < length MP).
  { intros q Hq. rewrite HlenMP. apply in_app_or in Hq. destruct Hq as [Hq|[<-|[<-|[]]]]; [|nlia|nlia].
    apply in_map_iff in Hq. destruct Hq as (nb & <- & Hnb).
    destruct (Hslot nb Hnb) as [(I1 & S1 & L1)|(N1 & I1 & S1 & L1)]; rewrite S1; nlia. }
  assert (HlenQ : length (map slot K ++ [0; S (length Ca)]) = length MP).
  { rewrite app_length, map_length, HlenMP, HlenK. cbn [length]. nlia. }
  rewrite (slot_transpose h MP (map slot K) [0; S (length Ca)] (0, 0) Hh HndQ HltQ HlenQ).
  eexists. split; [reflexivity|]. cbn [gaxes gatoms gbnd gglue].
  assert (Hnth : forall nb, In nb K -> nth (slot nb) MP (0, 0) = pr nb).
  { intros nb Hnb. destruct (Hslot nb Hnb) as [(I1 & S1 & L1)|(N1 & I1 & S1 & L1)]; rewrite S1; unfold MP; cbn [nth].
    - rewrite app_nth1 by (rewrite map_length; exact L1).
      rewrite (nth_indep _ (0, 0) (pr 0)) by (rewrite map_length; exact L1). rewrite map_nth.
      f_equal. apply pos_in_spec. exact I1.
    - rewrite app_nth2 by (rewrite map_length; nlia). rewrite map_length.
      replace (length Ca + S (pos_in Cb nb) - length Ca) with (S (pos_in Cb nb)) by nlia. cbn [nth].
      rewrite (nth_indep _ (0, 0) (pr 0)) by (rewrite map_length; exact L1). rewrite map_nth.
      f_equal. apply pos_in_spec. exact I1. }
  assert (Hn0 : nth 0 MP (0, 0) = (ooa, oia)) by reflexivity.
  assert (HnS : nth (S (length Ca)) MP (0, 0) = (oob, oib)).
  { unfold MP. cbn [nth]. rewrite app_nth2 by (rewrite map_length; nlia). rewrite map_length, Nat.sub_diag. reflexivity. }
  split; [|subst h; cbn [gatoms gbnd gglue]; rewrite A2, A3, A4, B2, B3, B4; auto].
  rewrite !map_map. cbn [map]. rewrite Hn0, HnS. cbn [fst snd].
  rewrite (map_ext_in (fun nb => snd (nth (slot nb) MP (0, 0))) x K) by (intros nb Hnb; rewrite (Hnth nb Hnb); reflexivity).
  rewrite (map_ext_in (fun nb => fst (nth (slot nb) MP (0, 0))) w K) by (intros nb Hnb; rewrite (Hnth nb Hnb); reflexivity).
  reflexivity.
Qed.

(* ---- the statement in the vocabulary of Heff2.v ------------------------------------------------------------------------------------------ *)
(* heff_two succeeds for every tree, every adjacent pair a (target), b (next) - whichever is the parent -, independent
   neighbour orders of state and operator and any order of the two-site node's neighbours, and its result is the
   <psi|H|psi> network with the two ket atoms of the pair and their conjugate twins removed:
   axes = (conjugate wires of the two-site tensor's virtual legs in ITS order, output of a's operator, output of b's
   operator; the ket wires of those legs in the same order, input of a's operator, input of b's operator);
   atoms = the two operator atoms of the pair, and every ket atom, operator atom and conjugate copy behind the pair;
   bound = the operator's bond a - b, the operator's wires from the pair to its neighbours, all three wires of every
   edge not incident to the pair, whatever the tensors bind internally; glued = (ket open, operator input),
   (operator output, conjugate open) at every node other than a, b. *)
Theorem heff_two_correct woff aoff ket op a b l tsa tsb :
  wf_twosite woff ket op a b l tsa tsb ->
  exists g, heff_two woff aoff ket op a b l = Some g /\ diagram_is g (two_expected woff aoff ket op a b l tsa tsb).
Proof.
  intros (Sa & Sb & Wab & HndN & ln & o1 & o2 & Hl & HndK & HpK & HaK & HbK & Hlax).
  destruct Sa as (oa & Hoa & HndA & HinA & HidsA & HaxA & HtA).
  destruct Sb as (ob & Hob & HndB & HinB & HidsB & HaxB & HtB).
  destruct (in_split _ _ HinA) as (preA & postA & HnA). destruct (in_split _ _ HinB) as (preB & postB & HnB).
  rewrite HnA in HndA. rewrite HnB in HndB.
  destruct (NoDup_mid_notin _ _ _ HndA) as (HbpreA & HbpostA & _).
  destruct (NoDup_mid_notin _ _ _ HndB) as (HapreB & HapostB & _).
  assert (HCa : map rid tsa = preA ++ postA) by (rewrite HidsA, HnA; apply others_mid; assumption).
  assert (HCb : map rid tsb = preB ++ postB) by (rewrite HidsB, HnB; apply others_mid; assumption).
  (* fuel *)
  assert (Hsize : length (flat_map rnodes (tsa ++ tsb)) <= length (nodes ket)).
  { replace (length (nodes ket)) with (length (akeys (nodes ket))) by apply map_length.
    apply NoDup_incl_length; [exact HndN|]. intros z Hz. rewrite flat_map_app in Hz. apply in_app_or in Hz. destruct Hz as [Hz|Hz].
    - apply (in_rnodes_keys woff ket op l a tsa); [intros t Ht; apply (HtA t Ht)|exact Hz].
    - apply (in_rnodes_keys woff ket op l b tsb); [intros t Ht; apply (HtB t Ht)|exact Hz]. }
  assert (HfA : forall t, In t tsa -> length (rnodes t) <= length (nodes ket)).
  { intros t Ht. pose proof (flat_map_length_in rnodes (tsa ++ tsb) t (in_or_app _ _ _ (or_introl Ht))). lia. }
  assert (HfB : forall t, In t tsb -> length (rnodes t) <= length (nodes ket)).
  { intros t Ht. pose proof (flat_map_length_in rnodes (tsa ++ tsb) t (in_or_app _ _ _ (or_intror Ht))). lia. }
  (* the operator tensors *)
  destruct (tensor_of_view op a oa Hoa) as (ta & Hta & Hta1 & Hta2 & Hta3 & Hta4 & _).
  { rewrite HaxA. intros E. apply (f_equal (@length _)) in E. rewrite app_length in E. cbn in E. lia. }
  destruct (tensor_of_view op b ob Hob) as (tb & Htb & Htb1 & Htb2 & Htb3 & Htb4 & _).
  { rewrite HaxB. intros E. apply (f_equal (@length _)) in E. rewrite app_length in E. cbn in E. lia. }
  (* the blocks *)
  destruct (side_closed woff aoff ket op l a (length (nodes ket)) ta tsa HtA HfA) as (PA & PA2 & PA3 & PA4).
  destruct (side_closed woff aoff ket op l b (length (nodes ket)) ta tsb HtB HfB) as (PB & PB2 & PB3 & PB4).
  set (blk := blkE_of woff aoff ket op (length (nodes ket)) l ta) in *.
  unfold heff_two. rewrite Hoa, Hob, Hl, Hta, Htb.
  unfold side_blocks. rewrite <- HidsA, <- HidsB.
  rewrite (all_some_total _ (fun c => (c, blk c)) (map rid tsa)) by (intros c Hc; destruct (PA c Hc) as (-> & _); reflexivity).
  rewrite (all_some_total _ (fun c => (c, blk c)) (map rid tsb)) by (intros c Hc; destruct (PB c Hc) as (-> & _); reflexivity).
  destruct (heff_two_with_axes oa ob ln ta tb a b (map (fun c => (c, blk c)) (map rid tsa)) (map (fun c => (c, blk c)) (map rid tsb))
              (ewire ket l) (ewire op a) (ewire op b) (fun c => woff + ewire ket l c) blk blk
              (out_wire op a) (in_wire op a) (out_wire op b) (in_wire op b) preA postA preB postB HnA HndA HnB HndB HndK)
    as (g & Hg & G1 & G2 & G3 & G4).
  { rewrite <- HCa, <- HCb. exact HpK. }
  { exact HbK. }
  { rewrite Hta1. exact HaxA. }
  { rewrite Htb1. exact HaxB. }
  { exact Wab. }
  { intros nb Hnb. rewrite <- HCa in Hnb. split; [apply aget_map_pair; exact Hnb|apply PA; exact Hnb]. }
  { intros nb Hnb. rewrite <- HCb in Hnb. split; [apply aget_map_pair; exact Hnb|apply PB; exact Hnb]. }
  exists g. split; [exact Hg|]. rewrite <- HCa, <- HCb in G2, G3, G4.
  unfold diagram_is, two_expected. split; [|split; [|split]].
  - rewrite G1. unfold two_axes, nbs. rewrite Hl. reflexivity.
  - rewrite G2, Hta2, Htb2, PA2, PB2. unfold two_atoms, all_atoms3. rewrite !flat_map_app. perm_solve.
  - rewrite G3, Hta3, Htb3, PA3, PB3, <- !Permutation_rev. unfold two_bnd, inner_bnd3. rewrite !flat_map_app. constructor. perm_solve.
  - rewrite G4, Hta4, Htb4, PA4, PB4. unfold two_glue, open_pairs3. rewrite !flat_map_app. cbn [app]. reflexivity.
Qed.

(* ---- the executable hypothesis checker is sound ---------------------------------------------------------------------------------------------- *)
Lemma wf_sideb_sound woff ket op l n m ts : wf_sideb woff ket op l n m ts = true -> wf_side woff ket op l n m ts.
Proof.
  unfold wf_sideb, wf_side. destruct (aget n (nodes op)) as [on|]; [|discriminate]. intros H.
  repeat (apply andb_prop in H; let H' := fresh "H" in destruct H as [H H']).
  exists on. split; [reflexivity|]. split; [apply cl_nodupb; exact H|]. split; [apply cl_memb_In; exact H3|].
  split; [apply cl_list_eqb; exact H2|]. split; [apply cl_list_eqb; exact H1|].
  intros t Ht. rewrite forallb_forall in H0. specialize (H0 t Ht).
  apply andb_prop in H0. destruct H0 as [H0 E2]. apply andb_prop in H0. destruct H0 as [E0 E1].
  split; [apply wf_endb_sound; exact E0|]. split; apply Nat.eqb_eq; assumption.
Qed.

Lemma firstn_split_two {A} (l pre : list A) k : length l = k + 2 -> firstn k l = pre -> exists o1 o2, l = pre ++ [o1; o2].
Proof.
  intros Hlen Hf. rewrite <- (firstn_skipn k l), Hf.
  assert (Hs : length (skipn k l) = 2) by (rewrite skipn_length; lia).
  destruct (skipn k l) as [|o1 [|o2 [|? ?]]]; try discriminate. exists o1, o2. reflexivity.
Qed.

(* the universal theorem with a decidable hypothesis *)
Theorem wf_twositeb_correct woff aoff ket op a b l :
  wf_twositeb woff ket op a b l = true ->
  exists tsa tsb g,
    side_trees ket l (side_ids op a b) = Some tsa /\ side_trees ket l (side_ids op b a) = Some tsb /\
    heff_two woff aoff ket op a b l = Some g /\ diagram_is g (two_expected woff aoff ket op a b l tsa tsb).
Proof.
  unfold wf_twositeb.
  destruct (side_trees ket l (side_ids op a b)) as [tsa|]; [|discriminate].
  destruct (side_trees ket l (side_ids op b a)) as [tsb|]; [|discriminate].
  destruct (aget l (nodes ket)) as [ln|] eqn:Hl; [|discriminate]. intros H.
  repeat (apply andb_prop in H; let H' := fresh "H" in destruct H as [H H']).
  assert (Hw : wf_twosite woff ket op a b l tsa tsb).
  { unfold wf_twosite. split; [apply wf_sideb_sound; exact H|]. split; [apply wf_sideb_sound; exact H8|].
    split; [apply Nat.eqb_eq; exact H7|]. split; [apply cl_nodupb; exact H6|].
    apply Nat.eqb_eq in H1. apply cl_list_eqb in H0.
    destruct (firstn_split_two _ _ _ H1 H0) as (o1 & o2 & Hax).
    exists ln, o1, o2. split; [exact Hl|]. split; [apply cl_nodupb; exact H5|].
    split; [apply perm_of_nodupb_sound; exact H4|].
    split; [apply cl_memb_false; apply negb_true_iff; exact H3|].
    split; [apply cl_memb_false; apply negb_true_iff; exact H2|exact Hax]. }
  destruct (heff_two_correct woff aoff ket op a b l tsa tsb Hw) as (g & Hg & Hd).
  exists tsa, tsb, g. auto.
Qed.

(* ---- the result checker is sound: a per-instance `true` is the diagram statement ----------------------------------------------------------------- *)
Theorem heff_two_ok_sound woff aoff ket op a b l :
  heff_two_ok woff aoff ket op a b l = true ->
  exists tsa tsb g,
    side_trees ket l (side_ids op a b) = Some tsa /\ side_trees ket l (side_ids op b a) = Some tsb /\
    heff_two woff aoff ket op a b l = Some g /\ diagram_is g (two_expected woff aoff ket op a b l tsa tsb).
Proof.
  unfold heff_two_ok.
  destruct (side_trees ket l (side_ids op a b)) as [tsa|]; [|discriminate].
  destruct (side_trees ket l (side_ids op b a)) as [tsb|]; [|discriminate].
  destruct (heff_two woff aoff ket op a b l) as [g|]; [|discriminate]. intros H.
  exists tsa, tsb, g. split; [reflexivity|]. split; [reflexivity|]. split; [reflexivity|]. apply diagram_matches_sound. exact H.
Qed.
