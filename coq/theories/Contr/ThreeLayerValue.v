(* Property C04: the VALUE of the three-layer diagram <psi| H |psi> returned by the model of
   `expectation_value(state, ttno)` (Contr/Blocks.v: expectation_value / block_three), as a fused flat normal form.
   Definitions only; the proofs are in ThreeLayerValueProofs.v.

   Three layers over the nodes of one tree: 0 = the state (ket), 1 = the operator (TTNO), 2 = the conjugate copy of the
   state (wires shifted by woff, atoms by aoff).  Per node two glued pairs: (ket physical wire, operator input wire) and
   (operator output wire, conjugate copy's physical wire) -- at the root the code contracts the conjugate copy FIRST, so
   the second pair is recorded as (conjugate copy's physical wire, operator output wire). *)
From Coq Require Import List Arith Bool Permutation.
From PTN Require Import TTN.Store TTN.Inv Wire.Sem TTN.InvSem Contr.Blocks Contr.Closed Contr.TensorProd Contr.TensorProdBridge.
Import ListNotations.

(* the tensor of node m in layer l *)
Definition layer_tensor (woff aoff : nat) (ket op : store) (lm : nat * id) : sarr :=
  match fst lm with
  | 0 => tens ket (snd lm)
  | 1 => tens op (snd lm)
  | _ => conj_sarr woff aoff (tens ket (snd lm))
  end.
Definition layer_items (ns : list id) : list (nat * id) := flat_map (fun m => [(0, m); (1, m); (2, m)]) ns.

(* the glued pairs of the diagram expectation_value returns, over the tree t *)
Definition three_glue (woff : nat) (ket op : store) (t : rt) : list (wire * wire) :=
  [(open_wire ket (rid t), in_wire op (rid t)); (woff + open_wire ket (rid t), out_wire op (rid t))]
  ++ open_pairs3 woff ket op (rdesc t).

(* the wires the flat form sums over: the three copies of every tree edge, and one index per glued pair of physical legs *)
Definition three_wires (woff : nat) (ket op : store) (t : rt) : list wire :=
  edge_wires3 woff ket op (rdesc t) ++ map fst (three_glue woff ket op t).

Section Flat.
  Variable R : Type.
  Variables (zero one : R) (add mul : R -> R -> R).
  Variable Wr : nat -> list wire.
  Variable Dm : wire -> nat.
  Variable tbl : nat -> list nat -> R.
  Variables (woff aoff : nat) (ket op : store).

  (* (ket tensor) x (operator tensor) x (conjugate ket tensor) at node m; each factor is the value of the node's tensor
     (Wire/Sem.v), the sums inside a tensor included *)
  Definition node_three (m : id) (r : wire -> nat) : R :=
    mul (mul (value R zero one add mul Wr Dm tbl (tens ket m) r)
             (value R zero one add mul Wr Dm tbl (tens op m) r))
        (value R zero one add mul Wr Dm tbl (conj_sarr woff aoff (tens ket m)) r).

  (* THE FLAT FORM: SUM over all edge wires of ket, operator and conjugate copy and over one index per glued pair of
     physical wires of PROD over the nodes of (ket tensor)(operator tensor)(conjugate ket tensor), every tensor read
     through the gluing (the second wire of a pair carries the index of the first) *)
  Definition three_flat (t : rt) (rho : wire -> nat) : R :=
    sum_bnd R zero add Dm (three_wires woff ket op t)
      (fun r => prod_over R one mul (fun m => node_three m (glue_asg (three_glue woff ket op t) r)) (rnodes t)) rho.
End Flat.

(* ---- separation of the three wire ranges: ket wires < next_wire ket <= operator wires < woff <= conjugate copy ------ *)
Definition op_above (lo : nat) (op : store) : Prop :=
  forall m tm w, aget m (tensors op) = Some tm -> In w (axes tm ++ bnd tm) -> lo <= w.
Definition op_aboveb (lo : nat) (op : store) : bool :=
  forallb (fun kt => forallb (fun w => Nat.leb lo w) (axes (snd kt) ++ bnd (snd kt))) (tensors op).

(* a world of the three networks: atom wires of the state, of the operator, of the conjugate copy *)
Definition three_world (woff aoff : nat) (ket op : store) (a : nat) : list wire :=
  match aget a (atab ket) with
  | Some ws => ws
  | None => match aget a (atab op) with
            | Some ws => ws
            | None => atom_wires (conj_store woff aoff ket) a
            end
  end.
Definition three_dim (woff aoff : nat) (ket op : store) (w : wire) : nat :=
  match aget w (dims ket) with
  | Some d => d
  | None => match aget w (dims op) with Some d => d | None => wdim (conj_store woff aoff ket) w end
  end.
